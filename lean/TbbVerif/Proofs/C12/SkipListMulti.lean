/-
C12 — skip list, multi containers: every level is sorted by (comparator rank, `index_number`) LEXICOGRAPHICALLY and strictly,
so every level is a sub-sequence of the level below also when equal keys are present.

Level 0: a new node goes behind ALL nodes with a key `≤` its own (`not_greater_compare`) and takes
`index_number = prev->index_number() + 1`, so the index numbers of a run of equal keys increase strictly.
Upper levels: the first attempt links the node behind the last node with key `≤` (which, on level 0, sits at or before the
level-0 predecessor, hence has a smaller index number); after a failed CAS the re-search (`internal_find_position` with the
node overload) walks past equal keys with index number `≤` its own and stops at the first larger one.
-/
import TbbVerif.Proofs.C12.SkipListThrow

namespace TbbVerif.C12
namespace SkipList

/-! ### the lexicographic order -/

def lexLt (c : Core) (a b : Node) : Prop :=
  (c.key a).ok < (c.key b).ok ∨ ((c.key a).ok = (c.key b).ok ∧ c.idx a < c.idx b)

theorem lexLt_trans {c : Core} {a b d : Node} (h1 : lexLt c a b) (h2 : lexLt c b d) : lexLt c a d := by
  unfold lexLt at *
  omega

theorem lexLt_asymm {c : Core} {a b : Node} (h1 : lexLt c a b) (h2 : lexLt c b a) : False := by
  unfold lexLt at *
  omega

theorem lexLt_irrefl {c : Core} {a : Node} (h : lexLt c a a) : False := lexLt_asymm h h

theorem lexLt_congr {c c' : Core} {a b : Node} (hka : c'.key a = c.key a) (hkb : c'.key b = c.key b)
    (hia : c'.idx a = c.idx a) (hib : c'.idx b = c.idx b) : lexLt c' a b ↔ lexLt c a b := by
  unfold lexLt; rw [hka, hkb, hia, hib]

/-- a list that is strictly sorted by an asymmetric transitive relation and whose members all belong to another such list
is a sub-sequence of it -/
theorem sublist_of_strict_rel {R : Node → Node → Prop} (hasym : ∀ a b, R a b → R b a → False)
    (htr : ∀ a b d, R a b → R b d → R a d) : ∀ (A B : List Node), A.Pairwise R → B.Pairwise R → (∀ x ∈ A, x ∈ B) → A.Sublist B := by
  intro A B
  induction B generalizing A with
  | nil =>
    intro _ _ hsub
    cases A with
    | nil => exact List.Sublist.refl _
    | cons a as => exact absurd (hsub a (by simp)) (by simp)
  | cons b bs ih =>
    intro hA hB hsub
    cases A with
    | nil => exact List.nil_sublist _
    | cons a as =>
      have hA' := List.pairwise_cons.mp hA
      have hB' := List.pairwise_cons.mp hB
      by_cases hab : a = b
      · subst hab
        refine (ih as hA'.2 hB'.2 ?_).cons_cons a
        intro x hx
        have hlt := hA'.1 x hx
        rcases List.mem_cons.mp (hsub x (List.mem_cons_of_mem _ hx)) with h | h
        · rw [h] at hlt; exact absurd hlt (fun h' => hasym _ _ h' h')
        · exact h
      · have ham : a ∈ bs := by
          rcases List.mem_cons.mp (hsub a (by simp)) with h | h
          · exact absurd h hab
          · exact h
        have hba := hB'.1 a ham
        refine (ih (a :: as) hA hB'.2 ?_).cons b
        intro x hx
        have hfx : R b x := by
          rcases List.mem_cons.mp hx with h | h
          · rw [h]; exact hba
          · exact htr _ _ _ hba (hA'.1 x h)
        rcases List.mem_cons.mp (hsub x hx) with h | h
        · rw [h] at hfx; exact absurd hfx (fun h' => hasym _ _ h' h')
        · exact h

/-! ### the invariant -/

/-- a recorded `curr_nodes[l]`: strictly behind the new node in the lexicographic order (by key, or by index number — then
it is a member of level 0, whose index numbers are final) -/
def LexCur (c : Core) (k : Key) (new : Node) : Option Node → Prop
  | none => True
  | some x => k.ok < (c.key x).ok ∨ ((c.key x).ok = k.ok ∧ c.idx new < c.idx x ∧ x ∈ c.chain 0)

def LexRec (c : Core) (k : Key) (new : Node) (hgt : Nat) (prevs : Nat → Node) (currs : Nat → Option Node) (lo : Nat) : Prop :=
  ∀ l, lo ≤ l → l < hgt → lexLt c (prevs l) new ∧ LexCur c k new (currs l)

/-- during the descent: every recorded `curr_nodes[l]` has a strictly larger key (`not_greater_compare` walks past equal keys) -/
def StrictRec (c : Core) (k : Key) (hgt : Nat) (currs : Nat → Option Node) (lo : Nat) : Prop :=
  ∀ l, lo ≤ l → l < hgt → ∀ x, currs l = some x → k.ok < (c.key x).ok

def TInvM (c : Core) (th : Th) : Prop :=
  match th.pc with
  | .desc => StrictRec c th.k th.hgt th.currs (th.lvl + 1)
  | .setNext0 => StrictRec c th.k th.hgt th.currs 0
  | .cas0 => StrictRec c th.k th.hgt th.currs 0 ∧ c.idx th.new = c.idx (th.prevs 0) + 1
  | .ldMaxh2 => LexRec c th.k th.new th.hgt th.prevs th.currs 1
  | .casMaxh => LexRec c th.k th.new th.hgt th.prevs th.currs 1
  | .setNextU => LexRec c th.k th.new th.hgt th.prevs th.currs th.level
  | .casU => LexRec c th.k th.new th.hgt th.prevs th.currs th.level
  | .refind => LexRec c th.k th.new th.hgt th.prevs th.currs th.level ∧ lexLt c th.prev th.new
  | _ => True

structure MInv (s : St) : Prop where
  lex : ∀ l, (s.core.chain l).Pairwise (lexLt s.core)
  tm : ∀ (t : Tid) (th : Th), s.ths[t]? = some th → TInvM s.core th

theorem tinvm_fields {c : Core} (th : Th) (a b d : Nat) :
    TInvM c { th with fk := a, fn := b, calls := d } ↔ TInvM c th := Iff.rfl

theorem tinvm_disarm {c : Core} (th : Th) : TInvM c th.disarm ↔ TInvM c th := Iff.rfl

/-- what a step may do to the index numbers: only the stepping thread's private node changes -/
def IdxFrame (t : Tid) (c c' : Core) : Prop :=
  ∀ x, x < c.fresh → c'.idx x = c.idx x ∨ (c.owner x = t ∧ x ∉ c.chain 0)

variable {cfg : Cfg} {s : St} {t : Tid} {th : Th}

theorem idx_chain0 {c c' : Core} (f : IdxFrame t c c') {hd : Bool} (g : KGood cfg c hd) {x : Node} (hx : x ∈ c.chain 0) :
    c'.idx x = c.idx x := by
  rcases f x (g.mem_lt hx) with h | h
  · exact h
  · exact absurd hx h.2

theorem idx_chain {c c' : Core} (f : IdxFrame t c c') {hd : Bool} (g : KGood cfg c hd) {l : Nat} {x : Node} (hx : x ∈ c.chain l) :
    c'.idx x = c.idx x := idx_chain0 f g (g.sub0 l x hx)

theorem idx_other {c c' : Core} (f : IdxFrame t c c') {u : Tid} (hut : u ≠ t) {x : Node} (hlt : x < c.fresh) (ho : c.owner x = u) :
    c'.idx x = c.idx x := by
  rcases f x hlt with h | h
  · exact h
  · rw [ho] at h; exact absurd h.1 hut

theorem lexLt_frame {c c' : Core} {hd : Bool} (g : KGood cfg c hd) (e : Ext t c c') (f : IdxFrame t c c') {l l' : Nat} {a b : Node}
    (ha : a ∈ c.chain l) (hb : b ∈ c.chain l') : lexLt c' a b ↔ lexLt c a b :=
  lexLt_congr (e.key a (g.mem_lt ha)) (e.key b (g.mem_lt hb)) (idx_chain f g ha) (idx_chain f g hb)

/-- the other threads' facts survive a step of thread `t` -/
theorem tinvm_ext {c c' : Core} {hd : Bool} {mh : Nat} {u : Tid} {thu : Th} (g : KGood cfg c hd) (e : Ext t c c')
    (f : IdxFrame t c c') (hut : u ≠ t) (hk : TInvK cfg c hd mh u thu) (h : TInvM c thu) : TInvM c' thu := by
  have lexrec : ∀ {lo : Nat}, 1 ≤ lo → Own c u thu.new thu.k thu.hgt → InBelow c thu.new lo →
      Rec cfg c thu.k thu.hgt thu.prevs thu.currs lo → LexRec c thu.k thu.new thu.hgt thu.prevs thu.currs lo →
      LexRec c' thu.k thu.new thu.hgt thu.prevs thu.currs lo := by
    intro lo hlo hown hin hrec hl l h1 h2
    obtain ⟨hp, hc⟩ := hrec l h1 h2
    obtain ⟨hl1, hl2⟩ := hl l h1 h2
    have hn0 : thu.new ∈ c.chain 0 := hin 0 (by omega)
    refine ⟨(lexLt_frame g e f hp.1 hn0).mpr hl1, ?_⟩
    cases hcur : thu.currs l with
    | none => trivial
    | some x =>
      rw [hcur] at hc hl2
      have hxlt : x < c.fresh := hc.2
      simp only [LexCur] at hl2 ⊢
      rcases hl2 with h3 | ⟨h3, h4, h5⟩
      · left; rw [e.key x hxlt]; exact h3
      · right
        exact ⟨by rw [e.key x hxlt]; exact h3, by rw [idx_chain0 f g hn0, idx_chain0 f g h5]; exact h4, e.mem h5⟩
  have strict : ∀ {lo : Nat}, Rec cfg c thu.k thu.hgt thu.prevs thu.currs lo → StrictRec c thu.k thu.hgt thu.currs lo →
      StrictRec c' thu.k thu.hgt thu.currs lo := by
    intro lo hrec hs l h1 h2 x hx
    have hc := (hrec l h1 h2).2
    rw [hx] at hc
    rw [e.key x hc.2]
    exact hs l h1 h2 x hx
  unfold TInvM at h ⊢
  unfold TInvK at hk
  split <;> rename_i hpc <;> simp only [hpc] at h hk
  · exact strict hk.2.2.2.1 h
  · exact strict hk.2.2.1 h
  · obtain ⟨h1, h2, h3, h4, _⟩ := hk
    refine ⟨strict h3 h.1, ?_⟩
    rw [idx_other f hut h1.lt h1.own, idx_chain0 f g (h3 0 (Nat.le_refl _) h4).1.1]
    exact h.2
  · exact lexrec (Nat.le_refl _) hk.1 hk.2.1 hk.2.2.2 h
  · exact lexrec (Nat.le_refl _) hk.1 hk.2.1 hk.2.2.2.1 h
  · obtain ⟨h1, h2, h3, h4, h5, h6⟩ := hk
    exact lexrec h2 h1 h4 h6 h
  · obtain ⟨h1, h2, h3, h4, h5, h6, _⟩ := hk
    exact lexrec h2 h1 h4 h6 h
  · obtain ⟨h1, h2, h3, h4, h5, h6, h7, h8, h9⟩ := hk
    refine ⟨lexrec h2 h1 h4 h6 h.1, ?_⟩
    exact (lexLt_frame g e f h9.1 (h4 0 (by omega))).mpr h.2
  · trivial

/-! ### one step -/

structure StepOkM (s : St) (t : Tid) (o : Out) : Prop where
  idx : IdxFrame t s.core o.st.core
  lex : ∀ l, (o.st.core.chain l).Pairwise (lexLt o.st.core)
  tm : TInvM o.st.core o.th

/-- levels stay lexicographically sorted when the step links nothing -/
theorem lex_same {c c' : Core} {hd : Bool} (g : KGood cfg c hd) (e : Ext t c c') (f : IdxFrame t c c')
    (hch : ∀ l, c'.chain l = c.chain l) (h : ∀ l, (c.chain l).Pairwise (lexLt c)) :
    ∀ l, (c'.chain l).Pairwise (lexLt c') := by
  intro l
  rw [hch l]
  refine List.Pairwise.imp_of_mem ?_ (h l)
  intro a b ha hb hab
  exact (lexLt_frame g e f ha hb).mpr hab

theorem idxframe_refl (c : Core) : IdxFrame t c c := fun _ _ => Or.inl rfl

/-- a step that leaves the shared structure alone -/
theorem stepm_local {o : Out} (hM : MInv s) (hcore : o.st.core = s.core) (ht : TInvM s.core o.th) : StepOkM s t o :=
  ⟨by rw [hcore]; exact idxframe_refl _, by rw [hcore]; exact hM.lex, by rw [hcore]; exact ht⟩

/-! ### the steps -/

/-- a step that changes the shared structure without linking anything -/
theorem stepm_nolink {o : Out} (hI : KInv cfg s) (hM : MInv s) (so : StepOkK cfg s t o) (f : IdxFrame t s.core o.st.core)
    (hch : ∀ l, o.st.core.chain l = s.core.chain l) (ht : TInvM o.st.core o.th) : StepOkM s t o :=
  ⟨f, lex_same hI.g so.ext f hch hM.lex, ht⟩

theorem m_trivial (hM : MInv s) (hpc : th.pc = .ldHead ∨ th.pc = .casHead ∨ th.pc = .szInc ∨ th.pc = .fLdHead ∨ th.pc = .fLdMaxh ∨
    th.pc = .fdesc ∨ th.pc = .tLdHead ∨ th.pc = .twalk) : StepOkM s t (thStepCore cfg s t th) := by
  unfold thStepCore
  rcases hpc with h | h | h | h | h | h | h | h <;> simp only [h] <;> (repeat' split) <;>
    exact stepm_local hM rfl (by simp [TInvM, Th.finish])

theorem m_idle (hI : KInv cfg s) (hM : MInv s) (hpc : th.pc = .idle) (so : StepOkK cfg s t (thStepCore cfg s t th)) :
    StepOkM s t (thStepCore cfg s t th) := by
  revert so
  unfold thStepCore
  simp only [hpc]
  split
  · intro _; exact stepm_local hM rfl (by simp [TInvM, hpc])
  · intro _; exact stepm_local hM rfl (by simp [TInvM, Th.finish])
  · split
    · intro _; exact stepm_local hM rfl (by simp [TInvM, Th.finish])
    · intro so
      refine stepm_nolink hI hM so ?_ (fun l => rfl) (by simp [TInvM])
      intro x hx
      left
      show upd s.core.idx s.core.fresh 0 x = s.core.idx x
      simp [upd]; omega
  · intro _; exact stepm_local hM rfl (by simp [TInvM])
  · intro _; exact stepm_local hM rfl (by simp [TInvM])

theorem m_ldMaxh (hM : MInv s) (hpc : th.pc = .ldMaxh) : StepOkM s t (thStepCore cfg s t th) := by
  unfold thStepCore
  simp only [hpc]
  split
  · refine stepm_local hM rfl ?_
    simp only [TInvM]
    intro l _ _ x hx; simp at hx
  · refine stepm_local hM rfl ?_
    simp only [TInvM]
    intro l _ _ x hx; simp at hx

theorem strict_upd {c : Core} {k : Key} {hgt : Nat} {currs : Nat → Option Node} {lvl : Nat} {cn : Option Node}
    (h : StrictRec c k hgt currs (lvl + 1)) (hc : ∀ x, cn = some x → k.ok < (c.key x).ok) :
    StrictRec c k hgt (upd currs lvl cn) lvl := by
  intro l h1 h2 x hx
  by_cases hl : l = lvl
  · subst hl; simp only [upd, ite_true] at hx; exact hc x hx
  · simp only [upd, hl, ite_false] at hx; exact h l (by omega) h2 x hx

theorem tinvm_afterDesc {c : Core} (hpc : th.pc = .desc) {cn : Option Node} (h : StrictRec c th.k th.hgt th.currs (th.lvl + 1))
    (hc : ∀ x, cn = some x → th.k.ok < (c.key x).ok) : TInvM c (afterDesc th cn) := by
  unfold afterDesc
  have hs := strict_upd h hc
  by_cases h0 : th.lvl = 0
  · simp only [h0, ite_true, TInvM]
    rw [h0] at hs; exact hs
  · simp only [h0, ite_false, TInvM, hpc]
    have : th.lvl - 1 + 1 = th.lvl := by omega
    rw [this]; exact hs

theorem m_desc (hm : cfg.multi = true) (hM : MInv s) (hpc : th.pc = .desc) (h : TInvM s.core th) :
    StepOkM s t (thStepCore cfg s t th) := by
  unfold TInvM at h
  simp only [hpc] at h
  unfold thStepCore
  simp only [hpc]
  split
  · rename_i c' hcn
    split
    · refine stepm_local hM rfl ?_
      simp only [TInvM, hpc]; exact h
    · rename_i hadv
      have hlt : th.k.ok < (s.core.key c').ok := by
        simp only [advKey, rule, hm, ite_true, adv, decide_eq_true_eq] at hadv
        omega
      have hcn' : ∀ x, s.core.next th.lvl th.prev = some x → th.k.ok < (s.core.key x).ok := by
        intro x hx; rw [hcn] at hx; simp only [Option.some.injEq] at hx; rw [← hx]; exact hlt
      split
      · exact stepm_local hM rfl (by simp [TInvM, Th.finish])
      · exact stepm_local hM rfl (tinvm_afterDesc hpc h hcn')
  · rename_i hcn
    exact stepm_local hM rfl (tinvm_afterDesc hpc h (fun x hx => by rw [hcn] at hx; simp at hx))

theorem m_setNext0 (hm : cfg.multi = true) (hI : KInv cfg s) (hM : MInv s) (hpc : th.pc = .setNext0)
    (hk : TInvK cfg s.core s.headSet s.maxh t th) (h : TInvM s.core th) (so : StepOkK cfg s t (thStepCore cfg s t th)) :
    StepOkM s t (thStepCore cfg s t th) := by
  unfold TInvM at h
  unfold TInvK at hk
  simp only [hpc] at h hk
  obtain ⟨h1, h2, h3, h4, _⟩ := hk
  have hpv : th.prevs 0 ∈ s.core.chain 0 := (h3 0 (Nat.le_refl _) h4).1.1
  have hnew : th.new ∉ s.core.chain 0 := h2 0 (Nat.le_refl _)
  have hne : th.prevs 0 ≠ th.new := fun he => hnew (he ▸ hpv)
  revert so
  unfold thStepCore
  simp only [hpc]
  intro so
  refine stepm_nolink hI hM so ?_ (fun l => rfl) ?_
  · intro x _
    by_cases hx : x = th.new
    · right; rw [hx]; exact ⟨h1.own, hnew⟩
    · left; show upd s.core.idx th.new _ x = s.core.idx x
      simp [upd, hx]
  · simp only [TInvM]
    refine ⟨h, ?_⟩
    show upd s.core.idx th.new _ th.new = upd s.core.idx th.new _ (th.prevs 0) + 1
    simp [upd, hne, hm]

/-- everything behind the level-`l` predecessor has a strictly larger key when the recorded successor has -/
theorem aft_strict {c : Core} {hd : Bool} (g : KGood cfg c hd) {l : Nat} {p : Node} {k : Nat} {cn : Option Node}
    (hp : p ∈ c.chain l) (hnext : c.next l p = cn) (hs : ∀ x, cn = some x → k < (c.key x).ok) :
    ∀ x ∈ aft p (c.chain l), k < (c.key x).ok := by
  intro x hx
  cases hcn : cn with
  | none =>
    rw [hcn] at hnext
    rw [next_none g hp hnext] at hx; simp at hx
  | some nx =>
    rw [hcn] at hnext
    obtain ⟨r, hr⟩ := next_some g hp hnext
    rw [hr] at hx
    rcases List.mem_cons.mp hx with he | he
    · rw [he]; exact hs nx hcn
    · have hnx : nx ∈ c.chain l := mem_of_mem_aft (p := p) (by rw [hr]; simp)
      have hnd : (c.chain l).Nodup := (g.lv l).nodup
      have hsorted : (c.chain l).Pairwise (fun a b => (c.key a).ok ≤ (c.key b).ok) := (g.lv l).sorted
      have : x ∈ aft nx (c.chain l) := by rw [aft_step hnd hr]; exact he
      have hle := pairwise_aft hsorted hnx this
      have := hs nx hcn
      omega

theorem m_cas0 (hI : KInv cfg s) (hM : MInv s) (hpc : th.pc = .cas0)
    (hk : TInvK cfg s.core s.headSet s.maxh t th) (h : TInvM s.core th) : StepOkM s t (thStepCore cfg s t th) := by
  unfold TInvM at h
  unfold TInvK at hk
  simp only [hpc] at h hk
  obtain ⟨h1, h2, h3, h4, _, h6, _⟩ := hk
  obtain ⟨hs, hidx⟩ := h
  obtain ⟨hp, _⟩ := h3 0 (Nat.le_refl _) h4
  have hnew : th.new ∉ s.core.chain 0 := h2 0 (Nat.le_refl _)
  unfold thStepCore
  simp only [hpc]
  split
  · rename_i hcas
    have haft : ∀ x ∈ aft (th.prevs 0) (s.core.chain 0), th.k.ok < (s.core.key x).ok :=
      aft_strict hI.g hp.1 hcas (fun x hx => hs 0 (Nat.le_refl _) h4 x hx)
    have hpvnew : lexLt s.core (th.prevs 0) th.new := by
      unfold lexLt; rw [h1.key, hidx]
      have := hp.2.1
      omega
    refine ⟨fun _ _ => Or.inl rfl, ?_, ?_⟩
    · intro l
      show (upd s.core.chain 0 (insAfter (th.prevs 0) th.new (s.core.chain 0)) l).Pairwise (lexLt s.core)
      by_cases hl : l = 0
      · subst hl
        simp only [upd, ite_true]
        refine pairwise_insAfter (hM.lex 0) hpvnew ?_ (fun x hx => lexLt_trans hx hpvnew)
        intro x hx
        left; rw [h1.key]; exact haft x hx
      · simp only [upd, hl, ite_false]; exact hM.lex l
    · -- the upper levels' recorded neighbours are in lexicographic position
      simp only [TInvM]
      intro l hl1 hl2
      obtain ⟨hpl, hcl⟩ := h3 l (Nat.zero_le _) hl2
      refine ⟨?_, ?_⟩
      · show lexLt s.core (th.prevs l) th.new
        unfold lexLt
        rw [h1.key]
        rcases Nat.lt_or_ge (s.core.key (th.prevs l)).ok th.k.ok with hlt | hge
        · exact Or.inl hlt
        · right
          have hkeq : (s.core.key (th.prevs l)).ok = th.k.ok := Nat.le_antisymm hpl.2.1 hge
          refine ⟨hkeq, ?_⟩
          rw [hidx]
          have hp0 : th.prevs l ∈ s.core.chain 0 := hI.g.sub0 l _ hpl.1
          by_cases he : th.prevs l = th.prevs 0
          · rw [he]; omega
          · rcases aft_total hp.1 hp0 (Ne.symm he) with ha | ha
            · have := haft _ ha; omega
            · have hlx := pairwise_aft (hM.lex 0) hp0 ha
              unfold lexLt at hlx
              have := hp.2.1
              omega
      · cases hc : th.currs l with
        | none => trivial
        | some x => exact Or.inl (hs l (Nat.zero_le _) hl2 x hc)
  · exact stepm_local hM rfl (by simp [TInvM])

theorem lexrec_mono {c : Core} {k : Key} {new : Node} {hgt : Nat} {prevs : Nat → Node} {currs : Nat → Option Node} {lo lo' : Nat}
    (h : LexRec c k new hgt prevs currs lo) (hle : lo ≤ lo') : LexRec c k new hgt prevs currs lo' :=
  fun l h1 h2 => h l (Nat.le_trans hle h1) h2

/-- `LexRec` only looks at keys, index numbers and level 0 -/
theorem lexrec_congr {c c' : Core} {k : Key} {new : Node} {hgt : Nat} {prevs : Nat → Node} {currs : Nat → Option Node} {lo : Nat}
    (hk : c'.key = c.key) (hi : c'.idx = c.idx) (h0 : c'.chain 0 = c.chain 0)
    (h : LexRec c k new hgt prevs currs lo) : LexRec c' k new hgt prevs currs lo := by
  intro l h1 h2
  obtain ⟨ha, hb⟩ := h l h1 h2
  refine ⟨by unfold lexLt at ha ⊢; rw [hk, hi]; exact ha, ?_⟩
  cases hc : currs l with
  | none => trivial
  | some x =>
    rw [hc] at hb
    simp only [LexCur] at hb ⊢
    rw [hk, hi, h0]; exact hb

theorem tinvm_upper {c : Core} (h : LexRec c th.k th.new th.hgt th.prevs th.currs 1) (m : Nat) :
    TInvM c { th with pc := if 1 < th.hgt then .setNextU else .szInc, level := 1, mh := m } := by
  by_cases hh : 1 < th.hgt
  · simp only [hh, ite_true, TInvM]; exact h
  · simp only [hh, ite_false, TInvM]

theorem m_ldMaxh2 (hM : MInv s) (hpc : th.pc = .ldMaxh2) (h : TInvM s.core th) : StepOkM s t (thStepCore cfg s t th) := by
  unfold TInvM at h
  simp only [hpc] at h
  unfold thStepCore
  simp only [hpc]
  split
  · exact stepm_local hM rfl (tinvm_upper h _)
  · exact stepm_local hM rfl (by simp only [TInvM]; exact h)

theorem m_casMaxh (hM : MInv s) (hpc : th.pc = .casMaxh) (h : TInvM s.core th) : StepOkM s t (thStepCore cfg s t th) := by
  unfold TInvM at h
  simp only [hpc] at h
  unfold thStepCore
  simp only [hpc]
  split
  · exact stepm_local hM rfl (by
      by_cases hh : 1 < th.hgt
      · simp only [hh, ite_true, TInvM]; exact h
      · simp only [hh, ite_false, TInvM])
  · split
    · exact stepm_local hM rfl (tinvm_upper h _)
    · exact stepm_local hM rfl (by simp only [TInvM, hpc]; exact h)

theorem m_setNextU (hI : KInv cfg s) (hM : MInv s) (hpc : th.pc = .setNextU) (h : TInvM s.core th)
    (so : StepOkK cfg s t (thStepCore cfg s t th)) : StepOkM s t (thStepCore cfg s t th) := by
  unfold TInvM at h
  simp only [hpc] at h
  revert so
  unfold thStepCore
  simp only [hpc]
  intro so
  exact stepm_nolink hI hM so (fun _ _ => Or.inl rfl) (fun l => rfl) (by simp only [TInvM]; exact h)

theorem m_casU (hI : KInv cfg s) (hM : MInv s) (hpc : th.pc = .casU)
    (hk : TInvK cfg s.core s.headSet s.maxh t th) (h : TInvM s.core th) : StepOkM s t (thStepCore cfg s t th) := by
  unfold TInvM at h
  unfold TInvK at hk
  simp only [hpc] at h hk
  obtain ⟨h1, h2, h3, h4, h5, h6, _⟩ := hk
  obtain ⟨hp, _⟩ := h6 th.level (Nat.le_refl _) h3
  obtain ⟨hlp, hlc⟩ := h th.level (Nat.le_refl _) h3
  unfold thStepCore
  simp only [hpc]
  split
  · rename_i hcas
    have hlv0 : th.level ≠ 0 := by omega
    refine ⟨fun _ _ => Or.inl rfl, ?_, ?_⟩
    · intro l
      show (upd s.core.chain th.level (insAfter (th.prevs th.level) th.new (s.core.chain th.level)) l).Pairwise (lexLt s.core)
      by_cases hl : l = th.level
      · subst hl
        simp only [upd, ite_true]
        refine pairwise_insAfter (hM.lex _) hlp ?_ (fun x hx => lexLt_trans hx hlp)
        intro x hx
        cases hcn : th.currs th.level with
        | none =>
          rw [hcn] at hcas
          rw [next_none hI.g hp.1 hcas] at hx; simp at hx
        | some nx =>
          rw [hcn] at hcas hlc
          obtain ⟨r, hr⟩ := next_some hI.g hp.1 hcas
          have hnewnx : lexLt s.core th.new nx := by
            unfold lexLt; rw [h1.key]
            simp only [LexCur] at hlc
            rcases hlc with h7 | ⟨h7, h8, _⟩
            · exact Or.inl h7
            · exact Or.inr ⟨h7.symm, h8⟩
          rw [hr] at hx
          rcases List.mem_cons.mp hx with he | he
          · rw [he]; exact hnewnx
          · have hnx : nx ∈ s.core.chain th.level := mem_of_mem_aft (p := th.prevs th.level) (by rw [hr]; simp)
            have hnd : (s.core.chain th.level).Nodup := (hI.g.lv th.level).nodup
            have : x ∈ aft nx (s.core.chain th.level) := by rw [aft_step hnd hr]; exact he
            exact lexLt_trans hnewnx (pairwise_aft (hM.lex _) hnx this)
      · simp only [upd, hl, ite_false]; exact hM.lex l
    · have hrec := lexrec_mono h (Nat.le_succ th.level)
      by_cases hh : th.level + 1 < th.hgt
      · simp only [hh, ite_true, TInvM]
        exact lexrec_congr (c := s.core) rfl rfl (by simp [upd, Ne.symm hlv0]) hrec
      · simp only [hh, ite_false, TInvM]
  · refine stepm_local hM rfl ?_
    simp only [TInvM]
    exact ⟨h, hlp⟩

theorem lexrec_upd {c : Core} {k : Key} {new : Node} {hgt : Nat} {prevs : Nat → Node} {currs : Nat → Option Node} {lo lvl : Nat}
    {p : Node} {cn : Option Node} (h : LexRec c k new hgt prevs currs lo) (hp : lexLt c p new) (hc : LexCur c k new cn) :
    LexRec c k new hgt (upd prevs lvl p) (upd currs lvl cn) lo := by
  intro l h1 h2
  by_cases hl : l = lvl
  · subst hl; simp only [upd, ite_true]; exact ⟨hp, hc⟩
  · simp only [upd, hl, ite_false]; exact h l h1 h2

theorem m_refind (hm : cfg.multi = true) (hI : KInv cfg s) (hM : MInv s) (hpc : th.pc = .refind)
    (hk : TInvK cfg s.core s.headSet s.maxh t th) (h : TInvM s.core th) : StepOkM s t (thStepCore cfg s t th) := by
  unfold TInvM at h
  unfold TInvK at hk
  simp only [hpc] at h hk
  obtain ⟨h1, h2, h3, h4, h5, h6, h7, h8, h9⟩ := hk
  obtain ⟨hrec, hprev⟩ := h
  have hnew0 : th.new ∈ s.core.chain 0 := h4 0 (by omega)
  -- the records after the walk on level `lvl` has stopped in front of `cn`
  have stop : ∀ (cn : Option Node), LexCur s.core th.k th.new cn →
      LexRec s.core th.k th.new th.hgt (upd th.prevs th.lvl th.prev) (upd th.currs th.lvl cn) th.level ∧
      (th.lvl + 1 < th.hgt → lexLt s.core (upd th.prevs th.lvl th.prev (th.lvl + 1)) th.new) := by
    intro cn hcn
    refine ⟨lexrec_upd (lvl := th.lvl) hrec hprev hcn, ?_⟩
    intro hh
    have hne : th.lvl + 1 ≠ th.lvl := by omega
    simp only [upd, hne, ite_false]
    exact (hrec (th.lvl + 1) (by omega) hh).1
  unfold thStepCore
  simp only [hpc]
  split
  · rename_i c' hcn
    obtain ⟨r, hr⟩ := next_some hI.g h9.1 hcn
    have hc'l : c' ∈ s.core.chain th.lvl := mem_of_mem_aft (p := th.prev) (by rw [hr]; simp)
    have hc'0 : c' ∈ s.core.chain 0 := hI.g.sub0 _ _ hc'l
    have hne : c' ≠ th.new := fun he => h5 th.lvl h7 (he ▸ hc'l)
    split
    · rename_i hadv
      refine stepm_local hM rfl ?_
      simp only [TInvM, hpc]
      refine ⟨hrec, ?_⟩
      simp only [advNode, hm, ite_true, Bool.or_eq_true, Bool.and_eq_true, decide_eq_true_eq] at hadv
      unfold lexLt
      rw [h1.key]
      rcases hadv with h10 | ⟨h10, h11⟩
      · exact Or.inl h10
      · right
        refine ⟨h10, ?_⟩
        rcases aft_total hc'0 hnew0 hne with ha | ha
        · have := pairwise_aft (hM.lex 0) hc'0 ha
          unfold lexLt at this; rw [h1.key] at this; omega
        · have := pairwise_aft (hM.lex 0) hnew0 ha
          unfold lexLt at this; rw [h1.key] at this; omega
    · rename_i hadv
      have hlc : LexCur s.core th.k th.new (some c') := by
        simp only [advNode, hm, ite_true, Bool.or_eq_true, Bool.and_eq_true, decide_eq_true_eq, not_or, not_and] at hadv
        simp only [LexCur]
        rcases Nat.lt_or_ge th.k.ok (s.core.key c').ok with hlt | hge
        · exact Or.inl hlt
        · right
          have hkeq : (s.core.key c').ok = th.k.ok := by omega
          exact ⟨hkeq, by have := hadv.2 hkeq; omega, hc'0⟩
      obtain ⟨hs1, hs2⟩ := stop (some c') hlc
      refine stepm_local hM rfl ?_
      simp only
      split
      · rename_i hh; simp only [TInvM]; rw [hcn]; exact ⟨hs1, hs2 hh⟩
      · simp only [TInvM]; rw [hcn]; exact hs1
  · rename_i hcn
    obtain ⟨hs1, hs2⟩ := stop none trivial
    refine stepm_local hM rfl ?_
    simp only
    split
    · rename_i hh; simp only [TInvM]; rw [hcn]; exact ⟨hs1, hs2 hh⟩
    · simp only [TInvM]; rw [hcn]; exact hs1

/-- every exception-free step preserves the lexicographic invariant (multi containers) -/
theorem m_step_ok (hm : cfg.multi = true) (hI : KInv cfg s) (hM : MInv s) (hk : TInvK cfg s.core s.headSet s.maxh t th)
    (h : TInvM s.core th) : StepOkM s t (thStepCore cfg s t th) := by
  have so := k_step_ok hI hk
  cases hpc : th.pc
  · exact m_idle hI hM hpc so
  · exact m_trivial hM (Or.inl hpc)
  · exact m_trivial hM (Or.inr (Or.inl hpc))
  · exact m_ldMaxh hM hpc
  · exact m_desc hm hM hpc h
  · exact m_setNext0 hm hI hM hpc hk h so
  · exact m_cas0 hI hM hpc hk h
  · exact m_ldMaxh2 hM hpc h
  · exact m_casMaxh hM hpc h
  · exact m_setNextU hI hM hpc h so
  · exact m_casU hI hM hpc hk h
  · exact m_refind hm hI hM hpc hk h
  · exact m_trivial hM (Or.inr (Or.inr (Or.inl hpc)))
  · exact m_trivial hM (Or.inr (Or.inr (Or.inr (Or.inl hpc))))
  · exact m_trivial hM (Or.inr (Or.inr (Or.inr (Or.inr (Or.inl hpc)))))
  · exact m_trivial hM (Or.inr (Or.inr (Or.inr (Or.inr (Or.inr (Or.inl hpc))))))
  · exact m_trivial hM (Or.inr (Or.inr (Or.inr (Or.inr (Or.inr (Or.inr (Or.inl hpc)))))))
  · exact m_trivial hM (Or.inr (Or.inr (Or.inr (Or.inr (Or.inr (Or.inr (Or.inr hpc)))))))

/-! ### user functors that throw, and the system invariant -/

theorem stepokm_of {o o' : Out} (sm : StepOkM s t o) (hcore : o'.st.core = o.st.core) (ht : TInvM o.st.core o'.th) :
    StepOkM s t o' :=
  ⟨by rw [hcore]; exact sm.idx, by rw [hcore]; exact sm.lex, by rw [hcore]; exact ht⟩

theorem m_step_ok_throw (hm : cfg.multi = true) (hI : KInv cfg s) (hM : MInv s) (hk : TInvK cfg s.core s.headSet s.maxh t th)
    (h : TInvM s.core th) : StepOkM s t (thStep cfg s t th) := by
  have sm := m_step_ok hm hI hM hk h
  unfold thStep
  split
  · exact stepm_local hM rfl (by simp [TInvM, Th.finish])
  · simp only
    split
    · split
      · exact stepm_local hM rfl (by simp [TInvM, Th.finish, Th.disarm])
      · split
        · exact stepokm_of sm rfl ((tinvm_disarm _).mpr sm.tm)
        · exact sm
    · split
      · exact stepm_local hM rfl (by simp [TInvM, Th.finish, Th.disarm])
      · refine stepokm_of sm rfl ?_
        simp only
        split
        · exact (tinvm_disarm _).mpr ((tinvm_fields _ _ _ _).mpr sm.tm)
        · exact (tinvm_fields _ _ _ _).mpr sm.tm

theorem minv_init (progs : List (List Op)) : MInv (initSt progs) := by
  refine ⟨fun l => by simp [initSt], ?_⟩
  intro t th hth
  simp only [initSt, List.getElem?_map, Option.map_eq_some_iff] at hth
  obtain ⟨p, _, hp⟩ := hth
  subst hp
  simp [TInvM]

theorem minv_step (hm : cfg.multi = true) (hI : KInv cfg s) (hM : MInv s) (t : Tid) : MInv (step cfg s t) := by
  unfold step
  cases hth : s.ths[t]? with
  | none => simpa using hM
  | some th =>
    simp only
    have sk := k_step_ok_throw hI (hI.tinv t th hth)
    have sm := m_step_ok_throw hm hI hM (hI.tinv t th hth) (hM.tm t th hth)
    refine ⟨sm.lex, ?_⟩
    intro u thu hu
    simp only at hu
    rw [List.getElem?_set] at hu
    by_cases hut : t = u
    · subst hut
      have hlt : t < s.ths.length := by
        rcases List.getElem?_eq_some_iff.mp hth with ⟨hl, _⟩; exact hl
      simp only [hlt, ite_true, Option.some.injEq] at hu
      subst hu
      exact sm.tm
    · simp only [hut, ite_false] at hu
      exact tinvm_ext hI.g sk.ext sm.idx (Ne.symm hut) (hI.tinv u thu hu) (hM.tm u thu hu)

theorem minv_reachable (cfg : Cfg) (hm : cfg.multi = true) (progs : List (List Op)) (sched : List Tid) :
    KInv cfg ((sys cfg progs).run sched) ∧ MInv ((sys cfg progs).run sched) :=
  Sys.inv_run (sys cfg progs) (fun s => KInv cfg s ∧ MInv s) ⟨kinv_init cfg progs, minv_init progs⟩
    (fun s t h => ⟨kinv_step cfg s t h.1, minv_step hm h.1 h.2 t⟩) sched

/-- multi containers: every level is a sub-sequence of the level below -/
theorem level_sublist_multi {cfg : Cfg} {s : St} (hI : KInv cfg s) (hM : MInv s) (l : Nat) :
    (s.core.chain (l + 1)).Sublist (s.core.chain l) :=
  sublist_of_strict_rel (R := lexLt s.core) (fun _ _ h1 h2 => lexLt_asymm h1 h2) (fun _ _ _ h1 h2 => lexLt_trans h1 h2)
    _ _ (hM.lex (l + 1)) (hM.lex l) (hI.g.sub l)

end SkipList
end TbbVerif.C12
