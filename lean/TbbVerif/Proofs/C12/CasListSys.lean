/-
C12 — a thread's own step preserves its invariant and satisfies the side conditions of its action; the
system invariant `Inv` is inductive (any number of threads, any schedule).
-/
import TbbVerif.Proofs.C12.CasListCount

namespace TbbVerif.C12
open CasList

/-- the conditions that keep equivalent keys contiguous, from what the inserting thread knows at its CAS -/
theorem link_contig_of {rule} {L : LSt} {t : Tid} {k : Key} {prev new : Node} {curr : Option Node} (g : Good rule L)
    (h : InsInv rule L t k prev new) (hc : CurrOk rule L k curr) (hcas : L.next prev = curr) :
    LinkContig rule L prev new := by
  refine ⟨?_, ?_⟩
  · intro hb
    rw [h.keynew] at hb ⊢
    have hna : rule k ≠ .after := by rw [hb]; simp
    cases hcur : curr with
    | none =>
      right
      rw [hcur] at hcas
      intro x hx hkx
      have := h.behind hna x hx hkx
      rw [linked_none g h.prev_mem hcas] at this; simp at this
    | some c =>
      rw [hcur] at hcas hc
      obtain ⟨r, hr⟩ := linked_some g h.prev_mem hcas
      obtain ⟨hcm, hadv, _⟩ := hc
      rw [hb] at hadv
      rcases stop_before hadv with hlt | heq
      · right
        intro x hx hkx
        have hxa := h.behind hna x hx hkx
        have hcx : (L.key c).ok ≤ (L.key x).ok := by
          rw [hr] at hxa
          rcases List.mem_cons.mp hxa with hxa | hxa
          · rw [hxa]; exact Nat.le_refl _
          · rw [← aft_step g.nodup hr] at hxa
            exact pairwise_aft (R := fun a b => (L.key a).ok ≤ (L.key b).ok) g.sorted hcm hxa
        rw [hkx] at hcx; omega
      · left; exact ⟨c, r, hr, heq⟩
  · intro c r hr hkpc
    rw [h.keynew]
    have hcc : curr = some c := by
      have := g.linked prev h.prev_mem
      rw [hr] at this
      rw [← hcas, this]; rfl
    rw [hcc] at hc
    obtain ⟨_, hadv, _⟩ := hc
    have h1 := h.prev_le
    have h2 := not_adv_ge hadv
    have h3 : (L.key prev).ok = (L.key c).ok := by rw [hkpc]
    have hok : (L.key c).ok = k.ok := by omega
    have hkc : L.key c = k := by
      by_cases hra : rule k = .after
      · rw [hra] at hadv; simp [adv] at hadv; omega
      · exact key_eq_of_not_adv hra hadv hok
    rw [hkpc, hkc]


theorem step_idle {rule} {L : LSt} {t : Tid} {th : Th} (g : Good rule L) (hpc : th.pc = .idle) :
    StepOk rule L t (thStep rule L t th) := by
  unfold thStep
  simp only [hpc]
  split
  · exact ⟨trivial, by simp [LSt.apply, TInv, hpc], by simp, by simp [LSt.apply, addLog]⟩
  · rename_i k start rest hops
    split
    · rename_i hv
      simp only [validStart, Bool.and_eq_true, Bool.or_eq_true, decide_eq_true_eq] at hv
      obtain ⟨hsm, hsk⟩ := hv
      have hsl := g.alloc start hsm
      have hkeq : ∀ x ∈ L.chain, upd L.key L.fresh k x = L.key x := by
        intro x hx; have := g.alloc x hx; simp [upd]; omega
      refine ⟨rfl, ?_, by simp, by simp [LSt.apply, addLog]⟩
      simp only [TInv]
      refine ⟨by simp [LSt.apply, upd], by simp [LSt.apply], ?_, by simp [LSt.apply, upd], hsm, ?_, ?_, ?_⟩
      · simp only [LSt.apply]
        intro hm; have := g.alloc _ hm; omega
      · simp only [LSt.apply]; rw [hkeq start hsm]
        rcases hsk with h | h
        · omega
        · exact h.2
      · intro hr x hx hkx
        simp only [LSt.apply] at hx hkx ⊢
        rw [hkeq x hx] at hkx
        have hlt : (L.key start).ok < (L.key x).ok := by
          rcases hsk with h | h
          · rw [hkx]; exact h
          · exact absurd h.1 hr
        exact mem_aft_of_lt (f := fun a => (L.key a).ok) g.sorted hsm hx hlt
      · intro hr
        rcases hsk with h | h
        · omega
        · exact absurd h.1 hr
    · exact ⟨trivial, by simp [LSt.apply, TInv, Th.finish], by simp [ResOk], by simp [LSt.apply, addLog, succNode]⟩
  · rename_i k start rest hops
    split
    · rename_i hv
      simp only [validFind, Bool.and_eq_true, decide_eq_true_eq] at hv
      refine ⟨trivial, ?_, by simp, by simp [LSt.apply, addLog]⟩
      simp only [TInv, LSt.apply]
      refine ⟨hv.1, ?_⟩
      intro hm
      simp only [hasKey, List.any_eq_true, decide_eq_true_eq] at hm
      obtain ⟨x, hx, hkx⟩ := hm
      refine ⟨x, ?_, hkx⟩
      have hlt : (L.key start).ok < (L.key x).ok := by rw [hkx]; exact hv.2
      exact mem_aft_of_lt (f := fun a => (L.key a).ok) g.sorted hv.1 hx hlt
    · exact ⟨trivial, by simp [LSt.apply, TInv, Th.finish], by simp [ResOk], by simp [LSt.apply, addLog, succNode]⟩
  · refine ⟨trivial, ?_, by simp, by simp [LSt.apply, addLog]⟩
    simp only [TInv, LSt.apply]
    refine ⟨g.head_mem, rfl, ?_, ?_⟩
    · rw [g.chain_eq]; simp [upto]
    · intro x hx
      rw [g.chain_eq] at hx
      rcases List.mem_cons.mp hx with h | h
      · exact Or.inl (by simp [h])
      · exact Or.inr h
  · rename_i k start rest hops
    split
    · rename_i hv
      simp only [validFind, Bool.and_eq_true, decide_eq_true_eq] at hv
      refine ⟨trivial, ?_, by simp, by simp [LSt.apply, addLog]⟩
      simp only [TInv, LSt.apply]
      refine ⟨⟨g.nodup, fun x hx => hx⟩, hv.1, ?_⟩
      intro x hx hs
      have hlt : (L.key start).ok < (L.key x).ok := by rw [same_ok hs]; exact hv.2
      exact mem_aft_of_lt (f := fun a => (L.key a).ok) g.sorted hv.1 hx hlt
    · exact ⟨trivial, by simp [LSt.apply, TInv, Th.finish], by simp [ResOk], by simp [LSt.apply, addLog, succNode]⟩


theorem step_search {rule} {L : LSt} {t : Tid} {th : Th} (g : Good rule L) (hpc : th.pc = .search)
    (h : InsInv rule L t th.k th.prev th.new) : StepOk rule L t (thStep rule L t th) := by
  unfold thStep
  simp only [hpc]
  split
  · -- end of the list
    exact ⟨trivial, ⟨by simpa [LSt.apply] using h, trivial⟩, by simp, by simp [LSt.apply, addLog]⟩
  · rename_i c hc
    obtain ⟨r, hr⟩ := linked_some g h.prev_mem hc
    have hcm : c ∈ L.chain := mem_of_mem_aft (p := th.prev) (by rw [hr]; simp)
    split
    · -- walk on
      rename_i hadv
      refine ⟨trivial, ?_, by simp, by simp [LSt.apply, addLog]⟩
      simp only [TInv, hpc, LSt.apply]
      refine ⟨h.own, h.lt, h.notin, h.keynew, hcm, adv_le hadv, ?_, h.pos⟩
      intro hru x hx hkx
      have hb := h.behind hru x hx hkx
      rw [hr] at hb
      rcases List.mem_cons.mp hb with hb | hb
      · subst hb
        rw [hkx, adv_self_false hru] at hadv
        exact absurd hadv (by simp)
      · rw [aft_step g.nodup hr]; exact hb
    · rename_i hadv
      split
      · -- an equivalent key is present
        rename_i hhit
        have hu : rule th.k = .uniq := by
          simp only [hit, Bool.and_eq_true, decide_eq_true_eq] at hhit; exact hhit.1
        rw [hu] at hadv hhit
        have hk := hit_eq (by simpa using hadv) hhit
        refine ⟨trivial, by simp [LSt.apply, TInv, Th.finish], ?_, by simp [LSt.apply, addLog, succNode]⟩
        intro r' hr'
        simp only [Option.some.injEq] at hr'
        subst hr'
        refine ⟨hcm, hk, ?_⟩
        intro h0
        have hp := h.pos (by rw [hu]; simp)
        rw [h0, g.key0] at hk
        rw [← hk] at hp
        simp at hp
      · rename_i hhit
        refine ⟨trivial, ?_, by simp, by simp [LSt.apply, addLog]⟩
        simp only [TInv, LSt.apply]
        exact ⟨h, hcm, by simpa using hadv, by simpa using hhit⟩

theorem step_setNext {rule} {L : LSt} {t : Tid} {th : Th} (g : Good rule L) (hpc : th.pc = .setNext)
    (h : InsInv rule L t th.k th.prev th.new) (hc : CurrOk rule L th.k th.curr) :
    StepOk rule L t (thStep rule L t th) := by
  unfold thStep
  simp only [hpc]
  have ha : ActOk rule L t (.setNext th.new th.curr) := ⟨h.own, h.notin, h.lt⟩
  refine ⟨ha, ?_, by simp, by simp [LSt.apply, addLog]⟩
  simp only [TInv]
  refine ⟨?_, ?_, by simp [LSt.apply, upd]⟩
  · exact ⟨h.own, h.lt, h.notin, h.keynew, h.prev_mem, h.prev_le, h.behind, h.pos⟩
  · exact currok_stable g ha hc

theorem step_cas {rule} {L : LSt} {t : Tid} {th : Th} (g : Good rule L) (hpc : th.pc = .cas)
    (h : InsInv rule L t th.k th.prev th.new) (hc : CurrOk rule L th.k th.curr) (hn : L.next th.new = th.curr) :
    StepOk rule L t (thStep rule L t th) := by
  unfold thStep
  simp only [hpc]
  split
  · rename_i hcas
    -- everything behind `prev` has an order key ≥ the new key (strictly, unless `before` found its equal)
    have hge : ∀ x ∈ aft th.prev L.chain, th.k.ok ≤ (L.key x).ok ∧
        ((rule th.k ≠ .before → th.k.ok < (L.key x).ok)) := by
      intro x hx
      cases hcur : th.curr with
      | none =>
        rw [hcur] at hcas
        rw [linked_none g h.prev_mem hcas] at hx
        simp at hx
      | some c =>
        rw [hcur] at hcas hc
        obtain ⟨r, hr⟩ := linked_some g h.prev_mem hcas
        obtain ⟨hcm, hadv, hhit⟩ := hc
        have hcx : (L.key c).ok ≤ (L.key x).ok := by
          rw [hr] at hx
          rcases List.mem_cons.mp hx with hx | hx
          · rw [hx]; exact Nat.le_refl _
          · rw [← aft_step g.nodup hr] at hx
            exact pairwise_aft (R := fun a b => (L.key a).ok ≤ (L.key b).ok) g.sorted hcm hx
        refine ⟨Nat.le_trans (not_adv_ge hadv) hcx, ?_⟩
        intro hnb
        cases hrk : rule th.k with
        | uniq => rw [hrk] at hadv hhit; exact Nat.lt_of_lt_of_le (stop_uniq hadv hhit) hcx
        | before => exact absurd hrk hnb
        | after => rw [hrk] at hadv; exact Nat.lt_of_lt_of_le (stop_after hadv) hcx
    have hl : LinkOk rule L th.prev th.new ∧ LinkSide rule L th.prev th.new := by
      refine ⟨⟨h.prev_mem, h.notin, h.lt, by rw [hn, hcas], by rw [h.keynew]; exact h.prev_le, ?_, ?_⟩, ?_⟩
      · intro x hx; rw [h.keynew]; exact (hge x hx).1
      · intro hu x hx hkx
        rw [h.keynew] at hu hkx
        have hb := h.behind (by rw [hu]; simp) x hx hkx
        have := (hge x hb).2 (by rw [hu]; simp)
        rw [hkx] at this; omega
      · unfold LinkSide
        rw [h.keynew]
        by_cases hb : rule th.k = .before
        · cases hcur : th.curr with
          | none =>
            left
            rw [hcur] at hcas
            rw [linked_none g h.prev_mem hcas]; simp
          | some c =>
            rw [hcur] at hcas hc
            obtain ⟨r, hr⟩ := linked_some g h.prev_mem hcas
            obtain ⟨hcm, hadv, _⟩ := hc
            rw [hb] at hadv
            rcases stop_before hadv with hlt | heq
            · left
              intro x hx
              have hcx : (L.key c).ok ≤ (L.key x).ok := by
                rw [hr] at hx
                rcases List.mem_cons.mp hx with hx | hx
                · rw [hx]; exact Nat.le_refl _
                · rw [← aft_step g.nodup hr] at hx
                  exact pairwise_aft (R := fun a b => (L.key a).ok ≤ (L.key b).ok) g.sorted hcm hx
              omega
            · right
              exact ⟨hb, c, r, hr, heq⟩
        · left
          intro x hx; exact (hge x hx).2 hb
    have ha : ActOk rule L t (.link th.prev th.new) := ⟨h.own, hl.1, hl.2, link_contig_of g h hc hcas⟩
    refine ⟨ha, by simp [TInv, Th.finish], ?_, by simp [LSt.apply, addLog, succNode]⟩
    intro r' hr'
    simp only [Option.some.injEq] at hr'
    subst hr'
    exact ⟨by simp [LSt.apply], by simpa [LSt.apply] using h.keynew, by simpa [LSt.apply] using h.own,
      by simpa [LSt.apply] using h.lt⟩
  · -- failed CAS: search again from the same `prev`, which is still in the list
    refine ⟨trivial, ?_, by simp, by simp [LSt.apply, addLog]⟩
    simpa [TInv, LSt.apply] using h

theorem step_fwalk {rule} {L : LSt} {t : Tid} {th : Th} (g : Good rule L) (hpc : th.pc = .fwalk)
    (h : FInv L th.k th.prev th.must) : StepOk rule L t (thStep rule L t th) := by
  unfold thStep
  simp only [hpc]
  split
  · rename_i hc
    refine ⟨trivial, by simp [TInv, Th.finish], ?_, by simp [LSt.apply, addLog, succNode]⟩
    intro r' hr'
    simp only [Option.some.injEq] at hr'
    subst hr'
    refine ⟨?_, by simp⟩
    intro hm
    obtain ⟨x, hx, _⟩ := h.ahead hm
    rw [linked_none g h.prev_mem hc] at hx
    simp at hx
  · rename_i c hc
    obtain ⟨r, hr⟩ := linked_some g h.prev_mem hc
    have hcm : c ∈ L.chain := mem_of_mem_aft (p := th.prev) (by rw [hr]; simp)
    split
    · rename_i hgt
      refine ⟨trivial, by simp [TInv, Th.finish], ?_, by simp [LSt.apply, addLog, succNode]⟩
      intro r' hr'
      simp only [Option.some.injEq] at hr'
      subst hr'
      refine ⟨?_, by simp⟩
      intro hm
      obtain ⟨x, hx, hkx⟩ := h.ahead hm
      exfalso
      have hcx : (L.key c).ok ≤ (L.key x).ok := by
        rw [hr] at hx
        rcases List.mem_cons.mp hx with hx | hx
        · rw [hx]; exact Nat.le_refl _
        · rw [← aft_step g.nodup hr] at hx
          exact pairwise_aft (R := fun a b => (L.key a).ok ≤ (L.key b).ok) g.sorted hcm hx
      rw [hkx] at hcx; omega
    · split
      · rename_i heq
        refine ⟨trivial, by simp [TInv, Th.finish], ?_, by simp [LSt.apply, addLog, succNode]⟩
        intro r' hr'
        simp only [Option.some.injEq] at hr'
        subst hr'
        refine ⟨by simp, ?_⟩
        intro n hn
        simp only [Option.some.injEq] at hn
        subst hn
        exact ⟨hcm, heq⟩
      · rename_i hne
        refine ⟨trivial, ?_, by simp, by simp [LSt.apply, addLog]⟩
        simp only [TInv, hpc, LSt.apply]
        refine ⟨hcm, ?_⟩
        intro hm
        obtain ⟨x, hx, hkx⟩ := h.ahead hm
        refine ⟨x, ?_, hkx⟩
        rw [hr] at hx
        rcases List.mem_cons.mp hx with hx | hx
        · subst hx; exact absurd hkx hne
        · rw [aft_step g.nodup hr]; exact hx

theorem step_twalk {rule} {L : LSt} {t : Tid} {th : Th} (g : Good rule L) (hpc : th.pc = .twalk)
    (h : TrInv L th.prev th.seen th.snap) : StepOk rule L t (thStep rule L t th) := by
  unfold thStep
  simp only [hpc]
  split
  · rename_i hc
    have hnil := linked_none g h.prev_mem hc
    refine ⟨trivial, by simp [TInv, Th.finish], ?_, by simp [LSt.apply, addLog, succNode]⟩
    intro r' hr'
    simp only [Option.some.injEq] at hr'
    subst hr'
    refine ⟨?_, ?_⟩
    · have := h.sub
      rw [upto_eq_self_of_aft_nil h.prev_mem hnil] at this
      simpa [LSt.apply] using this
    · intro x hx
      rcases h.cover x hx with h1 | h1
      · simpa using h1
      · rw [hnil] at h1; simp at h1
  · rename_i c hc
    obtain ⟨r, hr⟩ := linked_some g h.prev_mem hc
    have hcm : c ∈ L.chain := mem_of_mem_aft (p := th.prev) (by rw [hr]; simp)
    refine ⟨trivial, ?_, by simp, by simp [LSt.apply, addLog]⟩
    simp only [TInv, hpc, LSt.apply]
    refine ⟨hcm, rfl, ?_, ?_⟩
    · rw [upto_step g.nodup hr, List.reverse_cons]
      exact List.Sublist.append h.sub (List.Sublist.refl _)
    · intro x hx
      rcases h.cover x hx with h1 | h1
      · exact Or.inl (List.mem_cons_of_mem _ h1)
      · rw [hr] at h1
        rcases List.mem_cons.mp h1 with h2 | h2
        · exact Or.inl (by simp [h2])
        · right; rw [aft_step g.nodup hr]; exact h2

theorem step_ok {rule} {L : LSt} {t : Tid} {th : Th} (g : Good rule L) (hcg : Contig rule L) (h : TInv rule L t th) :
    StepOk rule L t (thStep rule L t th) := by
  unfold TInv at h
  cases hpc : th.pc <;> simp only [hpc] at h
  · exact step_idle g hpc
  · exact step_search g hpc h
  · exact step_setNext g hpc h.1 h.2
  · exact step_cas g hpc h.1 h.2.1 h.2.2
  · exact step_fwalk g hpc h
  · exact step_twalk g hpc h
  · exact step_cfirst g hpc h
  · exact step_clast g hcg hpc h
  · exact step_cdist g hcg hpc h

/-! ### the system invariant -/

structure Inv (rule : Key → Rule) (s : St) : Prop where
  good : Good rule s.L
  tinv : ∀ t th, s.ths[t]? = some th → TInv rule s.L t th
  logok : ∀ e ∈ s.log, ResOk s.L e.1 e.2
  wins : s.L.wins = s.log.filterMap succNode
  contig : Contig rule s.L

theorem inv_init (rule : Key → Rule) (progs : List (List Op)) : Inv rule (initSt progs) := by
  refine ⟨good_init rule, ?_, by simp [initSt], by simp [initSt], contig_init rule⟩
  intro t th hth
  simp only [initSt, List.getElem?_map, Option.map_eq_some_iff] at hth
  obtain ⟨p, _, hp⟩ := hth
  subst hp
  simp [TInv]

theorem inv_step (rule : Key → Rule) (s : St) (t : Tid) (h : Inv rule s) : Inv rule (step rule s t) := by
  unfold step
  cases hth : s.ths[t]? with
  | none => simpa using h
  | some th =>
    simp only
    have so := step_ok h.good h.contig (h.tinv t th hth)
    refine ⟨good_apply h.good so.act, ?_, ?_, ?_, contig_apply h.good h.contig so.act⟩
    · intro u thu hu
      simp only at hu
      rw [List.getElem?_set] at hu
      by_cases hut : t = u
      · subst hut
        have hlt : t < s.ths.length := by
          rcases List.getElem?_eq_some_iff.mp hth with ⟨hl, _⟩; exact hl
        simp only [hlt, ite_true, Option.some.injEq] at hu
        subst hu
        exact so.tinv
      · simp only [hut, ite_false] at hu
        exact tinv_stable h.good so.act (Ne.symm hut) (h.tinv u thu hu)
    · intro e he
      simp only at he
      cases hres : (thStep rule s.L t th).res with
      | none =>
        rw [hres] at he
        exact resok_stable h.good so.act (h.logok e he)
      | some r =>
        rw [hres] at he
        simp only [addLog, List.mem_cons] at he
        rcases he with he | he
        · subst he; exact so.res r hres
        · exact resok_stable h.good so.act (h.logok e he)
    · simp only
      rw [so.wins, h.wins]
      cases hres : (thStep rule s.L t th).res with
      | none => simp [addLog]
      | some r => simp only [addLog]; rw [← List.filterMap_append]; rfl

theorem inv_reachable (rule : Key → Rule) (progs : List (List Op)) (sched : List Tid) :
    Inv rule ((sys rule progs).run sched) :=
  Sys.inv_run (sys rule progs) (Inv rule) (inv_init rule progs) (fun s t h => inv_step rule s t h) sched

end TbbVerif.C12
