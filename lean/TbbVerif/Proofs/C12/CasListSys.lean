/-
C12 — a thread's own step preserves its invariant and satisfies the side conditions of its action; the
system invariant `Inv` is inductive (any number of threads, any schedule).
-/
import TbbVerif.Proofs.C12.CasList

namespace TbbVerif.C12
open CasList

/-- everything one step has to establish -/
structure StepOk (rule : Key → Rule) (L : LSt) (t : Tid) (o : Out) : Prop where
  act : ActOk rule L t o.act
  tinv : TInv rule (L.apply o.act) t o.th
  res : ∀ r, o.res = some r → ResOk (L.apply o.act) t r
  wins : (L.apply o.act).wins = (addLog [] t o.res).filterMap succNode ++ L.wins

theorem linked_some {rule} {L : LSt} (g : Good rule L) {p c : Node} (hp : p ∈ L.chain) (h : L.next p = some c) :
    ∃ r, aft p L.chain = c :: r := by
  have := g.linked p hp
  rw [h] at this
  cases hh : aft p L.chain with
  | nil => simp [hh] at this
  | cons y ys => simp [hh] at this; exact ⟨ys, by rw [this]⟩

theorem linked_none {rule} {L : LSt} (g : Good rule L) {p : Node} (hp : p ∈ L.chain) (h : L.next p = none) :
    aft p L.chain = [] := by
  have := g.linked p hp
  rw [h] at this
  cases hh : aft p L.chain with
  | nil => rfl
  | cons y ys => simp [hh] at this

theorem step_idle {rule} {L : LSt} {t : Tid} {th : Th} (g : Good rule L) (hpc : th.pc = .idle) :
    StepOk rule L t (thStep rule L t th) := by
  unfold thStep
  simp only [hpc]
  split
  · exact ⟨trivial, by simp [LSt.apply, TInv, hpc], by simp, by simp [LSt.apply, addLog]⟩
  · rename_i k start rest hops
    split
    · rename_i hv
      simp only [validStart, Bool.and_eq_true, Bool.or_eq_true, decide_eq_true_eq] at hv
      obtain ⟨hsm, hsk⟩ := hv
      have hsl := g.alloc start hsm
      have hkeq : ∀ x ∈ L.chain, upd L.key L.fresh k x = L.key x := by
        intro x hx; have := g.alloc x hx; simp [upd]; omega
      refine ⟨rfl, ?_, by simp, by simp [LSt.apply, addLog]⟩
      simp only [TInv]
      refine ⟨by simp [LSt.apply, upd], by simp [LSt.apply], ?_, by simp [LSt.apply, upd], hsm, ?_, ?_, ?_⟩
      · simp only [LSt.apply]
        intro hm; have := g.alloc _ hm; omega
      · simp only [LSt.apply]; rw [hkeq start hsm]
        rcases hsk with h | h
        · omega
        · exact h.2
      · intro hr x hx hkx
        simp only [LSt.apply] at hx hkx ⊢
        rw [hkeq x hx] at hkx
        have hlt : (L.key start).ok < (L.key x).ok := by
          rcases hsk with h | h
          · rw [hkx]; exact h
          · exact absurd h.1 hr
        exact mem_aft_of_lt (f := fun a => (L.key a).ok) g.sorted hsm hx hlt
      · intro hr
        rcases hsk with h | h
        · omega
        · exact absurd h.1 hr
    · exact ⟨trivial, by simp [LSt.apply, TInv, Th.finish], by simp [ResOk], by simp [LSt.apply, addLog, succNode]⟩
  · rename_i k start rest hops
    split
    · rename_i hv
      simp only [validStart, Bool.and_eq_true, Bool.or_eq_true, decide_eq_true_eq] at hv
      refine ⟨trivial, ?_, by simp, by simp [LSt.apply, addLog]⟩
      simp only [TInv, LSt.apply]
      refine ⟨hv.1, ?_⟩
      intro hm
      simp only [hasKey, List.any_eq_true, decide_eq_true_eq] at hm
      obtain ⟨x, hx, hkx⟩ := hm
      refine ⟨x, ?_, hkx⟩
      by_cases hlt : (L.key start).ok < (L.key x).ok
      · exact mem_aft_of_lt (f := fun a => (L.key a).ok) g.sorted hv.1 hx hlt
      · exfalso
        rcases hv.2 with h | h
        · rw [hkx] at hlt; exact hlt h
        · -- `after` rule with equal order key: `validStart` for finds is used with the strict clause only
          rw [hkx] at hlt
          exact absurd h hlt.elim
    · exact ⟨trivial, by simp [LSt.apply, TInv, Th.finish], by simp [ResOk], by simp [LSt.apply, addLog, succNode]⟩
  · refine ⟨trivial, ?_, by simp, by simp [LSt.apply, addLog]⟩
    simp only [TInv, LSt.apply]
    refine ⟨g.head_mem, rfl, ?_, ?_⟩
    · rw [g.chain_eq]; simp [upto]
    · intro x hx
      rw [g.chain_eq] at hx
      rcases List.mem_cons.mp hx with h | h
      · exact Or.inl (by simp [h])
      · exact Or.inr h

end TbbVerif.C12
