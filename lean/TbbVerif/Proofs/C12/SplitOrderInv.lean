/-
C12 — SplitOrder: the system invariant is inductive.
-/
import TbbVerif.Proofs.C12.SplitOrderSteps

namespace TbbVerif.C12
namespace SplitOrder
open CasList (succNode isSucc isIns hasKey)

theorem sinv_init (cfg : Cfg) (bc : Nat) (progs : List (List Op)) (hbc : BcOk bc) : SInv cfg (initSt cfg bc progs) := by
  refine ⟨good_init _, ?_, hbc, ?_, by simp [initSt], by simp [initSt], contig_init _⟩
  · intro b d hd; simp [initSt] at hd
  · intro t th hth
    simp only [initSt, List.getElem?_map, Option.map_eq_some_iff] at hth
    obtain ⟨p, _, hp⟩ := hth
    subst hp
    simp [TInvSO]

theorem sinv_step (cfg : Cfg) (s : St) (t : Tid) (h : SInv cfg s) : SInv cfg (step cfg s t) := by
  unfold step
  cases hth : s.ths[t]? with
  | none => simpa using h
  | some th =>
    simp only
    have so := so_step_ok h (h.tinv t th hth)
    unfold applyOut
    refine ⟨good_apply h.good so.act, so.table, so.bc, ?_, ?_, ?_, contig_apply h.good h.contig so.act⟩
    · intro u thu hu
      simp only at hu
      rw [List.getElem?_set] at hu
      by_cases hut : t = u
      · subst hut
        have hlt : t < s.ths.length := by
          rcases List.getElem?_eq_some_iff.mp hth with ⟨hl, _⟩; exact hl
        simp only [hlt, ite_true, Option.some.injEq] at hu
        subst hu
        exact so.tinv
      · simp only [hut, ite_false] at hu
        exact tinvso_stable h.good so.act (Ne.symm hut) so.slotmono (h.tinv u thu hu)
    · intro e he
      simp only at he
      cases hres : (thStep cfg s t th).res with
      | none =>
        rw [hres] at he
        exact resok_stable h.good so.act (h.logok e he)
      | some r =>
        rw [hres] at he
        simp only [addLog, List.mem_cons] at he
        rcases he with he | he
        · subst he; exact so.res r hres
        · exact resok_stable h.good so.act (h.logok e he)
    · simp only
      rw [so.wins, h.wins]
      cases hres : (thStep cfg s t th).res with
      | none => simp [addLog]
      | some r => simp only [addLog]; rw [← List.filterMap_append]; rfl

theorem sinv_reachable (cfg : Cfg) (bc : Nat) (progs : List (List Op)) (hbc : BcOk bc) (sched : List Tid) :
    SInv cfg ((sys cfg bc progs).run sched) :=
  Sys.inv_run (sys cfg bc progs) (SInv cfg) (sinv_init cfg bc progs hbc) (fun s t h => sinv_step cfg s t h) sched

end SplitOrder
end TbbVerif.C12
