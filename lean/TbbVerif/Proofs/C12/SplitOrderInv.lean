/-
C12 — SplitOrder: the system invariant is inductive.
-/
import TbbVerif.Proofs.C12.SplitOrderSteps

namespace TbbVerif.C12
namespace SplitOrder
open CasList (succNode isSucc isIns hasKey)

theorem sinv_init (cfg : Cfg) (bc : Nat) (progs : List (List Op)) (hbc : BcOk bc) : SInv cfg (initSt cfg bc progs) := by
  refine ⟨good_init _, ?_, hbc, ?_, by simp [initSt], by simp [initSt], contig_init _⟩
  · intro b d hd; simp [initSt] at hd
  · intro t th hth
    simp only [initSt, List.getElem?_map, Option.map_eq_some_iff] at hth
    obtain ⟨p, _, hp⟩ := hth
    subst hp
    simp [TInvSO]

/-- the invariant survives any step whose outcome satisfies `StepOk` -/
theorem sinv_of_stepok {cfg : Cfg} {s : St} {t : Tid} {th : Th} {o : Out} (h : SInv cfg s) (hth : s.ths[t]? = some th)
    (so : StepOk cfg s t o) : SInv cfg (applyOut s t o) := by
  unfold applyOut
  refine ⟨good_apply h.good so.act, so.table, so.bc, ?_, ?_, ?_, contig_apply h.good h.contig so.act⟩
  · intro u thu hu
    simp only at hu
    rw [List.getElem?_set] at hu
    by_cases hut : t = u
    · subst hut
      have hlt : t < s.ths.length := by
        rcases List.getElem?_eq_some_iff.mp hth with ⟨hl, _⟩; exact hl
      simp only [hlt, ite_true, Option.some.injEq] at hu
      subst hu
      exact so.tinv
    · simp only [hut, ite_false] at hu
      exact tinvso_stable h.good so.act (Ne.symm hut) so.slotmono (h.tinv u thu hu)
  · intro e he
    simp only at he
    cases hres : o.res with
    | none =>
      rw [hres] at he
      exact resok_stable h.good so.act (h.logok e he)
    | some r =>
      rw [hres] at he
      simp only [addLog, List.mem_cons] at he
      rcases he with he | he
      · subst he; exact so.res r hres
      · exact resok_stable h.good so.act (h.logok e he)
  · simp only
    rw [so.wins, h.wins]
    cases hres : o.res with
    | none => simp [addLog]
    | some r => simp only [addLog]; rw [← List.filterMap_append]; rfl

variable {cfg : Cfg} {s : St} {t : Tid} {th : Th}

/-- the fault bookkeeping fields are invisible to the per-thread invariant -/
theorem tinvso_fields {L : LSt} {slot : Nat → Option Node} (th : Th) (a b d : Nat) :
    TInvSO cfg L slot t { th with fk := a, fn := b, calls := d } ↔ TInvSO cfg L slot t th := Iff.rfl

theorem tinvso_disarm {L : LSt} {slot : Nat → Option Node} (th : Th) :
    TInvSO cfg L slot t th.disarm ↔ TInvSO cfg L slot t th := Iff.rfl

/-- an outcome that differs from a good one only in the allocator ledger and the stepping thread's fault fields -/
theorem stepok_of {o o' : Out} (so : StepOk cfg s t o) (hact : o'.act = o.act) (hslot : o'.slot = o.slot) (hbc : o'.bc = o.bc)
    (hres : o'.res = o.res) (ht : TInvSO cfg (s.L.apply o.act) (newSlot s o) t o'.th) : StepOk cfg s t o' := by
  have hns : newSlot s o' = newSlot s o := by simp [newSlot, hslot]
  exact ⟨by rw [hact]; exact so.act, by rw [hact, hns]; exact ht, by rw [hns]; exact so.slotmono,
    by rw [hact, hns]; exact so.table, by rw [hbc]; exact so.bc, by rw [hact, hres]; exact so.res,
    by rw [hact, hres]; exact so.wins⟩

theorem so_step_ok_throw (hI : SInv cfg s) (h : TInvSO cfg s.L s.slot t th) : StepOk cfg s t (thStep cfg s t th) := by
  have so := so_step_ok hI h
  unfold thStep
  split
  · exact stepok_local hI rfl rfl rfl (by simp) (by simp [TInvSO, Th.finish])
  · simp only
    split
    · split
      · refine stepok_local hI rfl rfl rfl ?_ (by simp [TInvSO, Th.finish, Th.disarm])
        intro r hr
        simp only [Option.some.injEq] at hr
        subst hr; exact ⟨trivial, rfl⟩
      · split
        · exact stepok_of so rfl rfl rfl rfl ((tinvso_disarm _).mpr so.tinv)
        · exact so
    · split
      · refine stepok_local hI rfl rfl rfl ?_ (by simp [TInvSO, Th.finish, Th.disarm])
        intro r hr
        simp only [Option.some.injEq] at hr
        subst hr; exact ⟨trivial, rfl⟩
      · refine stepok_of so rfl rfl rfl rfl ?_
        simp only [Th.after]
        split
        · exact (tinvso_disarm _).mpr so.tinv
        · exact (tinvso_fields _ _ _ _).mpr so.tinv

theorem sinv_step (cfg : Cfg) (s : St) (t : Tid) (h : SInv cfg s) : SInv cfg (step cfg s t) := by
  unfold step
  cases hth : s.ths[t]? with
  | none => simpa using h
  | some th => exact sinv_of_stepok h hth (so_step_ok_throw h (h.tinv t th hth))

theorem sinv_reachable (cfg : Cfg) (bc : Nat) (progs : List (List Op)) (hbc : BcOk bc) (sched : List Tid) :
    SInv cfg ((sys cfg bc progs).run sched) :=
  Sys.inv_run (sys cfg bc progs) (SInv cfg) (sinv_init cfg bc progs hbc) (fun s t h => sinv_step cfg s t h) sched

end SplitOrder
end TbbVerif.C12
