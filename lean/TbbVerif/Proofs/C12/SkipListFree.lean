/-
C12 — skip list: the allocator ledger (`freed`) never meets the pointer structure.

`FreeInv`: nothing is freed twice, a freed node is on no level, and a thread that is still inside an insertion has not
had its node freed (so it can neither link a dead node nor free it again).  Inductive for every `cfg` with
`cfg.freeLinked = false` — i.e. as long as the code has no handler that deletes the node of an insertion that is left
by an exception AFTER the level-0 link.  (`freeLinked = true` is refuted by a concrete run in `Props/C12.lean`.)
-/
import TbbVerif.Proofs.C12.SkipListThrow

namespace TbbVerif.C12
namespace SkipList

variable {cfg : Cfg} {s : St} {t : Tid} {th : Th}

/-! ### what the exception-free step does to the fields the ledger argument needs (by inspection of every pc) -/

theorem core_freed : (thStepCore cfg s t th).st.freed = s.freed := by
  unfold thStepCore
  cases th.pc <;> simp only [] <;> (repeat' split) <;> rfl

theorem core_new (hpc : th.pc ≠ .idle) (h : (thStepCore cfg s t th).th.pc.inIns = true) :
    th.pc.inIns = true ∧ (thStepCore cfg s t th).th.new = th.new := by
  revert h
  unfold thStepCore
  cases hp : th.pc <;> simp only [afterDesc, Th.finish] <;> (first | (exact absurd hp hpc) | skip) <;> (repeat' split) <;>
    simp_all [Pc.inIns]

theorem core_idle (hpc : th.pc = .idle) (h : (thStepCore cfg s t th).th.pc.inIns = true) :
    (thStepCore cfg s t th).th.new = s.core.fresh := by
  revert h
  unfold thStepCore
  simp only [hpc, Th.finish]
  (repeat' split) <;> simp_all [Pc.inIns]

/-- a level changes only by the stepping thread linking ITS node -/
theorem core_chain (l : Nat) : (thStepCore cfg s t th).st.core.chain l = s.core.chain l ∨
    (th.pc.inIns = true ∧ ∃ p, (thStepCore cfg s t th).st.core.chain l = insAfter p th.new (s.core.chain l)) := by
  unfold thStepCore
  cases hp : th.pc <;> simp only [] <;> (repeat' split) <;> (first | (left; rfl) | skip)
  all_goals first
    | (left; trivial)
    | (simp only [upd]
       by_cases hl : l = 0
       · right; exact ⟨rfl, th.prevs 0, by simp [hl]⟩
       · left; simp [hl])
    | (simp only [upd]
       by_cases hl : l = th.level
       · right; exact ⟨rfl, th.prevs th.level, by simp [hl]⟩
       · left; simp [hl])

/-- an insertion reports `equivalent key already present` only from the descent, without touching the shared state -/
theorem core_dup (h : isDup (thStepCore cfg s t th).res = true) :
    th.pc = .desc ∧ (thStepCore cfg s t th).st = s ∧ (thStepCore cfg s t th).th.pc = .idle := by
  revert h
  unfold thStepCore
  cases hp : th.pc <;> simp only [afterDesc, Th.finish] <;> (repeat' split) <;> simp_all [isDup]

theorem cmpThrows_pc (h : cmpThrows cfg s th = true) : th.pc = .desc ∨ th.pc = .refind ∨ th.pc = .fdesc := by
  unfold cmpThrows cmpCalls at h
  cases hp : th.pc <;> simp_all <;> omega

theorem headAllocThrows_pc (h : headAllocThrows s th = true) : th.pc = .ldHead := by
  unfold headAllocThrows at h
  simp only [Bool.and_eq_true, decide_eq_true_eq] at h
  exact h.1.1.1

theorem own_of_inIns {c : Core} {hd : Bool} {mh : Nat} (h : TInvK cfg c hd mh t th) (hp : th.pc.inIns = true) :
    Own c t th.new th.k th.hgt := by
  unfold TInvK at h
  cases hpc : th.pc <;> simp only [hpc] at h <;> simp [Pc.inIns, hpc] at hp <;> exact h.1

theorem notin0_of_pre {c : Core} {hd : Bool} {mh : Nat} (h : TInvK cfg c hd mh t th) (hp : th.pc = .desc ∨ th.pc = .ldHead) :
    NotIn c th.new 0 := by
  unfold TInvK at h
  rcases hp with hp | hp <;> simp only [hp] at h
  · exact h.2.1
  · exact h.2

/-! ### one step of `thStep`, as the ledger sees it -/

structure StepFree (cfg : Cfg) (s : St) (th : Th) (o : Out) : Prop where
  freed : o.st.freed = s.freed ∨
    (o.st.freed = th.new :: s.freed ∧ th.pc.inIns = true ∧ o.th.pc = .idle ∧ o.st.core = s.core ∧
      (th.pc = .desc ∨ th.pc = .ldHead ∨ (th.pc = .refind ∧ cfg.freeLinked = true)))
  chain : ∀ l, o.st.core.chain l = s.core.chain l ∨
    (th.pc.inIns = true ∧ ∃ p, o.st.core.chain l = insAfter p th.new (s.core.chain l))
  new : o.th.pc.inIns = true →
    (th.pc = .idle ∧ o.th.new = s.core.fresh ∧ o.st.freed = s.freed) ∨ (th.pc.inIns = true ∧ o.th.new = th.new)

theorem inIns_fields (th : Th) (a b d : Nat) : ({ th with fk := a, fn := b, calls := d } : Th).pc = th.pc := rfl

theorem step_free : StepFree cfg s th (thStep cfg s t th) := by
  unfold thStep
  split
  · rename_i hpc hops
    exact ⟨Or.inl rfl, fun l => Or.inl rfl, by simp [Th.finish, Pc.inIns]⟩
  · simp only
    split
    · rename_i hpc
      split
      · exact ⟨Or.inl rfl, fun l => Or.inl rfl, by simp [Th.finish, Th.disarm, Pc.inIns]⟩
      · split
        · rename_i hidle
          refine ⟨Or.inl core_freed, core_chain, ?_⟩
          intro h
          simp only [Th.disarm] at h
          rw [hidle] at h
          simp [Pc.inIns] at h
        · refine ⟨Or.inl core_freed, core_chain, ?_⟩
          intro h
          exact Or.inl ⟨hpc, core_idle hpc h, core_freed⟩
    · rename_i hpc
      split
      · rename_i hthrow
        -- a throwing step: the shared structure is untouched, the thread goes idle
        refine ⟨?_, fun l => Or.inl rfl, by simp [Th.finish, Th.disarm, Pc.inIns]⟩
        have hpcs : th.pc = .desc ∨ th.pc = .refind ∨ th.pc = .fdesc ∨ th.pc = .ldHead := by
          rcases Bool.or_eq_true _ _ |>.mp hthrow with h1 | h1
          · rcases cmpThrows_pc h1 with h2 | h2 | h2
            · exact Or.inl h2
            · exact Or.inr (Or.inl h2)
            · exact Or.inr (Or.inr (Or.inl h2))
          · exact Or.inr (Or.inr (Or.inr (headAllocThrows_pc h1)))
        by_cases hfree : (th.pc.inIns && (if decide (th.pc = .refind) = true then cfg.freeLinked else cfg.freeUnlinked)) = true
        · right
          have hfree' := hfree
          simp only [Bool.and_eq_true] at hfree
          refine ⟨by simp only [hfree', ite_true], hfree.1, by simp [Th.finish, Th.disarm], rfl, ?_⟩
          rcases hpcs with h2 | h2 | h2 | h2
          · exact Or.inl h2
          · right; right
            refine ⟨h2, ?_⟩
            have := hfree.2
            simpa [h2] using this
          · rw [h2] at hfree; simp [Pc.inIns] at hfree
          · exact Or.inr (Or.inl h2)
        · left
          simp only [hfree]
          simp
      · -- exception-free step (plus the deletion of the node of an insertion that found an equivalent key)
        by_cases hd : isDup (thStepCore cfg s t th).res = true
        · obtain ⟨hdesc, hst, hidle⟩ := core_dup hd
          refine ⟨Or.inr ⟨?_, by simp [hdesc, Pc.inIns], ?_, by simp only; rw [hst], Or.inl hdesc⟩, ?_, ?_⟩
          · simp only [hd, ite_true]; rw [hst]
          · simp only [hidle, ite_true, Th.disarm]
          · intro l; simp only; exact core_chain l
          · intro h
            simp only [hidle, ite_true, Th.disarm] at h
            simp [Pc.inIns] at h
        · refine ⟨Or.inl ?_, ?_, ?_⟩
          · simp only [hd]; exact core_freed
          · intro l; simp only; exact core_chain l
          · intro h
            right
            have h' : (thStepCore cfg s t th).th.pc.inIns = true := by
              revert h
              simp only []
              split
              · rename_i hi; simp [Th.disarm, hi, Pc.inIns]
              · simp
            have := core_new hpc h'
            refine ⟨this.1, ?_⟩
            simp only []
            split <;> simp [Th.disarm, this.2]

/-! ### the ledger invariant -/

structure FreeInv (s : St) : Prop where
  nodup : s.freed.Nodup
  lt : ∀ x ∈ s.freed, x < s.core.fresh
  notin : ∀ x ∈ s.freed, ∀ l, x ∉ s.core.chain l
  live : ∀ (t : Tid) (th : Th), s.ths[t]? = some th → th.pc.inIns = true → th.new ∉ s.freed

theorem freeinv_init (progs : List (List Op)) : FreeInv (initSt progs) := by
  refine ⟨by simp [initSt], by simp [initSt], by simp [initSt], ?_⟩
  intro t th hth
  simp [initSt]

theorem freeinv_step (hfl : cfg.freeLinked = false) (hI : KInv cfg s) (hF : FreeInv s) (t : Tid) :
    FreeInv (step cfg s t) := by
  unfold step
  cases hth : s.ths[t]? with
  | none => simpa using hF
  | some th =>
    simp only
    have sf : StepFree cfg s th (thStep cfg s t th) := step_free
    have so := k_step_ok_throw hI (hI.tinv t th hth)
    have hti := hI.tinv t th hth
    have hfresh := so.ext.fresh
    -- facts about a node that is freed in this step
    have hfreedcase : ∀ (hc : (thStep cfg s t th).st.freed = th.new :: s.freed ∧ th.pc.inIns = true ∧ (thStep cfg s t th).th.pc = .idle ∧
        (thStep cfg s t th).st.core = s.core ∧ (th.pc = .desc ∨ th.pc = .ldHead ∨ (th.pc = .refind ∧ cfg.freeLinked = true))),
        th.new ∉ s.freed ∧ th.new < s.core.fresh ∧ ∀ l, th.new ∉ s.core.chain l := by
      intro hc
      obtain ⟨_, hin, _, _, hp⟩ := hc
      refine ⟨hF.live t th hth hin, (own_of_inIns hti hin).lt, ?_⟩
      rcases hp with hp | hp | ⟨_, hp⟩
      · intro l; exact notin0_of_pre hti (Or.inl hp) l (Nat.zero_le _)
      · intro l; exact notin0_of_pre hti (Or.inr hp) l (Nat.zero_le _)
      · rw [hfl] at hp; exact absurd hp (by simp)
    refine ⟨?_, ?_, ?_, ?_⟩
    · -- nothing is freed twice
      show (thStep cfg s t th).st.freed.Nodup
      rcases sf.freed with hfr | hc
      · rw [hfr]; exact hF.nodup
      · rw [hc.1]; exact List.nodup_cons.mpr ⟨(hfreedcase hc).1, hF.nodup⟩
    · intro x hx
      have hx : x ∈ (thStep cfg s t th).st.freed := hx
      show x < (thStep cfg s t th).st.core.fresh
      rcases sf.freed with hfr | hc
      · rw [hfr] at hx; exact Nat.lt_of_lt_of_le (hF.lt x hx) hfresh
      · rw [hc.1] at hx
        rcases List.mem_cons.mp hx with he | he
        · rw [he]; exact Nat.lt_of_lt_of_le (hfreedcase hc).2.1 hfresh
        · exact Nat.lt_of_lt_of_le (hF.lt x he) hfresh
    · -- a freed node is on no level
      intro x hx l
      have hx : x ∈ (thStep cfg s t th).st.freed := hx
      show x ∉ (thStep cfg s t th).st.core.chain l
      rcases sf.freed with hfr | hc
      · rw [hfr] at hx
        rcases sf.chain l with hch | ⟨hin, p, hch⟩
        · rw [hch]; exact hF.notin x hx l
        · rw [hch, mem_insAfter]
          rintro (h1 | ⟨h1, _⟩)
          · exact hF.notin x hx l h1
          · rw [h1] at hx; exact hF.live t th hth hin hx
      · rw [hc.2.2.2.1]
        rw [hc.1] at hx
        rcases List.mem_cons.mp hx with he | he
        · rw [he]; exact (hfreedcase hc).2.2 l
        · exact hF.notin x he l
    · -- threads inside an insertion still own a live node
      intro u thu hu hin
      simp only at hu
      show thu.new ∉ (thStep cfg s t th).st.freed
      rw [List.getElem?_set] at hu
      by_cases hut : t = u
      · subst hut
        have hlt : t < s.ths.length := by
          rcases List.getElem?_eq_some_iff.mp hth with ⟨hl, _⟩; exact hl
        simp only [hlt, ite_true, Option.some.injEq] at hu
        subst hu
        rcases sf.new hin with ⟨_, hn, hfr⟩ | ⟨hin0, hn⟩
        · rw [hn, hfr]
          intro hm
          exact absurd (hF.lt _ hm) (Nat.lt_irrefl _)
        · rcases sf.freed with hfr | hc
          · rw [hn, hfr]; exact hF.live t th hth hin0
          · rw [hc.2.2.1] at hin; simp [Pc.inIns] at hin
      · simp only [hut, ite_false] at hu
        have hlive := hF.live u thu hu hin
        rcases sf.freed with hfr | hc
        · rw [hfr]; exact hlive
        · rw [hc.1]
          intro hm
          rcases List.mem_cons.mp hm with he | he
          · have o1 := (own_of_inIns (hI.tinv u thu hu) hin).own
            have o2 := (own_of_inIns hti hc.2.1).own
            rw [he, o2] at o1
            exact hut o1
          · exact hlive he

theorem freeinv_reachable (cfg : Cfg) (hfl : cfg.freeLinked = false) (progs : List (List Op)) (sched : List Tid) :
    KInv cfg ((sys cfg progs).run sched) ∧ FreeInv ((sys cfg progs).run sched) :=
  Sys.inv_run (sys cfg progs) (fun s => KInv cfg s ∧ FreeInv s) ⟨kinv_init cfg progs, freeinv_init progs⟩
    (fun s t h => ⟨kinv_step cfg s t h.1, freeinv_step hfl h.1 h.2 t⟩) sched

end SkipList
end TbbVerif.C12
