/-
C12 — skip list: consequences of the invariant used by the property theorems.
-/
import TbbVerif.Proofs.C12.SkipListSteps
import TbbVerif.Proofs.C12.CasListFacts

namespace TbbVerif.C12
namespace SkipList

/-- a strictly sorted list whose members all belong to another strictly sorted list is a sub-sequence of it -/
theorem sublist_of_strict {f : Node → Nat} : ∀ (A B : List Node), A.Pairwise (fun a b => f a < f b) →
    B.Pairwise (fun a b => f a < f b) → (∀ x ∈ A, x ∈ B) → A.Sublist B := by
  intro A B
  induction B generalizing A with
  | nil =>
    intro _ _ hsub
    cases A with
    | nil => exact List.Sublist.refl _
    | cons a as => exact absurd (hsub a (by simp)) (by simp)
  | cons b bs ih =>
    intro hA hB hsub
    cases A with
    | nil => exact List.nil_sublist _
    | cons a as =>
      have hA' := List.pairwise_cons.mp hA
      have hB' := List.pairwise_cons.mp hB
      by_cases hab : a = b
      · subst hab
        refine (ih as hA'.2 hB'.2 ?_).cons_cons a
        intro x hx
        have hlt := hA'.1 x hx
        rcases List.mem_cons.mp (hsub x (List.mem_cons_of_mem _ hx)) with h | h
        · rw [h] at hlt; omega
        · exact h
      · have ham : a ∈ bs := by
          rcases List.mem_cons.mp (hsub a (by simp)) with h | h
          · exact absurd h hab
          · exact h
        have hba := hB'.1 a ham
        refine (ih (a :: as) hA hB'.2 ?_).cons b
        intro x hx
        have hfx : f b < f x := by
          rcases List.mem_cons.mp hx with h | h
          · rw [h]; exact hba
          · exact Nat.lt_trans hba (hA'.1 x h)
        rcases List.mem_cons.mp (hsub x hx) with h | h
        · rw [h] at hfx; omega
        · exact h

theorem strict_of_uniq {cfg : Cfg} {c : Core} {hd : Bool} (g : KGood cfg c hd) (hm : cfg.multi = false) (l : Nat) :
    (c.chain l).Pairwise (fun a b => (c.key a).ok < (c.key b).ok) := by
  have hs : (c.chain l).Pairwise (fun a b => (c.key a).ok ≤ (c.key b).ok) := (g.lv l).sorted
  have hn : (c.chain l).Pairwise (fun a b => a ≠ b) := (g.lv l).nodup
  refine List.Pairwise.imp_of_mem ?_ (hs.and hn)
  intro a b ha hb hab
  obtain ⟨hle, hne⟩ := hab
  by_cases he : (c.key a).ok = (c.key b).ok
  · exfalso
    have hk : c.key a = c.key b := by
      have ua := g.uk0 a; have ub := g.uk0 b
      cases hka : c.key a; cases hkb : c.key b
      rw [hka] at ua he; rw [hkb] at ub he
      simp at ua ub he ⊢; exact ⟨he, by rw [ua, ub]⟩
    exact hne ((g.lv l).uniq a ha b hb hk (by simp [rl, rule, hm]))
  · omega

/-- unique containers: every level is a sub-sequence of the level below -/
theorem level_sublist {cfg : Cfg} {c : Core} {hd : Bool} (g : KGood cfg c hd) (hm : cfg.multi = false) (l : Nat) :
    (c.chain (l + 1)).Sublist (c.chain l) :=
  sublist_of_strict (f := fun a => (c.key a).ok) _ _ (strict_of_uniq g hm (l + 1)) (strict_of_uniq g hm l) (g.sub l)

theorem upto_le {f : Node → Nat} {L : List Node} (hs : L.Pairwise (fun a b => f a ≤ f b)) {p x : Node}
    (hp : p ∈ L) (hx : x ∈ upto p L) : f x ≤ f p := by
  induction L with
  | nil => simp [upto] at hx
  | cons y ys ih =>
    have hs' := List.pairwise_cons.mp hs
    simp only [upto] at hx
    split at hx
    · rename_i he; simp at hx; rw [hx, he]; exact Nat.le_refl _
    · rename_i hne
      have hpm : p ∈ ys := by
        rcases List.mem_cons.mp hp with h | h
        · exact absurd h.symm hne
        · exact h
      rcases List.mem_cons.mp hx with h | h
      · rw [h]; exact hs'.1 p hpm
      · exact ih hs'.2 hpm h

/-- **the level-0 walk from any node below the key ends at the list's lower bound** -/
theorem lower_bound_from {f : Node → Nat} {L : List Node} (hs : L.Pairwise (fun a b => f a ≤ f b)) {p : Node} {k : Nat}
    (hp : p ∈ L) (hlt : f p < k) :
    (aft p L).find? (fun x => decide (k ≤ f x)) = L.find? (fun x => decide (k ≤ f x)) := by
  have h := upto_append_aft hp
  conv => rhs; rw [← h]
  rw [List.find?_append]
  have : (upto p L).find? (fun x => decide (k ≤ f x)) = none := by
    rw [List.find?_eq_none]
    intro x hx
    have := upto_le hs hp hx
    simp; omega
  rw [this]; rfl

def isSuccK (k : Nat) : Tid × Res → Bool
  | (_, .ins k' true _) => decide (k' = k)
  | _ => false

def isInsK (k : Nat) : Tid × Res → Bool
  | (_, .ins k' _ _) => decide (k' = k)
  | _ => false

theorem filter_succk_length (k : Nat) (log : List (Tid × Res)) :
    ((log.filter (isSuccK k)).filterMap succNodeK).length = (log.filter (isSuccK k)).length := by
  induction log with
  | nil => rfl
  | cons e es ih =>
    simp only [List.filter_cons]
    split
    · rename_i he
      obtain ⟨t, r⟩ := e
      cases r with
      | ins k' ok n =>
        cases ok with
        | true => simp [succNodeK, ih]
        | false => simp [isSuccK] at he
      | find _ _ _ => simp [isSuccK] at he
      | trav _ _ => simp [isSuccK] at he
      | misuse => simp [isSuccK] at he
      | threw _ => simp [isSuccK] at he
    · exact ih

/-- unique containers: at most one insert of a key reports success; exactly one once any insert of it has returned -/
theorem one_winner_k {cfg : Cfg} {s : St} (h : KInv cfg s) (hm : cfg.multi = false) (k : Nat) :
    (s.log.filter (isSuccK k)).length ≤ 1 ∧
    (s.log.any (isInsK k) = true → (s.log.filter (isSuccK k)).length = 1) := by
  have hsub : ((s.log.filter (isSuccK k)).filterMap succNodeK).Sublist s.core.wins := by
    rw [h.wins]
    exact List.Sublist.filterMap _ List.filter_sublist
  have hnd := hsub.nodup h.g.wins_nodup
  have hall : ∀ n ∈ (s.log.filter (isSuccK k)).filterMap succNodeK, n ∈ s.core.chain 0 ∧ s.core.key n = ⟨k + 1, 0⟩ := by
    intro n hn
    simp only [List.mem_filterMap, List.mem_filter] at hn
    obtain ⟨⟨t, r⟩, ⟨hmem, hs⟩, hsn⟩ := hn
    cases r with
    | ins k' ok n' =>
      cases ok with
      | true =>
        simp only [isSuccK, decide_eq_true_eq] at hs
        simp only [succNodeK, Option.some.injEq] at hsn
        subst hs; subst hsn
        have := h.logok _ hmem
        exact ⟨(h.g.wins_mem _).mpr (Or.inr this.1), this.2.1⟩
      | false => simp [isSuccK] at hs
    | find _ _ _ => simp [isSuccK] at hs
    | trav _ _ => simp [isSuccK] at hs
    | misuse => simp [isSuccK] at hs
    | threw _ => simp [isSuccK] at hs
  have hle : (s.log.filter (isSuccK k)).length ≤ 1 := by
    rw [← filter_succk_length]
    refine length_le_one_of_all_eq hnd ?_
    intro a ha b hb
    obtain ⟨ha1, ha2⟩ := hall a ha
    obtain ⟨hb1, hb2⟩ := hall b hb
    exact (h.g.lv 0).uniq a ha1 b hb1 (by show s.core.key a = s.core.key b; rw [ha2, hb2]) (by simp [rl, rule, hm])
  refine ⟨hle, ?_⟩
  intro hany
  simp only [List.any_eq_true] at hany
  obtain ⟨⟨t, r⟩, hmem, hi⟩ := hany
  have hnode : ∃ n, n ∈ s.core.wins ∧ s.core.key n = ⟨k + 1, 0⟩ := by
    cases r with
    | ins k' ok n =>
      simp only [isInsK, decide_eq_true_eq] at hi
      subst hi
      have hr := h.logok _ hmem
      cases ok with
      | true => exact ⟨n, hr.1, hr.2.1⟩
      | false =>
        obtain ⟨h1, h2, h3⟩ := hr
        rcases (h.g.wins_mem n).mp h1 with h0 | hw
        · exact absurd h0 h3
        · exact ⟨n, hw, h2⟩
    | find _ _ _ => simp [isInsK] at hi
    | trav _ _ => simp [isInsK] at hi
    | misuse => simp [isInsK] at hi
    | threw _ => simp [isInsK] at hi
  obtain ⟨n, hw, hkn⟩ := hnode
  rw [h.wins] at hw
  simp only [List.mem_filterMap] at hw
  obtain ⟨⟨t', r'⟩, hmem', hsn⟩ := hw
  have hin : (t', r') ∈ s.log.filter (isSuccK k) := by
    cases r' with
    | ins k' ok n' =>
      cases ok with
      | true =>
        simp only [succNodeK, Option.some.injEq] at hsn
        subst hsn
        have := h.logok _ hmem'
        simp only [List.mem_filter, isSuccK, decide_eq_true_eq]
        refine ⟨hmem', ?_⟩
        have h1 := this.2.1
        rw [hkn] at h1
        simp at h1; omega
      | false => simp [succNodeK] at hsn
    | find _ _ _ => simp [succNodeK] at hsn
    | trav _ _ => simp [succNodeK] at hsn
    | misuse => simp [succNodeK] at hsn
    | threw _ => simp [succNodeK] at hsn
  have : 0 < (s.log.filter (isSuccK k)).length := List.length_pos_of_mem hin
  omega

end SkipList
end TbbVerif.C12
