/-
C12 — the split-ordered hash table as an interleaving system: the bucket table always points at dummy nodes that
are in the list and carry their bucket's dummy key, so every list operation starts from a valid entry point and
the CAS-list invariant carries over (any number of threads, every schedule).
-/
import TbbVerif.Proofs.C12.Walk
import TbbVerif.Proofs.C12.CasListFacts
import TbbVerif.Proofs.C12.Bits
import TbbVerif.Proofs.C12.Sizing

namespace TbbVerif.C12
namespace SplitOrder
open CasList (succNode isSucc isIns hasKey)

abbrev R (cfg : Cfg) : Key → Rule := rule cfg.multi

theorem rule_dummy (m : Bool) (b uk : Nat) : rule m ⟨dummyKey b, uk⟩ = .uniq := by
  simp [rule, dummyKey_even]

theorem dummyKey_zero : dummyKey 0 = 0 := by simp [dummyKey, rev_zero]

/-- every initialised bucket points at a node of the list that carries the bucket's dummy key -/
def TableOk (L : LSt) (slot : Nat → Option Node) : Prop :=
  ∀ b d, slot b = some d → d ∈ L.chain ∧ L.key d = ⟨dummyKey b, 0⟩

/-- facts about the operation in progress that hold from its first step on -/
def OpOk (L : LSt) (th : Th) : Prop :=
  (th.kind ≠ .touch → th.rk.ok = regularKey th.h) ∧
  (th.kind = .find → th.must = true → ∃ x ∈ L.chain, L.key x = th.rk)
def BOk (th : Th) : Prop := ∃ k, k ≤ 63 ∧ th.b = th.h % 2 ^ k

/-- inside `init_bucket`: the frames (innermost first) -/
structure FrameS (stack : List Nat) (b0 : Nat) : Prop where
  ne : stack ≠ []
  lt : ∀ b ∈ stack, b < 2 ^ 63
  bot : stack.getLast? = some b0
  tl_ne : ∀ b ∈ stack.tail, b ≠ 0

abbrev Frame (th : Th) : Prop := FrameS th.stack th.b


def TInvSO (cfg : Cfg) (L : LSt) (slot : Nat → Option Node) (t : Tid) (th : Th) : Prop :=
  match th.pc with
  | .idle => True
  | .ldBc => OpOk L th ∧ th.stack = []
  | .gb1 => OpOk L th ∧ BOk th ∧ th.stack = []
  | .gb2 => OpOk L th ∧ BOk th ∧ slot th.b ≠ none
  | .ibCas0 => OpOk L th ∧ BOk th ∧ Frame th ∧ th.stack.head? = some 0
  | .ibLoop => OpOk L th ∧ BOk th ∧ Frame th ∧ ∃ b rest, th.stack = b :: rest ∧ b ≠ 0
  | .ibParent => OpOk L th ∧ BOk th ∧ Frame th ∧ ∃ b rest, th.stack = b :: rest ∧ b ≠ 0 ∧ slot (parentOf b) ≠ none
  | .dSearch => OpOk L th ∧ BOk th ∧ Frame th ∧ (∃ b rest, th.stack = b :: rest ∧ th.k = ⟨dummyKey b, 0⟩) ∧
      InsInv (R cfg) L t th.k th.prev th.new
  | .dSetNext => OpOk L th ∧ BOk th ∧ Frame th ∧ (∃ b rest, th.stack = b :: rest ∧ th.k = ⟨dummyKey b, 0⟩) ∧
      InsInv (R cfg) L t th.k th.prev th.new ∧ CurrOk (R cfg) L th.k th.curr
  | .dCas => OpOk L th ∧ BOk th ∧ Frame th ∧ (∃ b rest, th.stack = b :: rest ∧ th.k = ⟨dummyKey b, 0⟩) ∧
      InsInv (R cfg) L t th.k th.prev th.new ∧ CurrOk (R cfg) L th.k th.curr ∧ L.next th.new = th.curr
  | .ibStore => OpOk L th ∧ BOk th ∧ Frame th ∧
      ∃ b rest, th.stack = b :: rest ∧ th.dres ∈ L.chain ∧ L.key th.dres = ⟨dummyKey b, 0⟩
  | .search => InsInv (R cfg) L t th.k th.prev th.new
  | .setNext => InsInv (R cfg) L t th.k th.prev th.new ∧ CurrOk (R cfg) L th.k th.curr
  | .cas => InsInv (R cfg) L t th.k th.prev th.new ∧ CurrOk (R cfg) L th.k th.curr ∧ L.next th.new = th.curr
  | .szAdd => True
  | .ldBc2 => True
  | .casBc => BcOk th.nec
  | .rhLd => True
  | .rvLd => True
  | .rvCas => BcOk th.nec
  | .fwalk => FInv L th.k th.prev th.must
  | .twalk => TrInv L th.prev th.seen th.snap

structure SInv (cfg : Cfg) (s : St) : Prop where
  good : Good (R cfg) s.L
  table : TableOk s.L s.slot
  bc : BcOk s.bc
  tinv : ∀ t th, s.ths[t]? = some th → TInvSO cfg s.L s.slot t th
  logok : ∀ e ∈ s.log, ResOk s.L e.1 e.2
  wins : s.L.wins = s.log.filterMap succNode
  contig : Contig (R cfg) s.L

def newSlot (s : St) (o : Out) : Nat → Option Node :=
  match o.slot with
  | none => s.slot
  | some (b, v) => upd s.slot b v

theorem newSlot_some {s : St} {o : Out} {b : Nat} {v : Option Node} (h : o.slot = some (b, v)) :
    newSlot s o = upd s.slot b v := by simp [newSlot, h]

structure StepOk (cfg : Cfg) (s : St) (t : Tid) (o : Out) : Prop where
  act : ActOk (R cfg) s.L t o.act
  tinv : TInvSO cfg (s.L.apply o.act) (newSlot s o) t o.th
  slotmono : ∀ b, s.slot b ≠ none → newSlot s o b ≠ none
  table : TableOk (s.L.apply o.act) (newSlot s o)
  bc : BcOk (o.bc.getD s.bc)
  res : ∀ r, o.res = some r → ResOk (s.L.apply o.act) t r
  wins : (s.L.apply o.act).wins = (addLog [] t o.res).filterMap succNode ++ s.L.wins

theorem table_stable {cfg : Cfg} {L : LSt} {slot : Nat → Option Node} {t : Tid} {a : Act}
    (g : Good (R cfg) L) (ha : ActOk (R cfg) L t a) (h : TableOk L slot) : TableOk (L.apply a) slot := by
  intro b d hd
  obtain ⟨h1, h2⟩ := h b d hd
  exact ⟨mem_chain_apply h1, by rw [key_apply d (g.alloc d h1) ha]; exact h2⟩

/-- a step that only changes the stepping thread's local state -/
theorem stepok_local {cfg : Cfg} {s : St} {t : Tid} {o : Out} (hI : SInv cfg s)
    (hact : o.act = .nop) (hslot : o.slot = none) (hbc : o.bc = none)
    (hres : ∀ r, o.res = some r → ResOk s.L t r ∧ succNode (t, r) = none)
    (ht : TInvSO cfg s.L s.slot t o.th) : StepOk cfg s t o := by
  have hns : newSlot s o = s.slot := by simp [newSlot, hslot]
  refine ⟨by rw [hact]; trivial, by rw [hact, hns]; exact ht, by rw [hns]; exact fun _ h => h,
    by rw [hact, hns]; exact hI.table, by rw [hbc]; exact hI.bc, ?_, ?_⟩
  · intro r hr; rw [hact]; exact (hres r hr).1
  · rw [hact]
    cases hr : o.res with
    | none => simp [LSt.apply, SplitOrder.addLog]
    | some r => simp [LSt.apply, SplitOrder.addLog, (hres r hr).2]

theorem frame_leave_slot {th : Th} (hf : Frame th) {b : Nat} {rest : List Nat} (hs : th.stack = b :: rest)
    (hr : rest = []) : b = th.b := by
  have := hf.bot
  rw [hs, hr] at this
  simpa using this

/-- returning from `init_bucket(b)` once `slot b` is set -/
theorem leave_ok {cfg : Cfg} {L : LSt} {slot : Nat → Option Node} {t : Tid} {th : Th}
    (hrk : OpOk L th) (hb : BOk th) (hf : Frame th) {b : Nat} {rest : List Nat} (hs : th.stack = b :: rest)
    (hset : slot b ≠ none) : TInvSO cfg L slot t (leaveInit th) := by
  unfold leaveInit
  rw [hs]
  simp only [List.tail_cons]
  cases rest with
  | nil =>
    have hbb := frame_leave_slot hf hs rfl
    simp only [TInvSO]
    exact ⟨hrk, hb, by rw [← hbb]; exact hset⟩
  | cons b1 r1 =>
    simp only [TInvSO]
    refine ⟨hrk, hb, ⟨by simp, ?_, ?_, ?_⟩, b1, r1, rfl, ?_⟩
    · intro x hx; exact hf.lt x (by rw [hs]; exact List.mem_cons_of_mem _ hx)
    · have := hf.bot
      rw [hs] at this
      simpa using this
    · intro x hx
      refine hf.tl_ne x ?_
      rw [hs]; simp only [List.tail_cons]
      exact List.mem_cons_of_mem _ (by simpa using hx)
    · refine hf.tl_ne b1 ?_
      rw [hs]; simp

/-- calling `init_bucket(b)` -/
theorem enter_ok {cfg : Cfg} {L : LSt} {slot : Nat → Option Node} {t : Tid} {th : Th}
    (hrk : OpOk L th) (hb : BOk th) (b : Nat) (hlt : b < 2 ^ 63)
    (hold : ∀ x ∈ th.stack, x < 2 ^ 63) (hne : ∀ x ∈ th.stack, x ≠ 0)
    (hbot : (b :: th.stack).getLast? = some th.b) : TInvSO cfg L slot t (enterInit th b) := by
  unfold enterInit
  have hf : Frame { th with stack := b :: th.stack, pc := if b = 0 then Pc.ibCas0 else Pc.ibLoop } := by
    refine ⟨by simp, ?_, hbot, by simpa using hne⟩
    intro x hx
    rcases List.mem_cons.mp hx with h | h
    · rw [h]; exact hlt
    · exact hold x h
  by_cases h0 : b = 0
  · simp only [h0, ite_true, TInvSO]
    subst h0
    exact ⟨hrk, hb, by simpa using hf, rfl⟩
  · simp only [h0, ite_false, TInvSO]
    exact ⟨hrk, hb, by simpa [h0] using hf, b, th.stack, rfl, h0⟩


theorem opok_stable {cfg : Cfg} {L : LSt} {t : Tid} {a : Act} {th : Th}
    (g : Good (R cfg) L) (ha : ActOk (R cfg) L t a) (h : OpOk L th) : OpOk (L.apply a) th := by
  refine ⟨h.1, ?_⟩
  intro hk hm
  obtain ⟨x, hx, hkx⟩ := h.2 hk hm
  exact ⟨x, mem_chain_apply hx, by rw [key_apply x (g.alloc x hx) ha]; exact hkx⟩

/-- the other threads' invariants survive a step of thread `t` -/
theorem tinvso_stable {cfg : Cfg} {L : LSt} {slot slot' : Nat → Option Node} {t u : Tid} {a : Act} {th : Th}
    (g : Good (R cfg) L) (ha : ActOk (R cfg) L t a) (hut : u ≠ t) (hs : ∀ b, slot b ≠ none → slot' b ≠ none)
    (h : TInvSO cfg L slot u th) : TInvSO cfg (L.apply a) slot' u th := by
  unfold TInvSO at h ⊢
  split <;> rename_i hpc <;> simp only [hpc] at h
  · trivial
  · exact ⟨opok_stable g ha h.1, h.2⟩
  · exact ⟨opok_stable g ha h.1, h.2⟩
  · exact ⟨opok_stable g ha h.1, h.2.1, hs _ h.2.2⟩
  · exact ⟨opok_stable g ha h.1, h.2⟩
  · exact ⟨opok_stable g ha h.1, h.2⟩
  · obtain ⟨h1, h2, h3, b, rest, h4, h5, h6⟩ := h
    exact ⟨opok_stable g ha h1, h2, h3, b, rest, h4, h5, hs _ h6⟩
  · obtain ⟨h1, h2, h3, h4, h5⟩ := h
    exact ⟨opok_stable g ha h1, h2, h3, h4, insinv_stable g ha hut h5⟩
  · obtain ⟨h1, h2, h3, h4, h5, h6⟩ := h
    exact ⟨opok_stable g ha h1, h2, h3, h4, insinv_stable g ha hut h5, currok_stable g ha h6⟩
  · obtain ⟨h1, h2, h3, h4, h5, h6, h7⟩ := h
    refine ⟨opok_stable g ha h1, h2, h3, h4, insinv_stable g ha hut h5, currok_stable g ha h6, ?_⟩
    exact private_next_stable g ha hut h5 h7
  · obtain ⟨h1, h2, h3, b, rest, h4, h5, h6⟩ := h
    exact ⟨opok_stable g ha h1, h2, h3, b, rest, h4, mem_chain_apply h5,
      by rw [key_apply _ (g.alloc _ h5) ha]; exact h6⟩
  · exact insinv_stable g ha hut h
  · exact ⟨insinv_stable g ha hut h.1, currok_stable g ha h.2⟩
  · exact ⟨insinv_stable g ha hut h.1, currok_stable g ha h.2.1, private_next_stable g ha hut h.1 h.2.2⟩
  · trivial
  · trivial
  · exact h
  · trivial
  · trivial
  · exact h
  · exact finv_stable g ha h
  · exact trinv_stable g ha h

end SplitOrder
end TbbVerif.C12
