/-
C12 — skip list: the three kinds of change a step makes to the shared pointer structure (allocate a node, write a
private node's pointer, link a node on one level) preserve the global invariant `KGood` and are legal extensions
`Ext` in the eyes of the other threads.
-/
import TbbVerif.Proofs.C12.SkipListSys

namespace TbbVerif.C12
namespace SkipList

theorem good_congr {rule} {L L' : LSt} (g : Good rule L) (hn : ∀ x ∈ L.chain, L'.next x = L.next x)
    (hk : L'.key = L.key) (hf : L'.fresh = L.fresh) (hc : L'.chain = L.chain) (hw : L'.wins = L.wins) : Good rule L' := by
  refine ⟨by rw [hc]; exact g.nodup, by rw [hc]; exact g.head, ?_, by rw [hc, hk]; exact g.sorted, ?_, ?_, ?_,
    by rw [hw]; exact g.wins_nodup, by rw [hw]; exact g.head_not_win, by rw [hk]; exact g.key0⟩
  · intro x hx; rw [hc] at hx ⊢; rw [hn x hx]; exact g.linked x hx
  · intro a ha b hb; rw [hc] at ha hb; rw [hk]; exact g.uniq a ha b hb
  · intro x hx; rw [hc] at hx; rw [hf]; exact g.alloc x hx
  · intro x; rw [hc, hw]; exact g.wins_mem x

variable {cfg : Cfg} {c c' : Core} {hd : Bool} {t : Tid}

/-- nothing but pointers of nodes outside the lists changed -/
theorem kgood_same (g : KGood cfg c hd) (hk : c'.key = c.key) (hf : c'.fresh = c.fresh) (hh : c'.height = c.height)
    (hc : c'.chain = c.chain) (hw : c'.wins = c.wins) (hn : ∀ l x, x ∈ c.chain l → c'.next l x = c.next l x) :
    KGood cfg c' hd := by
  refine ⟨by rw [hc]; exact g.nohead, ?_, by rw [hc]; exact g.sub, by rw [hc, hh]; exact g.hgt, by rw [hk]; exact g.uk0,
    by rw [hc, hw]; exact g.wins_mem, by rw [hw]; exact g.wins_nodup⟩
  intro l
  exact good_congr (g.lv l) (fun x hx => hn l x hx) hk hf (by show c'.chain l = c.chain l; rw [hc])
    (by show (c'.chain l).tail = (c.chain l).tail; rw [hc])

theorem ext_same (ho : c'.owner = c.owner) (hk : c'.key = c.key) (hf : c'.fresh = c.fresh) (hh : c'.height = c.height)
    (hc : c'.chain = c.chain) (hn : ∀ l x, c'.next l x = c.next l x ∨ c.owner x = t) : Ext t c c' :=
  ⟨by rw [hf]; exact Nat.le_refl _, fun x _ => by rw [hk], fun x _ => by rw [ho], fun x _ => by rw [hh],
   fun l => Or.inl (by rw [hc]), fun l x _ => (hn l x).elim Or.inl (fun h => Or.inr (Or.inr h))⟩

/-- `create_value_node` -/
theorem kgood_alloc (g : KGood cfg c hd) (k : Nat) (h : Nat)
    (hk : c'.key = upd c.key c.fresh ⟨k + 1, 0⟩) (hf : c'.fresh = c.fresh + 1) (hh : c'.height = upd c.height c.fresh h)
    (hc : c'.chain = c.chain) (hw : c'.wins = c.wins)
    (hn : ∀ l x, c'.next l x = if x = c.fresh then none else c.next l x) : KGood cfg c' hd := by
  have hne : ∀ l x, x ∈ c.chain l → x ≠ c.fresh := fun l x hx he => by have := g.mem_lt hx; omega
  refine ⟨by rw [hc]; exact g.nohead, ?_, by rw [hc]; exact g.sub, ?_, ?_, by rw [hc, hw]; exact g.wins_mem,
    by rw [hw]; exact g.wins_nodup⟩
  · intro l
    have := good_alloc (g.lv l) ⟨k + 1, 0⟩ 0
    refine good_congr this ?_ ?_ ?_ ?_ ?_
    · intro x _; show c'.next l x = upd (c.next l) c.fresh none x
      rw [hn]; rfl
    · show c'.key = upd c.key c.fresh ⟨k + 1, 0⟩; exact hk
    · show c'.fresh = c.fresh + 1; exact hf
    · show c'.chain l = c.chain l; rw [hc]
    · show (c'.chain l).tail = (c.chain l).tail; rw [hc]
  · intro l x hx hx0
    rw [hc] at hx
    rw [hh]
    simp only [upd, hne l x hx, ite_false]
    exact g.hgt l x hx hx0
  · intro x
    rw [hk]
    simp only [upd]
    split
    · rfl
    · exact g.uk0 x

theorem ext_alloc (ho : ∀ x, x < c.fresh → c'.owner x = c.owner x)
    (hk : c'.key = upd c.key c.fresh ⟨k, 0⟩) (hf : c'.fresh = c.fresh + 1) (hh : c'.height = upd c.height c.fresh h)
    (hc : c'.chain = c.chain) (hn : ∀ l x, c'.next l x = if x = c.fresh then none else c.next l x) : Ext t c c' := by
  refine ⟨by rw [hf]; omega, ?_, ho, ?_, fun l => Or.inl (by rw [hc]), ?_⟩
  · intro x hx; rw [hk]; simp [upd]; omega
  · intro x hx; rw [hh]; simp [upd]; omega
  · intro l x hx; left; rw [hn]; simp; omega

/-- the successful CAS `p.next[l] : curr → n` -/
theorem kgood_link (g : KGood cfg c hd) (l : Nat) (p n : Node) (hl : LinkOk (rl cfg) (view c l) p n)
    (hbelow : ∀ l', l' < l → n ∈ c.chain l') (hhn : l < c.height n) (hhd : l = 0 → hd = true)
    (hk : c'.key = c.key) (hf : c'.fresh = c.fresh) (hh : c'.height = c.height)
    (hc : ∀ l', c'.chain l' = if l' = l then insAfter p n (c.chain l) else c.chain l')
    (hn : ∀ l' x, c'.next l' x = if l' = l ∧ x = p then some n else c.next l' x)
    (hw : c'.wins = if l = 0 then n :: c.wins else c.wins) : KGood cfg c' hd := by
  have hnn : n ∉ c.chain l := hl.n_notin
  have hpm : p ∈ c.chain l := hl.p_mem
  refine ⟨?_, ?_, ?_, ?_, by rw [hk]; exact g.uk0, ?_, ?_⟩
  · intro h0
    by_cases hl0 : l = 0
    · rw [hhd hl0] at h0; simp at h0
    · rw [hc]; simp only [show (0 = l) = False from by simp; omega, ite_false]
      exact g.nohead h0
  · intro l'
    by_cases hll : l' = l
    · subst hll
      have g1 := good_retail (good_link (g.lv l') hl)
      refine good_congr g1 ?_ hk hf ?_ ?_
      · intro x _
        show c'.next l' x = upd (c.next l') p (some n) x
        rw [hn]; simp [upd]
      · show c'.chain l' = insAfter p n (c.chain l'); rw [hc]; simp
      · show (c'.chain l').tail = (insAfter p n (c.chain l')).tail; rw [hc]; simp
    · refine good_congr (g.lv l') ?_ hk hf ?_ ?_
      · intro x _; show c'.next l' x = c.next l' x; rw [hn]; simp [hll]
      · show c'.chain l' = c.chain l'; rw [hc]; simp [hll]
      · show (c'.chain l').tail = (c.chain l').tail; rw [hc]; simp [hll]
  · intro l' x hx
    rw [hc] at hx ⊢
    by_cases h1 : l' + 1 = l
    · simp only [h1, ite_true] at hx
      have hne : ¬ l' = l := by omega
      simp only [hne, ite_false]
      rcases mem_insAfter.mp hx with hx | ⟨hx, _⟩
      · exact g.sub l' x (by rw [h1]; exact hx)
      · rw [hx]; exact hbelow l' (by omega)
    · simp only [h1, ite_false] at hx
      have := g.sub l' x hx
      by_cases h2 : l' = l
      · simp only [h2, ite_true]; rw [h2] at this; exact mem_insAfter_of_mem this
      · simp only [h2, ite_false]; exact this
  · intro l' x hx hx0
    rw [hc] at hx
    rw [hh]
    by_cases h2 : l' = l
    · simp only [h2, ite_true] at hx
      rcases mem_insAfter.mp hx with hx | ⟨hx, _⟩
      · rw [h2]; exact g.hgt l x hx hx0
      · rw [hx, h2]; exact hhn
    · simp only [h2, ite_false] at hx
      exact g.hgt l' x hx hx0
  · intro x
    rw [hc, hw]
    by_cases hl0 : l = 0
    · simp only [hl0, ite_true, mem_insAfter, List.mem_cons, g.wins_mem]
      subst hl0
      constructor
      · rintro ((h1 | h1) | h1)
        · exact Or.inl h1
        · exact Or.inr (Or.inr h1)
        · exact Or.inr (Or.inl h1.1)
      · rintro (h1 | h1 | h1)
        · exact Or.inl (Or.inl h1)
        · exact Or.inr ⟨h1, (g.wins_mem p).mp hpm⟩
        · exact Or.inl (Or.inr h1)
    · have : ¬ (0 = l) := fun h => hl0 h.symm
      simp only [hl0, this, ite_false]
      exact g.wins_mem x
  · rw [hw]
    by_cases hl0 : l = 0
    · simp only [hl0, ite_true]
      subst hl0
      refine List.nodup_cons.mpr ⟨?_, g.wins_nodup⟩
      intro hmem
      exact hnn ((g.wins_mem n).mpr (Or.inr hmem))
    · simp only [hl0, ite_false]; exact g.wins_nodup

theorem ext_link (l : Nat) (p n : Node) (hpm : p ∈ c.chain l) (hnn : n ∉ c.chain l)
    (hown : c.owner n = t) (hlt : n < c.fresh)
    (ho : c'.owner = c.owner) (hk : c'.key = c.key) (hf : c'.fresh = c.fresh) (hh : c'.height = c.height)
    (hc : ∀ l', c'.chain l' = if l' = l then insAfter p n (c.chain l) else c.chain l')
    (hn : ∀ l' x, c'.next l' x = if l' = l ∧ x = p then some n else c.next l' x) : Ext t c c' := by
  refine ⟨by rw [hf]; exact Nat.le_refl _, fun x _ => by rw [hk], fun x _ => by rw [ho], fun x _ => by rw [hh], ?_, ?_⟩
  · intro l'
    by_cases hll : l' = l
    · right; refine ⟨p, n, by rw [hll]; exact hnn, hown, hlt, ?_⟩
      rw [hc]; simp [hll]
    · left; rw [hc]; simp [hll]
  · intro l' x _
    by_cases h1 : l' = l ∧ x = p
    · right; left; rw [h1.1, h1.2]; exact hpm
    · left; rw [hn]; simp [h1]

end SkipList
end TbbVerif.C12
