/-
C12 — the steps of an insertion walk (`search_after` / `insert_dummy_node` / skip-list level walk, `try_insert`),
phrased on the components of a thread's state so that every system built on the CAS list can reuse them.
-/
import TbbVerif.Proofs.C12.CasListSys

namespace TbbVerif.C12
open CasList

variable {rule : Key → Rule} {L : LSt} {t : Tid} {k : Key} {prev new c : Node} {curr : Option Node}

/-- an entry point strictly below the key starts a walk -/
theorem insinv_start (g : Good rule L) (hs : prev ∈ L.chain) (hlt : (L.key prev).ok < k.ok) (t : Tid) :
    InsInv rule (L.apply (.alloc k t)) t k prev L.fresh := by
  have hkeq : ∀ x ∈ L.chain, upd L.key L.fresh k x = L.key x := by
    intro x hx; have := g.alloc x hx; simp [upd]; omega
  refine ⟨by simp [LSt.apply, upd], by simp [LSt.apply], ?_, by simp [LSt.apply, upd], hs, ?_, ?_, ?_⟩
  · simp only [LSt.apply]
    intro hm; have := g.alloc _ hm; omega
  · simp only [LSt.apply]; rw [hkeq prev hs]; omega
  · intro _ x hx hkx
    simp only [LSt.apply] at hx hkx ⊢
    rw [hkeq x hx] at hkx
    exact mem_aft_of_lt (f := fun a => (L.key a).ok) g.sorted hs hx (by rw [hkx]; exact hlt)
  · intro _; omega

/-- the walk moves on past `c` -/
theorem insinv_adv (g : Good rule L) (h : InsInv rule L t k prev new) (hc : L.next prev = some c)
    (hadv : adv (rule k) (L.key c) k = true) : InsInv rule L t k c new := by
  obtain ⟨r, hr⟩ := linked_some g h.prev_mem hc
  have hcm : c ∈ L.chain := mem_of_mem_aft (p := prev) (by rw [hr]; simp)
  refine ⟨h.own, h.lt, h.notin, h.keynew, hcm, adv_le hadv, ?_, h.pos⟩
  intro hru x hx hkx
  have hb := h.behind hru x hx hkx
  rw [hr] at hb
  rcases List.mem_cons.mp hb with hb | hb
  · subst hb
    rw [hkx, adv_self_false hru] at hadv
    exact absurd hadv (by simp)
  · rw [aft_step g.nodup hr]; exact hb

/-- the walk stops at an equivalent key -/
theorem insinv_hit (g : Good rule L) (h : InsInv rule L t k prev new) (hc : L.next prev = some c)
    (hadv : adv (rule k) (L.key c) k = false) (hhit : hit (rule k) (L.key c) k = true) :
    c ∈ L.chain ∧ L.key c = k ∧ c ≠ 0 ∧ rule k = .uniq := by
  obtain ⟨r, hr⟩ := linked_some g h.prev_mem hc
  have hcm : c ∈ L.chain := mem_of_mem_aft (p := prev) (by rw [hr]; simp)
  have hu : rule k = .uniq := by
    simp only [hit, Bool.and_eq_true, decide_eq_true_eq] at hhit; exact hhit.1
  rw [hu] at hadv hhit
  have hk := hit_eq hadv hhit
  refine ⟨hcm, hk, ?_, hu⟩
  intro h0
  have hp := h.pos (by rw [hu]; simp)
  rw [h0, g.key0] at hk
  rw [← hk] at hp
  simp at hp

theorem currok_some (g : Good rule L) (h : InsInv rule L t k prev new) (hc : L.next prev = some c)
    (hadv : adv (rule k) (L.key c) k = false) (hhit : hit (rule k) (L.key c) k = false) :
    CurrOk rule L k (some c) := by
  obtain ⟨r, hr⟩ := linked_some g h.prev_mem hc
  exact ⟨mem_of_mem_aft (p := prev) (by rw [hr]; simp), hadv, hhit⟩

/-- `new_node->set_next(curr)` on the private node -/
theorem setnext_ok (g : Good rule L) (h : InsInv rule L t k prev new) (hc : CurrOk rule L k curr) :
    ActOk rule L t (.setNext new curr) ∧ InsInv rule (L.apply (.setNext new curr)) t k prev new ∧
    CurrOk rule (L.apply (.setNext new curr)) k curr ∧ (L.apply (.setNext new curr)).next new = curr := by
  have ha : ActOk rule L t (.setNext new curr) := ⟨h.own, h.notin, h.lt⟩
  exact ⟨ha, ⟨h.own, h.lt, h.notin, h.keynew, h.prev_mem, h.prev_le, h.behind, h.pos⟩, currok_stable g ha hc,
    by simp [LSt.apply, upd]⟩

/-- a successful CAS `prev.next : curr → new` is a legal link -/
theorem link_ok (g : Good rule L) (h : InsInv rule L t k prev new) (hc : CurrOk rule L k curr)
    (hn : L.next new = curr) (hcas : L.next prev = curr) :
    LinkOk rule L prev new ∧ LinkSide rule L prev new ∧ LinkContig rule L prev new := by
  have hge : ∀ x ∈ aft prev L.chain, k.ok ≤ (L.key x).ok ∧ ((rule k ≠ .before → k.ok < (L.key x).ok)) := by
    intro x hx
    cases hcur : curr with
    | none =>
      rw [hcur] at hcas
      rw [linked_none g h.prev_mem hcas] at hx
      simp at hx
    | some c =>
      rw [hcur] at hcas hc
      obtain ⟨r, hr⟩ := linked_some g h.prev_mem hcas
      obtain ⟨hcm, hadv, hhit⟩ := hc
      have hcx : (L.key c).ok ≤ (L.key x).ok := by
        rw [hr] at hx
        rcases List.mem_cons.mp hx with hx | hx
        · rw [hx]; exact Nat.le_refl _
        · rw [← aft_step g.nodup hr] at hx
          exact pairwise_aft (R := fun a b => (L.key a).ok ≤ (L.key b).ok) g.sorted hcm hx
      refine ⟨Nat.le_trans (not_adv_ge hadv) hcx, ?_⟩
      intro hnb
      cases hrk : rule k with
      | uniq => rw [hrk] at hadv hhit; exact Nat.lt_of_lt_of_le (stop_uniq hadv hhit) hcx
      | before => exact absurd hrk hnb
      | after => rw [hrk] at hadv; exact Nat.lt_of_lt_of_le (stop_after hadv) hcx
  refine ⟨⟨h.prev_mem, h.notin, h.lt, by rw [hn, hcas], by rw [h.keynew]; exact h.prev_le, ?_, ?_⟩, ?_, link_contig_of g h hc hcas⟩
  · intro x hx; rw [h.keynew]; exact (hge x hx).1
  · intro hu x hx hkx
    rw [h.keynew] at hu hkx
    have hb := h.behind (by rw [hu]; simp) x hx hkx
    have := (hge x hb).2 (by rw [hu]; simp)
    rw [hkx] at this; omega
  · unfold LinkSide
    rw [h.keynew]
    by_cases hb : rule k = .before
    · cases hcur : curr with
      | none =>
        left
        rw [hcur] at hcas
        rw [linked_none g h.prev_mem hcas]; simp
      | some c =>
        rw [hcur] at hcas hc
        obtain ⟨r, hr⟩ := linked_some g h.prev_mem hcas
        obtain ⟨hcm, hadv, _⟩ := hc
        rw [hb] at hadv
        rcases stop_before hadv with hlt | heq
        · left
          intro x hx
          have hcx : (L.key c).ok ≤ (L.key x).ok := by
            rw [hr] at hx
            rcases List.mem_cons.mp hx with hx | hx
            · rw [hx]; exact Nat.le_refl _
            · rw [← aft_step g.nodup hr] at hx
              exact pairwise_aft (R := fun a b => (L.key a).ok ≤ (L.key b).ok) g.sorted hcm hx
          omega
        · right
          exact ⟨hb, c, r, hr, heq⟩
    · left
      intro x hx; exact (hge x hx).2 hb

/-- what the linked node looks like afterwards -/
theorem linked_facts (h : InsInv rule L t k prev new) :
    new ∈ (L.apply (.link prev new)).wins ∧ (L.apply (.link prev new)).key new = k ∧
    (L.apply (.link prev new)).owner new = t ∧ new < (L.apply (.link prev new)).fresh :=
  ⟨by simp [LSt.apply], by simpa [LSt.apply] using h.keynew, by simpa [LSt.apply] using h.own,
    by simpa [LSt.apply] using h.lt⟩

/-! ### lookups and traversals -/

theorem finv_start (g : Good rule L) (hs : prev ∈ L.chain) (hlt : (L.key prev).ok < k.ok) :
    FInv L k prev (hasKey L k) := by
  refine ⟨hs, ?_⟩
  intro hm
  simp only [hasKey, List.any_eq_true, decide_eq_true_eq] at hm
  obtain ⟨x, hx, hkx⟩ := hm
  exact ⟨x, mem_aft_of_lt (f := fun a => (L.key a).ok) g.sorted hs hx (by rw [hkx]; exact hlt), hkx⟩

theorem finv_none {must : Bool} (g : Good rule L) (h : FInv L k prev must) (hc : L.next prev = none) : must = false := by
  cases must with
  | false => rfl
  | true =>
    obtain ⟨x, hx, _⟩ := h.ahead rfl
    rw [linked_none g h.prev_mem hc] at hx
    simp at hx

theorem finv_gt {must : Bool} (g : Good rule L) (h : FInv L k prev must) (hc : L.next prev = some c)
    (hgt : k.ok < (L.key c).ok) : must = false := by
  cases must with
  | false => rfl
  | true =>
    obtain ⟨x, hx, hkx⟩ := h.ahead rfl
    obtain ⟨r, hr⟩ := linked_some g h.prev_mem hc
    have hcm : c ∈ L.chain := mem_of_mem_aft (p := prev) (by rw [hr]; simp)
    exfalso
    have hcx : (L.key c).ok ≤ (L.key x).ok := by
      rw [hr] at hx
      rcases List.mem_cons.mp hx with hx | hx
      · rw [hx]; exact Nat.le_refl _
      · rw [← aft_step g.nodup hr] at hx
        exact pairwise_aft (R := fun a b => (L.key a).ok ≤ (L.key b).ok) g.sorted hcm hx
    rw [hkx] at hcx; omega

theorem finv_mem (g : Good rule L) {must : Bool} (h : FInv L k prev must) (hc : L.next prev = some c) : c ∈ L.chain := by
  obtain ⟨r, hr⟩ := linked_some g h.prev_mem hc
  exact mem_of_mem_aft (p := prev) (by rw [hr]; simp)

theorem finv_adv {must : Bool} (g : Good rule L) (h : FInv L k prev must) (hc : L.next prev = some c)
    (hne : L.key c ≠ k) : FInv L k c must := by
  obtain ⟨r, hr⟩ := linked_some g h.prev_mem hc
  refine ⟨mem_of_mem_aft (p := prev) (by rw [hr]; simp), ?_⟩
  intro hm
  obtain ⟨x, hx, hkx⟩ := h.ahead hm
  refine ⟨x, ?_, hkx⟩
  rw [hr] at hx
  rcases List.mem_cons.mp hx with hx | hx
  · subst hx; exact absurd hkx hne
  · rw [aft_step g.nodup hr]; exact hx

theorem trinv_start (g : Good rule L) : TrInv L 0 [0] L.chain := by
  refine ⟨g.head_mem, rfl, ?_, ?_⟩
  · rw [g.chain_eq]; simp [upto]
  · intro x hx
    rw [g.chain_eq] at hx
    rcases List.mem_cons.mp hx with h | h
    · exact Or.inl (by simp [h])
    · exact Or.inr h

theorem trinv_adv {seen snap : List Node} (g : Good rule L) (h : TrInv L prev seen snap) (hc : L.next prev = some c) :
    TrInv L c (c :: seen) snap := by
  obtain ⟨r, hr⟩ := linked_some g h.prev_mem hc
  refine ⟨mem_of_mem_aft (p := prev) (by rw [hr]; simp), rfl, ?_, ?_⟩
  · rw [upto_step g.nodup hr, List.reverse_cons]
    exact List.Sublist.append h.sub (List.Sublist.refl _)
  · intro x hx
    rcases h.cover x hx with h1 | h1
    · exact Or.inl (List.mem_cons_of_mem _ h1)
    · rw [hr] at h1
      rcases List.mem_cons.mp h1 with h2 | h2
      · exact Or.inl (by simp [h2])
      · right; rw [aft_step g.nodup hr]; exact h2

theorem trinv_end {seen snap : List Node} (g : Good rule L) (h : TrInv L prev seen snap) (hc : L.next prev = none) :
    seen.reverse.Sublist L.chain ∧ ∀ x ∈ snap, x ∈ seen.reverse := by
  have hnil := linked_none g h.prev_mem hc
  refine ⟨?_, ?_⟩
  · have := h.sub
    rw [upto_eq_self_of_aft_nil h.prev_mem hnil] at this
    exact this
  · intro x hx
    rcases h.cover x hx with h1 | h1
    · simpa using h1
    · rw [hnil] at h1; simp at h1

end TbbVerif.C12
