/-
C12 — multi containers of the unordered family (`before` rule): equivalent keys stay contiguous in the list.
-/
import TbbVerif.Proofs.C12.CasList

namespace TbbVerif.C12

/-- between two nodes with the same `before`-rule key there are only nodes with that key -/
def Contig (rule : Key → Rule) (L : LSt) : Prop :=
  ∀ a ∈ L.chain, ∀ b ∈ L.chain, L.key a = L.key b → rule (L.key a) = .before →
    ∀ z, z ∈ aft a L.chain → b ∈ aft z L.chain → L.key z = L.key a

theorem contig_init (rule : Key → Rule) : Contig rule ({} : LSt) := by
  intro a ha b hb _ _ z hz _
  simp at ha; subst ha
  simp [aft] at hz

theorem contig_link {rule} {L : LSt} {p n : Node} (g : Good rule L) (hc : Contig rule L) (hl : LinkOk rule L p n)
    (hlc : LinkContig rule L p n) : Contig rule (L.apply (.link p n)) := by
  have hnd := g.nodup
  have hnn := hl.n_notin
  have hpm := hl.p_mem
  have hnd' : (insAfter p n L.chain).Nodup := nodup_insAfter hnd hnn
  -- membership of old nodes behind old nodes is unchanged
  have hold : ∀ x y, x ∈ L.chain → y ≠ n → y ∈ aft x (insAfter p n L.chain) → y ∈ aft x L.chain := by
    intro x y hx hy h
    rcases mem_aft_insAfter_old hnd hnn hx h with h1 | ⟨h1, _⟩
    · exact h1
    · exact absurd h1 hy
  have hnew : ∀ x, x ∈ L.chain → n ∈ aft x (insAfter p n L.chain) → x = p ∨ p ∈ aft x L.chain := by
    intro x hx h
    rcases mem_aft_insAfter_old hnd hnn hx h with h1 | ⟨_, h1⟩
    · exact absurd (mem_of_mem_aft h1) hnn
    · exact h1
  have haftn : aft n (insAfter p n L.chain) = aft p L.chain := aft_insAfter_new hnn hpm
  intro a ha b hb hk hr z hz hbz
  simp only [LSt.apply] at ha hb hk hr hz hbz ⊢
  have hzm : z ∈ insAfter p n L.chain := mem_of_mem_aft hz
  by_cases han : a = n
  · -- the new node is the first of the pair
    subst han
    rw [haftn] at hz
    have hzo : z ∈ L.chain := mem_of_mem_aft hz
    have hzn : z ≠ a := fun he => hnn (he ▸ hzo)
    by_cases hbn : b = a
    · subst hbn
      exact absurd (aft_antisymm hnd' (by rw [haftn]; exact hz) hbz) id
    · have hbo : b ∈ L.chain := by
        rcases mem_insAfter.mp hb with h | h
        · exact h
        · exact absurd h.1 hbn
      have hbz' := hold z b hzo hbn hbz
      rcases hlc.c1 hr with ⟨c, r, hcr, hkc⟩ | hno
      · have hcm : c ∈ L.chain := mem_of_mem_aft (p := p) (by rw [hcr]; simp)
        rw [hcr] at hz
        rcases List.mem_cons.mp hz with h1 | h1
        · rw [h1]; exact hkc
        · rw [← aft_step hnd hcr] at h1
          have := hc c hcm b hbo (by rw [hkc, hk]) (by rw [hkc]; exact hr) z h1 hbz'
          rw [this, hkc]
      · exact absurd hk.symm (hno b hbo)
  · have hao : a ∈ L.chain := by
      rcases mem_insAfter.mp ha with h | h
      · exact h
      · exact absurd h.1 han
    by_cases hbn : b = n
    · -- the new node is the last of the pair
      subst hbn
      have hzn : z ≠ b := fun he => by
        subst he; exact not_mem_aft_self hnd' hbz
      have hzo : z ∈ L.chain := by
        rcases mem_insAfter.mp hzm with h | h
        · exact h
        · exact absurd h.1 hzn
      have hza := hold a z hao hzn hz
      have hzp := hnew z hzo hbz
      rcases hlc.c1 (by rw [← hk]; exact hr) with ⟨c, r, hcr, hkc⟩ | hno
      · have hcm : c ∈ L.chain := mem_of_mem_aft (p := p) (by rw [hcr]; simp)
        have hcz : c ∈ aft z L.chain := by
          rcases hzp with h | h
          · rw [h, hcr]; simp
          · exact aft_trans hnd h (by rw [hcr]; simp)
        exact hc a hao c hcm (by rw [hkc, hk]) hr z hza hcz
      · exact absurd hk (hno a hao)
    · have hbo : b ∈ L.chain := by
        rcases mem_insAfter.mp hb with h | h
        · exact h
        · exact absurd h.1 hbn
      by_cases hzn : z = n
      · -- the new node lies between an old pair
        subst hzn
        have hap := hnew a hao hz
        rw [haftn] at hbz
        -- `p` has the pair's key, and so has the node right behind `p`
        obtain ⟨c, r, hcr⟩ : ∃ c r, aft p L.chain = c :: r := by
          cases h : aft p L.chain with
          | nil => rw [h] at hbz; simp at hbz
          | cons c r => exact ⟨c, r, rfl⟩
        have hcm : c ∈ L.chain := mem_of_mem_aft (p := p) (by rw [hcr]; simp)
        have hkp : L.key p = L.key a := by
          rcases hap with h | h
          · rw [h]
          · exact hc a hao b hbo hk hr p h hbz
        have hkc : L.key c = L.key a := by
          rw [hcr] at hbz
          rcases List.mem_cons.mp hbz with h | h
          · rw [← h, hk]
          · rw [← aft_step hnd hcr] at h
            have hca : c ∈ aft a L.chain := by
              rcases hap with h' | h'
              · rw [h', hcr]; simp
              · exact aft_trans hnd h' (by rw [hcr]; simp)
            exact hc a hao b hbo hk hr c hca h
        rw [hlc.c2 c r hcr (by rw [hkp, hkc]), hkp]
      · exact hc a hao b hbo hk hr z (hold a z hao hzn hz) (hold z b (by
          rcases mem_insAfter.mp hzm with h | h
          · exact h
          · exact absurd h.1 hzn) hbn hbz)

theorem contig_alloc {rule} {L : LSt} (g : Good rule L) (hc : Contig rule L) (k : Key) (t : Tid) :
    Contig rule (L.apply (.alloc k t)) := by
  have hk : ∀ x ∈ L.chain, upd L.key L.fresh k x = L.key x := fun x hx => by
    have := g.alloc x hx; simp [upd]; omega
  intro a ha b hb hkk hr z hz hbz
  simp only [LSt.apply] at ha hb hkk hr hz hbz ⊢
  have hzm := mem_of_mem_aft hz
  rw [hk a ha] at hkk hr ⊢
  rw [hk b hb] at hkk
  rw [hk z hzm]
  exact hc a ha b hb hkk hr z hz hbz

theorem contig_setNext {rule} {L : LSt} (hc : Contig rule L) (n : Node) (v : Option Node) :
    Contig rule (L.apply (.setNext n v)) := hc

theorem contig_apply {rule} {L : LSt} {t : Tid} {a : Act} (g : Good rule L) (hc : Contig rule L) (h : ActOk rule L t a) :
    Contig rule (L.apply a) := by
  cases a with
  | nop => exact hc
  | alloc k t' => exact contig_alloc g hc k t'
  | setNext n v => exact hc
  | link p n => exact contig_link g hc h.2.1 h.2.2.2

end TbbVerif.C12
