/-
C12 — pure list lemmas about the ghost chain: `aft` (what follows a node), `upto` (prefix through a node),
`insAfter` (the effect of a successful CAS `prev.next : curr → new`).
-/
import TbbVerif.Model.C12

namespace TbbVerif.C12

variable {p q n x a b c : Node} {L r : List Node}

theorem aft_sublist (p : Node) (L : List Node) : (aft p L).Sublist L := by
  induction L with
  | nil => simp [aft]
  | cons y ys ih =>
    simp only [aft]
    split
    · exact List.sublist_cons_self _ _
    · exact ih.trans (List.sublist_cons_self _ _)

theorem mem_of_mem_aft (h : x ∈ aft p L) : x ∈ L := (aft_sublist p L).subset h

theorem aft_of_not_mem (h : p ∉ L) : aft p L = [] := by
  induction L with
  | nil => rfl
  | cons y ys ih =>
    simp only [List.mem_cons, not_or] at h
    simp [aft, Ne.symm h.1, ih h.2]

theorem mem_of_aft_ne_nil (h : aft p L ≠ []) : p ∈ L := by
  by_cases hp : p ∈ L
  · exact hp
  · exact absurd (aft_of_not_mem hp) h

theorem upto_append_aft (h : p ∈ L) : upto p L ++ aft p L = L := by
  induction L with
  | nil => simp at h
  | cons y ys ih =>
    simp only [upto, aft]
    split
    · simp
    · rename_i hne
      have : p ∈ ys := by
        rcases List.mem_cons.mp h with h | h
        · exact absurd h.symm hne
        · exact h
      simp [ih this]

theorem mem_upto_self (h : p ∈ L) : p ∈ upto p L := by
  induction L with
  | nil => simp at h
  | cons y ys ih =>
    simp only [upto]
    split
    · rename_i he; simp [he]
    · rename_i hne
      have : p ∈ ys := by
        rcases List.mem_cons.mp h with h | h
        · exact absurd h.symm hne
        · exact h
      exact List.mem_cons_of_mem _ (ih this)

theorem upto_sublist (p : Node) (L : List Node) : (upto p L).Sublist L := by
  induction L with
  | nil => simp [upto]
  | cons y ys ih =>
    simp only [upto]
    split
    · simp
    · exact ih.cons_cons _

theorem not_mem_aft_self (hn : L.Nodup) : p ∉ aft p L := by
  induction L with
  | nil => simp [aft]
  | cons y ys ih =>
    have hn' := List.nodup_cons.mp hn
    simp only [aft]
    split
    · rename_i he; subst he; exact hn'.1
    · exact ih hn'.2

theorem nodup_aft (hn : L.Nodup) : (aft p L).Nodup := (aft_sublist p L).nodup hn

/-- two different members of a list: one of them is after the other -/
theorem aft_total (ha : a ∈ L) (hb : b ∈ L) (hne : a ≠ b) : b ∈ aft a L ∨ a ∈ aft b L := by
  induction L with
  | nil => simp at ha
  | cons y ys ih =>
    simp only [aft]
    by_cases hya : y = a
    · left
      simp only [hya, ite_true]
      rcases List.mem_cons.mp hb with h | h
      · exact absurd (h.trans hya) (Ne.symm hne)
      · exact h
    · by_cases hyb : y = b
      · right
        simp only [hyb, ite_true]
        rcases List.mem_cons.mp ha with h | h
        · exact absurd (h.trans hyb) hne
        · exact h
      · simp only [hya, hyb, ite_false]
        rcases List.mem_cons.mp ha with h | h
        · exact absurd h.symm hya
        · rcases List.mem_cons.mp hb with h' | h'
          · exact absurd h'.symm hyb
          · exact ih h h'

theorem aft_antisymm (hn : L.Nodup) (h1 : b ∈ aft a L) (h2 : a ∈ aft b L) : False := by
  induction L with
  | nil => simp [aft] at h1
  | cons y ys ih =>
    have hn' := List.nodup_cons.mp hn
    simp only [aft] at h1 h2
    by_cases hya : y = a
    · subst hya
      simp only [ite_true] at h1
      by_cases hyb : y = b
      · subst hyb; exact hn'.1 h1
      · simp only [hyb, ite_false] at h2
        exact hn'.1 (mem_of_mem_aft h2)
    · simp only [hya, ite_false] at h1
      by_cases hyb : y = b
      · subst hyb
        exact hn'.1 (mem_of_mem_aft h1)
      · simp only [hyb, ite_false] at h2
        exact ih hn'.2 h1 h2

/-- what follows `b` also follows `a` when `b` follows `a` -/
theorem aft_trans (hn : L.Nodup) (h1 : b ∈ aft a L) (h2 : c ∈ aft b L) : c ∈ aft a L := by
  induction L with
  | nil => simp [aft] at h1
  | cons y ys ih =>
    have hn' := List.nodup_cons.mp hn
    simp only [aft] at h1 h2 ⊢
    by_cases hya : y = a
    · simp only [hya, ite_true] at h1 ⊢
      by_cases hyb : y = b
      · subst hyb; subst hya; exact absurd h1 hn'.1
      · simp only [hyb, ite_false] at h2
        exact mem_of_mem_aft h2
    · simp only [hya, ite_false] at h1 ⊢
      by_cases hyb : y = b
      · subst hyb; exact absurd (mem_of_mem_aft h1) hn'.1
      · simp only [hyb, ite_false] at h2
        exact ih hn'.2 h1 h2

theorem aft_step (hn : L.Nodup) (h : aft p L = c :: r) : aft c L = r := by
  induction L with
  | nil => simp [aft] at h
  | cons y ys ih =>
    have hn' := List.nodup_cons.mp hn
    simp only [aft] at h
    split at h
    · subst h
      have hyc : y ≠ c := by
        intro he; subst he; exact hn'.1 (by simp)
      simp [aft, hyc]
    · have hc : c ∈ ys := mem_of_mem_aft (p := p) (by rw [h]; simp)
      have hyc : y ≠ c := by
        intro he; subst he; exact hn'.1 hc
      simp only [aft, hyc, ite_false]
      exact ih hn'.2 h

theorem upto_step (hn : L.Nodup) (h : aft p L = c :: r) : upto c L = upto p L ++ [c] := by
  induction L with
  | nil => simp [aft] at h
  | cons y ys ih =>
    have hn' := List.nodup_cons.mp hn
    simp only [aft] at h
    split at h
    · rename_i hyp
      subst h
      have hyc : y ≠ c := by
        intro he; subst he; exact hn'.1 (by simp)
      subst hyp
      simp [upto, hyc]
    · rename_i hyp
      have hc : c ∈ ys := mem_of_mem_aft (p := p) (by rw [h]; simp)
      have hyc : y ≠ c := by
        intro he; subst he; exact hn'.1 hc
      simp only [upto, hyc, hyp, ite_false, List.cons_append]
      rw [ih hn'.2 h]

theorem upto_eq_self_of_aft_nil (hp : p ∈ L) (h : aft p L = []) : upto p L = L := by
  have := upto_append_aft hp
  rw [h] at this
  simpa using this

/-- the node right behind `p`: everything that has it behind itself is `p` or has `p` behind itself -/
theorem adjacent (hn : L.Nodup) (h : aft p L = c :: r) (hq : q ∈ L) (hc : c ∈ aft q L) : q = p ∨ p ∈ aft q L := by
  have hp : p ∈ L := mem_of_aft_ne_nil (by rw [h]; simp)
  by_cases hqp : q = p
  · exact Or.inl hqp
  · rcases aft_total hq hp hqp with h1 | h1
    · exact Or.inr h1
    · exfalso
      rw [h] at h1
      rcases List.mem_cons.mp h1 with h2 | h2
      · subst h2; exact not_mem_aft_self hn hc
      · have : q ∈ aft c L := by rw [aft_step hn h]; exact h2
        exact aft_antisymm hn this hc

/-! ### insertion -/

theorem mem_insAfter : x ∈ insAfter p n L ↔ x ∈ L ∨ (x = n ∧ p ∈ L) := by
  induction L with
  | nil => simp [insAfter]
  | cons y ys ih =>
    simp only [insAfter]
    split
    · rename_i he; subst he
      simp only [List.mem_cons, true_or, and_true]
      constructor
      · rintro (h | h | h)
        · exact Or.inl (Or.inl h)
        · exact Or.inr h
        · exact Or.inl (Or.inr h)
      · rintro ((h | h) | h)
        · exact Or.inl h
        · exact Or.inr (Or.inr h)
        · exact Or.inr (Or.inl h)
    · rename_i hne
      simp only [List.mem_cons, ih]
      constructor
      · rintro (h | h | h)
        · exact Or.inl (Or.inl h)
        · exact Or.inl (Or.inr h)
        · exact Or.inr ⟨h.1, Or.inr h.2⟩
      · rintro ((h | h) | ⟨h1, h2⟩)
        · exact Or.inl h
        · exact Or.inr (Or.inl h)
        · rcases h2 with h2 | h2
          · exact absurd h2.symm hne
          · exact Or.inr (Or.inr ⟨h1, h2⟩)

theorem insAfter_of_not_mem (h : p ∉ L) : insAfter p n L = L := by
  induction L with
  | nil => rfl
  | cons y ys ih =>
    simp only [List.mem_cons, not_or] at h
    simp [insAfter, Ne.symm h.1, ih h.2]

theorem sublist_insAfter (p n : Node) (L : List Node) : L.Sublist (insAfter p n L) := by
  induction L with
  | nil => simp [insAfter]
  | cons y ys ih =>
    simp only [insAfter]
    split
    · exact ((List.sublist_cons_self n ys)).cons_cons y
    · exact ih.cons_cons y

theorem mem_insAfter_of_mem (h : x ∈ L) : x ∈ insAfter p n L := (sublist_insAfter p n L).subset h

theorem nodup_insAfter (hn : L.Nodup) (hnew : n ∉ L) : (insAfter p n L).Nodup := by
  induction L with
  | nil => simp [insAfter]
  | cons y ys ih =>
    have hn' := List.nodup_cons.mp hn
    simp only [List.mem_cons, not_or] at hnew
    simp only [insAfter]
    split
    · refine List.nodup_cons.mpr ⟨?_, List.nodup_cons.mpr ⟨hnew.2, hn'.2⟩⟩
      simp only [List.mem_cons, not_or]
      exact ⟨Ne.symm hnew.1, hn'.1⟩
    · refine List.nodup_cons.mpr ⟨?_, ih hn'.2 hnew.2⟩
      rw [mem_insAfter]
      rintro (h | ⟨h, _⟩)
      · exact hn'.1 h
      · exact hnew.1 h.symm

theorem length_insAfter (hp : p ∈ L) : (insAfter p n L).length = L.length + 1 := by
  induction L with
  | nil => simp at hp
  | cons y ys ih =>
    simp only [insAfter]
    split
    · simp
    · rename_i hne
      have : p ∈ ys := by
        rcases List.mem_cons.mp hp with h | h
        · exact absurd h.symm hne
        · exact h
      simp [ih this]

theorem head?_insAfter (L : List Node) : (insAfter p n L).head? = L.head? := by
  cases L with
  | nil => rfl
  | cons y ys => simp only [insAfter]; split <;> rfl

theorem aft_insAfter_self (hp : p ∈ L) : aft p (insAfter p n L) = n :: aft p L := by
  induction L with
  | nil => simp at hp
  | cons y ys ih =>
    simp only [insAfter]
    split
    · rename_i he; simp [aft, he]
    · rename_i hne
      have : p ∈ ys := by
        rcases List.mem_cons.mp hp with h | h
        · exact absurd h.symm hne
        · exact h
      simp [aft, hne, ih this]

theorem aft_insAfter_new (hnew : n ∉ L) (hp : p ∈ L) : aft n (insAfter p n L) = aft p L := by
  induction L with
  | nil => simp at hp
  | cons y ys ih =>
    simp only [List.mem_cons, not_or] at hnew
    simp only [insAfter]
    split
    · rename_i he
      simp [aft, he, Ne.symm hnew.1]
      intro h; exact absurd (he ▸ h).symm hnew.1
    · rename_i hne
      have : p ∈ ys := by
        rcases List.mem_cons.mp hp with h | h
        · exact absurd h.symm hne
        · exact h
      simp [aft, hne, Ne.symm hnew.1, ih hnew.2 this]

theorem aft_insAfter_mem (hn : L.Nodup) (hqp : q ≠ p) (hqn : q ≠ n) (h : p ∈ aft q L) :
    aft q (insAfter p n L) = insAfter p n (aft q L) := by
  induction L with
  | nil => simp [aft] at h
  | cons y ys ih =>
    have hn' := List.nodup_cons.mp hn
    simp only [insAfter]
    split
    · rename_i he; subst he
      have hyq : y ≠ q := Ne.symm hqp
      simp only [aft, hyq, ite_false] at h
      exact absurd (mem_of_mem_aft h) hn'.1
    · rename_i hne
      by_cases hyq : y = q
      · simp [aft, hyq]
      · simp only [aft, hyq, ite_false] at h ⊢
        exact ih hn'.2 h

theorem aft_insAfter_not (hqp : q ≠ p) (hqn : q ≠ n) (h : p ∉ aft q L) :
    aft q (insAfter p n L) = aft q L := by
  induction L with
  | nil => rfl
  | cons y ys ih =>
    simp only [insAfter]
    split
    · rename_i he; subst he
      simp [aft, Ne.symm hqp, Ne.symm hqn]
    · rename_i hne
      by_cases hyq : y = q
      · simp only [aft, hyq, ite_true] at h ⊢
        exact insAfter_of_not_mem h
      · simp only [aft, hyq, ite_false] at h ⊢
        exact ih h

/-- insertion never removes anything from behind a node -/
theorem mem_aft_insAfter (h : x ∈ aft q L) : x ∈ aft q (insAfter p n L) := by
  induction L with
  | nil => simp [aft] at h
  | cons y ys ih =>
    simp only [insAfter]
    split
    · rename_i he
      simp only [aft] at h ⊢
      by_cases hyq : y = q
      · simp only [hyq, ite_true] at h ⊢
        exact List.mem_cons_of_mem _ h
      · simp only [hyq, ite_false] at h ⊢
        split
        · exact mem_of_mem_aft h
        · exact h
    · simp only [aft] at h ⊢
      by_cases hyq : y = q
      · simp only [hyq, ite_true] at h ⊢
        exact mem_insAfter_of_mem h
      · simp only [hyq, ite_false] at h ⊢
        exact ih h

/-- … and an old node gets nothing old new behind itself other than `n` -/
theorem mem_aft_insAfter_old (hn : L.Nodup) (hnew : n ∉ L) (hq : q ∈ L) (h : x ∈ aft q (insAfter p n L)) :
    x ∈ aft q L ∨ (x = n ∧ (q = p ∨ p ∈ aft q L)) := by
  have hqn : q ≠ n := fun he => hnew (he ▸ hq)
  by_cases hp : p ∈ L
  · by_cases hqp : q = p
    · subst hqp
      rw [aft_insAfter_self hp] at h
      rcases List.mem_cons.mp h with h | h
      · exact Or.inr ⟨h, Or.inl rfl⟩
      · exact Or.inl h
    · by_cases hpa : p ∈ aft q L
      · rw [aft_insAfter_mem hn hqp hqn hpa, mem_insAfter] at h
        rcases h with h | h
        · exact Or.inl h
        · exact Or.inr ⟨h.1, Or.inr hpa⟩
      · rw [aft_insAfter_not hqp hqn hpa] at h
        exact Or.inl h
  · rw [insAfter_of_not_mem hp] at h
    exact Or.inl h

theorem upto_sublist_insAfter (hqn : q ≠ n) : (upto q L).Sublist (upto q (insAfter p n L)) := by
  induction L with
  | nil => simp [upto, insAfter]
  | cons y ys ih =>
    simp only [insAfter]
    split
    · simp only [upto]
      by_cases hyq : y = q
      · simp [hyq]
      · simp only [hyq, ite_false, Ne.symm hqn]
        exact ((List.sublist_cons_self n _)).cons_cons y
    · simp only [upto]
      by_cases hyq : y = q
      · simp [hyq]
      · simp only [hyq, ite_false]
        exact ih.cons_cons y

/-! ### sortedness -/

theorem pairwise_aft {R : Node → Node → Prop} (hs : L.Pairwise R) (hp : p ∈ L) (hx : x ∈ aft p L) : R p x := by
  have h := upto_append_aft hp
  rw [← h] at hs
  exact (List.pairwise_append.mp hs).2.2 p (mem_upto_self hp) x hx

theorem pairwise_insAfter {R : Node → Node → Prop} (hs : L.Pairwise R) (hpn : R p n)
    (haft : ∀ x ∈ aft p L, R n x) (htr : ∀ x, R x p → R x n) : (insAfter p n L).Pairwise R := by
  induction L with
  | nil => simp [insAfter]
  | cons y ys ih =>
    have hs' := List.pairwise_cons.mp hs
    simp only [insAfter]
    split
    · rename_i he; subst he
      simp only [aft, ite_true] at haft
      refine List.pairwise_cons.mpr ⟨?_, List.pairwise_cons.mpr ⟨haft, hs'.2⟩⟩
      intro z hz
      rcases List.mem_cons.mp hz with h | h
      · exact h ▸ hpn
      · exact hs'.1 z h
    · rename_i hne
      simp only [aft, hne, ite_false] at haft
      refine List.pairwise_cons.mpr ⟨?_, ih hs'.2 haft⟩
      intro z hz
      rcases mem_insAfter.mp hz with h | ⟨h1, h2⟩
      · exact hs'.1 z h
      · exact h1 ▸ htr y (hs'.1 p h2)

/-- in a list sorted by a key, a member with a strictly larger key comes later -/
theorem mem_aft_of_lt {f : Node → Nat} (hs : L.Pairwise (fun a b => f a ≤ f b)) (ha : a ∈ L) (hb : b ∈ L)
    (hlt : f a < f b) : b ∈ aft a L := by
  have hne : a ≠ b := fun he => by subst he; omega
  rcases aft_total ha hb hne with h | h
  · exact h
  · have := pairwise_aft hs hb h
    omega

end TbbVerif.C12
