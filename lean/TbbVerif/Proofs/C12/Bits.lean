/-
C12 — split-order arithmetic: bit reversal, regular / dummy order keys, parent buckets.
-/
import TbbVerif.Model.C12

namespace TbbVerif.C12

theorem rev_lt (w x : Nat) : rev w x < 2 ^ w := by
  induction w generalizing x with
  | zero => simp [rev]
  | succ w ih =>
    simp only [rev]
    have h1 := ih (x / 2)
    have h2 : x % 2 < 2 := Nat.mod_lt _ (by omega)
    have h3 : (x % 2) * 2 ^ w ≤ 1 * 2 ^ w := Nat.mul_le_mul_right _ (by omega)
    rw [Nat.pow_succ]
    omega

theorem rev_zero (w : Nat) : rev w 0 = 0 := by
  induction w with
  | zero => rfl
  | succ w ih => simp [rev, ih]

/-- `rev (w+1)` splits off the LOW bit of the result as well: the reversal of `x` restricted to its low `w` bits,
doubled, plus bit `w` of `x`. -/
theorem rev_succ_low (w x : Nat) : rev (w + 1) x = 2 * rev w (x % 2 ^ w) + (x / 2 ^ w) % 2 := by
  induction w generalizing x with
  | zero => simp [rev, Nat.mod_one]
  | succ w ih =>
    rw [rev, ih (x / 2)]
    have e1 : rev (w + 1) (x % 2 ^ (w + 1)) = (x % 2) * 2 ^ w + rev w ((x / 2) % 2 ^ w) := by
      rw [rev]
      have a : x % 2 ^ (w + 1) % 2 = x % 2 := by
        rw [Nat.pow_succ, Nat.mul_comm]
        exact Nat.mod_mul_right_mod x 2 (2 ^ w)
      have b : x % 2 ^ (w + 1) / 2 = (x / 2) % 2 ^ w := by
        rw [Nat.pow_succ, Nat.mul_comm]
        exact Nat.mod_mul_right_div_self x 2 (2 ^ w)
      rw [a, b]
    have e2 : x / 2 / 2 ^ w = x / 2 ^ (w + 1) := by
      rw [Nat.div_div_eq_div_mul, Nat.pow_succ, Nat.mul_comm]
    rw [e1, e2, Nat.pow_succ]
    generalize rev w (x / 2 % 2 ^ w) = r
    generalize x / (2 ^ w * 2) % 2 = q
    generalize x % 2 = lo
    generalize 2 ^ w = pw
    rw [Nat.mul_add, Nat.mul_comm pw 2, Nat.mul_left_comm]
    omega

/-- bit reversal is an involution on `w`-bit words -/
theorem rev_rev (w x : Nat) : rev w (rev w x) = x % 2 ^ w := by
  induction w generalizing x with
  | zero => simp [rev, Nat.mod_one]
  | succ w ih =>
    rw [rev_succ_low w (rev (w + 1) x)]
    have hlt := rev_lt w (x / 2)
    have hb : x % 2 < 2 := Nat.mod_lt _ (by omega)
    have e1 : rev (w + 1) x % 2 ^ w = rev w (x / 2) := by
      rw [rev, Nat.mul_comm, Nat.mul_add_mod_self_left]  -- (2^w * b + r) % 2^w
      exact Nat.mod_eq_of_lt hlt
    have e2 : rev (w + 1) x / 2 ^ w = x % 2 := by
      rw [rev, Nat.mul_comm, Nat.mul_add_div (Nat.two_pow_pos w) ]
      rw [Nat.div_eq_of_lt hlt]; simp
    rw [e1, e2, ih (x / 2), Nat.mod_mod]
    -- x % 2^(w+1) = 2 * ((x/2) % 2^w) + x % 2
    have : x % 2 ^ (w + 1) = 2 * (x / 2 % 2 ^ w) + x % 2 := by
      rw [Nat.pow_succ, Nat.mul_comm (2 ^ w) 2, Nat.mod_mul]
      omega
    omega

theorem rev_inj {w a b : Nat} (ha : a < 2 ^ w) (hb : b < 2 ^ w) (h : rev w a = rev w b) : a = b := by
  have h1 := rev_rev w a
  have h2 := rev_rev w b
  rw [h, h2, Nat.mod_eq_of_lt hb, Nat.mod_eq_of_lt ha] at h1
  exact h1.symm

/-- the top `k` bits of the reversal of `h` are the reversal of the low `k` bits of `h`: the elements of bucket
`h % 2^k` form one contiguous segment of the split order, which starts at the bucket's dummy key -/
theorem rev_split (k m h : Nat) : rev (k + m) h = rev k (h % 2 ^ k) * 2 ^ m + rev m (h / 2 ^ k) := by
  induction k generalizing h with
  | zero => simp [rev, Nat.mod_one]
  | succ k ih =>
    have e0 : k + 1 + m = (k + m) + 1 := by omega
    rw [e0, rev, ih (h / 2)]
    have a : h % 2 ^ (k + 1) % 2 = h % 2 := by
      rw [Nat.pow_succ, Nat.mul_comm]
      exact Nat.mod_mul_right_mod h 2 (2 ^ k)
    have b : h % 2 ^ (k + 1) / 2 = (h / 2) % 2 ^ k := by
      rw [Nat.pow_succ, Nat.mul_comm]
      exact Nat.mod_mul_right_div_self h 2 (2 ^ k)
    have c : h / 2 / 2 ^ k = h / 2 ^ (k + 1) := by
      rw [Nat.div_div_eq_div_mul, Nat.pow_succ, Nat.mul_comm]
    rw [rev, a, b, c, Nat.pow_add, Nat.add_mul, Nat.mul_assoc, Nat.add_assoc]

theorem rev_mod_le (w k h : Nat) (hk : k ≤ w) : rev w (h % 2 ^ k) ≤ rev w h := by
  obtain ⟨m, rfl⟩ : ∃ m, w = k + m := ⟨w - k, by omega⟩
  rw [rev_split k m h, rev_split k m (h % 2 ^ k), Nat.mod_mod, Nat.mod_div_self, rev_zero]
  omega

theorem rev_segment (w k h : Nat) (hk : k ≤ w) :
    rev w (h % 2 ^ k) ≤ rev w h ∧ rev w h < rev w (h % 2 ^ k) + 2 ^ (w - k) := by
  obtain ⟨m, rfl⟩ : ∃ m, w = k + m := ⟨w - k, by omega⟩
  have hm : k + m - k = m := by omega
  rw [hm, rev_split k m h, rev_split k m (h % 2 ^ k), Nat.mod_mod, Nat.mod_div_self, rev_zero]
  have := rev_lt m (h / 2 ^ k)
  omega

/-- reversal of a value below `2^(w-1)` is even (its top bit, which becomes bit 0, is clear) -/
theorem rev_even_of_lt (w x : Nat) (hx : x < 2 ^ w) : rev (w + 1) x % 2 = 0 := by
  rw [rev_succ_low, Nat.div_eq_of_lt hx]
  omega

/-! ### order keys -/

theorem regularKey_odd (h : Nat) : regularKey h % 2 = 1 := by unfold regularKey; omega
theorem dummyKey_even (b : Nat) : dummyKey b % 2 = 0 := by unfold dummyKey; omega

theorem dummyKey_eq_rev {b : Nat} (hb : b < 2 ^ 63) : dummyKey b = rev 64 b := by
  have : rev 64 b % 2 = 0 := rev_even_of_lt 63 b hb
  unfold dummyKey wordBits
  omega

/-- the entry point of an element's bucket is strictly in front of the element, whatever the table size `2^k` -/
theorem dummy_lt_regular (h k : Nat) (hk : k ≤ 63) : dummyKey (h % 2 ^ k) < regularKey h := by
  have h1 := rev_mod_le 64 k h (by omega)
  unfold dummyKey regularKey wordBits
  omega

/-- … and the element lies inside the bucket's segment of the split order -/
theorem regular_in_segment (h k : Nat) (hk : k ≤ 63) :
    dummyKey (h % 2 ^ k) < regularKey h ∧ regularKey h < dummyKey (h % 2 ^ k) + 2 ^ (64 - k) := by
  refine ⟨dummy_lt_regular h k hk, ?_⟩
  have hb : h % 2 ^ k < 2 ^ 63 :=
    Nat.lt_of_lt_of_le (Nat.mod_lt _ (Nat.two_pow_pos k)) (Nat.pow_le_pow_right (by omega) hk)
  have h1 := (rev_segment 64 k h (by omega)).2
  rw [dummyKey_eq_rev hb]
  have hev : rev 64 (h % 2 ^ k) % 2 = 0 := rev_even_of_lt 63 (h % 2 ^ k) hb
  -- the segment length 2^(64-k) is even, so `| 1` stays inside
  have hpow : 2 ^ (64 - k) % 2 = 0 := by
    obtain ⟨j, hj⟩ : ∃ j, 64 - k = j + 1 := ⟨63 - k, by omega⟩
    rw [hj, Nat.pow_succ]; omega
  unfold regularKey wordBits
  omega

theorem dummyKey_inj {b b' : Nat} (hb : b < 2 ^ 63) (hb' : b' < 2 ^ 63) (h : dummyKey b = dummyKey b') : b = b' := by
  rw [dummyKey_eq_rev hb, dummyKey_eq_rev hb'] at h
  exact rev_inj (Nat.lt_trans hb (by decide)) (Nat.lt_trans hb' (by decide)) h

theorem dummy_ne_regular (b h : Nat) : dummyKey b ≠ regularKey h := by
  have := regularKey_odd h; have := dummyKey_even b; omega

/-! ### parent buckets -/

theorem log2_spec {b : Nat} (hb : b ≠ 0) : 2 ^ Nat.log2 b ≤ b ∧ b < 2 ^ (Nat.log2 b + 1) :=
  ⟨Nat.log2_self_le hb, Nat.lt_log2_self⟩

/-- `get_parent` clears the most significant set bit, i.e. keeps the low `log2 b` bits -/
theorem parentOf_eq_mod {b : Nat} (hb : b ≠ 0) : parentOf b = b % 2 ^ Nat.log2 b := by
  obtain ⟨h1, h2⟩ := log2_spec hb
  unfold parentOf
  rw [Nat.pow_succ] at h2
  have : b = 2 ^ Nat.log2 b * 1 + (b - 2 ^ Nat.log2 b) := by omega
  rw [Nat.mod_eq_sub_mod h1]
  exact (Nat.mod_eq_of_lt (by omega)).symm

theorem parentOf_lt {b : Nat} (hb : b ≠ 0) : parentOf b < b := by
  obtain ⟨h1, _⟩ := log2_spec hb
  have : 0 < 2 ^ Nat.log2 b := Nat.two_pow_pos _
  unfold parentOf; omega

/-- the parent's dummy node is strictly in front of the child's (so `insert_dummy_node` may start there) -/
theorem dummy_parent_lt {b : Nat} (hb : b ≠ 0) (hlt : b < 2 ^ 63) : dummyKey (parentOf b) < dummyKey b := by
  have hp := parentOf_lt hb
  have hle : dummyKey (parentOf b) ≤ dummyKey b := by
    rw [parentOf_eq_mod hb, dummyKey_eq_rev hlt,
      dummyKey_eq_rev (Nat.lt_of_le_of_lt (Nat.mod_le _ _) hlt)]
    have hk : Nat.log2 b ≤ 64 := by
      have := (log2_spec hb).1
      by_cases h : Nat.log2 b ≤ 64
      · exact h
      · exfalso
        have : 2 ^ 64 ≤ 2 ^ Nat.log2 b := Nat.pow_le_pow_right (by omega) (by omega)
        have : (2:Nat) ^ 63 < 2 ^ 64 := by decide
        omega
    exact rev_mod_le 64 _ b hk
  have hne : dummyKey (parentOf b) ≠ dummyKey b := by
    intro he
    have := dummyKey_inj (Nat.lt_trans hp hlt) hlt he
    omega
  omega

/-- when the table doubles from `2^k` to `2^(k+1)` buckets, the elements of a new bucket `b ≥ 2^k` are exactly
elements that were in its parent bucket -/
theorem parent_bucket {b k h : Nat} (hlo : 2 ^ k ≤ b) (hhi : b < 2 ^ (k + 1)) (hb : h % 2 ^ (k + 1) = b) :
    h % 2 ^ k = parentOf b := by
  have hb0 : b ≠ 0 := by
    have : 0 < 2 ^ k := Nat.two_pow_pos _
    omega
  have hlog : Nat.log2 b = k := by
    have := (Nat.log2_eq_iff hb0).mpr ⟨hlo, hhi⟩
    exact this
  rw [parentOf_eq_mod hb0, hlog, ← hb, Nat.pow_succ, Nat.mod_mul_right_mod]

end TbbVerif.C12
