/-
C12 — skip list: steps in which a user functor throws, the `freed` ledger, and the system invariants.

`thStep` = `thStepCore` (exception-free step, `SkipListSteps.lean`) wrapped with the fault annotations: a throwing step
performs the access of the core step and leaves the operation; nodes are handed back to the allocator where the code has
a `delete_value_node`.  `KInv` (the list / level structure) survives every such step; `FreeInv` says that the allocator
ledger and the pointer structure never meet: no freed node is on any level, nothing is freed twice, and no thread that
is still working on an insertion has had its node freed.
-/
import TbbVerif.Proofs.C12.SkipListSteps

namespace TbbVerif.C12
namespace SkipList

variable {cfg : Cfg} {s : St} {t : Tid} {th : Th}

/-- the fault bookkeeping fields are invisible to the per-thread invariant -/
theorem tinvk_fields {c : Core} {hd : Bool} {mh : Nat} (th : Th) (a b d : Nat) :
    TInvK cfg c hd mh t { th with fk := a, fn := b, calls := d } ↔ TInvK cfg c hd mh t th := Iff.rfl

theorem tinvk_disarm {c : Core} {hd : Bool} {mh : Nat} (th : Th) :
    TInvK cfg c hd mh t th.disarm ↔ TInvK cfg c hd mh t th := Iff.rfl

/-- an outcome that differs from a good one only in the allocator ledger and the stepping thread's fault fields -/
theorem stepokk_of {o o' : Out} (so : StepOkK cfg s t o) (hcore : o'.st.core = o.st.core) (hhd : o'.st.headSet = o.st.headSet)
    (hmh : o'.st.maxh = o.st.maxh) (hths : o'.st.ths = o.st.ths) (hlog : o'.st.log = o.st.log) (hres : o'.res = o.res)
    (ht : TInvK cfg o.st.core o.st.headSet o.st.maxh t o'.th) : StepOkK cfg s t o' := by
  refine ⟨by rw [hcore]; exact so.ext, by rw [hhd]; exact so.head, by rw [hmh]; exact so.mh, by rw [hcore, hhd]; exact so.kgood,
    by rw [hcore, hhd, hmh]; exact ht, by rw [hcore, hres]; exact so.res, by rw [hcore, hres]; exact so.wins,
    by rw [hths, hlog]; exact so.frame⟩

theorem new_ne_zero {c : Core} {hd : Bool} (g : KGood cfg c hd) {n : Node} {lo : Nat} (h : NotIn c n lo) : n ≠ 0 := by
  intro h0; subst h0; exact h lo (Nat.le_refl _) (g.head_mem lo)

theorem k_step_ok_throw (hI : KInv cfg s) (h : TInvK cfg s.core s.headSet s.maxh t th) :
    StepOkK cfg s t (thStep cfg s t th) := by
  have so := k_step_ok hI h
  unfold thStep
  split
  · -- the fault annotation
    exact stepk_local hI rfl (fun h => h) (Nat.le_refl _) ⟨rfl, rfl⟩ (by simp) (by simp [TInvK, Th.finish])
  · simp only
    split
    · rename_i hpc
      split
      · -- node creation throws
        refine stepk_local hI rfl (fun h => h) (Nat.le_refl _) ⟨rfl, rfl⟩ ?_ (by simp [TInvK, Th.finish, Th.disarm])
        intro r hr
        simp only [Option.some.injEq] at hr
        subst hr; exact ⟨trivial, rfl⟩
      · split
        · exact stepokk_of so rfl rfl rfl rfl rfl rfl ((tinvk_disarm _).mpr so.tinv)
        · exact so
    · rename_i hpc
      split
      · -- a comparator call (or the head allocation) throws: the operation ends here
        refine stepk_local hI rfl (fun h => h) (Nat.le_refl _) ⟨rfl, rfl⟩ ?_ (by simp [TInvK, Th.finish, Th.disarm])
        intro r hr
        simp only [Option.some.injEq] at hr
        subst hr
        refine ⟨?_, rfl⟩
        by_cases hrf : th.pc = .refind
        · simp only [hrf, decide_true, ite_true]
          unfold TInvK at h
          simp only [hrf] at h
          obtain ⟨_, h2, _, h4, h5, _⟩ := h
          exact ⟨h4 0 (by omega), new_ne_zero hI.g h5⟩
        · simp only [hrf, decide_false]
          trivial
      · -- exception-free step
        refine stepokk_of so rfl rfl rfl rfl rfl rfl ?_
        simp only
        split
        · exact (tinvk_disarm _).mpr ((tinvk_fields _ _ _ _).mpr so.tinv)
        · exact (tinvk_fields _ _ _ _).mpr so.tinv

/-! ### the list / level invariant -/

theorem kinv_step (cfg : Cfg) (s : St) (t : Tid) (h : KInv cfg s) : KInv cfg (step cfg s t) := by
  unfold step
  cases hth : s.ths[t]? with
  | none => simpa using h
  | some th => exact kinv_of_stepok h hth (k_step_ok_throw h (h.tinv t th hth))

theorem kinv_reachable (cfg : Cfg) (progs : List (List Op)) (sched : List Tid) : KInv cfg ((sys cfg progs).run sched) :=
  Sys.inv_run (sys cfg progs) (KInv cfg) (kinv_init cfg progs) (fun s t h => kinv_step cfg s t h) sched

end SkipList
end TbbVerif.C12
