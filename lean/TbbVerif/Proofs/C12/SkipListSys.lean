/-
C12 — the skip list as an interleaving system: every level is a well-formed CAS list (`Good` of its `view`), level
`l+1` only holds nodes of level `l` (nodes are linked bottom-up by their owner), and lookups / traversals report
truthfully.  Any number of threads, every schedule.
-/
import TbbVerif.Proofs.C12.Walk

namespace TbbVerif.C12
namespace SkipList

/-- the container's tie rule (the same for every key) -/
def rl (cfg : Cfg) : Key → Rule := fun _ => rule cfg.multi

/-- one level seen as a CAS list (`wins` = everything but the head) -/
def view (s : Core) (l : Nat) : LSt :=
  { next := s.next l, key := s.key, owner := s.owner, fresh := s.fresh, chain := s.chain l, wins := (s.chain l).tail }

theorem good_retail {rule} {L : LSt} (g : Good rule L) : Good rule { L with wins := L.chain.tail } := by
  have hc := g.chain_eq
  refine ⟨g.nodup, g.head, g.linked, g.sorted, g.uniq, g.alloc, ?_, ?_, ?_, g.key0⟩
  · intro x
    show x ∈ L.chain ↔ x = 0 ∨ x ∈ L.chain.tail
    rw [hc]; simp
  · show L.chain.tail.Nodup
    have := g.nodup; rw [hc] at this
    rw [hc]; simpa using (List.nodup_cons.mp this).2
  · show 0 ∉ L.chain.tail
    have := g.nodup; rw [hc] at this
    rw [hc]; simpa using (List.nodup_cons.mp this).1

/-! ### per-thread facts -/

structure Own (s : Core) (t : Tid) (new : Node) (k : Key) (hg : Nat) : Prop where
  own : s.owner new = t
  lt : new < s.fresh
  key : s.key new = k
  hgt : s.height new = hg
  pos : 0 < k.ok
  uk : k.uk = 0
  hpos : 0 < hg

def PrevOk (cfg : Cfg) (s : Core) (k : Key) (l : Nat) (p : Node) : Prop :=
  p ∈ s.chain l ∧ (s.key p).ok ≤ k.ok ∧ (cfg.multi = false → (s.key p).ok < k.ok)

def CurLe (s : Core) (k : Key) : Option Node → Prop
  | none => True
  | some c => k.ok ≤ (s.key c).ok ∧ c < s.fresh

def NotIn (s : Core) (n : Node) (from_ : Nat) : Prop := ∀ l, from_ ≤ l → n ∉ s.chain l
def InBelow (s : Core) (n : Node) (upto_ : Nat) : Prop := ∀ l, l < upto_ → n ∈ s.chain l

/-- recorded `prev_nodes[l]` / `curr_nodes[l]` for the levels `lo ≤ l < hgt` -/
def Rec (cfg : Cfg) (s : Core) (k : Key) (hgt : Nat) (prevs : Nat → Node) (currs : Nat → Option Node) (lo : Nat) : Prop :=
  ∀ l, lo ≤ l → l < hgt → PrevOk cfg s k l (prevs l) ∧ CurLe s k (currs l)

def MustOk (s : Core) (mh : Nat) (k : Key) (must : Bool) : Prop :=
  0 < k.ok ∧ k.uk = 0 ∧ (must = true → (∃ x ∈ s.chain 0, s.key x = k) ∧ 0 < mh)

def TInvK (cfg : Cfg) (s : Core) (hd : Bool) (mh : Nat) (t : Tid) (th : Th) : Prop :=
  match th.pc with
  | .idle => True
  | .ldHead => Own s t th.new th.k th.hgt ∧ NotIn s th.new 0
  | .casHead => Own s t th.new th.k th.hgt ∧ NotIn s th.new 0
  | .ldMaxh => Own s t th.new th.k th.hgt ∧ NotIn s th.new 0 ∧ hd = true
  | .desc => Own s t th.new th.k th.hgt ∧ NotIn s th.new 0 ∧ PrevOk cfg s th.k th.lvl th.prev ∧ Rec cfg s th.k th.hgt th.prevs th.currs (th.lvl + 1) ∧ hd = true
  | .setNext0 => Own s t th.new th.k th.hgt ∧ NotIn s th.new 0 ∧ Rec cfg s th.k th.hgt th.prevs th.currs 0 ∧ 0 < th.hgt ∧
      (cfg.multi = false → ∀ c, th.currs 0 = some c → th.k.ok < (s.key c).ok) ∧ hd = true
  | .cas0 => Own s t th.new th.k th.hgt ∧ NotIn s th.new 0 ∧ Rec cfg s th.k th.hgt th.prevs th.currs 0 ∧ 0 < th.hgt ∧
      (cfg.multi = false → ∀ c, th.currs 0 = some c → th.k.ok < (s.key c).ok) ∧ s.next 0 th.new = th.currs 0 ∧ hd = true
  | .ldMaxh2 => Own s t th.new th.k th.hgt ∧ InBelow s th.new 1 ∧ NotIn s th.new 1 ∧ Rec cfg s th.k th.hgt th.prevs th.currs 1
  | .casMaxh => Own s t th.new th.k th.hgt ∧ InBelow s th.new 1 ∧ NotIn s th.new 1 ∧ Rec cfg s th.k th.hgt th.prevs th.currs 1 ∧ th.mh < th.hgt
  | .setNextU => Own s t th.new th.k th.hgt ∧ 1 ≤ th.level ∧ th.level < th.hgt ∧ InBelow s th.new th.level ∧ NotIn s th.new th.level ∧
      Rec cfg s th.k th.hgt th.prevs th.currs th.level
  | .casU => Own s t th.new th.k th.hgt ∧ 1 ≤ th.level ∧ th.level < th.hgt ∧ InBelow s th.new th.level ∧ NotIn s th.new th.level ∧
      Rec cfg s th.k th.hgt th.prevs th.currs th.level ∧ s.next th.level th.new = th.currs th.level
  | .refind => Own s t th.new th.k th.hgt ∧ 1 ≤ th.level ∧ th.level < th.hgt ∧ InBelow s th.new th.level ∧ NotIn s th.new th.level ∧
      Rec cfg s th.k th.hgt th.prevs th.currs th.level ∧ th.level ≤ th.lvl ∧ th.lvl < th.hgt ∧ PrevOk cfg s th.k th.lvl th.prev
  | .szInc => True
  | .fLdHead => MustOk s mh th.k th.must ∧ th.oldc = none
  | .fLdMaxh => MustOk s mh th.k th.must ∧ th.oldc = none ∧ th.prev = 0
  | .fdesc => MustOk s mh th.k th.must ∧ th.prev ∈ s.chain th.lvl ∧ (s.key th.prev).ok < th.k.ok ∧
      (∀ c, th.oldc = some c → th.k.ok < (s.key c).ok ∧ c < s.fresh)
  | .tLdHead => TrInv (view s 0) th.prev th.seen th.snap ∧ th.prev = 0 ∧ th.seen = [0]
  | .twalk => TrInv (view s 0) th.prev th.seen th.snap

def ResOkK (s : Core) : Res → Prop
  | .ins k true n => n ∈ s.wins ∧ s.key n = ⟨k + 1, 0⟩ ∧ n < s.fresh
  | .ins k false n => n ∈ s.chain 0 ∧ s.key n = ⟨k + 1, 0⟩ ∧ n ≠ 0
  | .find k must r => (must = true → r ≠ none) ∧ ∀ n, r = some n → n ∈ s.chain 0 ∧ s.key n = ⟨k + 1, 0⟩
  | .trav seen snap => seen.Sublist (s.chain 0) ∧ ∀ x ∈ snap, x ∈ seen
  | .misuse => True
  | .threw none => True
  | .threw (some n) => n ∈ s.chain 0 ∧ n ≠ 0

def succNodeK : Tid × Res → Option Node
  | (_, .ins _ true n) => some n
  | _ => none

/-- the global part of the invariant -/
structure KGood (cfg : Cfg) (s : Core) (hd : Bool) : Prop where
  nohead : hd = false → s.chain 0 = [0]
  lv : ∀ l, Good (rl cfg) (view s l)
  sub : ∀ l, ∀ x ∈ s.chain (l + 1), x ∈ s.chain l
  hgt : ∀ l x, x ∈ s.chain l → x ≠ 0 → l < s.height x
  uk0 : ∀ x, (s.key x).uk = 0
  wins_mem : ∀ x, x ∈ s.chain 0 ↔ x = 0 ∨ x ∈ s.wins
  wins_nodup : s.wins.Nodup

structure KInv (cfg : Cfg) (s : St) : Prop where
  g : KGood cfg s.core s.headSet
  tinv : ∀ t th, s.ths[t]? = some th → TInvK cfg s.core s.headSet s.maxh t th
  logok : ∀ e ∈ s.log, ResOkK s.core e.2
  wins : s.core.wins = s.log.filterMap succNodeK

theorem KGood.sub0 {cfg : Cfg} {s : Core} {hd : Bool} (g : KGood cfg s hd) : ∀ l, ∀ x ∈ s.chain l, x ∈ s.chain 0 := by
  intro l
  induction l with
  | zero => intro x hx; exact hx
  | succ l ih => intro x hx; exact ih x (g.sub l x hx)

theorem KGood.mem_lt {cfg : Cfg} {s : Core} {hd : Bool} (g : KGood cfg s hd) {l : Nat} {x : Node} (hx : x ∈ s.chain l) : x < s.fresh :=
  (g.lv l).alloc x hx

theorem KGood.head_mem {cfg : Cfg} {s : Core} {hd : Bool} (g : KGood cfg s hd) (l : Nat) : 0 ∈ s.chain l := (g.lv l).head_mem

/-! ### what one step of thread `t` may do to the shared state, as seen by the other threads -/

structure Ext (t : Tid) (s s' : Core) : Prop where
  fresh : s.fresh ≤ s'.fresh
  key : ∀ x, x < s.fresh → s'.key x = s.key x
  owner : ∀ x, x < s.fresh → s'.owner x = s.owner x
  height : ∀ x, x < s.fresh → s'.height x = s.height x
  chain : ∀ l, s'.chain l = s.chain l ∨
    ∃ p n, n ∉ s.chain l ∧ s.owner n = t ∧ n < s.fresh ∧ s'.chain l = insAfter p n (s.chain l)
  next : ∀ l x, x < s.fresh → s'.next l x = s.next l x ∨ x ∈ s.chain l ∨ s.owner x = t

theorem Ext.refl (t : Tid) (s : Core) : Ext t s s :=
  ⟨Nat.le_refl _, fun _ _ => rfl, fun _ _ => rfl, fun _ _ => rfl, fun _ => Or.inl rfl, fun _ _ _ => Or.inl rfl⟩

theorem Ext.mem {t : Tid} {s s' : Core} (e : Ext t s s') {l : Nat} {x : Node} (hx : x ∈ s.chain l) : x ∈ s'.chain l := by
  rcases e.chain l with h | ⟨p, n, _, _, _, h⟩
  · rw [h]; exact hx
  · rw [h]; exact mem_insAfter_of_mem hx

theorem Ext.not_mem {t u : Tid} {s s' : Core} (e : Ext t s s') (hut : u ≠ t) {l : Nat} {x : Node}
    (ho : s.owner x = u) (hx : x ∉ s.chain l) : x ∉ s'.chain l := by
  rcases e.chain l with h | ⟨p, n, _, hn, _, h⟩
  · rw [h]; exact hx
  · rw [h, mem_insAfter]
    rintro (h1 | ⟨h1, _⟩)
    · exact hx h1
    · rw [h1, hn] at ho; exact hut ho.symm

theorem prevok_ext {cfg : Cfg} {t : Tid} {s s' : Core} {hd : Bool} (g : KGood cfg s hd) (e : Ext t s s') {k : Key} {l : Nat} {p : Node}
    (h : PrevOk cfg s k l p) : PrevOk cfg s' k l p := by
  have := e.key p (g.mem_lt h.1)
  exact ⟨e.mem h.1, by rw [this]; exact h.2.1, by rw [this]; exact h.2.2⟩

theorem curle_ext {t : Tid} {s s' : Core} (e : Ext t s s') {k : Key} {c : Option Node}
    (h : CurLe s k c) : CurLe s' k c := by
  cases c with
  | none => trivial
  | some c => exact ⟨by rw [e.key c h.2]; exact h.1, Nat.lt_of_lt_of_le h.2 e.fresh⟩

theorem rec_ext {cfg : Cfg} {t : Tid} {s s' : Core} {hd : Bool} (g : KGood cfg s hd) (e : Ext t s s') {k : Key} {hgt : Nat}
    {prevs : Nat → Node} {currs : Nat → Option Node} {lo : Nat}
    (h : Rec cfg s k hgt prevs currs lo) : Rec cfg s' k hgt prevs currs lo :=
  fun l h1 h2 => ⟨prevok_ext g e (h l h1 h2).1, curle_ext e (h l h1 h2).2⟩

theorem own_ext {t u : Tid} {s s' : Core} (e : Ext t s s') {new : Node} {k : Key} {hgt : Nat}
    (h : Own s u new k hgt) : Own s' u new k hgt :=
  ⟨by rw [e.owner _ h.lt]; exact h.own, Nat.lt_of_lt_of_le h.lt e.fresh, by rw [e.key _ h.lt]; exact h.key,
   by rw [e.height _ h.lt]; exact h.hgt, h.pos, h.uk, h.hpos⟩

theorem notin_ext {t u : Tid} {s s' : Core} (e : Ext t s s') (hut : u ≠ t) {new : Node} {k : Key} {hgt : Nat} {lo : Nat}
    (ho : Own s u new k hgt) (h : NotIn s new lo) : NotIn s' new lo :=
  fun l hl => e.not_mem hut ho.own (h l hl)

theorem inbelow_ext {t : Tid} {s s' : Core} (e : Ext t s s') {n : Node} {hi : Nat}
    (h : InBelow s n hi) : InBelow s' n hi := fun l hl => e.mem (h l hl)

theorem mustok_ext {cfg : Cfg} {t : Tid} {s s' : Core} {hd : Bool} {mh mh' : Nat} (g : KGood cfg s hd) (e : Ext t s s') {k : Key} {must : Bool}
    (hmh : mh ≤ mh') (h : MustOk s mh k must) : MustOk s' mh' k must := by
  refine ⟨h.1, h.2.1, ?_⟩
  intro hm
  obtain ⟨⟨x, hx, hk⟩, h0⟩ := h.2.2 hm
  exact ⟨⟨x, e.mem hx, by rw [e.key x (g.mem_lt hx)]; exact hk⟩, Nat.lt_of_lt_of_le h0 hmh⟩

/-- a private node's pointer is not written by anybody else -/
theorem next_ext {t u : Tid} {s s' : Core} (e : Ext t s s') (hut : u ≠ t) {new : Node} {k : Key} {hgt : Nat} {l : Nat} {v : Option Node}
    (ho : Own s u new k hgt) (hn : new ∉ s.chain l) (h : s.next l new = v) : s'.next l new = v := by
  rcases e.next l new ho.lt with h1 | h1 | h1
  · rw [h1]; exact h
  · exact absurd h1 hn
  · rw [ho.own] at h1; exact absurd h1 hut

theorem trinv_ext {cfg : Cfg} {t : Tid} {s s' : Core} {hd : Bool} (_g : KGood cfg s hd) (e : Ext t s s') {prev : Node} {seen snap : List Node}
    (h : TrInv (view s 0) prev seen snap) : TrInv (view s' 0) prev seen snap := by
  rcases e.chain 0 with hc | ⟨p, n, hn, _, _, hc⟩
  · exact ⟨by show prev ∈ s'.chain 0; rw [hc]; exact h.prev_mem, h.top,
      by show seen.reverse.Sublist (upto prev (s'.chain 0)); rw [hc]; exact h.sub,
      by intro x hx; show x ∈ seen ∨ x ∈ aft prev (s'.chain 0); rw [hc]; exact h.cover x hx⟩
  · have hpm : prev ∈ s.chain 0 := h.prev_mem
    have hne : prev ≠ n := fun he => hn (he ▸ hpm)
    refine ⟨by show prev ∈ s'.chain 0; rw [hc]; exact mem_insAfter_of_mem hpm, h.top, ?_, ?_⟩
    · show seen.reverse.Sublist (upto prev (s'.chain 0))
      rw [hc]
      exact (show seen.reverse.Sublist (upto prev (s.chain 0)) from h.sub).trans (upto_sublist_insAfter hne)
    · intro x hx
      show x ∈ seen ∨ x ∈ aft prev (s'.chain 0)
      rw [hc]
      rcases h.cover x hx with h1 | h1
      · exact Or.inl h1
      · exact Or.inr (mem_aft_insAfter h1)

theorem tinvk_ext {cfg : Cfg} {t u : Tid} {s s' : Core} {hd hd' : Bool} {mh mh' : Nat} {th : Th} (g : KGood cfg s hd) (e : Ext t s s')
    (hut : u ≠ t) (hh : hd = true → hd' = true) (hmh : mh ≤ mh') (h : TInvK cfg s hd mh u th) : TInvK cfg s' hd' mh' u th := by
  unfold TInvK at h ⊢
  split <;> rename_i hpc <;> simp only [hpc] at h
  · trivial
  · exact ⟨own_ext e h.1, notin_ext e hut h.1 h.2⟩
  · exact ⟨own_ext e h.1, notin_ext e hut h.1 h.2⟩
  · exact ⟨own_ext e h.1, notin_ext e hut h.1 h.2.1, hh h.2.2⟩
  · exact ⟨own_ext e h.1, notin_ext e hut h.1 h.2.1, prevok_ext g e h.2.2.1, rec_ext g e h.2.2.2.1, hh h.2.2.2.2⟩
  · obtain ⟨h1, h2, h3, h4, h5, h0⟩ := h
    refine ⟨own_ext e h1, notin_ext e hut h1 h2, rec_ext g e h3, h4, ?_, hh h0⟩
    intro hm c hc
    have := (h3 0 (Nat.le_refl _) h4).2
    rw [hc] at this
    rw [e.key c this.2]; exact h5 hm c hc
  · obtain ⟨h1, h2, h3, h4, h5, h6, h0⟩ := h
    refine ⟨own_ext e h1, notin_ext e hut h1 h2, rec_ext g e h3, h4, ?_, next_ext e hut h1 (h2 0 (Nat.le_refl _)) h6, hh h0⟩
    intro hm c hc
    have := (h3 0 (Nat.le_refl _) h4).2
    rw [hc] at this
    rw [e.key c this.2]; exact h5 hm c hc
  · exact ⟨own_ext e h.1, inbelow_ext e h.2.1, notin_ext e hut h.1 h.2.2.1, rec_ext g e h.2.2.2⟩
  · exact ⟨own_ext e h.1, inbelow_ext e h.2.1, notin_ext e hut h.1 h.2.2.1, rec_ext g e h.2.2.2.1, h.2.2.2.2⟩
  · obtain ⟨h1, h2, h3, h4, h5, h6⟩ := h
    exact ⟨own_ext e h1, h2, h3, inbelow_ext e h4, notin_ext e hut h1 h5, rec_ext g e h6⟩
  · obtain ⟨h1, h2, h3, h4, h5, h6, h7⟩ := h
    exact ⟨own_ext e h1, h2, h3, inbelow_ext e h4, notin_ext e hut h1 h5, rec_ext g e h6,
      next_ext e hut h1 (h5 _ (Nat.le_refl _)) h7⟩
  · obtain ⟨h1, h2, h3, h4, h5, h6, h7, h8, h9⟩ := h
    exact ⟨own_ext e h1, h2, h3, inbelow_ext e h4, notin_ext e hut h1 h5, rec_ext g e h6, h7, h8, prevok_ext g e h9⟩
  · trivial
  · exact ⟨mustok_ext g e hmh h.1, h.2⟩
  · exact ⟨mustok_ext g e hmh h.1, h.2⟩
  · obtain ⟨h1, h2, h3, h4⟩ := h
    refine ⟨mustok_ext g e hmh h1, e.mem h2, by rw [e.key _ (g.mem_lt h2)]; exact h3, ?_⟩
    intro c hc
    obtain ⟨h5, h6⟩ := h4 c hc
    exact ⟨by rw [e.key c h6]; exact h5, Nat.lt_of_lt_of_le h6 e.fresh⟩
  · exact ⟨trinv_ext g e h.1, h.2⟩
  · exact trinv_ext g e h

theorem resokk_ext {cfg : Cfg} {t : Tid} {s s' : Core} {hd : Bool} (g : KGood cfg s hd) (e : Ext t s s') (hw : ∀ x ∈ s.wins, x ∈ s'.wins)
    {r : Res} (h : ResOkK s r) : ResOkK s' r := by
  cases r with
  | ins k ok n =>
    cases ok with
    | true => exact ⟨hw n h.1, by rw [e.key n h.2.2]; exact h.2.1, Nat.lt_of_lt_of_le h.2.2 e.fresh⟩
    | false => exact ⟨e.mem h.1, by rw [e.key n (g.mem_lt h.1)]; exact h.2.1, h.2.2⟩
  | find k must r =>
    refine ⟨h.1, ?_⟩
    intro n hn
    obtain ⟨h1, h2⟩ := h.2 n hn
    exact ⟨e.mem h1, by rw [e.key n (g.mem_lt h1)]; exact h2⟩
  | trav seen snap =>
    refine ⟨?_, h.2⟩
    rcases e.chain 0 with hc | ⟨p, n, _, _, _, hc⟩
    · rw [hc]; exact h.1
    · rw [hc]; exact h.1.trans (sublist_insAfter _ _ _)
  | misuse => trivial
  | threw o =>
    cases o with
    | none => trivial
    | some n => exact ⟨e.mem h.1, h.2⟩

end SkipList
end TbbVerif.C12
