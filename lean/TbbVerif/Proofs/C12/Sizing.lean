/-
C12 — table sizing: what the theorems need from the expressions regenerated from the header (`gen_*`, each proved
by unfolding the generated definition, so a changed computation breaks the proof) and the invariant
"my_bucket_count is a power of two (or has wrapped to 0)" for every sequence of inserts / reserve / rehash /
max_load_factor calls.  The float conditions (`reserveCond`, `adjustCond`, `rehashCond`, `mlfReject`) stay opaque:
the invariant holds whatever they evaluate to, i.e. for every load factor.
-/
import TbbVerif.Model.C12

namespace TbbVerif.C12
open TbbVerif.Cint Generated.C12

/-- the bucket counts the split-order theorems are proved for -/
def BcOk (bc : Nat) : Prop := ∃ k, k ≤ 63 ∧ bc = 2 ^ k

/-- what the sizing code can produce: a power of two, or 0 after a shift / doubling out of the 64-bit word -/
def IsBc (bc : Nat) : Prop := bc = 0 ∨ BcOk bc

theorem bcok_pos {b : Nat} (h : BcOk b) : 0 < b := by
  obtain ⟨k, _, hb⟩ := h; rw [hb]; exact Nat.two_pow_pos k

theorem isbc_of_bcok {b : Nat} (h : BcOk b) : IsBc b := Or.inr h

/-- **the dependency made explicit**: a non-zero bucket count produced by the sizing code satisfies the hypothesis
of the split-order theorems -/
theorem bcok_of_isbc {b : Nat} (h : IsBc b) (h0 : b ≠ 0) : BcOk b := h.resolve_left h0

theorem wrapU_lt (z : Int) : wrapU 64 z < 2 ^ 64 := by
  unfold wrapU
  have hpos : (0 : Int) < ((2 ^ 64 : Nat) : Int) := by decide
  have h1 := Int.emod_lt_of_pos z hpos
  have h2 := Int.emod_nonneg z (Int.ne_of_gt hpos)
  omega

theorem wrapU_nat (n : Nat) : wrapU 64 ((n : Nat) : Int) = n % 2 ^ 64 := by
  unfold wrapU
  omega

theorem wrapU_one : wrapU 64 (1 : Int) = 1 := by decide
theorem wrapU_two : wrapU 64 (2 : Int) = 2 := by decide

theorem log2_le_63 {y : Nat} (hy : y < 2 ^ 64) : Nat.log2 y ≤ 63 := by
  by_cases h0 : y = 0
  · subst h0; simp
  · have := (Nat.log2_lt h0).mpr hy
    omega

/-- `size_type(1) << size_type(log2(y))` for a 64-bit `y` is a power of two below 2^64 -/
theorem shl_log2 (y : Nat) (hy : y < 2 ^ 64) :
    ∃ k, k ≤ 63 ∧ ((wrapU 64 (1 : Int)) <<< (wrapU 64 ((clog2 y : Nat) : Int))) % 2 ^ 64 = 2 ^ k := by
  have hl := log2_le_63 hy
  refine ⟨Nat.log2 y, hl, ?_⟩
  rw [wrapU_one, wrapU_nat]
  unfold clog2
  have h1 : Nat.log2 y % 2 ^ 64 = Nat.log2 y := Nat.mod_eq_of_lt (by omega)
  rw [h1, Nat.one_shiftLeft]
  exact Nat.mod_eq_of_lt (Nat.pow_lt_pow_right (by omega) (by omega))

/-! ### the generated expressions -/

/-- `round_up_to_power_of_two` returns a power of two `≤ 2^63` for EVERY argument -/
theorem gen_roundUp_pow2 (x : Nat) : BcOk (roundUp x) := by
  unfold roundUp
  obtain ⟨k, hk, h⟩ := shl_log2 _ (wrapU_lt _)
  exact ⟨k, hk, h⟩

theorem gen_ctorBc (x : Nat) : ctorBc x = roundUp x := rfl
theorem gen_rehashNew (cur n : Nat) : rehashNew cur n = roundUp n := rfl
theorem gen_reserveInit (cur n : Nat) (mlf : F32) : reserveInit cur n mlf = cur := rfl
theorem gen_reserveDesired (cur nec n : Nat) (mlf : F32) : reserveDesired cur nec n mlf = nec := rfl

theorem gen_reserveStep (cur nec n : Nat) (mlf : F32) : reserveStep cur nec n mlf = (2 * nec) % 2 ^ 64 := by
  unfold reserveStep
  have : ((1 : Int)).toNat = 1 := rfl
  rw [this, Nat.shiftLeft_eq, Nat.mul_comm]

theorem gen_adjustNew (total cur : Nat) (mlf : F32) : adjustNew total cur mlf = (2 * cur) % 2 ^ 64 := by
  unfold adjustNew
  rw [wrapU_two]

/-! ### doubling -/

theorem double_isbc {b : Nat} (h : IsBc b) : IsBc ((2 * b) % 2 ^ 64) := by
  rcases h with h | ⟨k, hk, hb⟩
  · subst h; exact Or.inl rfl
  · subst hb
    by_cases h63 : k = 63
    · subst h63; exact Or.inl (by decide)
    · refine Or.inr ⟨k + 1, by omega, ?_⟩
      have : 2 * 2 ^ k = 2 ^ (k + 1) := by rw [Nat.pow_succ, Nat.mul_comm]
      rw [this]
      exact Nat.mod_eq_of_lt (Nat.pow_lt_pow_right (by omega) (by omega))

theorem double_bcok {b : Nat} (h : BcOk b) (hlt : b < 2 ^ 63) : BcOk ((2 * b) % 2 ^ 64) := by
  obtain ⟨k, hk, hb⟩ := h
  subst hb
  have hk' : k < 63 := (Nat.pow_lt_pow_iff_right (by omega)).mp hlt
  refine ⟨k + 1, by omega, ?_⟩
  have : 2 * 2 ^ k = 2 ^ (k + 1) := by rw [Nat.pow_succ, Nat.mul_comm]
  rw [this]
  exact Nat.mod_eq_of_lt (Nat.pow_lt_pow_right (by omega) (by omega))

namespace Sizing

theorem reserveLoop_isbc (cur n : Nat) (mlf : F32) :
    ∀ (fuel nec r : Nat), IsBc nec → reserveLoop cur n mlf fuel nec = some r → IsBc r := by
  intro fuel
  induction fuel with
  | zero => intro nec r _ h; simp [reserveLoop] at h
  | succ f ih =>
    intro nec r hn h
    unfold reserveLoop at h
    split at h
    · exact ih _ r (by rw [gen_reserveStep]; exact double_isbc hn) h
    · simp only [Option.some.injEq] at h
      subst h; exact hn

theorem insertOne_isbc {s : St} (h : IsBc s.bc) : IsBc (insertOne s).bc := by
  unfold insertOne
  simp only
  split
  · simp only; rw [gen_adjustNew]; exact double_isbc h
  · exact h

theorem insertMany_isbc (k : Nat) : ∀ {s : St}, IsBc s.bc → IsBc (insertMany k s).bc := by
  induction k with
  | zero => intro s h; exact h
  | succ k ih => intro s h; exact ih (insertOne_isbc h)

theorem step_isbc {s s' : St} {op : Op} (h : IsBc s.bc) (hs : step s op = some s') : IsBc s'.bc := by
  cases op with
  | ins k =>
    simp only [step, Option.some.injEq] at hs
    subst hs; exact insertMany_isbc k h
  | reserve n =>
    simp only [step] at hs
    split at hs
    · simp at hs
    · rename_i nec hl
      simp only [Option.some.injEq] at hs
      subst hs
      simp only [gen_reserveDesired]
      exact reserveLoop_isbc _ _ _ _ _ _ (by rw [gen_reserveInit]; exact h) hl
  | rehash n =>
    simp only [step, Option.some.injEq] at hs
    subst hs
    split
    · simp only [gen_rehashNew]; exact isbc_of_bcok (gen_roundUp_pow2 n)
    · exact h
  | setMlf f =>
    simp only [step, Option.some.injEq] at hs
    subst hs
    split <;> exact h

theorem run_isbc : ∀ (ops : List Op) {s s' : St}, IsBc s.bc → run s ops = some s' → IsBc s'.bc := by
  intro ops
  induction ops with
  | nil => intro s s' h hr; simp only [run, Option.some.injEq] at hr; subst hr; exact h
  | cons op ops ih =>
    intro s s' h hr
    simp only [run] at hr
    split at hr
    · simp at hr
    · rename_i s1 hs1
      exact ih (step_isbc h hs1) hr

theorem init_bcok (n0 : Nat) (mlf0 : F32) : BcOk (init n0 mlf0).bc := by
  simp only [init, gen_ctorBc]; exact gen_roundUp_pow2 n0

/-- one insert changes the bucket count only by doubling it (mod 2^64) -/
theorem insertOne_bc (s : St) : (insertOne s).bc = s.bc ∨ (insertOne s).bc = (2 * s.bc) % 2 ^ 64 := by
  unfold insertOne
  simp only
  split
  · right; simp only; rw [gen_adjustNew]
  · left; rfl

end Sizing
end TbbVerif.C12
