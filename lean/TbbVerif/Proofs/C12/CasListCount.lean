/-
C12 — `count(k)` of the multi containers (`std::distance` over `equal_range(k)`) on the CAS list: the three walks
(to the first equivalent element, past the equivalent elements, and from `first` to `second` counting) and the bounds
on what they return.
-/
import TbbVerif.Proofs.C12.Contig

namespace TbbVerif.C12
open CasList

/-- everything one step has to establish -/
structure StepOk (rule : Key → Rule) (L : LSt) (t : Tid) (o : Out) : Prop where
  act : ActOk rule L t o.act
  tinv : TInv rule (L.apply o.act) t o.th
  res : ∀ r, o.res = some r → ResOk (L.apply o.act) t r
  wins : (L.apply o.act).wins = (addLog [] t o.res).filterMap succNode ++ L.wins

theorem linked_some {rule} {L : LSt} (g : Good rule L) {p c : Node} (hp : p ∈ L.chain) (h : L.next p = some c) :
    ∃ r, aft p L.chain = c :: r := by
  have := g.linked p hp
  rw [h] at this
  cases hh : aft p L.chain with
  | nil => simp [hh] at this
  | cons y ys => simp [hh] at this; exact ⟨ys, by rw [this]⟩

theorem linked_none {rule} {L : LSt} (g : Good rule L) {p : Node} (hp : p ∈ L.chain) (h : L.next p = none) :
    aft p L.chain = [] := by
  have := g.linked p hp
  rw [h] at this
  cases hh : aft p L.chain with
  | nil => rfl
  | cons y ys => simp [hh] at this


/-! ### list arithmetic -/

theorem length_le_of_nodup_subset : ∀ (A B : List Node), A.Nodup → (∀ x ∈ A, x ∈ B) → A.length ≤ B.length := by
  intro A
  induction A with
  | nil => intro B _ _; simp
  | cons a as ih =>
    intro B hnd hsub
    have hnd' := List.nodup_cons.mp hnd
    have ha : a ∈ B := hsub a (by simp)
    have h1 : as.length ≤ (B.erase a).length := by
      refine ih (B.erase a) hnd'.2 ?_
      intro x hx
      have hne : x ≠ a := fun he => hnd'.1 (he ▸ hx)
      exact (List.mem_erase_of_ne hne).mpr (hsub x (List.mem_cons_of_mem _ hx))
    have h2 := List.length_erase_of_mem ha
    have h3 : 0 < B.length := List.length_pos_of_mem ha
    simp only [List.length_cons]
    omega

theorem nodup_of_reverse {l : List Node} (h : l.reverse.Nodup) : l.Nodup :=
  (List.pairwise_reverse.mp h).imp (fun h => Ne.symm h)

theorem length_filter_add (p : Node → Bool) : ∀ (A : List Node), A.length = (A.filter p).length + (A.filter (fun x => !p x)).length := by
  intro A
  induction A with
  | nil => simp
  | cons a as ih =>
    simp only [List.filter_cons, List.length_cons]
    cases hp : p a <;> simp <;> omega

/-! ### equivalent elements are contiguous -/

theorem same_ok {rule} {L : LSt} {k : Key} {x : Node} (h : Same rule L k x) : (L.key x).ok = k.ok := by
  unfold Same sameKey at h
  split at h
  · simpa using h
  · have : L.key x = k := by simpa using h
    rw [this]

/-- between two equivalent elements there are only equivalent elements -/
theorem between_same {rule} {L : LSt} {k : Key} (g : Good rule L) (hc : Contig rule L) {a b z : Node}
    (ha : a ∈ L.chain) (hb : b ∈ L.chain) (hsa : Same rule L k a) (hsb : Same rule L k b)
    (hz : z ∈ aft a L.chain) (hbz : b ∈ aft z L.chain) : Same rule L k z := by
  have hzm : z ∈ L.chain := mem_of_mem_aft hz
  cases hr : rule k with
  | after =>
    have h1 := pairwise_aft (R := fun a b => (L.key a).ok ≤ (L.key b).ok) g.sorted ha hz
    have h2 := pairwise_aft (R := fun a b => (L.key a).ok ≤ (L.key b).ok) g.sorted hzm hbz
    have h3 := same_ok hsa
    have h4 := same_ok hsb
    unfold Same sameKey
    simp only [hr, ite_true, decide_eq_true_eq]
    omega
  | before =>
    have ka : L.key a = k := by
      unfold Same sameKey at hsa; simpa [hr] using hsa
    have kb : L.key b = k := by
      unfold Same sameKey at hsb; simpa [hr] using hsb
    have := hc a ha b hb (by rw [ka, kb]) (by rw [ka]; exact hr) z hz hbz
    unfold Same sameKey
    simp only [hr]
    simp [this, ka]
  | uniq =>
    have ka : L.key a = k := by
      unfold Same sameKey at hsa; simpa [hr] using hsa
    have kb : L.key b = k := by
      unfold Same sameKey at hsb; simpa [hr] using hsb
    have hab : a = b := g.uniq a ha b hb (by rw [ka, kb]) (by rw [ka]; exact hr)
    subst hab
    exact absurd (aft_antisymm g.nodup hz hbz) id

/-! ### the steps of `count` -/

/-- one step of a traversal (`Walk.trinv_adv`, needed here before `Walk.lean`) -/
theorem trinv_adv_c {rule} {L : LSt} {prev c : Node} {seen snap : List Node} (g : Good rule L) (h : TrInv L prev seen snap)
    (hc : L.next prev = some c) : TrInv L c (c :: seen) snap := by
  obtain ⟨r, hr⟩ := linked_some g h.prev_mem hc
  refine ⟨mem_of_mem_aft (p := prev) (by rw [hr]; simp), rfl, ?_, ?_⟩
  · rw [upto_step g.nodup hr, List.reverse_cons]
    exact List.Sublist.append h.sub (List.Sublist.refl _)
  · intro x hx
    rcases h.cover x hx with h1 | h1
    · exact Or.inl (List.mem_cons_of_mem _ h1)
    · rw [hr] at h1
      rcases List.mem_cons.mp h1 with h2 | h2
      · exact Or.inl (by simp [h2])
      · right; rw [aft_step g.nodup hr]; exact h2

theorem count_zero_ok {rule} {L : LSt} {k : Key} {snap : List Node}
    (h : ∀ x ∈ snap, ¬ Same rule L k x) : countLo rule L k snap ≤ 0 ∧ 0 ≤ countHi rule L k snap := by
  refine ⟨?_, Nat.zero_le _⟩
  unfold countLo
  have : snap.filter (fun x => sameKey rule (L.key x) k) = [] := by
    rw [List.filter_eq_nil_iff]
    intro x hx; exact h x hx
  rw [this]; simp

theorem step_cfirst {rule} {L : LSt} {t : Tid} {th : Th} (g : Good rule L) (hpc : th.pc = .cfirst)
    (h : CInvA rule L th.k th.prev th.snap) : StepOk rule L t (thStep rule L t th) := by
  unfold thStep
  simp only [hpc]
  split
  · rename_i hc
    refine ⟨trivial, by simp [TInv, Th.finish], ?_, by simp [LSt.apply, addLog, succNode]⟩
    intro r hr
    simp only [Option.some.injEq] at hr
    subst hr
    refine count_zero_ok ?_
    intro x hx hs
    have := h.ahead x hx hs
    rw [linked_none g h.prev_mem hc] at this; simp at this
  · rename_i c hc
    obtain ⟨r, hr⟩ := linked_some g h.prev_mem hc
    have hcm : c ∈ L.chain := mem_of_mem_aft (p := th.prev) (by rw [hr]; simp)
    split
    · rename_i hgt
      refine ⟨trivial, by simp [TInv, Th.finish], ?_, by simp [LSt.apply, addLog, succNode]⟩
      intro r' hr'
      simp only [Option.some.injEq] at hr'
      subst hr'
      refine count_zero_ok ?_
      intro x hx hs
      have hxa := h.ahead x hx hs
      have hcx : (L.key c).ok ≤ (L.key x).ok := by
        rw [hr] at hxa
        rcases List.mem_cons.mp hxa with hxa | hxa
        · rw [hxa]; exact Nat.le_refl _
        · rw [← aft_step g.nodup hr] at hxa
          exact pairwise_aft (R := fun a b => (L.key a).ok ≤ (L.key b).ok) g.sorted hcm hxa
      have := same_ok hs
      omega
    · split
      · rename_i hsame
        refine ⟨trivial, ?_, by simp, by simp [LSt.apply, addLog]⟩
        simp only [TInv, LSt.apply]
        refine ⟨h.sok, hcm, hsame, hcm, hsame, Or.inl rfl, ?_⟩
        intro x hx hs
        have hxa := h.ahead x hx hs
        rw [hr] at hxa
        rcases List.mem_cons.mp hxa with hxa | hxa
        · exact Or.inl hxa
        · right; rw [aft_step g.nodup hr]; exact hxa
      · rename_i hns
        refine ⟨trivial, ?_, by simp, by simp [LSt.apply, addLog]⟩
        simp only [TInv, hpc, LSt.apply]
        refine ⟨h.sok, hcm, ?_⟩
        intro x hx hs
        have hxa := h.ahead x hx hs
        rw [hr] at hxa
        rcases List.mem_cons.mp hxa with hxa | hxa
        · subst hxa; exact absurd hs hns
        · rw [aft_step g.nodup hr]; exact hxa

/-- the invariant of the distance walk when it starts at `first` -/
theorem cinvc_start {rule} {L : LSt} {k : Key} {last first : Node} {second : Option Node} {snap : List Node}
    (g : Good rule L) (hcg : Contig rule L) (h : CInvB rule L k last first snap) (hnext : L.next last = second)
    (hns : ∀ c, second = some c → ¬ Same rule L k c) : CInvC rule L k first first second [first] snap := by
  have haft : ∀ y, y ∈ aft last L.chain → ∀ c, second = some c → y = c ∨ y ∈ aft c L.chain := by
    intro y hy c hc
    rw [hc] at hnext
    obtain ⟨r, hr⟩ := linked_some g h.prev_mem hnext
    rw [hr] at hy
    rcases List.mem_cons.mp hy with h1 | h1
    · exact Or.inl h1
    · right; rw [aft_step g.nodup hr]; exact h1
  refine ⟨h.sok, h.first_mem, h.first_same, ⟨h.first_mem, rfl, ?_, ?_⟩, Or.inl rfl, ?_, ?_, ?_⟩
  · simp only [List.reverse_cons, List.reverse_nil, List.nil_append, List.singleton_sublist]
    exact mem_upto_self h.first_mem
  · intro x hx
    simp only [List.mem_filter] at hx
    rcases h.from_first x hx.1 hx.2 with h1 | h1
    · exact Or.inl (by simp [h1])
    · exact Or.inr h1
  · cases hsec : second with
    | none => trivial
    | some c =>
      rw [hsec] at hnext
      obtain ⟨r, hr⟩ := linked_some g h.prev_mem hnext
      have hcl : c ∈ aft last L.chain := by rw [hr]; simp
      refine ⟨mem_of_mem_aft hcl, hns c hsec, ?_⟩
      rcases h.prev_pos with h1 | h1
      · rw [← h1]; exact hcl
      · exact aft_trans g.nodup h1 hcl
  · -- strictly between `first` and `second`: at or before `last`, hence equivalent
    intro y hy hc
    left
    have hym : y ∈ L.chain := mem_of_mem_aft hy
    by_cases hyl : y = last
    · rw [hyl]; exact h.prev_same
    · rcases aft_total hym h.prev_mem hyl with h1 | h1
      · -- `last` is behind `y`: `y` lies between `first` and `last`
        exact between_same g hcg h.first_mem h.prev_mem h.first_same h.prev_same hy h1
      · exfalso
        cases hsec : second with
        | none =>
          rw [hsec] at hnext
          rw [linked_none g h.prev_mem hnext] at h1; simp at h1
        | some c =>
          have hcy := hc c hsec
          rcases haft y h1 c hsec with h2 | h2
          · rw [h2] at hcy; exact not_mem_aft_self g.nodup hcy
          · exact aft_antisymm g.nodup hcy h2
  · intro y hy
    simp only [List.mem_singleton] at hy
    rw [hy]; exact Or.inl h.first_same

theorem step_clast {rule} {L : LSt} {t : Tid} {th : Th} (g : Good rule L) (hcg : Contig rule L) (hpc : th.pc = .clast)
    (h : CInvB rule L th.k th.prev th.first th.snap) : StepOk rule L t (thStep rule L t th) := by
  unfold thStep
  simp only [hpc]
  split
  · rename_i hc
    refine ⟨trivial, ?_, by simp, by simp [LSt.apply, addLog]⟩
    simp only [TInv, LSt.apply]
    exact cinvc_start g hcg h hc (by simp)
  · rename_i c hc
    obtain ⟨r, hr⟩ := linked_some g h.prev_mem hc
    have hcl : c ∈ aft th.prev L.chain := by rw [hr]; simp
    have hcm : c ∈ L.chain := mem_of_mem_aft hcl
    split
    · rename_i hsame
      refine ⟨trivial, ?_, by simp, by simp [LSt.apply, addLog]⟩
      simp only [TInv, hpc, LSt.apply]
      refine ⟨h.sok, h.first_mem, h.first_same, hcm, hsame, ?_, h.from_first⟩
      right
      rcases h.prev_pos with h1 | h1
      · rw [← h1]; exact hcl
      · exact aft_trans g.nodup h1 hcl
    · rename_i hns
      refine ⟨trivial, ?_, by simp, by simp [LSt.apply, addLog]⟩
      simp only [TInv, LSt.apply]
      refine cinvc_start g hcg h hc ?_
      intro c' hc'
      simp only [Option.some.injEq] at hc'
      rw [← hc']; exact hns

theorem step_cdist {rule} {L : LSt} {t : Tid} {th : Th} (g : Good rule L) (hcg : Contig rule L) (hpc : th.pc = .cdist)
    (h : CInvC rule L th.k th.prev th.first th.second th.seen th.snap) : StepOk rule L t (thStep rule L t th) := by
  have hseen_sub : ∀ y ∈ th.seen, y ∈ L.chain := by
    intro y hy
    have : y ∈ th.seen.reverse := by simpa using hy
    exact (upto_sublist _ _).subset (h.tr.sub.subset this)
  have hseen_nd : th.seen.Nodup := by
    exact nodup_of_reverse ((h.tr.sub.trans (upto_sublist _ _)).nodup g.nodup)
  unfold thStep
  simp only [hpc]
  split
  · rename_i hsec
    -- the walk has reached `second`: the result is the number of nodes walked
    refine ⟨trivial, by simp [TInv, Th.finish], ?_, by simp [LSt.apply, addLog, succNode]⟩
    intro r hr
    simp only [Option.some.injEq] at hr
    subst hr
    simp only [ResOk, LSt.apply]
    refine ⟨?_, ?_⟩
    · -- every equivalent element of the snapshot has been walked
      unfold countLo
      refine length_le_of_nodup_subset _ _ (h.sok.nodup.filter _) ?_
      intro x hx
      rcases h.tr.cover x hx with h1 | h1
      · exact h1
      · exfalso
        simp only [List.mem_filter] at hx
        cases hs2 : th.second with
        | none =>
          rw [hs2] at hsec
          rw [linked_none g h.tr.prev_mem hsec] at h1; simp at h1
        | some c =>
          rw [hs2] at hsec
          obtain ⟨rr, hrr⟩ := linked_some g h.tr.prev_mem hsec
          have hsc := h.sec
          rw [hs2] at hsc
          obtain ⟨hcm, hcns, hcp⟩ := hsc
          rw [hrr] at h1
          rcases List.mem_cons.mp h1 with h2 | h2
          · rw [h2] at hx; exact hcns hx.2
          · rw [← aft_step g.nodup hrr] at h2
            -- `c` lies between `first` and the equivalent `x`
            have hcf : c ∈ aft th.first L.chain := by
              rcases h.prev_pos with h3 | h3
              · rw [← h3]; exact hcp
              · exact aft_trans g.nodup h3 hcp
            exact hcns (between_same g hcg h.first_mem (h.sok.sub x hx.1) h.first_same hx.2 hcf h2)
    · -- what was walked: equivalent elements of the list, or elements that are not in the snapshot
      unfold countHi
      rw [length_filter_add (fun x => sameKey rule (L.key x) th.k) th.seen]
      refine Nat.add_le_add ?_ ?_
      · refine length_le_of_nodup_subset _ _ (hseen_nd.filter _) ?_
        intro x hx
        simp only [List.mem_filter] at hx ⊢
        exact ⟨hseen_sub x hx.1, hx.2⟩
      · refine length_le_of_nodup_subset _ _ (hseen_nd.filter _) ?_
        intro x hx
        simp only [List.mem_filter, Bool.and_eq_true, Bool.not_eq_true'] at hx ⊢
        refine ⟨hseen_sub x hx.1, hx.2, ?_⟩
        rcases h.seen_ok x hx.1 with h1 | h1
        · unfold Same at h1; rw [h1] at hx; exact absurd hx.2 (by simp)
        · simpa using h1
  · rename_i hsec
    split
    · rename_i hc
      -- `second` is still ahead: the list cannot end here
      exfalso
      cases hs2 : th.second with
      | none => rw [hs2] at hsec; exact hsec hc
      | some c =>
        have hsc := h.sec
        rw [hs2] at hsc
        have := hsc.2.2
        rw [linked_none g h.tr.prev_mem hc] at this; simp at this
    · rename_i c hc
      obtain ⟨r, hr⟩ := linked_some g h.tr.prev_mem hc
      have hcl : c ∈ aft th.prev L.chain := by rw [hr]; simp
      have hcf : c ∈ aft th.first L.chain := by
        rcases h.prev_pos with h3 | h3
        · rw [← h3]; exact hcl
        · exact aft_trans g.nodup h3 hcl
      have hsec' : ∀ c2, th.second = some c2 → c2 ∈ aft c L.chain := by
        intro c2 hc2
        have hsc := h.sec
        rw [hc2] at hsc
        have h4 := hsc.2.2
        rw [hr] at h4
        rcases List.mem_cons.mp h4 with h5 | h5
        · exfalso; apply hsec; rw [hc, hc2, h5]
        · rw [aft_step g.nodup hr]; exact h5
      refine ⟨trivial, ?_, by simp, by simp [LSt.apply, addLog]⟩
      simp only [TInv, hpc, LSt.apply]
      refine ⟨h.sok, h.first_mem, h.first_same, trinv_adv_c g h.tr hc, Or.inr hcf, ?_, h.between, ?_⟩
      · cases hs2 : th.second with
        | none => trivial
        | some c2 =>
          have hsc := h.sec
          rw [hs2] at hsc
          exact ⟨hsc.1, hsc.2.1, hsec' c2 hs2⟩
      · intro y hy
        rcases List.mem_cons.mp hy with h6 | h6
        · rw [h6]; exact h.between c hcf hsec'
        · exact h.seen_ok y h6

end TbbVerif.C12
