/-
C12 — SplitOrder: every step of a thread establishes `StepOk` (side conditions of its list action, its own next
invariant, the table invariant, the bucket-count invariant, the logged result).
-/
import TbbVerif.Proofs.C12.SplitOrderSys

namespace TbbVerif.C12
namespace SplitOrder
open CasList (succNode isSucc isIns hasKey)

variable {cfg : Cfg} {s : St} {t : Tid} {th : Th}

theorem so_idle (hI : SInv cfg s) (hpc : th.pc = .idle) : StepOk cfg s t (thStepCore cfg s t th) := by
  unfold thStepCore
  simp only [hpc]
  split
  · exact stepok_local hI rfl rfl rfl (by simp) (by simp [TInvSO, hpc])
  · exact stepok_local hI rfl rfl rfl (by simp) (by simp [TInvSO, Th.finish])
  · refine stepok_local hI rfl rfl rfl (by simp) ?_
    simp only [TInvSO]
    exact ⟨⟨fun _ => rfl, fun hk => by simp at hk⟩, trivial⟩
  · refine stepok_local hI rfl rfl rfl (by simp) ?_
    simp only [TInvSO]
    refine ⟨⟨fun _ => rfl, ?_⟩, trivial⟩
    intro _ hm
    simpa [hasKey] using hm
  · refine stepok_local hI rfl rfl rfl (by simp) ?_
    simp only [TInvSO]
    exact ⟨⟨fun hk => by simp at hk, fun hk => by simp at hk⟩, trivial⟩
  · exact stepok_local hI rfl rfl rfl (by simp) (by simpa [TInvSO] using trinv_start hI.good)
  · exact stepok_local hI rfl rfl rfl (by simp) (by simp [TInvSO])
  · exact stepok_local hI rfl rfl rfl (by simp) (by simp [TInvSO])
  · split
    · refine stepok_local hI rfl rfl rfl ?_ (by simp [TInvSO, Th.finish])
      intro r hr
      simp only [Option.some.injEq] at hr
      subst hr
      exact ⟨trivial, rfl⟩
    · refine stepok_local hI rfl rfl rfl ?_ (by simp [TInvSO, Th.finish])
      intro r hr
      simp only [Option.some.injEq] at hr
      subst hr
      exact ⟨trivial, rfl⟩

theorem so_ldBc (hI : SInv cfg s) (hpc : th.pc = .ldBc) (h : OpOk s.L th ∧ th.stack = []) :
    StepOk cfg s t (thStepCore cfg s t th) := by
  unfold thStepCore
  simp only [hpc]
  refine stepok_local hI rfl rfl rfl (by simp) ?_
  simp only [TInvSO]
  obtain ⟨k, hk, hbc⟩ := hI.bc
  exact ⟨h.1, ⟨k, hk, by simp [hbc]⟩, h.2⟩

theorem bok_lt (h : BOk th) : th.b < 2 ^ 63 := by
  obtain ⟨k, hk, hb⟩ := h
  rw [hb]
  exact Nat.lt_of_lt_of_le (Nat.mod_lt _ (Nat.two_pow_pos k)) (Nat.pow_le_pow_right (by omega) hk)

theorem so_gb1 (hI : SInv cfg s) (hpc : th.pc = .gb1) (h : OpOk s.L th ∧ BOk th ∧ th.stack = []) :
    StepOk cfg s t (thStepCore cfg s t th) := by
  unfold thStepCore
  simp only [hpc]
  split
  · refine stepok_local hI rfl rfl rfl (by simp) ?_
    refine enter_ok h.1 h.2.1 th.b (bok_lt h.2.1) ?_ ?_ ?_ <;> simp [h.2.2]
  · rename_i v hv
    refine stepok_local hI rfl rfl rfl (by simp) ?_
    simp only [TInvSO]
    exact ⟨h.1, h.2.1, by rw [hv]; simp⟩

theorem so_gb2 (hI : SInv cfg s) (hpc : th.pc = .gb2) (h : OpOk s.L th ∧ BOk th ∧ s.slot th.b ≠ none) :
    StepOk cfg s t (thStepCore cfg s t th) := by
  unfold thStepCore
  simp only [hpc]
  split
  · rename_i hv; exact absurd hv h.2.2
  · rename_i p hv
    obtain ⟨hpm, hpk⟩ := hI.table _ _ hv
    obtain ⟨k, hk, hb⟩ := h.2.1
    split
    · -- find
      rename_i hkind
      refine stepok_local hI rfl rfl rfl (by simp) ?_
      simp only [TInvSO]
      have hlt : (s.L.key p).ok < th.rk.ok := by
        rw [hpk, h.1.1 (by rw [hkind]; simp), hb]; exact dummy_lt_regular _ _ hk
      refine ⟨hpm, ?_⟩
      intro hm
      obtain ⟨x, hx, hkx⟩ := h.1.2 hkind hm
      exact ⟨x, mem_aft_of_lt (f := fun a => (s.L.key a).ok) hI.good.sorted hpm hx (by rw [hkx]; exact hlt), hkx⟩
    · -- touch
      refine stepok_local hI rfl rfl rfl ?_ (by simp [TInvSO, Th.finish])
      intro r hr
      simp only [Option.some.injEq] at hr
      subst hr
      exact ⟨trivial, rfl⟩
    · -- (sizing calls never get here)
      refine stepok_local hI rfl rfl rfl ?_ (by simp [TInvSO, Th.finish])
      intro r hr
      simp only [Option.some.injEq] at hr
      subst hr
      exact ⟨trivial, rfl⟩
    · -- insert: allocate the node, start the search at the bucket's dummy node
      rename_i hkind
      have hlt : (s.L.key p).ok < th.rk.ok := by
        rw [hpk, h.1.1 (by rw [hkind]; simp), hb]; exact dummy_lt_regular _ _ hk
      have ha : ActOk (R cfg) s.L t (.alloc th.rk t) := rfl
      refine ⟨ha, ?_, fun _ hh => hh, table_stable hI.good ha hI.table, hI.bc, by simp, by simp [LSt.apply, SplitOrder.addLog]⟩
      simp only [TInvSO, newSlot]
      exact insinv_start hI.good hpm hlt t

theorem so_ibCas0 (hI : SInv cfg s) (hpc : th.pc = .ibCas0)
    (h : OpOk s.L th ∧ BOk th ∧ Frame th ∧ th.stack.head? = some 0) : StepOk cfg s t (thStepCore cfg s t th) := by
  unfold thStepCore
  simp only [hpc]
  obtain ⟨h1, h2, h3, h4⟩ := h
  obtain ⟨rest, hs⟩ : ∃ rest, th.stack = 0 :: rest := by
    cases hst : th.stack with
    | nil => rw [hst] at h4; simp at h4
    | cons b r => rw [hst] at h4; simp at h4; exact ⟨r, by rw [h4]⟩
  split
  · rename_i hv
    refine ⟨trivial, ?_, ?_, ?_, hI.bc, by simp, by simp [LSt.apply, SplitOrder.addLog]⟩
    · rw [newSlot_some rfl]
      exact leave_ok h1 h2 h3 hs (by simp [upd])
    · rw [newSlot_some rfl]; intro b hb
      by_cases hb0 : b = 0
      · simp [upd, hb0]
      · simp [upd, hb0]; exact hb
    · rw [newSlot_some rfl]
      intro b d hd
      by_cases hb0 : b = 0
      · subst hb0
        simp only [upd, ite_true, Option.some.injEq] at hd
        subst hd
        exact ⟨hI.good.head_mem, by rw [dummyKey_zero]; exact hI.good.key0⟩
      · simp only [upd, hb0, ite_false] at hd
        exact hI.table b d hd
  · rename_i _ v hv
    refine stepok_local hI rfl rfl rfl (by simp) ?_
    exact leave_ok h1 h2 h3 hs (by rw [hv]; simp)

theorem so_ibLoop (hI : SInv cfg s) (hpc : th.pc = .ibLoop)
    (h : OpOk s.L th ∧ BOk th ∧ Frame th ∧ ∃ b rest, th.stack = b :: rest ∧ b ≠ 0) :
    StepOk cfg s t (thStepCore cfg s t th) := by
  unfold thStepCore
  simp only [hpc]
  obtain ⟨h1, h2, h3, b, rest, hs, hb0⟩ := h
  rw [hs]
  simp only
  have hblt : b < 2 ^ 63 := h3.lt b (by rw [hs]; simp)
  split
  · refine stepok_local hI rfl rfl rfl (by simp) ?_
    refine enter_ok h1 h2 (parentOf b) (Nat.lt_trans (parentOf_lt hb0) hblt) h3.lt ?_ ?_
    · intro x hx
      rw [hs] at hx
      rcases List.mem_cons.mp hx with hx | hx
      · rw [hx]; exact hb0
      · exact h3.tl_ne x (by rw [hs]; simpa using hx)
    · have := h3.bot
      rw [hs] at this ⊢
      simpa using this
  · rename_i v hv
    refine stepok_local hI rfl rfl rfl (by simp) ?_
    simp only [TInvSO]
    exact ⟨h1, h2, hs ▸ h3, b, rest, rfl, hb0, by rw [hv]; simp⟩

theorem so_ibParent (hI : SInv cfg s) (hpc : th.pc = .ibParent)
    (h : OpOk s.L th ∧ BOk th ∧ Frame th ∧ ∃ b rest, th.stack = b :: rest ∧ b ≠ 0 ∧ s.slot (parentOf b) ≠ none) :
    StepOk cfg s t (thStepCore cfg s t th) := by
  unfold thStepCore
  simp only [hpc]
  obtain ⟨h1, h2, h3, b, rest, hs, hb0, hsl⟩ := h
  rw [hs]
  simp only
  have hblt : b < 2 ^ 63 := h3.lt b (by rw [hs]; simp)
  split
  · rename_i hv; exact absurd hv hsl
  · rename_i p hv
    obtain ⟨hpm, hpk⟩ := hI.table _ _ hv
    have hlt : (s.L.key p).ok < (⟨dummyKey b, 0⟩ : Key).ok := by
      rw [hpk]; exact dummy_parent_lt hb0 hblt
    have ha : ActOk (R cfg) s.L t (.alloc ⟨dummyKey b, 0⟩ t) := rfl
    refine ⟨ha, ?_, fun _ hh => hh, table_stable hI.good ha hI.table, hI.bc, by simp, by simp [LSt.apply, SplitOrder.addLog]⟩
    simp only [TInvSO, newSlot]
    exact ⟨opok_stable hI.good ha h1, h2, hs ▸ h3, ⟨b, rest, rfl, rfl⟩, insinv_start hI.good hpm hlt t⟩

theorem so_dSearch (hI : SInv cfg s) (hpc : th.pc = .dSearch)
    (h : OpOk s.L th ∧ BOk th ∧ Frame th ∧ (∃ b rest, th.stack = b :: rest ∧ th.k = ⟨dummyKey b, 0⟩) ∧
      InsInv (R cfg) s.L t th.k th.prev th.new) : StepOk cfg s t (thStepCore cfg s t th) := by
  unfold thStepCore
  simp only [hpc]
  obtain ⟨h1, h2, h3, ⟨b, rest, hs, hk⟩, h5⟩ := h
  have hru : R cfg th.k = .uniq := by rw [hk]; exact rule_dummy _ _ _
  split
  · refine stepok_local hI rfl rfl rfl (by simp) ?_
    simp only [TInvSO]
    exact ⟨h1, h2, h3, ⟨b, rest, hs, hk⟩, h5, trivial⟩
  · rename_i c hc
    split
    · rename_i hadv
      refine stepok_local hI rfl rfl rfl (by simp) ?_
      simp only [TInvSO, hpc]
      exact ⟨h1, h2, h3, ⟨b, rest, hs, hk⟩, insinv_adv hI.good h5 hc (by rw [hru]; exact hadv)⟩
    · rename_i hadv
      split
      · rename_i hhit
        obtain ⟨hcm, hck, _, _⟩ := insinv_hit hI.good h5 hc (by rw [hru]; simpa using hadv) (by rw [hru]; exact hhit)
        refine stepok_local hI rfl rfl rfl (by simp) ?_
        simp only [TInvSO]
        exact ⟨h1, h2, h3, b, rest, hs, hcm, by rw [hck, hk]⟩
      · rename_i hhit
        refine stepok_local hI rfl rfl rfl (by simp) ?_
        simp only [TInvSO]
        exact ⟨h1, h2, h3, ⟨b, rest, hs, hk⟩, h5,
          currok_some hI.good h5 hc (by rw [hru]; simpa using hadv) (by rw [hru]; simpa using hhit)⟩

theorem so_dSetNext (hI : SInv cfg s) (hpc : th.pc = .dSetNext)
    (h : OpOk s.L th ∧ BOk th ∧ Frame th ∧ (∃ b rest, th.stack = b :: rest ∧ th.k = ⟨dummyKey b, 0⟩) ∧
      InsInv (R cfg) s.L t th.k th.prev th.new ∧ CurrOk (R cfg) s.L th.k th.curr) :
    StepOk cfg s t (thStepCore cfg s t th) := by
  unfold thStepCore
  simp only [hpc]
  obtain ⟨h1, h2, h3, h4, h5, h6⟩ := h
  obtain ⟨ha, hi, hc, hn⟩ := setnext_ok hI.good h5 h6
  refine ⟨ha, ?_, fun _ hh => hh, table_stable hI.good ha hI.table, hI.bc, by simp, by simp [LSt.apply, SplitOrder.addLog]⟩
  simp only [TInvSO, newSlot]
  exact ⟨opok_stable hI.good ha h1, h2, h3, h4, hi, hc, hn⟩

theorem link_step {k : Key} {prev new : Node} {curr : Option Node}
    (hI : SInv cfg s) (h5 : InsInv (R cfg) s.L t k prev new) (h6 : CurrOk (R cfg) s.L k curr)
    (h7 : s.L.next new = curr) (hcas : s.L.next prev = curr) :
    ActOk (R cfg) s.L t (.link prev new) ∧ TableOk (s.L.apply (.link prev new)) s.slot ∧
    ResOk (s.L.apply (.link prev new)) t (.ins k true new) ∧
    (s.L.apply (.link prev new)).wins = new :: s.L.wins := by
  have hl := link_ok hI.good h5 h6 h7 hcas
  have ha : ActOk (R cfg) s.L t (.link prev new) := ⟨h5.own, hl.1, hl.2.1, hl.2.2⟩
  exact ⟨ha, table_stable hI.good ha hI.table, linked_facts h5, rfl⟩

theorem so_dCas (hI : SInv cfg s) (hpc : th.pc = .dCas)
    (h : OpOk s.L th ∧ BOk th ∧ Frame th ∧ (∃ b rest, th.stack = b :: rest ∧ th.k = ⟨dummyKey b, 0⟩) ∧
      InsInv (R cfg) s.L t th.k th.prev th.new ∧ CurrOk (R cfg) s.L th.k th.curr ∧ s.L.next th.new = th.curr) :
    StepOk cfg s t (thStepCore cfg s t th) := by
  unfold thStepCore
  simp only [hpc]
  obtain ⟨h1, h2, h3, ⟨b, rest, hs, hk⟩, h5, h6, h7⟩ := h
  split
  · rename_i hcas
    obtain ⟨ha, htab, hres, hw⟩ := link_step hI h5 h6 h7 hcas
    refine ⟨ha, ?_, fun _ hh => hh, htab, hI.bc, ?_, ?_⟩
    · simp only [TInvSO, newSlot]
      refine ⟨opok_stable hI.good ha h1, h2, h3, b, rest, hs, ?_, ?_⟩
      · exact mem_insAfter.mpr (Or.inr ⟨rfl, h5.prev_mem⟩)
      · rw [← hk]; exact hres.2.1
    · intro r hr
      simp only [Option.some.injEq] at hr
      subst hr; exact hres
    · simp [hw, SplitOrder.addLog, succNode]
  · refine stepok_local hI rfl rfl rfl (by simp) ?_
    simp only [TInvSO]
    exact ⟨h1, h2, h3, ⟨b, rest, hs, hk⟩, h5⟩

theorem so_ibStore (hI : SInv cfg s) (hpc : th.pc = .ibStore)
    (h : OpOk s.L th ∧ BOk th ∧ Frame th ∧
      ∃ b rest, th.stack = b :: rest ∧ th.dres ∈ s.L.chain ∧ s.L.key th.dres = ⟨dummyKey b, 0⟩) :
    StepOk cfg s t (thStepCore cfg s t th) := by
  unfold thStepCore
  simp only [hpc]
  obtain ⟨h1, h2, h3, b, rest, hs, hdm, hdk⟩ := h
  rw [hs]
  simp only
  refine ⟨trivial, ?_, ?_, ?_, hI.bc, by simp, by simp [LSt.apply, SplitOrder.addLog]⟩
  · rw [newSlot_some rfl]
    exact leave_ok h1 h2 h3 hs (by simp [upd])
  · rw [newSlot_some rfl]; intro b' hb
    by_cases hbb : b' = b
    · simp [upd, hbb]
    · simp [upd, hbb]; exact hb
  · rw [newSlot_some rfl]
    intro b' d hd
    by_cases hbb : b' = b
    · subst hbb
      simp only [upd, ite_true, Option.some.injEq] at hd
      subst hd
      exact ⟨hdm, hdk⟩
    · simp only [upd, hbb, ite_false] at hd
      exact hI.table b' d hd

theorem so_search (hI : SInv cfg s) (hpc : th.pc = .search)
    (h5 : InsInv (R cfg) s.L t th.k th.prev th.new) : StepOk cfg s t (thStepCore cfg s t th) := by
  unfold thStepCore
  simp only [hpc]
  split
  · refine stepok_local hI rfl rfl rfl (by simp) ?_
    simp only [TInvSO]
    exact ⟨h5, trivial⟩
  · rename_i c hc
    split
    · rename_i hadv
      refine stepok_local hI rfl rfl rfl (by simp) ?_
      simp only [TInvSO, hpc]
      exact insinv_adv hI.good h5 hc hadv
    · rename_i hadv
      split
      · rename_i hhit
        obtain ⟨hcm, hck, hc0, _⟩ := insinv_hit hI.good h5 hc (by simpa using hadv) hhit
        refine stepok_local hI rfl rfl rfl ?_ (by simp [TInvSO, Th.finish])
        intro r hr
        simp only [Option.some.injEq] at hr
        subst hr
        exact ⟨⟨hcm, hck, hc0⟩, rfl⟩
      · rename_i hhit
        refine stepok_local hI rfl rfl rfl (by simp) ?_
        simp only [TInvSO]
        exact ⟨h5, currok_some hI.good h5 hc (by simpa using hadv) (by simpa using hhit)⟩

theorem so_setNext (hI : SInv cfg s) (hpc : th.pc = .setNext)
    (h : InsInv (R cfg) s.L t th.k th.prev th.new ∧ CurrOk (R cfg) s.L th.k th.curr) :
    StepOk cfg s t (thStepCore cfg s t th) := by
  unfold thStepCore
  simp only [hpc]
  obtain ⟨ha, hi, hc, hn⟩ := setnext_ok hI.good h.1 h.2
  refine ⟨ha, ?_, fun _ hh => hh, table_stable hI.good ha hI.table, hI.bc, by simp, by simp [LSt.apply, SplitOrder.addLog]⟩
  simp only [TInvSO, newSlot]
  exact ⟨hi, hc, hn⟩

theorem so_cas (hI : SInv cfg s) (hpc : th.pc = .cas)
    (h : InsInv (R cfg) s.L t th.k th.prev th.new ∧ CurrOk (R cfg) s.L th.k th.curr ∧ s.L.next th.new = th.curr) :
    StepOk cfg s t (thStepCore cfg s t th) := by
  unfold thStepCore
  simp only [hpc]
  obtain ⟨h5, h6, h7⟩ := h
  split
  · rename_i hcas
    obtain ⟨ha, htab, hres, hw⟩ := link_step hI h5 h6 h7 hcas
    refine ⟨ha, by simp [TInvSO], fun _ hh => hh, htab, hI.bc, ?_, ?_⟩
    · intro r hr
      simp only [Option.some.injEq] at hr
      subst hr; exact hres
    · simp [hw, SplitOrder.addLog, succNode]
  · refine stepok_local hI rfl rfl rfl (by simp) ?_
    simpa [TInvSO] using h5

theorem so_szAdd (hI : SInv cfg s) (hpc : th.pc = .szAdd) : StepOk cfg s t (thStepCore cfg s t th) := by
  unfold thStepCore
  simp only [hpc]
  exact stepok_local hI rfl rfl rfl (by simp) (by simp [TInvSO])

theorem so_ldBc2 (hI : SInv cfg s) (hpc : th.pc = .ldBc2) : StepOk cfg s t (thStepCore cfg s t th) := by
  unfold thStepCore
  simp only [hpc]
  split
  · rename_i hc
    simp only [Bool.and_eq_true, decide_eq_true_eq] at hc
    refine stepok_local hI rfl rfl rfl (by simp) ?_
    simp only [TInvSO]
    rw [gen_adjustNew]
    exact double_bcok hI.bc hc.2
  · exact stepok_local hI rfl rfl rfl (by simp) (by simp [TInvSO, Th.finish])

theorem sized_res {L : LSt} {o : Option Res} {w : String} (ho : o = some (.sized w) ∨ o = none) :
    ∀ r, o = some r → ResOk L t r ∧ succNode (t, r) = none := by
  intro r hr
  rcases ho with ho | ho
  · rw [ho] at hr
    simp only [Option.some.injEq] at hr
    subst hr
    exact ⟨trivial, rfl⟩
  · rw [ho] at hr; simp at hr

theorem kind_res (th : Th) (w : String) :
    (if th.kind = Kind.size then some (CasList.Res.sized w) else none) = some (CasList.Res.sized w) ∨
    (if th.kind = Kind.size then some (CasList.Res.sized w) else (none : Option Res)) = none := by
  split
  · exact Or.inl rfl
  · exact Or.inr rfl

theorem so_casBc (hI : SInv cfg s) (hpc : th.pc = .casBc) (h : BcOk th.nec) :
    StepOk cfg s t (thStepCore cfg s t th) := by
  unfold thStepCore
  simp only [hpc]
  split
  · refine ⟨trivial, by simp [TInvSO, Th.finish], fun _ hh => hh, hI.table, h, ?_, ?_⟩
    · intro r hr
      exact (sized_res (kind_res th "rehash") r hr).1
    · simp only [LSt.apply]
      rcases kind_res th "rehash" with hk | hk <;> simp [hk, SplitOrder.addLog, succNode]
  · exact stepok_local hI rfl rfl rfl (sized_res (kind_res th "rehash")) (by simp [TInvSO, Th.finish])

theorem so_rhLd (hI : SInv cfg s) (hpc : th.pc = .rhLd) : StepOk cfg s t (thStepCore cfg s t th) := by
  unfold thStepCore
  simp only [hpc]
  split
  · refine stepok_local hI rfl rfl rfl (by simp) ?_
    simp only [TInvSO]
    rw [gen_rehashNew]
    exact gen_roundUp_pow2 _
  · exact stepok_local hI rfl rfl rfl (sized_res (Or.inl rfl)) (by simp [TInvSO, Th.finish])

theorem so_rvLd (hI : SInv cfg s) (hpc : th.pc = .rvLd) : StepOk cfg s t (thStepCore cfg s t th) := by
  unfold thStepCore
  simp only [hpc]
  split
  · exact stepok_local hI rfl rfl rfl (sized_res (Or.inl rfl)) (by simp [TInvSO, Th.finish])
  · rename_i nec hl
    split
    · exact stepok_local hI rfl rfl rfl (sized_res (Or.inl rfl)) (by simp [TInvSO, Th.finish])
    · rename_i h0
      refine stepok_local hI rfl rfl rfl (by simp) ?_
      simp only [TInvSO]
      have := Sizing.reserveLoop_isbc _ _ _ _ _ _ (by rw [gen_reserveInit]; exact isbc_of_bcok hI.bc) hl
      exact bcok_of_isbc this h0

theorem so_rvCas (hI : SInv cfg s) (hpc : th.pc = .rvCas) (h : BcOk th.nec) :
    StepOk cfg s t (thStepCore cfg s t th) := by
  unfold thStepCore
  simp only [hpc]
  split
  · refine ⟨trivial, by simp [TInvSO, Th.finish], fun _ hh => hh, hI.table, ?_, ?_, ?_⟩
    · simp only [Option.getD_some, gen_reserveDesired]; exact h
    · intro r hr
      simp only [Option.some.injEq] at hr
      subst hr; trivial
    · simp [LSt.apply, SplitOrder.addLog, succNode]
  · split
    · exact stepok_local hI rfl rfl rfl (sized_res (Or.inl rfl)) (by simp [TInvSO, Th.finish])
    · refine stepok_local hI rfl rfl rfl (by simp) ?_
      simp only [TInvSO, hpc]
      exact h

theorem so_fwalk (hI : SInv cfg s) (hpc : th.pc = .fwalk) (h : FInv s.L th.k th.prev th.must) :
    StepOk cfg s t (thStepCore cfg s t th) := by
  unfold thStepCore
  simp only [hpc]
  split
  · rename_i hc
    refine stepok_local hI rfl rfl rfl ?_ (by simp [TInvSO, Th.finish])
    intro r hr
    simp only [Option.some.injEq] at hr
    subst hr
    exact ⟨⟨by simp [finv_none hI.good h hc], by simp⟩, rfl⟩
  · rename_i c hc
    split
    · rename_i hgt
      refine stepok_local hI rfl rfl rfl ?_ (by simp [TInvSO, Th.finish])
      intro r hr
      simp only [Option.some.injEq] at hr
      subst hr
      exact ⟨⟨by simp [finv_gt hI.good h hc hgt], by simp⟩, rfl⟩
    · split
      · rename_i heq
        refine stepok_local hI rfl rfl rfl ?_ (by simp [TInvSO, Th.finish])
        intro r hr
        simp only [Option.some.injEq] at hr
        subst hr
        refine ⟨⟨by simp, ?_⟩, rfl⟩
        intro n hn
        simp only [Option.some.injEq] at hn
        subst hn
        exact ⟨finv_mem hI.good h hc, heq⟩
      · rename_i hne
        refine stepok_local hI rfl rfl rfl (by simp) ?_
        simp only [TInvSO, hpc]
        exact finv_adv hI.good h hc hne

theorem so_twalk (hI : SInv cfg s) (hpc : th.pc = .twalk) (h : TrInv s.L th.prev th.seen th.snap) :
    StepOk cfg s t (thStepCore cfg s t th) := by
  unfold thStepCore
  simp only [hpc]
  split
  · rename_i hc
    refine stepok_local hI rfl rfl rfl ?_ (by simp [TInvSO, Th.finish])
    intro r hr
    simp only [Option.some.injEq] at hr
    subst hr
    exact ⟨trinv_end hI.good h hc, rfl⟩
  · rename_i c hc
    refine stepok_local hI rfl rfl rfl (by simp) ?_
    simp only [TInvSO, hpc]
    exact trinv_adv hI.good h hc

theorem so_step_ok (hI : SInv cfg s) (h : TInvSO cfg s.L s.slot t th) : StepOk cfg s t (thStepCore cfg s t th) := by
  unfold TInvSO at h
  cases hpc : th.pc <;> simp only [hpc] at h
  · exact so_idle hI hpc
  · exact so_ldBc hI hpc h
  · exact so_gb1 hI hpc h
  · exact so_gb2 hI hpc h
  · exact so_ibCas0 hI hpc h
  · exact so_ibLoop hI hpc h
  · exact so_ibParent hI hpc h
  · exact so_dSearch hI hpc h
  · exact so_dSetNext hI hpc h
  · exact so_dCas hI hpc h
  · exact so_ibStore hI hpc h
  · exact so_search hI hpc h
  · exact so_setNext hI hpc h
  · exact so_cas hI hpc h
  · exact so_szAdd hI hpc
  · exact so_ldBc2 hI hpc
  · exact so_casBc hI hpc h
  · exact so_rhLd hI hpc
  · exact so_rvLd hI hpc
  · exact so_rvCas hI hpc h
  · exact so_fwalk hI hpc h
  · exact so_twalk hI hpc h

end SplitOrder
end TbbVerif.C12
