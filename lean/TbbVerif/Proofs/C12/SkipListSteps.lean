/-
C12 — skip list: every step of a thread establishes `StepOkK`.
-/
import TbbVerif.Proofs.C12.SkipListShapes

namespace TbbVerif.C12
namespace SkipList

structure StepOkK (cfg : Cfg) (s : St) (t : Tid) (o : Out) : Prop where
  ext : Ext t s.core o.st.core
  head : s.headSet = true → o.st.headSet = true
  mh : s.maxh ≤ o.st.maxh
  kgood : KGood cfg o.st.core o.st.headSet
  tinv : TInvK cfg o.st.core o.st.headSet o.st.maxh t o.th
  res : ∀ r, o.res = some r → ResOkK o.st.core r
  wins : o.st.core.wins = (addLog [] t o.res).filterMap succNodeK ++ s.core.wins
  frame : o.st.ths = s.ths ∧ o.st.log = s.log

variable {cfg : Cfg} {s : St} {t : Tid} {th : Th}

theorem kgood_head {c : Core} {hd hd' : Bool} (g : KGood cfg c hd) (h : hd = true → hd' = true) : KGood cfg c hd' :=
  ⟨fun h0 => g.nohead (by cases hd <;> simp_all), g.lv, g.sub, g.hgt, g.uk0, g.wins_mem, g.wins_nodup⟩

/-- a step that does not touch the pointer structure -/
theorem stepk_local {o : Out} (hI : KInv cfg s) (hcore : o.st.core = s.core) (hhd : s.headSet = true → o.st.headSet = true)
    (hmh : s.maxh ≤ o.st.maxh) (hfr : o.st.ths = s.ths ∧ o.st.log = s.log)
    (hres : ∀ r, o.res = some r → ResOkK s.core r ∧ succNodeK (t, r) = none)
    (ht : TInvK cfg s.core o.st.headSet o.st.maxh t o.th) : StepOkK cfg s t o := by
  refine ⟨by rw [hcore]; exact Ext.refl t _, hhd, hmh, by rw [hcore]; exact kgood_head hI.g hhd, by rw [hcore]; exact ht, ?_, ?_, hfr⟩
  · intro r hr; rw [hcore]; exact (hres r hr).1
  · rw [hcore]
    cases hr : o.res with
    | none => simp [addLog]
    | some r => simp [addLog, (hres r hr).2]

theorem key_eq_of_ok {c : Core} {hd : Bool} (g : KGood cfg c hd) {x : Node} {k : Key} (hk : k.uk = 0)
    (h : (c.key x).ok = k.ok) : c.key x = k := by
  have := g.uk0 x
  cases hx : c.key x with
  | mk ok uk =>
    rw [hx] at this h
    cases k with
    | mk ok' uk' => simp at this h hk ⊢; exact ⟨h, by rw [this, hk]⟩

theorem prevok_head {c : Core} {hd : Bool} (g : KGood cfg c hd) {k : Key} (hpos : 0 < k.ok) (l : Nat) : PrevOk cfg c k l 0 := by
  have h0 := (g.lv 0).key0
  have : c.key 0 = ⟨0, 0⟩ := h0
  refine ⟨g.head_mem l, by rw [this]; exact Nat.zero_le _, fun _ => by rw [this]; exact hpos⟩

theorem k_idle (hI : KInv cfg s) (hpc : th.pc = .idle) : StepOkK cfg s t (thStepCore cfg s t th) := by
  unfold thStepCore
  simp only [hpc]
  split
  · exact stepk_local hI rfl (fun h => h) (Nat.le_refl _) ⟨rfl, rfl⟩ (by simp) (by simp [TInvK, hpc])
  · exact stepk_local hI rfl (fun h => h) (Nat.le_refl _) ⟨rfl, rfl⟩ (by simp) (by simp [TInvK, Th.finish])
  · rename_i k h rest hops
    split
    · refine stepk_local hI rfl (fun h => h) (Nat.le_refl _) ⟨rfl, rfl⟩ ?_ (by simp [TInvK, Th.finish])
      intro r hr
      simp only [Option.some.injEq] at hr
      subst hr; exact ⟨trivial, rfl⟩
    · rename_i hh
      have hh' : 0 < h := by
        by_cases h0 : h = 0
        · exact absurd (Or.inl h0) hh
        · omega
      have hne : ∀ l x, x ∈ s.core.chain l → x ≠ s.core.fresh := fun l x hx he => by have := hI.g.mem_lt hx; omega
      refine ⟨?_, fun h => h, Nat.le_refl _, ?_, ?_, by simp, by simp [addLog], ⟨rfl, rfl⟩⟩
      · refine ext_alloc (k := k + 1) (h := h) ?_ rfl rfl rfl rfl (fun l x => rfl)
        intro x hx; simp [upd]; omega
      · exact kgood_alloc hI.g k h rfl rfl rfl rfl rfl (fun l x => rfl)
      · simp only [TInvK]
        refine ⟨⟨by simp [upd], by simp, by simp [upd], by simp [upd], by simp, rfl, hh'⟩, ?_⟩
        intro l _ hm
        exact hne l _ hm rfl
  · rename_i k rest hops
    refine stepk_local hI rfl (fun h => h) (Nat.le_refl _) ⟨rfl, rfl⟩ (by simp) ?_
    simp only [TInvK]
    refine ⟨⟨by simp, rfl, ?_⟩, trivial⟩
    intro hm
    simp only [Bool.and_eq_true, decide_eq_true_eq, hasKey, List.any_eq_true] at hm
    obtain ⟨⟨x, hx, hkx⟩, h0⟩ := hm
    exact ⟨⟨x, hx, hkx⟩, h0⟩
  · refine stepk_local hI rfl (fun h => h) (Nat.le_refl _) ⟨rfl, rfl⟩ (by simp) ?_
    simp only [TInvK]
    exact ⟨trinv_start (hI.g.lv 0), trivial, trivial⟩

theorem k_ldHead (hI : KInv cfg s) (hpc : th.pc = .ldHead) (h : Own s.core t th.new th.k th.hgt ∧ NotIn s.core th.new 0) :
    StepOkK cfg s t (thStepCore cfg s t th) := by
  unfold thStepCore
  simp only [hpc]
  split
  · rename_i hh
    exact stepk_local hI rfl (fun h => h) (Nat.le_refl _) ⟨rfl, rfl⟩ (by simp) (by simp only [TInvK]; exact ⟨h.1, h.2, hh⟩)
  · exact stepk_local hI rfl (fun h => h) (Nat.le_refl _) ⟨rfl, rfl⟩ (by simp) (by simp only [TInvK]; exact h)

theorem k_casHead (hI : KInv cfg s) (hpc : th.pc = .casHead) (h : Own s.core t th.new th.k th.hgt ∧ NotIn s.core th.new 0) :
    StepOkK cfg s t (thStepCore cfg s t th) := by
  unfold thStepCore
  simp only [hpc]
  split
  · rename_i hh
    exact stepk_local hI rfl (fun h => h) (Nat.le_refl _) ⟨rfl, rfl⟩ (by simp) (by simp only [TInvK]; exact ⟨h.1, h.2, hh⟩)
  · exact stepk_local hI rfl (fun _ => rfl) (Nat.le_refl _) ⟨rfl, rfl⟩ (by simp) (by simp only [TInvK]; exact ⟨h.1, h.2, trivial⟩)

theorem k_ldMaxh (hI : KInv cfg s) (hpc : th.pc = .ldMaxh)
    (h : Own s.core t th.new th.k th.hgt ∧ NotIn s.core th.new 0 ∧ s.headSet = true) : StepOkK cfg s t (thStepCore cfg s t th) := by
  unfold thStepCore
  simp only [hpc]
  obtain ⟨h1, h2, h3⟩ := h
  have hrec : ∀ lo, Rec cfg s.core th.k th.hgt (fun _ => 0) (fun _ => none) lo := by
    intro lo l _ _
    exact ⟨prevok_head hI.g h1.pos l, trivial⟩
  split
  · refine stepk_local hI rfl (fun h => h) (Nat.le_refl _) ⟨rfl, rfl⟩ (by simp) ?_
    simp only [TInvK]
    exact ⟨h1, h2, hrec 0, h1.hpos, by simp, h3⟩
  · refine stepk_local hI rfl (fun h => h) (Nat.le_refl _) ⟨rfl, rfl⟩ (by simp) ?_
    simp only [TInvK]
    exact ⟨h1, h2, prevok_head hI.g h1.pos _, hrec _, h3⟩


theorem next_some {c : Core} {hd : Bool} (g : KGood cfg c hd) {l : Nat} {p x : Node} (hp : p ∈ c.chain l)
    (h : c.next l p = some x) : ∃ r, aft p (c.chain l) = x :: r := linked_some (g.lv l) hp h

theorem next_none {c : Core} {hd : Bool} (g : KGood cfg c hd) {l : Nat} {p : Node} (hp : p ∈ c.chain l)
    (h : c.next l p = none) : aft p (c.chain l) = [] := linked_none (g.lv l) hp h

theorem rec_upd {c : Core} {k : Key} {hgt : Nat} {prevs : Nat → Node} {currs : Nat → Option Node} {lvl : Nat} {p : Node}
    {cn : Option Node} (h : Rec cfg c k hgt prevs currs (lvl + 1)) (hp : PrevOk cfg c k lvl p) (hc : CurLe c k cn) :
    Rec cfg c k hgt (upd prevs lvl p) (upd currs lvl cn) lvl := by
  intro l h1 h2
  by_cases hl : l = lvl
  · subst hl; simp only [upd, ite_true]; exact ⟨hp, hc⟩
  · simp only [upd, hl, ite_false]; exact h l (by omega) h2

theorem rec_mono {c : Core} {k : Key} {hgt : Nat} {prevs : Nat → Node} {currs : Nat → Option Node} {lo lo' : Nat}
    (h : Rec cfg c k hgt prevs currs lo) (hle : lo ≤ lo') : Rec cfg c k hgt prevs currs lo' :=
  fun l h1 h2 => h l (Nat.le_trans hle h1) h2

theorem prevok_down {c : Core} {hd : Bool} (g : KGood cfg c hd) {k : Key} {l : Nat} {p : Node}
    (h : PrevOk cfg c k (l + 1) p) : PrevOk cfg c k l p := ⟨g.sub l p h.1, h.2⟩

/-- walking on past `x` with the `key` comparator of the container -/
theorem prevok_adv {c : Core} {hd : Bool} (g : KGood cfg c hd) {k : Key} (hk : k.uk = 0) {l : Nat} {p x : Node}
    (hp : p ∈ c.chain l) (hn : c.next l p = some x) (hadv : advKey cfg.multi (c.key x) k = true) : PrevOk cfg c k l x := by
  obtain ⟨r, hr⟩ := next_some g hp hn
  refine ⟨mem_of_mem_aft (p := p) (by rw [hr]; simp), adv_le hadv, ?_⟩
  intro hm
  have hu := g.uk0 x
  simp only [advKey, rule, hm, adv] at hadv
  simp at hadv
  rcases hadv with h | h
  · exact h
  · rw [hu, hk] at h; exact absurd rfl h.2

theorem ins_key {k : Key} (hpos : 0 < k.ok) (huk : k.uk = 0) : (⟨k.ok - 1 + 1, 0⟩ : Key) = k := by
  cases k with
  | mk ok uk => simp at hpos huk ⊢; exact ⟨by omega, huk.symm⟩

theorem k_desc (hI : KInv cfg s) (hpc : th.pc = .desc)
    (h : Own s.core t th.new th.k th.hgt ∧ NotIn s.core th.new 0 ∧ PrevOk cfg s.core th.k th.lvl th.prev ∧
      Rec cfg s.core th.k th.hgt th.prevs th.currs (th.lvl + 1) ∧ s.headSet = true) : StepOkK cfg s t (thStepCore cfg s t th) := by
  unfold thStepCore
  simp only [hpc]
  obtain ⟨h1, h2, h3, h4, h5⟩ := h
  -- what is recorded when the level is done
  have hdone : ∀ cn : Option Node, CurLe s.core th.k cn →
      (th.lvl = 0 → cfg.multi = false → ∀ x, cn = some x → th.k.ok < (s.core.key x).ok) →
      TInvK cfg s.core s.headSet s.maxh t (afterDesc th cn) := by
    intro cn hcl hstrict
    unfold afterDesc
    have hrec := rec_upd h4 h3 hcl
    by_cases hl : th.lvl = 0
    · simp only [hl, ite_true, TInvK]
      rw [hl] at hrec
      refine ⟨h1, h2, hrec, h1.hpos, ?_, h5⟩
      intro hm x hx
      simp only [upd, ite_true] at hx
      exact hstrict hl hm x hx
    · simp only [hl, ite_false, TInvK, hpc]
      obtain ⟨l', hl'⟩ : ∃ l', th.lvl = l' + 1 := ⟨th.lvl - 1, by omega⟩
      refine ⟨h1, h2, ?_, ?_, h5⟩
      · have : th.lvl - 1 = l' := by omega
        rw [this]; rw [hl'] at h3; exact prevok_down hI.g h3
      · have : th.lvl - 1 + 1 = th.lvl := by omega
        rw [this]; exact hrec
  split
  · rename_i x hx
    have hxm : x ∈ s.core.chain th.lvl := by
      obtain ⟨r, hr⟩ := next_some hI.g h3.1 hx
      exact mem_of_mem_aft (p := th.prev) (by rw [hr]; simp)
    split
    · rename_i hadv
      refine stepk_local hI rfl (fun h => h) (Nat.le_refl _) ⟨rfl, rfl⟩ (by simp) ?_
      simp only [TInvK, hpc]
      exact ⟨h1, h2, prevok_adv hI.g h1.uk h3.1 hx hadv, h4, h5⟩
    · rename_i hadv
      have hadv' : adv (rule cfg.multi) (s.core.key x) th.k = false := by simpa [advKey] using hadv
      have hcl : CurLe s.core th.k (some x) := ⟨not_adv_ge hadv', hI.g.mem_lt hxm⟩
      split
      · rename_i hhit
        -- unique container, level 0, equivalent key present
        have hok : (s.core.key x).ok = th.k.ok := by
          have := hhit.2; simp only [hit, Bool.and_eq_true, decide_eq_true_eq] at this; exact this.2
        have hkx := key_eq_of_ok hI.g h1.uk hok
        refine stepk_local hI rfl (fun h => h) (Nat.le_refl _) ⟨rfl, rfl⟩ ?_ (by simp [TInvK, Th.finish, afterDesc, hhit.1])
        intro r hr
        simp only [Option.some.injEq] at hr
        subst hr
        refine ⟨⟨by rw [← hhit.1]; exact hxm, by rw [hkx]; exact (ins_key h1.pos h1.uk).symm, ?_⟩, rfl⟩
        intro h0
        have := (hI.g.lv 0).key0
        have h00 : s.core.key 0 = ⟨0, 0⟩ := this
        rw [h0, h00] at hok
        have := h1.pos
        simp at hok; omega
      · rename_i hhit
        refine stepk_local hI rfl (fun h => h) (Nat.le_refl _) ⟨rfl, rfl⟩ (by simp) ?_
        show TInvK cfg s.core s.headSet s.maxh t (afterDesc th (s.core.next th.lvl th.prev))
        rw [hx]
        refine hdone (some x) hcl ?_
        intro hl hm y hy
        simp only [Option.some.injEq] at hy
        subst hy
        have hnh : hit (rule cfg.multi) (s.core.key x) th.k = false := by
          cases hh : hit (rule cfg.multi) (s.core.key x) th.k with
          | false => rfl
          | true => exact absurd ⟨hl, hh⟩ hhit
        simp only [rule, hm] at hadv' hnh
        exact stop_uniq hadv' hnh
  · rename_i hx
    refine stepk_local hI rfl (fun h => h) (Nat.le_refl _) ⟨rfl, rfl⟩ (by simp) ?_
    show TInvK cfg s.core s.headSet s.maxh t (afterDesc th (s.core.next th.lvl th.prev))
    rw [hx]
    exact hdone none trivial (by intro _ _ x hx; simp at hx)


/-- the link conditions on one level, from what the inserting thread knows -/
theorem linkok_level {c : Core} {hd : Bool} (g : KGood cfg c hd) {l : Nat} {new p : Node} {k : Key} {hgt : Nat}
    {cn : Option Node} (hown : Own c t new k hgt) (hnot : new ∉ c.chain l) (hp : PrevOk cfg c k l p) (hc : CurLe c k cn)
    (hnx : c.next l new = cn) (hcas : c.next l p = cn)
    (huq : rl cfg k = .uniq → ∀ x ∈ c.chain l, c.key x ≠ k) : LinkOk (rl cfg) (view c l) p new := by
  refine ⟨hp.1, hnot, hown.lt, by show c.next l new = c.next l p; rw [hnx, hcas], ?_, ?_, ?_⟩
  · show (c.key p).ok ≤ (c.key new).ok
    rw [hown.key]; exact hp.2.1
  · intro x hx
    show (c.key new).ok ≤ (c.key x).ok
    rw [hown.key]
    have hx' : x ∈ aft p (c.chain l) := hx
    cases hcn : cn with
    | none =>
      rw [hcn] at hcas
      rw [next_none g hp.1 hcas] at hx'; simp at hx'
    | some y =>
      rw [hcn] at hcas hc
      obtain ⟨r, hr⟩ := next_some g hp.1 hcas
      have hym : y ∈ c.chain l := mem_of_mem_aft (p := p) (by rw [hr]; simp)
      rw [hr] at hx'
      rcases List.mem_cons.mp hx' with h1 | h1
      · rw [h1]; exact hc.1
      · rw [← aft_step (g.lv l).nodup hr] at h1
        have := pairwise_aft (R := fun a b => (c.key a).ok ≤ (c.key b).ok) (g.lv l).sorted hym h1
        exact Nat.le_trans hc.1 this
  · intro hu x hx
    show c.key x ≠ c.key new
    rw [hown.key]
    exact huq (by have := hu; simpa [view, hown.key] using this) x hx

/-- unique containers: nothing with the key is on level 0 when the level-0 CAS succeeds -/
theorem uq_level0 {c : Core} {hd : Bool} (g : KGood cfg c hd) {p : Node} {k : Key} {cn : Option Node}
    (hm : cfg.multi = false) (hp : PrevOk cfg c k 0 p) (hcas : c.next 0 p = cn)
    (hstrict : ∀ y, cn = some y → k.ok < (c.key y).ok) : ∀ x ∈ c.chain 0, c.key x ≠ k := by
  intro x hx hkx
  have hplt := hp.2.2 hm
  have hne : p ≠ x := fun he => by rw [he, hkx] at hplt; omega
  rcases aft_total hp.1 hx hne with h1 | h1
  · cases hcn : cn with
    | none => rw [hcn] at hcas; rw [next_none g hp.1 hcas] at h1; simp at h1
    | some y =>
      rw [hcn] at hcas
      obtain ⟨r, hr⟩ := next_some g hp.1 hcas
      have hym : y ∈ c.chain 0 := mem_of_mem_aft (p := p) (by rw [hr]; simp)
      have hs := hstrict y hcn
      rw [hr] at h1
      rcases List.mem_cons.mp h1 with h2 | h2
      · rw [← h2, hkx] at hs; omega
      · rw [← aft_step (g.lv 0).nodup hr] at h2
        have := pairwise_aft (R := fun a b => (c.key a).ok ≤ (c.key b).ok) (g.lv 0).sorted hym h2
        rw [hkx] at this; omega
  · have := pairwise_aft (R := fun a b => (c.key a).ok ≤ (c.key b).ok) (g.lv 0).sorted hx h1
    rw [hkx] at this; omega


theorem ext_setnext {c : Core} (l : Nat) (n : Node) (v : Option Node) (i : Node → Nat) (hown : c.owner n = t) :
    Ext t c { c with next := upd2 c.next l n v, idx := i } := by
  refine ext_same rfl rfl rfl rfl rfl ?_
  intro l' x
  by_cases hc : l' = l ∧ x = n
  · right; rw [hc.2]; exact hown
  · left; simp [upd2, hc]

theorem kgood_setnext {c : Core} {hd : Bool} (g : KGood cfg c hd) (l : Nat) (n : Node) (v : Option Node) (i : Node → Nat)
    (hnot : n ∉ c.chain l) : KGood cfg { c with next := upd2 c.next l n v, idx := i } hd := by
  refine kgood_same g rfl rfl rfl rfl rfl ?_
  intro l' x hx
  have : ¬ (l' = l ∧ x = n) := fun hc => hnot (by rw [← hc.1, ← hc.2]; exact hx)
  simp [upd2, this]

theorem ext_linkrec {c : Core} (l : Nat) (p n : Node) (w : List Node) (hpm : p ∈ c.chain l) (hnn : n ∉ c.chain l)
    (hown : c.owner n = t) (hlt : n < c.fresh) :
    Ext t c { c with next := upd2 c.next l p (some n), chain := upd c.chain l (insAfter p n (c.chain l)), wins := w } :=
  ext_link l p n hpm hnn hown hlt rfl rfl rfl rfl (fun l' => rfl) (fun l' x => rfl)

theorem kgood_linkrec {c : Core} {hd : Bool} (g : KGood cfg c hd) (l : Nat) (p n : Node) (w : List Node)
    (hl : LinkOk (rl cfg) (view c l) p n) (hbelow : ∀ l', l' < l → n ∈ c.chain l') (hhn : l < c.height n)
    (hhd : l = 0 → hd = true) (hw : w = if l = 0 then n :: c.wins else c.wins) :
    KGood cfg { c with next := upd2 c.next l p (some n), chain := upd c.chain l (insAfter p n (c.chain l)), wins := w } hd :=
  kgood_link g l p n hl hbelow hhn hhd rfl rfl rfl (fun l' => rfl) (fun l' x => rfl) hw

theorem k_setNext0 (hI : KInv cfg s) (hpc : th.pc = .setNext0)
    (h : Own s.core t th.new th.k th.hgt ∧ NotIn s.core th.new 0 ∧ Rec cfg s.core th.k th.hgt th.prevs th.currs 0 ∧ 0 < th.hgt ∧
      (cfg.multi = false → ∀ c, th.currs 0 = some c → th.k.ok < (s.core.key c).ok) ∧ s.headSet = true) :
    StepOkK cfg s t (thStepCore cfg s t th) := by
  unfold thStepCore
  simp only [hpc]
  obtain ⟨h1, h2, h3, h4, h5, h6⟩ := h
  have he := ext_setnext (t := t) 0 th.new (th.currs 0) (upd s.core.idx th.new (if cfg.multi then s.core.idx (th.prevs 0) + 1 else s.core.idx th.new)) h1.own
  refine ⟨he, fun h => h, Nat.le_refl _, ?_, ?_, by simp, by simp [addLog], ⟨rfl, rfl⟩⟩
  · exact kgood_setnext hI.g 0 th.new _ _ (h2 0 (Nat.le_refl _))
  · simp only [TInvK]
    refine ⟨own_ext he h1, fun l hl => h2 l hl, rec_ext hI.g he h3, h4, ?_, by simp [upd2], h6⟩
    intro hm c hc
    exact h5 hm c hc

theorem k_cas0 (hI : KInv cfg s) (hpc : th.pc = .cas0)
    (h : Own s.core t th.new th.k th.hgt ∧ NotIn s.core th.new 0 ∧ Rec cfg s.core th.k th.hgt th.prevs th.currs 0 ∧ 0 < th.hgt ∧
      (cfg.multi = false → ∀ c, th.currs 0 = some c → th.k.ok < (s.core.key c).ok) ∧
      s.core.next 0 th.new = th.currs 0 ∧ s.headSet = true) : StepOkK cfg s t (thStepCore cfg s t th) := by
  unfold thStepCore
  simp only [hpc]
  obtain ⟨h1, h2, h3, h4, h5, h6, h7⟩ := h
  obtain ⟨hp, hc⟩ := h3 0 (Nat.le_refl _) h4
  split
  · rename_i hcas
    have hnot : th.new ∉ s.core.chain 0 := h2 0 (Nat.le_refl _)
    have hl : LinkOk (rl cfg) (view s.core 0) (th.prevs 0) th.new := by
      refine linkok_level hI.g h1 hnot hp hc h6 hcas ?_
      intro hu
      have hm : cfg.multi = false := by
        cases hmm : cfg.multi with
        | false => rfl
        | true => simp [rl, rule, hmm] at hu
      exact uq_level0 hI.g hm hp hcas (h5 hm)
    have hn0 : th.new ≠ 0 := fun he => hnot (he ▸ hI.g.head_mem 0)
    have he := ext_linkrec (t := t) 0 (th.prevs 0) th.new (th.new :: s.core.wins) hp.1 hnot h1.own h1.lt
    refine ⟨he, fun h => h, Nat.le_refl _, ?_, ?_, ?_, by simp [addLog, succNodeK], ⟨rfl, rfl⟩⟩
    · exact kgood_linkrec hI.g 0 (th.prevs 0) th.new _ hl (fun l' hl' => absurd hl' (Nat.not_lt_zero _))
        (by rw [h1.hgt]; exact h4) (fun _ => h7) rfl
    · simp only [TInvK]
      refine ⟨own_ext he h1, ?_, ?_, rec_mono (rec_ext hI.g he h3) (Nat.zero_le _)⟩
      · intro l hl
        have : l = 0 := by omega
        subst this
        show th.new ∈ upd s.core.chain 0 _ 0
        simp only [upd, ite_true]
        exact mem_insAfter.mpr (Or.inr ⟨rfl, hp.1⟩)
      · intro l hl
        show th.new ∉ upd s.core.chain 0 _ l
        have : l ≠ 0 := by omega
        simp only [upd, this, ite_false]
        exact h2 l (Nat.zero_le _)
    · intro r hr
      simp only [Option.some.injEq] at hr
      subst hr
      exact ⟨by simp, by show s.core.key th.new = _; rw [h1.key]; exact (ins_key h1.pos h1.uk).symm, h1.lt⟩
  · refine stepk_local hI rfl (fun h => h) (Nat.le_refl _) ⟨rfl, rfl⟩ (by simp) ?_
    simp only [TInvK]
    exact ⟨h1, h2, h7⟩


theorem upper_start {c : Core} {hd : Bool} {mh : Nat} (h1 : Own c t th.new th.k th.hgt) (h2 : InBelow c th.new 1)
    (h3 : NotIn c th.new 1) (h4 : Rec cfg c th.k th.hgt th.prevs th.currs 1) (m : Nat) :
    TInvK cfg c hd mh t { th with pc := if 1 < th.hgt then .setNextU else .szInc, level := 1, mh := m } := by
  by_cases hh : 1 < th.hgt
  · simp only [hh, ite_true, TInvK]
    exact ⟨h1, Nat.le_refl _, trivial, h2, h3, h4⟩
  · simp only [hh, ite_false, TInvK]

theorem k_ldMaxh2 (hI : KInv cfg s) (hpc : th.pc = .ldMaxh2)
    (h : Own s.core t th.new th.k th.hgt ∧ InBelow s.core th.new 1 ∧ NotIn s.core th.new 1 ∧
      Rec cfg s.core th.k th.hgt th.prevs th.currs 1) : StepOkK cfg s t (thStepCore cfg s t th) := by
  unfold thStepCore
  simp only [hpc]
  obtain ⟨h1, h2, h3, h4⟩ := h
  split
  · exact stepk_local hI rfl (fun h => h) (Nat.le_refl _) ⟨rfl, rfl⟩ (by simp) (upper_start h1 h2 h3 h4 _)
  · rename_i hh
    refine stepk_local hI rfl (fun h => h) (Nat.le_refl _) ⟨rfl, rfl⟩ (by simp) ?_
    simp only [TInvK]
    exact ⟨h1, h2, h3, h4, by omega⟩

theorem k_casMaxh (hI : KInv cfg s) (hpc : th.pc = .casMaxh)
    (h : Own s.core t th.new th.k th.hgt ∧ InBelow s.core th.new 1 ∧ NotIn s.core th.new 1 ∧
      Rec cfg s.core th.k th.hgt th.prevs th.currs 1 ∧ th.mh < th.hgt) : StepOkK cfg s t (thStepCore cfg s t th) := by
  unfold thStepCore
  simp only [hpc]
  obtain ⟨h1, h2, h3, h4, h5⟩ := h
  split
  · rename_i hc
    refine stepk_local hI rfl (fun h => h) (by show s.maxh ≤ th.hgt; omega) ⟨rfl, rfl⟩ (by simp) ?_
    have := upper_start (cfg := cfg) (hd := s.headSet) (mh := th.hgt) h1 h2 h3 h4 th.mh
    simpa using this
  · split
    · exact stepk_local hI rfl (fun h => h) (Nat.le_refl _) ⟨rfl, rfl⟩ (by simp) (upper_start h1 h2 h3 h4 _)
    · rename_i hh
      refine stepk_local hI rfl (fun h => h) (Nat.le_refl _) ⟨rfl, rfl⟩ (by simp) ?_
      simp only [TInvK, hpc]
      exact ⟨h1, h2, h3, h4, by omega⟩

theorem k_setNextU (hI : KInv cfg s) (hpc : th.pc = .setNextU)
    (h : Own s.core t th.new th.k th.hgt ∧ 1 ≤ th.level ∧ th.level < th.hgt ∧ InBelow s.core th.new th.level ∧
      NotIn s.core th.new th.level ∧ Rec cfg s.core th.k th.hgt th.prevs th.currs th.level) :
    StepOkK cfg s t (thStepCore cfg s t th) := by
  unfold thStepCore
  simp only [hpc]
  obtain ⟨h1, h2, h3, h4, h5, h6⟩ := h
  have he := ext_setnext (t := t) th.level th.new (th.currs th.level) s.core.idx h1.own
  refine ⟨he, fun h => h, Nat.le_refl _, ?_, ?_, by simp, by simp [addLog], ⟨rfl, rfl⟩⟩
  · exact kgood_setnext hI.g th.level th.new _ _ (h5 _ (Nat.le_refl _))
  · simp only [TInvK]
    exact ⟨own_ext he h1, h2, h3, inbelow_ext he h4, fun l hl => h5 l hl, rec_ext hI.g he h6, by simp [upd2]⟩

theorem rec_upd' {c : Core} {k : Key} {hgt : Nat} {prevs : Nat → Node} {currs : Nat → Option Node} {lo lvl : Nat} {p : Node}
    {cn : Option Node} (h : Rec cfg c k hgt prevs currs lo) (hp : PrevOk cfg c k lvl p) (hc : CurLe c k cn) :
    Rec cfg c k hgt (upd prevs lvl p) (upd currs lvl cn) lo := by
  intro l h1 h2
  by_cases hl : l = lvl
  · subst hl; simp only [upd, ite_true]; exact ⟨hp, hc⟩
  · simp only [upd, hl, ite_false]; exact h l h1 h2

theorem prevok_advnode {c : Core} {hd : Bool} (g : KGood cfg c hd) {k : Key} {l : Nat} {p x : Node} {ci ni : Nat}
    (hp : p ∈ c.chain l) (hn : c.next l p = some x) (hadv : advNode cfg.multi (c.key x) k ci ni = true) :
    PrevOk cfg c k l x := by
  obtain ⟨r, hr⟩ := next_some g hp hn
  refine ⟨mem_of_mem_aft (p := p) (by rw [hr]; simp), ?_, ?_⟩
  · unfold advNode at hadv
    split at hadv <;> simp at hadv <;> omega
  · intro hm
    simpa [advNode, hm] using hadv

theorem not_advnode_ge {multi : Bool} {ck k : Key} {ci ni : Nat} (h : advNode multi ck k ci ni = false) : k.ok ≤ ck.ok := by
  unfold advNode at h
  split at h <;> simp at h <;> omega

theorem k_casU (hI : KInv cfg s) (hpc : th.pc = .casU)
    (h : Own s.core t th.new th.k th.hgt ∧ 1 ≤ th.level ∧ th.level < th.hgt ∧ InBelow s.core th.new th.level ∧
      NotIn s.core th.new th.level ∧ Rec cfg s.core th.k th.hgt th.prevs th.currs th.level ∧
      s.core.next th.level th.new = th.currs th.level) : StepOkK cfg s t (thStepCore cfg s t th) := by
  unfold thStepCore
  simp only [hpc]
  obtain ⟨h1, h2, h3, h4, h5, h6, h7⟩ := h
  obtain ⟨hp, hc⟩ := h6 th.level (Nat.le_refl _) h3
  split
  · rename_i hcas
    have hnot : th.new ∉ s.core.chain th.level := h5 _ (Nat.le_refl _)
    have hn0m : th.new ∈ s.core.chain 0 := h4 0 (by omega)
    have hl : LinkOk (rl cfg) (view s.core th.level) (th.prevs th.level) th.new := by
      refine linkok_level hI.g h1 hnot hp hc h7 hcas ?_
      intro hu x hx hkx
      have hx0 := hI.g.sub0 _ x hx
      have := (hI.g.lv 0).uniq x hx0 th.new hn0m (by show s.core.key x = s.core.key th.new; rw [hkx, h1.key])
        (by show rl cfg (s.core.key x) = .uniq; exact hu)
      exact hnot (this ▸ hx)
    have he := ext_linkrec (t := t) th.level (th.prevs th.level) th.new s.core.wins hp.1 hnot h1.own h1.lt
    have hlv0 : th.level ≠ 0 := by omega
    refine ⟨he, fun h => h, Nat.le_refl _, ?_, ?_, by simp, by simp [addLog], ⟨rfl, rfl⟩⟩
    · exact kgood_linkrec hI.g th.level (th.prevs th.level) th.new _ hl (fun l' hl' => h4 l' hl')
        (by rw [h1.hgt]; exact h3) (fun h0 => absurd h0 hlv0) (by simp [hlv0])
    · by_cases hh : th.level + 1 < th.hgt
      · simp only [hh, ite_true, TInvK]
        refine ⟨own_ext he h1, by omega, trivial, ?_, ?_, rec_mono (rec_ext hI.g he h6) (Nat.le_succ _)⟩
        · intro l hl
          by_cases hll : l = th.level
          · subst hll
            show th.new ∈ upd s.core.chain _ _ _
            simp only [upd, ite_true]
            exact mem_insAfter.mpr (Or.inr ⟨rfl, hp.1⟩)
          · exact inbelow_ext he h4 l (by omega)
        · intro l hl
          show th.new ∉ upd s.core.chain th.level _ l
          have : l ≠ th.level := by omega
          simp only [upd, this, ite_false]
          exact h5 l (by omega)
      · simp only [hh, ite_false, TInvK]
  · refine stepk_local hI rfl (fun h => h) (Nat.le_refl _) ⟨rfl, rfl⟩ (by simp) ?_
    simp only [TInvK]
    exact ⟨h1, h2, h3, h4, h5, h6, Nat.le_refl _, h3, hp⟩

theorem k_refind (hI : KInv cfg s) (hpc : th.pc = .refind)
    (h : Own s.core t th.new th.k th.hgt ∧ 1 ≤ th.level ∧ th.level < th.hgt ∧ InBelow s.core th.new th.level ∧
      NotIn s.core th.new th.level ∧ Rec cfg s.core th.k th.hgt th.prevs th.currs th.level ∧ th.level ≤ th.lvl ∧
      th.lvl < th.hgt ∧ PrevOk cfg s.core th.k th.lvl th.prev) : StepOkK cfg s t (thStepCore cfg s t th) := by
  unfold thStepCore
  simp only [hpc]
  obtain ⟨h1, h2, h3, h4, h5, h6, h7, h8, h9⟩ := h
  have hstop : ∀ cn : Option Node, CurLe s.core th.k cn →
      TInvK cfg s.core s.headSet s.maxh t
        (if th.lvl + 1 < th.hgt then
          { th with pc := .refind, prevs := upd th.prevs th.lvl th.prev, currs := upd th.currs th.lvl cn, lvl := th.lvl + 1,
                    prev := upd th.prevs th.lvl th.prev (th.lvl + 1) }
         else { th with prevs := upd th.prevs th.lvl th.prev, currs := upd th.currs th.lvl cn, pc := .setNextU }) := by
    intro cn hcl
    have hrec := rec_upd' h6 h9 hcl
    by_cases hh : th.lvl + 1 < th.hgt
    · simp only [hh, ite_true, TInvK]
      refine ⟨h1, h2, h3, h4, h5, hrec, by omega, trivial, ?_⟩
      have hne : th.lvl + 1 ≠ th.lvl := by omega
      simp only [upd, hne, ite_false]
      exact (h6 (th.lvl + 1) (by omega) hh).1
    · simp only [hh, ite_false, TInvK]
      exact ⟨h1, h2, h3, h4, h5, hrec⟩
  split
  · rename_i x hx
    split
    · rename_i hadv
      refine stepk_local hI rfl (fun h => h) (Nat.le_refl _) ⟨rfl, rfl⟩ (by simp) ?_
      simp only [TInvK, hpc]
      exact ⟨h1, h2, h3, h4, h5, h6, h7, h8, prevok_advnode hI.g h9.1 hx hadv⟩
    · rename_i hadv
      have hxm : x ∈ s.core.chain th.lvl := by
        obtain ⟨r, hr⟩ := next_some hI.g h9.1 hx
        exact mem_of_mem_aft (p := th.prev) (by rw [hr]; simp)
      refine stepk_local hI rfl (fun h => h) (Nat.le_refl _) ⟨rfl, rfl⟩ (by simp) ?_
      have := hstop (some x) ⟨not_advnode_ge (by simpa using hadv), hI.g.mem_lt hxm⟩
      rw [← hx] at this
      exact this
  · rename_i hx
    refine stepk_local hI rfl (fun h => h) (Nat.le_refl _) ⟨rfl, rfl⟩ (by simp) ?_
    have := hstop none trivial
    rw [← hx] at this
    exact this

theorem k_szInc (hI : KInv cfg s) (hpc : th.pc = .szInc) : StepOkK cfg s t (thStepCore cfg s t th) := by
  unfold thStepCore
  simp only [hpc]
  exact stepk_local hI rfl (fun h => h) (Nat.le_refl _) ⟨rfl, rfl⟩ (by simp) (by simp [TInvK, Th.finish])


theorem find_key {k : Key} (hpos : 0 < k.ok) (huk : k.uk = 0) : k = ⟨k.ok - 1 + 1, 0⟩ := (ins_key hpos huk).symm

/-- a lookup that arrives at the end of level 0 without an equal key: the key was not there when it began -/
theorem lookup_end {c : Core} {hd : Bool} {mh : Nat} (g : KGood cfg c hd) {k : Key} {must : Bool} {prev : Node}
    {cn : Option Node} (hm : MustOk c mh k must) (hp : prev ∈ c.chain 0) (hlt : (c.key prev).ok < k.ok)
    (hn : c.next 0 prev = cn) (hgt : ∀ x, cn = some x → k.ok < (c.key x).ok) : must = false := by
  cases hmu : must with
  | false => rfl
  | true =>
    exfalso
    obtain ⟨⟨y, hy, hky⟩, _⟩ := hm.2.2 hmu
    have hya : y ∈ aft prev (c.chain 0) :=
      mem_aft_of_lt (f := fun a => (c.key a).ok) (g.lv 0).sorted hp hy (by rw [hky]; exact hlt)
    cases hcn : cn with
    | none => rw [hcn] at hn; rw [next_none g hp hn] at hya; simp at hya
    | some x =>
      rw [hcn] at hn
      obtain ⟨r, hr⟩ := next_some g hp hn
      have hxm : x ∈ c.chain 0 := mem_of_mem_aft (p := prev) (by rw [hr]; simp)
      have := hgt x hcn
      rw [hr] at hya
      rcases List.mem_cons.mp hya with h1 | h1
      · rw [← h1, hky] at this; omega
      · rw [← aft_step (g.lv 0).nodup hr] at h1
        have h2 := pairwise_aft (R := fun a b => (c.key a).ok ≤ (c.key b).ok) (g.lv 0).sorted hxm h1
        rw [hky] at h2; omega

theorem k_fLdHead (hI : KInv cfg s) (hpc : th.pc = .fLdHead) (h : MustOk s.core s.maxh th.k th.must ∧ th.oldc = none) :
    StepOkK cfg s t (thStepCore cfg s t th) := by
  unfold thStepCore
  simp only [hpc]
  split
  · refine stepk_local hI rfl (fun h => h) (Nat.le_refl _) ⟨rfl, rfl⟩ (by simp) ?_
    simp only [TInvK]
    exact ⟨h.1, h.2, trivial⟩
  · rename_i hh
    refine stepk_local hI rfl (fun h => h) (Nat.le_refl _) ⟨rfl, rfl⟩ ?_ (by simp [TInvK, Th.finish])
    intro r hr
    simp only [Option.some.injEq] at hr
    subst hr
    refine ⟨⟨?_, by simp⟩, rfl⟩
    intro hm
    exfalso
    obtain ⟨⟨y, hy, hky⟩, _⟩ := h.1.2.2 hm
    rw [hI.g.nohead (by simpa using hh)] at hy
    simp at hy
    have h00 : s.core.key 0 = ⟨0, 0⟩ := (hI.g.lv 0).key0
    rw [hy, h00] at hky
    have := h.1.1
    rw [← hky] at this; simp at this

theorem k_fLdMaxh (hI : KInv cfg s) (hpc : th.pc = .fLdMaxh)
    (h : MustOk s.core s.maxh th.k th.must ∧ th.oldc = none ∧ th.prev = 0) : StepOkK cfg s t (thStepCore cfg s t th) := by
  unfold thStepCore
  simp only [hpc]
  split
  · rename_i hh
    refine stepk_local hI rfl (fun h => h) (Nat.le_refl _) ⟨rfl, rfl⟩ ?_ (by simp [TInvK, Th.finish])
    intro r hr
    simp only [Option.some.injEq] at hr
    subst hr
    refine ⟨⟨?_, by simp⟩, rfl⟩
    intro hm
    have := (h.1.2.2 hm).2
    omega
  · refine stepk_local hI rfl (fun h => h) (Nat.le_refl _) ⟨rfl, rfl⟩ (by simp) ?_
    simp only [TInvK]
    have h00 : s.core.key 0 = ⟨0, 0⟩ := (hI.g.lv 0).key0
    refine ⟨h.1, by rw [h.2.2]; exact hI.g.head_mem _, by rw [h.2.2, h00]; exact h.1.1, ?_⟩
    intro c hc
    rw [h.2.1] at hc; simp at hc

theorem k_fdesc (hI : KInv cfg s) (hpc : th.pc = .fdesc)
    (h : MustOk s.core s.maxh th.k th.must ∧ th.prev ∈ s.core.chain th.lvl ∧ (s.core.key th.prev).ok < th.k.ok ∧
      (∀ c, th.oldc = some c → th.k.ok < (s.core.key c).ok ∧ c < s.core.fresh)) :
    StepOkK cfg s t (thStepCore cfg s t th) := by
  unfold thStepCore
  simp only [hpc]
  obtain ⟨h1, h2, h3, h4⟩ := h
  -- the level is finished with `cn` (nothing, or a node whose key is not below the wanted one)
  have hdone : ∀ cn : Option Node, s.core.next th.lvl th.prev = cn → (∀ x, cn = some x → th.k.ok ≤ (s.core.key x).ok) →
      StepOkK cfg s t
        (if cfg.multi = true then
          if cn ≠ th.oldc ∧ (match cn with | some c' => decide ((s.core.key c').ok ≤ th.k.ok) | none => false) = true then
            { st := s, th := th.finish,
              ev := some { kind := "load", var := nextVarL th.prev th.lvl, a := ptrName cn },
              res := some (.find (th.k.ok - 1) th.must cn) }
          else if th.lvl = 0 then
            { st := s, th := th.finish,
              ev := some { kind := "load", var := nextVarL th.prev th.lvl, a := ptrName cn },
              res := some (.find (th.k.ok - 1) th.must none) }
          else { st := s, th := { th with lvl := th.lvl - 1, oldc := cn },
                 ev := some { kind := "load", var := nextVarL th.prev th.lvl, a := ptrName cn } }
        else
          if th.lvl = 0 then
            { st := s, th := th.finish,
              ev := some { kind := "load", var := nextVarL th.prev th.lvl, a := ptrName cn },
              res := some (.find (th.k.ok - 1) th.must
                (if (match cn with | some c' => decide ((s.core.key c').ok ≤ th.k.ok) | none => false) = true then cn else none)) }
          else { st := s, th := { th with lvl := th.lvl - 1 },
                 ev := some { kind := "load", var := nextVarL th.prev th.lvl, a := ptrName cn } }) := by
    intro cn hcn hge
    -- facts about `cn`
    have hmem : ∀ x, cn = some x → x ∈ s.core.chain th.lvl := by
      intro x hx
      rw [hx] at hcn
      obtain ⟨r, hr⟩ := next_some hI.g h2 hcn
      exact mem_of_mem_aft (p := th.prev) (by rw [hr]; simp)
    have hfound : ∀ x, cn = some x → (s.core.key x).ok ≤ th.k.ok → x ∈ s.core.chain 0 ∧ s.core.key x = ⟨th.k.ok - 1 + 1, 0⟩ := by
      intro x hx hle
      have := hge x hx
      refine ⟨hI.g.sub0 _ x (hmem x hx), ?_⟩
      rw [key_eq_of_ok hI.g h1.2.1 (by omega)]
      exact find_key h1.1 h1.2.1
    have hdown : th.lvl ≠ 0 → th.prev ∈ s.core.chain (th.lvl - 1) := by
      intro hl
      obtain ⟨l', hl'⟩ : ∃ l', th.lvl = l' + 1 := ⟨th.lvl - 1, by omega⟩
      have : th.lvl - 1 = l' := by omega
      rw [this]; rw [hl'] at h2; exact hI.g.sub l' _ h2
    have hres_none : th.lvl = 0 → (∀ x, cn = some x → th.k.ok < (s.core.key x).ok) →
        ResOkK s.core (.find (th.k.ok - 1) th.must none) := by
      intro hl hgt
      rw [hl] at h2 hcn
      exact ⟨fun hm => by rw [lookup_end hI.g h1 h2 h3 hcn hgt] at hm; simp at hm, by simp⟩
    -- the `found(curr, key)` test as a Boolean with its meaning
    generalize hq : (match cn with | some c' => decide ((s.core.key c').ok ≤ th.k.ok) | none => false) = eqb
    have heqb : eqb = true → ∃ x, cn = some x ∧ (s.core.key x).ok ≤ th.k.ok := by
      intro he
      cases hcc : cn with
      | none => rw [hcc] at hq; rw [← hq] at he; simp at he
      | some x => rw [hcc] at hq; rw [← hq] at he; exact ⟨x, rfl, by simpa using he⟩
    have hneqb : eqb = false → ∀ x, cn = some x → th.k.ok < (s.core.key x).ok := by
      intro he x hx
      rw [hx] at hq
      rw [← hq] at he
      have : ¬ (s.core.key x).ok ≤ th.k.ok := by simpa using he
      omega
    by_cases hm : cfg.multi = true
    · rw [if_pos hm]
      by_cases hc : cn ≠ th.oldc ∧ eqb = true
      · rw [if_pos hc]
        refine stepk_local hI rfl (fun h => h) (Nat.le_refl _) ⟨rfl, rfl⟩ ?_ (by simp [TInvK, Th.finish])
        intro r hr
        simp only [Option.some.injEq] at hr
        subst hr
        obtain ⟨x, hx, hle⟩ := heqb hc.2
        refine ⟨⟨by rw [hx]; simp, ?_⟩, rfl⟩
        intro n hn
        rw [hx] at hn
        simp only [Option.some.injEq] at hn
        subst hn
        exact hfound _ hx hle
      · rw [if_neg hc]
        -- `cn` is not an equal key: it is nothing or strictly greater
        have hgt : ∀ x, cn = some x → th.k.ok < (s.core.key x).ok := by
          intro x hx
          cases he : eqb with
          | false => exact hneqb he x hx
          | true =>
            exfalso
            apply hc
            refine ⟨?_, he⟩
            intro heq
            obtain ⟨y, hy, hle⟩ := heqb he
            rw [hy] at heq
            have := (h4 y heq.symm).1
            omega
        by_cases hl : th.lvl = 0
        · rw [if_pos hl]
          refine stepk_local hI rfl (fun h => h) (Nat.le_refl _) ⟨rfl, rfl⟩ ?_ (by simp [TInvK, Th.finish])
          intro r hr
          simp only [Option.some.injEq] at hr
          subst hr
          exact ⟨hres_none hl hgt, rfl⟩
        · rw [if_neg hl]
          refine stepk_local hI rfl (fun h => h) (Nat.le_refl _) ⟨rfl, rfl⟩ (by simp) ?_
          simp only [TInvK, hpc]
          refine ⟨h1, hdown hl, h3, ?_⟩
          intro x hx
          exact ⟨hgt x hx, hI.g.mem_lt (hmem x hx)⟩
    · rw [if_neg hm]
      by_cases hl : th.lvl = 0
      · rw [if_pos hl]
        refine stepk_local hI rfl (fun h => h) (Nat.le_refl _) ⟨rfl, rfl⟩ ?_ (by simp [TInvK, Th.finish])
        intro r hr
        simp only [Option.some.injEq] at hr
        subst hr
        refine ⟨?_, rfl⟩
        cases he : eqb with
        | true =>
          obtain ⟨x, hx, hle⟩ := heqb he
          simp only [ite_true]
          refine ⟨by rw [hx]; simp, ?_⟩
          intro n hn
          rw [hx] at hn
          simp only [Option.some.injEq] at hn
          subst hn
          exact hfound _ hx hle
        | false =>
          simp only [Bool.false_eq_true, ite_false]
          exact hres_none hl (hneqb he)
      · rw [if_neg hl]
        refine stepk_local hI rfl (fun h => h) (Nat.le_refl _) ⟨rfl, rfl⟩ (by simp) ?_
        simp only [TInvK, hpc]
        exact ⟨h1, hdown hl, h3, h4⟩
  cases hx : s.core.next th.lvl th.prev with
  | some x =>
    simp only []
    by_cases hlt : (s.core.key x).ok < th.k.ok
    · rw [if_pos hlt]
      have hxm : x ∈ s.core.chain th.lvl := by
        obtain ⟨r, hr⟩ := next_some hI.g h2 hx
        exact mem_of_mem_aft (p := th.prev) (by rw [hr]; simp)
      refine stepk_local hI rfl (fun h => h) (Nat.le_refl _) ⟨rfl, rfl⟩ (by simp) ?_
      simp only [TInvK, hpc]
      exact ⟨h1, hxm, hlt, h4⟩
    · rw [if_neg hlt]
      have hd := hdone (some x) hx (by intro y hy; simp only [Option.some.injEq] at hy; subst hy; omega)
      simp only [hpc] at hd
      exact hd
  | none =>
    simp only []
    have hd := hdone none hx (by intro y hy; simp at hy)
    simp only [hpc] at hd
    exact hd

theorem k_tLdHead (hI : KInv cfg s) (hpc : th.pc = .tLdHead)
    (h0 : TrInv (view s.core 0) th.prev th.seen th.snap ∧ th.prev = 0 ∧ th.seen = [0]) :
    StepOkK cfg s t (thStepCore cfg s t th) := by
  obtain ⟨h, hp⟩ := h0
  unfold thStepCore
  simp only [hpc]
  split
  · exact stepk_local hI rfl (fun h => h) (Nat.le_refl _) ⟨rfl, rfl⟩ (by simp) (by simp only [TInvK]; exact h)
  · rename_i hh
    refine stepk_local hI rfl (fun h => h) (Nat.le_refl _) ⟨rfl, rfl⟩ ?_ (by simp [TInvK, Th.finish])
    intro r hr
    simp only [Option.some.injEq] at hr
    subst hr
    have hc := hI.g.nohead (by simpa using hh)
    refine ⟨⟨by rw [hc]; exact List.Sublist.refl _, ?_⟩, rfl⟩
    intro x hx
    rcases h.cover x hx with h1 | h1
    · rw [hp.2] at h1; exact h1
    · have : aft th.prev (s.core.chain 0) = [] := by rw [hc, hp.1]; simp [aft]
      have h1' : x ∈ aft th.prev (s.core.chain 0) := h1
      rw [this] at h1'; simp at h1'

theorem k_twalk (hI : KInv cfg s) (hpc : th.pc = .twalk) (h : TrInv (view s.core 0) th.prev th.seen th.snap) :
    StepOkK cfg s t (thStepCore cfg s t th) := by
  unfold thStepCore
  simp only [hpc]
  split
  · rename_i x hx
    refine stepk_local hI rfl (fun h => h) (Nat.le_refl _) ⟨rfl, rfl⟩ ?_ (by simp [TInvK, Th.finish])
    intro r hr
    simp only [Option.some.injEq] at hr
    subst hr
    exact ⟨trinv_end (hI.g.lv 0) h hx, rfl⟩
  · rename_i x hx
    refine stepk_local hI rfl (fun h => h) (Nat.le_refl _) ⟨rfl, rfl⟩ (by simp) ?_
    simp only [TInvK, hpc]
    exact trinv_adv (hI.g.lv 0) h hx


theorem k_step_ok (hI : KInv cfg s) (h : TInvK cfg s.core s.headSet s.maxh t th) : StepOkK cfg s t (thStepCore cfg s t th) := by
  unfold TInvK at h
  cases hpc : th.pc <;> simp only [hpc] at h
  · exact k_idle hI hpc
  · exact k_ldHead hI hpc h
  · exact k_casHead hI hpc h
  · exact k_ldMaxh hI hpc h
  · exact k_desc hI hpc h
  · exact k_setNext0 hI hpc h
  · exact k_cas0 hI hpc h
  · exact k_ldMaxh2 hI hpc h
  · exact k_casMaxh hI hpc h
  · exact k_setNextU hI hpc h
  · exact k_casU hI hpc h
  · exact k_refind hI hpc h
  · exact k_szInc hI hpc
  · exact k_fLdHead hI hpc h
  · exact k_fLdMaxh hI hpc h
  · exact k_fdesc hI hpc h
  · exact k_tLdHead hI hpc h
  · exact k_twalk hI hpc h

/-! ### the system invariant -/

theorem kgood_init (cfg : Cfg) : KGood cfg ({} : Core) false := by
  have g0 : Good (rl cfg) ({} : LSt) := good_init _
  refine ⟨fun _ => rfl, fun l => ?_, ?_, ?_, fun _ => rfl, ?_, by simp⟩
  · exact good_congr g0 (fun _ _ => rfl) rfl rfl rfl rfl
  · intro l x hx; exact hx
  · intro l x hx hx0
    have : x = 0 := by simpa using hx
    exact absurd this hx0
  · intro x; simp

theorem kinv_init (cfg : Cfg) (progs : List (List Op)) : KInv cfg (initSt progs) := by
  refine ⟨kgood_init cfg, ?_, by simp [initSt], by simp [initSt]⟩
  intro t th hth
  simp only [initSt, List.getElem?_map, Option.map_eq_some_iff] at hth
  obtain ⟨p, _, hp⟩ := hth
  subst hp
  simp [TInvK]

/-- the invariant survives any step whose outcome satisfies `StepOkK` -/
theorem kinv_of_stepok {cfg : Cfg} {s : St} {t : Tid} {th : Th} {o : Out} (h : KInv cfg s) (hth : s.ths[t]? = some th)
    (so : StepOkK cfg s t o) :
    KInv cfg { o.st with ths := s.ths.set t o.th, log := addLog s.log t o.res } := by
  have hwins : ∀ x ∈ s.core.wins, x ∈ o.st.core.wins := by
    intro x hx; rw [so.wins]; exact List.mem_append_right _ hx
  refine ⟨so.kgood, ?_, ?_, ?_⟩
  · intro u thu hu
    simp only at hu
    rw [List.getElem?_set] at hu
    by_cases hut : t = u
    · subst hut
      have hlt : t < s.ths.length := by
        rcases List.getElem?_eq_some_iff.mp hth with ⟨hl, _⟩; exact hl
      simp only [hlt, ite_true, Option.some.injEq] at hu
      subst hu
      exact so.tinv
    · simp only [hut, ite_false] at hu
      exact tinvk_ext h.g so.ext (Ne.symm hut) so.head so.mh (h.tinv u thu hu)
  · intro e he
    simp only at he
    cases hres : o.res with
    | none =>
      rw [hres] at he
      exact resokk_ext h.g so.ext hwins (h.logok e he)
    | some r =>
      rw [hres] at he
      simp only [addLog, List.mem_cons] at he
      rcases he with he | he
      · subst he; exact so.res r hres
      · exact resokk_ext h.g so.ext hwins (h.logok e he)
  · simp only
    rw [so.wins, h.wins]
    cases hres : o.res with
    | none => simp [addLog]
    | some r => simp only [addLog]; rw [← List.filterMap_append]; rfl

end SkipList
end TbbVerif.C12
