/-
C12 — consequences of the CAS-list invariant used by the property theorems.
-/
import TbbVerif.Proofs.C12.CasListSys

namespace TbbVerif.C12
open CasList

/-- following the `next` pointers from a member of the chain yields exactly the rest of the ghost chain -/
theorem follow_aft {rule} {L : LSt} (g : Good rule L) :
    ∀ (n : Nat) (x : Node), x ∈ L.chain → (aft x L.chain).length = n →
      ∀ fuel, n + 1 ≤ fuel → follow L.next fuel x = x :: aft x L.chain := by
  intro n
  induction n with
  | zero =>
    intro x hx hl fuel hf
    obtain ⟨f, rfl⟩ : ∃ f, fuel = f + 1 := ⟨fuel - 1, by omega⟩
    have hnil : aft x L.chain = [] := List.eq_nil_of_length_eq_zero hl
    have := g.linked x hx
    rw [hnil] at this
    simp [follow, this, hnil]
  | succ n ih =>
    intro x hx hl fuel hf
    obtain ⟨f, rfl⟩ : ∃ f, fuel = f + 1 := ⟨fuel - 1, by omega⟩
    cases ha : aft x L.chain with
    | nil => rw [ha] at hl; simp at hl
    | cons c r =>
      have hn := g.linked x hx
      rw [ha] at hn hl
      simp only [List.head?_cons] at hn
      have hc : c ∈ L.chain := mem_of_mem_aft (p := x) (by rw [ha]; simp)
      have hr := aft_step g.nodup ha
      have := ih c hc (by rw [hr]; simpa using hl) f (by omega)
      simp only [follow, hn, this, hr]

theorem follow_chain {rule} {L : LSt} (g : Good rule L) : follow L.next L.chain.length 0 = L.chain := by
  have h := g.chain_eq
  have hl : L.chain.length = (aft 0 L.chain).length + 1 := by
    have := congrArg List.length h
    simpa using this
  have := follow_aft g (aft 0 L.chain).length 0 g.head_mem rfl L.chain.length (by omega)
  rw [this, ← h]

/-- a duplicate-free list whose members are pairwise identified has at most one member -/
theorem length_le_one_of_all_eq {l : List Node} (hn : l.Nodup) (h : ∀ a ∈ l, ∀ b ∈ l, a = b) : l.length ≤ 1 := by
  match l, hn, h with
  | [], _, _ => simp
  | [_], _, _ => simp
  | a :: b :: r, hn, h =>
    exfalso
    have := h a (by simp) b (by simp)
    subst this
    simp at hn

theorem filter_succ_length (k : Key) (log : List (Tid × Res)) :
    ((log.filter (isSucc k)).filterMap succNode).length = (log.filter (isSucc k)).length := by
  induction log with
  | nil => rfl
  | cons e es ih =>
    simp only [List.filter_cons]
    split
    · rename_i he
      obtain ⟨t, r⟩ := e
      cases r with
      | ins k' ok n =>
        cases ok with
        | true => simp [succNode, ih]
        | false => simp [isSucc] at he
      | find _ _ _ => simp [isSucc] at he
      | trav _ _ => simp [isSucc] at he
      | misuse => simp [isSucc] at he
      | touched _ => simp [isSucc] at he
      | broken _ => simp [isSucc] at he
      | sized _ => simp [isSucc] at he
      | threw => simp [isSucc] at he
      | count _ _ _ _ => simp [isSucc] at he
    · exact ih

/-- the part of the invariant the winner count needs -/
structure InvCore (rule : Key → Rule) (s : St) : Prop where
  good : Good rule s.L
  logok : ∀ e ∈ s.log, ResOk s.L e.1 e.2
  wins : s.L.wins = s.log.filterMap succNode

/-- at most one insert of a unique key reports success; if any insert of it has completed, exactly one did -/
theorem one_winner_core {rule} {L : LSt} {log : List (Tid × Res)} (g : Good rule L)
    (hlog : ∀ e ∈ log, ResOk L e.1 e.2) (hw : L.wins = log.filterMap succNode) (k : Key) (hk : rule k = .uniq) :
    (log.filter (isSucc k)).length ≤ 1 ∧
    (log.any (isIns k) = true → (log.filter (isSucc k)).length = 1) := by
  let s : St := { L := L, ths := [], log := log }
  have h : InvCore rule s := ⟨g, hlog, hw⟩
  show (s.log.filter (isSucc k)).length ≤ 1 ∧ (s.log.any (isIns k) = true → (s.log.filter (isSucc k)).length = 1)
  have hsub : ((s.log.filter (isSucc k)).filterMap succNode).Sublist s.L.wins := by
    rw [h.wins]
    exact List.Sublist.filterMap _ List.filter_sublist
  have hnd := hsub.nodup h.good.wins_nodup
  have hall : ∀ n ∈ (s.log.filter (isSucc k)).filterMap succNode, n ∈ s.L.chain ∧ s.L.key n = k := by
    intro n hn
    simp only [List.mem_filterMap, List.mem_filter] at hn
    obtain ⟨⟨t, r⟩, ⟨hmem, hs⟩, hsn⟩ := hn
    cases r with
    | ins k' ok n' =>
      cases ok with
      | true =>
        simp only [isSucc, decide_eq_true_eq] at hs
        simp only [succNode, Option.some.injEq] at hsn
        subst hs; subst hsn
        have := h.logok _ hmem
        exact ⟨(h.good.wins_mem _).mpr (Or.inr this.1), this.2.1⟩
      | false => simp [isSucc] at hs
    | find _ _ _ => simp [isSucc] at hs
    | trav _ _ => simp [isSucc] at hs
    | misuse => simp [isSucc] at hs
    | touched _ => simp [isSucc] at hs
    | broken _ => simp [isSucc] at hs
    | sized _ => simp [isSucc] at hs
    | threw => simp [isSucc] at hs
    | count _ _ _ _ => simp [isSucc] at hs
  have hle : (s.log.filter (isSucc k)).length ≤ 1 := by
    rw [← filter_succ_length]
    refine length_le_one_of_all_eq hnd ?_
    intro a ha b hb
    obtain ⟨ha1, ha2⟩ := hall a ha
    obtain ⟨hb1, hb2⟩ := hall b hb
    exact h.good.uniq a ha1 b hb1 (by rw [ha2, hb2]) (by rw [ha2]; exact hk)
  refine ⟨hle, ?_⟩
  intro hany
  simp only [List.any_eq_true] at hany
  obtain ⟨⟨t, r⟩, hmem, hi⟩ := hany
  -- a completed insert of `k` leaves a node with key `k` in the list; that node was linked by a logged success
  have hnode : ∃ n, n ∈ s.L.wins ∧ s.L.key n = k := by
    cases r with
    | ins k' ok n =>
      simp only [isIns, decide_eq_true_eq] at hi
      subst hi
      have hr := h.logok _ hmem
      cases ok with
      | true => exact ⟨n, hr.1, hr.2.1⟩
      | false =>
        obtain ⟨h1, h2, h3⟩ := hr
        rcases (h.good.wins_mem n).mp h1 with h0 | hw
        · exact absurd h0 h3
        · exact ⟨n, hw, h2⟩
    | find _ _ _ => simp [isIns] at hi
    | trav _ _ => simp [isIns] at hi
    | misuse => simp [isIns] at hi
    | touched _ => simp [isIns] at hi
    | broken _ => simp [isIns] at hi
    | sized _ => simp [isIns] at hi
    | threw => simp [isIns] at hi
    | count _ _ _ _ => simp [isIns] at hi
  obtain ⟨n, hw, hkn⟩ := hnode
  rw [h.wins] at hw
  simp only [List.mem_filterMap] at hw
  obtain ⟨⟨t', r'⟩, hmem', hsn⟩ := hw
  have hin : (t', r') ∈ s.log.filter (isSucc k) := by
    cases r' with
    | ins k' ok n' =>
      cases ok with
      | true =>
        simp only [succNode, Option.some.injEq] at hsn
        subst hsn
        have := h.logok _ hmem'
        simp only [List.mem_filter, isSucc, decide_eq_true_eq]
        exact ⟨hmem', by rw [← this.2.1, hkn]⟩
      | false => simp [succNode] at hsn
    | find _ _ _ => simp [succNode] at hsn
    | trav _ _ => simp [succNode] at hsn
    | misuse => simp [succNode] at hsn
    | touched _ => simp [succNode] at hsn
    | broken _ => simp [succNode] at hsn
    | sized _ => simp [succNode] at hsn
    | threw => simp [succNode] at hsn
    | count _ _ _ _ => simp [succNode] at hsn
  have : 0 < (s.log.filter (isSucc k)).length := List.length_pos_of_mem hin
  omega

theorem one_winner {rule} {s : St} (h : Inv rule s) (k : Key) (hk : rule k = .uniq) :
    (s.log.filter (isSucc k)).length ≤ 1 ∧
    (s.log.any (isIns k) = true → (s.log.filter (isSucc k)).length = 1) :=
  one_winner_core h.good h.logok h.wins k hk

/-- the list only grows, and the keys of its members never change -/
theorem chain_mono_step {rule} {s : St} (h : Inv rule s) (t : Tid) :
    s.L.chain.Sublist (step rule s t).L.chain ∧ (∀ x ∈ s.L.chain, (step rule s t).L.key x = s.L.key x) ∧
    (∀ e ∈ s.log, e ∈ (step rule s t).log) := by
  unfold step
  cases hth : s.ths[t]? with
  | none => simp
  | some th =>
    simp only
    have so := step_ok h.good h.contig (h.tinv t th hth)
    refine ⟨chain_sub_apply, fun x hx => key_apply x (h.good.alloc x hx) so.act, ?_⟩
    intro e he
    cases hres : (thStep rule s.L t th).res <;> simp [addLog, he]

theorem chain_mono {rule} (progs : List (List Op)) (more : List Tid) : ∀ {s : St}, Inv rule s →
    s.L.chain.Sublist ((sys rule progs).runFrom s more).L.chain ∧
    (∀ x ∈ s.L.chain, ((sys rule progs).runFrom s more).L.key x = s.L.key x) ∧
    (∀ e ∈ s.log, e ∈ ((sys rule progs).runFrom s more).log) := by
  induction more with
  | nil => intro s _; simp
  | cons t ts ih =>
    intro s h
    simp only [Sys.runFrom_cons]
    have h1 := chain_mono_step h t
    have h2 := ih (inv_step rule s t h)
    change _ ∧ _ ∧ _ at h2
    simp only [sys] at h2 ⊢
    refine ⟨h1.1.trans h2.1, ?_, fun e he => h2.2.2 e (h1.2.2 e he)⟩
    intro x hx
    rw [h2.2.1 x (h1.1.subset hx), h1.2.1 x hx]

end TbbVerif.C12
