/-
C12 — the inductive invariant of the CAS list (any number of threads, every schedule).

`Good`   : the shared list is well formed (pointers = ghost chain, sorted, unique keys, contents = head + wins).
`TInv`   : what a thread in the middle of an operation knows (its `prev` is in the list, keys equal to its own are
           behind `prev`, its private node is still private, a traversal's progress …).
`ActOk`  : side conditions under which an action of one thread preserves `Good` and every other thread's `TInv`.
-/
import TbbVerif.Proofs.C12.ListLib

namespace TbbVerif.C12
open CasList

/-! ### facts about the walk rule -/

theorem adv_le {r : Rule} {c k : Key} (h : adv r c k = true) : c.ok ≤ k.ok := by
  cases r <;> simp [adv] at h <;> omega

theorem not_adv_ge {r : Rule} {c k : Key} (h : adv r c k = false) : k.ok ≤ c.ok := by
  cases r <;> simp [adv] at h <;> omega

theorem adv_self_false {r : Rule} {k : Key} (hr : r ≠ .after) : adv r k k = false := by
  cases r <;> simp [adv] at hr ⊢

theorem stop_uniq {c k : Key} (h1 : adv .uniq c k = false) (h2 : hit .uniq c k = false) : k.ok < c.ok := by
  simp [adv, hit] at h1 h2; omega

theorem stop_after {c k : Key} (h1 : adv .after c k = false) : k.ok < c.ok := by
  simp [adv] at h1; omega

theorem stop_before {c k : Key} (h1 : adv .before c k = false) : k.ok < c.ok ∨ c = k := by
  simp [adv] at h1
  by_cases h : c.ok = k.ok
  · right
    cases c; cases k
    simp at h ⊢
    exact ⟨h, h1.2 h⟩
  · left; omega

theorem hit_eq {c k : Key} (h1 : adv .uniq c k = false) (h2 : hit .uniq c k = true) : c = k := by
  simp [adv, hit] at h1 h2
  cases c; cases k
  simp at h1 h2 ⊢
  exact ⟨h2, h1.2 h2⟩

theorem key_eq_of_not_adv {r : Rule} {c k : Key} (hr : r ≠ .after) (hadv : adv r c k = false) (hok : c.ok = k.ok) : c = k := by
  cases c; cases k
  cases r <;> simp [adv] at hadv hr hok ⊢ <;> exact ⟨hok, hadv.2 hok⟩

/-! ### the shared list -/

structure Good (rule : Key → Rule) (L : LSt) : Prop where
  nodup : L.chain.Nodup
  head : L.chain.head? = some 0
  linked : ∀ x ∈ L.chain, L.next x = (aft x L.chain).head?
  sorted : L.chain.Pairwise (fun a b => (L.key a).ok ≤ (L.key b).ok)
  uniq : ∀ a ∈ L.chain, ∀ b ∈ L.chain, L.key a = L.key b → rule (L.key a) = .uniq → a = b
  alloc : ∀ x ∈ L.chain, x < L.fresh
  wins_mem : ∀ x, x ∈ L.chain ↔ x = 0 ∨ x ∈ L.wins
  wins_nodup : L.wins.Nodup
  head_not_win : 0 ∉ L.wins
  key0 : L.key 0 = ⟨0, 0⟩

theorem Good.head_mem {rule} {L : LSt} (g : Good rule L) : 0 ∈ L.chain := by
  have := g.head
  cases h : L.chain with
  | nil => simp [h] at this
  | cons y ys => simp [h] at this; simp [this]

theorem Good.chain_eq {rule} {L : LSt} (g : Good rule L) : L.chain = 0 :: aft 0 L.chain := by
  have := g.head
  cases h : L.chain with
  | nil => simp [h] at this
  | cons y ys => simp [h] at this; subst this; simp [aft]

theorem good_init (rule : Key → Rule) : Good rule ({} : LSt) := by
  refine ⟨by simp, by simp, ?_, by simp, ?_, by simp, by simp, by simp, by simp, rfl⟩
  · intro x hx; simp at hx; subst hx; simp [aft]
  · intro a ha b hb _ _; simp at ha hb; omega

structure LinkOk (rule : Key → Rule) (L : LSt) (p n : Node) : Prop where
  p_mem : p ∈ L.chain
  n_notin : n ∉ L.chain
  n_lt : n < L.fresh
  n_next : L.next n = L.next p
  le : (L.key p).ok ≤ (L.key n).ok
  ge : ∀ x ∈ aft p L.chain, (L.key n).ok ≤ (L.key x).ok
  uq : rule (L.key n) = .uniq → ∀ x ∈ L.chain, L.key x ≠ L.key n

/-- what the other walkers of the same key need from a link (not needed for keys with rule `after`) -/
def LinkSide (rule : Key → Rule) (L : LSt) (p n : Node) : Prop :=
  (∀ x ∈ aft p L.chain, (L.key n).ok < (L.key x).ok) ∨
  (rule (L.key n) = .before ∧ ∃ c r, aft p L.chain = c :: r ∧ L.key c = L.key n)

/-- what a link has to respect so that equivalent `before`-rule keys stay contiguous: a `before` node goes directly in
front of an equivalent key or there is none, and no link separates two adjacent nodes with the same key by another key -/
structure LinkContig (rule : Key → Rule) (L : LSt) (p n : Node) : Prop where
  c1 : rule (L.key n) = .before →
    (∃ c r, aft p L.chain = c :: r ∧ L.key c = L.key n) ∨ (∀ x ∈ L.chain, L.key x ≠ L.key n)
  c2 : ∀ c r, aft p L.chain = c :: r → L.key p = L.key c → L.key n = L.key p

def ActOk (rule : Key → Rule) (L : LSt) (t : Tid) : Act → Prop
  | .nop => True
  | .alloc _ t' => t' = t
  | .setNext n _ => L.owner n = t ∧ n ∉ L.chain ∧ n < L.fresh
  | .link p n => L.owner n = t ∧ LinkOk rule L p n ∧ LinkSide rule L p n ∧ LinkContig rule L p n

theorem good_link {rule} {L : LSt} {p n : Node} (g : Good rule L) (h : LinkOk rule L p n) :
    Good rule (L.apply (.link p n)) := by
  have hnp : n ≠ p := fun he => h.n_notin (he ▸ h.p_mem)
  have hn0 : n ≠ 0 := fun he => h.n_notin (he ▸ g.head_mem)
  refine ⟨?_, ?_, ?_, ?_, ?_, ?_, ?_, ?_, ?_, g.key0⟩
  · exact nodup_insAfter g.nodup h.n_notin
  · simp only [LSt.apply, head?_insAfter]; exact g.head
  · intro x hx
    simp only [LSt.apply] at hx ⊢
    by_cases hxp : x = p
    · subst hxp
      simp [upd, aft_insAfter_self h.p_mem]
    · by_cases hxn : x = n
      · subst hxn
        simp only [upd, hxp, ite_false]
        rw [aft_insAfter_new h.n_notin h.p_mem, h.n_next, g.linked p h.p_mem]
      · have hxm : x ∈ L.chain := by
          rcases mem_insAfter.mp hx with h1 | h1
          · exact h1
          · exact absurd h1.1 hxn
        simp only [upd, hxp, ite_false]
        by_cases hpa : p ∈ aft x L.chain
        · rw [aft_insAfter_mem g.nodup hxp hxn hpa, head?_insAfter, g.linked x hxm]
        · rw [aft_insAfter_not hxp hxn hpa, g.linked x hxm]
  · simp only [LSt.apply]
    exact pairwise_insAfter g.sorted h.le h.ge (fun x hx => Nat.le_trans hx h.le)
  · intro a ha b hb hk hr
    simp only [LSt.apply] at ha hb hk hr
    rcases mem_insAfter.mp ha with ha | ha
    · rcases mem_insAfter.mp hb with hb | hb
      · exact g.uniq a ha b hb hk hr
      · rw [hb.1] at hk
        exact absurd hk (h.uq (by rw [← hk]; exact hr) a ha)
    · rcases mem_insAfter.mp hb with hb | hb
      · rw [ha.1] at hk hr
        exact absurd hk.symm (h.uq hr b hb)
      · rw [ha.1, hb.1]
  · intro x hx
    simp only [LSt.apply] at hx ⊢
    rcases mem_insAfter.mp hx with h1 | h1
    · exact g.alloc x h1
    · rw [h1.1]; exact h.n_lt
  · intro x
    simp only [LSt.apply, mem_insAfter, List.mem_cons, g.wins_mem]
    constructor
    · rintro ((h1 | h1) | h1)
      · exact Or.inl h1
      · exact Or.inr (Or.inr h1)
      · exact Or.inr (Or.inl h1.1)
    · rintro (h1 | h1 | h1)
      · exact Or.inl (Or.inl h1)
      · exact Or.inr ⟨h1, (g.wins_mem p).mp h.p_mem⟩
      · exact Or.inl (Or.inr h1)
  · simp only [LSt.apply]
    refine List.nodup_cons.mpr ⟨?_, g.wins_nodup⟩
    intro hw
    exact h.n_notin ((g.wins_mem n).mpr (Or.inr hw))
  · simp only [LSt.apply, List.mem_cons, not_or]
    exact ⟨Ne.symm hn0, g.head_not_win⟩

theorem good_alloc {rule} {L : LSt} (g : Good rule L) (k : Key) (t : Tid) : Good rule (L.apply (.alloc k t)) := by
  have hne : ∀ x ∈ L.chain, x ≠ L.fresh := fun x hx he => by have := g.alloc x hx; omega
  have hk : ∀ x ∈ L.chain, upd L.key L.fresh k x = L.key x := fun x hx => by simp [upd, hne x hx]
  refine ⟨g.nodup, g.head, ?_, ?_, ?_, ?_, g.wins_mem, g.wins_nodup, g.head_not_win, ?_⟩
  · intro x hx
    simp only [LSt.apply, upd, hne x hx, ite_false]
    exact g.linked x hx
  · simp only [LSt.apply]
    refine List.Pairwise.imp_of_mem ?_ g.sorted
    intro a b ha hb hab
    rw [hk a ha, hk b hb]; exact hab
  · intro a ha b hb hkk hr
    simp only [LSt.apply] at ha hb hkk hr
    rw [hk a ha] at hkk hr
    rw [hk b hb] at hkk
    exact g.uniq a ha b hb hkk hr
  · intro x hx
    simp only [LSt.apply] at hx ⊢
    have := g.alloc x hx; omega
  · simp only [LSt.apply]
    rw [hk 0 g.head_mem]; exact g.key0

theorem good_setNext {rule} {L : LSt} (g : Good rule L) {n : Node} (hn : n ∉ L.chain) (v : Option Node) :
    Good rule (L.apply (.setNext n v)) := by
  refine ⟨g.nodup, g.head, ?_, g.sorted, g.uniq, g.alloc, g.wins_mem, g.wins_nodup, g.head_not_win, g.key0⟩
  intro x hx
  have : x ≠ n := fun he => hn (he ▸ hx)
  simp only [LSt.apply, upd, this, ite_false]
  exact g.linked x hx

theorem good_apply {rule} {L : LSt} {t : Tid} {a : Act} (g : Good rule L) (h : ActOk rule L t a) :
    Good rule (L.apply a) := by
  cases a with
  | nop => exact g
  | alloc k t' => exact good_alloc g k t'
  | setNext n v => exact good_setNext g h.2.1 v
  | link p n => exact good_link g h.2.1

/-! ### what stays true for allocated nodes under any action -/

theorem key_apply {rule} {L : LSt} {t : Tid} {a : Act} (x : Node) (hx : x < L.fresh) (_h : ActOk rule L t a) :
    (L.apply a).key x = L.key x := by
  cases a <;> simp [LSt.apply, upd]
  omega

theorem owner_apply {L : LSt} {a : Act} (x : Node) (hx : x < L.fresh) : (L.apply a).owner x = L.owner x := by
  cases a <;> simp [LSt.apply, upd]
  omega

theorem fresh_apply {L : LSt} {a : Act} : L.fresh ≤ (L.apply a).fresh := by
  cases a <;> simp [LSt.apply]

theorem chain_sub_apply {L : LSt} {a : Act} : L.chain.Sublist (L.apply a).chain := by
  cases a <;> simp [LSt.apply]
  exact sublist_insAfter _ _ _

theorem mem_chain_apply {L : LSt} {a : Act} {x : Node} (hx : x ∈ L.chain) : x ∈ (L.apply a).chain :=
  chain_sub_apply.subset hx

theorem mem_aft_apply {L : LSt} {a : Act} {x q : Node} (hx : x ∈ aft q L.chain) : x ∈ aft q (L.apply a).chain := by
  cases a <;> simp [LSt.apply] <;> try exact hx
  exact mem_aft_insAfter hx

/-! ### per-thread invariants -/

/-- an inserter (in `search`, `setNext` or `cas`) -/
structure InsInv (rule : Key → Rule) (L : LSt) (t : Tid) (k : Key) (prev new : Node) : Prop where
  own : L.owner new = t
  lt : new < L.fresh
  notin : new ∉ L.chain
  keynew : L.key new = k
  prev_mem : prev ∈ L.chain
  prev_le : (L.key prev).ok ≤ k.ok
  behind : rule k ≠ .after → ∀ x ∈ L.chain, L.key x = k → x ∈ aft prev L.chain
  pos : rule k ≠ .after → 0 < k.ok

def CurrOk (rule : Key → Rule) (L : LSt) (k : Key) : Option Node → Prop
  | none => True
  | some c => c ∈ L.chain ∧ adv (rule k) (L.key c) k = false ∧ hit (rule k) (L.key c) k = false

structure FInv (L : LSt) (k : Key) (prev : Node) (must : Bool) : Prop where
  prev_mem : prev ∈ L.chain
  ahead : must = true → ∃ x ∈ aft prev L.chain, L.key x = k

structure TrInv (L : LSt) (prev : Node) (seen snap : List Node) : Prop where
  prev_mem : prev ∈ L.chain
  top : seen.head? = some prev
  sub : seen.reverse.Sublist (upto prev L.chain)
  cover : ∀ x ∈ snap, x ∈ seen ∨ x ∈ aft prev L.chain

/-! #### `count(k)`: walk to `first`, walk to `second`, walk from `first` to `second` counting -/

/-- `x` is equivalent to `k` (a predicate on nodes of the current list) -/
abbrev Same (rule : Key → Rule) (L : LSt) (k : Key) (x : Node) : Prop := sameKey rule (L.key x) k = true

/-- the snapshot taken when the call began: duplicate-free and still in the list -/
structure SnapOk (L : LSt) (snap : List Node) : Prop where
  nodup : snap.Nodup
  sub : ∀ x ∈ snap, x ∈ L.chain

/-- walking to the first equivalent element: every equivalent element of the snapshot is still ahead -/
structure CInvA (rule : Key → Rule) (L : LSt) (k : Key) (prev : Node) (snap : List Node) : Prop where
  sok : SnapOk L snap
  prev_mem : prev ∈ L.chain
  ahead : ∀ x ∈ snap, Same rule L k x → x ∈ aft prev L.chain

/-- walking past the equivalent elements -/
structure CInvB (rule : Key → Rule) (L : LSt) (k : Key) (prev first : Node) (snap : List Node) : Prop where
  sok : SnapOk L snap
  first_mem : first ∈ L.chain
  first_same : Same rule L k first
  prev_mem : prev ∈ L.chain
  prev_same : Same rule L k prev
  prev_pos : prev = first ∨ prev ∈ aft first L.chain
  from_first : ∀ x ∈ snap, Same rule L k x → x = first ∨ x ∈ aft first L.chain

/-- `second` (if it is not `end()`) is a non-equivalent element ahead of the walker -/
def SecOk (rule : Key → Rule) (L : LSt) (k : Key) (prev : Node) : Option Node → Prop
  | none => True
  | some c => c ∈ L.chain ∧ ¬ Same rule L k c ∧ c ∈ aft prev L.chain

/-- `std::distance(first, second)`: a traversal from `first`; everything strictly between `first` and `second` is equivalent
or was linked after the call began -/
structure CInvC (rule : Key → Rule) (L : LSt) (k : Key) (prev first : Node) (second : Option Node) (seen snap : List Node) :
    Prop where
  sok : SnapOk L snap
  first_mem : first ∈ L.chain
  first_same : Same rule L k first
  tr : TrInv L prev seen (snap.filter (fun x => sameKey rule (L.key x) k))
  prev_pos : prev = first ∨ prev ∈ aft first L.chain
  sec : SecOk rule L k prev second
  between : ∀ y ∈ aft first L.chain, (∀ c, second = some c → c ∈ aft y L.chain) → Same rule L k y ∨ y ∉ snap
  seen_ok : ∀ y ∈ seen, Same rule L k y ∨ y ∉ snap

def TInv (rule : Key → Rule) (L : LSt) (t : Tid) (th : Th) : Prop :=
  match th.pc with
  | .idle => True
  | .search => InsInv rule L t th.k th.prev th.new
  | .setNext => InsInv rule L t th.k th.prev th.new ∧ CurrOk rule L th.k th.curr
  | .cas => InsInv rule L t th.k th.prev th.new ∧ CurrOk rule L th.k th.curr ∧ L.next th.new = th.curr
  | .fwalk => FInv L th.k th.prev th.must
  | .twalk => TrInv L th.prev th.seen th.snap
  | .cfirst => CInvA rule L th.k th.prev th.snap
  | .clast => CInvB rule L th.k th.prev th.first th.snap
  | .cdist => CInvC rule L th.k th.prev th.first th.second th.seen th.snap

/-- what a logged result guarantees, in every later state -/
def ResOk (L : LSt) (t : Tid) : Res → Prop
  | .ins k true n => n ∈ L.wins ∧ L.key n = k ∧ L.owner n = t ∧ n < L.fresh
  | .ins k false n => n ∈ L.chain ∧ L.key n = k ∧ n ≠ 0
  | .find k must r => (must = true → r ≠ none) ∧ ∀ n, r = some n → n ∈ L.chain ∧ L.key n = k
  | .trav seen snap => seen.Sublist L.chain ∧ ∀ x ∈ snap, x ∈ seen
  | .misuse => True
  | .touched _ => True
  | .broken _ => False
  | .sized _ => True
  | .threw => True
  | .count _ n lo hi => lo ≤ n ∧ n ≤ hi

/-! ### stability of the other threads' invariants -/

theorem insinv_stable {rule} {L : LSt} {t u : Tid} {a : Act} {k : Key} {prev new : Node}
    (g : Good rule L) (ha : ActOk rule L t a) (hut : u ≠ t) (h : InsInv rule L u k prev new) :
    InsInv rule (L.apply a) u k prev new := by
  have hkey : ∀ x, x < L.fresh → (L.apply a).key x = L.key x := fun x hx => key_apply x hx ha
  have hprev := g.alloc prev h.prev_mem
  refine ⟨?_, ?_, ?_, ?_, mem_chain_apply h.prev_mem, ?_, ?_, h.pos⟩
  · rw [owner_apply new h.lt]; exact h.own
  · exact Nat.lt_of_lt_of_le h.lt fresh_apply
  · cases a with
    | nop => exact h.notin
    | alloc => exact h.notin
    | setNext => exact h.notin
    | link p n =>
      simp only [LSt.apply, mem_insAfter, not_or]
      refine ⟨h.notin, ?_⟩
      rintro ⟨he, _⟩
      have := ha.1
      rw [← he, h.own] at this
      exact hut this
  · rw [hkey new h.lt]; exact h.keynew
  · rw [hkey prev hprev]; exact h.prev_le
  · intro hr x hx hkx
    cases a with
    | nop => exact h.behind hr x hx hkx
    | alloc k' t' =>
      simp only [LSt.apply] at hx hkx ⊢
      have hxl := g.alloc x hx
      have : upd L.key L.fresh k' x = L.key x := by simp [upd]; omega
      rw [this] at hkx
      exact h.behind hr x hx hkx
    | setNext => exact h.behind hr x hx hkx
    | link p n =>
      obtain ⟨_, hl, hside, _⟩ := ha
      simp only [LSt.apply] at hx hkx ⊢
      rcases mem_insAfter.mp hx with hx | ⟨hxn, _⟩
      · exact mem_aft_insAfter (h.behind hr x hx hkx)
      · subst hxn
        -- the new node has this thread's key: it must land behind this thread's `prev`
        by_cases hqp : prev = p
        · subst hqp
          rw [aft_insAfter_self hl.p_mem]; simp
        · have hqn : prev ≠ x := fun he => hl.n_notin (he ▸ h.prev_mem)
          have hpa : p ∈ aft prev L.chain := by
            rcases hside with hs | ⟨_, c, r, hc, hkc⟩
            · rcases aft_total h.prev_mem hl.p_mem hqp with h1 | h1
              · exact h1
              · have := hs prev h1
                have := h.prev_le
                rw [hkx] at *
                omega
            · have hcm : c ∈ L.chain := mem_of_mem_aft (p := p) (by rw [hc]; simp)
              have hcb := h.behind hr c hcm (by rw [hkc, hkx])
              rcases adjacent g.nodup hc h.prev_mem hcb with h1 | h1
              · exact absurd h1 hqp
              · exact h1
          rw [aft_insAfter_mem g.nodup hqp hqn hpa, mem_insAfter]
          exact Or.inr ⟨rfl, hpa⟩

theorem currok_stable {rule} {L : LSt} {t : Tid} {a : Act} {k : Key} {c : Option Node}
    (g : Good rule L) (ha : ActOk rule L t a) (h : CurrOk rule L k c) : CurrOk rule (L.apply a) k c := by
  cases c with
  | none => trivial
  | some c =>
    obtain ⟨h1, h2, h3⟩ := h
    refine ⟨mem_chain_apply h1, ?_, ?_⟩
    · rw [key_apply c (g.alloc c h1) ha]; exact h2
    · rw [key_apply c (g.alloc c h1) ha]; exact h3

theorem finv_stable {rule} {L : LSt} {t : Tid} {a : Act} {k : Key} {prev : Node} {must : Bool}
    (g : Good rule L) (ha : ActOk rule L t a) (h : FInv L k prev must) : FInv (L.apply a) k prev must := by
  refine ⟨mem_chain_apply h.prev_mem, ?_⟩
  intro hm
  obtain ⟨x, hx, hk⟩ := h.ahead hm
  refine ⟨x, mem_aft_apply hx, ?_⟩
  rw [key_apply x (g.alloc x (mem_of_mem_aft hx)) ha]; exact hk

theorem trinv_stable {rule} {L : LSt} {t : Tid} {a : Act} {prev : Node} {seen snap : List Node}
    (_g : Good rule L) (ha : ActOk rule L t a) (h : TrInv L prev seen snap) : TrInv (L.apply a) prev seen snap := by
  refine ⟨mem_chain_apply h.prev_mem, h.top, ?_, ?_⟩
  · cases a with
    | nop => exact h.sub
    | alloc => exact h.sub
    | setNext => exact h.sub
    | link p n =>
      simp only [LSt.apply]
      have : prev ≠ n := fun he => ha.2.1.n_notin (he ▸ h.prev_mem)
      exact h.sub.trans (upto_sublist_insAfter this)
  · intro x hx
    rcases h.cover x hx with h1 | h1
    · exact Or.inl h1
    · exact Or.inr (mem_aft_apply h1)

/-- nobody else writes a thread's private node -/
theorem private_next_stable {rule} {L : LSt} {t u : Tid} {a : Act} {k : Key} {prev new : Node} {curr : Option Node}
    (_g : Good rule L) (ha : ActOk rule L t a) (hut : u ≠ t) (h : InsInv rule L u k prev new)
    (hn : L.next new = curr) : (L.apply a).next new = curr := by
  have hne : ∀ n, L.owner n = t → new ≠ n := by
    intro n hn' he
    rw [← he, h.own] at hn'
    exact hut hn'
  cases a with
  | nop => exact hn
  | alloc k' t' =>
    have := h.lt
    simp only [LSt.apply, upd]
    rw [if_neg (by omega)]; exact hn
  | setNext n v =>
    simp only [LSt.apply, upd, hne n ha.1, ite_false]; exact hn
  | link p n =>
    have : new ≠ p := fun he => h.notin (he ▸ ha.2.1.p_mem)
    simp only [LSt.apply, upd, this, ite_false]; exact hn

theorem same_apply {rule} {L : LSt} {t : Tid} {a : Act} {k : Key} {x : Node} (g : Good rule L) (ha : ActOk rule L t a)
    (hx : x ∈ L.chain) : Same rule (L.apply a) k x ↔ Same rule L k x := by
  unfold Same; rw [key_apply x (g.alloc x hx) ha]

theorem snapok_stable {L : LSt} {a : Act} {snap : List Node} (h : SnapOk L snap) : SnapOk (L.apply a) snap :=
  ⟨h.nodup, fun x hx => mem_chain_apply (h.sub x hx)⟩

theorem filter_same_apply {rule} {L : LSt} {t : Tid} {a : Act} {k : Key} {snap : List Node} (g : Good rule L)
    (ha : ActOk rule L t a) (h : SnapOk L snap) :
    snap.filter (fun x => sameKey rule ((L.apply a).key x) k) = snap.filter (fun x => sameKey rule (L.key x) k) := by
  apply List.filter_congr
  intro x hx
  rw [key_apply x (g.alloc x (h.sub x hx)) ha]

theorem cinva_stable {rule} {L : LSt} {t : Tid} {a : Act} {k : Key} {prev : Node} {snap : List Node}
    (g : Good rule L) (ha : ActOk rule L t a) (h : CInvA rule L k prev snap) : CInvA rule (L.apply a) k prev snap := by
  refine ⟨snapok_stable h.sok, mem_chain_apply h.prev_mem, ?_⟩
  intro x hx hs
  exact mem_aft_apply (h.ahead x hx ((same_apply g ha (h.sok.sub x hx)).mp hs))

theorem cinvb_stable {rule} {L : LSt} {t : Tid} {a : Act} {k : Key} {prev first : Node} {snap : List Node}
    (g : Good rule L) (ha : ActOk rule L t a) (h : CInvB rule L k prev first snap) :
    CInvB rule (L.apply a) k prev first snap := by
  refine ⟨snapok_stable h.sok, mem_chain_apply h.first_mem, (same_apply g ha h.first_mem).mpr h.first_same,
    mem_chain_apply h.prev_mem, (same_apply g ha h.prev_mem).mpr h.prev_same, ?_, ?_⟩
  · rcases h.prev_pos with h1 | h1
    · exact Or.inl h1
    · exact Or.inr (mem_aft_apply h1)
  · intro x hx hs
    rcases h.from_first x hx ((same_apply g ha (h.sok.sub x hx)).mp hs) with h1 | h1
    · exact Or.inl h1
    · exact Or.inr (mem_aft_apply h1)

/-- membership behind an old node, seen from the list after an action -/
theorem mem_aft_apply_old {rule} {L : LSt} {t : Tid} {a : Act} {q x : Node} (g : Good rule L) (ha : ActOk rule L t a)
    (hq : q ∈ L.chain) (hx : x ∈ L.chain) (h : x ∈ aft q (L.apply a).chain) : x ∈ aft q L.chain := by
  cases a with
  | nop => exact h
  | alloc => exact h
  | setNext => exact h
  | link p n =>
    simp only [LSt.apply] at h
    rcases mem_aft_insAfter_old g.nodup ha.2.1.n_notin hq h with h1 | ⟨h1, _⟩
    · exact h1
    · exact absurd (h1 ▸ hx) ha.2.1.n_notin

theorem cinvc_stable {rule} {L : LSt} {t : Tid} {a : Act} {k : Key} {prev first : Node} {second : Option Node}
    {seen snap : List Node} (g : Good rule L) (ha : ActOk rule L t a) (h : CInvC rule L k prev first second seen snap) :
    CInvC rule (L.apply a) k prev first second seen snap := by
  have hseen : ∀ y ∈ seen, y ∈ L.chain := by
    intro y hy
    have : y ∈ seen.reverse := by simpa using hy
    exact (upto_sublist _ _).subset (h.tr.sub.subset this)
  refine ⟨snapok_stable h.sok, mem_chain_apply h.first_mem, (same_apply g ha h.first_mem).mpr h.first_same, ?_, ?_, ?_, ?_, ?_⟩
  · rw [filter_same_apply g ha h.sok]; exact trinv_stable g ha h.tr
  · rcases h.prev_pos with h1 | h1
    · exact Or.inl h1
    · exact Or.inr (mem_aft_apply h1)
  · cases second with
    | none => trivial
    | some c =>
      obtain ⟨h1, h2, h3⟩ := h.sec
      exact ⟨mem_chain_apply h1, fun hs => h2 ((same_apply g ha h1).mp hs), mem_aft_apply h3⟩
  · intro y hy hc
    by_cases hyo : y ∈ L.chain
    · have hy' : y ∈ aft first L.chain := mem_aft_apply_old g ha h.first_mem hyo hy
      have hc' : ∀ c, second = some c → c ∈ aft y L.chain := by
        intro c hcs
        have hcm : c ∈ L.chain := by
          have := h.sec; rw [hcs] at this; exact this.1
        exact mem_aft_apply_old g ha hyo hcm (hc c hcs)
      rcases h.between y hy' hc' with h1 | h1
      · exact Or.inl ((same_apply g ha hyo).mpr h1)
      · exact Or.inr h1
    · exact Or.inr (fun hs => hyo (h.sok.sub y hs))
  · intro y hy
    rcases h.seen_ok y hy with h1 | h1
    · exact Or.inl ((same_apply g ha (hseen y hy)).mpr h1)
    · exact Or.inr h1

theorem tinv_stable {rule} {L : LSt} {t u : Tid} {a : Act} {th : Th}
    (g : Good rule L) (ha : ActOk rule L t a) (hut : u ≠ t) (h : TInv rule L u th) :
    TInv rule (L.apply a) u th := by
  unfold TInv at h ⊢
  split
  · trivial
  · rename_i hpc; simp only [hpc] at h
    exact insinv_stable g ha hut h
  · rename_i hpc; simp only [hpc] at h
    exact ⟨insinv_stable g ha hut h.1, currok_stable g ha h.2⟩
  · rename_i hpc; simp only [hpc] at h
    refine ⟨insinv_stable g ha hut h.1, currok_stable g ha h.2.1, ?_⟩
    -- nobody else writes this thread's private node
    have hne : ∀ n, L.owner n = t → th.new ≠ n := by
      intro n hn he
      rw [← he, h.1.own] at hn
      exact hut hn
    cases a with
    | nop => exact h.2.2
    | alloc k t' =>
      have := h.1.lt
      simp only [LSt.apply, upd]
      rw [if_neg (by omega)]; exact h.2.2
    | setNext n v =>
      simp only [LSt.apply, upd, hne n ha.1, ite_false]; exact h.2.2
    | link p n =>
      have : th.new ≠ p := fun he => h.1.notin (he ▸ ha.2.1.p_mem)
      simp only [LSt.apply, upd, this, ite_false]; exact h.2.2
  · rename_i hpc; simp only [hpc] at h
    exact finv_stable g ha h
  · rename_i hpc; simp only [hpc] at h
    exact trinv_stable g ha h
  · rename_i hpc; simp only [hpc] at h
    exact cinva_stable g ha h
  · rename_i hpc; simp only [hpc] at h
    exact cinvb_stable g ha h
  · rename_i hpc; simp only [hpc] at h
    exact cinvc_stable g ha h

theorem resok_stable {rule} {L : LSt} {t u : Tid} {a : Act} {r : Res}
    (g : Good rule L) (ha : ActOk rule L t a) (h : ResOk L u r) : ResOk (L.apply a) u r := by
  cases r with
  | ins k ok n =>
    cases ok with
    | true =>
      obtain ⟨h1, h2, h3, h4⟩ := h
      refine ⟨?_, ?_, ?_, Nat.lt_of_lt_of_le h4 fresh_apply⟩
      · cases a <;> simp [LSt.apply] <;> first | exact h1 | exact Or.inr h1
      · rw [key_apply n h4 ha]; exact h2
      · rw [owner_apply n h4]; exact h3
    | false =>
      obtain ⟨h1, h2, h3⟩ := h
      refine ⟨mem_chain_apply h1, ?_, h3⟩
      rw [key_apply n (g.alloc n h1) ha]; exact h2
  | find k must r =>
    refine ⟨h.1, ?_⟩
    intro n hn
    obtain ⟨h1, h2⟩ := h.2 n hn
    refine ⟨mem_chain_apply h1, ?_⟩
    rw [key_apply n (g.alloc n h1) ha]; exact h2
  | trav seen snap => exact ⟨h.1.trans chain_sub_apply, h.2⟩
  | misuse => trivial
  | touched _ => trivial
  | broken _ => exact h
  | sized _ => trivial
  | threw => trivial
  | count _ _ _ _ => exact h

end TbbVerif.C12
