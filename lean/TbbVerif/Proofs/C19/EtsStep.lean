/- C19 / EtsTable — generic step shapes: how `EInv` is re-established from the table lemmas (EtsG) and the
   invariant of the stepping thread's new control state. -/
import TbbVerif.Proofs.C19.EtsG

namespace TbbVerif.C19.Ets

theorem get_set_self {α} {l : List α} {t : Nat} {x : α} (y : α) (h : l[t]? = some x) : (l.set t y)[t]? = some y := by
  rw [List.getElem?_set]; simp [lt_length_of_get h]

theorem get_set_ne {α} {l : List α} {t j : Nat} (y : α) (h : t ≠ j) : (l.set t y)[j]? = l[j]? := by
  rw [List.getElem?_set]; simp [h]

/-- a step that only changes the stepping thread's control state -/
theorem einv_set_th {B L0 : Nat} {s : St} (h : EInv B L0 s) (t : Nat) (th th' : Th) (hth : s.ths[t]? = some th)
    (hh : th'.h = th.h) (he : th'.elem = th.elem) (l' : LInv B L0 s.arrs s.locals t th') :
    EInv B L0 { s with ths := s.ths.set t th' } := by
  refine ⟨h.g.set_th t th th' hth hh he, ?_, h.nbad⟩
  intro t1 th1 h1
  by_cases e : t = t1
  · subst e; rw [get_set_self th' hth] at h1; cases h1; exact l'
  · rw [get_set_ne th' e] at h1; exact h.l t1 th1 h1

/-- a successful publication of a new array -/
theorem einv_push {B L0 : Nat} {s : St} (h : EInv B L0 s) (t : Nat) (th th' : Th) (hth : s.ths[t]? = some th)
    (hh : th'.h = th.h) (he : th'.elem = th.elem) (lg : Nat) (hL : L0 ≤ lg)
    (hlast : ∀ last : Arr, s.arrs[s.arrs.length - 1]? = some last → last.lg < lg)
    (l' : LInv B L0 (s.arrs ++ [Arr.empty lg]) s.locals t th') :
    EInv B L0 { s with arrs := s.arrs ++ [Arr.empty lg], ths := s.ths.set t th' } := by
  refine ⟨(h.g.push lg hL hlast).set_th t th th' hth hh he, ?_, h.nbad⟩
  intro t1 th1 h1
  by_cases e : t = t1
  · subst e; rw [get_set_self th' hth] at h1; cases h1; exact l'
  · rw [get_set_ne th' e] at h1; exact (h.l t1 th1 h1).push _

/-- a successful claim -/
theorem einv_claim {B L0 : Nat} {s : St} (h : EInv B L0 s) (t : Nat) (th th' : Th) (hth : s.ths[t]? = some th)
    (hh : th'.h = th.h) (he : th'.elem = th.elem) (a0 : Arr) (ha0 : s.arrs[th.r]? = some a0) (h0 : a0.key th.i = 0)
    (hi : th.i < a0.size) (hf : th.found = th.elem) (hne : th.elem ≠ 0)
    (hd : ∃ d, th.i = (start B th.h a0.lg + d) % a0.size ∧ Occupied B a0 th.h d)
    (l' : LInv B L0 (s.arrs.set th.r (a0.setSlot th.i (t + 1) th.found)) s.locals t th') :
    EInv B L0 { s with arrs := s.arrs.set th.r (a0.setSlot th.i (t + 1) th.found), ths := s.ths.set t th' } := by
  have g1 := h.g.claim th.r th.i t a0 th ha0 h0 hi hth hne hd
  rw [← hf] at g1
  refine ⟨g1.set_th t th th' hth hh he, ?_, h.nbad⟩
  intro t1 th1 h1
  by_cases e : t = t1
  · subst e; rw [get_set_self th' hth] at h1; cases h1; exact l'
  · rw [get_set_ne th' e] at h1; exact (h.l t1 th1 h1).claim _ _ _ _ a0 ha0 h0

/-- `create_local(); ++my_count` -/
theorem einv_cnt {B L0 : Nat} {s : St} (h : EInv B L0 s) (t : Nat) (th th' : Th) (hth : s.ths[t]? = some th)
    (hh : th'.h = th.h) (he0 : th.elem = 0) (n : Nat)
    (l' : LInv B L0 s.arrs (s.locals ++ [t]) t th') :
    EInv B L0 { s with locals := s.locals ++ [t], count := n, ths := s.ths.set t th' } := by
  refine ⟨h.g.cnt t th th' hth he0 hh, ?_, h.nbad⟩
  intro t1 th1 h1
  by_cases e : t = t1
  · subst e; rw [get_set_self th' hth] at h1; cases h1; exact l'
  · rw [get_set_ne th' e] at h1; exact (h.l t1 th1 h1).cnt t e

end TbbVerif.C19.Ets
