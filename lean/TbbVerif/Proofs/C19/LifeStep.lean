/-
C19 — lifecycle model: every operation preserves the invariant when the lifecycle functions are the sequences of
`Cfg.expected` (what the source text of the unchanged header yields); hence it holds after every operation sequence.
-/
import TbbVerif.Proofs.C19.Life

namespace TbbVerif.C19.Life

theorem inv_init (perInst : Bool) : Inv (init Cfg.expected perInst) := by
  cases perInst
  · refine ⟨rfl, (by intro h; cases h), fun _ => ⟨rfl, rfl⟩, ?_, List.nodup_nil, ?_, ?_, ?_, ?_, ?_, ?_⟩ <;>
      simp [init, Cfg.expected]
  · refine ⟨rfl, fun _ => ⟨0, rfl, rfl, by simp [init, Cfg.expected, kstep]⟩, (by intro h; cases h), ?_, List.nodup_nil, ?_, ?_, ?_, ?_, ?_, ?_⟩ <;>
      simp [init, Cfg.expected, kstep]

theorem inv_clear {s : St} (h : Inv s) (t : Tid) : Inv (step Cfg.expected s (.clear t)) := by
  cases hp : s.perInst
  · obtain ⟨hk, hl⟩ := h.keyN hp
    apply inv_newgen h <;> first | rfl | (simp [step, clearOps, hp, Cfg.expected, kstep, hk, hl, h.nbad] <;> omega)
  · obtain ⟨k, hk, hl, hlt⟩ := h.keyK hp
    apply inv_newgen h <;> first | rfl | (simp [step, clearOps, hp, Cfg.expected, kstep, hk, hl, h.nbad] <;> omega)

theorem inv_recreate {s : St} (h : Inv s) (t : Tid) : Inv (step Cfg.expected s (.recreate t)) := by
  cases hp : s.perInst
  · obtain ⟨hk, hl⟩ := h.keyN hp
    apply inv_newgen h <;> first | rfl | (simp [step, recreateOps, hp, Cfg.expected, kstep, hk, hl, h.nbad] <;> omega)
  · obtain ⟨k, hk, hl, hlt⟩ := h.keyK hp
    apply inv_newgen h <;> first | rfl | (simp [step, recreateOps, hp, Cfg.expected, kstep, hk, hl, h.nbad] <;> omega)

theorem inv_moveFresh {s : St} (h : Inv s) (t : Tid) : Inv (step Cfg.expected s (.moveFresh t)) := by
  have e : step Cfg.expected s (.moveFresh t) = step Cfg.expected s (.recreate t) := by
    simp [step, moveFreshStep, Cfg.expected]
  rw [e]
  exact inv_recreate h t

theorem inv_local {s : St} (h : Inv s) (t : Tid) : Inv (step Cfg.expected s (.loc t)) := by
  cases hp : s.perInst
  · -- ets_no_key / combinable: the table only
    cases htab : s.table t with
    | some p =>
      have hpos := (h.tab t p).mp htab
      apply inv_hit h t p ⟨t, s.gen, s.gen, p, true, !accessed s t, true⟩ hpos <;> first | rfl | simp [step, localStep, hp, tableLookup, htab, finish, hpos]
      · intro t' k g q hq; exact Or.inl hq
    | none =>
      apply inv_create h t ⟨t, s.gen, s.gen, s.locals.length, false, !accessed s t, true⟩ htab <;> first | rfl | simp [step, localStep, hp, tableLookup, htab, finish]
      · intro t' k g q hq; exact Or.inl hq
  · -- ets_key_per_instance: the native TLS slot first
    obtain ⟨k, hk, hl, hlt⟩ := h.keyK hp
    cases htl : s.tls t k with
    | some ptr =>
      obtain ⟨g, p⟩ := ptr
      obtain ⟨hg, hpos⟩ := (h.tls t k g p htl).2 hk
      subst hg
      apply inv_hit h t p ⟨t, s.gen, s.gen, p, true, !accessed s t, true⟩ hpos <;> first | rfl | simp [step, localStep, hp, Cfg.expected, hk, htl, finish, hpos]
      · intro t' k' g q hq; exact Or.inl hq
    | none =>
      cases htab : s.table t with
      | some p =>
        have hpos := (h.tab t p).mp htab
        apply inv_hit h t p ⟨t, s.gen, s.gen, p, true, !accessed s t, true⟩ hpos <;> first | rfl | simp [step, localStep, hp, Cfg.expected, hk, htl, tableLookup, htab, finish, setTls, hpos]
        · intro t' k' g q hq
          by_cases hc : t' = t ∧ k' = k
          · rw [if_pos hc] at hq
            obtain ⟨h1, h2⟩ := Prod.mk.inj (Option.some.inj hq)
            exact Or.inr ⟨hc.1, h1.symm, h2.symm, by rw [hc.2]; exact hlt⟩
          · rw [if_neg hc] at hq; exact Or.inl hq
      | none =>
        apply inv_create h t ⟨t, s.gen, s.gen, s.locals.length, false, !accessed s t, true⟩ htab <;> first | rfl | simp [step, localStep, hp, Cfg.expected, hk, htl, tableLookup, htab, finish, setTls]
        · intro t' k' g q hq
          by_cases hc : t' = t ∧ k' = k
          · rw [if_pos hc] at hq
            obtain ⟨h1, h2⟩ := Prod.mk.inj (Option.some.inj hq)
            exact Or.inr ⟨hc.1, h1.symm, h2.symm, by rw [hc.2]; exact hlt⟩
          · rw [if_neg hc] at hq; exact Or.inl hq

theorem inv_step {s : St} (h : Inv s) (o : Op) : Inv (step Cfg.expected s o) := by
  cases o with
  | loc t => exact inv_local h t
  | clear t => exact inv_clear h t
  | recreate t => exact inv_recreate h t
  | moveFresh t => exact inv_moveFresh h t

theorem inv_foldl (ops : List Op) : ∀ s, Inv s → Inv (ops.foldl (step Cfg.expected) s) := by
  induction ops with
  | nil => intro s h; exact h
  | cons o os ih => intro s h; exact ih _ (inv_step h o)

theorem inv_run (perInst : Bool) (ops : List Op) : Inv (run Cfg.expected perInst ops) :=
  inv_foldl ops _ (inv_init perInst)

end TbbVerif.C19.Life
