/-
C19 / Collab — the invariant of the collaborative part (incarnations / pins, happens-before ghosts, destructor
synchronisation, inner tasks) and the shape of a step.
-/
import TbbVerif.Proofs.C19.CollabProj

namespace TbbVerif.C19.Collab
open Once

/-! ### list helpers -/

theorem getB_set (l : List Bool) (t i : Nat) (v : Bool) (h : t < l.length) :
    getB (l.set t v) i = if i = t then v else getB l i := by
  unfold getB
  by_cases e : i = t
  · subst e; simp [List.getD_eq_getElem?_getD, h]
  · simp [List.getD_eq_getElem?_getD, List.getElem?_set, e, Ne.symm e]

theorem getN_set (l : List Nat) (t i : Nat) (v : Nat) (h : t < l.length) :
    getN (l.set t v) i = if i = t then v else getN l i := by
  unfold getN
  by_cases e : i = t
  · subst e; simp [List.getD_eq_getElem?_getD, h]
  · simp [List.getD_eq_getElem?_getD, List.getElem?_set, e, Ne.symm e]

/-! ### nesting never happens under isolation -/

def hostFree (c : CSt) : Prop := ∀ v, c.x.host.getD v none = none

theorem blocked_false (c : CSt) (h : hostFree c) (t : Tid) : blocked c t = false := by
  unfold blocked
  rw [List.any_eq_false]
  intro v _
  have hv : c.x.host.getD v none = none := h v
  rw [hv]
  simp

/-! ### the invariant -/

/-- incarnations / pins, happens-before ghosts, destructor synchronisation -/
structure InvH (k : Skel) (c : CSt) : Prop where
  lenG  : c.x.gen.length = c.o.ths.length
  lenP  : c.x.pin.length = c.o.ths.length
  lenS  : c.x.sees.length = c.o.ths.length
  lenD  : c.x.dok.length = c.o.ths.length
  /-- a helper that holds a reference (in the word or as a guard) holds it on the LIVE incarnation of the runner -/
  pinG  : ∀ (j : Nat) (th : Th), c.o.ths[j]? = some th → (pinPc th.pc = true ∨ guardPc th.pc = true) →
            getN c.x.pin j = getN c.x.gen th.tgt
  nxbad : c.x.xbad = false
  /-- the `done` word was written by a release of a thread that knew the completion -/
  h1    : c.o.word = Word.done → c.x.wsees = true
  /-- whoever is past the function / past the load that read `done`, without an exception in flight, knows the completion -/
  h2    : ∀ (i : Nat) (th : Th), c.o.ths[i]? = some th → pendPc th.pc = true → th.pend = none → getB c.x.sees i = true
  h3    : c.x.okUnseen = false
  h4w   : c.x.wsees = true → c.o.succ = 1
  h4    : ∀ i, getB c.x.sees i = true → c.o.succ = 1
  d1    : c.x.dirty = false
  d2    : ∀ (i : Nat) (th : Th), c.o.ths[i]? = some th → th.pc = .dtor2 → getB c.x.dok i = true

/-- inner tasks of the user function -/
structure InvT (c : CSt) : Prop where
  t01   : c.x.st = 0 ∨ c.x.st = 1
  t1    : c.x.st = 0 → c.x.pool = 0 ∧ c.x.exec = []
  /-- inner tasks exist only while the winner is inside the user function -/
  t2    : c.x.st = 1 → ∃ (i : Nat) (th : Th), c.o.word.hi = i + 1 ∧ c.o.ths[i]? = some th ∧ th.pc = .wCall
  /-- every inner task is finished, being executed, or still in the pool -/
  t4    : c.x.st = 1 → c.x.ran + c.x.pool + c.x.exec.length = c.x.total
  t6    : c.x.exec.Nodup
  /-- who executes an inner task: a worker, the winner inside the function, or a helper inside assist() of THIS runner -/
  t5    : ∀ t ∈ c.x.exec, t ≥ c.o.ths.length ∨ ∃ th, c.o.ths[t]? = some th ∧
            ((th.pc = .wCall ∧ c.o.word.hi = t + 1) ∨ (th.pc = .hWait ∧ th.tgt + 1 = c.o.word.hi))
  host  : hostFree c

/-- `Once.Inv ∧ Once.InvG` on the projection plus the collaborative invariants -/
structure Reach (k : Skel) (U : Nat) (thr : Nat → Bool) (c : CSt) : Prop where
  i : Inv U c.o
  g : InvG thr c.o
  h : InvH k c
  t : InvT c

theorem getD_map_const {α β : Type} (l : List α) (b : β) (i : Nat) : (l.map (fun _ => b)).getD i b = b := by
  simp [List.getD_eq_getElem?_getD]
  cases l[i]? <;> simp

theorem invh_init (k : Skel) (calls : List Nat) : InvH k (init calls) := by
  have hth : ∀ (i : Nat) (th : Th), (init calls).o.ths[i]? = some th → th.pc = .idle := fun i th h => (init_th calls i th h).1
  refine { lenG := by simp [init, Once.init], lenP := by simp [init, Once.init], lenS := by simp [init, Once.init],
           lenD := by simp [init, Once.init], pinG := ?_, nxbad := rfl, h1 := ?_, h2 := ?_, h3 := rfl, h4w := ?_, h4 := ?_, d1 := rfl, d2 := ?_ }
  · intro j th h hp; rw [hth j th h] at hp; simp [pinPc, guardPc] at hp
  · simp [init, Once.init, Word.done]
  · intro i th h hp; rw [hth i th h] at hp; simp [pendPc] at hp
  · simp [init]
  · intro i h; simp only [init, getB] at h; rw [getD_map_const] at h; simp at h
  · intro i th h hp; rw [hth i th h] at hp; simp at hp

theorem invt_init (calls : List Nat) : InvT (init calls) := by
  refine { t01 := Or.inl rfl, t1 := fun _ => ⟨rfl, rfl⟩, t2 := ?_, t4 := ?_, t6 := List.nodup_nil, t5 := ?_, host := ?_ }
  · simp [init]
  · simp [init]
  · intro t ht; simp [init] at ht
  · intro v; simp only [init]; exact getD_map_const calls none v

end TbbVerif.C19.Collab
