/- C19 / OnceFlag — preservation of `InvG` by the steps at pcs dtor, dtor2, hSpin, hCas, hGuard, hSub, hReady, hWait, hUnguard. -/
import TbbVerif.Proofs.C19.OnceG
namespace TbbVerif.C19.Once

theorem invg_dtor (U : Nat) (thr : Nat → Bool) (s : St) (t : Tid) (th : Th) (rn : Rn) (h : Inv U s) (g : InvG thr s)
    (hth : s.ths[t]? = some th) (hrn : s.rns[t]? = some rn) (hpc : th.pc = .dtor) : InvG thr (step U thr s t) := by
  have hown := h.own
  have hot := h.own t th hth
  have hdesv := h.desv t th hth
  simp only [step, stepEv, hth, hrn, hpc]
  obtain ⟨hsle, hg1, hg4, hg2, hg3, hg5, hrok, hpnd, hx1, hx2, hx3⟩ := g
  (repeat' split) <;> (try dsimp only) <;> invg_close

set_option maxHeartbeats 1000000 in
theorem invg_dtor2 (U : Nat) (thr : Nat → Bool) (s : St) (t : Tid) (th : Th) (rn : Rn) (h : Inv U s) (g : InvG thr s)
    (hth : s.ths[t]? = some th) (hrn : s.rns[t]? = some rn) (hpc : th.pc = .dtor2) : InvG thr (step U thr s t) := by
  have hown := h.own
  have hot := h.own t th hth
  simp only [step, stepEv, hth, hrn, hpc]
  obtain ⟨hsle, hg1, hg4, hg2, hg3, hg5, hrok, hpnd, hx1, hx2, hx3⟩ := g
  split
  · rename_i k hk
    try dsimp only
    have hk1 := hx1 t th k hth hk
    have hc0 : List.count (Ret.exc k) th.rets = 0 := List.count_eq_zero.mpr hk1.2.2
    constructor
    all_goals (try assumption)
    case x2 =>
      intro i th1 k1 h1 h2
      by_cases hi : i = t
      · subst hi
        rw [List.getElem?_set] at h1
        simp [lt_length_of_get hth] at h1
        subst h1
        simp only [Th.ret] at h2 ⊢
        rw [count_exc_cons]
        by_cases hkk : k = k1
        · subst hkk; simp [hk1.1, hk1.2.1, hc0]
        · have hm : Ret.exc k1 ∈ th.rets := by
            rcases List.mem_cons.mp h2 with h3 | h3
            · cases h3; exact absurd rfl hkk
            · exact h3
          have := hx2 i th k1 hth hm
          simp [hkk, this]
      · rw [List.getElem?_set] at h1
        simp [Ne.symm hi] at h1
        exact hx2 i th1 k1 h1 h2
    all_goals grind [ownerPc, latePc, pendPc, Th.ret, Word.runner, Word.uninit, Word.done, Word.gtDone]
  · try dsimp only
    invg_close

theorem invg_hSpin (U : Nat) (thr : Nat → Bool) (s : St) (t : Tid) (th : Th) (rn : Rn) (h : Inv U s) (g : InvG thr s)
    (hth : s.ths[t]? = some th) (hrn : s.rns[t]? = some rn) (hpc : th.pc = .hSpin) : InvG thr (step U thr s t) := by
  have hown := h.own
  have hot := h.own t th hth
  have hdesv := h.desv t th hth
  simp only [step, stepEv, hth, hrn, hpc]
  obtain ⟨hsle, hg1, hg4, hg2, hg3, hg5, hrok, hpnd, hx1, hx2, hx3⟩ := g
  (repeat' split) <;> (try dsimp only) <;> invg_close

theorem invg_hCas (U : Nat) (thr : Nat → Bool) (s : St) (t : Tid) (th : Th) (rn : Rn) (h : Inv U s) (g : InvG thr s)
    (hth : s.ths[t]? = some th) (hrn : s.rns[t]? = some rn) (hpc : th.pc = .hCas) : InvG thr (step U thr s t) := by
  have hnc := no_carry U s t th h hth hpc
  have hown := h.own
  have hot := h.own t th hth
  have hdesv := h.desv t th hth
  simp only [step, stepEv, hth, hrn, hpc]
  obtain ⟨hsle, hg1, hg4, hg2, hg3, hg5, hrok, hpnd, hx1, hx2, hx3⟩ := g
  (repeat' split) <;> (try dsimp only) <;> invg_close

theorem invg_hGuard (U : Nat) (thr : Nat → Bool) (s : St) (t : Tid) (th : Th) (rn : Rn) (h : Inv U s) (g : InvG thr s)
    (hth : s.ths[t]? = some th) (hrn : s.rns[t]? = some rn) (hpc : th.pc = .hGuard) : InvG thr (step U thr s t) := by
  have hown := h.own
  have hot := h.own t th hth
  have hdesv := h.desv t th hth
  simp only [step, stepEv, hth, hrn, hpc]
  obtain ⟨hsle, hg1, hg4, hg2, hg3, hg5, hrok, hpnd, hx1, hx2, hx3⟩ := g
  (repeat' split) <;> (try dsimp only) <;> invg_close

theorem invg_hSub (U : Nat) (thr : Nat → Bool) (s : St) (t : Tid) (th : Th) (rn : Rn) (h : Inv U s) (g : InvG thr s)
    (hth : s.ths[t]? = some th) (hrn : s.rns[t]? = some rn) (hpc : th.pc = .hSub) : InvG thr (step U thr s t) := by
  have hnb := no_borrow U s t th h hth hpc
  have hown := h.own
  have hot := h.own t th hth
  have hdesv := h.desv t th hth
  simp only [step, stepEv, hth, hrn, hpc]
  obtain ⟨hsle, hg1, hg4, hg2, hg3, hg5, hrok, hpnd, hx1, hx2, hx3⟩ := g
  (repeat' split) <;> (try dsimp only) <;> invg_close

theorem invg_hReady (U : Nat) (thr : Nat → Bool) (s : St) (t : Tid) (th : Th) (rn : Rn) (h : Inv U s) (g : InvG thr s)
    (hth : s.ths[t]? = some th) (hrn : s.rns[t]? = some rn) (hpc : th.pc = .hReady) : InvG thr (step U thr s t) := by
  have hown := h.own
  have hot := h.own t th hth
  have hdesv := h.desv t th hth
  simp only [step, stepEv, hth, hrn, hpc]
  obtain ⟨hsle, hg1, hg4, hg2, hg3, hg5, hrok, hpnd, hx1, hx2, hx3⟩ := g
  (repeat' split) <;> (try dsimp only) <;> invg_close

theorem invg_hWait (U : Nat) (thr : Nat → Bool) (s : St) (t : Tid) (th : Th) (rn : Rn) (h : Inv U s) (g : InvG thr s)
    (hth : s.ths[t]? = some th) (hrn : s.rns[t]? = some rn) (hpc : th.pc = .hWait) : InvG thr (step U thr s t) := by
  have hown := h.own
  have hot := h.own t th hth
  have hdesv := h.desv t th hth
  simp only [step, stepEv, hth, hrn, hpc]
  obtain ⟨hsle, hg1, hg4, hg2, hg3, hg5, hrok, hpnd, hx1, hx2, hx3⟩ := g
  (repeat' split) <;> (try dsimp only) <;> invg_close

theorem invg_hUnguard (U : Nat) (thr : Nat → Bool) (s : St) (t : Tid) (th : Th) (rn : Rn) (h : Inv U s) (g : InvG thr s)
    (hth : s.ths[t]? = some th) (hrn : s.rns[t]? = some rn) (hpc : th.pc = .hUnguard) : InvG thr (step U thr s t) := by
  have hown := h.own
  have hot := h.own t th hth
  have hdesv := h.desv t th hth
  simp only [step, stepEv, hth, hrn, hpc]
  obtain ⟨hsle, hg1, hg4, hg2, hg3, hg5, hrok, hpnd, hx1, hx2, hx3⟩ := g
  (repeat' split) <;> (try dsimp only) <;> invg_close
end TbbVerif.C19.Once
