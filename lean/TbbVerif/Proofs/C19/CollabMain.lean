/- C19 / Collab — `Reach` holds in every reachable state of the collaborative model, for every schedule of accesses and
task actions. -/
import TbbVerif.Proofs.C19.CollabAccA
import TbbVerif.Proofs.C19.CollabAccB

namespace TbbVerif.C19.Collab
open Once

theorem invh_acc (k : Skel) (hk : k.ok = true) (U : Nat) (thr : Nat → Bool) (c : CSt) (t : Tid) (th : Th)
    (R : Reach k U thr c) (hth : c.o.ths[t]? = some th) :
    InvH k { o := Once.step U thr c.o t, x := track k thr c.o t c.x } := by
  have hlt := lt_length_of_get hth
  obtain ⟨rn, hrn⟩ : ∃ rn, c.o.rns[t]? = some rn := ⟨c.o.rns[t]'(by rw [R.i.len]; exact hlt), by simp [R.i.len, hlt]⟩
  cases hpc : th.pc
  · exact invh_idle k hk U thr c t th rn R hth hrn hpc
  · exact invh_entry k hk U thr c t th rn R hth hrn hpc
  · exact invh_winCas k hk U thr c t th rn R hth hrn hpc
  · exact invh_wReady k hk U thr c t th rn R hth hrn hpc
  · exact invh_wCall k hk U thr c t th rn R hth hrn hpc
  · exact invh_wSpin k hk U thr c t th rn R hth hrn hpc
  · exact invh_wSet k hk U thr c t th rn R hth hrn hpc
  · exact invh_wRelease k hk U thr c t th rn R hth hrn hpc
  · exact invh_wWait k hk U thr c t th rn R hth hrn hpc
  · exact invh_dtor k hk U thr c t th rn R hth hrn hpc
  · exact invh_dtor2 k hk U thr c t th rn R hth hrn hpc
  · exact invh_hSpin k hk U thr c t th rn R hth hrn hpc
  · exact invh_hCas k hk U thr c t th rn R hth hrn hpc
  · exact invh_hGuard k hk U thr c t th rn R hth hrn hpc
  · exact invh_hSub k hk U thr c t th rn R hth hrn hpc
  · exact invh_hReady k hk U thr c t th rn R hth hrn hpc
  · exact invh_hWait k hk U thr c t th rn R hth hrn hpc
  · exact invh_hUnguard k hk U thr c t th rn R hth hrn hpc

theorem reach_step (k : Skel) (hk : k.ok = true) (U : Nat) (thr : Nat → Bool) (work : Nat → Nat) (conc : Nat) (c : CSt)
    (a : Tid × Act) (R : Reach k U thr c) : Reach k U thr (step k U thr work conc c a) := by
  obtain ⟨t, act⟩ := a
  cases act with
  | acc =>
    rcases step_acc_shape k U thr work conc c t R.t.host with h | ⟨th, hth, hne, hw, h⟩
    · rw [h]; exact R
    · rw [h, accOnce_ok k hk]
      have hi' := inv_step U thr c.o t R.i
      exact ⟨hi', invg_step U thr c.o t R.i R.g, invh_acc k hk U thr c t th R hth, invt_acc k U thr c t th R hth hne hw hi'⟩
  | begin => exact step_begin k U thr work conc c t R
  | take => exact step_take k U thr work conc c t R
  | fin => exact step_fin k U thr work conc c t R
  | nest v => rw [step_nest k hk]; exact R

theorem reach_runFrom (k : Skel) (hk : k.ok = true) (U : Nat) (thr : Nat → Bool) (work : Nat → Nat) (conc : Nat) :
    ∀ (sched : List (Tid × Act)) (c : CSt), Reach k U thr c → Reach k U thr (runFrom k U thr work conc c sched) := by
  intro sched
  induction sched with
  | nil => intro c h; exact h
  | cons a as ih => intro c h; exact ih _ (reach_step k hk U thr work conc c a h)

theorem reach_run (k : Skel) (hk : k.ok = true) (U : Nat) (thr : Nat → Bool) (work : Nat → Nat) (conc : Nat) (calls : List Nat)
    (hU : calls.length ≤ U) (sched : List (Tid × Act)) : Reach k U thr (run k U thr work conc calls sched) :=
  reach_runFrom k hk U thr work conc sched (init calls)
    ⟨inv_init U calls hU, invg_init thr calls, invh_init k calls, invt_init calls⟩

/-- an access of a caller that is not inside a task body and not at the user function is always enabled -/
theorem step_acc_enabled (k : Skel) (U : Nat) (thr : Nat → Bool) (work : Nat → Nat) (conc : Nat) (c : CSt) (t : Tid) (th : Th)
    (hf : hostFree c) (hth : c.o.ths[t]? = some th) (hx : t ∉ c.x.exec) (hpc : th.pc ≠ .wCall) :
    step k U thr work conc c (t, .acc) = { o := (accOnce k U thr c.o t).1, x := track k thr c.o t c.x } := by
  simp only [step, blocked_false c hf, Bool.or_false]
  simp [hx, hth, hpc]

/-- a caller that executes an inner task is at `wCall` or `hWait` -/
theorem exec_pc (k : Skel) (U : Nat) (thr : Nat → Bool) (c : CSt) (R : Reach k U thr c) (t : Tid) (th : Th)
    (hth : c.o.ths[t]? = some th) (hx : t ∈ c.x.exec) : th.pc = .wCall ∨ th.pc = .hWait := by
  rcases R.t.t5 t hx with h | ⟨th', hth', h⟩
  · exact absurd h (Nat.not_le.mpr (lt_length_of_get hth))
  · rw [hth] at hth'; cases hth'
    rcases h with h | h
    · exact Or.inl h.1
    · exact Or.inr h.1

end TbbVerif.C19.Collab
