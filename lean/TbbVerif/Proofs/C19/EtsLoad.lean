/-
C19 / EtsTable — load factor: tickets (`++my_count` values) are distinct, a thread inserts only into arrays of at
least twice its ticket, a key occurs at most once per array; hence every array is at most half full.
Second invariant (`TInv`), proved on top of `EInv`.
-/
import TbbVerif.Proofs.C19.EtsMain

namespace TbbVerif.C19.Ets

/-- key `t+1` does not occur in any array at chain position ≥ `b` -/
def Abs (arrs : List Arr) (t b : Nat) : Prop :=
  ∀ (j : Nat) (a : Arr) (idx : Nat), b ≤ j → arrs[j]? = some a → a.key idx ≠ t + 1

/-- the chain position from which on the thread's own key is known to be absent, by control state -/
def absB (th : Th) : Option Nat :=
  if th.created = 0 then some 0 else
  match th.pc with
  | .idle => none
  | .probe | .mtch | .top => some (th.r + 1)
  | .cnt | .root2 | .push => some 0
  | .ins => if th.ex then some (th.r + 1) else some 0
  | .insProbe | .claim => some th.r

structure GInv2 (arrs : List Arr) (ths : List Th) : Prop where
  /-- a key occurs at most once per array -/
  uniq : ∀ (j : Nat) (a : Arr) (idx idx' : Nat), arrs[j]? = some a → a.key idx ≠ 0 → a.key idx = a.key idx' → idx = idx'
  /-- an array holds only keys of threads whose ticket is at most half its size -/
  tick : ∀ (j : Nat) (a : Arr) (idx : Nat), arrs[j]? = some a → a.key idx ≠ 0 →
           ∃ th : Th, ths[a.key idx - 1]? = some th ∧ 2 * th.c ≤ a.size
  /-- tickets are distinct -/
  tk2  : ∀ (t t' : Nat) (th th' : Th), ths[t]? = some th → ths[t']? = some th' → th.created = 1 → th'.created = 1 →
           th.c = th'.c → t = t'

structure LInv2 (B : Nat) (arrs : List Arr) (count : Nat) (t : Nat) (th : Th) : Prop where
  tk1  : th.created = 1 → th.c ≤ count
  /-- once the thread is past the grow phase the root has at least twice its ticket many slots -/
  big  : th.created = 1 → (searchPc th.pc = true ∨ insPc th.pc = true) →
           ∃ last : Arr, arrs[arrs.length - 1]? = some last ∧ 2 * th.c ≤ last.size
  pshT : th.pc = .push → th.c ≤ 2 ^ (th.s - 1)
  insB : (th.pc = .insProbe ∨ th.pc = .claim) → ∃ a : Arr, arrs[th.r]? = some a ∧ 2 * th.c ≤ a.size
  abs  : ∀ b, absB th = some b → Abs arrs t b
  insX : th.pc = .ins → th.ex = true → th.created = 1 → th.r + 1 < arrs.length
  /-- the slots a search has passed in the current array are occupied by other keys -/
  curO : (th.pc = .probe ∨ th.pc = .mtch) → ∃ a : Arr, arrs[th.r]? = some a ∧
           ∃ d, th.i = (start B th.h a.lg + d) % a.size ∧
             ∀ d', d' < d → a.key ((start B th.h a.lg + d') % a.size) ≠ 0 ∧ a.key ((start B th.h a.lg + d') % a.size) ≠ t + 1
  mtK  : th.pc = .mtch → ∃ a : Arr, arrs[th.r]? = some a ∧ a.key th.i ≠ 0

structure TInv (B : Nat) (s : St) : Prop where
  g : GInv2 s.arrs s.ths
  l : ∀ (t : Nat) (th : Th), s.ths[t]? = some th → LInv2 B s.arrs s.count t th

/-! ### arithmetic -/

theorem le_two_pow_pred (c : Nat) (h : 1 ≤ c) : c ≤ 2 ^ (c - 1) := by
  obtain ⟨n, rfl⟩ : ∃ n, c = n + 1 := ⟨c - 1, by omega⟩
  simp only [Nat.add_sub_cancel]
  exact Nat.lt_two_pow_self

theorem growLg_spec (c : Nat) : ∀ (fuel s : Nat), c ≤ 2 ^ (s + fuel - 1) → c ≤ 2 ^ (growLg c fuel s - 1)
  | 0, s, h => by simpa [growLg] using h
  | fuel + 1, s, h => by
    simp only [growLg]
    split
    · exact growLg_spec c fuel (s + 1) (by have e : s + 1 + fuel = s + (fuel + 1) := by omega
                                           rw [e]; exact h)
    · omega

theorem growLg_ok (c s : Nat) (h : 1 ≤ c) : c ≤ 2 ^ (growLg c c s - 1) := by
  apply growLg_spec
  calc c ≤ 2 ^ (c - 1) := le_two_pow_pred c h
    _ ≤ 2 ^ (s + c - 1) := Nat.pow_le_pow_right (by decide) (by omega)

/-- lg is monotone along the chain -/
theorem lg_mono {B L0 : Nat} {arrs : List Arr} {ths : List Th} {locals : List Tid} (g : GInv B L0 arrs ths locals) :
    ∀ (n j : Nat) (a a' : Arr), arrs[j]? = some a → arrs[j + n]? = some a' → a.lg ≤ a'.lg := by
  intro n
  induction n with
  | zero => intro j a a' h h'; simp at h'; rw [h] at h'; cases h'; exact Nat.le_refl _
  | succ n ih =>
    intro j a a' h h'
    have hlt : j + n < arrs.length := by have := lt_length_of_get h'; omega
    obtain ⟨am, ham⟩ : ∃ am, arrs[j + n]? = some am := ⟨_, List.getElem?_eq_getElem hlt⟩
    have h1 := ih j a am h ham
    have h2 := g.lgI (j + n) am a' ham (by rw [Nat.add_assoc]; exact h')
    omega

theorem size_mono {a a' : Arr} (h : a.lg ≤ a'.lg) : a.size ≤ a'.size := Nat.pow_le_pow_right (by decide) h

/-! ### frame lemmas for the per-thread part -/

theorem Abs.push {arrs : List Arr} {t b : Nat} (h : Abs arrs t b) (lg : Nat) : Abs (arrs ++ [Arr.empty lg]) t b := by
  intro j a idx hb ha
  by_cases hj : j < arrs.length
  · rw [List.getElem?_append_left hj] at ha; exact h j a idx hb ha
  · rw [List.getElem?_append_right (by omega)] at ha
    by_cases hj' : j - arrs.length = 0
    · simp [hj'] at ha; subst ha; rw [key_empty]; omega
    · have : (j - arrs.length) ≥ 1 := by omega
      simp [List.getElem?_eq_none, this] at ha

theorem Abs.claim {arrs : List Arr} {t b : Nat} (h : Abs arrs t b) (r i k p : Nat) (a0 : Arr) (ha0 : arrs[r]? = some a0)
    (hk : k ≠ t + 1) : Abs (arrs.set r (a0.setSlot i k p)) t b := by
  intro j a idx hb ha
  rw [List.getElem?_set] at ha
  by_cases e : r = j
  · subst e; simp [lt_length_of_get ha0] at ha; subst ha
    rw [key_setSlot]
    split
    · exact hk
    · exact h r a0 idx hb ha0
  · simp [e] at ha; exact h j a idx hb ha

theorem LInv2.push {B : Nat} {arrs : List Arr} {count t : Nat} {th : Th} (l : LInv2 B arrs count t th) (lg : Nat)
    (hbig : ∀ last : Arr, arrs[arrs.length - 1]? = some last → last.lg < lg) : LInv2 B (arrs ++ [Arr.empty lg]) count t th := by
  have app : ∀ (j : Nat) (a : Arr), arrs[j]? = some a → (arrs ++ [Arr.empty lg])[j]? = some a := by
    intro j a h; rw [List.getElem?_append_left (lt_length_of_get h)]; exact h
  refine ⟨l.tk1, ?_, l.pshT, ?_, fun b hb => (l.abs b hb).push lg, ?_, ?_, ?_⟩
  · intro hc hp
    obtain ⟨old, hold, h1⟩ := l.big hc hp
    refine ⟨Arr.empty lg, ?_, ?_⟩
    · have e : (arrs ++ [Arr.empty lg]).length - 1 = arrs.length := by simp
      rw [e, List.getElem?_append_right (Nat.le_refl _)]; simp
    · have h2 := hbig old hold
      have : old.size ≤ (Arr.empty lg).size := size_mono (by show old.lg ≤ lg; omega)
      omega
  · intro hp; obtain ⟨a, h1, h2⟩ := l.insB hp; exact ⟨a, app _ _ h1, h2⟩
  · intro h1 h2 h3; have := l.insX h1 h2 h3; rw [List.length_append]; simp; omega
  · intro hp; obtain ⟨a, h1, h2⟩ := l.curO hp; exact ⟨a, app _ _ h1, h2⟩
  · intro hp; obtain ⟨a, h1, h2⟩ := l.mtK hp; exact ⟨a, app _ _ h1, h2⟩

/-- a claim by ANOTHER thread (key `k ≠ t+1`) of an empty slot -/
theorem LInv2.claim {B : Nat} {arrs : List Arr} {count t : Nat} {th : Th} (l : LInv2 B arrs count t th)
    (r i k p : Nat) (a0 : Arr) (ha0 : arrs[r]? = some a0) (h0 : a0.key i = 0) (hk : k ≠ t + 1) :
    LInv2 B (arrs.set r (a0.setSlot i k p)) count t th := by
  have hr := lt_length_of_get ha0
  have new : ∀ (j : Nat) (a : Arr), arrs[j]? = some a →
      ∃ a', (arrs.set r (a0.setSlot i k p))[j]? = some a' ∧ a'.lg = a.lg ∧ a'.size = a.size ∧
        (∀ idx, a.key idx ≠ 0 → a'.key idx = a.key idx) := by
    intro j a h
    by_cases e : r = j
    · subst e
      rw [ha0] at h; cases h
      exact ⟨a0.setSlot i k p, by rw [List.getElem?_set]; simp [hr], rfl, rfl, fun idx hn => key_setSlot_of_ne0 a0 i k p idx h0 hn⟩
    · exact ⟨a, by rw [List.getElem?_set]; simp [e, h], rfl, rfl, fun _ _ => rfl⟩
  refine ⟨l.tk1, ?_, l.pshT, ?_, fun b hb => (l.abs b hb).claim r i k p a0 ha0 hk, ?_, ?_, ?_⟩
  · intro hc hp
    obtain ⟨old, hold, h1⟩ := l.big hc hp
    obtain ⟨a', h2, _, h4, _⟩ := new _ old hold
    exact ⟨a', by rw [List.length_set]; exact h2, by rw [h4]; exact h1⟩
  · intro hp; obtain ⟨a, h1, h2⟩ := l.insB hp
    obtain ⟨a', h3, _, h4, _⟩ := new _ a h1
    exact ⟨a', h3, by rw [h4]; exact h2⟩
  · intro h1 h2 h3; rw [List.length_set]; exact l.insX h1 h2 h3
  · intro hp; obtain ⟨a, h1, d, hd1, hd2⟩ := l.curO hp
    obtain ⟨a', h3, h4, h5, h6⟩ := new _ a h1
    refine ⟨a', h3, d, by rw [h4, h5]; exact hd1, fun d' hd' => ?_⟩
    obtain ⟨e1, e2⟩ := hd2 d' hd'
    rw [h4, h5, h6 _ e1]; exact ⟨e1, e2⟩
  · intro hp; obtain ⟨a, h1, h2⟩ := l.mtK hp
    obtain ⟨a', h3, _, _, h6⟩ := new _ a h1
    exact ⟨a', h3, by rw [h6 _ h2]; exact h2⟩

theorem LInv2.count_mono {B : Nat} {arrs : List Arr} {count t : Nat} {th : Th} (l : LInv2 B arrs count t th) (n : Nat) (h : count ≤ n) :
    LInv2 B arrs n t th :=
  ⟨fun hc => Nat.le_trans (l.tk1 hc) h, l.big, l.pshT, l.insB, l.abs, l.insX, l.curO, l.mtK⟩

/-! ### frame lemmas for the table part -/

theorem GInv2.set_th {arrs : List Arr} {ths : List Th} (g : GInv2 arrs ths) (t : Nat) (th th' : Th)
    (hth : ths[t]? = some th) (hc : th'.c = th.c) (hcr : th'.created = th.created) : GInv2 arrs (ths.set t th') := by
  have hlt := lt_length_of_get hth
  have look : ∀ (t1 : Nat) (th1 : Th), (ths.set t th')[t1]? = some th1 →
      ∃ th0, ths[t1]? = some th0 ∧ th1.c = th0.c ∧ th1.created = th0.created := by
    intro t1 th1 h1
    rw [List.getElem?_set] at h1
    by_cases e : t = t1
    · subst e; simp [hlt] at h1; subst h1; exact ⟨th, hth, hc, hcr⟩
    · simp [e] at h1; exact ⟨th1, h1, rfl, rfl⟩
  refine ⟨g.uniq, ?_, ?_⟩
  · intro j a idx ha hk
    obtain ⟨th1, h1, h2⟩ := g.tick j a idx ha hk
    by_cases e : t = a.key idx - 1
    · rw [← e] at h1; rw [hth] at h1; cases h1
      exact ⟨th', by rw [← e, List.getElem?_set]; simp [hlt], by rw [hc]; exact h2⟩
    · exact ⟨th1, by rw [List.getElem?_set]; simp [e, h1], h2⟩
  · intro t1 t2 th1 th2 h1 h2 c1 c2 e
    obtain ⟨u1, g1, e1, f1⟩ := look t1 th1 h1
    obtain ⟨u2, g2, e2, f2⟩ := look t2 th2 h2
    exact g.tk2 t1 t2 u1 u2 g1 g2 (by rw [← f1]; exact c1) (by rw [← f2]; exact c2) (by rw [← e1, ← e2]; exact e)

theorem GInv2.push {arrs : List Arr} {ths : List Th} (g : GInv2 arrs ths) (lg : Nat) : GInv2 (arrs ++ [Arr.empty lg]) ths := by
  have cases : ∀ (j : Nat) (a : Arr), (arrs ++ [Arr.empty lg])[j]? = some a → (arrs[j]? = some a) ∨ (a = Arr.empty lg) := by
    intro j a h
    by_cases hj : j < arrs.length
    · rw [List.getElem?_append_left hj] at h; exact Or.inl h
    · rw [List.getElem?_append_right (by omega)] at h
      by_cases hj' : j - arrs.length = 0
      · simp [hj'] at h; exact Or.inr h.symm
      · have : (j - arrs.length) ≥ 1 := by omega
        simp [List.getElem?_eq_none, this] at h
  refine ⟨?_, ?_, g.tk2⟩
  · intro j a idx idx' ha hk
    rcases cases j a ha with h1 | rfl
    · exact g.uniq j a idx idx' h1 hk
    · exact absurd (key_empty lg idx) hk
  · intro j a idx ha hk
    rcases cases j a ha with h1 | rfl
    · exact g.tick j a idx h1 hk
    · exact absurd (key_empty lg idx) hk

theorem GInv2.claim {arrs : List Arr} {ths : List Th} (g : GInv2 arrs ths) (r i t p : Nat) (a0 : Arr) (th : Th)
    (ha0 : arrs[r]? = some a0) (hi : i < a0.keys.length) (hth : ths[t]? = some th)
    (hbig : 2 * th.c ≤ a0.size) (habs : Abs arrs t r) : GInv2 (arrs.set r (a0.setSlot i (t + 1) p)) ths := by
  have hr := lt_length_of_get ha0
  have old : ∀ (j : Nat) (a : Arr), (arrs.set r (a0.setSlot i (t + 1) p))[j]? = some a →
      (a = a0.setSlot i (t + 1) p) ∨ (arrs[j]? = some a) := by
    intro j a h
    rw [List.getElem?_set] at h
    by_cases e : r = j
    · subst e; simp [hr] at h; exact Or.inl h.symm
    · simp [e] at h; exact Or.inr h
  have hno : ∀ idx, a0.key idx ≠ t + 1 := fun idx => habs r a0 idx (Nat.le_refl _) ha0
  have hkey : ∀ idx, (a0.setSlot i (t + 1) p).key idx = if idx = i then t + 1 else a0.key idx := by
    intro idx; rw [key_setSlot]; simp [hi]
  refine ⟨?_, ?_, g.tk2⟩
  · intro j a idx idx' ha hk he
    rcases old j a ha with rfl | h1
    · rw [hkey] at hk he; rw [hkey] at he
      by_cases e1 : idx = i
      · by_cases e2 : idx' = i
        · rw [e1, e2]
        · simp [e1, e2] at he; exact absurd he.symm (hno idx')
      · by_cases e2 : idx' = i
        · simp [e1, e2] at he; exact absurd he (hno idx)
        · simp [e1, e2] at he; simp [e1] at hk; exact g.uniq r a0 idx idx' ha0 hk he
    · exact g.uniq j a idx idx' h1 hk he
  · intro j a idx ha hk
    rcases old j a ha with rfl | h1
    · rw [hkey] at hk ⊢
      by_cases e1 : idx = i
      · simp [e1]; exact ⟨th, hth, hbig⟩
      · simp [e1] at hk ⊢; exact g.tick r a0 idx ha0 hk
    · exact g.tick j a idx h1 hk

/-- `create_local(); ++my_count` by a thread without element: its ticket `count+1` is fresh -/
theorem GInv2.cnt {arrs : List Arr} {ths : List Th} (g : GInv2 arrs ths) (t count : Nat) (th th' : Th)
    (hth : ths[t]? = some th) (hc0 : th.created = 0) (hc : th'.c = count + 1)
    (habs : Abs arrs t 0) (htk : ∀ (t1 : Nat) (th1 : Th), ths[t1]? = some th1 → th1.created = 1 → th1.c ≤ count) :
    GInv2 arrs (ths.set t th') := by
  have hlt := lt_length_of_get hth
  refine ⟨g.uniq, ?_, ?_⟩
  · intro j a idx ha hk
    obtain ⟨th1, h1, h2⟩ := g.tick j a idx ha hk
    have hne : t ≠ a.key idx - 1 := by
      intro e
      have := habs j a idx (Nat.zero_le _) ha
      omega
    exact ⟨th1, by rw [List.getElem?_set]; simp [hne, h1], h2⟩
  · intro t1 t2 th1 th2 h1 h2 c1 c2 e
    rw [List.getElem?_set] at h1 h2
    by_cases e1 : t = t1
    · by_cases e2 : t = t2
      · omega
      · subst e1; simp [hlt] at h1; simp [e2] at h2; subst h1
        have := htk t2 th2 h2 c2; omega
    · by_cases e2 : t = t2
      · subst e2; simp [hlt] at h2; simp [e1] at h1; subst h2
        have := htk t1 th1 h1 c1; omega
      · simp [e1] at h1; simp [e2] at h2
        exact g.tk2 t1 t2 th1 th2 h1 h2 c1 c2 e

end TbbVerif.C19.Ets
