/- C19 / EtsTable — preservation of `TInv` by the create / grow / insert steps; `TInv` is reachable-invariant. -/
import TbbVerif.Proofs.C19.EtsLoadStep

namespace TbbVerif.C19.Ets

theorem tstep_cnt (B L0 : Nat) (s : St) (t : Tid) (th : Th) (h : EInv B L0 s) (ht : TInv B s)
    (hth : s.ths[t]? = some th) (hpc : th.pc = .cnt) : TInv B (step B L0 s t) := by
  have l := ht.l t th hth
  have el := h.l t th hth
  have hc0 := el.cnt0 hpc
  simp only [step, stepEv, hth, hpc]
  let th' : Th := { th with pc := .root2, found := s.locals.length + 1, ex := false, c := s.count + 1, created := th.created + 1, elem := s.locals.length + 1 }
  refine tinv_cnt ht t th th' hth hc0 rfl _ ?_
  refine ⟨fun _ => Nat.le_refl _, by simp [searchPc, insPc], by simp, by simp, ?_, by simp, by simp, by simp⟩
  intro b hb
  have e : absB th' = some 0 := by simp [absB, th']
  rw [e] at hb; cases hb
  exact l.abs 0 (by simp [absB, hc0])

theorem two_mul_half_le (c n : Nat) (h : ¬ c > n / 2) : 2 * c ≤ n := by omega

theorem tstep_root2 (B L0 : Nat) (s : St) (t : Tid) (th : Th) (h : EInv B L0 s) (ht : TInv B s)
    (hth : s.ths[t]? = some th) (hpc : th.pc = .root2) : TInv B (step B L0 s t) := by
  have l := ht.l t th hth
  have el := h.l t th hth
  have hf := el.fnd (by simp [hpc, foundPc])
  have hcr : th.created = 1 := (el.elm.1 hf.2).1
  have hc1 : 1 ≤ th.c := el.cpos hcr
  have hex := el.exF (Or.inl hpc)
  have habs : Abs s.arrs t 0 := l.abs 0 (by simp [absB, hcr, hpc])
  simp only [step, stepEv, hth, hpc]
  split
  · refine tinv_set_th ht t th _ hth rfl rfl ⟨l.tk1, by simp [searchPc, insPc], fun _ => growLg_ok _ _ hc1, by simp, ?_, by simp, by simp, by simp⟩
    intro b hb; simp [absB, hcr] at hb; subst hb; exact habs
  · rename_i a ha
    split
    · refine tinv_set_th ht t th _ hth rfl rfl ⟨l.tk1, by simp [searchPc, insPc], fun _ => growLg_ok _ _ hc1, by simp, ?_, by simp, by simp, by simp⟩
      intro b hb; simp [absB, hcr] at hb; subst hb; exact habs
    · rename_i hle
      refine tinv_set_th ht t th _ hth rfl rfl ⟨l.tk1, ?_, by simp, by simp, ?_, ?_, by simp, by simp⟩
      · intro _ _; exact ⟨a, ha, two_mul_half_le _ _ hle⟩
      · intro b hb; simp [absB, hcr, hex] at hb; subst hb; exact habs
      · intro _ he; simp [hex] at he

theorem tstep_push (B L0 : Nat) (hL : 1 ≤ L0) (s : St) (t : Tid) (th : Th) (h : EInv B L0 s) (ht : TInv B s)
    (hth : s.ths[t]? = some th) (hpc : th.pc = .push) : TInv B (step B L0 s t) := by
  have l := ht.l t th hth
  have el := h.l t th hth
  have hf := el.fnd (by simp [hpc, foundPc])
  have hcr : th.created = 1 := (el.elm.1 hf.2).1
  have hex := el.exF (Or.inr hpc)
  have habs : Abs s.arrs t 0 := l.abs 0 (by simp [absB, hcr, hpc])
  have hT := l.pshT hpc
  obtain ⟨p1, p2, p3⟩ := el.pshC hpc
  have hs1 : 1 ≤ th.s := Nat.le_trans hL p1
  have h2s : 2 * th.c ≤ 2 ^ th.s := by
    have : 2 ^ th.s = 2 * 2 ^ (th.s - 1) := by
      have e : th.s = (th.s - 1) + 1 := by omega
      rw [e, Nat.pow_succ]; simp; omega
    omega
  simp only [step, stepEv, hth, hpc]
  split
  · rename_i hR
    have hlast : ∀ last : Arr, s.arrs[s.arrs.length - 1]? = some last → last.lg < th.s := by
      intro last hlast
      have hne : th.nr ≠ 0 := by
        intro e; have := lt_length_of_get hlast; omega
      obtain ⟨a, ha, hlt⟩ := p3 hne
      rw [← hR] at ha; rw [ha] at hlast; cases hlast; exact hlt
    refine tinv_push ht t th { th with pc := .ins } hth rfl rfl th.s hlast ?_
    refine ⟨l.tk1, ?_, by simp, by simp, ?_, ?_, by simp, by simp⟩
    · intro _ _
      refine ⟨Arr.empty th.s, ?_, h2s⟩
      have e : (s.arrs ++ [Arr.empty th.s]).length - 1 = s.arrs.length := by simp
      rw [e, List.getElem?_append_right (Nat.le_refl _)]; simp
    · intro b hb; simp [absB, hcr, hex] at hb; subst hb; exact habs.push _
    · intro _ he; simp [hex] at he
  · rename_i hR
    have hpos : s.arrs.length ≠ 0 := by omega
    split
    · rename_i hnone
      have : s.arrs.length - 1 < s.arrs.length := by omega
      simp at hnone; omega
    · rename_i a ha
      split
      · rename_i hlg
        refine tinv_set_th ht t th _ hth rfl rfl ⟨l.tk1, ?_, by simp, by simp, ?_, ?_, by simp, by simp⟩
        · intro _ _
          refine ⟨a, ha, ?_⟩
          have : 2 ^ th.s ≤ 2 ^ a.lg := Nat.pow_le_pow_right (by decide) hlg
          show 2 * th.c ≤ 2 ^ a.lg
          omega
        · intro b hb; simp [absB, hcr, hex] at hb; subst hb; exact habs
        · intro _ he; simp [hex] at he
      · refine tinv_set_th ht t th _ hth rfl rfl ⟨l.tk1, by simp [hpc, searchPc, insPc], fun _ => hT, by simp [hpc], ?_, by simp [hpc], by simp [hpc], by simp [hpc]⟩
        intro b hb; simp [absB, hcr, hpc] at hb; subst hb; exact habs

theorem tstep_ins (B L0 : Nat) (s : St) (t : Tid) (th : Th) (h : EInv B L0 s) (ht : TInv B s)
    (hth : s.ths[t]? = some th) (hpc : th.pc = .ins) : TInv B (step B L0 s t) := by
  have l := ht.l t th hth
  have el := h.l t th hth
  have hf := el.fnd (by simp [hpc, foundPc])
  have hcr : th.created = 1 := (el.elm.1 hf.2).1
  have hne := el.insR (by simp [hpc, insPc])
  obtain ⟨last, hlast, hbig⟩ := l.big hcr (Or.inr (by simp [hpc, insPc]))
  simp only [step, stepEv, hth, hpc, hlast]
  have hlen : s.arrs.length ≠ 0 := fun e => hne (List.length_eq_zero_iff.mp e)
  refine tinv_set_th ht t th _ hth rfl rfl ⟨l.tk1, ?_, by simp, ?_, ?_, by simp, by simp, by simp⟩
  · intro _ _; exact ⟨last, hlast, hbig⟩
  · intro _; exact ⟨last, hlast, hbig⟩
  · intro b hb
    simp [absB, hcr] at hb; subst hb
    by_cases hex : th.ex = true
    · have h1 := l.abs (th.r + 1) (by simp [absB, hcr, hpc, hex])
      have h2 := l.insX hpc hex hcr
      exact h1.mono (by omega)
    · have h1 := l.abs 0 (by simp [absB, hcr, hpc, hex])
      exact h1.mono (Nat.zero_le _)

theorem tstep_insProbe (B L0 : Nat) (s : St) (t : Tid) (th : Th) (h : EInv B L0 s) (ht : TInv B s)
    (hth : s.ths[t]? = some th) (hpc : th.pc = .insProbe) : TInv B (step B L0 s t) := by
  have l := ht.l t th hth
  have el := h.l t th hth
  have hf := el.fnd (by simp [hpc, foundPc])
  have hcr : th.created = 1 := (el.elm.1 hf.2).1
  obtain ⟨a, ha, hi⟩ := el.curB (Or.inr (Or.inr (Or.inr (Or.inl hpc))))
  have hinsB := l.insB (Or.inl hpc)
  have habs := l.abs th.r (by simp [absB, hcr, hpc])
  have hbig := l.big hcr (Or.inr (by simp [hpc, insPc]))
  simp only [step, stepEv, hth, hpc, ha]
  split
  · refine tinv_set_th ht t th _ hth rfl rfl ⟨l.tk1, fun _ _ => hbig, by simp, fun _ => hinsB, ?_, by simp, by simp, by simp⟩
    intro b hb; simp [absB, hcr] at hb; subst hb; exact habs
  · refine tinv_set_th ht t th _ hth rfl rfl ⟨l.tk1, fun _ _ => hbig, by simp [hpc], fun _ => hinsB, ?_, by simp [hpc], by simp [hpc], by simp [hpc]⟩
    intro b hb; simp [absB, hcr, hpc] at hb; subst hb; exact habs

theorem tstep_claim (B L0 : Nat) (s : St) (t : Tid) (th : Th) (h : EInv B L0 s) (ht : TInv B s)
    (hth : s.ths[t]? = some th) (hpc : th.pc = .claim) : TInv B (step B L0 s t) := by
  have l := ht.l t th hth
  have el := h.l t th hth
  have hf := el.fnd (by simp [hpc, foundPc])
  have hcr : th.created = 1 := (el.elm.1 hf.2).1
  obtain ⟨a, ha, hi⟩ := el.curB (Or.inr (Or.inr (Or.inr (Or.inr hpc))))
  obtain ⟨a1, ha1, hinsB⟩ := l.insB (Or.inr hpc)
  rw [ha] at ha1; cases ha1
  have habs := l.abs th.r (by simp [absB, hcr, hpc])
  have hbig := l.big hcr (Or.inr (by simp [hpc, insPc]))
  have hw := h.g.wfA _ a ha
  simp only [step, stepEv, hth, hpc, ha]
  split
  · rename_i hk0
    have hr := lt_length_of_get ha
    refine tinv_claim ht t th (th.ret th.found th.ex) hth rfl rfl a ha hk0 (by rw [hw.1]; exact hi) hinsB habs th.found ?_
    refine ⟨l.tk1, ?_, by simp [Th.ret], by simp [Th.ret], ?_, by simp [Th.ret], by simp [Th.ret], by simp [Th.ret]⟩
    · intro _ _
      obtain ⟨last, hlast, hb⟩ := hbig
      by_cases e : s.arrs.length - 1 = th.r
      · rw [e, ha] at hlast; cases hlast
        exact ⟨a.setSlot th.i (t + 1) th.found, by rw [List.length_set, e, List.getElem?_set]; simp [hr], by rw [size_setSlot]; exact hb⟩
      · exact ⟨last, by rw [List.length_set, List.getElem?_set]; simp [Ne.symm e, hlast], hb⟩
    · intro b hb
      simp [absB, Th.ret, hcr] at hb
  · refine tinv_set_th ht t th _ hth rfl rfl ⟨l.tk1, fun _ _ => hbig, by simp, fun _ => ⟨a, ha, hinsB⟩, ?_, by simp, by simp, by simp⟩
    intro b hb; simp [absB, hcr] at hb; subst hb; exact habs

theorem tstep (B L0 : Nat) (hL : 1 ≤ L0) (s : St) (t : Tid) (h : EInv B L0 s) (ht : TInv B s) : TInv B (step B L0 s t) := by
  cases hth : s.ths[t]? with
  | none => simp [step, stepEv, hth]; exact ht
  | some th =>
    cases hpc : th.pc
    · exact tstep_idle B L0 s t th h ht hth hpc
    · exact tstep_probe B L0 s t th h ht hth hpc
    · exact tstep_mtch B L0 s t th h ht hth hpc
    · exact tstep_top B L0 s t th h ht hth hpc
    · exact tstep_cnt B L0 s t th h ht hth hpc
    · exact tstep_root2 B L0 s t th h ht hth hpc
    · exact tstep_push B L0 hL s t th h ht hth hpc
    · exact tstep_ins B L0 s t th h ht hth hpc
    · exact tstep_insProbe B L0 s t th h ht hth hpc
    · exact tstep_claim B L0 s t th h ht hth hpc

theorem tinv_init (B : Nat) (hs : List (Nat × Nat)) : TInv B (init hs) := by
  refine ⟨⟨?_, ?_, ?_⟩, ?_⟩
  · intro j a idx idx' h; simp [init] at h
  · intro j a idx h; simp [init] at h
  · intro t t' th th' h1 h2 c1
    obtain ⟨p, _, rfl⟩ := init_th hs t th h1
    simp at c1
  · intro t th h
    obtain ⟨p, _, rfl⟩ := init_th hs t th h
    refine ⟨by simp, by simp, by simp, by simp, ?_, by simp, by simp, by simp⟩
    intro b _ j a idx _ ha; simp [init] at ha

theorem both_reachable (B L0 : Nat) (hL : 1 ≤ L0) (hs : List (Nat × Nat)) (hB : ∀ p ∈ hs, p.1 < 2 ^ B) (sched : List Tid) :
    EInv B L0 ((sys B L0 hs).run sched) ∧ TInv B ((sys B L0 hs).run sched) :=
  Sys.inv_run (sys B L0 hs) (fun s => EInv B L0 s ∧ TInv B s) ⟨einv_init B L0 hs hB, tinv_init B hs⟩
    (fun s t h => ⟨estep B L0 hL s t h.1, tstep B L0 hL s t h.1 h.2⟩) sched

end TbbVerif.C19.Ets
