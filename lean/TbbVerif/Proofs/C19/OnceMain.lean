/- C19 / OnceFlag — `Inv` holds in every reachable state (all caller counts ≤ U, all schedules, all oracles). -/
import TbbVerif.Proofs.C19.OnceStepA
import TbbVerif.Proofs.C19.OnceStepB
import TbbVerif.Proofs.C19.OnceStepC
import TbbVerif.Proofs.C19.OnceStepD

namespace TbbVerif.C19.Once

theorem step_none_th (U : Nat) (thr : Nat → Bool) (s : St) (t : Tid) (h : s.ths[t]? = none) : step U thr s t = s := by
  simp [step, stepEv, h]

theorem step_none_rn (U : Nat) (thr : Nat → Bool) (s : St) (t : Tid) (h : s.rns[t]? = none) : step U thr s t = s := by
  simp only [step, stepEv, h]
  split <;> simp_all

theorem inv_step (U : Nat) (thr : Nat → Bool) (s : St) (t : Tid) (h : Inv U s) : Inv U (step U thr s t) := by
  cases hth : s.ths[t]? with
  | none => rw [step_none_th U thr s t hth]; exact h
  | some th =>
    cases hrn : s.rns[t]? with
    | none => rw [step_none_rn U thr s t hrn]; exact h
    | some rn =>
      cases hpc : th.pc
      · exact inv_idle U thr s t th rn h hth hrn hpc
      · exact inv_entry U thr s t th rn h hth hrn hpc
      · exact inv_winCas U thr s t th rn h hth hrn hpc
      · exact inv_wReady U thr s t th rn h hth hrn hpc
      · exact inv_wCall U thr s t th rn h hth hrn hpc
      · exact inv_wSpin U thr s t th rn h hth hrn hpc
      · exact inv_wSet U thr s t th rn h hth hrn hpc
      · exact inv_wRelease U thr s t th rn h hth hrn hpc
      · exact inv_wWait U thr s t th rn h hth hrn hpc
      · exact inv_dtor U thr s t th rn h hth hrn hpc
      · exact inv_dtor2 U thr s t th rn h hth hrn hpc
      · exact inv_hSpin U thr s t th rn h hth hrn hpc
      · exact inv_hCas U thr s t th rn h hth hrn hpc
      · exact inv_hGuard U thr s t th rn h hth hrn hpc
      · exact inv_hSub U thr s t th rn h hth hrn hpc
      · exact inv_hReady U thr s t th rn h hth hrn hpc
      · exact inv_hWait U thr s t th rn h hth hrn hpc
      · exact inv_hUnguard U thr s t th rn h hth hrn hpc

theorem init_th (calls : List Nat) (i : Nat) (th : Th) (h : (init calls).ths[i]? = some th) :
    th.pc = .idle ∧ th.pend = none ∧ th.rets = [] := by
  simp only [init, List.getElem?_map] at h
  cases hc : calls[i]? with
  | none => simp [hc] at h
  | some c => simp [hc] at h; subst h; simp

theorem init_rn (calls : List Nat) (i : Nat) (rn : Rn) (h : (init calls).rns[i]? = some rn) : rn = {} := by
  simp only [init, List.getElem?_map] at h
  cases hc : calls[i]? with
  | none => simp [hc] at h
  | some c => simp [hc] at h; exact h.symm

theorem init_count (calls : List Nat) (p : Th → Bool) (hp : ∀ th : Th, th.pc = .idle → p th = false) :
    (init calls).ths.countP p = 0 := by
  apply List.countP_eq_zero.mpr
  intro th hmem
  obtain ⟨i, hi⟩ := List.getElem?_of_mem hmem
  have := (init_th calls i th hi).1
  simp [hp th this]

theorem inv_init (U : Nat) (calls : List Nat) (hU : calls.length ≤ U) : Inv U (init calls) := by
  have hpin := init_count calls isPin (by intro th h; simp [isPin, h, pinPc])
  have hg := fun i => init_count calls (isGuardOn i) (by intro th h; simp [isGuardOn, h, guardPc])
  constructor
  · simp [init]
  · simpa [init] using hU
  · simp [init]
  · simp [init]
  · intro i th h; have := (init_th calls i th h).1; simp [this, ownerPc, init]
  · rw [hpin]; simp [init]
  · intro j th h; have := (init_th calls j th h).1; simp [this, pinPc]
  · intro i rn h; rw [hg i, init_rn calls i rn h]
  · intro i th rn h1 h2; rw [init_rn calls i rn h2, (init_th calls i th h1).1]; rfl
  · intro i rn h; rw [init_rn calls i rn h]; simp
  · intro i th rn h1 h2; rw [init_rn calls i rn h2]; simp
  · intro i th rn h1 h2; rw [(init_th calls i th h1).1]; simp
  · intro j th h; rw [(init_th calls j th h).1]; simp
  · intro j th h; rw [(init_th calls j th h).1]; simp
  · intro j th h; rw [(init_th calls j th h).1]; simp
  · intro j th h; rw [(init_th calls j th h).1]; simp [pinPc, guardPc]
  · rfl

/-- `Inv` holds in every reachable state. -/
theorem inv_reachable (U : Nat) (thr : Nat → Bool) (calls : List Nat) (hU : calls.length ≤ U) (sched : List Tid) :
    Inv U ((sys U thr calls).run sched) :=
  Sys.inv_run (sys U thr calls) (Inv U) (inv_init U calls hU) (fun s t h => inv_step U thr s t h) sched

end TbbVerif.C19.Once
