/-
C19 — lifecycle model (Model/C19Life.lean): the inductive invariant and its preservation by the three shapes of state
change: a `local()` that finds the thread's element (TLS cache or table), a `local()` that creates it, and a new
generation (clear / re-creation).
-/
import TbbVerif.Model.C19Life

namespace TbbVerif.C19.Life

structure Inv (s : St) : Prop where
  nbad : s.bad = false
  keyK : s.perInst = true → ∃ k, s.key = some k ∧ s.live = [k] ∧ k < s.nkeys
  keyN : s.perInst = false → s.key = none ∧ s.live = []
  tab : ∀ t p, s.table t = some p ↔ s.locals[p]? = some t
  nodup : s.locals.Nodup
  tls : ∀ t k g p, s.tls t k = some (g, p) → k < s.nkeys ∧ (s.key = some k → g = s.gen ∧ s.locals[p]? = some t)
  initsLe : ∀ t g, (t, g) ∈ s.inits → g ≤ s.gen
  initsCur : ∀ t, s.inits.count (t, s.gen) = if t ∈ s.locals then 1 else 0
  rets : ∀ r ∈ s.rets, r.cur ≤ s.gen ∧ r.pgen = r.cur ∧ r.own = true ∧ r.ex = !r.fresh ∧
      s.inits.count (r.tid, r.cur) = 1 ∧ (r.cur = s.gen → s.locals[r.pos]? = some r.tid)
  share : ∀ r ∈ s.rets, ∀ r' ∈ s.rets, r.cur = r'.cur → r.pos = r'.pos → r.tid = r'.tid
  acc : ∀ t, t ∈ s.locals ↔ ∃ r ∈ s.rets, r.tid = t ∧ r.cur = s.gen

theorem accessed_iff (s : St) (t : Tid) : accessed s t = true ↔ ∃ r ∈ s.rets, r.tid = t ∧ r.cur = s.gen := by
  simp [accessed, List.any_eq_true]

theorem mem_of_getElem? {l : List Tid} {p : Nat} {t : Tid} (h : l[p]? = some t) : t ∈ l :=
  List.mem_of_getElem? h

/-- a `local()` that returns the calling thread's existing element `p` (found through the TLS cache or in the table) -/
theorem inv_hit {s s' : St} (h : Inv s) (t : Tid) (p : Nat) (r : Ret) (hp : s.locals[p]? = some t)
    (e1 : s'.perInst = s.perInst) (e2 : s'.gen = s.gen) (e3 : s'.locals = s.locals) (e4 : s'.table = s.table)
    (e5 : s'.key = s.key) (e6 : s'.nkeys = s.nkeys) (e7 : s'.live = s.live) (e8 : s'.inits = s.inits) (e9 : s'.bad = s.bad)
    (etls : ∀ t' k g q, s'.tls t' k = some (g, q) → s.tls t' k = some (g, q) ∨ (t' = t ∧ g = s.gen ∧ q = p ∧ k < s.nkeys))
    (er : s'.rets = r :: s.rets) (r1 : r.tid = t) (r2 : r.cur = s.gen) (r3 : r.pgen = s.gen) (r4 : r.pos = p)
    (r5 : r.ex = true) (r6 : r.fresh = !accessed s t) (r7 : r.own = true) : Inv s' := by
  have htl : t ∈ s.locals := mem_of_getElem? hp
  have hacc : accessed s t = true := (accessed_iff s t).mpr ((h.acc t).mp htl)
  have hcnt : s.inits.count (t, s.gen) = 1 := by rw [h.initsCur t, if_pos htl]
  refine ⟨by rw [e9]; exact h.nbad, by rw [e1, e5, e7, e6]; exact h.keyK, by rw [e1, e5, e7]; exact h.keyN,
    by rw [e4, e3]; exact h.tab, by rw [e3]; exact h.nodup, ?_, by rw [e8, e2]; exact h.initsLe,
    by rw [e8, e2, e3]; exact h.initsCur, ?_, ?_, ?_⟩
  · intro t' k g q hq
    rw [e6, e5, e2, e3]
    rcases etls t' k g q hq with ho | ⟨ht, hg, hq', hk⟩
    · exact h.tls t' k g q ho
    · subst ht hg hq'; exact ⟨hk, fun _ => ⟨rfl, hp⟩⟩
  · intro x hx
    rw [er] at hx
    rw [e8, e2, e3]
    rcases List.mem_cons.mp hx with hx | hx
    · subst hx
      refine ⟨by omega, by rw [r3, r2], r7, by rw [r5, r6, hacc]; rfl, by rw [r1, r2]; exact hcnt, fun _ => by rw [r4, r1]; exact hp⟩
    · exact h.rets x hx
  · intro x hx y hy hxy hpos
    rw [er] at hx hy
    rcases List.mem_cons.mp hx with hx1 | hx1 <;> rcases List.mem_cons.mp hy with hy1 | hy1
    · rw [hx1, hy1]
    · rw [hx1] at hxy hpos ⊢
      have := (h.rets y hy1).2.2.2.2.2 (by rw [← hxy, r2])
      rw [← hpos, r4, hp] at this
      rw [r1]; exact Option.some.inj this
    · rw [hy1] at hxy hpos ⊢
      have := (h.rets x hx1).2.2.2.2.2 (by rw [hxy, r2])
      rw [hpos, r4, hp] at this
      rw [r1]; exact (Option.some.inj this).symm
    · exact h.share x hx1 y hy1 hxy hpos
  · intro t'
    rw [e3, er, e2, h.acc t']
    constructor
    · rintro ⟨x, hx, h1, h2⟩; exact ⟨x, List.mem_cons_of_mem _ hx, h1, h2⟩
    · rintro ⟨x, hx, h1, h2⟩
      rcases List.mem_cons.mp hx with hx | hx
      · subst hx
        have : t' = t := by rw [← h1, r1]
        subst this
        exact (h.acc t').mp htl
      · exact ⟨x, hx, h1, h2⟩

/-- a `local()` of a thread that has no element in the current generation: `create_local()` + insertion -/
theorem inv_create {s s' : St} (h : Inv s) (t : Tid) (r : Ret) (hnone : s.table t = none)
    (e1 : s'.perInst = s.perInst) (e2 : s'.gen = s.gen) (e3 : s'.locals = s.locals ++ [t])
    (e4 : s'.table = fun t' => if t' = t then some s.locals.length else s.table t')
    (e5 : s'.key = s.key) (e6 : s'.nkeys = s.nkeys) (e7 : s'.live = s.live) (e8 : s'.inits = (t, s.gen) :: s.inits) (e9 : s'.bad = s.bad)
    (etls : ∀ t' k g q, s'.tls t' k = some (g, q) → s.tls t' k = some (g, q) ∨ (t' = t ∧ g = s.gen ∧ q = s.locals.length ∧ k < s.nkeys))
    (er : s'.rets = r :: s.rets) (r1 : r.tid = t) (r2 : r.cur = s.gen) (r3 : r.pgen = s.gen) (r4 : r.pos = s.locals.length)
    (r5 : r.ex = false) (r6 : r.fresh = !accessed s t) (r7 : r.own = true) : Inv s' := by
  have hnl : t ∉ s.locals := by
    intro hm
    obtain ⟨p, hp, hpe⟩ := List.getElem_of_mem hm
    have : s.locals[p]? = some t := by rw [List.getElem?_eq_getElem hp, hpe]
    rw [(h.tab t p).mpr this] at hnone
    cases hnone
  have hacc : accessed s t = false := by
    cases hb : accessed s t
    · rfl
    · exact absurd ((h.acc t).mpr ((accessed_iff s t).mp hb)) hnl
  have hcnt0 : s.inits.count (t, s.gen) = 0 := by rw [h.initsCur t, if_neg hnl]
  have hnew : (s.locals ++ [t])[s.locals.length]? = some t := by simp
  have hold : ∀ (q : Nat) (t' : Tid), s.locals[q]? = some t' → (s.locals ++ [t])[q]? = some t' := by
    intro q t' hq
    have hlt : q < s.locals.length := by
      rcases Nat.lt_or_ge q s.locals.length with h1 | h1
      · exact h1
      · rw [List.getElem?_eq_none h1] at hq; cases hq
    rw [List.getElem?_append_left hlt]; exact hq
  refine ⟨by rw [e9]; exact h.nbad, by rw [e1, e5, e7, e6]; exact h.keyK, by rw [e1, e5, e7]; exact h.keyN, ?_, ?_, ?_, ?_, ?_, ?_, ?_, ?_⟩
  · -- tab
    intro t' p
    rw [e4, e3]
    by_cases ht : t' = t
    · subst ht
      simp only [if_true]
      constructor
      · intro hh; rw [← Option.some.inj hh]; exact hnew
      · intro hh
        rcases Nat.lt_trichotomy p s.locals.length with h1 | h1 | h1
        · rw [List.getElem?_append_left h1] at hh; exact absurd (mem_of_getElem? hh) hnl
        · rw [h1]
        · have : (s.locals ++ [t'])[p]? = none := List.getElem?_eq_none (by simp; omega)
          rw [this] at hh; cases hh
    · simp only [if_neg ht]
      rw [h.tab t' p]
      constructor
      · exact hold p t'
      · intro hh
        rcases Nat.lt_trichotomy p s.locals.length with h1 | h1 | h1
        · rw [List.getElem?_append_left h1] at hh; exact hh
        · rw [h1, hnew] at hh; exact absurd (Option.some.inj hh).symm ht
        · have : (s.locals ++ [t])[p]? = none := List.getElem?_eq_none (by simp; omega)
          rw [this] at hh; cases hh
  · -- nodup
    rw [e3]
    exact List.nodup_append.mpr ⟨h.nodup, (by simp), fun a ha b hb => by
      rw [List.mem_singleton] at hb; subst hb; intro hab; subst hab; exact hnl ha⟩
  · -- tls
    intro t' k g q hq
    rw [e6, e5, e2, e3]
    rcases etls t' k g q hq with ho | ⟨ht, hg, hq', hk⟩
    · obtain ⟨a, b⟩ := h.tls t' k g q ho
      exact ⟨a, fun hk => ⟨(b hk).1, hold q t' (b hk).2⟩⟩
    · subst ht hg hq'; exact ⟨hk, fun _ => ⟨rfl, hnew⟩⟩
  · -- initsLe
    intro t' g hm
    rw [e8] at hm; rw [e2]
    rcases List.mem_cons.mp hm with hm | hm
    · rw [Prod.mk.injEq] at hm; omega
    · exact h.initsLe t' g hm
  · -- initsCur
    intro t'
    rw [e8, e2, e3, List.count_cons, h.initsCur t']
    by_cases ht : t' = t
    · subst ht; simp [hnl]
    · have : ((t, s.gen) == (t', s.gen)) = false := by simp; exact fun hh => absurd hh.symm ht
      simp [this, ht]
  · -- rets
    intro x hx
    rw [er] at hx
    rw [e8, e2, e3]
    rcases List.mem_cons.mp hx with hx | hx
    · subst hx
      refine ⟨by omega, by rw [r3, r2], r7, by rw [r5, r6, hacc]; rfl, ?_, fun _ => by rw [r4, r1]; exact hnew⟩
      rw [r1, r2, List.count_cons, hcnt0]; simp
    · obtain ⟨a, b, c, d, e, f⟩ := h.rets x hx
      refine ⟨a, b, c, d, ?_, fun hh => hold _ _ (f hh)⟩
      rw [List.count_cons, e]
      have : ((t, s.gen) == (x.tid, x.cur)) = false := by
        simp only [beq_eq_false_iff_ne, ne_eq, Prod.mk.injEq, not_and]
        intro h1 h2
        exact hnl (by rw [h1]; exact mem_of_getElem? (f h2.symm))
      simp [this]
  · -- share
    intro x hx y hy hxy hpos
    rw [er] at hx hy
    have hno : ∀ z ∈ s.rets, z.cur = s.gen → z.pos ≠ s.locals.length := by
      intro z hz hc hpz
      have := (h.rets z hz).2.2.2.2.2 hc
      rw [hpz, List.getElem?_eq_none (Nat.le_refl _)] at this
      cases this
    rcases List.mem_cons.mp hx with hx1 | hx1 <;> rcases List.mem_cons.mp hy with hy1 | hy1
    · rw [hx1, hy1]
    · rw [hx1] at hxy hpos
      exact absurd (by rw [← hpos, r4]) (hno y hy1 (by rw [← hxy, r2]))
    · rw [hy1] at hxy hpos
      exact absurd (by rw [hpos, r4]) (hno x hx1 (by rw [hxy, r2]))
    · exact h.share x hx1 y hy1 hxy hpos
  · -- acc
    intro t'
    rw [e3, er, e2, List.mem_append, List.mem_singleton, h.acc t']
    constructor
    · rintro (⟨x, hx, h1, h2⟩ | ht)
      · exact ⟨x, List.mem_cons_of_mem _ hx, h1, h2⟩
      · exact ⟨r, List.mem_cons_self, by rw [r1, ht], r2⟩
    · rintro ⟨x, hx, h1, h2⟩
      rcases List.mem_cons.mp hx with hx | hx
      · subst hx; right; rw [← h1, r1]
      · left; exact ⟨x, hx, h1, h2⟩

/-- a new generation: `my_locals` emptied, the table emptied, and (ets_key_per_instance) a FRESH key — one for which
no thread has a value — or (ets_no_key) no key at all -/
theorem inv_newgen {s s' : St} (h : Inv s)
    (e1 : s'.perInst = s.perInst) (e2 : s'.gen = s.gen + 1) (e3 : s'.locals = []) (e4 : s'.table = fun _ => none)
    (e6 : s.nkeys ≤ s'.nkeys) (e8 : s'.inits = s.inits) (e9 : s'.bad = false) (etls : s'.tls = s.tls) (er : s'.rets = s.rets)
    (ekK : s.perInst = true → ∃ k, s'.key = some k ∧ s'.live = [k] ∧ s.nkeys ≤ k ∧ k < s'.nkeys)
    (ekN : s.perInst = false → s'.key = none ∧ s'.live = []) : Inv s' := by
  have hz : ∀ t, s.inits.count (t, s.gen + 1) = 0 := by
    intro t
    apply List.count_eq_zero.mpr
    intro hm
    have := h.initsLe t _ hm
    omega
  refine ⟨e9, ?_, by rw [e1]; exact ekN, ?_, by rw [e3]; exact List.nodup_nil, ?_, ?_, ?_, ?_, by rw [er]; exact h.share, ?_⟩
  · intro hp; rw [e1] at hp
    obtain ⟨k, a, b, _, d⟩ := ekK hp
    exact ⟨k, a, b, d⟩
  · intro t p; rw [e4, e3]; simp
  · intro t k g p hq
    rw [etls] at hq
    have hk := (h.tls t k g p hq).1
    refine ⟨by omega, fun hkey => ?_⟩
    exfalso
    cases hp : s.perInst
    · rw [(ekN hp).1] at hkey; cases hkey
    · obtain ⟨k', a, _, c, _⟩ := ekK hp
      rw [a] at hkey
      have := Option.some.inj hkey
      omega
  · intro t g hm; rw [e8] at hm; rw [e2]; have := h.initsLe t g hm; omega
  · intro t; rw [e8, e2, e3, hz t]; simp
  · intro x hx
    rw [er] at hx
    obtain ⟨a, b, c, d, e, _⟩ := h.rets x hx
    rw [e8, e2]
    exact ⟨by omega, b, c, d, e, fun hh => by omega⟩
  · intro t
    rw [e3, er, e2]
    constructor
    · intro hm; exact absurd hm List.not_mem_nil
    · rintro ⟨x, hx, _, h2⟩
      have := (h.rets x hx).1
      omega

end TbbVerif.C19.Life
