/- C19 / EtsTable — generic step shapes for `TInv` and its preservation by the search steps. -/
import TbbVerif.Proofs.C19.EtsLoad

namespace TbbVerif.C19.Ets

theorem Abs.mono {arrs : List Arr} {t b b' : Nat} (h : Abs arrs t b) (hb : b ≤ b') : Abs arrs t b' :=
  fun j a idx hj ha => h j a idx (Nat.le_trans hb hj) ha

theorem Abs.beyond (arrs : List Arr) (t b : Nat) (hb : arrs.length ≤ b) : Abs arrs t b := by
  intro j a idx hj ha
  have := lt_length_of_get ha
  omega

theorem tinv_set_th {B : Nat} {s : St} (h : TInv B s) (t : Nat) (th th' : Th) (hth : s.ths[t]? = some th)
    (hc : th'.c = th.c) (hcr : th'.created = th.created) (l' : LInv2 B s.arrs s.count t th') :
    TInv B { s with ths := s.ths.set t th' } := by
  refine ⟨h.g.set_th t th th' hth hc hcr, ?_⟩
  intro t1 th1 h1
  by_cases e : t = t1
  · subst e; rw [get_set_self th' hth] at h1; cases h1; exact l'
  · rw [get_set_ne th' e] at h1; exact h.l t1 th1 h1

theorem tinv_push {B : Nat} {s : St} (h : TInv B s) (t : Nat) (th th' : Th) (hth : s.ths[t]? = some th)
    (hc : th'.c = th.c) (hcr : th'.created = th.created) (lg : Nat)
    (hbig : ∀ last : Arr, s.arrs[s.arrs.length - 1]? = some last → last.lg < lg)
    (l' : LInv2 B (s.arrs ++ [Arr.empty lg]) s.count t th') :
    TInv B { s with arrs := s.arrs ++ [Arr.empty lg], ths := s.ths.set t th' } := by
  refine ⟨(h.g.push lg).set_th t th th' hth hc hcr, ?_⟩
  intro t1 th1 h1
  by_cases e : t = t1
  · subst e; rw [get_set_self th' hth] at h1; cases h1; exact l'
  · rw [get_set_ne th' e] at h1; exact (h.l t1 th1 h1).push lg hbig

theorem tinv_claim {B : Nat} {s : St} (h : TInv B s) (t : Nat) (th th' : Th) (hth : s.ths[t]? = some th)
    (hc : th'.c = th.c) (hcr : th'.created = th.created) (a0 : Arr) (ha0 : s.arrs[th.r]? = some a0)
    (h0 : a0.key th.i = 0) (hi : th.i < a0.keys.length) (hbig : 2 * th.c ≤ a0.size) (habs : Abs s.arrs t th.r) (p : Nat)
    (l' : LInv2 B (s.arrs.set th.r (a0.setSlot th.i (t + 1) p)) s.count t th') :
    TInv B { s with arrs := s.arrs.set th.r (a0.setSlot th.i (t + 1) p), ths := s.ths.set t th' } := by
  refine ⟨(h.g.claim th.r th.i t p a0 th ha0 hi hth hbig habs).set_th t th th' hth hc hcr, ?_⟩
  intro t1 th1 h1
  by_cases e : t = t1
  · subst e; rw [get_set_self th' hth] at h1; cases h1; exact l'
  · rw [get_set_ne th' e] at h1
    exact (h.l t1 th1 h1).claim _ _ _ _ a0 ha0 h0 (by omega)

theorem tinv_cnt {B : Nat} {s : St} (h : TInv B s) (t : Nat) (th th' : Th) (hth : s.ths[t]? = some th)
    (hc0 : th.created = 0) (hc : th'.c = s.count + 1) (locals' : List Tid)
    (l' : LInv2 B s.arrs (s.count + 1) t th') :
    TInv B { s with locals := locals', count := s.count + 1, ths := s.ths.set t th' } := by
  have habs : Abs s.arrs t 0 := (h.l t th hth).abs 0 (by simp [absB, hc0])
  refine ⟨h.g.cnt t s.count th th' hth hc0 hc habs (fun t1 th1 h1 c1 => (h.l t1 th1 h1).tk1 c1), ?_⟩
  intro t1 th1 h1
  by_cases e : t = t1
  · subst e; rw [get_set_self th' hth] at h1; cases h1; exact l'
  · rw [get_set_ne th' e] at h1; exact (h.l t1 th1 h1).count_mono _ (Nat.le_succ _)

/-- a search that sees an empty slot under its cursor knows its key is nowhere in the current array -/
theorem absent_of_empty {B L0 : Nat} {s : St} (h : EInv B L0 s) (t : Nat) (th : Th) (hth : s.ths[t]? = some th)
    (a : Arr) (ha : s.arrs[th.r]? = some a) (hk : a.key th.i = 0)
    (d : Nat) (hd1 : th.i = (start B th.h a.lg + d) % a.size)
    (hd2 : ∀ d', d' < d → a.key ((start B th.h a.lg + d') % a.size) ≠ 0 ∧ a.key ((start B th.h a.lg + d') % a.size) ≠ t + 1) :
    ∀ idx, a.key idx ≠ t + 1 := by
  intro idx hidx
  have hw := h.g.wfA _ a ha
  by_cases hi : idx < a.size
  · obtain ⟨th1, D, h1, h2, h3⟩ := h.g.path th.r a idx ha hi (by rw [hidx]; omega)
    have : a.key idx - 1 = t := by omega
    rw [this, hth] at h1; cases h1
    rcases Nat.lt_trichotomy D d with hlt | heq | hgt
    · have := (hd2 D hlt).2; rw [← h2] at this; exact this hidx
    · subst heq; rw [← h2] at hd1; rw [hd1] at hk; omega
    · have := h3.2 d hgt; rw [← hd1] at this; exact this hk
  · have : a.key idx = 0 := by
      simp only [Arr.key]
      rw [List.getD_eq_getElem?_getD, List.getElem?_eq_none (by omega)]; rfl
    omega

theorem tstep_idle (B L0 : Nat) (s : St) (t : Tid) (th : Th) (h : EInv B L0 s) (ht : TInv B s)
    (hth : s.ths[t]? = some th) (hpc : th.pc = .idle) : TInv B (step B L0 s t) := by
  have l := ht.l t th hth
  have el := h.l t th hth
  have hhB := h.g.hB t th hth
  simp only [step, stepEv, hth, hpc]
  split
  · exact ht
  · split
    · rename_i hnone
      have hemp := last_none _ hnone
      refine tinv_set_th ht t th _ hth rfl rfl ⟨l.tk1, by simp [searchPc, insPc], by simp, by simp, ?_, by simp, by simp, by simp⟩
      intro b _; rw [hemp]; intro j a idx _ ha; simp at ha
    · rename_i a ha
      have hsz : start B th.h a.lg < a.size := start_lt B th.h a.lg hhB
      have hlen : s.arrs.length ≠ 0 := by intro e; have := lt_length_of_get ha; omega
      refine tinv_set_th ht t th _ hth rfl rfl ⟨l.tk1, ?_, by simp, by simp, ?_, by simp, ?_, by simp⟩
      · intro hc _; exact l.big hc (Or.inl (by simp [hpc, searchPc]))
      · intro b hb
        by_cases hc0 : th.created = 0
        · simp [absB, hc0] at hb; subst hb; exact l.abs 0 (by simp [absB, hc0])
        · simp [absB, hc0] at hb; subst hb; exact Abs.beyond _ _ _ (by omega)
      · intro _; exact ⟨a, ha, 0, by show start B th.h a.lg = _; simp [Nat.mod_eq_of_lt hsz], fun d' hd' => absurd hd' (Nat.not_lt_zero _)⟩

theorem tstep_probe (B L0 : Nat) (s : St) (t : Tid) (th : Th) (h : EInv B L0 s) (ht : TInv B s)
    (hth : s.ths[t]? = some th) (hpc : th.pc = .probe) : TInv B (step B L0 s t) := by
  have l := ht.l t th hth
  have el := h.l t th hth
  have hhB := h.g.hB t th hth
  obtain ⟨a, ha, hi⟩ := el.curB (Or.inl hpc)
  obtain ⟨a1, ha1, d, hd1, hd2⟩ := l.curO (Or.inl hpc)
  rw [ha] at ha1; cases ha1
  have hsearch : searchPc th.pc = true := by simp [hpc, searchPc]
  simp only [step, stepEv, hth, hpc, ha]
  split
  · rename_i hk0
    have hno := absent_of_empty h t th hth a ha hk0 d hd1 hd2
    have habs' : th.created ≠ 0 → Abs s.arrs t th.r := by
      intro hc0
      have h1 := l.abs (th.r + 1) (by simp [absB, hc0, hpc])
      intro j a' idx hj ha'
      by_cases e : j = th.r
      · subst e; rw [ha] at ha'; cases ha'; exact hno idx
      · exact h1 j a' idx (by omega) ha'
    split
    · rename_i hr0
      refine tinv_set_th ht t th _ hth rfl rfl ⟨l.tk1, by simp [searchPc, insPc], by simp, by simp, ?_, by simp, by simp, by simp⟩
      intro b hb
      by_cases hc0 : th.created = 0
      · simp [absB, hc0] at hb; subst hb; exact l.abs 0 (by simp [absB, hc0])
      · simp [absB, hc0] at hb; subst hb; have := habs' hc0; rw [hr0] at this; exact this
    · rename_i hr0
      have hr := lt_length_of_get ha
      split
      · rename_i hnone
        have : th.r - 1 < s.arrs.length := by omega
        simp at hnone; omega
      · rename_i a' ha'
        have hsz : start B th.h a'.lg < a'.size := start_lt B th.h a'.lg hhB
        refine tinv_set_th ht t th _ hth rfl rfl ⟨l.tk1, ?_, by simp [hpc], by simp [hpc], ?_, by simp [hpc], ?_, by simp [hpc]⟩
        · intro hc _; exact l.big hc (Or.inl hsearch)
        · intro b hb
          by_cases hc0 : th.created = 0
          · simp [absB, hc0] at hb; subst hb; exact l.abs 0 (by simp [absB, hc0])
          · simp [absB, hc0, hpc] at hb; subst hb
            have e : th.r - 1 + 1 = th.r := by omega
            rw [e]; exact habs' hc0
        · intro _; exact ⟨a', ha', 0, by show start B th.h a'.lg = _; simp [Nat.mod_eq_of_lt hsz], fun d' hd' => absurd hd' (Nat.not_lt_zero _)⟩
  · rename_i hk
    refine tinv_set_th ht t th _ hth rfl rfl ⟨l.tk1, ?_, by simp, by simp, ?_, by simp, ?_, ?_⟩
    · intro hc _; exact l.big hc (Or.inl hsearch)
    · intro b hb; exact l.abs b (by simpa [absB, hpc] using hb)
    · intro _; exact ⟨a, ha, d, hd1, hd2⟩
    · intro _; exact ⟨a, ha, hk⟩

theorem tstep_mtch (B L0 : Nat) (s : St) (t : Tid) (th : Th) (h : EInv B L0 s) (ht : TInv B s)
    (hth : s.ths[t]? = some th) (hpc : th.pc = .mtch) : TInv B (step B L0 s t) := by
  have l := ht.l t th hth
  have el := h.l t th hth
  obtain ⟨a, ha, hi⟩ := el.curB (Or.inr (Or.inl hpc))
  obtain ⟨a1, ha1, d, hd1, hd2⟩ := l.curO (Or.inr hpc)
  rw [ha] at ha1; cases ha1
  obtain ⟨a2, ha2, hk0⟩ := l.mtK hpc
  rw [ha] at ha2; cases ha2
  have hsearch : searchPc th.pc = true := by simp [hpc, searchPc]
  simp only [step, stepEv, hth, hpc, ha]
  split
  · refine tinv_set_th ht t th _ hth rfl rfl ⟨l.tk1, ?_, by simp, by simp, ?_, by simp, by simp, by simp⟩
    · intro hc _; exact l.big hc (Or.inl hsearch)
    · intro b hb; exact l.abs b (by simpa [absB, hpc] using hb)
  · rename_i hk
    refine tinv_set_th ht t th _ hth rfl rfl ⟨l.tk1, ?_, by simp, by simp, ?_, by simp, ?_, by simp⟩
    · intro hc _; exact l.big hc (Or.inl hsearch)
    · intro b hb; exact l.abs b (by simpa [absB, hpc] using hb)
    · intro _
      refine ⟨a, ha, d + 1, ?_, ?_⟩
      · show (th.i + 1) % a.size = _
        rw [hd1, succ_mod_mod]; rfl
      · intro d' hd'
        rcases Nat.lt_or_eq_of_le (Nat.le_of_lt_succ hd') with h1 | h1
        · exact hd2 d' h1
        · subst h1; rw [← hd1]; exact ⟨hk0, hk⟩

theorem tstep_top (B L0 : Nat) (s : St) (t : Tid) (th : Th) (h : EInv B L0 s) (ht : TInv B s)
    (hth : s.ths[t]? = some th) (hpc : th.pc = .top) : TInv B (step B L0 s t) := by
  have l := ht.l t th hth
  have el := h.l t th hth
  obtain ⟨a, ha, hi⟩ := el.curB (Or.inr (Or.inr (Or.inl hpc)))
  have hsearch : searchPc th.pc = true := by simp [hpc, searchPc]
  have hr := lt_length_of_get ha
  simp only [step, stepEv, hth, hpc, ha]
  split
  · refine tinv_set_th ht t th _ hth rfl rfl ⟨l.tk1, ?_, by simp [Th.ret], by simp [Th.ret], ?_, by simp [Th.ret], by simp [Th.ret], by simp [Th.ret]⟩
    · intro hc _; exact l.big hc (Or.inl hsearch)
    · intro b hb
      by_cases hc0 : th.created = 0
      · have hc0' : (th.ret (a.ptr th.i) true).created = 0 := hc0
        simp [absB, hc0'] at hb; subst hb; exact l.abs 0 (by simp [absB, hc0])
      · simp [absB, Th.ret, hc0] at hb
  · rename_i hne
    refine tinv_set_th ht t th _ hth rfl rfl ⟨l.tk1, ?_, by simp, by simp, ?_, ?_, by simp, by simp⟩
    · intro hc _; exact l.big hc (Or.inl hsearch)
    · intro b hb; exact l.abs b (by simpa [absB, hpc] using hb)
    · intro _ _ _; show th.r + 1 < s.arrs.length; omega

end TbbVerif.C19.Ets
