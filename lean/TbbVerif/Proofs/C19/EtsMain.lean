/- C19 / EtsTable — `EInv` holds in every reachable state (any number of threads, hashes, schedules). -/
import TbbVerif.Proofs.C19.EtsStepA
import TbbVerif.Proofs.C19.EtsStepB

namespace TbbVerif.C19.Ets

theorem estep (B L0 : Nat) (hL : 1 ≤ L0) (s : St) (t : Tid) (h : EInv B L0 s) : EInv B L0 (step B L0 s t) := by
  cases hth : s.ths[t]? with
  | none => simp [step, stepEv, hth]; exact h
  | some th =>
    cases hpc : th.pc
    · exact estep_idle B L0 s t th h hth hpc
    · exact estep_probe B L0 s t th h hth hpc
    · exact estep_mtch B L0 s t th h hth hpc
    · exact estep_top B L0 s t th h hth hpc
    · exact estep_cnt B L0 s t th h hth hpc
    · exact estep_root2 B L0 hL s t th h hth hpc
    · exact estep_push B L0 s t th h hth hpc
    · exact estep_ins B L0 s t th h hth hpc
    · exact estep_insProbe B L0 s t th h hth hpc
    · exact estep_claim B L0 s t th h hth hpc

theorem init_th (hs : List (Nat × Nat)) (i : Nat) (th : Th) (h : (init hs).ths[i]? = some th) :
    ∃ p, hs[i]? = some p ∧ th = { h := p.1, todo := p.2 } := by
  simp only [init, List.getElem?_map] at h
  cases hc : hs[i]? with
  | none => simp [hc] at h
  | some p => simp [hc] at h; exact ⟨p, rfl, h.symm⟩

theorem einv_init (B L0 : Nat) (hs : List (Nat × Nat)) (hB : ∀ p ∈ hs, p.1 < 2 ^ B) : EInv B L0 (init hs) := by
  refine ⟨⟨?_, ?_, ?_, ?_, ?_, ?_⟩, ?_, rfl⟩
  · intro j a h; simp [init] at h
  · intro j a a' h; simp [init] at h
  · intro t th h
    obtain ⟨p, hp, rfl⟩ := init_th hs t th h
    exact hB p (List.mem_of_getElem? hp)
  · intro j a idx h; simp [init] at h
  · intro j a idx h; simp [init] at h
  · intro c hc; simp [init] at hc
  · intro t th h
    obtain ⟨p, hp, rfl⟩ := init_th hs t th h
    refine ⟨by simp [init], by simp, by simp, by simp [foundPc], by simp, by simp, by simp, by simp, by simp, ?_, ?_, by simp, by simp, by simp [insPc]⟩
    · intro hp; simp [placed] at hp
    · intro hp; simp [placed] at hp

/-- `EInv` holds in every reachable state. -/
theorem einv_reachable (B L0 : Nat) (hL : 1 ≤ L0) (hs : List (Nat × Nat)) (hB : ∀ p ∈ hs, p.1 < 2 ^ B) (sched : List Tid) :
    EInv B L0 ((sys B L0 hs).run sched) :=
  Sys.inv_run (sys B L0 hs) (EInv B L0) (einv_init B L0 hs hB) (fun s t h => estep B L0 hL s t h) sched

end TbbVerif.C19.Ets
