/- C19 / Store — invariant of `local()` with initialiser / allocation faults (operation-level model). -/
import TbbVerif.Model.C19Store

namespace TbbVerif.C19.Store

structure Inv (fault : Nat → Fault) (s : St) : Prop where
  att   : s.attempts = s.locals.length
  /-- a thread's slot points to its own, allocated, constructed and committed element -/
  slot  : ∀ (t : Nat) (th : Th) (e : Nat), s.ths[t]? = some th → th.slot = some e →
            e < s.locals.length ∧ ∀ el, s.locals[e]? = some el → el.owner = t ∧ el.alloc = true ∧ el.built = true ∧ el.cons = true
  /-- `is_built` ⇔ a value object exists ⇔ the element is the one its owner's slot points to -/
  elB   : ∀ (i : Nat) (e : Elem), s.locals[i]? = some e → e.built = true →
            e.cons = true ∧ e.alloc = true ∧ e.owner < s.ths.length ∧ ∀ th, s.ths[e.owner]? = some th → th.slot = some i
  elC   : ∀ (i : Nat) (e : Elem), s.locals[i]? = some e → e.cons = true → e.built = true
  /-- an element that is not built is the debris of the faulty `create_local` call number = its index -/
  elU   : ∀ (i : Nat) (e : Elem), s.locals[i]? = some e → e.built = false → fault i ≠ .none ∧ (e.alloc = true ↔ fault i = .initThrows)
  rElem : ∀ (t : Nat) (th : Th) (e : Nat) (x : Bool), s.ths[t]? = some th → Ret.elem e x ∈ th.rets → th.slot = some e
  rFst  : ∀ (t : Nat) (th : Th), s.ths[t]? = some th → th.firsts = (if th.slot = none then 0 else 1)
  /-- a failed `create_local` leaves its element behind: the thread's own, never constructed, never to be built -/
  rExc  : ∀ (t : Nat) (th : Th) (a : Nat), s.ths[t]? = some th → Ret.exc a ∈ th.rets →
            fault a ≠ .none ∧ a < s.locals.length ∧ ∀ el, s.locals[a]? = some el → el.owner = t ∧
              (el.alloc = true ↔ fault a = .initThrows) ∧ el.built = false ∧ el.cons = false
  /-- initialiser invocations of a thread = its failed ones + the successful one -/
  calls : ∀ (t : Nat) (th : Th), s.ths[t]? = some th → th.calls = th.ifail + (if th.slot = none then 0 else 1)

theorem lt_length_of_get {α} {l : List α} {i : Nat} {x : α} (h : l[i]? = some x) : i < l.length := by
  rcases Nat.lt_or_ge i l.length with h1 | h1
  · exact h1
  · simp [List.getElem?_eq_none h1] at h

theorem init_th (todo : List Nat) (i : Nat) (th : Th) (h : (init todo).ths[i]? = some th) :
    th.slot = none ∧ th.rets = [] ∧ th.calls = 0 ∧ th.ifail = 0 ∧ th.firsts = 0 := by
  simp only [init, List.getElem?_map] at h
  cases hc : todo[i]? with
  | none => simp [hc] at h
  | some c => simp [hc] at h; subst h; simp

theorem inv_init (fault : Nat → Fault) (todo : List Nat) : Inv fault (init todo) := by
  refine { att := rfl, slot := ?_, elB := ?_, elC := ?_, elU := ?_, rElem := ?_, rFst := ?_, rExc := ?_, calls := ?_ }
  · intro t th e h hs; rw [(init_th todo t th h).1] at hs; cases hs
  · intro i e h; simp [init] at h
  · intro i e h; simp [init] at h
  · intro i e h; simp [init] at h
  · intro t th e x h hm; rw [(init_th todo t th h).2.1] at hm; simp at hm
  · intro t th h; obtain ⟨h1, _, _, _, h5⟩ := init_th todo t th h; simp [h1, h5]
  · intro t th a h hm; rw [(init_th todo t th h).2.1] at hm; simp at hm
  · intro t th h; obtain ⟨h1, _, h3, h4, _⟩ := init_th todo t th h; simp [h1, h3, h4]

theorem append_get (l : List Elem) (e : Elem) (j : Nat) :
    (l ++ [e])[j]? = if j < l.length then l[j]? else if j = l.length then some e else none := by
  by_cases h : j < l.length
  · simp [h, List.getElem?_append_left h]
  · by_cases h2 : j = l.length
    · subst h2; simp
    · have : l.length < j := by omega
      simp [h, h2, List.getElem?_append_right (Nat.le_of_lt this)]
      omega

syntax "store_close" : tactic
set_option hygiene false in
macro_rules
  | `(tactic| store_close) => `(tactic| (
      refine { att := ?fa, slot := ?fc, elB := ?fe, elC := ?ff, elU := ?fu, rElem := ?fg, rFst := ?fh, rExc := ?fi, calls := ?fj }
      case fa => (try simp only [List.length_append, List.length_cons, List.length_nil]) <;> (first | assumption | omega)
      case fc => clear elU elC rElem rFst rExc calls <;> grind [append_get, Th.ret]
      case fe => clear elU elC rElem rFst rExc calls <;> grind [append_get, Th.ret]
      case ff => clear elU elB slot rElem rFst rExc calls <;> grind [append_get, Th.ret]
      case fu => clear elB elC slot rElem rFst rExc calls <;> grind [append_get, Th.ret]
      case fg => clear elU elB elC rFst rExc calls <;> grind [append_get, Th.ret]
      case fh => clear elU elB elC rElem rExc calls slot <;> grind [Th.ret]
      case fi => clear elU elB elC rElem rFst calls slot <;> grind [append_get, Th.ret]
      case fj => clear elU elB elC rElem rFst rExc slot <;> grind [Th.ret]))

theorem inv_found (fault : Nat → Fault) (s : St) (t : Tid) (th : Th) (e : Nat) (h : Inv fault s) (hth : s.ths[t]? = some th)
    (hs : th.slot = some e) : Inv fault { s with ths := s.ths.set t (th.ret (.elem e true)) } := by
  have hlt := lt_length_of_get hth
  obtain ⟨att, slot, elB, elC, elU, rElem, rFst, rExc, calls⟩ := h
  have rf := rFst t th hth
  have cl := calls t th hth
  store_close

theorem inv_alloc (fault : Nat → Fault) (s : St) (t : Tid) (th : Th) (h : Inv fault s) (hth : s.ths[t]? = some th)
    (hs : th.slot = none) (hf : fault s.attempts = .allocThrows) :
    Inv fault { s with attempts := s.attempts + 1, locals := s.locals ++ [{ owner := t, alloc := false }],
                       ths := s.ths.set t (th.ret (.exc s.attempts)) } := by
  have hlt := lt_length_of_get hth
  obtain ⟨att, slot, elB, elC, elU, rElem, rFst, rExc, calls⟩ := h
  have rf := rFst t th hth
  have cl := calls t th hth
  store_close

theorem inv_initf (fault : Nat → Fault) (s : St) (t : Tid) (th : Th) (h : Inv fault s) (hth : s.ths[t]? = some th)
    (hs : th.slot = none) (hf : fault s.attempts = .initThrows) :
    Inv fault { s with attempts := s.attempts + 1, locals := s.locals ++ [{ owner := t, built := false }], count := s.count,
                       ths := s.ths.set t (Th.ret { th with calls := th.calls + 1, ifail := th.ifail + 1, slot := none } (.exc s.attempts)) } := by
  have hlt := lt_length_of_get hth
  obtain ⟨att, slot, elB, elC, elU, rElem, rFst, rExc, calls⟩ := h
  have rf := rFst t th hth
  have cl := calls t th hth
  store_close

theorem inv_ok (fault : Nat → Fault) (s : St) (t : Tid) (th : Th) (h : Inv fault s) (hth : s.ths[t]? = some th)
    (hs : th.slot = none) (hf : fault s.attempts = .none) :
    Inv fault { s with attempts := s.attempts + 1, locals := s.locals ++ [{ owner := t, built := true, cons := true }], count := s.count + 1,
                       ths := s.ths.set t (Th.ret { th with calls := th.calls + 1, firsts := th.firsts + 1, slot := some s.locals.length }
                                (.elem s.locals.length false)) } := by
  have hlt := lt_length_of_get hth
  obtain ⟨att, slot, elB, elC, elU, rElem, rFst, rExc, calls⟩ := h
  have rf := rFst t th hth
  have cl := calls t th hth
  store_close

theorem inv_step (fault : Nat → Fault) (s : St) (t : Tid) (h : Inv fault s) : Inv fault (step Skel.expected fault s t) := by
  cases hth : s.ths[t]? with
  | none => simp only [step, hth]; exact h
  | some th =>
    simp only [step, hth, Skel.expected]
    by_cases h0 : th.todo = 0
    · simp only [h0, if_true]; exact h
    · simp only [h0, if_false]
      cases hs : th.slot with
      | some e => exact inv_found fault s t th e h hth hs
      | none =>
        cases hf : fault s.attempts with
        | none => simpa using inv_ok fault s t th h hth hs hf
        | initThrows => simpa using inv_initf fault s t th h hth hs hf
        | allocThrows => simpa using inv_alloc fault s t th h hth hs hf

theorem takeWhile_get (l : List Elem) : ∀ (a : Nat) (el : Elem), l[a]? = some el →
    (∀ j e, j ≤ a → l[j]? = some e → e.alloc = true) → (l.takeWhile (·.alloc))[a]? = some el := by
  induction l with
  | nil => intro a el h; simp at h
  | cons x xs ih =>
    intro a el h hall
    have hx : x.alloc = true := hall 0 x (Nat.zero_le _) (by simp)
    cases a with
    | zero => simp at h; subst h; simp [List.takeWhile_cons, hx]
    | succ a =>
      simp at h
      simp only [List.takeWhile_cons, hx, if_true, List.getElem?_cons_succ]
      exact ih a el h (fun j e hj hje => hall (j + 1) e (by omega) (by simpa using hje))

theorem takeWhile_all (l : List Elem) (h : ∀ e ∈ l, e.alloc = true) : l.takeWhile (·.alloc) = l := by
  induction l with
  | nil => rfl
  | cons x xs ih =>
    have hx : x.alloc = true := h x (by simp)
    simp only [List.takeWhile_cons, hx, if_true]
    rw [ih (fun e he => h e (by simp [he]))]

theorem inv_reachable (fault : Nat → Fault) (todo : List Nat) (sched : List Tid) :
    Inv fault ((sys Skel.expected fault todo).run sched) :=
  Sys.inv_run (sys Skel.expected fault todo) (Inv fault) (inv_init fault todo) (fun s t h => inv_step fault s t h) sched

end TbbVerif.C19.Store
