/- C19 / OnceFlag — preservation of `InvG` by the steps at pcs idle, entry, winCas, wReady, wCall, wSpin, wSet, wRelease, wWait. -/
import TbbVerif.Proofs.C19.OnceG
namespace TbbVerif.C19.Once

theorem invg_idle (U : Nat) (thr : Nat → Bool) (s : St) (t : Tid) (th : Th) (rn : Rn) (h : Inv U s) (g : InvG thr s)
    (hth : s.ths[t]? = some th) (hrn : s.rns[t]? = some rn) (hpc : th.pc = .idle) : InvG thr (step U thr s t) := by
  have hown := h.own
  have hot := h.own t th hth
  have hdesv := h.desv t th hth
  simp only [step, stepEv, hth, hrn, hpc]
  obtain ⟨hsle, hg1, hg4, hg2, hg3, hg5, hrok, hpnd, hx1, hx2, hx3⟩ := g
  (repeat' split) <;> (try dsimp only) <;> invg_close

theorem invg_entry (U : Nat) (thr : Nat → Bool) (s : St) (t : Tid) (th : Th) (rn : Rn) (h : Inv U s) (g : InvG thr s)
    (hth : s.ths[t]? = some th) (hrn : s.rns[t]? = some rn) (hpc : th.pc = .entry) : InvG thr (step U thr s t) := by
  have hown := h.own
  have hot := h.own t th hth
  have hdesv := h.desv t th hth
  simp only [step, stepEv, hth, hrn, hpc]
  obtain ⟨hsle, hg1, hg4, hg2, hg3, hg5, hrok, hpnd, hx1, hx2, hx3⟩ := g
  (repeat' split) <;> (try dsimp only) <;> invg_close

theorem invg_winCas (U : Nat) (thr : Nat → Bool) (s : St) (t : Tid) (th : Th) (rn : Rn) (h : Inv U s) (g : InvG thr s)
    (hth : s.ths[t]? = some th) (hrn : s.rns[t]? = some rn) (hpc : th.pc = .winCas) : InvG thr (step U thr s t) := by
  have hown := h.own
  have hot := h.own t th hth
  have hdesv := h.desv t th hth
  simp only [step, stepEv, hth, hrn, hpc]
  obtain ⟨hsle, hg1, hg4, hg2, hg3, hg5, hrok, hpnd, hx1, hx2, hx3⟩ := g
  (repeat' split) <;> (try dsimp only) <;> invg_close

theorem invg_wReady (U : Nat) (thr : Nat → Bool) (s : St) (t : Tid) (th : Th) (rn : Rn) (h : Inv U s) (g : InvG thr s)
    (hth : s.ths[t]? = some th) (hrn : s.rns[t]? = some rn) (hpc : th.pc = .wReady) : InvG thr (step U thr s t) := by
  have hown := h.own
  have hot := h.own t th hth
  have hdesv := h.desv t th hth
  simp only [step, stepEv, hth, hrn, hpc]
  obtain ⟨hsle, hg1, hg4, hg2, hg3, hg5, hrok, hpnd, hx1, hx2, hx3⟩ := g
  (repeat' split) <;> (try dsimp only) <;> invg_close

set_option maxHeartbeats 1000000 in
theorem invg_wCall (U : Nat) (thr : Nat → Bool) (s : St) (t : Tid) (th : Th) (rn : Rn) (h : Inv U s) (g : InvG thr s)
    (hth : s.ths[t]? = some th) (hrn : s.rns[t]? = some rn) (hpc : th.pc = .wCall) : InvG thr (step U thr s t) := by
  have hown := h.own
  have hot := h.own t th hth
  have hdesv := h.desv t th hth
  simp only [step, stepEv, hth, hrn, hpc]
  obtain ⟨hsle, hg1, hg4, hg2, hg3, hg5, hrok, hpnd, hx1, hx2, hx3⟩ := g
  (repeat' split) <;> (try dsimp only) <;> invg_close

theorem invg_wSpin (U : Nat) (thr : Nat → Bool) (s : St) (t : Tid) (th : Th) (rn : Rn) (h : Inv U s) (g : InvG thr s)
    (hth : s.ths[t]? = some th) (hrn : s.rns[t]? = some rn) (hpc : th.pc = .wSpin) : InvG thr (step U thr s t) := by
  have hown := h.own
  have hot := h.own t th hth
  have hdesv := h.desv t th hth
  simp only [step, stepEv, hth, hrn, hpc]
  obtain ⟨hsle, hg1, hg4, hg2, hg3, hg5, hrok, hpnd, hx1, hx2, hx3⟩ := g
  (repeat' split) <;> (try dsimp only) <;> invg_close

theorem invg_wSet (U : Nat) (thr : Nat → Bool) (s : St) (t : Tid) (th : Th) (rn : Rn) (h : Inv U s) (g : InvG thr s)
    (hth : s.ths[t]? = some th) (hrn : s.rns[t]? = some rn) (hpc : th.pc = .wSet) : InvG thr (step U thr s t) := by
  have hown := h.own
  have hot := h.own t th hth
  have hdesv := h.desv t th hth
  simp only [step, stepEv, hth, hrn, hpc]
  obtain ⟨hsle, hg1, hg4, hg2, hg3, hg5, hrok, hpnd, hx1, hx2, hx3⟩ := g
  (repeat' split) <;> (try dsimp only) <;> invg_close

theorem invg_wRelease (U : Nat) (thr : Nat → Bool) (s : St) (t : Tid) (th : Th) (rn : Rn) (h : Inv U s) (g : InvG thr s)
    (hth : s.ths[t]? = some th) (hrn : s.rns[t]? = some rn) (hpc : th.pc = .wRelease) : InvG thr (step U thr s t) := by
  have hown := h.own
  have hot := h.own t th hth
  have hdesv := h.desv t th hth
  simp only [step, stepEv, hth, hrn, hpc]
  obtain ⟨hsle, hg1, hg4, hg2, hg3, hg5, hrok, hpnd, hx1, hx2, hx3⟩ := g
  (repeat' split) <;> (try dsimp only) <;> invg_close

theorem invg_wWait (U : Nat) (thr : Nat → Bool) (s : St) (t : Tid) (th : Th) (rn : Rn) (h : Inv U s) (g : InvG thr s)
    (hth : s.ths[t]? = some th) (hrn : s.rns[t]? = some rn) (hpc : th.pc = .wWait) : InvG thr (step U thr s t) := by
  have hown := h.own
  have hot := h.own t th hth
  have hdesv := h.desv t th hth
  simp only [step, stepEv, hth, hrn, hpc]
  obtain ⟨hsle, hg1, hg4, hg2, hg3, hg5, hrok, hpnd, hx1, hx2, hx3⟩ := g
  (repeat' split) <;> (try dsimp only) <;> invg_close
end TbbVerif.C19.Once
