/- C19 / EtsTable — preservation of `EInv` by the create / grow / insert steps. -/
import TbbVerif.Proofs.C19.EtsStep
namespace TbbVerif.C19.Ets

theorem estep_cnt (B L0 : Nat) (s : St) (t : Tid) (th : Th) (h : EInv B L0 s)
    (hth : s.ths[t]? = some th) (hpc : th.pc = .cnt) : EInv B L0 (step B L0 s t) := by
  have l := h.l t th hth
  have hc0 := l.cnt0 hpc
  have he0 : th.elem = 0 := by
    by_cases e : th.elem = 0
    · exact e
    · have := (l.elm.1 e).1; omega
  simp only [step, stepEv, hth, hpc]
  refine einv_cnt h t th { th with pc := .root2, found := s.locals.length + 1, ex := false, c := s.count + 1,
                                   created := th.created + 1, elem := s.locals.length + 1 } hth rfl he0 _ ?_
  refine ⟨?_, ?_, ?_, ?_, by simp, by simp, by simp, by simp, by simp, ?_, by simp, by simp, by simp, by simp [insPc]⟩
  · show th.created + 1 = _ ∧ th.created + 1 ≤ 1
    rw [List.count_append]; simp
    have := l.cre.1
    omega
  · show (s.locals.length + 1 ≠ 0 → th.created + 1 = 1 ∧ (s.locals ++ [t])[s.locals.length + 1 - 1]? = some t) ∧ (th.created + 1 = 1 → s.locals.length + 1 ≠ 0)
    refine ⟨fun _ => ⟨by omega, by simp⟩, fun _ => by omega⟩
  · intro pe hpe
    have := (l.rts pe hpe).2
    exact absurd he0 this
  · intro _; exact ⟨rfl, by show s.locals.length + 1 ≠ 0; omega⟩
  · intro hp; simp [placed, searchPc, insPc] at hp

theorem two_pow_half (lg : Nat) (h : 1 ≤ lg) : 2 ^ lg / 2 = 2 ^ (lg - 1) := by
  have : lg = (lg - 1) + 1 := by omega
  rw [this, Nat.pow_succ]; simp

theorem estep_root2 (B L0 : Nat) (hL : 1 ≤ L0) (s : St) (t : Tid) (th : Th) (h : EInv B L0 s)
    (hth : s.ths[t]? = some th) (hpc : th.pc = .root2) : EInv B L0 (step B L0 s t) := by
  have l := h.l t th hth
  have hf := l.fnd (by simp [hpc, foundPc])
  have hc1 : 1 ≤ th.c := l.cpos (l.elm.1 hf.2).1
  have hex := l.exF (Or.inl hpc)
  simp only [step, stepEv, hth, hpc]
  split
  · refine einv_set_th h t th _ hth rfl rfl ⟨l.cre, l.elm, l.rts, fun _ => hf, l.cpos, by simp, fun _ => hex, by simp, by simp, ?_, by simp, by simp, ?_, by simp [insPc]⟩
    · intro hp; simp [placed, searchPc, insPc] at hp
    · intro _; exact ⟨growLg_ge _ _ _, Nat.zero_le _, fun hn => absurd rfl hn⟩
  · rename_i a ha
    have hlen : s.arrs.length ≠ 0 := by
      intro e; have := lt_length_of_get ha; omega
    split
    · rename_i hgt
      have hw := h.g.wfA _ a ha
      refine einv_set_th h t th _ hth rfl rfl ⟨l.cre, l.elm, l.rts, fun _ => hf, l.cpos, by simp, fun _ => hex, by simp, by simp, ?_, by simp, by simp, ?_, by simp [insPc]⟩
      · intro hp; simp [placed, searchPc, insPc] at hp
      · intro _
        refine ⟨Nat.le_trans hw.2.2 (growLg_ge _ _ _), Nat.le_refl _, fun _ => ⟨a, ha, ?_⟩⟩
        have h1 : 1 ≤ a.lg := Nat.le_trans hL hw.2.2
        have hgt' : th.c > 2 ^ (a.lg - 1) := by
          have := two_pow_half a.lg h1
          simp only [Arr.size] at hgt
          omega
        obtain ⟨f, hf'⟩ : ∃ f, th.c = f + 1 := ⟨th.c - 1, by omega⟩
        show a.lg < growLg th.c th.c a.lg
        rw [hf'] at hgt' ⊢
        exact growLg_gt _ f _ hgt'
    · refine einv_set_th h t th _ hth rfl rfl ⟨l.cre, l.elm, l.rts, fun _ => hf, l.cpos, by simp, by simp, by simp, by simp, ?_, by simp, by simp, by simp, ?_⟩
      · intro hp; simp [placed, searchPc, insPc, hex] at hp
      · intro _ he; rw [he] at ha; simp at ha

theorem estep_push (B L0 : Nat) (s : St) (t : Tid) (th : Th) (h : EInv B L0 s)
    (hth : s.ths[t]? = some th) (hpc : th.pc = .push) : EInv B L0 (step B L0 s t) := by
  have l := h.l t th hth
  have hf := l.fnd (by simp [hpc, foundPc])
  have hex := l.exF (Or.inr hpc)
  obtain ⟨p1, p2, p3⟩ := l.pshC hpc
  simp only [step, stepEv, hth, hpc]
  split
  · rename_i hR
    refine einv_push h t th { th with pc := .ins } hth rfl rfl th.s p1 ?_ ?_
    · intro last hlast
      have hne : th.nr ≠ 0 := by
        intro e; have := lt_length_of_get hlast; omega
      obtain ⟨a, ha, hlt⟩ := p3 hne
      rw [← hR] at ha; rw [ha] at hlast; cases hlast; exact hlt
    · refine ⟨l.cre, l.elm, l.rts, fun _ => hf, l.cpos, by simp, by simp, by simp, by simp, ?_, by simp, by simp, by simp, by simp⟩
      intro hp; simp [placed, searchPc, insPc, hex] at hp
  · rename_i hR
    have hpos : s.arrs.length ≠ 0 := by omega
    split
    · rename_i hnone
      have : s.arrs.length - 1 < s.arrs.length := by omega
      simp [List.getElem?_eq_none_iff] at hnone; omega
    · rename_i a ha
      split
      · refine einv_set_th h t th _ hth rfl rfl ⟨l.cre, l.elm, l.rts, fun _ => hf, l.cpos, by simp, by simp, by simp, by simp, ?_, by simp, by simp, by simp, ?_⟩
        · intro hp; simp [placed, searchPc, insPc, hex] at hp
        · intro _ he; rw [he] at ha; simp at ha
      · rename_i hlg
        refine einv_set_th h t th _ hth rfl rfl ⟨l.cre, l.elm, l.rts, fun _ => hf, l.cpos, by simp [hpc], fun _ => hex, by simp [hpc], by simp [hpc], ?_, by simp [hpc], by simp [hpc], ?_, by simp [hpc, insPc]⟩
        · intro hp; simp [placed, searchPc, insPc, hpc] at hp
        · intro _; exact ⟨p1, Nat.le_refl _, fun _ => ⟨a, ha, by show a.lg < th.s; omega⟩⟩

theorem estep_ins (B L0 : Nat) (s : St) (t : Tid) (th : Th) (h : EInv B L0 s)
    (hth : s.ths[t]? = some th) (hpc : th.pc = .ins) : EInv B L0 (step B L0 s t) := by
  have l := h.l t th hth
  have hhB := h.g.hB t th hth
  have hf := l.fnd (by simp [hpc, foundPc])
  have hne := l.insR (by simp [hpc, insPc])
  simp only [step, stepEv, hth, hpc]
  split
  · rename_i hnone
    exfalso
    have : s.arrs.length ≠ 0 := fun e => hne (List.length_eq_zero_iff.mp e)
    have h2 : s.arrs.length - 1 < s.arrs.length := by omega
    simp [List.getElem?_eq_none_iff] at hnone; omega
  · rename_i a ha
    have hsz : start B th.h a.lg < a.size := start_lt B th.h a.lg hhB
    refine einv_set_th h t th _ hth rfl rfl ⟨l.cre, l.elm, l.rts, fun _ => hf, l.cpos, by simp, by simp, ?_, by simp, ?_, by simp, ?_, by simp, fun _ => hne⟩
    · intro _; exact ⟨a, ha, hsz⟩
    · intro hp
      exact l.pres ⟨hp.1, Or.inr ⟨by simp [hpc, insPc], by simpa [placed, searchPc, insPc] using hp.2⟩⟩
    · intro a1 _ ha1
      rw [ha] at ha1; cases ha1
      refine ⟨0, ?_, fun d' hd' => absurd hd' (Nat.not_lt_zero _)⟩
      show start B th.h a.lg = _
      simp [Nat.mod_eq_of_lt hsz]

theorem estep_insProbe (B L0 : Nat) (s : St) (t : Tid) (th : Th) (h : EInv B L0 s)
    (hth : s.ths[t]? = some th) (hpc : th.pc = .insProbe) : EInv B L0 (step B L0 s t) := by
  have l := h.l t th hth
  have hf := l.fnd (by simp [hpc, foundPc])
  have hne := l.insR (by simp [hpc, insPc])
  obtain ⟨a, ha, hi⟩ := l.curB (Or.inr (Or.inr (Or.inr (Or.inl hpc))))
  obtain ⟨d, hd1, hd2⟩ := l.insC a (Or.inl hpc) ha
  have hpos : 0 < a.size := Nat.two_pow_pos _
  have hpl : ∀ th' : Th, placed th' → th'.created = th.created → th'.ex = th.ex → insPc th'.pc = true → placed th := by
    intro th' hp h1 h2 h3
    refine ⟨by rw [← h1]; exact hp.1, Or.inr ⟨by simp [hpc, insPc], ?_⟩⟩
    rcases hp.2 with h4 | h4
    · revert h3 h4; cases th'.pc <;> simp [insPc, searchPc]
    · rw [← h2]; exact h4.2
  simp only [step, stepEv, hth, hpc, ha]
  split
  · refine einv_set_th h t th _ hth rfl rfl ⟨l.cre, l.elm, l.rts, fun _ => hf, l.cpos, by simp, by simp, ?_, by simp, ?_, by simp, ?_, by simp, fun _ => hne⟩
    · intro _; exact ⟨a, ha, hi⟩
    · intro hp; exact l.pres (hpl _ hp rfl rfl (by simp [insPc]))
    · intro a1 _ ha1; rw [ha] at ha1; cases ha1; exact ⟨d, hd1, hd2⟩
  · rename_i hk
    refine einv_set_th h t th _ hth rfl rfl ⟨l.cre, l.elm, l.rts, fun _ => by simpa [hpc] using hf, l.cpos, by simp [hpc], by simp [hpc], ?_, by simp [hpc], ?_, by simp [hpc], ?_, by simp [hpc], fun _ => hne⟩
    · intro _; exact ⟨a, ha, Nat.mod_lt _ hpos⟩
    · intro hp; exact l.pres (hpl _ hp rfl rfl (by simp [insPc]))
    · intro a1 _ ha1
      rw [ha] at ha1; cases ha1
      refine ⟨d + 1, ?_, ?_⟩
      · show (th.i + 1) % a.size = _
        rw [hd1, succ_mod_mod]; rfl
      · intro d' hd'
        rcases Nat.lt_or_eq_of_le (Nat.le_of_lt_succ hd') with h1 | h1
        · exact hd2 d' h1
        · subst h1; rw [← hd1]; exact hk

theorem estep_claim (B L0 : Nat) (s : St) (t : Tid) (th : Th) (h : EInv B L0 s)
    (hth : s.ths[t]? = some th) (hpc : th.pc = .claim) : EInv B L0 (step B L0 s t) := by
  have l := h.l t th hth
  have hf := l.fnd (by simp [hpc, foundPc])
  have hne := l.insR (by simp [hpc, insPc])
  obtain ⟨a, ha, hi⟩ := l.curB (Or.inr (Or.inr (Or.inr (Or.inr hpc))))
  obtain ⟨d, hd1, hd2⟩ := l.insC a (Or.inr hpc) ha
  have hpos : 0 < a.size := Nat.two_pow_pos _
  have hw := h.g.wfA _ a ha
  simp only [step, stepEv, hth, hpc, ha]
  split
  · rename_i hk0
    have hr := lt_length_of_get ha
    have hnew : (s.arrs.set th.r (a.setSlot th.i (t + 1) th.found))[th.r]? = some (a.setSlot th.i (t + 1) th.found) := by
      rw [List.getElem?_set]; simp [hr]
    have hkey : (a.setSlot th.i (t + 1) th.found).key th.i = t + 1 := by
      rw [key_setSlot]; simp; omega
    refine einv_claim h t th (th.ret th.found th.ex) hth rfl rfl a ha hk0 hi hf.1 hf.2 ⟨d, hd1, hd2⟩ ?_
    refine ⟨l.cre, l.elm, ?_, by simp [Th.ret, foundPc], l.cpos, by simp [Th.ret], by simp [Th.ret], by simp [Th.ret], by simp [Th.ret], ?_, by simp [Th.ret], by simp [Th.ret], by simp [Th.ret], by simp [Th.ret, insPc]⟩
    · intro pe hpe
      simp only [Th.ret, List.mem_cons] at hpe
      rcases hpe with rfl | hpe
      · exact hf
      · exact l.rts pe hpe
    · intro _; exact ⟨th.r, _, th.i, hnew, hi, hkey⟩
  · rename_i hk
    have hpl : ∀ th' : Th, placed th' → th'.created = th.created → th'.ex = th.ex → insPc th'.pc = true → placed th := by
      intro th' hp h1 h2 h3
      refine ⟨by rw [← h1]; exact hp.1, Or.inr ⟨by simp [hpc, insPc], ?_⟩⟩
      rcases hp.2 with h4 | h4
      · revert h3 h4; cases th'.pc <;> simp [insPc, searchPc]
      · rw [← h2]; exact h4.2
    refine einv_set_th h t th _ hth rfl rfl ⟨l.cre, l.elm, l.rts, fun _ => hf, l.cpos, by simp, by simp, ?_, by simp, ?_, by simp, ?_, by simp, fun _ => hne⟩
    · intro _; exact ⟨a, ha, Nat.mod_lt _ hpos⟩
    · intro hp; exact l.pres (hpl _ hp rfl rfl (by simp [insPc]))
    · intro a1 _ ha1
      rw [ha] at ha1; cases ha1
      refine ⟨d + 1, ?_, ?_⟩
      · show (th.i + 1) % a.size = _
        rw [hd1, succ_mod_mod]; rfl
      · intro d' hd'
        rcases Nat.lt_or_eq_of_le (Nat.le_of_lt_succ hd') with h1 | h1
        · exact hd2 d' h1
        · subst h1; rw [← hd1]; exact hk
end TbbVerif.C19.Ets
