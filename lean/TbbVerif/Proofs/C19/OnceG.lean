/-
C19 / OnceFlag — second invariant: successful completions, outcomes of finished calls, exception routing.
Proved on top of `Inv` (which gives the exclusivity of the owner phase).
-/
import TbbVerif.Proofs.C19.OnceInv

namespace TbbVerif.C19.Once

def latePc : Pc → Bool
  | .wRelease | .wWait | .dtor | .dtor2 => true
  | _ => false

def pendPc : Pc → Bool
  | .wSpin | .wSet | .wRelease | .wWait | .dtor | .dtor2 => true
  | _ => false

structure InvG (thr : Nat → Bool) (s : St) : Prop where
  sle : s.succ ≤ 1
  g1  : s.word = Word.done → s.succ = 1
  g4  : s.word = Word.uninit → s.succ = 0
  /-- while the winner has not yet run the function, it has not completed successfully -/
  g2  : ∀ (i : Nat) (th : Th), s.ths[i]? = some th → (th.pc = .wReady ∨ th.pc = .wCall) → s.succ = 0
  /-- a winner installing its completion state: `done` after a success, `uninitialized` with the exception in flight -/
  g3  : ∀ (i : Nat) (th : Th), s.ths[i]? = some th → (th.pc = .wSpin ∨ th.pc = .wSet) →
          (th.des = Word.done ∧ th.pend = none ∧ s.succ = 1) ∨ (th.des = Word.uninit ∧ th.pend ≠ none ∧ s.succ = 0)
  /-- whoever is about to return normally does so after the successful completion -/
  g5  : ∀ (i : Nat) (th : Th), s.ths[i]? = some th → latePc th.pc = true → th.pend = none → s.succ = 1
  rok : ∀ (i : Nat) (th : Th) (k : Nat), s.ths[i]? = some th → Ret.ok k ∈ th.rets → k = 1
  pnd : ∀ (i : Nat) (th : Th), s.ths[i]? = some th → th.pend ≠ none → pendPc th.pc = true
  /-- an exception in flight belongs to the invocation its carrier ran, that invocation threw, not yet delivered -/
  x1  : ∀ (i : Nat) (th : Th) (k : Nat), s.ths[i]? = some th → th.pend = some k →
          s.winners[k]? = some i ∧ thr k = true ∧ Ret.exc k ∉ th.rets
  /-- a delivered exception was delivered to the caller that ran the throwing invocation, exactly once -/
  x2  : ∀ (i : Nat) (th : Th) (k : Nat), s.ths[i]? = some th → Ret.exc k ∈ th.rets →
          s.winners[k]? = some i ∧ thr k = true ∧ th.rets.count (Ret.exc k) = 1
  /-- no exception is lost: every throwing invocation's exception is in flight in, or was delivered to, its runner -/
  x3  : ∀ (k i : Nat), s.winners[k]? = some i → thr k = true →
          ∃ th, s.ths[i]? = some th ∧ (th.pend = some k ∨ Ret.exc k ∈ th.rets)

/-- the word of a caller about to `fetch_sub(1)` designates a runner and has a non-zero low part -/
theorem no_borrow (U : Nat) (s : St) (t : Tid) (th : Th) (h : Inv U s)
    (hth : s.ths[t]? = some th) (hpc : th.pc = .hSub) : s.word.hi ≠ 0 ∧ s.word.lo ≠ 0 := by
  have h1 := h.pinT t th hth (by simp [hpc, pinPc])
  have h2 := countP_pos_of_get isPin s.ths t th hth (by simp [isPin, hpc, pinPc])
  have h3 := h.pin
  have hhi : s.word.hi ≠ 0 := by omega
  simp [hhi] at h3
  exact ⟨hhi, by omega⟩

theorem count_exc_cons (k k1 : Nat) (l : List Ret) :
    List.count (Ret.exc k1) (Ret.exc k :: l) = List.count (Ret.exc k1) l + (if k = k1 then 1 else 0) := by
  rw [List.count_cons]
  by_cases h : k = k1 <;> simp [h]

theorem count_exc_cons_ok (n k1 : Nat) (l : List Ret) :
    List.count (Ret.exc k1) (Ret.ok n :: l) = List.count (Ret.exc k1) l := by
  rw [List.count_cons]; simp

syntax "invg_close" : tactic
macro_rules
  | `(tactic| invg_close) => `(tactic| (
      constructor
      all_goals (try assumption)
      all_goals grind [ownerPc, latePc, pendPc, Th.ret, Word.runner, Word.uninit, Word.done, Word.gtDone, Word.inc, Word.dec, count_exc_cons, count_exc_cons_ok]))

end TbbVerif.C19.Once
