/- C19 / EtsTable — pigeonhole: every array of the chain is at most half full, so it always has an empty slot. -/
import TbbVerif.Proofs.C19.EtsLoadStepB

namespace TbbVerif.C19.Ets

/-- distinct naturals from `[1, m]` are at most `m` many -/
theorem nodup_bound : ∀ (m : Nat) (l : List Nat), l.Nodup → (∀ x ∈ l, 1 ≤ x ∧ x ≤ m) → l.length ≤ m
  | 0, l, _, hb => by
    cases l with
    | nil => simp
    | cons x xs => have := hb x (by simp); omega
  | m + 1, l, hn, hb => by
    have hn' : (l.erase (m + 1)).Nodup := hn.erase _
    have hb' : ∀ x ∈ l.erase (m + 1), 1 ≤ x ∧ x ≤ m := by
      intro x hx
      have h1 := (hn.mem_erase_iff).mp hx
      have h2 := hb x h1.2
      exact ⟨h2.1, by have := h1.1; omega⟩
    have ih := nodup_bound m _ hn' hb'
    have hl := List.length_erase (a := m + 1) (l := l)
    split at hl <;> omega

/-- the occupied slots of an array -/
def occ (a : Arr) : List Nat := (List.range a.size).filter (fun idx => a.key idx != 0)

/-- ticket of the thread that owns key `k` -/
def ticketOf (ths : List Th) (k : Nat) : Nat :=
  match ths[k - 1]? with
  | some th => th.c
  | none => 0

theorem mem_occ (a : Arr) (idx : Nat) : idx ∈ occ a ↔ idx < a.size ∧ a.key idx ≠ 0 := by
  simp [occ]

theorem occ_nodup (a : Arr) : (occ a).Nodup := List.Nodup.sublist List.filter_sublist List.nodup_range

/-- **load ≤ 1/2** in every state satisfying the two invariants -/
theorem load_le_half {B L0 : Nat} {s : St} (h : EInv B L0 s) (ht : TInv B s) (j : Nat) (a : Arr) (ha : s.arrs[j]? = some a) :
    (occ a).length ≤ a.size / 2 := by
  -- facts about one occupied slot
  have fact : ∀ idx, idx ∈ occ a → ∃ th : Th, s.ths[a.key idx - 1]? = some th ∧ th.created = 1 ∧ 1 ≤ th.c ∧ 2 * th.c ≤ a.size := by
    intro idx hidx
    obtain ⟨_, hk⟩ := (mem_occ a idx).mp hidx
    obtain ⟨th1, h1, _, h3⟩ := h.g.slot j a idx ha hk
    obtain ⟨th2, h4, h5⟩ := ht.g.tick j a idx ha hk
    rw [h1] at h4; cases h4
    have l := h.l _ th1 h1
    have hcr := (l.elm.1 h3).1
    exact ⟨th1, h1, hcr, l.cpos hcr, h5⟩
  have hlen : (occ a).length = ((occ a).map (fun idx => ticketOf s.ths (a.key idx))).length := by simp
  rw [hlen]
  apply nodup_bound
  · -- tickets of distinct occupied slots are distinct
    rw [List.Nodup, List.pairwise_map]
    refine List.Pairwise.imp_of_mem ?_ (occ_nodup a)
    intro x y hx hy hne heq
    apply hne
    obtain ⟨thx, h1, c1, _, _⟩ := fact x hx
    obtain ⟨thy, h2, c2, _, _⟩ := fact y hy
    simp only [ticketOf, h1, h2] at heq
    have hk := ht.g.tk2 _ _ thx thy h1 h2 c1 c2 heq
    have kx := ((mem_occ a x).mp hx).2
    have ky := ((mem_occ a y).mp hy).2
    exact ht.g.uniq j a x y ha kx (by omega)
  · intro c hc
    obtain ⟨idx, hidx, rfl⟩ := List.mem_map.mp hc
    obtain ⟨th, h1, _, h3, h4⟩ := fact idx hidx
    simp only [ticketOf, h1]
    omega

/-- **an empty slot always exists** (the insert loop cannot run around a full array) -/
theorem empty_slot_exists {B L0 : Nat} {s : St} (h : EInv B L0 s) (ht : TInv B s) (j : Nat) (a : Arr) (ha : s.arrs[j]? = some a) :
    ∃ idx, idx < a.size ∧ a.key idx = 0 := by
  have hl := load_le_half h ht j a ha
  have hpos : 0 < a.size := Nat.two_pow_pos _
  apply Classical.byContradiction
  intro hno
  have hall : ∀ idx, idx < a.size → a.key idx ≠ 0 := by
    intro idx hi hk; exact hno ⟨idx, hi, hk⟩
  have : occ a = List.range a.size := by
    simp only [occ]
    apply List.filter_eq_self.mpr
    intro idx hidx
    simp at hidx
    simp [hall idx hidx]
  rw [this, List.length_range] at hl
  omega

end TbbVerif.C19.Ets
