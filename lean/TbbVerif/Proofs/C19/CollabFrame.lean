/- C19 / Collab — frame lemmas: what a `Once` step and the ghost bookkeeping leave unchanged. -/
import TbbVerif.Proofs.C19.CollabInv

namespace TbbVerif.C19.Collab
open Once

theorem step_ths_other (U : Nat) (thr : Nat → Bool) (s : St) (t i : Nat) (h : i ≠ t) :
    (Once.step U thr s t).ths[i]? = s.ths[i]? := by
  cases hth : s.ths[t]? with
  | none => simp [Once.step, Once.stepEv, hth]
  | some th =>
    cases hrn : s.rns[t]? with
    | none => simp [Once.step, Once.stepEv, hth, hrn]
    | some rn =>
      cases hpc : th.pc <;> simp only [Once.step, Once.stepEv, hth, hrn, hpc] <;> (repeat' split) <;>
        simp [List.getElem?_set, Ne.symm h]

theorem step_ths_len (U : Nat) (thr : Nat → Bool) (s : St) (t : Nat) :
    (Once.step U thr s t).ths.length = s.ths.length := by
  cases hth : s.ths[t]? with
  | none => simp [Once.step, Once.stepEv, hth]
  | some th =>
    cases hrn : s.rns[t]? with
    | none => simp [Once.step, Once.stepEv, hth, hrn]
    | some rn =>
      cases hpc : th.pc <;> simp only [Once.step, Once.stepEv, hth, hrn, hpc] <;> (repeat' split) <;> simp

theorem track_frame (k : Skel) (thr : Nat → Bool) (s : St) (t : Tid) (x : X) :
    (track k thr s t x).exec = x.exec ∧ (track k thr s t x).pool = x.pool ∧ (track k thr s t x).ran = x.ran ∧
    (track k thr s t x).total = x.total ∧ (track k thr s t x).host = x.host := by
  unfold track
  cases hth : s.ths[t]? with
  | none => simp
  | some th =>
    cases hrn : s.rns[t]? with
    | none => simp
    | some rn =>
      cases hpc : th.pc <;> simp only [] <;> (repeat' split) <;> simp

theorem track_st (k : Skel) (thr : Nat → Bool) (s : St) (t : Tid) (x : X) (th : Th) (rn : Rn)
    (hth : s.ths[t]? = some th) (hrn : s.rns[t]? = some rn) :
    (track k thr s t x).st = if th.pc = .wCall then 0 else x.st := by
  unfold track
  simp only [hth, hrn]
  cases hpc : th.pc <;> simp <;> (repeat' split) <;> simp

end TbbVerif.C19.Collab
