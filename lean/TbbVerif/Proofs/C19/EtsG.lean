/- C19 / EtsTable — the table part of the invariant under the three state-changing events
   (publishing a new array, claiming a slot, creating an element). -/
import TbbVerif.Proofs.C19.EtsInv

namespace TbbVerif.C19.Ets

theorem size_empty (lg : Nat) : (Arr.empty lg).size = 2 ^ lg := rfl

/-- publishing an empty array that is bigger than the current root -/
theorem GInv.push {B L0 : Nat} {arrs : List Arr} {ths : List Th} {locals : List Tid} (g : GInv B L0 arrs ths locals)
    (lg : Nat) (hL : L0 ≤ lg) (hlast : ∀ last : Arr, arrs[arrs.length - 1]? = some last → last.lg < lg) :
    GInv B L0 (arrs ++ [Arr.empty lg]) ths locals := by
  have cases : ∀ (j : Nat) (a : Arr), (arrs ++ [Arr.empty lg])[j]? = some a →
      (arrs[j]? = some a) ∨ (j = arrs.length ∧ a = Arr.empty lg) := by
    intro j a h
    by_cases hj : j < arrs.length
    · rw [List.getElem?_append_left hj] at h; exact Or.inl h
    · rw [List.getElem?_append_right (by omega)] at h
      by_cases hj' : j - arrs.length = 0
      · simp [hj'] at h; exact Or.inr ⟨by omega, h.symm⟩
      · have : (j - arrs.length) ≥ 1 := by omega
        simp [List.getElem?_eq_none, this] at h
  refine ⟨?_, ?_, g.hB, ?_, ?_, g.locB⟩
  · intro j a h
    rcases cases j a h with h1 | ⟨_, rfl⟩
    · exact g.wfA j a h1
    · simp [Arr.empty, Arr.size, hL]
  · intro j a a' h h'
    rcases cases j a h with h1 | ⟨e, _⟩
    · rcases cases (j + 1) a' h' with h2 | ⟨e2, rfl⟩
      · exact g.lgI j a a' h1 h2
      · have : j = arrs.length - 1 := by omega
        subst this
        exact hlast a h1
    · rcases cases (j + 1) a' h' with h2 | ⟨e2, _⟩
      · have := lt_length_of_get h2; omega
      · omega
  · intro j a idx h hk
    rcases cases j a h with h1 | ⟨_, rfl⟩
    · exact g.slot j a idx h1 hk
    · exact absurd (key_empty lg idx) hk
  · intro j a idx h hi hk
    rcases cases j a h with h1 | ⟨_, rfl⟩
    · exact g.path j a idx h1 hi hk
    · exact absurd (key_empty lg idx) hk

/-- a successful claim of the empty slot `(r,i)` by thread `t` after probing only occupied slots -/
theorem GInv.claim {B L0 : Nat} {arrs : List Arr} {ths : List Th} {locals : List Tid} (g : GInv B L0 arrs ths locals)
    (r i t : Nat) (a0 : Arr) (th : Th) (ha0 : arrs[r]? = some a0) (h0 : a0.key i = 0) (hi : i < a0.size)
    (hth : ths[t]? = some th) (he : th.elem ≠ 0)
    (hd : ∃ d, i = (start B th.h a0.lg + d) % a0.size ∧ Occupied B a0 th.h d) :
    GInv B L0 (arrs.set r (a0.setSlot i (t + 1) th.elem)) ths locals := by
  have hr := lt_length_of_get ha0
  obtain ⟨wk, wp, wl⟩ := g.wfA r a0 ha0
  have old : ∀ (j : Nat) (a : Arr), (arrs.set r (a0.setSlot i (t + 1) th.elem))[j]? = some a →
      (j = r ∧ a = a0.setSlot i (t + 1) th.elem) ∨ (j ≠ r ∧ arrs[j]? = some a) := by
    intro j a h
    rw [List.getElem?_set] at h
    by_cases e : r = j
    · subst e; simp [hr] at h; exact Or.inl ⟨rfl, h.symm⟩
    · simp [e] at h; exact Or.inr ⟨fun x => e x.symm, h⟩
  refine ⟨?_, ?_, g.hB, ?_, ?_, g.locB⟩
  · intro j a h
    rcases old j a h with ⟨_, rfl⟩ | ⟨_, h1⟩
    · simp [Arr.setSlot, Arr.size, List.length_set]
      exact ⟨wk, wp, wl⟩
    · exact g.wfA j a h1
  · intro j a a' h h'
    rcases old j a h with ⟨e, rfl⟩ | ⟨_, h1⟩
    · rcases old (j + 1) a' h' with ⟨e', _⟩ | ⟨_, h2⟩
      · omega
      · rw [lg_setSlot]; subst e; exact g.lgI _ a0 a' ha0 h2
    · rcases old (j + 1) a' h' with ⟨e', rfl⟩ | ⟨_, h2⟩
      · rw [lg_setSlot]; exact g.lgI j a a0 h1 (by rw [e']; exact ha0)
      · exact g.lgI j a a' h1 h2
  · intro j a idx h hk
    rcases old j a h with ⟨_, rfl⟩ | ⟨_, h1⟩
    · rw [key_setSlot, ptr_setSlot] at *
      by_cases e : idx = i
      · subst e
        have h1 : idx < a0.keys.length := by omega
        have h2 : idx < a0.ptrs.length := by omega
        simp [h1, h2]
        exact ⟨th, hth, rfl, he⟩
      · simp [e] at hk ⊢
        exact g.slot r a0 idx ha0 hk
    · exact g.slot j a idx h1 hk
  · intro j a idx h hi' hk
    rcases old j a h with ⟨_, rfl⟩ | ⟨_, h1⟩
    · by_cases e : idx = i
      · subst e
        have h1 : idx < a0.keys.length := by omega
        have hkk : (a0.setSlot idx (t + 1) th.elem).key idx = t + 1 := by rw [key_setSlot]; simp [h1]
        obtain ⟨d, hd1, hd2⟩ := hd
        rw [hkk]
        refine ⟨th, d, by simpa using hth, by rw [lg_setSlot, size_setSlot]; exact hd1, ?_, Occupied_setSlot B a0 idx _ _ th.h d h0 hd2⟩
        rw [lg_setSlot, size_setSlot, ← hd1]; exact hkk
      · have hk0 : a0.key idx ≠ 0 := by
          rw [key_setSlot] at hk; simpa [e] using hk
        have hke := key_setSlot_of_ne0 a0 i (t + 1) th.elem idx h0 hk0
        rw [hke]
        obtain ⟨th1, D, h2, h3, h4⟩ := g.path r a0 idx ha0 (by simpa [size_setSlot] using hi') hk0
        exact ⟨th1, D, h2, by rw [lg_setSlot, size_setSlot]; exact h3, PathTo_setSlot B a0 i _ _ th1.h _ D h0 hk0 h4⟩
    · exact g.path j a idx h1 hi' hk

/-- `create_local()` by a thread that had no element yet -/
theorem GInv.cnt {B L0 : Nat} {arrs : List Arr} {ths : List Th} {locals : List Tid} (g : GInv B L0 arrs ths locals)
    (t : Nat) (th th' : Th) (hth : ths[t]? = some th) (he : th.elem = 0) (hh : th'.h = th.h) :
    GInv B L0 arrs (ths.set t th') (locals ++ [t]) := by
  have hlt := lt_length_of_get hth
  refine ⟨g.wfA, g.lgI, ?_, ?_, ?_, ?_⟩
  · intro t1 th1 h1
    rw [List.getElem?_set] at h1
    by_cases e : t = t1
    · subst e; simp [hlt] at h1; subst h1; rw [hh]; exact g.hB t th hth
    · simp [e] at h1; exact g.hB t1 th1 h1
  · intro j a idx ha hk
    obtain ⟨th1, h1, h2, h3⟩ := g.slot j a idx ha hk
    by_cases e : t = a.key idx - 1
    · rw [← e] at h1; rw [hth] at h1; cases h1; exact absurd he h3
    · exact ⟨th1, by rw [List.getElem?_set]; simp [e, h1], h2, h3⟩
  · intro j a idx ha hi hk
    obtain ⟨th0, h01, _, h03⟩ := g.slot j a idx ha hk
    obtain ⟨th1, D, h1, h2, h3⟩ := g.path j a idx ha hi hk
    by_cases e : t = a.key idx - 1
    · rw [← e] at h01; rw [hth] at h01; cases h01; exact absurd he h03
    · exact ⟨th1, D, by rw [List.getElem?_set]; simp [e, h1], h2, h3⟩
  · intro c hc
    rw [List.length_set]
    rcases List.mem_append.mp hc with h | h
    · exact g.locB c h
    · simp at h; subst h; exact hlt

end TbbVerif.C19.Ets
