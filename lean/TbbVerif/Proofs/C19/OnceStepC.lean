/- C19 / OnceFlag — preservation of `Inv` by the steps at pcs hSpin, hCas, hGuard (one lemma per program counter). -/
import TbbVerif.Proofs.C19.OnceInv
namespace TbbVerif.C19.Once

set_option maxHeartbeats 1000000 in
theorem inv_hSpin (U : Nat) (thr : Nat → Bool) (s : St) (t : Tid) (th : Th) (rn : Rn) (h : Inv U s)
    (hth : s.ths[t]? = some th) (hrn : s.rns[t]? = some rn) (hpc : th.pc = .hSpin) : Inv U (step U thr s t) := by
  have hc := fun y => countP_set_add isPin s.ths t th y hth
  have hg := fun i y => countP_set_add (isGuardOn i) s.ths t th y hth
  simp only [step, stepEv, hth, hrn, hpc]
  obtain ⟨hlen, hnU, hwlo, hhiB, hown, hpin, hpinT, hrefc, halv, hsto, hrpos, hwcx, hrdy, hgtd, hdesv, htgtB, hnbad⟩ := h
  (repeat' split) <;> (try dsimp only) <;> inv_close

set_option maxHeartbeats 1000000 in
theorem inv_hCas (U : Nat) (thr : Nat → Bool) (s : St) (t : Tid) (th : Th) (rn : Rn) (h : Inv U s)
    (hth : s.ths[t]? = some th) (hrn : s.rns[t]? = some rn) (hpc : th.pc = .hCas) : Inv U (step U thr s t) := by
  have hnc := no_carry U s t th h hth hpc
  have hc := fun y => countP_set_add isPin s.ths t th y hth
  have hg := fun i y => countP_set_add (isGuardOn i) s.ths t th y hth
  simp only [step, stepEv, hth, hrn, hpc]
  obtain ⟨hlen, hnU, hwlo, hhiB, hown, hpin, hpinT, hrefc, halv, hsto, hrpos, hwcx, hrdy, hgtd, hdesv, htgtB, hnbad⟩ := h
  (repeat' split) <;> (try dsimp only) <;> inv_close

set_option maxHeartbeats 1000000 in
theorem inv_hGuard (U : Nat) (thr : Nat → Bool) (s : St) (t : Tid) (th : Th) (rn : Rn) (h : Inv U s)
    (hth : s.ths[t]? = some th) (hrn : s.rns[t]? = some rn) (hpc : th.pc = .hGuard) : Inv U (step U thr s t) := by
  have hc := fun y => countP_set_add isPin s.ths t th y hth
  have hg := fun i y => countP_set_add (isGuardOn i) s.ths t th y hth
  simp only [step, stepEv, hth, hrn, hpc]
  obtain ⟨hlen, hnU, hwlo, hhiB, hown, hpin, hpinT, hrefc, halv, hsto, hrpos, hwcx, hrdy, hgtd, hdesv, htgtB, hnbad⟩ := h
  have htgt : th.tgt + 1 = s.word.hi := hpinT t th hth (by simp [hpc, pinPc])
  have hown' : ∀ th1, s.ths[th.tgt]? = some th1 → winAlive th1.pc = true ∧ ownerPc th1.pc = true := by
    intro th1 h1
    have := (hown th.tgt th1 h1).2 htgt.symm
    revert this; cases th1.pc <;> simp [ownerPc, winAlive]
  (repeat' split) <;> (try dsimp only) <;> inv_close
end TbbVerif.C19.Once
