/- C19 / Collab — shape of a step, and preservation of the inner-task invariant `InvT` by every action. -/
import TbbVerif.Proofs.C19.CollabFrame

namespace TbbVerif.C19.Collab
open Once

theorem step_acc_shape (k : Skel) (U : Nat) (thr : Nat → Bool) (work : Nat → Nat) (conc : Nat) (c : CSt) (t : Tid)
    (hf : hostFree c) :
    step k U thr work conc c (t, .acc) = c ∨
    ∃ th, c.o.ths[t]? = some th ∧ c.x.exec.contains t = false ∧
      (th.pc = .wCall → c.x.st = 1 ∧ c.x.pool = 0 ∧ c.x.exec = []) ∧
      step k U thr work conc c (t, .acc) = { o := (accOnce k U thr c.o t).1, x := track k thr c.o t c.x } := by
  unfold step
  simp only [blocked_false c hf, Bool.or_false]
  by_cases hx0 : c.x.exec.contains t = true
  · left
    have hx : t ∈ c.x.exec := by simpa using hx0
    simp [hx]
  · have hx : t ∉ c.x.exec := by simpa using hx0
    cases hth : c.o.ths[t]? with
    | none => left; simp [hx]
    | some th =>
      by_cases hpc : th.pc = .wCall
      · by_cases hc : (c.x.st = 1 && c.x.pool == 0 && c.x.exec.isEmpty) = true
        · right
          refine ⟨th, rfl, by simpa using hx0, fun _ => ?_, by simp [hx, hpc, hc]⟩
          simp at hc
          exact ⟨hc.1.1, hc.1.2, hc.2⟩
        · left; simp [hx, hpc, hc]
      · right
        exact ⟨th, rfl, by simpa using hx0, fun h => absurd h hpc, by simp [hx, hpc]⟩

theorem invt_acc (k : Skel) (U : Nat) (thr : Nat → Bool) (c : CSt) (t : Tid) (th : Th)
    (R : Reach k U thr c) (hth : c.o.ths[t]? = some th) (hne : c.x.exec.contains t = false)
    (hw : th.pc = .wCall → c.x.st = 1 ∧ c.x.pool = 0 ∧ c.x.exec = [])
    (hi' : Inv U (Once.step U thr c.o t)) :
    InvT { o := Once.step U thr c.o t, x := track k thr c.o t c.x } := by
  have hlt := lt_length_of_get hth
  obtain ⟨rn, hrn⟩ : ∃ rn, c.o.rns[t]? = some rn := ⟨c.o.rns[t]'(by rw [R.i.len]; exact hlt), by simp [R.i.len, hlt]⟩
  obtain ⟨hex, hpool, hran, htot, hhost⟩ := track_frame k thr c.o t c.x
  have hst := track_st k thr c.o t c.x th rn hth hrn
  -- while tasks exist the owner is another thread inside the function, and the pointer bits do not move
  have key : c.x.st = 1 → th.pc ≠ .wCall → ∃ (i : Nat) (thi : Th), i ≠ t ∧ c.o.word.hi = i + 1 ∧
      (Once.step U thr c.o t).word.hi = i + 1 ∧ (Once.step U thr c.o t).ths[i]? = some thi ∧ thi.pc = .wCall := by
    intro h1 hpc
    obtain ⟨i, thi, hw1, hthi, hpci⟩ := R.t.t2 h1
    have hit : i ≠ t := by
      intro e; subst e; rw [hth] at hthi; cases hthi; exact hpc hpci
    have h' : (Once.step U thr c.o t).ths[i]? = some thi := by rw [step_ths_other U thr c.o t i hit]; exact hthi
    exact ⟨i, thi, hit, hw1, (hi'.own i thi h').1 (by simp [hpci, ownerPc]), h', hpci⟩
  refine { t01 := ?_, t1 := ?_, t2 := ?_, t4 := ?_, t6 := ?_, t5 := ?_, host := ?_ }
  · show (track k thr c.o t c.x).st = 0 ∨ (track k thr c.o t c.x).st = 1
    rw [hst]; split
    · exact Or.inl rfl
    · exact R.t.t01
  · show (track k thr c.o t c.x).st = 0 → (track k thr c.o t c.x).pool = 0 ∧ (track k thr c.o t c.x).exec = []
    rw [hst, hpool, hex]
    split
    · rename_i hpc; intro _; exact ⟨(hw hpc).2.1, (hw hpc).2.2⟩
    · exact R.t.t1
  · show (track k thr c.o t c.x).st = 1 → _
    rw [hst]
    split
    · intro h; simp at h
    · rename_i hpc
      intro h1
      obtain ⟨i, thi, _, _, h2, h3, h4⟩ := key h1 hpc
      exact ⟨i, thi, h2, h3, h4⟩
  · show (track k thr c.o t c.x).st = 1 → (track k thr c.o t c.x).ran + (track k thr c.o t c.x).pool + (track k thr c.o t c.x).exec.length = (track k thr c.o t c.x).total
    rw [hst, hpool, hex, hran, htot]
    split
    · intro h; simp at h
    · exact R.t.t4
  · show (track k thr c.o t c.x).exec.Nodup
    rw [hex]; exact R.t.t6
  · show ∀ e ∈ (track k thr c.o t c.x).exec, _
    rw [hex]
    intro e he
    have het : e ≠ t := by
      intro h; subst h
      have : c.x.exec.contains e = true := by simpa using he
      rw [hne] at this; cases this
    have hst1 : c.x.st = 1 := by
      rcases R.t.t01 with h0 | h1
      · have := (R.t.t1 h0).2; rw [this] at he; cases he
      · exact h1
    have hpc : th.pc ≠ .wCall := by
      intro h; have := (hw h).2.2; rw [this] at he; cases he
    obtain ⟨i, thi, _, hw1, hw2, _, _⟩ := key hst1 hpc
    rcases R.t.t5 e he with h | ⟨the, hthe, h⟩
    · left; show e ≥ (Once.step U thr c.o t).ths.length; rw [step_ths_len]; exact h
    · right
      refine ⟨the, by show (Once.step U thr c.o t).ths[e]? = some the; rw [step_ths_other U thr c.o t e het]; exact hthe, ?_⟩
      show (the.pc = .wCall ∧ (Once.step U thr c.o t).word.hi = e + 1) ∨ (the.pc = .hWait ∧ the.tgt + 1 = (Once.step U thr c.o t).word.hi)
      rw [hw2]; rw [hw1] at h; exact h
  · intro v
    show (track k thr c.o t c.x).host.getD v none = none
    rw [hhost]; exact R.t.host v

end TbbVerif.C19.Collab
