/- C19 / OnceFlag — preservation of `Inv` by the steps at pcs wSpin, wSet, wRelease, wWait, dtor, dtor2 (one lemma per program counter). -/
import TbbVerif.Proofs.C19.OnceInv
namespace TbbVerif.C19.Once

theorem inv_wSpin (U : Nat) (thr : Nat → Bool) (s : St) (t : Tid) (th : Th) (rn : Rn) (h : Inv U s)
    (hth : s.ths[t]? = some th) (hrn : s.rns[t]? = some rn) (hpc : th.pc = .wSpin) : Inv U (step U thr s t) := by
  have hc := fun y => countP_set_add isPin s.ths t th y hth
  have hg := fun i y => countP_set_add (isGuardOn i) s.ths t th y hth
  simp only [step, stepEv, hth, hrn, hpc]
  obtain ⟨hlen, hnU, hwlo, hhiB, hown, hpin, hpinT, hrefc, halv, hsto, hrpos, hwcx, hrdy, hgtd, hdesv, htgtB, hnbad⟩ := h
  (repeat' split) <;> (try dsimp only) <;> inv_close

theorem inv_wSet (U : Nat) (thr : Nat → Bool) (s : St) (t : Tid) (th : Th) (rn : Rn) (h : Inv U s)
    (hth : s.ths[t]? = some th) (hrn : s.rns[t]? = some rn) (hpc : th.pc = .wSet) : Inv U (step U thr s t) := by
  have hc := fun y => countP_set_add isPin s.ths t th y hth
  have hg := fun i y => countP_set_add (isGuardOn i) s.ths t th y hth
  simp only [step, stepEv, hth, hrn, hpc]
  obtain ⟨hlen, hnU, hwlo, hhiB, hown, hpin, hpinT, hrefc, halv, hsto, hrpos, hwcx, hrdy, hgtd, hdesv, htgtB, hnbad⟩ := h
  (repeat' split) <;> (try dsimp only) <;> inv_close

theorem inv_wRelease (U : Nat) (thr : Nat → Bool) (s : St) (t : Tid) (th : Th) (rn : Rn) (h : Inv U s)
    (hth : s.ths[t]? = some th) (hrn : s.rns[t]? = some rn) (hpc : th.pc = .wRelease) : Inv U (step U thr s t) := by
  have hc := fun y => countP_set_add isPin s.ths t th y hth
  have hg := fun i y => countP_set_add (isGuardOn i) s.ths t th y hth
  simp only [step, stepEv, hth, hrn, hpc]
  obtain ⟨hlen, hnU, hwlo, hhiB, hown, hpin, hpinT, hrefc, halv, hsto, hrpos, hwcx, hrdy, hgtd, hdesv, htgtB, hnbad⟩ := h
  (repeat' split) <;> (try dsimp only) <;> inv_close

theorem inv_wWait (U : Nat) (thr : Nat → Bool) (s : St) (t : Tid) (th : Th) (rn : Rn) (h : Inv U s)
    (hth : s.ths[t]? = some th) (hrn : s.rns[t]? = some rn) (hpc : th.pc = .wWait) : Inv U (step U thr s t) := by
  have hc := fun y => countP_set_add isPin s.ths t th y hth
  have hg := fun i y => countP_set_add (isGuardOn i) s.ths t th y hth
  simp only [step, stepEv, hth, hrn, hpc]
  obtain ⟨hlen, hnU, hwlo, hhiB, hown, hpin, hpinT, hrefc, halv, hsto, hrpos, hwcx, hrdy, hgtd, hdesv, htgtB, hnbad⟩ := h
  (repeat' split) <;> (try dsimp only) <;> inv_close

theorem inv_dtor (U : Nat) (thr : Nat → Bool) (s : St) (t : Tid) (th : Th) (rn : Rn) (h : Inv U s)
    (hth : s.ths[t]? = some th) (hrn : s.rns[t]? = some rn) (hpc : th.pc = .dtor) : Inv U (step U thr s t) := by
  have hc := fun y => countP_set_add isPin s.ths t th y hth
  have hg := fun i y => countP_set_add (isGuardOn i) s.ths t th y hth
  simp only [step, stepEv, hth, hrn, hpc]
  obtain ⟨hlen, hnU, hwlo, hhiB, hown, hpin, hpinT, hrefc, halv, hsto, hrpos, hwcx, hrdy, hgtd, hdesv, htgtB, hnbad⟩ := h
  (repeat' split) <;> (try dsimp only) <;> inv_close

set_option maxHeartbeats 1000000 in
theorem inv_dtor2 (U : Nat) (thr : Nat → Bool) (s : St) (t : Tid) (th : Th) (rn : Rn) (h : Inv U s)
    (hth : s.ths[t]? = some th) (hrn : s.rns[t]? = some rn) (hpc : th.pc = .dtor2) : Inv U (step U thr s t) := by
  have hc := fun y => countP_set_add isPin s.ths t th y hth
  have hg := fun i y => countP_set_add (isGuardOn i) s.ths t th y hth
  simp only [step, stepEv, hth, hrn, hpc]
  obtain ⟨hlen, hnU, hwlo, hhiB, hown, hpin, hpinT, hrefc, halv, hsto, hrpos, hwcx, hrdy, hgtd, hdesv, htgtB, hnbad⟩ := h
  (repeat' split) <;> (try dsimp only) <;> inv_close
end TbbVerif.C19.Once
