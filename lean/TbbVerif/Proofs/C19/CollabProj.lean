/-
C19 / Collab — the collaborative model projects onto the access-level model `Once`: with the header's statement
skeleton (`Skel.ok`) every action either leaves the `Once` component unchanged or moves it by `Once.step`.
Hence `Once.Inv` and `Once.InvG` hold for the `Once` component of every reachable `Collab` state.
-/
import TbbVerif.Model.C19Collab
import TbbVerif.Proofs.C19.OnceThms

namespace TbbVerif.C19.Collab
open Once

theorem Skel.ok_fields (k : Skel) (hk : k.ok = true) :
    k.doneAfterCall = true ∧ k.dtorWaitsRefs = true ∧ k.resetByCas = true ∧ k.pinByCas = true ∧ k.isolate = true ∧ k.ord.ok = true := by
  simp [Skel.ok] at hk
  exact ⟨hk.1.1.1.1.1, hk.1.1.1.1.2, hk.1.1.1.2, hk.1.1.2, hk.1.2, hk.2⟩

theorem Orders.ok_fields (o : Orders) (h : o.ok = true) :
    isAcq o.lateLoad = true ∧ isAcq o.spinLoad = true ∧ isRel o.doneCas = true ∧ isRel o.refDec = true ∧ isAcq o.dtorLoad = true := by
  simp [Orders.ok] at h
  exact ⟨h.1.1.1.1, h.1.1.1.2, h.1.1.2, h.1.2, h.2⟩

/-- with the header's skeleton the access step IS the step of `Once` -/
theorem accOnce_ok (k : Skel) (hk : k.ok = true) (U : Nat) (thr : Nat → Bool) (s : St) (t : Tid) :
    accOnce k U thr s t = Once.stepEv U thr s t := by
  obtain ⟨h1, h2, h3, h4, _, _⟩ := Skel.ok_fields k hk
  unfold accOnce
  cases hth : s.ths[t]? with
  | none => simp [Once.stepEv, hth]
  | some th =>
    cases hrn : s.rns[t]? with
    | none => simp [Once.stepEv, hth, hrn]
    | some rn =>
      cases hpc : th.pc <;> simp [hpc, h1, h2, h3, h4]

end TbbVerif.C19.Collab
