/-
C19 / OnceFlag — the inductive invariant of the collaborative_call_once protocol model and its preservation.
(core Lean only)
-/
import TbbVerif.Model.C19

namespace TbbVerif.C19.Once

/-! ### program-counter classes -/

/-- the caller owns the state word (between its winning CAS and its completion CAS) -/
def ownerPc : Pc → Bool
  | .wReady | .wCall | .wSpin | .wSet => true
  | _ => false

/-- the caller holds a reference in the low bits of the state word (between `CAS +1` and `fetch_sub(1)`) -/
def pinPc : Pc → Bool
  | .hGuard | .hSub => true
  | _ => false

/-- the caller holds a `lifetime_guard` on the runner `tgt` -/
def guardPc : Pc → Bool
  | .hSub | .hReady | .hWait | .hUnguard => true
  | _ => false

/-- pcs of a caller whose runner may be referenced by others (winner up to the destructor's wait) -/
def winAlive : Pc → Bool
  | .wReady | .wCall | .wSpin | .wSet | .wRelease | .wWait | .dtor => true
  | _ => false

def isPin (th : Th) : Bool := pinPc th.pc
def isGuardOn (i : Nat) (th : Th) : Bool := guardPc th.pc && th.tgt == i

/-! ### list helpers -/

theorem countP_set_add {α} (p : α → Bool) (l : List α) (i : Nat) (x y : α) (h : l[i]? = some x) :
    (l.set i y).countP p + (if p x then 1 else 0) = l.countP p + (if p y then 1 else 0) := by
  induction l generalizing i with
  | nil => simp at h
  | cons a l ih =>
    cases i with
    | zero =>
      simp at h; subst h
      simp [List.countP_cons]; omega
    | succ i =>
      simp at h
      have := ih i h
      simp [List.countP_cons]; omega

theorem countP_pos_of_get {α} (p : α → Bool) (l : List α) (i : Nat) (x : α) (h : l[i]? = some x) (hx : p x = true) :
    0 < l.countP p :=
  List.countP_pos_iff.mpr ⟨x, List.mem_of_getElem? h, hx⟩

theorem countP_lt_of_get {α} (p : α → Bool) (l : List α) (i : Nat) (x : α) (h : l[i]? = some x) (hx : p x = false) :
    l.countP p < l.length := by
  have hle := List.countP_le_length (p := p) (l := l)
  rcases Nat.lt_or_ge (l.countP p) l.length with h1 | h1
  · exact h1
  · have heq : l.countP p = l.length := Nat.le_antisymm hle h1
    have := List.countP_eq_length.mp heq x (List.mem_of_getElem? h)
    simp [hx] at this

theorem not_of_countP_zero {α} (p : α → Bool) (l : List α) (i : Nat) (x : α) (h0 : l.countP p = 0) (h : l[i]? = some x) :
    p x = false := by
  have := List.countP_eq_zero.mp h0 x (List.mem_of_getElem? h)
  simpa using this

theorem lt_length_of_get {α} {l : List α} {i : Nat} {x : α} (h : l[i]? = some x) : i < l.length := by
  rcases Nat.lt_or_ge i l.length with h1 | h1
  · exact h1
  · simp [List.getElem?_eq_none h1] at h

/-! ### the invariant -/

/-- Safety invariant of the state word / runner life cycle.  `U` = collaborative_once_max_references. -/
structure Inv (U : Nat) (s : St) : Prop where
  len   : s.rns.length = s.ths.length
  nU    : s.ths.length ≤ U
  wlo   : s.word.hi = 0 → s.word.lo ≤ 1
  hiB   : s.word.hi ≤ s.ths.length
  /-- exactly the caller designated by the pointer bits is in its owner phase -/
  own   : ∀ (i : Nat) (th : Th), s.ths[i]? = some th → (ownerPc th.pc = true ↔ s.word.hi = i + 1)
  /-- the low bits count the callers that hold a reference in the word … -/
  pin   : s.ths.countP isPin = (if s.word.hi = 0 then 0 else s.word.lo)
  /-- … and every one of them references the current owner's runner -/
  pinT  : ∀ (j : Nat) (th : Th), s.ths[j]? = some th → pinPc th.pc = true → th.tgt + 1 = s.word.hi
  /-- a runner's `m_ref_count` is the number of `lifetime_guard`s on it -/
  refc  : ∀ (i : Nat) (rn : Rn), s.rns[i]? = some rn → rn.refc = s.ths.countP (isGuardOn i)
  /-- runner life cycle against its caller's program counter -/
  alv   : ∀ (i : Nat) (th : Th) (rn : Rn), s.ths[i]? = some th → s.rns[i]? = some rn →
            rn.alive = (th.pc != .idle && th.pc != .entry)
  sto   : ∀ (i : Nat) (rn : Rn), s.rns[i]? = some rn → rn.alive = true → rn.stor = rn.ready
  /-- a runner with guards on it belongs to a winner that has not passed its destructor's wait -/
  rpos  : ∀ (i : Nat) (th : Th) (rn : Rn), s.ths[i]? = some th → s.rns[i]? = some rn → 0 < rn.refc → winAlive th.pc = true
  wcx   : ∀ (i : Nat) (th : Th) (rn : Rn), s.ths[i]? = some th → s.rns[i]? = some rn →
            (th.pc = .wCall ∨ th.pc = .wSpin ∨ th.pc = .wSet ∨ th.pc = .wRelease) → rn.ready = true ∧ rn.wctx = 1
  /-- a helper past `spin_wait_while_eq(m_is_ready, false)` helps a runner whose storage is constructed -/
  rdy   : ∀ (j : Nat) (th : Th), s.ths[j]? = some th → (th.pc = .hWait ∨ th.pc = .hUnguard) →
            ∃ rn, s.rns[th.tgt]? = some rn ∧ rn.ready = true
  /-- local facts -/
  gtd   : ∀ (j : Nat) (th : Th), s.ths[j]? = some th → th.pc = .hCas → th.exp.gtDone = true
  desv  : ∀ (j : Nat) (th : Th), s.ths[j]? = some th → (th.pc = .wSpin ∨ th.pc = .wSet) → th.des = Word.done ∨ th.des = Word.uninit
  tgtB  : ∀ (j : Nat) (th : Th), s.ths[j]? = some th → (pinPc th.pc = true ∨ guardPc th.pc = true) → th.tgt < s.ths.length
  nbad  : s.bad = false

theorem owner_not_pin (pc : Pc) (h : ownerPc pc = true) : pinPc pc = false ∧ winAlive pc = true ∧ guardPc pc = false := by
  cases pc <;> simp_all [ownerPc, pinPc, winAlive, guardPc]

/-- A successful helper CAS cannot carry into the pointer bits: the references in the word are held by distinct
callers, none of them the owner, and there are at most `U` callers. -/
theorem no_carry (U : Nat) (s : St) (t : Tid) (th : Th) (h : Inv U s)
    (hth : s.ths[t]? = some th) (hpc : th.pc = .hCas) (hw : s.word = th.exp) :
    th.exp.hi ≠ 0 ∧ th.exp.lo + 1 < U := by
  have hgt := h.gtd t th hth hpc
  have hhi : th.exp.hi ≠ 0 := by
    intro h0
    have := h.wlo (by rw [hw]; exact h0)
    rw [hw] at this
    simp [Word.gtDone, h0] at hgt
    omega
  refine ⟨hhi, ?_⟩
  have hhiB := h.hiB
  rw [hw] at hhiB
  -- the owner
  have hlt : th.exp.hi - 1 < s.ths.length := by omega
  obtain ⟨tho, htho⟩ : ∃ tho, s.ths[th.exp.hi - 1]? = some tho := ⟨s.ths[th.exp.hi - 1], by simp [hlt]⟩
  have hown := (h.own (th.exp.hi - 1) tho htho).2 (by rw [hw]; omega)
  have hne : th.exp.hi - 1 ≠ t := by
    intro he
    rw [he, hth] at htho
    cases htho
    simp [hpc, ownerPc] at hown
  let y : Th := { th with pc := .hGuard }
  have hc := countP_set_add isPin s.ths t th y hth
  have h1 : isPin th = false := by simp [isPin, hpc, pinPc]
  have h2 : isPin y = true := by simp [isPin, y, pinPc]
  have hget : (s.ths.set t y)[th.exp.hi - 1]? = some tho := by
    rw [List.getElem?_set]; simp [Ne.symm hne, htho]
  have hlt' := countP_lt_of_get isPin (s.ths.set t y) _ tho hget (by simp [isPin, (owner_not_pin _ hown).1])
  have hpin := h.pin
  rw [hw] at hpin
  simp [h1, h2, hhi] at hc hpin hlt'
  have := h.nU
  omega

/-- closes `Inv U s'` for an explicit post-state `s'`: structure fields one by one, each by `grind` over the
hypotheses in context (the fields of `Inv U s`, the two `countP_set_add` instances, per-step hints) -/
syntax "inv_close" : tactic
macro_rules
  | `(tactic| inv_close) => `(tactic| (
      constructor
      all_goals (try simp only [List.length_set])
      all_goals (try assumption)
      all_goals grind [ownerPc, pinPc, guardPc, winAlive, isPin, isGuardOn, Th.ret, Word.runner, Word.uninit, Word.done, Word.gtDone, Word.inc, Word.dec, Word.orMask]))

end TbbVerif.C19.Once
