/- C19 / Collab — the task actions (`begin`, `take`, `fin`) and `nest` keep the `Once` component and preserve the invariants. -/
import TbbVerif.Proofs.C19.CollabStepT

namespace TbbVerif.C19.Collab
open Once

/-- `InvH` does not mention the task fields -/
theorem invh_of_eq (k : Skel) (c c' : CSt) (h : InvH k c) (ho : c'.o = c.o)
    (h1 : c'.x.gen = c.x.gen) (h2 : c'.x.pin = c.x.pin) (h3 : c'.x.sees = c.x.sees) (h4 : c'.x.wsees = c.x.wsees)
    (h5 : c'.x.okUnseen = c.x.okUnseen) (h6 : c'.x.dok = c.x.dok) (h7 : c'.x.dirty = c.x.dirty) (h8 : c'.x.xbad = c.x.xbad) :
    InvH k c' := by
  obtain ⟨a1, a2, a3, a4, a5, a6, a7, a8, a9, a10, a11, a12, a13⟩ := h
  constructor <;> simp only [ho, h1, h2, h3, h4, h5, h6, h7, h8] <;> assumption

theorem step_begin (k : Skel) (U : Nat) (thr : Nat → Bool) (work : Nat → Nat) (conc : Nat) (c : CSt) (t : Tid)
    (R : Reach k U thr c) : Reach k U thr (step k U thr work conc c (t, .begin)) := by
  simp only [step]
  by_cases hc : beginOk c t = true
  · simp only [hc, if_true]
    unfold beginOk at hc
    cases hth : c.o.ths[t]? with
    | none => simp [hth] at hc
    | some th =>
      simp [hth] at hc
      refine ⟨R.i, R.g, invh_of_eq k c _ R.h rfl rfl rfl rfl rfl rfl rfl rfl rfl, ?_⟩
      refine { t01 := Or.inr rfl, t1 := fun h => by simp at h, t2 := fun _ => ?_, t4 := fun _ => by simp, t6 := List.nodup_nil,
               t5 := fun e he => by simp at he, host := R.t.host }
      exact ⟨t, th, (R.i.own t th hth).1 (by simp [hc.1.1, ownerPc]), hth, hc.1.1⟩
  · simp only [hc]; exact R

theorem step_take (k : Skel) (U : Nat) (thr : Nat → Bool) (work : Nat → Nat) (conc : Nat) (c : CSt) (t : Tid)
    (R : Reach k U thr c) : Reach k U thr (step k U thr work conc c (t, .take)) := by
  simp only [step]
  by_cases hc : takeOk conc c t = true
  · simp only [hc, if_true]
    unfold takeOk at hc
    simp at hc
    obtain ⟨⟨⟨⟨⟨hst, hpool⟩, hnot⟩, hlen⟩, _⟩, hin⟩ := hc
    refine ⟨R.i, R.g, invh_of_eq k c _ R.h rfl rfl rfl rfl rfl rfl rfl rfl rfl, ?_⟩
    have h4 := R.t.t4 hst
    refine { t01 := Or.inr hst, t1 := fun h => by simp [hst] at h, t2 := R.t.t2, t4 := fun _ => ?_, t6 := ?_, t5 := ?_, host := R.t.host }
    · show c.x.ran + (c.x.pool - 1) + (t :: c.x.exec).length = c.x.total
      simp only [List.length_cons]; omega
    · exact List.nodup_cons.mpr ⟨hnot, R.t.t6⟩
    · intro e he
      rcases List.mem_cons.mp he with h | h
      · subst h
        by_cases hN : e ≥ c.o.ths.length
        · exact Or.inl hN
        · right
          unfold inside at hin
          simp only [hN, if_false] at hin
          cases hth : c.o.ths[e]? with
          | none => simp [hth] at hin
          | some th =>
            simp [hth] at hin
            refine ⟨th, rfl, ?_⟩
            rcases hin with h | h
            · exact Or.inl ⟨h.1, h.2⟩
            · exact Or.inr ⟨h.1.1, h.1.2⟩
      · exact R.t.t5 e h
  · simp only [hc]; exact R

theorem step_fin (k : Skel) (U : Nat) (thr : Nat → Bool) (work : Nat → Nat) (conc : Nat) (c : CSt) (t : Tid)
    (R : Reach k U thr c) : Reach k U thr (step k U thr work conc c (t, .fin)) := by
  simp only [step]
  split
  · rename_i hc
    have hm : t ∈ c.x.exec := by simpa using hc
    have hst : c.x.st = 1 := by
      rcases R.t.t01 with h0 | h1
      · have := (R.t.t1 h0).2; rw [this] at hm; cases hm
      · exact h1
    refine ⟨R.i, R.g, invh_of_eq k c _ R.h rfl rfl rfl rfl rfl rfl rfl rfl rfl, ?_⟩
    have h4 := R.t.t4 hst
    have hl := List.length_erase_of_mem hm
    have hpos : 0 < c.x.exec.length := List.length_pos_of_mem hm
    refine { t01 := Or.inr hst, t1 := fun h => by simp [hst] at h, t2 := R.t.t2, t4 := fun _ => ?_, t6 := R.t.t6.erase t,
             t5 := fun e he => R.t.t5 e (List.mem_of_mem_erase he), host := R.t.host }
    simp only [hl]; omega
  · exact R

theorem step_nest (k : Skel) (hk : k.ok = true) (U : Nat) (thr : Nat → Bool) (work : Nat → Nat) (conc : Nat) (c : CSt) (t v : Tid) :
    step k U thr work conc c (t, .nest v) = c := by
  simp only [step]
  simp [(Skel.ok_fields k hk).2.2.2.2.1]

end TbbVerif.C19.Collab
