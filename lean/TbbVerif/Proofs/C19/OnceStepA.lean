/- C19 / OnceFlag — preservation of `Inv` by the steps at pcs idle, entry, winCas, wReady, wCall (one lemma per program counter). -/
import TbbVerif.Proofs.C19.OnceInv
namespace TbbVerif.C19.Once

theorem inv_idle (U : Nat) (thr : Nat → Bool) (s : St) (t : Tid) (th : Th) (rn : Rn) (h : Inv U s)
    (hth : s.ths[t]? = some th) (hrn : s.rns[t]? = some rn) (hpc : th.pc = .idle) : Inv U (step U thr s t) := by
  have hc := fun y => countP_set_add isPin s.ths t th y hth
  have hg := fun i y => countP_set_add (isGuardOn i) s.ths t th y hth
  simp only [step, stepEv, hth, hrn, hpc]
  obtain ⟨hlen, hnU, hwlo, hhiB, hown, hpin, hpinT, hrefc, halv, hsto, hrpos, hwcx, hrdy, hgtd, hdesv, htgtB, hnbad⟩ := h
  (repeat' split) <;> (try dsimp only) <;> inv_close

theorem inv_entry (U : Nat) (thr : Nat → Bool) (s : St) (t : Tid) (th : Th) (rn : Rn) (h : Inv U s)
    (hth : s.ths[t]? = some th) (hrn : s.rns[t]? = some rn) (hpc : th.pc = .entry) : Inv U (step U thr s t) := by
  have hc := fun y => countP_set_add isPin s.ths t th y hth
  have hg := fun i y => countP_set_add (isGuardOn i) s.ths t th y hth
  simp only [step, stepEv, hth, hrn, hpc]
  obtain ⟨hlen, hnU, hwlo, hhiB, hown, hpin, hpinT, hrefc, halv, hsto, hrpos, hwcx, hrdy, hgtd, hdesv, htgtB, hnbad⟩ := h
  (repeat' split) <;> (try dsimp only) <;> inv_close

theorem inv_winCas (U : Nat) (thr : Nat → Bool) (s : St) (t : Tid) (th : Th) (rn : Rn) (h : Inv U s)
    (hth : s.ths[t]? = some th) (hrn : s.rns[t]? = some rn) (hpc : th.pc = .winCas) : Inv U (step U thr s t) := by
  have hc := fun y => countP_set_add isPin s.ths t th y hth
  have hg := fun i y => countP_set_add (isGuardOn i) s.ths t th y hth
  simp only [step, stepEv, hth, hrn, hpc]
  obtain ⟨hlen, hnU, hwlo, hhiB, hown, hpin, hpinT, hrefc, halv, hsto, hrpos, hwcx, hrdy, hgtd, hdesv, htgtB, hnbad⟩ := h
  (repeat' split) <;> (try dsimp only) <;> inv_close

theorem inv_wReady (U : Nat) (thr : Nat → Bool) (s : St) (t : Tid) (th : Th) (rn : Rn) (h : Inv U s)
    (hth : s.ths[t]? = some th) (hrn : s.rns[t]? = some rn) (hpc : th.pc = .wReady) : Inv U (step U thr s t) := by
  have hc := fun y => countP_set_add isPin s.ths t th y hth
  have hg := fun i y => countP_set_add (isGuardOn i) s.ths t th y hth
  simp only [step, stepEv, hth, hrn, hpc]
  obtain ⟨hlen, hnU, hwlo, hhiB, hown, hpin, hpinT, hrefc, halv, hsto, hrpos, hwcx, hrdy, hgtd, hdesv, htgtB, hnbad⟩ := h
  (repeat' split) <;> (try dsimp only) <;> inv_close

theorem inv_wCall (U : Nat) (thr : Nat → Bool) (s : St) (t : Tid) (th : Th) (rn : Rn) (h : Inv U s)
    (hth : s.ths[t]? = some th) (hrn : s.rns[t]? = some rn) (hpc : th.pc = .wCall) : Inv U (step U thr s t) := by
  have hc := fun y => countP_set_add isPin s.ths t th y hth
  have hg := fun i y => countP_set_add (isGuardOn i) s.ths t th y hth
  simp only [step, stepEv, hth, hrn, hpc]
  obtain ⟨hlen, hnU, hwlo, hhiB, hown, hpin, hpinT, hrefc, halv, hsto, hrpos, hwcx, hrdy, hgtd, hdesv, htgtB, hnbad⟩ := h
  (repeat' split) <;> (try dsimp only) <;> inv_close
end TbbVerif.C19.Once
