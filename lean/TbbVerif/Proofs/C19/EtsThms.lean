/- C19 / EtsTable — consequences of `EInv` used by the property theorems; growth monotonicity; probe function. -/
import TbbVerif.Proofs.C19.EtsMain

namespace TbbVerif.C19.Ets

/-! ### the probe sequence as a function: what `table_lookup`'s inner loop computes on one array -/

/-- `for(i = start;; i = (i+1)&mask) { if empty break; if match return }` with a step budget -/
def probeFind (a : Arr) (k : Nat) : Nat → Nat → Option Nat
  | 0, _ => none
  | f + 1, i => if a.key i = 0 then none else if a.key i = k then some i else probeFind a k f ((i + 1) % a.size)

theorem probeFind_of_path (a : Arr) (k st : Nat) (hk : k ≠ 0) :
    ∀ (n d : Nat), (∀ d', d' < n → a.key ((st + d + d') % a.size) ≠ 0) → a.key ((st + d + n) % a.size) = k →
      ∃ idx, probeFind a k (n + 1) ((st + d) % a.size) = some idx ∧ a.key idx = k := by
  intro n
  induction n with
  | zero =>
    intro d _ hkey
    refine ⟨(st + d) % a.size, ?_, by simpa using hkey⟩
    have h1 : a.key ((st + d) % a.size) = k := by simpa using hkey
    simp [probeFind, h1, hk]
  | succ n ih =>
    intro d hocc hkey
    have h0 : a.key ((st + d) % a.size) ≠ 0 := by simpa using hocc 0 (Nat.succ_pos n)
    by_cases hm : a.key ((st + d) % a.size) = k
    · exact ⟨(st + d) % a.size, by simp [probeFind, hm, hk], hm⟩
    · have := ih (d + 1) (fun d' hd' => by
        have := hocc (d' + 1) (by omega)
        have e : st + d + (d' + 1) = st + (d + 1) + d' := by omega
        rwa [e] at this) (by
        have e : st + d + (n + 1) = st + (d + 1) + n := by omega
        rwa [e] at hkey)
      obtain ⟨idx, h1, h2⟩ := this
      refine ⟨idx, ?_, h2⟩
      rw [probeFind]
      simp only [h0, hm, if_false]
      rw [succ_mod_mod]
      have e : st + d + 1 = st + (d + 1) := by omega
      rw [e]; exact h1

/-- **found before an empty slot**: if offset `D` of the probe sequence holds key `k` and all earlier offsets are
occupied, the probe loop started at `start(h)` returns a slot holding `k` within `D+1` probes. -/
theorem probeFind_path (B : Nat) (a : Arr) (h k D : Nat) (hk : k ≠ 0) (hp : PathTo B a h k D) :
    ∃ idx, probeFind a k (D + 1) (start B h a.lg % a.size) = some idx ∧ a.key idx = k := by
  have := probeFind_of_path a k (start B h a.lg) hk D 0 (by intro d' hd'; simpa using hp.2 d' hd') (by simpa using hp.1)
  simpa using this

/-! ### growth / monotonicity of the chain (a step never unlinks an array, never changes an occupied slot) -/

def Ext (arrs arrs' : List Arr) : Prop :=
  ∀ (j : Nat) (a : Arr), arrs[j]? = some a →
    ∃ a' : Arr, arrs'[j]? = some a' ∧ a'.lg = a.lg ∧ ∀ idx, a.key idx ≠ 0 → a'.key idx = a.key idx ∧ a'.ptr idx = a.ptr idx

theorem Ext.refl (arrs : List Arr) : Ext arrs arrs := fun _ a h => ⟨a, h, rfl, fun _ _ => ⟨rfl, rfl⟩⟩

theorem Ext.trans {a b c : List Arr} (h1 : Ext a b) (h2 : Ext b c) : Ext a c := by
  intro j x hx
  obtain ⟨y, hy, hl, hk⟩ := h1 j x hx
  obtain ⟨z, hz, hl', hk'⟩ := h2 j y hy
  refine ⟨z, hz, by rw [hl', hl], fun idx hn => ?_⟩
  obtain ⟨e1, e2⟩ := hk idx hn
  obtain ⟨e3, e4⟩ := hk' idx (by rw [e1]; exact hn)
  exact ⟨by rw [e3, e1], by rw [e4, e2]⟩

theorem ext_step (B L0 : Nat) (s : St) (t : Tid) : Ext s.arrs (step B L0 s t).arrs := by
  unfold step stepEv
  split
  · exact Ext.refl _
  · rename_i th hth
    split <;> (try dsimp only) <;> (repeat' split) <;> (try exact Ext.refl _)
    · -- push
      intro j a h
      exact ⟨a, by simp only []; rw [List.getElem?_append_left (lt_length_of_get h)]; exact h, rfl, fun _ _ => ⟨rfl, rfl⟩⟩
    · -- claim
      rename_i a0 ha0 hk0
      intro j a h
      by_cases e : th.r = j
      · subst e
        rw [ha0] at h; cases h
        refine ⟨a0.setSlot th.i (t + 1) th.found, by simp only []; rw [List.getElem?_set]; simp [lt_length_of_get ha0]; rfl, rfl, fun idx hn => ?_⟩
        have hne : idx ≠ th.i := fun e => hn (e ▸ hk0)
        exact ⟨key_setSlot_of_ne0 a0 _ _ _ idx hk0 hn, by rw [ptr_setSlot]; simp [hne]⟩
      · exact ⟨a, by simp only []; rw [List.getElem?_set]; simp [e, h], rfl, fun _ _ => ⟨rfl, rfl⟩⟩

theorem ext_runFrom (B L0 : Nat) (hs : List (Nat × Nat)) (s : St) (sched : List Tid) :
    Ext s.arrs ((sys B L0 hs).runFrom s sched).arrs := by
  induction sched generalizing s with
  | nil => exact Ext.refl _
  | cons t ts ih => exact (ext_step B L0 s t).trans (ih _)

/-! ### `my_count` is the number of elements -/

theorem count_step (B L0 : Nat) (s : St) (t : Tid) (h : s.count = s.locals.length) :
    (step B L0 s t).count = (step B L0 s t).locals.length := by
  unfold step stepEv
  split
  · exact h
  · split <;> (try dsimp only) <;> (repeat' split) <;> (try exact h)
    simp [h]

theorem count_reachable (B L0 : Nat) (hs : List (Nat × Nat)) (sched : List Tid) :
    ((sys B L0 hs).run sched).count = ((sys B L0 hs).run sched).locals.length :=
  Sys.inv_run (sys B L0 hs) (fun s => s.count = s.locals.length) rfl (fun s t h => count_step B L0 s t h) sched

end TbbVerif.C19.Ets
