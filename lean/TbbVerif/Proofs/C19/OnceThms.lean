/- C19 / OnceFlag — consequences of the invariants used by the property theorems. -/
import TbbVerif.Proofs.C19.OnceGMain

namespace TbbVerif.C19.Once

/-- low bits stay below `U` (they never reach into the pointer bits), and equal the number of pinned helpers -/
theorem lo_bound (U : Nat) (s : St) (h : Inv U s) (hU : 2 ≤ U) :
    s.word.lo < U ∧ (s.word.hi ≠ 0 → s.word.lo = s.ths.countP isPin ∧ s.word.lo + 1 ≤ s.ths.length) := by
  by_cases hhi : s.word.hi = 0
  · have := h.wlo hhi
    exact ⟨by omega, fun hc => absurd hhi hc⟩
  · have hpin := h.pin
    simp [hhi] at hpin
    have hB := h.hiB
    have hlt : s.word.hi - 1 < s.ths.length := by omega
    obtain ⟨tho, htho⟩ : ∃ tho, s.ths[s.word.hi - 1]? = some tho := ⟨s.ths[s.word.hi - 1], by simp [hlt]⟩
    have hown := (h.own (s.word.hi - 1) tho htho).2 (by omega)
    have := countP_lt_of_get isPin s.ths _ tho htho (by simp [isPin, (owner_not_pin _ hown).1])
    have := h.nU
    exact ⟨by omega, fun _ => ⟨hpin.symm, by omega⟩⟩

/-- a caller holding a `lifetime_guard` holds it on a runner that is alive, whose reference count includes it -/
theorem guard_alive (U : Nat) (s : St) (h : Inv U s) (j : Nat) (th : Th) (hth : s.ths[j]? = some th)
    (hg : guardPc th.pc = true) :
    ∃ rn tho, s.rns[th.tgt]? = some rn ∧ s.ths[th.tgt]? = some tho ∧ rn.alive = true ∧ 0 < rn.refc ∧ winAlive tho.pc = true := by
  have hB := h.tgtB j th hth (Or.inr hg)
  have hlen := h.len
  obtain ⟨tho, htho⟩ : ∃ tho, s.ths[th.tgt]? = some tho := ⟨s.ths[th.tgt], by simp [hB]⟩
  obtain ⟨rn, hrn⟩ : ∃ rn, s.rns[th.tgt]? = some rn := ⟨s.rns[th.tgt]'(by omega), by simp [hlen, hB]⟩
  have hc := countP_pos_of_get (isGuardOn th.tgt) s.ths j th hth (by simp [isGuardOn, hg])
  have hr := h.refc th.tgt rn hrn
  have hpos : 0 < rn.refc := by omega
  have hw := h.rpos th.tgt tho rn htho hrn hpos
  have ha := h.alv th.tgt tho rn htho hrn
  refine ⟨rn, tho, hrn, htho, ?_, hpos, hw⟩
  rw [ha]
  revert hw; cases tho.pc <;> simp [winAlive]

/-- at most one caller is in its owner phase (attempts never overlap) -/
theorem owner_unique (U : Nat) (s : St) (h : Inv U s) (i j : Nat) (thi thj : Th)
    (hi : s.ths[i]? = some thi) (hj : s.ths[j]? = some thj) (oi : ownerPc thi.pc = true) (oj : ownerPc thj.pc = true) : i = j := by
  have := (h.own i thi hi).1 oi
  have := (h.own j thj hj).1 oj
  omega

/-- **flag reset**: the completion CAS of a winner whose function threw puts the word back to `uninitialized` -/
theorem reset_on_throw (U : Nat) (thr : Nat → Bool) (s : St) (t : Tid) (th : Th) (h : Inv U s) (g : InvG thr s)
    (hth : s.ths[t]? = some th) (hpc : th.pc = .wSet) (hp : th.pend ≠ none) (hw : s.word = Word.runner t) :
    (step U thr s t).word = Word.uninit := by
  have hlen := h.len
  have hlt := lt_length_of_get hth
  obtain ⟨rn, hrn⟩ : ∃ rn, s.rns[t]? = some rn := ⟨s.rns[t]'(by omega), by simp [hlen, hlt]⟩
  have h3 := g.g3 t th hth (Or.inr hpc)
  have hd : th.des = Word.uninit := by
    rcases h3 with ⟨_, hn, _⟩ | ⟨hd, _, _⟩
    · exact absurd hn hp
    · exact hd
  simp [step, stepEv, hth, hrn, hpc, hw, hd]

/-- **retry, later caller**: when the flag is `uninitialized`, a caller that starts a call and runs alone wins the
next attempt within three accesses (fast-path load, entry load, winning CAS). -/
theorem retry_later (U : Nat) (thr : Nat → Bool) (s : St) (t : Tid) (th : Th) (rn : Rn)
    (hth : s.ths[t]? = some th) (hrn : s.rns[t]? = some rn) (hpc : th.pc = .idle) (hc : th.calls ≠ 0)
    (hw : s.word = Word.uninit) :
    let s3 := step U thr (step U thr (step U thr s t) t) t
    s3.word = Word.runner t ∧ ∃ th3, s3.ths[t]? = some th3 ∧ th3.pc = .wReady := by
  have hlt := lt_length_of_get hth
  have hlt' := lt_length_of_get hrn
  have hnd : ¬ (Word.uninit = Word.done) := by simp [Word.uninit, Word.done]
  have h1 : step U thr s t = { s with ths := s.ths.set t { th with pc := .entry } } := by
    simp only [step, stepEv, hth, hrn, hpc, hw]
    rw [if_neg hc, if_neg hnd]
  have h2 : step U thr (step U thr s t) t =
      { s with ths := (s.ths.set t { th with pc := .entry }).set t { th with exp := Word.uninit, pc := .winCas },
               rns := s.rns.set t { refc := 0, ready := false, wctx := 0, alive := true, stor := false } } := by
    rw [h1]
    simp [step, stepEv, hrn, hw, hlt]
  intro s3
  have h3 : s3 = step U thr (step U thr (step U thr s t) t) t := rfl
  rw [h3, h2]
  simp [step, stepEv, hw, hlt, hlt']

/-- **retry, concurrent caller**: a moonlighting caller that was waiting (with whatever stale `expected`) and now
observes `uninitialized` wins the next attempt within two accesses. -/
theorem retry_concurrent (U : Nat) (thr : Nat → Bool) (s : St) (t : Tid) (th : Th) (rn : Rn) (hU : 2 ≤ U)
    (hth : s.ths[t]? = some th) (hrn : s.rns[t]? = some rn) (hpc : th.pc = .hSpin)
    (hw : s.word = Word.uninit) :
    let s2 := step U thr (step U thr s t) t
    s2.word = Word.runner t ∧ ∃ th2, s2.ths[t]? = some th2 ∧ th2.pc = .wReady := by
  have hlt := lt_length_of_get hth
  have hne : ¬ (Word.uninit = th.exp.orMask U) := by
    simp [Word.uninit, Word.orMask]; omega
  have h1 : step U thr s t = { s with ths := s.ths.set t { th with exp := Word.uninit, pc := .winCas } } := by
    simp only [step, stepEv, hth, hrn, hpc, hw]
    rw [if_neg hne]
    simp [Word.gtDone, Word.uninit, Word.done]
  rw [h1]
  simp [step, stepEv, hrn, hw, hlt]

end TbbVerif.C19.Once
