/- C19 / OnceFlag — `Inv ∧ InvG` holds in every reachable state. -/
import TbbVerif.Proofs.C19.OnceMain
import TbbVerif.Proofs.C19.OnceGStepA
import TbbVerif.Proofs.C19.OnceGStepB

namespace TbbVerif.C19.Once

theorem invg_step (U : Nat) (thr : Nat → Bool) (s : St) (t : Tid) (h : Inv U s) (g : InvG thr s) : InvG thr (step U thr s t) := by
  cases hth : s.ths[t]? with
  | none => rw [step_none_th U thr s t hth]; exact g
  | some th =>
    cases hrn : s.rns[t]? with
    | none => rw [step_none_rn U thr s t hrn]; exact g
    | some rn =>
      cases hpc : th.pc
      · exact invg_idle U thr s t th rn h g hth hrn hpc
      · exact invg_entry U thr s t th rn h g hth hrn hpc
      · exact invg_winCas U thr s t th rn h g hth hrn hpc
      · exact invg_wReady U thr s t th rn h g hth hrn hpc
      · exact invg_wCall U thr s t th rn h g hth hrn hpc
      · exact invg_wSpin U thr s t th rn h g hth hrn hpc
      · exact invg_wSet U thr s t th rn h g hth hrn hpc
      · exact invg_wRelease U thr s t th rn h g hth hrn hpc
      · exact invg_wWait U thr s t th rn h g hth hrn hpc
      · exact invg_dtor U thr s t th rn h g hth hrn hpc
      · exact invg_dtor2 U thr s t th rn h g hth hrn hpc
      · exact invg_hSpin U thr s t th rn h g hth hrn hpc
      · exact invg_hCas U thr s t th rn h g hth hrn hpc
      · exact invg_hGuard U thr s t th rn h g hth hrn hpc
      · exact invg_hSub U thr s t th rn h g hth hrn hpc
      · exact invg_hReady U thr s t th rn h g hth hrn hpc
      · exact invg_hWait U thr s t th rn h g hth hrn hpc
      · exact invg_hUnguard U thr s t th rn h g hth hrn hpc

theorem invg_init (thr : Nat → Bool) (calls : List Nat) : InvG thr (init calls) := by
  constructor
  · simp [init]
  · simp [init, Word.done]
  · simp [init]
  · intro i th h; simp [init]
  · intro i th h hp; rw [(init_th calls i th h).1] at hp; simp at hp
  · intro i th h hp; rw [(init_th calls i th h).1] at hp; simp [latePc] at hp
  · intro i th k h hm; rw [(init_th calls i th h).2.2] at hm; simp at hm
  · intro i th h hp; rw [(init_th calls i th h).2.1] at hp; simp at hp
  · intro i th k h hp; rw [(init_th calls i th h).2.1] at hp; simp at hp
  · intro i th k h hm; rw [(init_th calls i th h).2.2] at hm; simp at hm
  · intro k i h; simp [init] at h

theorem both_reachable (U : Nat) (thr : Nat → Bool) (calls : List Nat) (hU : calls.length ≤ U) (sched : List Tid) :
    Inv U ((sys U thr calls).run sched) ∧ InvG thr ((sys U thr calls).run sched) :=
  Sys.inv_run (sys U thr calls) (fun s => Inv U s ∧ InvG thr s) ⟨inv_init U calls hU, invg_init thr calls⟩
    (fun s t h => ⟨inv_step U thr s t h.1, invg_step U thr s t h.1 h.2⟩) sched

end TbbVerif.C19.Once
