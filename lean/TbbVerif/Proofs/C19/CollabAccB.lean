/- C19 / Collab — preservation of `InvH` (incarnations / pins, happens-before, destructor synchronisation) by an access
step, one lemma per program counter (second half). -/
import TbbVerif.Proofs.C19.CollabStepO

namespace TbbVerif.C19.Collab
open Once

syntax "invh_closeB" : tactic
macro_rules
  | `(tactic| invh_closeB) => `(tactic| (
      constructor
      all_goals (try simp only [List.length_set])
      all_goals (try assumption)
      all_goals grind [getB_set, getN_set, pinPc, guardPc, pendPc, ownerPc, winAlive, Th.ret, Word.runner, Word.uninit, Word.done, Word.gtDone,
                       Word.inc, Word.dec, Word.orMask]))

theorem invh_dtor (k : Skel) (hk : k.ok = true) (U : Nat) (thr : Nat → Bool) (c : CSt) (t : Tid) (th : Th) (rn : Rn)
    (R : Reach k U thr c) (hth : c.o.ths[t]? = some th) (hrn : c.o.rns[t]? = some rn) (hpc : th.pc = .dtor) :
    InvH k { o := Once.step U thr c.o t, x := track k thr c.o t c.x } := by
  obtain ⟨_, f2, _, f4, _, ho⟩ := Skel.ok_fields k hk
  obtain ⟨o1, o2, o3, o4, o5⟩ := Orders.ok_fields k.ord ho
  have hlt := lt_length_of_get hth
  obtain ⟨lenG, lenP, lenS, lenD, pinG, nxbad, h1, h2, h3, h4w, h4, d1, d2⟩ := R.h
  simp only [Once.step, Once.stepEv, track, hth, hrn, hpc]
  (repeat' split) <;> (try dsimp only) <;> invh_closeB

theorem invh_dtor2 (k : Skel) (hk : k.ok = true) (U : Nat) (thr : Nat → Bool) (c : CSt) (t : Tid) (th : Th) (rn : Rn)
    (R : Reach k U thr c) (hth : c.o.ths[t]? = some th) (hrn : c.o.rns[t]? = some rn) (hpc : th.pc = .dtor2) :
    InvH k { o := Once.step U thr c.o t, x := track k thr c.o t c.x } := by
  obtain ⟨_, f2, _, f4, _, ho⟩ := Skel.ok_fields k hk
  obtain ⟨o1, o2, o3, o4, o5⟩ := Orders.ok_fields k.ord ho
  have hlt := lt_length_of_get hth
  obtain ⟨lenG, lenP, lenS, lenD, pinG, nxbad, h1, h2, h3, h4w, h4, d1, d2⟩ := R.h
  have h2t := h2 t th hth (by simp [hpc, pendPc])
  simp only [Once.step, Once.stepEv, track, hth, hrn, hpc]
  (repeat' split) <;> (try dsimp only) <;> invh_closeB

theorem invh_hSpin (k : Skel) (hk : k.ok = true) (U : Nat) (thr : Nat → Bool) (c : CSt) (t : Tid) (th : Th) (rn : Rn)
    (R : Reach k U thr c) (hth : c.o.ths[t]? = some th) (hrn : c.o.rns[t]? = some rn) (hpc : th.pc = .hSpin) :
    InvH k { o := Once.step U thr c.o t, x := track k thr c.o t c.x } := by
  obtain ⟨_, f2, _, f4, _, ho⟩ := Skel.ok_fields k hk
  obtain ⟨o1, o2, o3, o4, o5⟩ := Orders.ok_fields k.ord ho
  have hlt := lt_length_of_get hth
  obtain ⟨lenG, lenP, lenS, lenD, pinG, nxbad, h1, h2, h3, h4w, h4, d1, d2⟩ := R.h
  simp only [Once.step, Once.stepEv, track, hth, hrn, hpc]
  (repeat' split) <;> (try dsimp only) <;> invh_closeB

theorem invh_hCas (k : Skel) (hk : k.ok = true) (U : Nat) (thr : Nat → Bool) (c : CSt) (t : Tid) (th : Th) (rn : Rn)
    (R : Reach k U thr c) (hth : c.o.ths[t]? = some th) (hrn : c.o.rns[t]? = some rn) (hpc : th.pc = .hCas) :
    InvH k { o := Once.step U thr c.o t, x := track k thr c.o t c.x } := by
  obtain ⟨_, f2, _, f4, _, ho⟩ := Skel.ok_fields k hk
  obtain ⟨o1, o2, o3, o4, o5⟩ := Orders.ok_fields k.ord ho
  have hlt := lt_length_of_get hth
  obtain ⟨lenG, lenP, lenS, lenD, pinG, nxbad, h1, h2, h3, h4w, h4, d1, d2⟩ := R.h
  have gtd := R.i.gtd t th hth hpc
  simp only [Once.step, Once.stepEv, track, hth, hrn, hpc]
  (repeat' split) <;> (try dsimp only) <;> invh_closeB

theorem invh_hGuard (k : Skel) (hk : k.ok = true) (U : Nat) (thr : Nat → Bool) (c : CSt) (t : Tid) (th : Th) (rn : Rn)
    (R : Reach k U thr c) (hth : c.o.ths[t]? = some th) (hrn : c.o.rns[t]? = some rn) (hpc : th.pc = .hGuard) :
    InvH k { o := Once.step U thr c.o t, x := track k thr c.o t c.x } := by
  obtain ⟨_, f2, _, f4, _, ho⟩ := Skel.ok_fields k hk
  obtain ⟨o1, o2, o3, o4, o5⟩ := Orders.ok_fields k.ord ho
  have hlt := lt_length_of_get hth
  obtain ⟨lenG, lenP, lenS, lenD, pinG, nxbad, h1, h2, h3, h4w, h4, d1, d2⟩ := R.h
  have pt := pinG t th hth (by simp [hpc, pinPc])
  simp only [Once.step, Once.stepEv, track, hth, hrn, hpc]
  (repeat' split) <;> (try dsimp only) <;> invh_closeB

theorem invh_hSub (k : Skel) (hk : k.ok = true) (U : Nat) (thr : Nat → Bool) (c : CSt) (t : Tid) (th : Th) (rn : Rn)
    (R : Reach k U thr c) (hth : c.o.ths[t]? = some th) (hrn : c.o.rns[t]? = some rn) (hpc : th.pc = .hSub) :
    InvH k { o := Once.step U thr c.o t, x := track k thr c.o t c.x } := by
  obtain ⟨_, f2, _, f4, _, ho⟩ := Skel.ok_fields k hk
  obtain ⟨o1, o2, o3, o4, o5⟩ := Orders.ok_fields k.ord ho
  have hlt := lt_length_of_get hth
  obtain ⟨lenG, lenP, lenS, lenD, pinG, nxbad, h1, h2, h3, h4w, h4, d1, d2⟩ := R.h
  have nb := no_borrow U c.o t th R.i hth hpc
  simp only [Once.step, Once.stepEv, track, hth, hrn, hpc]
  (repeat' split) <;> (try dsimp only) <;> invh_closeB

theorem invh_hReady (k : Skel) (hk : k.ok = true) (U : Nat) (thr : Nat → Bool) (c : CSt) (t : Tid) (th : Th) (rn : Rn)
    (R : Reach k U thr c) (hth : c.o.ths[t]? = some th) (hrn : c.o.rns[t]? = some rn) (hpc : th.pc = .hReady) :
    InvH k { o := Once.step U thr c.o t, x := track k thr c.o t c.x } := by
  obtain ⟨_, f2, _, f4, _, ho⟩ := Skel.ok_fields k hk
  obtain ⟨o1, o2, o3, o4, o5⟩ := Orders.ok_fields k.ord ho
  have hlt := lt_length_of_get hth
  obtain ⟨lenG, lenP, lenS, lenD, pinG, nxbad, h1, h2, h3, h4w, h4, d1, d2⟩ := R.h
  have pt := pinG t th hth (by simp [hpc, guardPc])
  simp only [Once.step, Once.stepEv, track, hth, hrn, hpc]
  (repeat' split) <;> (try dsimp only) <;> invh_closeB

theorem invh_hWait (k : Skel) (hk : k.ok = true) (U : Nat) (thr : Nat → Bool) (c : CSt) (t : Tid) (th : Th) (rn : Rn)
    (R : Reach k U thr c) (hth : c.o.ths[t]? = some th) (hrn : c.o.rns[t]? = some rn) (hpc : th.pc = .hWait) :
    InvH k { o := Once.step U thr c.o t, x := track k thr c.o t c.x } := by
  obtain ⟨_, f2, _, f4, _, ho⟩ := Skel.ok_fields k hk
  obtain ⟨o1, o2, o3, o4, o5⟩ := Orders.ok_fields k.ord ho
  have hlt := lt_length_of_get hth
  obtain ⟨lenG, lenP, lenS, lenD, pinG, nxbad, h1, h2, h3, h4w, h4, d1, d2⟩ := R.h
  have pt := pinG t th hth (by simp [hpc, guardPc])
  simp only [Once.step, Once.stepEv, track, hth, hrn, hpc]
  (repeat' split) <;> (try dsimp only) <;> invh_closeB

theorem invh_hUnguard (k : Skel) (hk : k.ok = true) (U : Nat) (thr : Nat → Bool) (c : CSt) (t : Tid) (th : Th) (rn : Rn)
    (R : Reach k U thr c) (hth : c.o.ths[t]? = some th) (hrn : c.o.rns[t]? = some rn) (hpc : th.pc = .hUnguard) :
    InvH k { o := Once.step U thr c.o t, x := track k thr c.o t c.x } := by
  obtain ⟨_, f2, _, f4, _, ho⟩ := Skel.ok_fields k hk
  obtain ⟨o1, o2, o3, o4, o5⟩ := Orders.ok_fields k.ord ho
  have hlt := lt_length_of_get hth
  obtain ⟨lenG, lenP, lenS, lenD, pinG, nxbad, h1, h2, h3, h4w, h4, d1, d2⟩ := R.h
  have pt := pinG t th hth (by simp [hpc, guardPc])
  simp only [Once.step, Once.stepEv, track, hth, hrn, hpc]
  (repeat' split) <;> (try dsimp only) <;> invh_closeB

end TbbVerif.C19.Collab
