/- C19 / EtsTable — preservation of `EInv` by the search steps (idle, probe, mtch, top). -/
import TbbVerif.Proofs.C19.EtsStep
namespace TbbVerif.C19.Ets

theorem last_none {α} (l : List α) (h : l[l.length - 1]? = none) : l = [] := by
  cases l with
  | nil => rfl
  | cons a l => simp at h

theorem estep_idle (B L0 : Nat) (s : St) (t : Tid) (th : Th) (h : EInv B L0 s)
    (hth : s.ths[t]? = some th) (hpc : th.pc = .idle) : EInv B L0 (step B L0 s t) := by
  have l := h.l t th hth
  have hhB := h.g.hB t th hth
  simp only [step, stepEv, hth, hpc]
  split
  · exact h
  · split
    · rename_i hnone
      have hemp := last_none _ hnone
      refine einv_set_th h t th _ hth rfl rfl ⟨l.cre, l.elm, l.rts, by simp [foundPc], l.cpos, ?_, by simp, by simp, by simp, ?_, by simp, by simp, by simp, by simp [insPc]⟩
      · -- created = 0: otherwise the key would be present in an (absent) array
        intro _
        have hc := l.cre.2
        by_cases h1 : th.created = 1
        · obtain ⟨j, a, idx, ha, _⟩ := l.pres ⟨h1, Or.inl (by simp [hpc, searchPc])⟩
          rw [hemp] at ha; simp at ha
        · show th.created = 0
          omega
      · intro hp; simp [placed, searchPc, insPc] at hp
    · rename_i a ha
      have hsz : start B th.h a.lg < a.size := start_lt B th.h a.lg hhB
      refine einv_set_th h t th _ hth rfl rfl ⟨l.cre, l.elm, l.rts, by simp [foundPc], l.cpos, by simp, by simp, ?_, by simp, ?_, ?_, by simp, by simp, by simp [insPc]⟩
      · intro _; exact ⟨a, ha, hsz⟩
      · intro hp
        exact l.pres ⟨hp.1, Or.inl (by simp [hpc, searchPc])⟩
      · intro hp _
        obtain ⟨j, a', idx, ha', hi', hk'⟩ := l.pres ⟨hp.1, Or.inl (by simp [hpc, searchPc])⟩
        obtain ⟨th1, D, h1, h2, h3⟩ := h.g.path j a' idx ha' hi' (by omega)
        have : a'.key idx - 1 = t := by omega
        rw [this, hth] at h1; cases h1
        rw [hk'] at h3
        refine ⟨j, a', D, ha', h3, ?_⟩
        have hj := lt_length_of_get ha'
        by_cases e : j = s.arrs.length - 1
        · right
          refine ⟨e, 0, Nat.zero_le _, ?_⟩
          subst e; rw [ha] at ha'; cases ha'
          show start B th.h a.lg = _
          simp [Nat.mod_eq_of_lt hsz]
        · left; show j < s.arrs.length - 1; omega

/-- a placed thread that sees an empty slot under its cursor has its key in a strictly older array -/
theorem cur_empty {B L0 : Nat} {arrs : List Arr} {locals : List Tid} {t : Nat} {th : Th} (l : LInv B L0 arrs locals t th)
    (hp : placed th) (hq : th.pc = .probe ∨ th.pc = .mtch) (a : Arr) (ha : arrs[th.r]? = some a) (hk : a.key th.i = 0) :
    ∃ (j : Nat) (a' : Arr) (D : Nat), arrs[j]? = some a' ∧ PathTo B a' th.h (t + 1) D ∧ j < th.r := by
  obtain ⟨j, a', D, h1, h2, h3⟩ := l.cur hp hq
  rcases h3 with h3 | ⟨e, d, hd, hi⟩
  · exact ⟨j, a', D, h1, h2, h3⟩
  · subst e; rw [ha] at h1; cases h1
    exfalso
    rcases Nat.lt_or_eq_of_le hd with hlt | heq
    · exact h2.2 d hlt (by rw [← hi]; exact hk)
    · subst heq; have := h2.1; rw [← hi, hk] at this; omega

theorem estep_probe (B L0 : Nat) (s : St) (t : Tid) (th : Th) (h : EInv B L0 s)
    (hth : s.ths[t]? = some th) (hpc : th.pc = .probe) : EInv B L0 (step B L0 s t) := by
  have l := h.l t th hth
  have hhB := h.g.hB t th hth
  obtain ⟨a, ha, hi⟩ := l.curB (Or.inl hpc)
  simp only [step, stepEv, hth, hpc, ha]
  have hsearch : searchPc th.pc = true := by simp [hpc, searchPc]
  split
  · rename_i hk0
    split
    · -- r = 0: not found anywhere → create
      rename_i hr0
      refine einv_set_th h t th _ hth rfl rfl ⟨l.cre, l.elm, l.rts, by simp [foundPc], l.cpos, ?_, by simp, by simp, by simp, ?_, by simp, by simp, by simp, by simp [insPc]⟩
      · intro _
        have hc := l.cre.2
        by_cases h1 : th.created = 1
        · obtain ⟨j, _, _, _, _, hj⟩ := cur_empty l ⟨h1, Or.inl hsearch⟩ (Or.inl hpc) a ha hk0
          omega
        · show th.created = 0; omega
      · intro hp; simp [placed, searchPc, insPc] at hp
    · rename_i hr0
      have hr := lt_length_of_get ha
      split
      · rename_i hnone
        have : th.r - 1 < s.arrs.length := by omega
        simp [List.getElem?_eq_none_iff] at hnone; omega
      · rename_i a' ha'
        have hsz : start B th.h a'.lg < a'.size := start_lt B th.h a'.lg hhB
        refine einv_set_th h t th _ hth rfl rfl ⟨l.cre, l.elm, l.rts, by simp [hpc, foundPc], l.cpos, by simp [hpc], by simp, ?_, by simp [hpc], ?_, ?_, by simp [hpc], by simp [hpc], by simp [hpc, insPc]⟩
        · intro _; exact ⟨a', ha', hsz⟩
        · intro hp; exact l.pres ⟨hp.1, Or.inl hsearch⟩
        · intro hp _
          obtain ⟨j, a1, D, h1, h2, hj⟩ := cur_empty l ⟨hp.1, Or.inl hsearch⟩ (Or.inl hpc) a ha hk0
          refine ⟨j, a1, D, h1, h2, ?_⟩
          by_cases e : j = th.r - 1
          · right
            refine ⟨e, 0, Nat.zero_le _, ?_⟩
            subst e; rw [ha'] at h1; cases h1
            show start B th.h a'.lg = _
            simp [Nat.mod_eq_of_lt hsz]
          · left; show j < th.r - 1; omega
  · -- occupied: look at the key
    refine einv_set_th h t th _ hth rfl rfl ⟨l.cre, l.elm, l.rts, by simp [foundPc], l.cpos, by simp, by simp, ?_, by simp, ?_, ?_, by simp, by simp, by simp [insPc]⟩
    · intro _; exact ⟨a, ha, hi⟩
    · intro hp; exact l.pres ⟨hp.1, Or.inl hsearch⟩
    · intro hp _; exact l.cur ⟨hp.1, Or.inl hsearch⟩ (Or.inl hpc)

theorem estep_mtch (B L0 : Nat) (s : St) (t : Tid) (th : Th) (h : EInv B L0 s)
    (hth : s.ths[t]? = some th) (hpc : th.pc = .mtch) : EInv B L0 (step B L0 s t) := by
  have l := h.l t th hth
  obtain ⟨a, ha, hi⟩ := l.curB (Or.inr (Or.inl hpc))
  simp only [step, stepEv, hth, hpc, ha]
  have hsearch : searchPc th.pc = true := by simp [hpc, searchPc]
  have hpos : 0 < a.size := Nat.two_pow_pos _
  split
  · rename_i hk
    refine einv_set_th h t th _ hth rfl rfl ⟨l.cre, l.elm, l.rts, by simp [foundPc], l.cpos, by simp, by simp, ?_, ?_, ?_, by simp, by simp, by simp, by simp [insPc]⟩
    · intro _; exact ⟨a, ha, hi⟩
    · intro a1 _ ha1; rw [ha] at ha1; cases ha1; exact hk
    · intro hp; exact l.pres ⟨hp.1, Or.inl hsearch⟩
  · rename_i hk
    refine einv_set_th h t th _ hth rfl rfl ⟨l.cre, l.elm, l.rts, by simp [foundPc], l.cpos, by simp, by simp, ?_, by simp, ?_, ?_, by simp, by simp, by simp [insPc]⟩
    · intro _; exact ⟨a, ha, Nat.mod_lt _ hpos⟩
    · intro hp; exact l.pres ⟨hp.1, Or.inl hsearch⟩
    · intro hp _
      obtain ⟨j, a1, D, h1, h2, h3⟩ := l.cur ⟨hp.1, Or.inl hsearch⟩ (Or.inr hpc)
      refine ⟨j, a1, D, h1, h2, ?_⟩
      rcases h3 with h3 | ⟨e, d, hd, hi'⟩
      · exact Or.inl h3
      · right
        subst e; rw [ha] at h1; cases h1
        refine ⟨rfl, d + 1, ?_, ?_⟩
        · rcases Nat.lt_or_eq_of_le hd with hlt | heq
          · exact hlt
          · subst heq; exfalso; have := h2.1; rw [← hi'] at this; exact hk this
        · show (th.i + 1) % a.size = _
          rw [hi', succ_mod_mod]; rfl

theorem estep_top (B L0 : Nat) (s : St) (t : Tid) (th : Th) (h : EInv B L0 s)
    (hth : s.ths[t]? = some th) (hpc : th.pc = .top) : EInv B L0 (step B L0 s t) := by
  have l := h.l t th hth
  obtain ⟨a, ha, hi⟩ := l.curB (Or.inr (Or.inr (Or.inl hpc)))
  have hk := l.topK a hpc ha
  obtain ⟨th1, h1, h2, h3⟩ := h.g.slot th.r a th.i ha (by rw [hk]; omega)
  have : a.key th.i - 1 = t := by omega
  rw [this, hth] at h1; cases h1
  have hcr := (l.elm.1 h3).1
  simp only [step, stepEv, hth, hpc, ha]
  split
  · -- found at the top level: return
    refine einv_set_th h t th _ hth rfl rfl ⟨l.cre, l.elm, ?_, by simp [Th.ret, foundPc], l.cpos, by simp [Th.ret], by simp [Th.ret], by simp [Th.ret], by simp [Th.ret], ?_, by simp [Th.ret], by simp [Th.ret], by simp [Th.ret], by simp [Th.ret, insPc]⟩
    · intro pe hpe
      simp only [Th.ret, List.mem_cons] at hpe
      rcases hpe with rfl | hpe
      · exact ⟨h2, h3⟩
      · exact l.rts pe hpe
    · intro _; exact ⟨th.r, a, th.i, ha, hi, hk⟩
  · -- found in an older array: re-insert at the top
    rename_i hne
    refine einv_set_th h t th _ hth rfl rfl ⟨l.cre, l.elm, l.rts, ?_, l.cpos, by simp, by simp, by simp, by simp, ?_, by simp, by simp, by simp, ?_⟩
    · intro _; exact ⟨h2, h3⟩
    · intro _; exact ⟨th.r, a, th.i, ha, hi, hk⟩
    · intro _ he; rw [he] at ha; simp at ha
end TbbVerif.C19.Ets
