/- C19 / OnceFlag — preservation of `Inv` by the steps at pcs hSub, hReady, hWait, hUnguard (one lemma per program counter). -/
import TbbVerif.Proofs.C19.OnceInv
namespace TbbVerif.C19.Once

theorem inv_hSub (U : Nat) (thr : Nat → Bool) (s : St) (t : Tid) (th : Th) (rn : Rn) (h : Inv U s)
    (hth : s.ths[t]? = some th) (hrn : s.rns[t]? = some rn) (hpc : th.pc = .hSub) : Inv U (step U thr s t) := by
  have hc := fun y => countP_set_add isPin s.ths t th y hth
  have hg := fun i y => countP_set_add (isGuardOn i) s.ths t th y hth
  simp only [step, stepEv, hth, hrn, hpc]
  obtain ⟨hlen, hnU, hwlo, hhiB, hown, hpin, hpinT, hrefc, halv, hsto, hrpos, hwcx, hrdy, hgtd, hdesv, htgtB, hnbad⟩ := h
  (repeat' split) <;> (try dsimp only) <;> inv_close

set_option maxHeartbeats 1000000 in
theorem inv_hReady (U : Nat) (thr : Nat → Bool) (s : St) (t : Tid) (th : Th) (rn : Rn) (h : Inv U s)
    (hth : s.ths[t]? = some th) (hrn : s.rns[t]? = some rn) (hpc : th.pc = .hReady) : Inv U (step U thr s t) := by
  have hc := fun y => countP_set_add isPin s.ths t th y hth
  have hg := fun i y => countP_set_add (isGuardOn i) s.ths t th y hth
  simp only [step, stepEv, hth, hrn, hpc]
  obtain ⟨hlen, hnU, hwlo, hhiB, hown, hpin, hpinT, hrefc, halv, hsto, hrpos, hwcx, hrdy, hgtd, hdesv, htgtB, hnbad⟩ := h
  (repeat' split) <;> (try dsimp only) <;> inv_close

set_option maxHeartbeats 1000000 in
theorem inv_hWait (U : Nat) (thr : Nat → Bool) (s : St) (t : Tid) (th : Th) (rn : Rn) (h : Inv U s)
    (hth : s.ths[t]? = some th) (hrn : s.rns[t]? = some rn) (hpc : th.pc = .hWait) : Inv U (step U thr s t) := by
  have hc := fun y => countP_set_add isPin s.ths t th y hth
  have hg := fun i y => countP_set_add (isGuardOn i) s.ths t th y hth
  simp only [step, stepEv, hth, hrn, hpc]
  obtain ⟨hlen, hnU, hwlo, hhiB, hown, hpin, hpinT, hrefc, halv, hsto, hrpos, hwcx, hrdy, hgtd, hdesv, htgtB, hnbad⟩ := h
  (repeat' split) <;> (try dsimp only) <;> inv_close

theorem inv_hUnguard (U : Nat) (thr : Nat → Bool) (s : St) (t : Tid) (th : Th) (rn : Rn) (h : Inv U s)
    (hth : s.ths[t]? = some th) (hrn : s.rns[t]? = some rn) (hpc : th.pc = .hUnguard) : Inv U (step U thr s t) := by
  have hc := fun y => countP_set_add isPin s.ths t th y hth
  have hg := fun i y => countP_set_add (isGuardOn i) s.ths t th y hth
  simp only [step, stepEv, hth, hrn, hpc]
  obtain ⟨hlen, hnU, hwlo, hhiB, hown, hpin, hpinT, hrefc, halv, hsto, hrpos, hwcx, hrdy, hgtd, hdesv, htgtB, hnbad⟩ := h
  (repeat' split) <;> (try dsimp only) <;> inv_close
end TbbVerif.C19.Once
