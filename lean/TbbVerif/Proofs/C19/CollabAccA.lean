/- C19 / Collab — preservation of `InvH` (incarnations / pins, happens-before, destructor synchronisation) by an access
step, one lemma per program counter (first half). -/
import TbbVerif.Proofs.C19.CollabStepO

namespace TbbVerif.C19.Collab
open Once

syntax "invh_close" : tactic
macro_rules
  | `(tactic| invh_close) => `(tactic| (
      constructor
      all_goals (try simp only [List.length_set])
      all_goals (try assumption)
      all_goals grind [getB_set, getN_set, pinPc, guardPc, pendPc, ownerPc, winAlive, Th.ret, Word.runner, Word.uninit, Word.done, Word.gtDone,
                       Word.inc, Word.dec, Word.orMask]))

theorem invh_idle (k : Skel) (hk : k.ok = true) (U : Nat) (thr : Nat → Bool) (c : CSt) (t : Tid) (th : Th) (rn : Rn)
    (R : Reach k U thr c) (hth : c.o.ths[t]? = some th) (hrn : c.o.rns[t]? = some rn) (hpc : th.pc = .idle) :
    InvH k { o := Once.step U thr c.o t, x := track k thr c.o t c.x } := by
  obtain ⟨_, f2, _, f4, _, ho⟩ := Skel.ok_fields k hk
  obtain ⟨o1, o2, o3, o4, o5⟩ := Orders.ok_fields k.ord ho
  have hlt := lt_length_of_get hth
  obtain ⟨lenG, lenP, lenS, lenD, pinG, nxbad, h1, h2, h3, h4w, h4, d1, d2⟩ := R.h
  have g1 := R.g.g1
  simp only [Once.step, Once.stepEv, track, hth, hrn, hpc]
  (repeat' split) <;> (try dsimp only) <;> invh_close

theorem invh_entry (k : Skel) (hk : k.ok = true) (U : Nat) (thr : Nat → Bool) (c : CSt) (t : Tid) (th : Th) (rn : Rn)
    (R : Reach k U thr c) (hth : c.o.ths[t]? = some th) (hrn : c.o.rns[t]? = some rn) (hpc : th.pc = .entry) :
    InvH k { o := Once.step U thr c.o t, x := track k thr c.o t c.x } := by
  obtain ⟨_, f2, _, f4, _, ho⟩ := Skel.ok_fields k hk
  obtain ⟨o1, o2, o3, o4, o5⟩ := Orders.ok_fields k.ord ho
  have hlt := lt_length_of_get hth
  obtain ⟨lenG, lenP, lenS, lenD, pinG, nxbad, h1, h2, h3, h4w, h4, d1, d2⟩ := R.h
  have ga := fun j thj hj hg => guard_alive U c.o R.i j thj hj hg
  have pinT := R.i.pinT
  have own := R.i.own
  simp only [Once.step, Once.stepEv, track, hth, hrn, hpc]
  (repeat' split) <;> (try dsimp only) <;> invh_close

theorem invh_winCas (k : Skel) (hk : k.ok = true) (U : Nat) (thr : Nat → Bool) (c : CSt) (t : Tid) (th : Th) (rn : Rn)
    (R : Reach k U thr c) (hth : c.o.ths[t]? = some th) (hrn : c.o.rns[t]? = some rn) (hpc : th.pc = .winCas) :
    InvH k { o := Once.step U thr c.o t, x := track k thr c.o t c.x } := by
  obtain ⟨_, f2, _, f4, _, ho⟩ := Skel.ok_fields k hk
  obtain ⟨o1, o2, o3, o4, o5⟩ := Orders.ok_fields k.ord ho
  have hlt := lt_length_of_get hth
  obtain ⟨lenG, lenP, lenS, lenD, pinG, nxbad, h1, h2, h3, h4w, h4, d1, d2⟩ := R.h
  simp only [Once.step, Once.stepEv, track, hth, hrn, hpc]
  (repeat' split) <;> (try dsimp only) <;> invh_close

theorem invh_wReady (k : Skel) (hk : k.ok = true) (U : Nat) (thr : Nat → Bool) (c : CSt) (t : Tid) (th : Th) (rn : Rn)
    (R : Reach k U thr c) (hth : c.o.ths[t]? = some th) (hrn : c.o.rns[t]? = some rn) (hpc : th.pc = .wReady) :
    InvH k { o := Once.step U thr c.o t, x := track k thr c.o t c.x } := by
  obtain ⟨_, f2, _, f4, _, ho⟩ := Skel.ok_fields k hk
  obtain ⟨o1, o2, o3, o4, o5⟩ := Orders.ok_fields k.ord ho
  have hlt := lt_length_of_get hth
  obtain ⟨lenG, lenP, lenS, lenD, pinG, nxbad, h1, h2, h3, h4w, h4, d1, d2⟩ := R.h
  simp only [Once.step, Once.stepEv, track, hth, hrn, hpc]
  (repeat' split) <;> (try dsimp only) <;> invh_close

theorem invh_wCall (k : Skel) (hk : k.ok = true) (U : Nat) (thr : Nat → Bool) (c : CSt) (t : Tid) (th : Th) (rn : Rn)
    (R : Reach k U thr c) (hth : c.o.ths[t]? = some th) (hrn : c.o.rns[t]? = some rn) (hpc : th.pc = .wCall) :
    InvH k { o := Once.step U thr c.o t, x := track k thr c.o t c.x } := by
  obtain ⟨_, f2, _, f4, _, ho⟩ := Skel.ok_fields k hk
  obtain ⟨o1, o2, o3, o4, o5⟩ := Orders.ok_fields k.ord ho
  have hlt := lt_length_of_get hth
  obtain ⟨lenG, lenP, lenS, lenD, pinG, nxbad, h1, h2, h3, h4w, h4, d1, d2⟩ := R.h
  have g2 := R.g.g2 t th hth (Or.inr hpc)
  simp only [Once.step, Once.stepEv, track, hth, hrn, hpc]
  (repeat' split) <;> (try dsimp only) <;> invh_close

theorem invh_wSpin (k : Skel) (hk : k.ok = true) (U : Nat) (thr : Nat → Bool) (c : CSt) (t : Tid) (th : Th) (rn : Rn)
    (R : Reach k U thr c) (hth : c.o.ths[t]? = some th) (hrn : c.o.rns[t]? = some rn) (hpc : th.pc = .wSpin) :
    InvH k { o := Once.step U thr c.o t, x := track k thr c.o t c.x } := by
  obtain ⟨_, f2, _, f4, _, ho⟩ := Skel.ok_fields k hk
  obtain ⟨o1, o2, o3, o4, o5⟩ := Orders.ok_fields k.ord ho
  have hlt := lt_length_of_get hth
  obtain ⟨lenG, lenP, lenS, lenD, pinG, nxbad, h1, h2, h3, h4w, h4, d1, d2⟩ := R.h
  simp only [Once.step, Once.stepEv, track, hth, hrn, hpc]
  (repeat' split) <;> (try dsimp only) <;> invh_close

theorem invh_wSet (k : Skel) (hk : k.ok = true) (U : Nat) (thr : Nat → Bool) (c : CSt) (t : Tid) (th : Th) (rn : Rn)
    (R : Reach k U thr c) (hth : c.o.ths[t]? = some th) (hrn : c.o.rns[t]? = some rn) (hpc : th.pc = .wSet) :
    InvH k { o := Once.step U thr c.o t, x := track k thr c.o t c.x } := by
  obtain ⟨_, f2, _, f4, _, ho⟩ := Skel.ok_fields k hk
  obtain ⟨o1, o2, o3, o4, o5⟩ := Orders.ok_fields k.ord ho
  have hlt := lt_length_of_get hth
  obtain ⟨lenG, lenP, lenS, lenD, pinG, nxbad, h1, h2, h3, h4w, h4, d1, d2⟩ := R.h
  have g3 := R.g.g3 t th hth (Or.inr hpc)
  have h2t := h2 t th hth (by simp [hpc, pendPc])
  simp only [Once.step, Once.stepEv, track, hth, hrn, hpc]
  (repeat' split) <;> (try dsimp only) <;> invh_close

theorem invh_wRelease (k : Skel) (hk : k.ok = true) (U : Nat) (thr : Nat → Bool) (c : CSt) (t : Tid) (th : Th) (rn : Rn)
    (R : Reach k U thr c) (hth : c.o.ths[t]? = some th) (hrn : c.o.rns[t]? = some rn) (hpc : th.pc = .wRelease) :
    InvH k { o := Once.step U thr c.o t, x := track k thr c.o t c.x } := by
  obtain ⟨_, f2, _, f4, _, ho⟩ := Skel.ok_fields k hk
  obtain ⟨o1, o2, o3, o4, o5⟩ := Orders.ok_fields k.ord ho
  have hlt := lt_length_of_get hth
  obtain ⟨lenG, lenP, lenS, lenD, pinG, nxbad, h1, h2, h3, h4w, h4, d1, d2⟩ := R.h
  simp only [Once.step, Once.stepEv, track, hth, hrn, hpc]
  (repeat' split) <;> (try dsimp only) <;> invh_close

theorem invh_wWait (k : Skel) (hk : k.ok = true) (U : Nat) (thr : Nat → Bool) (c : CSt) (t : Tid) (th : Th) (rn : Rn)
    (R : Reach k U thr c) (hth : c.o.ths[t]? = some th) (hrn : c.o.rns[t]? = some rn) (hpc : th.pc = .wWait) :
    InvH k { o := Once.step U thr c.o t, x := track k thr c.o t c.x } := by
  obtain ⟨_, f2, _, f4, _, ho⟩ := Skel.ok_fields k hk
  obtain ⟨o1, o2, o3, o4, o5⟩ := Orders.ok_fields k.ord ho
  have hlt := lt_length_of_get hth
  obtain ⟨lenG, lenP, lenS, lenD, pinG, nxbad, h1, h2, h3, h4w, h4, d1, d2⟩ := R.h
  simp only [Once.step, Once.stepEv, track, hth, hrn, hpc]
  (repeat' split) <;> (try dsimp only) <;> invh_close

end TbbVerif.C19.Collab
