/-
C19 / EtsTable — the inductive invariant of `ets_base::table_lookup` (model `Ets` in Model/C19.lean).
-/
import TbbVerif.Model.C19

namespace TbbVerif.C19.Ets

/-! ### arithmetic helpers -/

theorem start_lt (B h lg : Nat) (hh : h < 2 ^ B) : start B h lg < 2 ^ lg := by
  unfold start
  by_cases hl : lg ≤ B
  · have : 2 ^ B = 2 ^ (B - lg) * 2 ^ lg := by rw [← Nat.pow_add]; congr 1; omega
    rw [Nat.div_lt_iff_lt_mul (Nat.two_pow_pos _)]
    rw [Nat.mul_comm]; omega
  · have h0 : B - lg = 0 := by omega
    rw [h0]; simp
    calc h < 2 ^ B := hh
      _ ≤ 2 ^ lg := Nat.pow_le_pow_right (by decide) (by omega)

theorem growLg_ge (c : Nat) : ∀ (fuel s : Nat), s ≤ growLg c fuel s
  | 0, s => by simp [growLg]
  | fuel + 1, s => by
    simp only [growLg]
    split
    · exact Nat.le_trans (Nat.le_succ s) (growLg_ge c fuel (s + 1))
    · exact Nat.le_refl s

theorem growLg_gt (c fuel s : Nat) (hc : c > 2 ^ (s - 1)) : s < growLg c (fuel + 1) s := by
  simp only [growLg, hc, if_true]
  exact Nat.lt_of_lt_of_le (Nat.lt_succ_self s) (growLg_ge c fuel (s + 1))

theorem succ_mod_mod (a n : Nat) : (a % n + 1) % n = (a + 1) % n := by
  rw [Nat.add_mod, Nat.mod_mod, ← Nat.add_mod]


/-- the first `d` probe positions of hash `h` in `a` are occupied -/
def Occupied (B : Nat) (a : Arr) (h d : Nat) : Prop :=
  ∀ d', d' < d → a.key ((start B h a.lg + d') % a.size) ≠ 0

/-- slots `start, start+1, …` (cyclically) of `a` up to offset `D` are occupied and offset `D` holds key `k` -/
def PathTo (B : Nat) (a : Arr) (h k D : Nat) : Prop :=
  a.key ((start B h a.lg + D) % a.size) = k ∧ Occupied B a h D

/-! ### slots under `set` -/

theorem getD_set (l : List Nat) (i j v : Nat) :
    (l.set i v).getD j 0 = if j = i ∧ i < l.length then v else l.getD j 0 := by
  simp only [List.getD_eq_getElem?_getD, List.getElem?_set]
  by_cases h : i = j
  · subst h
    by_cases h2 : i < l.length
    · simp [h2]
    · simp [h2]
  · have : ¬ (j = i) := fun e => h e.symm
    simp [h, this]

/-- the array after a successful claim of slot `i` -/
def Arr.setSlot (a : Arr) (i k p : Nat) : Arr := { a with keys := a.keys.set i k, ptrs := a.ptrs.set i p }

theorem key_setSlot (a : Arr) (i k p idx : Nat) :
    (a.setSlot i k p).key idx = if idx = i ∧ i < a.keys.length then k else a.key idx := by
  simp only [Arr.setSlot, Arr.key]; exact getD_set a.keys i idx k

theorem ptr_setSlot (a : Arr) (i k p idx : Nat) :
    (a.setSlot i k p).ptr idx = if idx = i ∧ i < a.ptrs.length then p else a.ptr idx := by
  simp only [Arr.setSlot, Arr.ptr]; exact getD_set a.ptrs i idx p

theorem key_setSlot_of_ne0 (a : Arr) (i k p idx : Nat) (h0 : a.key i = 0) (hn : a.key idx ≠ 0) :
    (a.setSlot i k p).key idx = a.key idx := by
  rw [key_setSlot]
  have : idx ≠ i := fun e => hn (e ▸ h0)
  simp [this]

theorem size_setSlot (a : Arr) (i k p : Nat) : (a.setSlot i k p).size = a.size := rfl
theorem lg_setSlot (a : Arr) (i k p : Nat) : (a.setSlot i k p).lg = a.lg := rfl

theorem Occupied_setSlot (B : Nat) (a : Arr) (i k p h d : Nat) (h0 : a.key i = 0) (ho : Occupied B a h d) :
    Occupied B (a.setSlot i k p) h d := by
  intro d' hd'
  have := ho d' hd'
  rw [lg_setSlot, size_setSlot, key_setSlot_of_ne0 a i k p _ h0 this]
  exact this

theorem PathTo_setSlot (B : Nat) (a : Arr) (i k p h k' D : Nat) (h0 : a.key i = 0) (hk : k' ≠ 0) (hp : PathTo B a h k' D) :
    PathTo B (a.setSlot i k p) h k' D := by
  obtain ⟨h1, h2⟩ := hp
  refine ⟨?_, Occupied_setSlot B a i k p h D h0 h2⟩
  rw [lg_setSlot, size_setSlot, key_setSlot_of_ne0 a i k p _ h0 (by rw [h1]; exact hk)]
  exact h1

theorem key_empty (lg idx : Nat) : (Arr.empty lg).key idx = 0 := by
  simp only [Arr.empty, Arr.key, List.getD_eq_getElem?_getD, List.getElem?_replicate]
  split <;> simp

/-! ### state predicates -/

def searchPc : Pc → Bool
  | .idle | .probe | .mtch | .top => true
  | _ => false

def insPc : Pc → Bool
  | .ins | .insProbe | .claim => true
  | _ => false

/-- pcs at which `found` holds the thread's own element -/
def foundPc : Pc → Bool
  | .root2 | .push | .ins | .insProbe | .claim => true
  | _ => false

/-- the thread's key is already in the table as far as the thread's own control state can tell -/
def placed (th : Th) : Prop := th.created = 1 ∧ (searchPc th.pc = true ∨ (insPc th.pc = true ∧ th.ex = true))

/-- the part of the invariant that speaks about the table (arrays, slots, registry of elements) -/
structure GInv (B L0 : Nat) (arrs : List Arr) (ths : List Th) (locals : List Tid) : Prop where
  wfA  : ∀ (j : Nat) (a : Arr), arrs[j]? = some a → a.keys.length = a.size ∧ a.ptrs.length = a.size ∧ L0 ≤ a.lg
  /-- lg_size strictly increases along the chain (each array is at least twice its predecessor) -/
  lgI  : ∀ (j : Nat) (a a' : Arr), arrs[j]? = some a → arrs[j + 1]? = some a' → a.lg < a'.lg
  hB   : ∀ (t : Nat) (th : Th), ths[t]? = some th → th.h < 2 ^ B
  /-- an occupied slot holds the key of an existing thread and that thread's element -/
  slot : ∀ (j : Nat) (a : Arr) (idx : Nat), arrs[j]? = some a → a.key idx ≠ 0 →
           ∃ th : Th, ths[a.key idx - 1]? = some th ∧ a.ptr idx = th.elem ∧ th.elem ≠ 0
  /-- probe invariant: every occupied slot is reached from its key's start index through occupied slots -/
  path : ∀ (j : Nat) (a : Arr) (idx : Nat), arrs[j]? = some a → idx < a.size → a.key idx ≠ 0 →
           ∃ (th : Th) (D : Nat), ths[a.key idx - 1]? = some th ∧ idx = (start B th.h a.lg + D) % a.size ∧ PathTo B a th.h (a.key idx) D
  locB : ∀ (c : Nat), c ∈ locals → c < ths.length

/-- the part of the invariant that speaks about one thread `t` with control state `th` -/
structure LInv (B L0 : Nat) (arrs : List Arr) (locals : List Tid) (t : Nat) (th : Th) : Prop where
  /-- elements: `created` counts this thread's entries of my_locals; at most one; `elem` is that entry -/
  cre  : th.created = locals.count t ∧ th.created ≤ 1
  elm  : (th.elem ≠ 0 → th.created = 1 ∧ locals[th.elem - 1]? = some t) ∧ (th.created = 1 → th.elem ≠ 0)
  rts  : ∀ (pe : Nat × Bool), pe ∈ th.rets → pe.1 = th.elem ∧ th.elem ≠ 0
  /-- `found` is the thread's own element throughout the grow / insert phase -/
  fnd  : foundPc th.pc = true → th.found = th.elem ∧ th.elem ≠ 0
  cpos : th.created = 1 → 1 ≤ th.c
  cnt0 : th.pc = .cnt → th.created = 0
  /-- `exists` is false on the path from `create_local` to the insert -/
  exF  : (th.pc = .root2 ∨ th.pc = .push) → th.ex = false
  /-- cursor of a search / insert probe is inside an existing array -/
  curB : (th.pc = .probe ∨ th.pc = .mtch ∨ th.pc = .top ∨ th.pc = .insProbe ∨ th.pc = .claim) →
           ∃ a : Arr, arrs[th.r]? = some a ∧ th.i < a.size
  topK : ∀ (a : Arr), th.pc = .top → arrs[th.r]? = some a → a.key th.i = t + 1
  /-- a thread whose key is in the table finds it: the key is present … -/
  pres : placed th → ∃ (j : Nat) (a : Arr) (idx : Nat), arrs[j]? = some a ∧ idx < a.size ∧ a.key idx = t + 1
  /-- … and while it searches, the key is in an older array, or in the current one at or after the cursor -/
  cur  : placed th → (th.pc = .probe ∨ th.pc = .mtch) →
           ∃ (j : Nat) (a : Arr) (D : Nat), arrs[j]? = some a ∧ PathTo B a th.h (t + 1) D ∧
             (j < th.r ∨ (j = th.r ∧ ∃ d, d ≤ D ∧ th.i = (start B th.h a.lg + d) % a.size))
  /-- an insert probe has only passed occupied slots -/
  insC : ∀ (a : Arr), (th.pc = .insProbe ∨ th.pc = .claim) → arrs[th.r]? = some a →
           ∃ d, th.i = (start B th.h a.lg + d) % a.size ∧ Occupied B a th.h d
  /-- grow loop: the array to be published is bigger than the root it is chained to -/
  pshC : th.pc = .push →
           L0 ≤ th.s ∧ th.nr ≤ arrs.length ∧ (th.nr ≠ 0 → ∃ a : Arr, arrs[th.nr - 1]? = some a ∧ a.lg < th.s)
  /-- the insert phase always has a root -/
  insR : insPc th.pc = true → arrs ≠ []

structure EInv (B L0 : Nat) (s : St) : Prop where
  g    : GInv B L0 s.arrs s.ths s.locals
  l    : ∀ (t : Nat) (th : Th), s.ths[t]? = some th → LInv B L0 s.arrs s.locals t th
  nbad : s.bad = false

/-! ### frame lemmas -/

theorem lt_length_of_get {α} {l : List α} {i : Nat} {x : α} (h : l[i]? = some x) : i < l.length := by
  rcases Nat.lt_or_ge i l.length with h1 | h1
  · exact h1
  · simp [List.getElem?_eq_none h1] at h

/-- replacing a thread's record keeps the table invariant if hash and element are unchanged -/
theorem GInv.set_th {B L0 : Nat} {arrs : List Arr} {ths : List Th} {locals : List Tid} (g : GInv B L0 arrs ths locals)
    (t : Nat) (th th' : Th) (hth : ths[t]? = some th) (hh : th'.h = th.h) (he : th'.elem = th.elem) :
    GInv B L0 arrs (ths.set t th') locals := by
  have hlt := lt_length_of_get hth
  refine ⟨g.wfA, g.lgI, ?_, ?_, ?_, ?_⟩
  · intro t1 th1 h1
    rw [List.getElem?_set] at h1
    by_cases e : t = t1
    · subst e; simp [hlt] at h1; subst h1; rw [hh]; exact g.hB t th hth
    · simp [e] at h1; exact g.hB t1 th1 h1
  · intro j a idx ha hk
    obtain ⟨th1, h1, h2, h3⟩ := g.slot j a idx ha hk
    by_cases e : t = a.key idx - 1
    · rw [← e] at h1; rw [hth] at h1; cases h1
      exact ⟨th', by rw [← e, List.getElem?_set]; simp [hlt], by rw [he]; exact h2, by rw [he]; exact h3⟩
    · exact ⟨th1, by rw [List.getElem?_set]; simp [e, h1], h2, h3⟩
  · intro j a idx ha hi hk
    obtain ⟨th1, D, h1, h2, h3⟩ := g.path j a idx ha hi hk
    by_cases e : t = a.key idx - 1
    · rw [← e] at h1; rw [hth] at h1; cases h1
      exact ⟨th', D, by rw [← e, List.getElem?_set]; simp [hlt], by rw [hh]; exact h2, by rw [hh]; exact h3⟩
    · exact ⟨th1, D, by rw [List.getElem?_set]; simp [e, h1], h2, h3⟩
  · intro c hc; rw [List.length_set]; exact g.locB c hc

/-- appending an array keeps a thread's invariant -/
theorem LInv.push {B L0 : Nat} {arrs : List Arr} {locals : List Tid} {t : Nat} {th : Th}
    (l : LInv B L0 arrs locals t th) (a0 : Arr) : LInv B L0 (arrs ++ [a0]) locals t th := by
  have app : ∀ (j : Nat) (a : Arr), arrs[j]? = some a → (arrs ++ [a0])[j]? = some a := by
    intro j a h; rw [List.getElem?_append_left (lt_length_of_get h)]; exact h
  have app' : ∀ (j : Nat) (a a1 : Arr), arrs[j]? = some a1 → (arrs ++ [a0])[j]? = some a → a = a1 := by
    intro j a a1 h1 h2; rw [app j a1 h1] at h2; cases h2; rfl
  refine ⟨l.cre, l.elm, l.rts, l.fnd, l.cpos, l.cnt0, l.exF, ?_, ?_, ?_, ?_, ?_, ?_, ?_⟩
  · intro hp; obtain ⟨a, h1, h2⟩ := l.curB hp; exact ⟨a, app _ _ h1, h2⟩
  · intro a hp ha
    obtain ⟨a1, h1, _⟩ := l.curB (Or.inr (Or.inr (Or.inl hp)))
    rw [app' _ a a1 h1 ha]; exact l.topK a1 hp h1
  · intro hp; obtain ⟨j, a, idx, h1, h2, h3⟩ := l.pres hp; exact ⟨j, a, idx, app _ _ h1, h2, h3⟩
  · intro hp hq; obtain ⟨j, a, D, h1, h2, h3⟩ := l.cur hp hq; exact ⟨j, a, D, app _ _ h1, h2, h3⟩
  · intro a hp ha
    obtain ⟨a1, h1, _⟩ := l.curB (by rcases hp with h | h; exact Or.inr (Or.inr (Or.inr (Or.inl h))); exact Or.inr (Or.inr (Or.inr (Or.inr h))))
    rw [app' _ a a1 h1 ha]; exact l.insC a1 hp h1
  · intro hp
    obtain ⟨h1, h2, h3⟩ := l.pshC hp
    refine ⟨h1, by rw [List.length_append]; omega, fun hn => ?_⟩
    obtain ⟨a, h4, h5⟩ := h3 hn
    exact ⟨a, app _ _ h4, h5⟩
  · intro hp; simp

/-- filling an empty slot keeps a thread's invariant -/
theorem LInv.claim {B L0 : Nat} {arrs : List Arr} {locals : List Tid} {t : Nat} {th : Th}
    (l : LInv B L0 arrs locals t th) (r i k p : Nat) (a0 : Arr) (ha0 : arrs[r]? = some a0) (h0 : a0.key i = 0) :
    LInv B L0 (arrs.set r (a0.setSlot i k p)) locals t th := by
  have hr := lt_length_of_get ha0
  -- every array of the new chain is the old one with (possibly) that slot filled
  have old : ∀ (j : Nat) (a : Arr), (arrs.set r (a0.setSlot i k p))[j]? = some a →
      (j = r ∧ a = a0.setSlot i k p) ∨ (j ≠ r ∧ arrs[j]? = some a) := by
    intro j a h
    rw [List.getElem?_set] at h
    by_cases e : r = j
    · subst e; simp [hr] at h; exact Or.inl ⟨rfl, h.symm⟩
    · simp [e] at h; exact Or.inr ⟨fun x => e x.symm, h⟩
  have new : ∀ (j : Nat) (a : Arr), arrs[j]? = some a →
      ∃ a', (arrs.set r (a0.setSlot i k p))[j]? = some a' ∧ a'.lg = a.lg ∧ a'.size = a.size ∧
        (∀ idx, a.key idx ≠ 0 → a'.key idx = a.key idx) ∧
        (∀ h d, Occupied B a h d → Occupied B a' h d) ∧ (∀ h k' D, k' ≠ 0 → PathTo B a h k' D → PathTo B a' h k' D) := by
    intro j a h
    by_cases e : r = j
    · subst e
      rw [ha0] at h; cases h
      exact ⟨a0.setSlot i k p, by rw [List.getElem?_set]; simp [hr], rfl, rfl,
        fun idx hn => key_setSlot_of_ne0 a0 i k p idx h0 hn,
        fun h d ho => Occupied_setSlot B a0 i k p h d h0 ho,
        fun h k' D hk hp => PathTo_setSlot B a0 i k p h k' D h0 hk hp⟩
    · exact ⟨a, by rw [List.getElem?_set]; simp [e, h], rfl, rfl, fun _ _ => rfl, fun _ _ ho => ho, fun _ _ _ _ hp => hp⟩
  refine ⟨l.cre, l.elm, l.rts, l.fnd, l.cpos, l.cnt0, l.exF, ?_, ?_, ?_, ?_, ?_, ?_, ?_⟩
  · intro hp
    obtain ⟨a, h1, h2⟩ := l.curB hp
    obtain ⟨a', h3, _, h5, _⟩ := new _ a h1
    exact ⟨a', h3, by rw [h5]; exact h2⟩
  · intro a hp ha
    obtain ⟨a1, h1, _⟩ := l.curB (Or.inr (Or.inr (Or.inl hp)))
    obtain ⟨a', h3, _, _, h6, _⟩ := new _ a1 h1
    rw [ha] at h3; cases h3
    have hk := l.topK a1 hp h1
    rw [h6 _ (by rw [hk]; omega)]; exact hk
  · intro hp
    obtain ⟨j, a, idx, h1, h2, h3⟩ := l.pres hp
    obtain ⟨a', h4, _, h5, h6, _⟩ := new _ a h1
    exact ⟨j, a', idx, h4, by rw [h5]; exact h2, by rw [h6 _ (by rw [h3]; omega)]; exact h3⟩
  · intro hp hq
    obtain ⟨j, a, D, h1, h2, h3⟩ := l.cur hp hq
    obtain ⟨a', h4, h5, h6, _, _, h9⟩ := new _ a h1
    exact ⟨j, a', D, h4, h9 _ _ _ (by omega) h2, by rw [h5, h6]; exact h3⟩
  · intro a hp ha
    obtain ⟨a1, h1, _⟩ := l.curB (by rcases hp with h | h; exact Or.inr (Or.inr (Or.inr (Or.inl h))); exact Or.inr (Or.inr (Or.inr (Or.inr h))))
    obtain ⟨a', h3, h5, h6, _, h8, _⟩ := new _ a1 h1
    rw [ha] at h3; cases h3
    obtain ⟨d, hd1, hd2⟩ := l.insC a1 hp h1
    exact ⟨d, by rw [h5, h6]; exact hd1, h8 _ _ hd2⟩
  · intro hp
    obtain ⟨h1, h2, h3⟩ := l.pshC hp
    refine ⟨h1, by rw [List.length_set]; exact h2, fun hn => ?_⟩
    obtain ⟨a, h4, h5⟩ := h3 hn
    obtain ⟨a', h6, h7, _⟩ := new _ a h4
    exact ⟨a', h6, by rw [h7]; exact h5⟩
  · intro hp h; exact l.insR hp (by simpa using h)

/-- another thread's `create_local` keeps a thread's invariant -/
theorem LInv.cnt {B L0 : Nat} {arrs : List Arr} {locals : List Tid} {t : Nat} {th : Th}
    (l : LInv B L0 arrs locals t th) (t0 : Nat) (hne : t0 ≠ t) : LInv B L0 arrs (locals ++ [t0]) t th := by
  refine ⟨?_, ?_, l.rts, l.fnd, l.cpos, l.cnt0, l.exF, l.curB, l.topK, l.pres, l.cur, l.insC, l.pshC, l.insR⟩
  · rw [List.count_append]; simp [hne]; exact l.cre
  · refine ⟨fun h => ?_, l.elm.2⟩
    obtain ⟨h1, h2⟩ := l.elm.1 h
    exact ⟨h1, by rw [List.getElem?_append_left (lt_length_of_get h2)]; exact h2⟩

end TbbVerif.C19.Ets
