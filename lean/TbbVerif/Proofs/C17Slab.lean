/-
C17 — the slab ownership protocol (owner + foreign freers) keeps every object in exactly one place.
-/
import TbbVerif.Model.C17
namespace TbbVerif.C17

/-- weight of a foreign freer for object `o`: 1 while it holds `o` between its load and its successful CAS -/
def fw (o : Nat) (f : Nat × FPc) : Nat :=
  match f.2 with
  | .loaded ob _ => if ob = o then 1 else 0
  | _ => 0

def pend (o : Nat) (frs : List (Nat × FPc)) : Nat := (frs.map (fw o)).sum

/-- 1 for a freer that holds some object between its load and its successful CAS -/
def fwAny (f : Nat × FPc) : Nat :=
  match f.2 with
  | .loaded _ _ => 1
  | _ => 0

def pendAll (frs : List (Nat × FPc)) : Nat := (frs.map fwAny).sum

def bumpCount (o : Nat) (s : Slab) : Nat := if s.cap - s.bumpLeft ≤ o ∧ o < s.cap then 1 else 0

/-- number of places that hold object `o` -/
def places (o : Nat) (s : Slab) : Nat :=
  bumpCount o s + s.freeList.count o + s.publicList.count o + s.live.count o + pend o s.frs

structure SlabInv (s : Slab) : Prop where
  bump_le : s.bumpLeft ≤ s.cap
  not_bad : s.bad = false
  one_place : ∀ o, places o s = if o < s.cap then 1 else 0
  /-- `allocatedCount` = objects with the user + objects on their way back through the public list -/
  alloc_eq : s.allocCount = s.live.length + s.publicList.length + pendAll s.frs

theorem pend_set (o : Nat) (frs : List (Nat × FPc)) (i : Nat) (old x : Nat × FPc) (h : frs[i]? = some old) :
    pend o (frs.set i x) + fw o old = pend o frs + fw o x := by
  induction frs generalizing i with
  | nil => simp at h
  | cons a t ih =>
    cases i with
    | zero =>
      simp only [List.getElem?_cons_zero, Option.some.injEq] at h
      subst h
      simp only [List.set_cons_zero, pend, List.map_cons, List.sum_cons]
      omega
    | succ j =>
      simp only [List.getElem?_cons_succ] at h
      have := ih j h
      simp only [List.set_cons_succ, pend, List.map_cons, List.sum_cons] at *
      omega

theorem pendAll_set (frs : List (Nat × FPc)) (i : Nat) (old x : Nat × FPc) (h : frs[i]? = some old) :
    pendAll (frs.set i x) + fwAny old = pendAll frs + fwAny x := by
  induction frs generalizing i with
  | nil => simp at h
  | cons a t ih =>
    cases i with
    | zero =>
      simp only [List.getElem?_cons_zero, Option.some.injEq] at h
      subst h
      simp only [List.set_cons_zero, pendAll, List.map_cons, List.sum_cons]
      omega
    | succ j =>
      simp only [List.getElem?_cons_succ] at h
      have := ih j h
      simp only [List.set_cons_succ, pendAll, List.map_cons, List.sum_cons] at *
      omega

theorem contains_iff_count (l : List Nat) (o : Nat) : l.contains o = true ↔ 0 < l.count o := by
  rw [List.contains_iff_mem, List.count_pos_iff]


theorem count_cons' (o a : Nat) (l : List Nat) : (a :: l).count o = l.count o + (if a = o then 1 else 0) := by
  rw [List.count_cons]; simp only [beq_iff_eq]

theorem count_erase' (o a : Nat) (l : List Nat) (h : 0 < l.count a) :
    (l.erase a).count o + (if a = o then 1 else 0) = l.count o := by
  by_cases e : a = o
  · subst e; simp only [if_true, List.count_erase_self]; omega
  · have hne : a ≠ o := e
    simp only [e, if_false, Nat.add_zero]
    exact List.count_erase_of_ne (Ne.symm hne)

theorem bump_shift (cap bl o' : Nat) (hbl : 0 < bl) (hle : bl ≤ cap) :
    (if cap - (bl - 1) ≤ o' ∧ o' < cap then 1 else 0) + (if cap - bl = o' then 1 else 0) =
      (if cap - bl ≤ o' ∧ o' < cap then (1:Nat) else 0) := by
  split <;> split <;> split <;> omega

theorem pendAll_idle (foreign : List Nat) : pendAll (foreign.map (fun o => (o, FPc.idle))) = 0 := by
  induction foreign with
  | nil => rfl
  | cons a t ih => simp only [pendAll, List.map_cons, List.sum_cons, fwAny] at *; omega

theorem pend_idle (o : Nat) (foreign : List Nat) : pend o (foreign.map (fun o => (o, FPc.idle))) = 0 := by
  induction foreign with
  | nil => rfl
  | cons a t ih => simp only [pend, List.map_cons, List.sum_cons, fw] at *; omega

theorem slab_inv_init (cap : Nat) (ops : List OwnerOp) (foreign : List Nat) : SlabInv (slabSys cap ops foreign).init := by
  refine ⟨Nat.le_refl _, rfl, fun o => ?_, by simp [slabSys, pendAll_idle]⟩
  simp only [places, bumpCount, slabSys, List.count_nil, pend_idle, Nat.sub_self, Nat.zero_le, true_and]
  by_cases h : o < cap <;> simp [h]

theorem slab_inv_step (s : Slab) (tid : Tid) (inv : SlabInv s) :
    SlabInv (slabStep s tid) ∧ (slabStep s tid).cap = s.cap := by
  obtain ⟨hb, hbad, hone, hal⟩ := inv
  cases tid with
  | zero =>
    simp only [slabStep]
    split
    · exact ⟨⟨hb, hbad, hone, hal⟩, by first | rfl | trivial⟩
    · rename_i op rest hops
      cases op with
      | alloc =>
        simp only
        split
        · -- from the free list
          rename_i o fl hfl
          have ho := hone o
          simp only [places, hfl, count_cons', if_true] at ho
          have hlive : s.live.count o = 0 := by split at ho <;> omega
          have hnm : o ∉ s.live := List.count_eq_zero.mp hlive
          refine ⟨⟨hb, by simp [hbad, hnm], fun o' => ?_, by simp only [List.length_cons]; omega⟩, by first | rfl | trivial⟩
          have h' := hone o'
          simp only [places, bumpCount, hfl, count_cons'] at h' ⊢
          omega
        · rename_i hfl
          split
          · rename_i hbl
            -- bump allocation of object cap - bumpLeft
            have ho := hone (s.cap - s.bumpLeft)
            simp only [places, bumpCount] at ho
            have hlt : s.cap - s.bumpLeft < s.cap := by omega
            simp only [Nat.le_refl, hlt, and_self, if_true] at ho
            have hlive : s.live.count (s.cap - s.bumpLeft) = 0 := by omega
            have hnm : s.cap - s.bumpLeft ∉ s.live := List.count_eq_zero.mp hlive
            refine ⟨⟨by simp only; omega, by simp [hbad, hnm], fun o' => ?_, by simp only [List.length_cons]; omega⟩, by first | rfl | trivial⟩
            have h' := hone o'
            simp only [places, bumpCount, count_cons'] at h' ⊢
            have hs := bump_shift s.cap s.bumpLeft o' hbl hb
            omega
          · exact ⟨⟨hb, hbad, hone, hal⟩, by first | rfl | trivial⟩
      | free o =>
        simp only
        split
        · rename_i hc
          have hpos : 0 < s.live.count o := (contains_iff_count _ _).mp hc.1
          have hmem : o ∈ s.live := List.count_pos_iff.mp hpos
          have hlen := List.length_erase_of_mem hmem
          have hlpos : 0 < s.live.length := List.length_pos_of_mem hmem
          refine ⟨⟨hb, hbad, fun o' => ?_, by simp only [hlen]; omega⟩, by first | rfl | trivial⟩
          have h' := hone o'
          have he := count_erase' o' o s.live hpos
          simp only [places, bumpCount, count_cons'] at h' ⊢
          omega
        · exact ⟨⟨hb, hbad, hone, hal⟩, by first | rfl | trivial⟩
      | privatize =>
        simp only
        refine ⟨⟨hb, hbad, fun o' => ?_, by simp only [List.length_nil]; omega⟩, by first | rfl | trivial⟩
        have h' := hone o'
        simp only [places, bumpCount, List.count_append, List.count_nil] at h' ⊢
        omega
  | succ i =>
    simp only [slabStep]
    split
    · exact ⟨⟨hb, hbad, hone, hal⟩, by first | rfl | trivial⟩
    · rename_i o pc hget
      cases pc with
      | idle =>
        simp only
        split
        · rename_i hc
          have hpos : 0 < s.live.count o := (contains_iff_count _ _).mp hc
          have hmem : o ∈ s.live := List.count_pos_iff.mp hpos
          have hlen := List.length_erase_of_mem hmem
          have hlpos : 0 < s.live.length := List.length_pos_of_mem hmem
          have hpa := pendAll_set s.frs i (o, .idle) (o, .loaded o s.publicList) hget
          refine ⟨⟨hb, hbad, fun o' => ?_, by simp only [hlen, fwAny] at hpa ⊢; omega⟩, by first | rfl | trivial⟩
          have h' := hone o'
          have he := count_erase' o' o s.live hpos
          have hp := pend_set o' s.frs i (o, .idle) (o, .loaded o s.publicList) hget
          simp only [places, bumpCount, fw] at h' hp ⊢
          omega
        · have hpa := pendAll_set s.frs i (o, .idle) (o, .done) hget
          refine ⟨⟨hb, hbad, fun o' => ?_, by simp only [fwAny] at hpa ⊢; omega⟩, by first | rfl | trivial⟩
          have h' := hone o'
          have hp := pend_set o' s.frs i (o, .idle) (o, .done) hget
          simp only [places, bumpCount, fw] at h' hp ⊢
          omega
      | loaded obj seen =>
        simp only
        split
        · rename_i hcas
          have hpa := pendAll_set s.frs i (o, .loaded obj seen) (o, .done) hget
          refine ⟨⟨hb, hbad, fun o' => ?_, by simp only [fwAny, ← hcas, List.length_cons] at hpa ⊢; omega⟩, by first | rfl | trivial⟩
          have h' := hone o'
          have hp := pend_set o' s.frs i (o, .loaded obj seen) (o, .done) hget
          simp only [places, bumpCount, fw, ← hcas, count_cons'] at h' hp ⊢
          omega
        · have hpa := pendAll_set s.frs i (o, .loaded obj seen) (o, .loaded obj s.publicList) hget
          refine ⟨⟨hb, hbad, fun o' => ?_, by simp only [fwAny] at hpa ⊢; omega⟩, by first | rfl | trivial⟩
          have h' := hone o'
          have hp := pend_set o' s.frs i (o, .loaded obj seen) (o, .loaded obj s.publicList) hget
          simp only [places, bumpCount, fw] at h' hp ⊢
          omega
      | done => exact ⟨⟨hb, hbad, hone, hal⟩, by first | rfl | trivial⟩

/-- the invariant holds in every reachable state, for every schedule -/
theorem slab_inv_run (cap : Nat) (ops : List OwnerOp) (foreign : List Nat) (sched : List Tid) :
    SlabInv ((slabSys cap ops foreign).run sched) ∧ ((slabSys cap ops foreign).run sched).cap = cap := by
  refine Sys.inv_run (slabSys cap ops foreign) (fun s => SlabInv s ∧ s.cap = cap) ⟨slab_inv_init cap ops foreign, rfl⟩ ?_ sched
  intro s t ⟨hi, hc⟩
  obtain ⟨h1, h2⟩ := slab_inv_step s t hi
  exact ⟨h1, by show (slabStep s t).cap = cap; rw [h2, hc]⟩

end TbbVerif.C17
