import TbbVerif.Proofs.C08SRwD

namespace TbbVerif.C08.Slp.Rw
open TbbVerif.C08 (Word Phase busy dec_enc enc_inj)

/-- thread `t` is about to notify (or, after downgrade's fetch_add, about to decide it) the waiters of context `c` -/
def Covers (t : Th) (c : Nat) : Prop :=
  (t.pc = .notify ∧ (t.mw.n = .peek ∨ t.mw.n = .flush) ∧ (t.mw.nsel = .all ∨ t.mw.nsel = .ctx c)) ∨ (t.pc = .dgLoad ∧ c = 1)

/-- **wake rules**: whenever one access of a thread turns the wake-up condition of a waiter kind from false to true,
that same thread goes on to notify that kind's context -/
theorem wake_rules_step (tid sm : Nat) (s : Word) (m : Mon) (t : Th) (k : WKind)
    (h1 : t.pc = .upFin → s.w = true)
    (h2 : k = .upg → 1 ≤ s.r ∧ t.pc ≠ .upFin)
    (hc : k.cond s = false) (hc' : k.cond (stepTh tid sm s m t).1 = true) :
    Covers (stepTh tid sm s m t).2.2.2.1 k.ctx := by
  revert hc'
  unfold stepTh
  cases hops : t.ops with
  | nil => intro hc'; simp at hc'; rw [hc] at hc'; cases hc'
  | cons op rest =>
    dsimp only
    split
    · intro hc'; simp at hc'; rw [hc] at hc'; cases hc'
    · by_cases hw : t.pc = .wait
      · intro hc'; simp [stepOp, hw] at hc'; rw [hc] at hc'; cases hc'
      by_cases hn : t.pc = .notify
      · simp only [stepOp, hn]
        intro hc'
        exfalso
        revert hc'
        split
        · simp [hc]
        · split
          · simp [hc]
          · split <;> simp [hc]
          · simp [hc]
      cases k with
      | writer =>
        cases op <;> simp only [stepOp, lockBody] <;> split <;> (try contradiction) <;> (try split) <;> (try split) <;> (try split) <;>
          simp_all [WKind.cond, busy, Covers, startNotify, startWait, relSel, WKind.ctx, Th.done]
        all_goals (try (intros; cases s.p <;> simp; done))
        all_goals (try (intros; omega))
      | reader =>
        cases op <;> simp only [stepOp, lockBody] <;> split <;> (try contradiction) <;> (try split) <;> (try split) <;> (try split) <;>
          simp_all [WKind.cond, busy, Covers, startNotify, startWait, relSel, WKind.ctx, Th.done]
        all_goals (try (intros; cases s.p <;> simp_all; done))
        all_goals (try (rename_i he; rw [← he, dec_enc]; assumption))
        all_goals (try (intros; omega))
      | upg =>
        have h2' := h2 rfl
        cases op <;> simp only [stepOp, lockBody] <;> split <;> (try contradiction) <;> (try split) <;> (try split) <;> (try split) <;>
          simp_all [WKind.cond, busy, Covers, startNotify, startWait, relSel, WKind.ctx, Th.done]
        all_goals (try (intros; cases s.p <;> simp_all; done))
        all_goals (try (rename_i he; rw [← he, dec_enc]; assumption))
        all_goals (try (intros; omega))

end TbbVerif.C08.Slp.Rw
