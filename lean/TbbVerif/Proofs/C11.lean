/- Helper lemmas for C11 (segment arithmetic, size-word protocol). -/
import TbbVerif.Model.C11

namespace TbbVerif.C11

theorem or_one (i : Nat) : i ||| 1 = 2 * (i / 2) + 1 := by
  have h1 : (i ||| 1) / 2 = i / 2 := by rw [Nat.or_div_two]; simp
  have h2 : (i ||| 1) % 2 = 1 := by
    have := @Nat.or_mod_two_pow i 1 1
    simp at this
    rcases Nat.mod_two_eq_zero_or_one i with h | h <;> rw [h] at this <;> simp [this]
  omega

theorem segBase_eq : ∀ k, k < 64 → segBase k = if k = 0 then 0 else 2 ^ k := by decide

theorem segSize_eq (k : Nat) : segSize k = if k = 0 then 2 else 2 ^ k := by
  unfold segSize; split <;> simp [Nat.shiftLeft_eq]

theorem segIndex_small (i : Nat) (h : i < 2) : segIndex i = 0 := by
  have : i = 0 ∨ i = 1 := by omega
  rcases this with rfl | rfl <;> decide

theorem segIndex_spec (i : Nat) (h : 2 ≤ i) : 2 ^ segIndex i ≤ i ∧ i < 2 ^ (segIndex i + 1) := by
  unfold segIndex
  rw [or_one]
  have hne : 2 * (i/2) + 1 ≠ 0 := by omega
  have h1 := Nat.log2_self_le hne
  have h2 := @Nat.lt_log2_self (2 * (i/2) + 1)
  constructor
  · rcases Nat.eq_zero_or_pos (Nat.log2 (2 * (i / 2) + 1)) with h0 | h0
    · rw [h0]; omega
    · obtain ⟨l, hl⟩ : ∃ l, Nat.log2 (2 * (i / 2) + 1) = l + 1 := ⟨_, (Nat.succ_pred_eq_of_pos h0).symm⟩
      rw [hl] at h1 ⊢
      rw [Nat.pow_succ] at h1 ⊢
      omega
  · omega

theorem segIndex_pos (i : Nat) (h : 2 ≤ i) : 1 ≤ segIndex i := by
  have := (segIndex_spec i h).2
  rcases Nat.eq_zero_or_pos (segIndex i) with h0 | h0
  · rw [h0] at this; omega
  · exact h0

theorem segIndex_lt64 (i : Nat) (h : i < 2 ^ 64) : segIndex i < 64 := by
  rcases Nat.lt_or_ge i 2 with h2 | h2
  · rw [segIndex_small i h2]; omega
  · have := (segIndex_spec i h2).1
    apply Classical.byContradiction
    intro hc
    have : 2 ^ 64 ≤ 2 ^ segIndex i := Nat.pow_le_pow_right (by omega) (by omega)
    omega

/-- uniqueness of the power-of-two bracket -/
theorem pow_bracket_unique (i a b : Nat) (ha : 2 ^ a ≤ i) (ha' : i < 2 ^ (a + 1))
    (hb : 2 ^ b ≤ i) (hb' : i < 2 ^ (b + 1)) : a = b := by
  apply Classical.byContradiction
  intro hne
  rcases Nat.lt_or_gt_of_ne hne with h | h
  · have : 2 ^ (a + 1) ≤ 2 ^ b := Nat.pow_le_pow_right (by omega) (by omega)
    omega
  · have : 2 ^ (b + 1) ≤ 2 ^ a := Nat.pow_le_pow_right (by omega) (by omega)
    omega

/-! ### size-word protocol -/

theorem tiles_append (lo mid hi : Nat) (rs : List (Nat × Nat)) (a b : Nat)
    (h : tiles lo rs mid) (ha : a = mid) (hab : a < b) (hb : b = hi) : tiles lo (rs ++ [(a, b)]) hi := by
  induction rs generalizing lo with
  | nil =>
    simp [tiles] at h ⊢
    omega
  | cons r rs ih =>
    obtain ⟨x, y⟩ := r
    simp only [tiles, List.cons_append] at h ⊢
    exact ⟨h.1, h.2.1, ih _ h.2.2⟩

/-- every range in a tiling lies inside `[lo, hi)` -/
theorem tiles_mem_bounds (lo hi : Nat) (rs : List (Nat × Nat)) (h : tiles lo rs hi) :
    lo ≤ hi ∧ ∀ r ∈ rs, lo ≤ r.1 ∧ r.1 < r.2 ∧ r.2 ≤ hi := by
  induction rs generalizing lo with
  | nil => simp [tiles] at h; simp [h]
  | cons r rs ih =>
    obtain ⟨a, b⟩ := r
    simp only [tiles] at h
    obtain ⟨h1, h2, h3⟩ := h
    have := ih b h3
    refine ⟨by omega, ?_⟩
    intro r hr
    simp at hr
    rcases hr with rfl | hr
    · simp; omega
    · have := this.2 r hr; omega

/-- ranges of a tiling are pairwise disjoint (as a `List.Pairwise` fact over the hand-out order) -/
theorem tiles_pairwise (lo hi : Nat) (rs : List (Nat × Nat)) (h : tiles lo rs hi) :
    rs.Pairwise (fun r s => r.2 ≤ s.1) := by
  induction rs generalizing lo with
  | nil => exact List.Pairwise.nil
  | cons r rs ih =>
    obtain ⟨a, b⟩ := r
    simp only [tiles] at h
    obtain ⟨_, _, h3⟩ := h
    refine List.Pairwise.cons ?_ (ih b h3)
    intro s hs
    have := (tiles_mem_bounds b hi rs h3).2 s hs
    simp; omega

/-- every index below `hi` is covered by a range of the tiling -/
theorem tiles_cover (lo hi : Nat) (rs : List (Nat × Nat)) (h : tiles lo rs hi) (i : Nat)
    (h1 : lo ≤ i) (h2 : i < hi) : ∃ r ∈ rs, r.1 ≤ i ∧ i < r.2 := by
  induction rs generalizing lo with
  | nil => simp [tiles] at h; omega
  | cons r rs ih =>
    obtain ⟨a, b⟩ := r
    simp only [tiles] at h
    obtain ⟨h1', h2', h3⟩ := h
    rcases Nat.lt_or_ge i b with hb | hb
    · exact ⟨(a, b), by simp, by simp; omega, by simpa using hb⟩
    · obtain ⟨r, hr, hr'⟩ := ih b h3 hb
      exact ⟨r, by simp [hr], hr'⟩

/-- The inductive invariant of the size word. -/
def Inv (s : St) : Prop :=
  tiles 0 s.log s.size ∧
  (∀ (tid : Nat) (t : Th), s.ths[tid]? = some t → t.pc < 2 → t.claim = none) ∧
  (∀ (tid : Nat) (t : Th), s.ths[tid]? = some t → ∀ r, t.claim = some r → r ∈ s.log)

theorem stepTh_cases (size : Nat) (t : Th) :
    (stepTh size t).1 = size ∧ (stepTh size t).2.2 = none ∧ (stepTh size t).2.1.claim = t.claim
      ∧ ((stepTh size t).2.1.pc < 2 → t.pc < 2)
    ∨ ∃ a b, (stepTh size t).2.2 = some (a, b) ∧ a = size ∧ a < b ∧ (stepTh size t).1 = b
        ∧ (stepTh size t).2.1.claim = some (a, b) ∧ t.pc < 2 := by
  unfold stepTh
  split
  · right; exact ⟨size, size + 1, rfl, rfl, by omega, rfl, rfl, by omega⟩
  · split
    · left; simp
    · right; exact ⟨size, size + _, rfl, rfl, by omega, rfl, rfl, by omega⟩
  · split
    · left; simp
    · left; simp; omega
  · split
    · split
      · rename_i h1 h2
        right; exact ⟨t.old, _, rfl, h2.symm, h1, rfl, rfl, by omega⟩
      · left; simp
    · left; simp
  · left; simp

theorem inv_step (s : St) (tid : Tid) (h : Inv s) : Inv (step s tid) := by
  unfold step
  cases hth : s.ths[tid]? with
  | none => simpa using h
  | some t =>
    simp only
    obtain ⟨h1, h2, h3⟩ := h
    have hlt : tid < s.ths.length := by
      rcases Nat.lt_or_ge tid s.ths.length with h | h
      · exact h
      · simp [List.getElem?_eq_none h] at hth
    rcases stepTh_cases s.size t with ⟨e1, e2, e3, e4⟩ | ⟨a, b, e2, ea, eab, e1, e3, e4⟩
    · refine ⟨?_, ?_, ?_⟩
      · simp only [e1, e2]; exact h1
      · intro tid' t' ht' hpc
        simp only [List.getElem?_set] at ht'
        split at ht'
        · rename_i heq
          simp at ht'
          subst ht'
          rw [e3]; subst heq; exact h2 _ t hth (e4 hpc)
        · exact h2 tid' t' ht' hpc
      · intro tid' t' ht' r hr
        simp only [e2]
        simp only [List.getElem?_set] at ht'
        split at ht'
        · rename_i heq
          simp at ht'
          subst ht'
          rw [e3] at hr; subst heq; exact h3 _ t hth r hr
        · exact h3 tid' t' ht' r hr
    · have hcl : t.claim = none := h2 tid t hth e4
      refine ⟨?_, ?_, ?_⟩
      · simp only [e1, e2]
        exact tiles_append 0 s.size b s.log a b h1 ea eab rfl
      · intro tid' t' ht' hpc
        simp only [List.getElem?_set] at ht'
        split at ht'
        · rename_i heq
          simp at ht'
          subst ht'
          -- the claiming step always ends with pc = 2
          exfalso
          revert hpc e3
          unfold stepTh
          split <;> (try split) <;> (try split) <;> simp_all
        · exact h2 tid' t' ht' hpc
      · intro tid' t' ht' r hr
        simp only [e2]
        simp only [List.getElem?_set] at ht'
        split at ht'
        · rename_i heq
          simp at ht'
          subst ht'
          rw [e3] at hr
          simp at hr; subst hr; simp
        · have := h3 tid' t' ht' r hr
          simp [this]

theorem inv_init (ops : List Op) : Inv (sys ops).init := by
  refine ⟨by simp [sys, tiles], ?_, ?_⟩
  · intro tid t ht _
    simp [sys, List.getElem?_map] at ht
    obtain ⟨o, _, rfl⟩ := ht
    rfl
  · intro tid t ht r hr
    simp [sys, List.getElem?_map] at ht
    obtain ⟨o, _, rfl⟩ := ht
    simp at hr

theorem inv_reachable (ops : List Op) (sched : List Tid) : Inv ((sys ops).run sched) :=
  Sys.inv_run (sys ops) Inv (inv_init ops) (fun s t h => inv_step s t h) sched

end TbbVerif.C11
