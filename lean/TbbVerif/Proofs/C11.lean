/- Helper lemmas for C11 (segment arithmetic, size-word protocol). -/
import TbbVerif.Model.C11

namespace TbbVerif.C11

theorem or_one (i : Nat) : i ||| 1 = 2 * (i / 2) + 1 := by
  have h1 : (i ||| 1) / 2 = i / 2 := by rw [Nat.or_div_two]; simp
  have h2 : (i ||| 1) % 2 = 1 := by
    have := @Nat.or_mod_two_pow i 1 1
    simp at this
    rcases Nat.mod_two_eq_zero_or_one i with h | h <;> rw [h] at this <;> simp [this]
  omega

theorem segBase_eq : ∀ k, k < 64 → segBase k = if k = 0 then 0 else 2 ^ k := by decide

theorem segSize_eq (k : Nat) : segSize k = if k = 0 then 2 else 2 ^ k := by
  unfold segSize; split <;> simp [Nat.shiftLeft_eq]

theorem segIndex_small (i : Nat) (h : i < 2) : segIndex i = 0 := by
  have : i = 0 ∨ i = 1 := by omega
  rcases this with rfl | rfl <;> decide

theorem segIndex_spec (i : Nat) (h : 2 ≤ i) : 2 ^ segIndex i ≤ i ∧ i < 2 ^ (segIndex i + 1) := by
  unfold segIndex
  rw [or_one]
  have hne : 2 * (i/2) + 1 ≠ 0 := by omega
  have h1 := Nat.log2_self_le hne
  have h2 := @Nat.lt_log2_self (2 * (i/2) + 1)
  constructor
  · rcases Nat.eq_zero_or_pos (Nat.log2 (2 * (i / 2) + 1)) with h0 | h0
    · rw [h0]; omega
    · obtain ⟨l, hl⟩ : ∃ l, Nat.log2 (2 * (i / 2) + 1) = l + 1 := ⟨_, (Nat.succ_pred_eq_of_pos h0).symm⟩
      rw [hl] at h1 ⊢
      rw [Nat.pow_succ] at h1 ⊢
      omega
  · omega

theorem segIndex_pos (i : Nat) (h : 2 ≤ i) : 1 ≤ segIndex i := by
  have := (segIndex_spec i h).2
  rcases Nat.eq_zero_or_pos (segIndex i) with h0 | h0
  · rw [h0] at this; omega
  · exact h0

theorem segIndex_lt64 (i : Nat) (h : i < 2 ^ 64) : segIndex i < 64 := by
  rcases Nat.lt_or_ge i 2 with h2 | h2
  · rw [segIndex_small i h2]; omega
  · have := (segIndex_spec i h2).1
    apply Classical.byContradiction
    intro hc
    have : 2 ^ 64 ≤ 2 ^ segIndex i := Nat.pow_le_pow_right (by omega) (by omega)
    omega

/-- uniqueness of the power-of-two bracket -/
theorem pow_bracket_unique (i a b : Nat) (ha : 2 ^ a ≤ i) (ha' : i < 2 ^ (a + 1))
    (hb : 2 ^ b ≤ i) (hb' : i < 2 ^ (b + 1)) : a = b := by
  apply Classical.byContradiction
  intro hne
  rcases Nat.lt_or_gt_of_ne hne with h | h
  · have : 2 ^ (a + 1) ≤ 2 ^ b := Nat.pow_le_pow_right (by omega) (by omega)
    omega
  · have : 2 ^ (b + 1) ≤ 2 ^ a := Nat.pow_le_pow_right (by omega) (by omega)
    omega

/-! ### size-word protocol -/

theorem tiles_append (lo mid hi : Nat) (rs : List (Nat × Nat)) (a b : Nat)
    (h : tiles lo rs mid) (ha : a = mid) (hab : a < b) (hb : b = hi) : tiles lo (rs ++ [(a, b)]) hi := by
  induction rs generalizing lo with
  | nil =>
    simp [tiles] at h ⊢
    omega
  | cons r rs ih =>
    obtain ⟨x, y⟩ := r
    simp only [tiles, List.cons_append] at h ⊢
    exact ⟨h.1, h.2.1, ih _ h.2.2⟩

/-- every range in a tiling lies inside `[lo, hi)` -/
theorem tiles_mem_bounds (lo hi : Nat) (rs : List (Nat × Nat)) (h : tiles lo rs hi) :
    lo ≤ hi ∧ ∀ r ∈ rs, lo ≤ r.1 ∧ r.1 < r.2 ∧ r.2 ≤ hi := by
  induction rs generalizing lo with
  | nil => simp [tiles] at h; simp [h]
  | cons r rs ih =>
    obtain ⟨a, b⟩ := r
    simp only [tiles] at h
    obtain ⟨h1, h2, h3⟩ := h
    have := ih b h3
    refine ⟨by omega, ?_⟩
    intro r hr
    simp at hr
    rcases hr with rfl | hr
    · simp; omega
    · have := this.2 r hr; omega

/-- ranges of a tiling are pairwise disjoint (as a `List.Pairwise` fact over the hand-out order) -/
theorem tiles_pairwise (lo hi : Nat) (rs : List (Nat × Nat)) (h : tiles lo rs hi) :
    rs.Pairwise (fun r s => r.2 ≤ s.1) := by
  induction rs generalizing lo with
  | nil => exact List.Pairwise.nil
  | cons r rs ih =>
    obtain ⟨a, b⟩ := r
    simp only [tiles] at h
    obtain ⟨_, _, h3⟩ := h
    refine List.Pairwise.cons ?_ (ih b h3)
    intro s hs
    have := (tiles_mem_bounds b hi rs h3).2 s hs
    simp; omega

/-- every index below `hi` is covered by a range of the tiling -/
theorem tiles_cover (lo hi : Nat) (rs : List (Nat × Nat)) (h : tiles lo rs hi) (i : Nat)
    (h1 : lo ≤ i) (h2 : i < hi) : ∃ r ∈ rs, r.1 ≤ i ∧ i < r.2 := by
  induction rs generalizing lo with
  | nil => simp [tiles] at h; omega
  | cons r rs ih =>
    obtain ⟨a, b⟩ := r
    simp only [tiles] at h
    obtain ⟨h1', h2', h3⟩ := h
    rcases Nat.lt_or_ge i b with hb | hb
    · exact ⟨(a, b), by simp, by simp; omega, by simpa using hb⟩
    · obtain ⟨r, hr, hr'⟩ := ih b h3 hb
      exact ⟨r, by simp [hr], hr'⟩

/-- a thread inside the CAS loop of `grow_to_at_least(n)` holds an `old` that passed the loop test `old < n` -/
def WfTh (t : Th) : Prop :=
  t.pc = 0 ∨ (t.pc = 1 ∧ ∃ n rest, t.ops = .growTo n :: rest ∧ t.old < n) ∨ (t.pc = 2 ∧ ∃ n rest, t.ops = .growTo n :: rest)

/-- The inductive invariant of the size word. -/
def Inv (s : St) : Prop :=
  tiles 0 s.log s.size ∧
  (∀ (tid : Nat) (t : Th), s.ths[tid]? = some t → ∀ r ∈ t.claims, r ∈ s.log) ∧
  (∀ (tid : Nat) (t : Th), s.ths[tid]? = some t → WfTh t)

/-- What one access can do: nothing is handed out and the thread keeps its claims, or exactly the range
`[size, b)` with `size < b` is handed out, the size becomes `b`, and the thread records that range. -/
theorem stepTh_cases (size : Nat) (t : Th) (hwf : WfTh t) :
    (((stepTh size t).1 = size ∧ (stepTh size t).2.2.1 = none ∧ (stepTh size t).2.1.claims = t.claims)
    ∨ ∃ a b, (stepTh size t).2.2.1 = some (a, b) ∧ a = size ∧ a < b ∧ (stepTh size t).1 = b
        ∧ (stepTh size t).2.1.claims = (a, b) :: t.claims) ∧ WfTh (stepTh size t).2.1 := by
  unfold stepTh
  rcases hwf with h0 | ⟨h1, n, rest, hops, hlt⟩ | ⟨h2, n, rest, hops⟩
  · cases hops : t.ops with
    | nil => exact ⟨Or.inl (by simp), Or.inl h0⟩
    | cons op rest =>
      simp only [h0]
      cases op with
      | pushBack => exact ⟨Or.inr ⟨size, size + 1, rfl, rfl, by omega, rfl, rfl⟩, Or.inl (by simp [h0])⟩
      | growBy d =>
        by_cases hd : d = 0
        · simp only [hd, ite_true]; exact ⟨Or.inl (by simp), Or.inl (by simp [h0])⟩
        · simp only [hd, ite_false]; exact ⟨Or.inr ⟨size, size + d, rfl, rfl, by omega, rfl, rfl⟩, Or.inl (by simp [h0])⟩
      | growTo n =>
        by_cases hn : n = 0
        · simp only [hn, ite_true]; exact ⟨Or.inl (by simp), Or.inl (by simp [h0])⟩
        · simp only [hn, ite_false]
          by_cases hs : size < n
          · simp only [hs, ite_true]
            exact ⟨Or.inl (by simp), Or.inr (Or.inl ⟨rfl, n, rest, rfl, hs⟩)⟩
          · simp only [hs, ite_false]; exact ⟨Or.inl (by simp), Or.inr (Or.inr ⟨rfl, n, rest, rfl⟩)⟩
  · simp only [hops, h1]
    by_cases he : size = t.old
    · simp only [he, ite_true]
      exact ⟨Or.inr ⟨t.old, n, rfl, rfl, hlt, rfl, rfl⟩, Or.inl rfl⟩
    · simp only [he, ite_false]
      by_cases hs : size < n
      · simp only [hs, ite_true]
        exact ⟨Or.inl (by simp), Or.inr (Or.inl ⟨rfl, n, rest, rfl, hs⟩)⟩
      · simp only [hs, ite_false]; exact ⟨Or.inl (by simp), Or.inr (Or.inr ⟨rfl, n, rest, rfl⟩)⟩
  · simp only [hops, h2]
    exact ⟨Or.inl (by simp), Or.inl rfl⟩

theorem inv_step (s : St) (tid : Tid) (h : Inv s) : Inv (step s tid) := by
  unfold step
  cases hth : s.ths[tid]? with
  | none => simpa using h
  | some t =>
    simp only
    obtain ⟨h1, h2, h3⟩ := h
    have hc := stepTh_cases s.size t (h3 tid t hth)
    have getset : ∀ (tid' : Nat) (t' : Th), (s.ths.set tid (stepTh s.size t).2.1)[tid']? = some t' →
        (t' = (stepTh s.size t).2.1) ∨ s.ths[tid']? = some t' := by
      intro tid' t' ht'
      rw [List.getElem?_set] at ht'
      split at ht'
      · split at ht'
        · simp at ht'; exact Or.inl ht'.symm
        · simp at ht'
      · exact Or.inr ht'
    obtain ⟨hcase, hwf'⟩ := hc
    rcases hcase with ⟨e1, e2, e3⟩ | ⟨a, b, e2, ea, eab, e1, e3⟩
    · refine ⟨?_, ?_, ?_⟩
      · simp only [e1, e2]; exact h1
      · intro tid' t' ht' r hr
        simp only [e2]
        rcases getset tid' t' ht' with rfl | hold
        · rw [e3] at hr; exact h2 tid t hth r hr
        · exact h2 tid' t' hold r hr
      · intro tid' t' ht'
        rcases getset tid' t' ht' with rfl | hold
        · exact hwf'
        · exact h3 tid' t' hold
    · refine ⟨?_, ?_, ?_⟩
      · simp only [e1, e2]
        exact tiles_append 0 s.size b s.log a b h1 ea eab rfl
      · intro tid' t' ht' r hr
        simp only [e2]
        rcases getset tid' t' ht' with rfl | hold
        · rw [e3] at hr
          simp at hr
          rcases hr with rfl | hr
          · simp
          · have := h2 tid t hth r hr; simp [this]
        · have := h2 tid' t' hold r hr; simp [this]
      · intro tid' t' ht'
        rcases getset tid' t' ht' with rfl | hold
        · exact hwf'
        · exact h3 tid' t' hold

theorem inv_init (progs : List (List Op)) : Inv (sys progs).init := by
  refine ⟨by simp [sys, tiles], ?_, ?_⟩
  · intro tid t ht r hr
    simp [sys, List.getElem?_map] at ht
    obtain ⟨o, _, rfl⟩ := ht
    simp at hr
  · intro tid t ht
    simp [sys, List.getElem?_map] at ht
    obtain ⟨o, _, rfl⟩ := ht
    exact Or.inl rfl

theorem inv_reachable (progs : List (List Op)) (sched : List Tid) : Inv ((sys progs).run sched) :=
  Sys.inv_run (sys progs) Inv (inv_init progs) (fun s t h => inv_step s t h) sched

end TbbVerif.C11
