/- C07 helper lemmas, part 9: consequences of the counting invariants. -/
import TbbVerif.Proofs.C07.InvBStep

namespace TbbVerif.C07

theorem countP_le_add {α : Type} (p q r : α → Bool) (h : ∀ x, p x = true → q x = true ∨ r x = true) :
    ∀ l : List α, l.countP p ≤ l.countP q + l.countP r
  | [] => by simp
  | x :: l => by
    have ih := countP_le_add p q r h l
    simp only [List.countP_cons]
    have := h x
    cases hp : p x <;> cases hq : q x <;> cases hr : r x <;> simp_all <;> omega

theorem liveCarry_split (c : Cfg) (t : Task) (h : liveCarry c t = true) : isFsubS t = true ∨ holdsTok t = true := by
  unfold liveCarry at h; unfold isFsubS holdsTok
  cases hpc : t.pc <;> simp [hpc, holdsTokPc] at h ⊢

theorem isFsubS_input (t : Task) (h : isFsubS t = true) : inputAgent t = true := by
  unfold isFsubS at h; unfold inputAgent
  cases hpc : t.pc <;> simp [hpc, inputPc] at h ⊢

/-- items in flight never exceed the token limit -/
theorem live_bound {c : Cfg} {s : St} (hB : InvB c s) : s.produced - (s.done (c.n - 1)).length ≤ c.maxTok := by
  have h1 := countP_le_add (liveCarry c) isFsubS holdsTok (liveCarry_split c) s.tasks
  have h2 : s.tasks.countP isFsubS ≤ s.tasks.countP inputAgent :=
    List.countP_mono_left (fun x _ hx => isFsubS_input x hx)
  have := hB.tokLe; have := hB.inpLe; have := hB.inpTok; have := hB.live
  omega

theorem all_dead_of_wait_zero {c : Cfg} {s : St} (hB : InvB c s) (hw : s.wait = 0) :
    ∀ (tid : Nat) (t : Task), s.tasks[tid]? = some t → t.pc = .dead := by
  intro tid t ht
  have h0 : s.tasks.countP alive = 0 := by rw [← hB.wait]; exact hw
  rw [List.countP_eq_zero] at h0
  have := h0 t (List.mem_of_getElem? ht)
  unfold alive at this
  cases hpc : t.pc <;> simp [hpc, alivePc] at this ⊢

theorem count_zero_of_all_dead (p : Task → Bool) (hp : ∀ t, t.pc = .dead → p t = false) (l : List Task)
    (h : ∀ (tid : Nat) (t : Task), l[tid]? = some t → t.pc = .dead) : l.countP p = 0 := by
  rw [List.countP_eq_zero]
  intro t ht
  obtain ⟨i, hi, rfl⟩ := List.mem_iff_getElem.1 ht
  have := h i l[i] (by simp [hi])
  rw [hp _ this]; simp

/-- when the wait counter is zero, end of input has been signalled -/
theorem eoi_of_wait_zero {c : Cfg} (hv : c.Valid) {s : St} (hB : InvB c s) (hw : s.wait = 0)
    (hp : s.loc.countP Loc.isParked = 0) : s.eoi = true := by
  have hd := all_dead_of_wait_zero hB hw
  have h1 : s.tasks.countP holdsTok = 0 :=
    count_zero_of_all_dead holdsTok (fun t h => by simp [holdsTok, holdsTokPc, h]) _ hd
  have h2 : s.tasks.countP inputAgent = 0 :=
    count_zero_of_all_dead inputAgent (fun t h => by simp [inputAgent, inputPc, h]) _ hd
  cases he : s.eoi with
  | true => rfl
  | false =>
    exfalso
    have hb : bnat s.eoi = 0 := by rw [he]; rfl
    have a := hB.tokEq hb
    have b := hB.inpEx hb
    have := hv.tok_pos
    have hlive := hB.live
    have h3 : s.tasks.countP (liveCarry c) = 0 :=
      count_zero_of_all_dead (liveCarry c) (fun t h => by simp [liveCarry, h]) _ hd
    omega

end TbbVerif.C07
