/- C07 helper lemmas, part 10: ordering / mutual-exclusion invariant of the serial filters. -/
import TbbVerif.Proofs.C07.Bound

namespace TbbVerif.C07

def ownPc : Pc → Bool
  | .call | .inFilter | .noteDone => true
  | _ => false

/-- the task is the current occupant of serial filter `k` (admitted by `try_put_token` or released by a
note-done, and has not yet done its own note-done) -/
def own (k : Nat) (t : Task) : Bool := decide (t.stage = k) && ownPc t.pc

def pastCallPc : Pc → Bool
  | .inFilter | .noteDone => true
  | _ => false

/-- occupant whose filter invocation has begun -/
def inOrPast (k : Nat) (t : Task) : Bool := decide (t.stage = k) && pastCallPc t.pc

/-- the carried item has passed the numbering point of some ordered filter -/
def assigned (c : Cfg) (t : Task) : Prop :=
  ∃ k, (c.mode k).ordered = true ∧ (k < t.stage ∨ (k = t.stage ∧ t.pc ≠ .put))

structure InvC (c : Cfg) (s : St) : Prop where
  own1 : ∀ k, (c.mode k).serial = true → s.tasks.countP (own k) ≤ 1
  oooIn : ∀ (k tok : Nat) (info : Info), (c.mode k).serial = true → (c.mode k).ordered = false →
    (s.bufs k).abs tok = some info → (s.bufs k).low < tok ∧ tok < (s.bufs k).high
  oooFill : ∀ (k tok : Nat), (c.mode k).serial = true → (c.mode k).ordered = false →
    (s.bufs k).low < tok → tok < (s.bufs k).high → (s.bufs k).abs tok ≠ none
  oooOwn : ∀ k, (c.mode k).serial = true → (c.mode k).ordered = false →
    1 ≤ s.tasks.countP (own k) → (s.bufs k).low < (s.bufs k).high
  oooLe : ∀ k, (c.mode k).serial = true → (c.mode k).ordered = false → (s.bufs k).low ≤ (s.bufs k).high
  oooEx : ∀ k, (c.mode k).serial = true → (c.mode k).ordered = false →
    (s.bufs k).low < (s.bufs k).high → 1 ≤ s.tasks.countP (own k)
  ordSlot : ∀ (k tok : Nat) (info : Info), (c.mode k).ordered = true → (s.bufs k).abs tok = some info →
    info.ready = true ∧ info.token = tok
  ordOwn : ∀ (k tid : Nat) (t : Task), (c.mode k).ordered = true → s.tasks[tid]? = some t → own k t = true →
    t.info.ready = true ∧ t.info.token = (s.bufs k).low
  numT : ∀ (tid : Nat) (t : Task), s.tasks[tid]? = some t → carries t = true → t.info.ready = true →
    s.numbered[t.info.token]? = some t.info.item
  numP : ∀ (k tok : Nat) (info : Info), (s.bufs k).abs tok = some info → info.ready = true →
    s.numbered[info.token]? = some info.item
  rdyT : ∀ (tid : Nat) (t : Task), s.tasks[tid]? = some t → carries t = true → assigned c t → t.info.ready = true
  rdyP : ∀ (k tok : Nat) (info : Info), (s.bufs k).abs tok = some info →
    (∃ j, j ≤ k ∧ (c.mode j).ordered = true) → info.ready = true
  high0 : ∀ k, (c.mode k).ordered = true → (∀ j, j < k → (c.mode j).ordered = false) →
    (s.bufs k).high = s.numbered.length
  seenLen : ∀ k, (c.mode k).ordered = true → 1 ≤ k →
    (s.seen k).length = (s.bufs k).low + s.tasks.countP (inOrPast k)
  seenPre : ∀ k, (c.mode k).ordered = true → 1 ≤ k → s.seen k <+: s.numbered
  seen0 : (c.mode 0).ordered = true → s.seen 0 = s.numbered

theorem ordered_serial {m : Mode} (h : m.ordered = true) : m.serial = true := by
  cases m <;> simp [Mode.ordered, Mode.serial] at h ⊢

theorem mode_ge (c : Cfg) (k : Nat) (h : c.n ≤ k) : c.mode k = .parallel := by
  unfold Cfg.mode Cfg.n at *
  rw [List.getD_eq_getElem?_getD, List.getElem?_eq_none h]; rfl

theorem own_advance (c : Cfg) (t : Task) (k : Nat) (hs : (c.mode k).serial = true) : own k (advance c t) = false := by
  unfold advance own; simp only
  by_cases h : t.stage + 1 < c.n
  · rw [if_pos h]
    by_cases hk : t.stage + 1 = k
    · subst hk; simp [hs, ownPc]
    · simp [hk]
  · rw [if_neg h]; simp [ownPc]

theorem inOrPast_le_own (k : Nat) (t : Task) (h : inOrPast k t = true) : own k t = true := by
  unfold inOrPast at h; unfold own
  cases hpc : t.pc <;> simp [hpc, pastCallPc, ownPc] at h ⊢ <;> exact h

theorem inOrPast_advance (c : Cfg) (t : Task) (k : Nat) (hs : (c.mode k).serial = true) :
    inOrPast k (advance c t) = false := by
  cases h : inOrPast k (advance c t) with
  | false => rfl
  | true => have := inOrPast_le_own k _ h; rw [own_advance c t k hs] at this; cases this

theorem assigned_advance (c : Cfg) (t : Task) (hpc : t.pc ≠ .put) (h : assigned c (advance c t)) : assigned c t := by
  obtain ⟨k, hk, hor⟩ := h
  unfold advance at hor; simp only at hor
  by_cases hlt : t.stage + 1 < c.n
  · rw [if_pos hlt] at hor
    simp only at hor
    rcases hor with h1 | ⟨h1, h2⟩
    · refine ⟨k, hk, ?_⟩
      by_cases hks : k = t.stage
      · right; exact ⟨hks, hpc⟩
      · left; omega
    · subst h1
      rw [ordered_serial hk] at h2; simp at h2
  · rw [if_neg hlt] at hor
    simp only at hor
    rcases hor with h1 | ⟨h1, _⟩
    · refine ⟨k, hk, ?_⟩
      by_cases hks : k = t.stage
      · right; exact ⟨hks, hpc⟩
      · left; omega
    · exfalso
      have := mode_ge c k (by omega)
      rw [this] at hk; simp [Mode.ordered] at hk

theorem getElem?_append_of_some {α : Type} {l : List α} {i : Nat} {x : α} (l2 : List α) (h : l[i]? = some x) :
    (l ++ l2)[i]? = some x := by
  rw [List.getElem?_append, if_pos (lt_of_getElem? h)]; exact h

theorem prefix_snoc {α : Type} {l m : List α} {x : α} (h : l <+: m) (hx : m[l.length]? = some x) :
    l ++ [x] <+: m := by
  obtain ⟨r, rfl⟩ := h
  cases r with
  | nil => simp at hx
  | cons y r =>
    simp at hx
    subst hx
    exact ⟨r, by simp⟩

theorem exists_of_countP_pos (p : Task → Bool) (l : List Task) (h : 1 ≤ l.countP p) :
    ∃ (i : Nat) (x : Task), l[i]? = some x ∧ p x = true := by
  have : 0 < l.countP p := h
  rw [List.countP_pos_iff] at this
  obtain ⟨x, hx, hp⟩ := this
  obtain ⟨i, hi, rfl⟩ := List.mem_iff_getElem.1 hx
  exact ⟨i, l[i], by simp [hi], hp⟩

theorem countP_pos_of_mem (p : Task → Bool) (l : List Task) (i : Nat) (x : Task) (h : l[i]? = some x)
    (hp : p x = true) : 1 ≤ l.countP p := by
  have : 0 < l.countP p := List.countP_pos_iff.2 ⟨x, List.mem_of_getElem? h, hp⟩
  exact this

end TbbVerif.C07
