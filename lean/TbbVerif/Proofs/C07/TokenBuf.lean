/- C07 helper lemmas, part 2: the ring `TokenBuf` refines a finite map token ↦ item. -/
import TbbVerif.Proofs.C07.Ring

namespace TbbVerif.C07
namespace TokenBuf

/-- Well-formedness of an `input_buffer`: size a power of two, array of that size, the slot of
`low_token` itself is invalid (the item with the lowest token is never parked). -/
structure WF (b : TokenBuf) : Prop where
  pow2 : ∃ k, b.size = 2 ^ k
  len : b.slots.length = b.size
  lowEmpty : b.abs b.low = none

/-- `initial_buffer_size` (generated from the source) is a power of two — re-checked on every run. -/
theorem initial_pow2 : ∃ i, Generated.C07.initialBufferSize = 2 ^ i :=
  ⟨Nat.log2 Generated.C07.initialBufferSize, by decide⟩

theorem abs_outside (b : TokenBuf) (t : Nat) (h : t < b.low ∨ b.low + b.size ≤ t) : b.abs t = none := by
  unfold abs; rw [if_neg]; omega

theorem abs_le_low (b : TokenBuf) (h : WF b) (t : Nat) (ht : t ≤ b.low) : b.abs t = none := by
  rcases Nat.lt_or_ge t b.low with h1 | h1
  · exact abs_outside b t (Or.inl h1)
  · have : t = b.low := by omega
    subst this; exact h.lowEmpty

/-- `grow` preserves the map (and makes room). -/
theorem grow_spec (b : TokenBuf) (m : Nat)
    (hsz : b.size = 0 ∨ ∃ a, b.size = 2 ^ a) :
    (∃ k, (b.grow m).size = 2 ^ k) ∧ (b.grow m).slots.length = (b.grow m).size ∧ m ≤ (b.grow m).size ∧
    b.size < (b.grow m).size ∧ (b.grow m).low = b.low ∧ (b.grow m).high = b.high ∧
    (b.grow m).ordered = b.ordered ∧ ∀ t, (b.grow m).abs t = b.abs t := by
  obtain ⟨i, hi⟩ := initial_pow2
  obtain ⟨kb, hkb, hm, hlt⟩ := growSize_spec b.size m i hi hsz
  have hsize : (b.grow m).size = 2 ^ kb := by simp [grow, hkb]
  have hlen : (b.grow m).slots.length = 2 ^ kb := by
    simp [grow, foldl_set_length, hkb]
  refine ⟨⟨kb, hsize⟩, by rw [hlen, hsize], by rw [hsize]; exact hm, by rw [hsize]; exact hlt, rfl, rfl, rfl, ?_⟩
  intro t
  -- the new slots as a loop of `set`s
  have hslots : (b.grow m).slots = (List.range b.size).foldl
      (fun acc i => acc.set ((b.low + i) % 2 ^ kb) (b.slots.getD (idx b.size (b.low + i)) none))
      (List.replicate (2 ^ kb) none) := by
    simp only [grow, hkb, idx_eq_mod]
  have habs' : (b.grow m).abs t =
      if b.low ≤ t ∧ t < b.low + 2 ^ kb then ((b.grow m).slots[t % 2 ^ kb]?).getD none else none := by
    unfold abs
    rw [hsize, idx_eq_mod, List.getD_eq_getElem?_getD]
    rfl
  rw [habs']
  by_cases hw : b.low ≤ t ∧ t < b.low + 2 ^ kb
  · rw [if_pos hw]
    by_cases hin : t < b.low + b.size
    · -- copied token
      have hmem : t - b.low ∈ List.range b.size := by simp; omega
      have := foldl_set_hit (List.range b.size) (fun i => (b.low + i) % 2 ^ kb)
        (fun i => b.slots.getD (idx b.size (b.low + i)) none) (List.replicate (2 ^ kb) none) (t - b.low) hmem
        (by
          intro x hx y hy hxy
          simp at hx hy
          have := window_inj (2 ^ kb) b.low (b.low + x) (b.low + y) (by omega) (by omega) (by omega) (by omega) hxy
          omega)
        (by intro x _; simp; exact Nat.mod_lt _ (Nat.two_pow_pos kb))
      have e : b.low + (t - b.low) = t := by omega
      simp only [e] at this
      rw [hslots, this]
      unfold abs
      rw [if_pos ⟨hw.1, hin⟩]
      rfl
    · -- fresh part of the window
      have := foldl_set_other (List.range b.size) (fun i => (b.low + i) % 2 ^ kb)
        (fun i => b.slots.getD (idx b.size (b.low + i)) none) (List.replicate (2 ^ kb) none) (t % 2 ^ kb)
        (by
          intro x hx hxy
          simp at hx
          have := window_inj (2 ^ kb) b.low (b.low + x) t (by omega) (by omega) hw.1 hw.2 hxy
          omega)
      rw [hslots, this, List.getElem?_replicate, if_pos (Nat.mod_lt _ (Nat.two_pow_pos kb))]
      rw [abs_outside b t (Or.inr (by omega))]
      rfl
  · rw [if_neg hw, abs_outside b t (by omega)]

theorem new_wf (o : Bool) : WF (new o) ∧ (new o).low = 0 ∧ (new o).high = 0 ∧ (new o).ordered = o ∧
    ∀ t, (new o).abs t = none := by
  have h := grow_spec { ordered := o, size := 0, low := 0, high := 0, slots := [] }
    Generated.C07.initialBufferSize (Or.inl rfl)
  obtain ⟨hp, hl, _, _, hlow, hhigh, hord, habs⟩ := h
  have hnone : ∀ t, (new o).abs t = none := by
    intro t
    show (grow _ _).abs t = none
    rw [habs t]; simp [abs]
  exact ⟨⟨hp, hl, hnone _⟩, hlow, hhigh, hord, hnone⟩

/-! ### `try_put_token` -/

/-- the token under which `try_put_token` handles the item -/
def putToken (b : TokenBuf) (info : Info) : Nat :=
  if b.ordered then (if info.ready then info.token else b.high) else b.high

def putInfo (b : TokenBuf) (info : Info) : Info :=
  if b.ordered then (if info.ready then info else { info with token := b.high, ready := true }) else info

def putHigh (b : TokenBuf) (info : Info) : Nat :=
  if b.ordered then (if info.ready then b.high else b.high + 1) else b.high + 1

theorem abs_congr (b b' : TokenBuf) (h1 : b'.size = b.size) (h2 : b'.low = b.low) (h3 : b'.slots = b.slots) :
    b'.abs = b.abs := by
  funext t; unfold abs; rw [h1, h2, h3]

/-- writing one slot of the window changes the map at exactly that token -/
theorem abs_set (b2 : TokenBuf) (k : Nat) (hk : b2.size = 2 ^ k) (hl : b2.slots.length = b2.size) (tok : Nat)
    (hin : b2.low ≤ tok ∧ tok < b2.low + b2.size) (v : Option Info) (t : Nat) :
    ({ b2 with slots := b2.slots.set (idx b2.size tok) v } : TokenBuf).abs t = if t = tok then v else b2.abs t := by
  unfold abs
  simp only [List.getD_eq_getElem?_getD, List.getElem?_set, hk, idx_eq_mod]
  have hlt : tok % 2 ^ k < b2.slots.length := by rw [hl, hk]; exact Nat.mod_lt _ (Nat.two_pow_pos k)
  rw [hk] at hin
  by_cases ht : t = tok
  · subst ht
    rw [if_pos hin, if_pos rfl, if_pos hlt, if_pos rfl]; rfl
  · rw [if_neg ht]
    by_cases hw : b2.low ≤ t ∧ t < b2.low + 2 ^ k
    · rw [if_pos hw, if_pos hw]
      have : ¬ (tok % 2 ^ k = t % 2 ^ k) := fun hh =>
        ht (window_inj (2 ^ k) b2.low t tok hw.1 hw.2 hin.1 hin.2 hh.symm)
      rw [if_neg this]
    · rw [if_neg hw, if_neg hw]

theorem park_spec (b1 : TokenBuf) (info1 : Info) (tok : Nat) (h : WF b1) (hle : b1.low ≤ tok) :
    ∃ b', park b1 info1 tok = some (b', info1, tok, decide (tok ≠ b1.low)) ∧
      WF b' ∧ b'.low = b1.low ∧ b'.ordered = b1.ordered ∧ b'.high = b1.high ∧
      ∀ t, b'.abs t = if tok ≠ b1.low ∧ t = tok then some info1 else b1.abs t := by
  unfold park
  rw [if_neg (by omega)]
  by_cases hne : tok ≠ b1.low
  · rw [if_pos hne]
    -- b2 has room for tok and the same map
    have hb2 : ∃ b2, b2 = (if tok - b1.low ≥ b1.size then b1.grow (tok - b1.low + 1) else b1) ∧
        (∃ k, b2.size = 2 ^ k) ∧ b2.slots.length = b2.size ∧ tok < b1.low + b2.size ∧ b2.low = b1.low ∧
        b2.high = b1.high ∧ b2.ordered = b1.ordered ∧ ∀ t, b2.abs t = b1.abs t := by
      by_cases hg : tok - b1.low ≥ b1.size
      · obtain ⟨hp, hl, hm, _, hlow, hhigh, hord, habs⟩ := grow_spec b1 (tok - b1.low + 1) (Or.inr h.pow2)
        exact ⟨_, rfl, by rw [if_pos hg]; exact hp, by rw [if_pos hg]; exact hl, by rw [if_pos hg]; omega,
          by rw [if_pos hg]; exact hlow, by rw [if_pos hg]; exact hhigh, by rw [if_pos hg]; exact hord,
          by rw [if_pos hg]; exact habs⟩
      · exact ⟨_, rfl, by rw [if_neg hg]; exact h.pow2, by rw [if_neg hg]; exact h.len, by rw [if_neg hg]; omega,
          by rw [if_neg hg], by rw [if_neg hg], by rw [if_neg hg], by rw [if_neg hg]; intro t; rfl⟩
    obtain ⟨b2, hb2e, ⟨k, hk⟩, hl, hroom, hlow, hhigh, hord, habs⟩ := hb2
    simp only [← hb2e]
    have habs' : ∀ t, ({ b2 with slots := b2.slots.set (idx b2.size tok) (some info1) } : TokenBuf).abs t =
        if tok ≠ b1.low ∧ t = tok then some info1 else b1.abs t := by
      intro t
      rw [abs_set b2 k hk hl tok ⟨by omega, by omega⟩ (some info1) t, habs t]
      by_cases ht : t = tok
      · rw [if_pos ht, if_pos ⟨hne, ht⟩]
      · rw [if_neg ht, if_neg (fun h => ht h.2)]
    refine ⟨{ b2 with slots := b2.slots.set (idx b2.size tok) (some info1) }, ?_, ⟨⟨k, hk⟩, ?_, ?_⟩, hlow, hord, hhigh, habs'⟩
    · simp [hne]
    · simp [hl]
    · show TokenBuf.abs _ b2.low = none
      rw [habs' b2.low, if_neg (fun hh => hne (by rw [← hh.2, hlow])), hlow]
      exact h.lowEmpty
  · rw [if_neg hne]
    exact ⟨b1, by simp [hne], h, rfl, rfl, rfl, fun t => by rw [if_neg (fun hh => hne hh.1)]⟩

theorem park_reject (b1 : TokenBuf) (info1 : Info) (tok : Nat) (hlt : tok < b1.low) : park b1 info1 tok = none := by
  unfold park; rw [if_pos hlt]

/-- **`try_put_token` refines "insert into the map unless the token is the lowest one"**: with
`tok = putToken b info`, the call is rejected iff `tok < low` (the code's assertion); otherwise it
parks the item under `tok` iff `tok ≠ low`, and changes nothing else of the map. -/
theorem tryPut_spec (b : TokenBuf) (info : Info) (h : WF b) :
    (putToken b info < b.low → b.tryPut info = none) ∧
    (b.low ≤ putToken b info → ∃ b', b.tryPut info =
        some (b', putInfo b info, putToken b info, decide (putToken b info ≠ b.low)) ∧
      WF b' ∧ b'.low = b.low ∧ b'.ordered = b.ordered ∧ b'.high = putHigh b info ∧
      ∀ t, b'.abs t = if putToken b info ≠ b.low ∧ t = putToken b info then some (putInfo b info) else b.abs t) := by
  have hwf' : WF { b with high := b.high + 1 } :=
    ⟨h.pow2, h.len, by have := h.lowEmpty; unfold abs at this ⊢; exact this⟩
  have habs' : ({ b with high := b.high + 1 } : TokenBuf).abs = b.abs := abs_congr _ _ rfl rfl rfl
  unfold tryPut putToken putInfo putHigh
  cases ho : b.ordered <;> cases hr : info.ready <;>
    simp only [Bool.false_eq_true, if_false, if_true]
  all_goals constructor
  all_goals intro hh
  any_goals exact park_reject _ _ _ hh
  · obtain ⟨b', h1, h2, h3, h4, h5, h6⟩ := park_spec { b with high := b.high + 1 } info b.high hwf' hh
    exact ⟨b', by simp only [ho] at h1; exact h1, h2, h3, by rw [h4, ho], h5, fun t => by rw [h6 t, habs']⟩
  · obtain ⟨b', h1, h2, h3, h4, h5, h6⟩ := park_spec { b with high := b.high + 1 } info b.high hwf' hh
    exact ⟨b', by simp only [ho] at h1; exact h1, h2, h3, by rw [h4, ho], h5, fun t => by rw [h6 t, habs']⟩
  · obtain ⟨b', h1, h2, h3, h4, h5, h6⟩ := park_spec { b with high := b.high + 1 }
      { info with token := b.high, ready := true } b.high hwf' hh
    exact ⟨b', by simp only [ho] at h1; exact h1, h2, h3, by rw [h4, ho], h5, fun t => by rw [h6 t, habs']⟩
  · obtain ⟨b', h1, h2, h3, h4, h5, h6⟩ := park_spec b info info.token h hh
    exact ⟨b', h1, h2, h3, by rw [h4, ho], h5, h6⟩

/-! ### `try_to_spawn_task_for_next_token` -/

/-- **A parked token is released exactly when `low` reaches it**: `noteDone` returns the map's entry at
the new `low`, removes exactly that entry, and advances `low` by one. -/
theorem noteDone_spec (b : TokenBuf) (h : WF b) :
    b.noteDone.2 = b.abs (b.low + 1) ∧ WF b.noteDone.1 ∧ b.noteDone.1.low = b.low + 1 ∧
    b.noteDone.1.high = b.high ∧ b.noteDone.1.ordered = b.ordered ∧
    ∀ t, b.noteDone.1.abs t = if t = b.low + 1 then none else b.abs t := by
  obtain ⟨k, hk⟩ := h.pow2
  have hlow0 := h.lowEmpty
  have hpos : 0 < 2 ^ k := Nat.two_pow_pos k
  -- the slot of `low` is empty
  have hslot_low : (b.slots[b.low % 2 ^ k]?).getD none = none := by
    unfold abs at hlow0
    rw [if_pos ⟨Nat.le_refl _, by omega⟩, hk, idx_eq_mod, List.getD_eq_getElem?_getD] at hlow0
    exact hlow0
  have hret : b.noteDone.2 = b.abs (b.low + 1) := by
    show b.slots.getD (idx b.size (b.low + 1)) none = b.abs (b.low + 1)
    unfold abs
    by_cases h1 : b.low + 1 < b.low + b.size
    · rw [if_pos ⟨by omega, h1⟩]
    · rw [if_neg (fun hh => h1 hh.2)]
      have hs1 : 2 ^ k = 1 := by omega
      rw [hk, idx_eq_mod, List.getD_eq_getElem?_getD, hs1, Nat.mod_one]
      rw [hs1, Nat.mod_one] at hslot_low
      exact hslot_low
  have habs : ∀ t, b.noteDone.1.abs t = if t = b.low + 1 then none else b.abs t := by
    intro t
    show TokenBuf.abs { b with low := b.low + 1, slots := b.slots.set (idx b.size (b.low + 1)) none } t = _
    unfold abs
    simp only [hk, idx_eq_mod, List.getD_eq_getElem?_getD, List.getElem?_set]
    by_cases ht : t = b.low + 1
    · subst ht
      rw [if_pos rfl, if_pos ⟨Nat.le_refl _, by omega⟩, if_pos rfl]
      split <;> rfl
    · rw [if_neg ht]
      by_cases hw : b.low + 1 ≤ t ∧ t < b.low + 1 + 2 ^ k
      · rw [if_pos hw]
        by_cases hlast : t = b.low + 2 ^ k
        · -- the token that enters the window: its slot is the (empty) slot of the old `low`
          rw [if_neg (by omega : ¬ (b.low ≤ t ∧ t < b.low + 2 ^ k))]
          have hm : t % 2 ^ k = b.low % 2 ^ k := by rw [hlast, Nat.add_mod_right]
          rw [hm]
          split
          · split <;> rfl
          · exact hslot_low
        · rw [if_pos (by omega : b.low ≤ t ∧ t < b.low + 2 ^ k)]
          have : ¬ ((b.low + 1) % 2 ^ k = t % 2 ^ k) := fun hh => by
            have := window_inj (2 ^ k) b.low (b.low + 1) t (by omega) (by omega) (by omega) (by omega) hh
            omega
          rw [if_neg this]
      · rw [if_neg hw]
        by_cases hw' : b.low ≤ t ∧ t < b.low + 2 ^ k
        · have : t = b.low := by omega
          subst this
          rw [if_pos hw']; exact hslot_low.symm
        · rw [if_neg hw']
  refine ⟨hret, ⟨⟨k, hk⟩, ?_, ?_⟩, rfl, rfl, rfl, habs⟩
  · show (b.slots.set _ none).length = b.size
    rw [List.length_set]; exact h.len
  · show b.noteDone.1.abs (b.low + 1) = none
    rw [habs, if_pos rfl]

theorem getOrderedToken_spec (b : TokenBuf) (h : WF b) :
    WF b.getOrderedToken.1 ∧ b.getOrderedToken.2 = b.high ∧ b.getOrderedToken.1.high = b.high + 1 ∧
    b.getOrderedToken.1.low = b.low ∧ b.getOrderedToken.1.ordered = b.ordered ∧
    b.getOrderedToken.1.abs = b.abs :=
  ⟨⟨h.pow2, h.len, by have := h.lowEmpty; unfold abs at this ⊢; exact this⟩, rfl, rfl, rfl, rfl, abs_congr _ _ rfl rfl rfl⟩

theorem putInfo_item (b : TokenBuf) (info : Info) : (putInfo b info).item = info.item := by
  unfold putInfo; split
  · split <;> rfl
  · rfl

/-- inversion of a successful `try_put_token` -/
theorem tryPut_some (b : TokenBuf) (info : Info) (h : WF b) {b' : TokenBuf} {info' : Info} {tok : Nat} {p : Bool}
    (hr : b.tryPut info = some (b', info', tok, p)) :
    tok = putToken b info ∧ info' = putInfo b info ∧ b.low ≤ tok ∧ p = decide (tok ≠ b.low) ∧ WF b' ∧
    b'.low = b.low ∧ b'.ordered = b.ordered ∧ b'.high = putHigh b info ∧
    ∀ t, b'.abs t = if tok ≠ b.low ∧ t = tok then some info' else b.abs t := by
  have hs := tryPut_spec b info h
  by_cases hlt : putToken b info < b.low
  · rw [hs.1 hlt] at hr; cases hr
  · obtain ⟨b'', he, h1, h2, h3, h4, h5⟩ := hs.2 (by omega)
    rw [he] at hr
    cases hr
    exact ⟨rfl, rfl, by omega, rfl, h1, h2, h3, h4, h5⟩

end TokenBuf
end TbbVerif.C07
