/- C07 helper lemmas, part 18: `InvE` under the simple steps, the input filter's return and the last
filter's return. -/
import TbbVerif.Proofs.C07.InvE

namespace TbbVerif.C07

theorem low_le_numbered {c : Cfg} {s : St} (hC : InvC c s) (k : Nat) (ho : (c.mode k).ordered = true) (h1 : 1 ≤ k) :
    (s.bufs k).low ≤ s.numbered.length := by
  have a := hC.seenLen k ho h1
  have b := (hC.seenPre k ho h1).length_le
  omega

theorem item_lt_of_carry {c : Cfg} {s : St} (hA : InvA c s) {tid : Nat} {t : Task} (ht : s.tasks[tid]? = some t)
    (hc : carries t = true) : t.info.item < s.produced := by
  rw [← hA.locLen]; exact lt_of_getElem? (hA.carry tid t ht hc)

theorem item_lt_of_parked {c : Cfg} {s : St} (hA : InvA c s) {k tok : Nat} {info : Info}
    (ha : (s.bufs k).abs tok = some info) : info.item < s.produced := by
  rw [← hA.locLen]; exact lt_of_getElem? (hA.parked k tok info ha)

/-- buffers, numbering, locations untouched; one task moves on keeping its item -/
theorem invE_frame {c : Cfg} {s : St} {tid : Nat} {t : Task} (hA : InvA c s) (hE : InvE c s) (s' : St) (extra : List Task)
    (t' : Task) (ht : s.tasks[tid]? = some t)
    (hbufs : s'.bufs = s.bufs) (hnum : s'.numbered = s.numbered) (hprod : s'.produced = s.produced)
    (hloc : s'.loc = s.loc) (herr : s'.err = s.err)
    (htasks : s'.tasks = (s.tasks ++ extra).set tid t')
    (hcar : carries t' = true → carries t = true ∧ t'.info = t.info)
    (hstage : carries t = true → ∀ k, (c.mode k).ordered = true → 1 ≤ k → (k < t'.stage ↔ k < t.stage))
    (hextra : ∀ x ∈ extra, carries x = false) : InvE c s' := by
  have htid := lt_of_getElem? ht
  have hleft : ∀ (i k : Nat), (c.mode k).ordered = true → 1 ≤ k → (k < left c s' i ↔ k < left c s i) := by
    intro i k ho h1
    by_cases hme : s.loc[i]? = some (.task tid)
    · obtain ⟨x, hx, hcx, _⟩ := hA.locTask i tid hme
      rw [ht] at hx; cases hx
      rw [left_of_task hme ht, left_of_task (s := s') (by rw [hloc]; exact hme) (by rw [htasks]; exact get_set_append_self htid)]
      exact hstage hcx k ho h1
    · rw [left_other hA ht htasks i (by rw [hloc]) hme]
  refine ⟨?_, ?_, ?_, ?_, ?_, ?_, ?_⟩
  · intro j x hx hcx tok hn
    rw [hnum] at hn
    rw [htasks] at hx
    rcases get_set_append htid hx with ⟨rfl, rfl⟩ | ⟨_, hold⟩ | ⟨_, _, hmem⟩
    · obtain ⟨h1, h2⟩ := hcar hcx
      rw [h2] at hn ⊢; exact hE.n3T _ t ht h1 tok hn
    · exact hE.n3T j x hold hcx tok hn
    · rw [hextra x hmem] at hcx; cases hcx
  · intro k tok' info ha tok hn
    rw [hbufs] at ha; rw [hnum] at hn; exact hE.n3P k tok' info ha tok hn
  · intro tok i hn; rw [hnum] at hn; rw [hprod]; exact hE.numLt tok i hn
  · intro k tok i ho h1 hn
    rw [hnum] at hn
    rw [hbufs, hleft i k ho h1]; exact hE.lowSep k tok i ho h1 hn
  · intro i k tok hl; rw [hloc] at hl; rw [hbufs]; exact hE.locParked i k tok hl
  · intro k tok info ha; rw [hbufs] at ha; exact hE.parkedStage k tok info ha
  · rw [herr]; exact hE.noErr

/-- the input filter returned item `s.produced` -/
theorem invE_produce {c : Cfg} {s : St} {tid : Nat} {t : Task} (hA : InvA c s) (hC : InvC c s) (hE : InvE c s)
    (ht : s.tasks[tid]? = some t) (hnc : carries t = false) (s' : St) (t' : Task) (l : Loc)
    (hprod : s'.produced = s.produced + 1) (hloc : s'.loc = s.loc ++ [l]) (herr : s'.err = s.err)
    (htasks : s'.tasks = s.tasks.set tid t')
    (hb : ∀ k, (s'.bufs k).low = (s.bufs k).low ∧ (s'.bufs k).abs = (s.bufs k).abs)
    (hnum : s'.numbered = s.numbered ∨
      (s'.numbered = s.numbered ++ [s.produced] ∧ (carries t' = true → t'.info.ready = true ∧ t'.info.token = s.numbered.length)))
    (hl : (l = .task tid ∧ carries t' = true ∧ t'.info.item = s.produced ∧ t'.stage ≤ 1) ∨
          (l = .retired ∧ carries t' = false ∧ c.n = 1)) : InvE c s' := by
  have htid := lt_of_getElem? ht
  have hlen := hA.locLen
  have hnum_old : ∀ (tok i : Nat), s'.numbered[tok]? = some i → i ≠ s.produced → s.numbered[tok]? = some i := by
    intro tok i hn hi
    rcases hnum with h | ⟨h, _⟩
    · rw [h] at hn; exact hn
    · rw [h, List.getElem?_append] at hn
      split at hn
      · exact hn
      · rename_i hge
        rcases Nat.eq_zero_or_pos (tok - s.numbered.length) with h0 | h0
        · rw [h0] at hn; simp at hn; exact absurd hn.symm hi
        · rw [List.getElem?_eq_none (by simp; omega)] at hn; cases hn
  have hnum_new : ∀ (tok : Nat), s'.numbered[tok]? = some s.produced →
      s'.numbered = s.numbered ++ [s.produced] ∧ tok = s.numbered.length := by
    intro tok hn
    rcases hnum with h | ⟨h, _⟩
    · rw [h] at hn; have := hE.numLt tok _ hn; omega
    · refine ⟨h, ?_⟩
      rw [h, List.getElem?_append] at hn
      split at hn
      · have := hE.numLt tok _ hn; omega
      · rename_i hge
        rcases Nat.eq_zero_or_pos (tok - s.numbered.length) with h0 | h0
        · omega
        · rw [List.getElem?_eq_none (by simp; omega)] at hn; cases hn
  have hlook : ∀ (j : Nat) (x : Task), s'.tasks[j]? = some x → (j = tid ∧ x = t') ∨ (j ≠ tid ∧ s.tasks[j]? = some x) := by
    intro j x hx; rw [htasks] at hx; exact get_set_cases htid hx
  have hloc_old : ∀ (i : Nat), i < s.produced → s'.loc[i]? = s.loc[i]? := by
    intro i hi; rw [hloc, List.getElem?_append, if_pos (by omega)]
  have hloc_new : s'.loc[s.produced]? = some l := by
    rw [hloc, List.getElem?_append, if_neg (by omega), hlen]; simp
  have htasks' : s'.tasks = (s.tasks ++ []).set tid t' := by simpa using htasks
  refine ⟨?_, ?_, ?_, ?_, ?_, ?_, ?_⟩
  · intro j x hx hcx tok hn
    rcases hlook j x hx with ⟨_, rfl⟩ | ⟨_, hold⟩
    · rcases hl with ⟨_, _, hitem, _⟩ | ⟨_, hnc', _⟩
      · rw [hitem] at hn
        obtain ⟨he, htok⟩ := hnum_new tok hn
        rcases hnum with h | ⟨_, h⟩
        · rw [h] at he; have := congrArg List.length he; simp at this
        · rw [htok]; exact h hcx
      · rw [hnc'] at hcx; cases hcx
    · have hlt := item_lt_of_carry hA hold hcx
      exact hE.n3T j x hold hcx tok (hnum_old tok _ hn (by omega))
  · intro k tok' info ha tok hn
    rw [(hb k).2] at ha
    have hlt := item_lt_of_parked hA ha
    exact hE.n3P k tok' info ha tok (hnum_old tok _ hn (by omega))
  · intro tok i hn
    rw [hprod]
    by_cases hi : i = s.produced
    · omega
    · have := hE.numLt tok i (hnum_old tok i hn hi); omega
  · intro k tok i ho h1 hn
    rw [(hb k).1]
    by_cases hi : i = s.produced
    · subst hi
      obtain ⟨_, htok⟩ := hnum_new tok hn
      have hL := low_le_numbered hC k ho h1
      have hleft : left c s' s.produced ≤ 1 := by
        rcases hl with ⟨rfl, _, _, hst⟩ | ⟨rfl, _, hn1⟩
        · rw [left_of_task hloc_new (by rw [htasks]; exact getElem?_set_self' _ _ _ htid)]; exact hst
        · rw [left_of_retired hloc_new, hn1]; exact Nat.le_refl _
      constructor <;> intro h <;> omega
    · have hlt := hE.numLt tok i (hnum_old tok i hn hi)
      rw [left_other hA ht htasks' i (hloc_old i hlt) (not_mine_of_idle hA ht hnc i)]
      exact hE.lowSep k tok i ho h1 (hnum_old tok i hn hi)
  · intro i k tok hli
    have hi : i < s.produced := by
      rcases Nat.lt_or_ge i s.produced with h | h
      · exact h
      · exfalso
        rw [hloc, List.getElem?_append, if_neg (by omega)] at hli
        rcases Nat.eq_zero_or_pos (i - s.loc.length) with h0 | h0
        · rw [h0] at hli; simp at hli
          rcases hl with ⟨rfl, _⟩ | ⟨rfl, _⟩ <;> cases hli
        · rw [List.getElem?_eq_none (by simp; omega)] at hli; cases hli
    rw [hloc_old i hi] at hli
    rw [(hb k).2]; exact hE.locParked i k tok hli
  · intro k tok info ha; rw [(hb k).2] at ha; exact hE.parkedStage k tok info ha
  · rw [herr]; exact hE.noErr

/-- the item carried by `tid` leaves the last (parallel) filter -/
theorem invE_retire {c : Cfg} {s : St} {tid : Nat} {t : Task} (hA : InvA c s) (hE : InvE c s) (s' : St) (t' : Task)
    (ht : s.tasks[tid]? = some t) (hc : carries t = true) (hnc' : carries t' = false)
    (hlast : t.stage + 1 = c.n) (hpar : (c.mode t.stage).serial = false)
    (hbufs : s'.bufs = s.bufs) (hnum : s'.numbered = s.numbered) (hprod : s'.produced = s.produced)
    (hloc : s'.loc = s.loc.set t.info.item .retired) (herr : s'.err = s.err)
    (htasks : s'.tasks = s.tasks.set tid t') : InvE c s' := by
  have htid := lt_of_getElem? ht
  have hmine := hA.carry tid t ht hc
  have htasks' : s'.tasks = (s.tasks ++ []).set tid t' := by simpa using htasks
  refine ⟨?_, ?_, ?_, ?_, ?_, ?_, ?_⟩
  · intro j x hx hcx tok hn
    rw [htasks] at hx; rw [hnum] at hn
    rcases get_set_cases htid hx with ⟨_, rfl⟩ | ⟨_, hold⟩
    · rw [hnc'] at hcx; cases hcx
    · exact hE.n3T j x hold hcx tok hn
  · intro k tok' info ha tok hn
    rw [hbufs] at ha; rw [hnum] at hn; exact hE.n3P k tok' info ha tok hn
  · intro tok i hn; rw [hnum] at hn; rw [hprod]; exact hE.numLt tok i hn
  · intro k tok i ho h1 hn
    rw [hnum] at hn; rw [hbufs]
    by_cases hi : i = t.info.item
    · subst hi
      rw [left_of_retired (s := s') (by rw [hloc]; exact getElem?_set_self' _ _ _ (lt_of_getElem? hmine))]
      have := hE.lowSep k tok _ ho h1 hn
      rw [left_of_task hmine ht] at this
      have hne : k ≠ t.stage := by
        intro e; subst e; rw [ordered_serial ho] at hpar; cases hpar
      rw [this]; constructor <;> intro h <;> omega
    · rw [left_other hA ht htasks' i (by rw [hloc, getElem?_set_ne' _ _ _ _ (fun e => hi e.symm)]) (not_mine_of_ne hA ht i hi)]
      exact hE.lowSep k tok i ho h1 hn
  · intro i k tok hl
    rw [hloc, List.getElem?_set] at hl
    split at hl
    · split at hl <;> cases hl
    · rw [hbufs]; exact hE.locParked i k tok hl
  · intro k tok info ha; rw [hbufs] at ha; exact hE.parkedStage k tok info ha
  · rw [herr]; exact hE.noErr

end TbbVerif.C07
