/- C07 helper lemmas, part 7: counting invariants of `Pipeline` — token conservation, the single input
agent, live items, the wait counter. -/
import TbbVerif.Proofs.C07.InvAStep

namespace TbbVerif.C07

/-! ### counting in lists under `set` / append -/

theorem countP_set_of_getElem? {α : Type} (p : α → Bool) : ∀ (l : List α) (i : Nat) (a x : α), l[i]? = some x →
    List.countP p (l.set i a) + (if p x then 1 else 0) = List.countP p l + (if p a then 1 else 0)
  | [], i, a, x, h => by simp at h
  | y :: l, 0, a, x, h => by
    simp at h; subst h
    simp only [List.set_cons_zero, List.countP_cons]
    omega
  | y :: l, i + 1, a, x, h => by
    simp at h
    have := countP_set_of_getElem? p l i a x h
    simp only [List.set_cons_succ, List.countP_cons]
    omega

theorem countP_set_append (p : Task → Bool) (l extra : List Task) (tid : Nat) (t t' : Task) (h : l[tid]? = some t) :
    List.countP p ((l ++ extra).set tid t') + (if p t then 1 else 0) =
      List.countP p l + (if p t' then 1 else 0) + List.countP p extra := by
  have h' : (l ++ extra)[tid]? = some t := by
    rw [List.getElem?_append, if_pos (lt_of_getElem? h)]; exact h
  have := countP_set_of_getElem? p (l ++ extra) tid t' t h'
  rw [List.countP_append] at this
  omega

/-! ### the counted classes of tasks -/

def holdsTokPc : Pc → Bool
  | .callInP | .inCallP | .put | .call | .inFilter | .noteDone | .fadd => true
  | _ => false
def holdsTok (t : Task) : Bool := holdsTokPc t.pc

def inputPc : Pc → Bool
  | .start | .inCallS | .fsubS | .fsubP | .ldEoi => true
  | _ => false
/-- a task that is (or is about to become) the input stage and has not taken a token yet -/
def inputAgent (t : Task) : Bool := inputPc t.pc

def alivePc : Pc → Bool
  | .dead => false
  | _ => true
def alive (t : Task) : Bool := alivePc t.pc

/-- the task carries an item that has not yet left the last filter -/
def liveCarry (c : Cfg) (t : Task) : Bool :=
  match t.pc with
  | .fsubS | .put | .call | .inFilter => true
  | .noteDone => decide (t.stage + 1 < c.n)
  | _ => false

def isFsubS (t : Task) : Bool := match t.pc with | .fsubS => true | _ => false

/-- a flag as a number, so that `omega` can reason with it -/
def bnat (b : Bool) : Nat := if b then 1 else 0
theorem bnat_true : bnat true = 1 := rfl
theorem bnat_false : bnat false = 0 := rfl

structure InvB (c : Cfg) (s : St) : Prop where
  tokLe : s.tokens + s.tasks.countP holdsTok + s.loc.countP Loc.isParked ≤ c.maxTok
  tokEq : bnat s.eoi = 0 → s.tokens + s.tasks.countP holdsTok + s.loc.countP Loc.isParked = c.maxTok
  inpLe : s.tasks.countP inputAgent ≤ 1
  inpTok : 1 ≤ s.tasks.countP inputAgent → 1 ≤ s.tokens
  inpEx : bnat s.eoi = 0 → 1 ≤ s.tokens → s.tasks.countP inputAgent = 1
  live : s.produced = (s.done (c.n - 1)).length + s.tasks.countP (liveCarry c) + s.loc.countP Loc.isParked
  wait : s.wait = s.tasks.countP alive

/-- all four task counts after a step that rewrites task `tid` and appends `extra` -/
theorem counts4 (c : Cfg) (l extra : List Task) (tid : Nat) (t t' : Task) (h : l[tid]? = some t) :
    (List.countP holdsTok ((l ++ extra).set tid t') + (if holdsTok t then 1 else 0) =
      List.countP holdsTok l + (if holdsTok t' then 1 else 0) + List.countP holdsTok extra) ∧
    (List.countP inputAgent ((l ++ extra).set tid t') + (if inputAgent t then 1 else 0) =
      List.countP inputAgent l + (if inputAgent t' then 1 else 0) + List.countP inputAgent extra) ∧
    (List.countP (liveCarry c) ((l ++ extra).set tid t') + (if liveCarry c t then 1 else 0) =
      List.countP (liveCarry c) l + (if liveCarry c t' then 1 else 0) + List.countP (liveCarry c) extra) ∧
    (List.countP alive ((l ++ extra).set tid t') + (if alive t then 1 else 0) =
      List.countP alive l + (if alive t' then 1 else 0) + List.countP alive extra) :=
  ⟨countP_set_append _ _ _ _ _ _ h, countP_set_append _ _ _ _ _ _ h, countP_set_append _ _ _ _ _ _ h,
   countP_set_append _ _ _ _ _ _ h⟩

theorem counts4' (c : Cfg) (l : List Task) (tid : Nat) (t t' : Task) (h : l[tid]? = some t) :
    (List.countP holdsTok (l.set tid t') + (if holdsTok t then 1 else 0) =
      List.countP holdsTok l + (if holdsTok t' then 1 else 0)) ∧
    (List.countP inputAgent (l.set tid t') + (if inputAgent t then 1 else 0) =
      List.countP inputAgent l + (if inputAgent t' then 1 else 0)) ∧
    (List.countP (liveCarry c) (l.set tid t') + (if liveCarry c t then 1 else 0) =
      List.countP (liveCarry c) l + (if liveCarry c t' then 1 else 0)) ∧
    (List.countP alive (l.set tid t') + (if alive t then 1 else 0) =
      List.countP alive l + (if alive t' then 1 else 0)) := by
  have := counts4 c l [] tid t t' h
  simpa using this

theorem liveCarry_advance (c : Cfg) (t : Task) : liveCarry c (advance c t) = decide (t.stage + 1 < c.n) := by
  unfold advance liveCarry; simp only
  by_cases h : t.stage + 1 < c.n
  · rw [if_pos h]; cases (c.mode (t.stage + 1)).serial <;> simp [h]
  · rw [if_neg h]; simp [h]

theorem holdsTok_advance (c : Cfg) (t : Task) : holdsTok (advance c t) = true := by
  unfold advance holdsTok; simp only
  by_cases h : t.stage + 1 < c.n
  · rw [if_pos h]; cases (c.mode (t.stage + 1)).serial <;> simp [holdsTokPc]
  · rw [if_neg h]; simp [holdsTokPc]

theorem inputAgent_advance (c : Cfg) (t : Task) : inputAgent (advance c t) = false := by
  unfold advance inputAgent; simp only
  by_cases h : t.stage + 1 < c.n
  · rw [if_pos h]; cases (c.mode (t.stage + 1)).serial <;> simp [inputPc]
  · rw [if_neg h]; simp [inputPc]

theorem alive_advance (c : Cfg) (t : Task) : alive (advance c t) = true := by
  unfold advance alive; simp only
  by_cases h : t.stage + 1 < c.n
  · rw [if_pos h]; cases (c.mode (t.stage + 1)).serial <;> simp [alivePc]
  · rw [if_neg h]; simp [alivePc]

end TbbVerif.C07
