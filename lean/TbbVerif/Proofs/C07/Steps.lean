/- C07 helper lemmas, part 4: the step function of `Pipeline`, one equation per branch. -/
import TbbVerif.Proofs.C07.TokenBuf

namespace TbbVerif.C07

variable {c : Cfg} {s : St} {tid : Nat} {t : Task}

theorem step_none (h : s.tasks[tid]? = none) : step c s tid = s := by
  simp [step, stepL, h]

theorem step_dead (h : s.tasks[tid]? = some t) (hpc : t.pc = .dead) : step c s tid = s := by
  simp [step, stepL, h, hpc]

theorem step_startS (h : s.tasks[tid]? = some t) (hpc : t.pc = .start) (hm : (c.mode 0).serial = true) :
    step c s tid = setTask s tid { fresh with pc := .inCallS } := by
  simp [step, stepL, h, hpc, hm]

theorem step_startP_eoi (h : s.tasks[tid]? = some t) (hpc : t.pc = .start) (hm : (c.mode 0).serial = false)
    (he : s.eoi = true) : step c s tid = kill s tid := by
  simp [step, stepL, h, hpc, hm, he]

theorem step_startP (h : s.tasks[tid]? = some t) (hpc : t.pc = .start) (hm : (c.mode 0).serial = false)
    (he : s.eoi = false) : step c s tid = setTask s tid { fresh with pc := .fsubP } := by
  simp [step, stepL, h, hpc, hm, he]

/-- the ghost/bookkeeping part of "the serial input filter returned item `s.produced`" -/
def produceS (c : Cfg) (s : St) : St :=
  { s with
    produced := s.produced + 1,
    bufs := if (c.mode 0).ordered then upd s.bufs 0 (s.bufs 0).getOrderedToken.1 else s.bufs,
    numbered := if (c.mode 0).ordered then s.numbered ++ [s.produced] else s.numbered,
    seen := upd s.seen 0 (s.seen 0 ++ [s.produced]),
    done := upd s.done 0 (s.done 0 ++ [s.produced]) }

def infoS (c : Cfg) (s : St) : Info :=
  if (c.mode 0).ordered then { item := s.produced, token := (s.bufs 0).high, ready := true } else { item := s.produced }

theorem step_inCallS_one (h : s.tasks[tid]? = some t) (hpc : t.pc = .inCallS) (hp : s.produced < c.total)
    (hn : c.n = 1) :
    step c s tid = setTask { produceS c s with loc := s.loc ++ [.retired] } tid fresh := by
  simp [step, stepL, h, hpc, hp, hn, produceS]

theorem step_inCallS (h : s.tasks[tid]? = some t) (hpc : t.pc = .inCallS) (hp : s.produced < c.total)
    (hn : c.n ≠ 1) :
    step c s tid = setTask { produceS c s with loc := s.loc ++ [.task tid] } tid
      { pc := .fsubS, stage := 0, info := infoS c s } := by
  simp [step, stepL, h, hpc, hp, hn, produceS, infoS]

theorem step_inCallS_stop (h : s.tasks[tid]? = some t) (hpc : t.pc = .inCallS) (hp : ¬ s.produced < c.total) :
    step c s tid = kill { s with eoi := true } tid := by
  simp [step, stepL, h, hpc, hp]

theorem step_fsubS_err (h : s.tasks[tid]? = some t) (hpc : t.pc = .fsubS) (h0 : s.tokens = 0) :
    step c s tid = { s with err := true } := by
  simp [step, stepL, h, hpc, h0, fail]

theorem step_fsubS_spawn (h : s.tasks[tid]? = some t) (hpc : t.pc = .fsubS) (h1 : 1 < s.tokens) :
    step c s tid = setTask (spawn { s with tokens := s.tokens - 1 } fresh) tid (advance c t) := by
  have : s.tokens ≠ 0 := by omega
  simp [step, stepL, h, hpc, this, h1]

theorem step_fsubS_last (h : s.tasks[tid]? = some t) (hpc : t.pc = .fsubS) (h1 : s.tokens = 1) :
    step c s tid = setTask { s with tokens := s.tokens - 1 } tid (advance c t) := by
  simp [step, stepL, h, hpc, h1]

theorem step_fsubP_err (h : s.tasks[tid]? = some t) (hpc : t.pc = .fsubP) (h0 : s.tokens = 0) :
    step c s tid = { s with err := true } := by
  simp [step, stepL, h, hpc, h0, fail]

theorem step_fsubP_spawn (h : s.tasks[tid]? = some t) (hpc : t.pc = .fsubP) (h1 : 1 < s.tokens) :
    step c s tid = setTask (spawn { s with tokens := s.tokens - 1 } fresh) tid { t with pc := .callInP } := by
  have : s.tokens ≠ 0 := by omega
  simp [step, stepL, h, hpc, this, h1]

theorem step_fsubP_last (h : s.tasks[tid]? = some t) (hpc : t.pc = .fsubP) (h1 : s.tokens = 1) :
    step c s tid = setTask { s with tokens := s.tokens - 1 } tid { t with pc := .callInP } := by
  simp [step, stepL, h, hpc, h1]

theorem step_callInP (h : s.tasks[tid]? = some t) (hpc : t.pc = .callInP) :
    step c s tid = setTask s tid { t with pc := .inCallP } := by
  simp [step, stepL, h, hpc]

theorem step_inCallP (h : s.tasks[tid]? = some t) (hpc : t.pc = .inCallP) (hp : s.produced < c.total) :
    step c s tid = setTask { s with
        produced := s.produced + 1,
        loc := s.loc ++ [if c.n = 1 then .retired else .task tid],
        seen := upd s.seen 0 (s.seen 0 ++ [s.produced]),
        done := upd s.done 0 (s.done 0 ++ [s.produced]) } tid
      (advance c { t with stage := 0, info := { item := s.produced } }) := by
  simp [step, stepL, h, hpc, hp]

theorem step_inCallP_stop (h : s.tasks[tid]? = some t) (hpc : t.pc = .inCallP) (hp : ¬ s.produced < c.total) :
    step c s tid = kill { s with eoi := true } tid := by
  simp [step, stepL, h, hpc, hp]

theorem step_put_reject (h : s.tasks[tid]? = some t) (hpc : t.pc = .put)
    (hr : (s.bufs t.stage).tryPut t.info = none) :
    step c s tid = { s with err := true } := by
  simp [step, stepL, h, hpc, hr, fail]

/-- bookkeeping common to both outcomes of `try_put_token` -/
def afterPut (s : St) (t : Task) (b' : TokenBuf) : St :=
  { s with
    bufs := upd s.bufs t.stage b',
    numbered := if (s.bufs t.stage).ordered && !t.info.ready then s.numbered ++ [t.info.item] else s.numbered }

theorem step_put_parked (h : s.tasks[tid]? = some t) (hpc : t.pc = .put) {b' : TokenBuf} {info' : Info} {tok : Nat}
    (hr : (s.bufs t.stage).tryPut t.info = some (b', info', tok, true)) :
    step c s tid = kill { afterPut s t b' with loc := s.loc.set t.info.item (.parked t.stage tok) } tid := by
  simp [step, stepL, h, hpc, hr, afterPut]

theorem step_put_run (h : s.tasks[tid]? = some t) (hpc : t.pc = .put) {b' : TokenBuf} {info' : Info} {tok : Nat}
    (hr : (s.bufs t.stage).tryPut t.info = some (b', info', tok, false)) :
    step c s tid = setTask (afterPut s t b') tid { t with pc := .call, info := info' } := by
  simp [step, stepL, h, hpc, hr, afterPut]

theorem step_call (h : s.tasks[tid]? = some t) (hpc : t.pc = .call) :
    step c s tid = { setTask s tid { t with pc := .inFilter } with
      seen := upd s.seen t.stage (s.seen t.stage ++ [t.info.item]) } := by
  simp [step, stepL, h, hpc]

theorem step_inFilter (h : s.tasks[tid]? = some t) (hpc : t.pc = .inFilter) :
    step c s tid = setTask { s with
        done := upd s.done t.stage (s.done t.stage ++ [t.info.item]),
        loc := if t.stage + 1 = c.n ∧ !(c.mode t.stage).serial then s.loc.set t.info.item .retired else s.loc } tid
      (if (c.mode t.stage).serial then { t with pc := .noteDone } else advance c t) := by
  simp [step, stepL, h, hpc]

/-- ghost location update of the note-done step before a possible release -/
def locDone (c : Cfg) (s : St) (t : Task) : List Loc :=
  if t.stage + 1 = c.n then s.loc.set t.info.item .retired else s.loc

theorem step_noteDone_none (h : s.tasks[tid]? = some t) (hpc : t.pc = .noteDone)
    (hr : (s.bufs t.stage).noteDone.2 = none) :
    step c s tid = setTask { s with bufs := upd s.bufs t.stage (s.bufs t.stage).noteDone.1, loc := locDone c s t } tid
      (advance c t) := by
  simp [step, stepL, h, hpc, hr, locDone]

theorem step_noteDone_some (h : s.tasks[tid]? = some t) (hpc : t.pc = .noteDone) {w : Info}
    (hr : (s.bufs t.stage).noteDone.2 = some w) :
    step c s tid = setTask (spawn
        { s with bufs := upd s.bufs t.stage ((s.bufs t.stage).noteDone.1), loc := (locDone c s t).set w.item (.task s.tasks.length) }
        { pc := .call, stage := t.stage, info := w }) tid (advance c t) := by
  simp [step, stepL, h, hpc, hr, locDone]

theorem step_fadd_die (h : s.tasks[tid]? = some t) (hpc : t.pc = .fadd) (h0 : 0 < s.tokens) :
    step c s tid = kill { s with tokens := s.tokens + 1 } tid := by
  simp [step, stepL, h, hpc, h0]

theorem step_fadd_zero (h : s.tasks[tid]? = some t) (hpc : t.pc = .fadd) (h0 : s.tokens = 0) :
    step c s tid = setTask { s with tokens := s.tokens + 1 } tid { t with pc := .ldEoi } := by
  simp [step, stepL, h, hpc, h0]

theorem step_ldEoi_eoi (h : s.tasks[tid]? = some t) (hpc : t.pc = .ldEoi) (he : s.eoi = true) :
    step c s tid = kill s tid := by
  simp [step, stepL, h, hpc, he]

theorem step_ldEoi (h : s.tasks[tid]? = some t) (hpc : t.pc = .ldEoi) (he : s.eoi = false) :
    step c s tid = setTask s tid fresh := by
  simp [step, stepL, h, hpc, he]

end TbbVerif.C07
