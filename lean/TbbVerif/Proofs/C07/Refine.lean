/- C07 helper lemmas, part 3: trace-level refinement of the ring by the finite-map specification. -/
import TbbVerif.Proofs.C07.TokenBuf

namespace TbbVerif.C07

inductive BufOp where
  | put (info : Info)      -- `try_put_token(info)`
  | done                   -- `try_to_spawn_task_for_next_token` (locked region)
  | tok                    -- `get_ordered_token()`
  deriving Repr, DecidableEq

inductive BufOut where
  | put (r : Option (Info × Nat × Bool))   -- `none` = rejected by the assertion; (info, token used, parked?)
  | done (r : Option Info)                 -- the released item, if any
  | tok (t : Nat)
  deriving Repr, DecidableEq

/-- the real ring as an operation-driven machine -/
def ringMach (o : Bool) : Mach TokenBuf BufOp BufOut :=
  { init := TokenBuf.new o,
    step := fun b op => match op with
      | .put info => (match b.tryPut info with
          | none => (b, .put none)
          | some r => (r.1, .put (some (r.2.1, r.2.2.1, r.2.2.2))))
      | .done => ((b.noteDone).1, .done (b.noteDone).2)
      | .tok => ((b.getOrderedToken).1, .tok (b.getOrderedToken).2) }

/-- **Specification**: an unbounded map token ↦ parked item, the lowest token that may run, the next
token to hand out. -/
structure MapSt where
  ordered : Bool
  low : Nat
  high : Nat
  m : Nat → Option Info

def specMach (o : Bool) : Mach MapSt BufOp BufOut :=
  { init := { ordered := o, low := 0, high := 0, m := fun _ => none },
    step := fun s op => match op with
      | .put info =>
        let tok := if s.ordered then (if info.ready then info.token else s.high) else s.high
        let info' : Info := if s.ordered then (if info.ready then info else { info with token := s.high, ready := true }) else info
        let high' := if s.ordered then (if info.ready then s.high else s.high + 1) else s.high + 1
        if tok < s.low then (s, .put none)
        else if tok ≠ s.low then
          ({ s with high := high', m := fun t => if t = tok then some info' else s.m t }, .put (some (info', tok, true)))
        else ({ s with high := high' }, .put (some (info', tok, false)))
      | .done => ({ s with low := s.low + 1, m := fun t => if t = s.low + 1 then none else s.m t }, .done (s.m (s.low + 1)))
      | .tok => ({ s with high := s.high + 1 }, .tok s.high) }

/-- the simulation relation -/
def Sim (b : TokenBuf) (s : MapSt) : Prop :=
  TokenBuf.WF b ∧ b.ordered = s.ordered ∧ b.low = s.low ∧ b.high = s.high ∧ ∀ t, b.abs t = s.m t

theorem sim_init (o : Bool) : Sim (ringMach o).init (specMach o).init := by
  obtain ⟨h1, h2, h3, h4, h5⟩ := TokenBuf.new_wf o
  exact ⟨h1, h4, h2, h3, h5⟩

theorem sim_step (o : Bool) (b : TokenBuf) (s : MapSt) (op : BufOp) (h : Sim b s) :
    ((ringMach o).step b op).2 = ((specMach o).step s op).2 ∧
    Sim ((ringMach o).step b op).1 ((specMach o).step s op).1 := by
  obtain ⟨hwf, hord, hlow, hhigh, habs⟩ := h
  cases op with
  | put info =>
    have hspec := TokenBuf.tryPut_spec b info hwf
    have htok : TokenBuf.putToken b info = (if s.ordered then (if info.ready then info.token else s.high) else s.high) := by
      unfold TokenBuf.putToken; rw [hord, hhigh]
    have hinfo : TokenBuf.putInfo b info = (if s.ordered then (if info.ready then info else { info with token := s.high, ready := true }) else info) := by
      unfold TokenBuf.putInfo; rw [hord, hhigh]
    have hhi : TokenBuf.putHigh b info = (if s.ordered then (if info.ready then s.high else s.high + 1) else s.high + 1) := by
      unfold TokenBuf.putHigh; rw [hord, hhigh]
    simp only [ringMach, specMach]
    rw [← htok, ← hinfo, ← hhi, ← hlow]
    by_cases hlt : TokenBuf.putToken b info < b.low
    · rw [hspec.1 hlt, if_pos hlt]
      exact ⟨rfl, hwf, hord, hlow, hhigh, habs⟩
    · obtain ⟨b', he, hwf', hlow', hord', hhigh', habs'⟩ := hspec.2 (by omega)
      rw [he, if_neg hlt]
      by_cases hne : TokenBuf.putToken b info ≠ b.low
      · rw [if_pos hne]
        refine ⟨by simp [hne], hwf', by rw [hord', hord], by rw [hlow'], hhigh', ?_⟩
        intro t
        rw [habs' t]
        by_cases ht : t = TokenBuf.putToken b info
        · rw [if_pos ⟨hne, ht⟩]; simp [ht]
        · rw [if_neg (fun hh => ht hh.2)]; simp [ht, habs t]
      · rw [if_neg hne]
        refine ⟨by simp [hne], hwf', by rw [hord', hord], by rw [hlow'], hhigh', ?_⟩
        intro t
        rw [habs' t, if_neg (fun hh => hne hh.1)]
        exact habs t
  | done =>
    obtain ⟨h1, h2, h3, h4, h5, h6⟩ := TokenBuf.noteDone_spec b hwf
    simp only [ringMach, specMach]
    refine ⟨by rw [h1, habs, hlow], h2, by rw [h5, hord], by rw [h3, hlow], by rw [h4, hhigh], ?_⟩
    intro t
    rw [h6 t, hlow, habs t]
  | tok =>
    obtain ⟨h1, h2, h3, h4, h5, h6⟩ := TokenBuf.getOrderedToken_spec b hwf
    simp only [ringMach, specMach]
    exact ⟨by rw [h2, hhigh], h1, by rw [h5, hord], by rw [h4, hlow], by rw [h3, hhigh], fun t => by rw [h6]; exact habs t⟩

theorem sim_run (o : Bool) : ∀ (ops : List BufOp) (b : TokenBuf) (s : MapSt), Sim b s →
    ((ringMach o).runFrom b ops).2 = ((specMach o).runFrom s ops).2 ∧
    Sim ((ringMach o).runFrom b ops).1 ((specMach o).runFrom s ops).1 := by
  intro ops
  induction ops with
  | nil => intro b s h; exact ⟨rfl, h⟩
  | cons op ops ih =>
    intro b s h
    obtain ⟨ho, hs⟩ := sim_step o b s op h
    obtain ⟨ho', hs'⟩ := ih _ _ hs
    simp only [Mach.runFrom]
    exact ⟨by rw [ho, ho'], hs'⟩

end TbbVerif.C07
