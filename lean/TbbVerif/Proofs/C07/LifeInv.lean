/- C07 life-cycle lemmas, part 2: the ledger invariant `Core` of the not-yet-returned pipeline and its preservation
by every event (base steps with their create/destroy calls, dispatcher checks, throws, catch blocks, the clean-up of a
cancelled task, external cancellation). -/
import TbbVerif.Proofs.C07.LifeBase

namespace TbbVerif.C07.Life
open TbbVerif.C07

structure Core (c : Cfg) (s : LSt) : Prop where
  binv : BInv c s.base
  phLen : s.ph.length = s.base.tasks.length
  goneC : ∀ (tid : Nat), s.ph[tid]? = some Phase.gone → s.cancelled = true
  goneAlive : ∀ (tid : Nat) (t : Task), s.base.tasks[tid]? = some t → s.ph[tid]? = some Phase.gone → t.pc ≠ .dead
  thr : ∀ (tid : Nat) (t : Task), s.base.tasks[tid]? = some t →
    (s.ph[tid]? = some Phase.thrown ∨ s.ph[tid]? = some Phase.atDisp) → inBodyPc t.pc = true
  /-- `tok i k` has been created iff filter `k` has returned on item `i` and is not the last filter -/
  crt : ∀ (i k : Nat), s.created.count (Obj.tok i k) = if (i ∈ s.base.done k ∧ k + 1 < c.n) then 1 else 0
  /-- it has been destroyed once for the return of filter `k+1` on `i`, and once per clean-up that found it -/
  dst : ∀ (i k : Nat), s.destroyed.count (Obj.tok i k) =
    (if i ∈ s.base.done (k + 1) then 1 else 0) + s.cleaned.count (Obj.tok i k)
  stp : ∀ (j : Nat), s.created.count (Obj.stopVal j) = (if j < s.stops then 1 else 0) ∧
    s.destroyed.count (Obj.stopVal j) = (if j < s.stops then 1 else 0)
  /-- a clean-up found `tok i k` once, in a task that is gone and still stands in front of / inside filter `k+1` -/
  cln : ∀ (i k : Nat), Obj.tok i k ∈ s.cleaned → s.cleaned.count (Obj.tok i k) = 1 ∧ k + 1 < c.n ∧
    ∃ (tid : Nat) (t : Task), s.base.tasks[tid]? = some t ∧ s.ph[tid]? = some Phase.gone ∧ carries t = true ∧
      t.info.item = i ∧ endedOf t = k + 1
  gcl : ∀ (tid : Nat) (t : Task) (o : Obj), s.base.tasks[tid]? = some t → s.ph[tid]? = some Phase.gone →
    heldObj c t = some o → o ∈ s.cleaned
  notRet : s.returned = false
  noLeak : s.leaked = []

theorem core_init {c : Cfg} (hv : c.Valid) : Core c (initL c) := by
  refine ⟨binv_init hv, rfl, ?_, ?_, ?_, ?_, ?_, ?_, ?_, ?_, rfl, rfl⟩
  · intro tid h
    cases tid with
    | zero => simp [initL] at h
    | succ n => simp [initL] at h
  · intro tid t _ h
    cases tid with
    | zero => simp [initL] at h
    | succ n => simp [initL] at h
  · intro tid t _ h
    cases tid with
    | zero => simp [initL] at h
    | succ n => simp [initL] at h
  · intro i k; simp [initL, init]
  · intro i k; simp [initL, init]
  · intro j; simp [initL]
  · intro i k h; simp [initL] at h
  · intro tid t o _ h
    cases tid with
    | zero => simp [initL] at h
    | succ n => simp [initL] at h

/-! ### steps that touch neither the base state nor the ledger -/

theorem core_frame {c : Cfg} {s s' : LSt} (h : Core c s)
    (hb : s'.base = s.base) (hcr : s'.created = s.created) (hd : s'.destroyed = s.destroyed)
    (hcl : s'.cleaned = s.cleaned) (hst : s'.stops = s.stops) (hr : s'.returned = s.returned)
    (hlk : s'.leaked = s.leaked) (hlen : s'.ph.length = s.ph.length)
    (hgone : ∀ (j : Nat), s'.ph[j]? = some Phase.gone ↔ s.ph[j]? = some Phase.gone)
    (hthr : ∀ (j : Nat) (t : Task), s.base.tasks[j]? = some t →
      (s'.ph[j]? = some Phase.thrown ∨ s'.ph[j]? = some Phase.atDisp) → inBodyPc t.pc = true)
    (hc : s.cancelled = true → s'.cancelled = true) : Core c s' := by
  refine ⟨by rw [hb]; exact h.binv, by rw [hlen, hb]; exact h.phLen, ?_, ?_, ?_, ?_, ?_, ?_, ?_, ?_,
    by rw [hr]; exact h.notRet, by rw [hlk]; exact h.noLeak⟩
  · intro tid hg; exact hc (h.goneC tid ((hgone tid).1 hg))
  · intro tid t ht hg; rw [hb] at ht; exact h.goneAlive tid t ht ((hgone tid).1 hg)
  · intro tid t ht hp; rw [hb] at ht; exact hthr tid t ht hp
  · intro i k; rw [hcr, hb]; exact h.crt i k
  · intro i k; rw [hd, hb, hcl]; exact h.dst i k
  · intro j; rw [hcr, hd, hst]; exact h.stp j
  · intro i k hm
    rw [hcl] at hm ⊢
    obtain ⟨h1, h2, tid, t, ht, hg, h3⟩ := h.cln i k hm
    exact ⟨h1, h2, tid, t, by rw [hb]; exact ht, (hgone tid).2 hg, h3⟩
  · intro tid t o ht hg ho
    rw [hb] at ht; rw [hcl]
    exact h.gcl tid t o ht ((hgone tid).1 hg) ho

theorem set_gone_iff {ph : List Phase} {tid j : Nat} {p : Phase} (hp : p ≠ Phase.gone)
    (hold : ph[tid]? ≠ some Phase.gone) : (ph.set tid p)[j]? = some Phase.gone ↔ ph[j]? = some Phase.gone := by
  constructor
  · intro h
    rcases set_get h with ⟨_, he⟩ | ⟨_, ho⟩
    · exact absurd he.symm hp
    · exact ho
  · intro h
    have hj : j ≠ tid := by intro e; subst e; exact hold h
    rw [set_get_other hj]; exact h

/-- the dispatcher found the flag clear / a body threw / the catch block ran: only one task's phase changes -/
theorem core_setPhase {c : Cfg} {s : LSt} (h : Core c s) (tid : Nat) (t : Task) (p : Phase) (canc : Bool)
    (ht : s.base.tasks[tid]? = some t) (hp : p ≠ Phase.gone) (hold : s.ph[tid]? ≠ some Phase.gone)
    (hbody : p = Phase.thrown ∨ p = Phase.atDisp → inBodyPc t.pc = true)
    (hc : s.cancelled = true → canc = true) :
    Core c { s with cancelled := canc, ph := s.ph.set tid p } := by
  refine core_frame h rfl rfl rfl rfl rfl rfl rfl (by simp) (fun j => set_gone_iff hp hold) ?_ hc
  intro j tj htj hq
  have hq' : (s.ph.set tid p)[j]? = some Phase.thrown ∨ (s.ph.set tid p)[j]? = some Phase.atDisp := hq
  rcases hq' with hq' | hq' <;> rcases set_get hq' with ⟨hj, he⟩ | ⟨_, ho⟩
  · subst hj; rw [ht] at htj; cases htj; exact hbody (Or.inl he.symm)
  · exact h.thr j tj htj (Or.inl ho)
  · subst hj; rw [ht] at htj; cases htj; exact hbody (Or.inr he.symm)
  · exact h.thr j tj htj (Or.inr ho)

theorem core_cancel {c : Cfg} {s : LSt} (h : Core c s) : Core c { s with cancelled := true } :=
  core_frame h rfl rfl rfl rfl rfl rfl rfl rfl (fun _ => Iff.rfl) (fun j t ht hp => h.thr j t ht hp) (fun _ => rfl)

/-! ### counting in ledgers -/

theorem count_snoc (l : List Obj) (a b : Obj) : (l ++ [a]).count b = l.count b + if a = b then 1 else 0 := by
  rw [List.count_append, List.count_cons, List.count_nil]
  by_cases h : a = b
  · simp [h]
  · simp [h]

theorem mem_upd_self (f : Nat → List Nat) (k : Nat) (v : List Nat) : upd f k v k = v := by simp [upd]
theorem mem_upd_other (f : Nat → List Nat) (k k' : Nat) (v : List Nat) (h : k' ≠ k) : upd f k v k' = f k' := by
  simp [upd, h]

theorem crt_append {n : Nat} {created : List Obj} {done done' : Nat → List Nat} {i k : Nat}
    (h : ∀ (i' k' : Nat), created.count (Obj.tok i' k') = if (i' ∈ done k' ∧ k' + 1 < n) then 1 else 0)
    (hd : done' = upd done k (done k ++ [i])) (hni : i ∉ done k) :
    ∀ (i' k' : Nat), (created ++ (if k + 1 < n then [Obj.tok i k] else [])).count (Obj.tok i' k') =
      if (i' ∈ done' k' ∧ k' + 1 < n) then 1 else 0 := by
  intro i' k'
  subst hd
  by_cases hk : k' = k
  · subst hk
    rw [mem_upd_self]
    by_cases hi : i' = i
    · subst hi
      have h0 := h i' k'
      rw [if_neg (fun hh => hni hh.1)] at h0
      by_cases hn : k' + 1 < n
      · rw [if_pos hn, count_snoc, h0]; simp [hn]
      · rw [if_neg hn, List.append_nil, h0]; simp [hn]
    · have hne : Obj.tok i k' ≠ Obj.tok i' k' := by intro e; cases e; exact hi rfl
      have h0 := h i' k'
      have hmem : (i' ∈ done k' ++ [i]) ↔ i' ∈ done k' := by simp [hi]
      by_cases hn : k' + 1 < n
      · rw [if_pos hn, count_snoc, if_neg hne, h0]; simp [hmem]
      · rw [if_neg hn, List.append_nil, h0]; simp [hn]
  · rw [mem_upd_other _ _ _ _ hk]
    have hne : Obj.tok i k ≠ Obj.tok i' k' := by intro e; cases e; exact hk rfl
    by_cases hn : k + 1 < n
    · rw [if_pos hn, count_snoc, if_neg hne]; exact h i' k'
    · rw [if_neg hn, List.append_nil]; exact h i' k'

theorem dst_append {destroyed cleaned : List Obj} {done done' : Nat → List Nat} {i k : Nat} (hk1 : 1 ≤ k)
    (h : ∀ (i' k' : Nat), destroyed.count (Obj.tok i' k') = (if i' ∈ done (k' + 1) then 1 else 0) + cleaned.count (Obj.tok i' k'))
    (hd : done' = upd done k (done k ++ [i])) (hni : i ∉ done k) :
    ∀ (i' k' : Nat), (destroyed ++ [Obj.tok i (k - 1)]).count (Obj.tok i' k') =
      (if i' ∈ done' (k' + 1) then 1 else 0) + cleaned.count (Obj.tok i' k') := by
  intro i' k'
  subst hd
  rw [count_snoc, h i' k']
  by_cases hk : k' + 1 = k
  · subst hk
    rw [mem_upd_self]
    by_cases hi : i' = i
    · subst hi
      simp [hni]; omega
    · have hne : ¬ (Obj.tok i (k' + 1 - 1) = Obj.tok i' k') := by intro e; cases e; exact hi rfl
      rw [if_neg hne]
      have hmem : (i' ∈ done (k' + 1) ++ [i]) ↔ i' ∈ done (k' + 1) := by simp [hi]
      simp [hmem]
  · rw [mem_upd_other _ _ _ _ hk]
    have hne : ¬ (Obj.tok i (k - 1) = Obj.tok i' k') := by intro e; cases e; omega
    rw [if_neg hne]; rfl

/-! ### a step of the base model -/

theorem baseStep_fields (c : Cfg) (s : LSt) (tid : Nat) :
    (baseStep c s tid).1.base = (stepL c s.base tid).1 ∧
    (baseStep c s tid).1.ph = syncPh (s.ph.set tid .run) (stepL c s.base tid).1.tasks.length ∧
    (baseStep c s tid).1.cancelled = s.cancelled ∧ (baseStep c s tid).1.cleaned = s.cleaned ∧
    (baseStep c s tid).1.returned = s.returned ∧ (baseStep c s tid).1.leaked = s.leaked := by
  unfold baseStep
  simp only []
  split <;> (try split) <;> simp

theorem baseStep_iendSome {c : Cfg} {s : LSt} {tid i : Nat} (hl : (stepL c s.base tid).2 = .iend (some i)) :
    (baseStep c s tid).1.created = s.created ++ (if 0 + 1 < c.n then [Obj.tok i 0] else []) ∧
    (baseStep c s tid).1.destroyed = s.destroyed ∧ (baseStep c s tid).1.stops = s.stops := by
  unfold baseStep
  simp only [hl]
  split <;> simp_all

theorem baseStep_iendNone {c : Cfg} {s : LSt} {tid : Nat} (hl : (stepL c s.base tid).2 = .iend none) :
    ((baseStep c s tid).1.created = s.created ++ [Obj.stopVal s.stops] ∧
     (baseStep c s tid).1.destroyed = s.destroyed ++ [Obj.stopVal s.stops] ∧ (baseStep c s tid).1.stops = s.stops + 1) ∨
    ((baseStep c s tid).1.created = s.created ∧ (baseStep c s tid).1.destroyed = s.destroyed ∧
     (baseStep c s tid).1.stops = s.stops) := by
  unfold baseStep
  simp only [hl]
  split <;> simp_all

theorem baseStep_fend {c : Cfg} {s : LSt} {tid k i : Nat} (hl : (stepL c s.base tid).2 = .fend k i) :
    (baseStep c s tid).1.created = s.created ++ (if k + 1 < c.n then [Obj.tok i k] else []) ∧
    (baseStep c s tid).1.destroyed = s.destroyed ++ [Obj.tok i (k - 1)] ∧ (baseStep c s tid).1.stops = s.stops := by
  unfold baseStep
  simp only [hl]
  split <;> simp_all

theorem baseStep_quiet {c : Cfg} {s : LSt} {tid : Nat} (h1 : ∀ i, (stepL c s.base tid).2 ≠ .iend i)
    (h2 : ∀ k i, (stepL c s.base tid).2 ≠ .fend k i) :
    (baseStep c s tid).1.created = s.created ∧ (baseStep c s tid).1.destroyed = s.destroyed ∧
    (baseStep c s tid).1.stops = s.stops := by
  unfold baseStep
  cases hl : (stepL c s.base tid).2 with
  | iend i => exact absurd hl (h1 i)
  | fend k i => exact absurd hl (h2 k i)
  | _ => simp [hl]

theorem core_baseStep {c : Cfg} (hv : c.Valid) {s : LSt} (h : Core c s) (tid : Nat)
    (hph : s.ph[tid]? ≠ some Phase.gone) : Core c (baseStep c s tid).1 := by
  obtain ⟨fb, fph, fc, fcl, fr, fl⟩ := baseStep_fields c s tid
  have hB' : BInv c (stepL c s.base tid).1 := binv_step hv h.binv tid
  have hlen := stepL_len c s.base tid
  have hother : ∀ (j : Nat) (p : Phase), (baseStep c s tid).1.ph[j]? = some p → p ≠ Phase.run →
      j ≠ tid ∧ s.ph[j]? = some p := by
    intro j p hj hp; rw [fph] at hj; exact syncPh_get_ne_run hj hp
  have htask : ∀ (j : Nat) (p : Phase), (baseStep c s tid).1.ph[j]? = some p → p ≠ Phase.run →
      (baseStep c s tid).1.base.tasks[j]? = s.base.tasks[j]? := by
    intro j p hj hp
    obtain ⟨hne, hold⟩ := hother j p hj hp
    have hlt : j < s.base.tasks.length := by
      rw [← h.phLen]
      rcases Nat.lt_or_ge j s.ph.length with h1 | h1
      · exact h1
      · rw [List.getElem?_eq_none h1] at hold; cases hold
    rw [fb]; exact stepL_other c s.base tid j hne hlt
  have hdone := stepL_done c s.base tid
  have hcrt_dst_stp :
      (∀ (i k : Nat), (baseStep c s tid).1.created.count (Obj.tok i k) =
        if (i ∈ (stepL c s.base tid).1.done k ∧ k + 1 < c.n) then 1 else 0) ∧
      (∀ (i k : Nat), (baseStep c s tid).1.destroyed.count (Obj.tok i k) =
        (if i ∈ (stepL c s.base tid).1.done (k + 1) then 1 else 0) + s.cleaned.count (Obj.tok i k)) ∧
      (∀ (j : Nat), (baseStep c s tid).1.created.count (Obj.stopVal j) = (if j < (baseStep c s tid).1.stops then 1 else 0) ∧
        (baseStep c s tid).1.destroyed.count (Obj.stopVal j) = (if j < (baseStep c s tid).1.stops then 1 else 0)) := by
    cases hl : (stepL c s.base tid).2 with
    | iend oi =>
      cases oi with
      | some i =>
        rw [hl] at hdone; simp only [] at hdone
        obtain ⟨e1, e2, e3⟩ := baseStep_iendSome hl
        have hnd := hB'.2.2.2.1.doneNd 0
        rw [hdone, mem_upd_self] at hnd
        have hni : i ∉ s.base.done 0 := by
          intro hm
          have := List.nodup_append.1 hnd
          exact this.2.2 i hm i (by simp) rfl
        refine ⟨?_, ?_, ?_⟩
        · rw [e1]; exact crt_append h.crt hdone hni
        · intro i' k'
          rw [e2, hdone, mem_upd_other _ _ _ _ (by omega)]; exact h.dst i' k'
        · intro j
          rw [e1, e3, e2]
          refine ⟨?_, (h.stp j).2⟩
          rw [← (h.stp j).1]
          by_cases hn : 0 + 1 < c.n
          · rw [if_pos hn, count_snoc, if_neg (by intro e; cases e)]; rfl
          · rw [if_neg hn, List.append_nil]
      | none =>
        rw [hl] at hdone; simp only [] at hdone
        refine ⟨?_, ?_, ?_⟩
        · intro i k
          rcases baseStep_iendNone hl with ⟨e1, _, _⟩ | ⟨e1, _, _⟩
          · rw [e1, count_snoc, if_neg (by intro e; cases e), hdone]; exact h.crt i k
          · rw [e1, hdone]; exact h.crt i k
        · intro i k
          rcases baseStep_iendNone hl with ⟨_, e2, _⟩ | ⟨_, e2, _⟩
          · rw [e2, count_snoc, if_neg (by intro e; cases e), hdone]; exact h.dst i k
          · rw [e2, hdone]; exact h.dst i k
        · intro j
          rcases baseStep_iendNone hl with ⟨e1, e2, e3⟩ | ⟨e1, e2, e3⟩
          · rw [e1, e2, e3, count_snoc, count_snoc, (h.stp j).1, (h.stp j).2]
            by_cases hj : j = s.stops
            · subst hj; simp
            · have : ¬ (Obj.stopVal s.stops = Obj.stopVal j) := by intro e; cases e; exact hj rfl
              rw [if_neg this]
              by_cases hlt : j < s.stops
              · simp [hlt]; omega
              · simp [hlt]; omega
          · rw [e1, e2, e3]; exact h.stp j
    | fend k i =>
      rw [hl] at hdone; simp only [] at hdone
      obtain ⟨e1, e2, e3⟩ := baseStep_fend hl
      obtain ⟨t, ht, hpc, hst, _⟩ := stepL_fend hl
      have hk1 : 1 ≤ k := by
        have := (h.binv.1.stage tid t ht).2.1 (by simp [midPc, hpc]); omega
      have hnd := hB'.2.2.2.1.doneNd k
      rw [hdone, mem_upd_self] at hnd
      have hni : i ∉ s.base.done k := by
        intro hm
        have := List.nodup_append.1 hnd
        exact this.2.2 i hm i (by simp) rfl
      refine ⟨?_, ?_, ?_⟩
      · rw [e1]; exact crt_append h.crt hdone hni
      · rw [e2]; exact dst_append hk1 h.dst hdone hni
      · intro j
        rw [e1, e2, e3]
        have hd0 : (s.destroyed ++ [Obj.tok i (k - 1)]).count (Obj.stopVal j) = s.destroyed.count (Obj.stopVal j) := by
          rw [count_snoc, if_neg (by intro e; cases e)]; rfl
        rw [hd0]
        refine ⟨?_, (h.stp j).2⟩
        rw [← (h.stp j).1]
        by_cases hn : k + 1 < c.n
        · rw [if_pos hn, count_snoc, if_neg (by intro e; cases e)]; rfl
        · rw [if_neg hn, List.append_nil]
    | _ =>
      all_goals
        obtain ⟨e1, e2, e3⟩ := baseStep_quiet (c := c) (s := s) (tid := tid) (by rw [hl]; intro i e; cases e) (by rw [hl]; intro k i e; cases e)
        rw [hl] at hdone; simp only [] at hdone
        rw [e1, e2, e3, hdone]
        exact ⟨h.crt, h.dst, h.stp⟩
  obtain ⟨hcrt, hdst, hstp⟩ := hcrt_dst_stp
  refine ⟨by rw [fb]; exact hB', ?_, ?_, ?_, ?_, ?_, ?_, hstp, ?_, ?_, by rw [fr]; exact h.notRet, by rw [fl]; exact h.noLeak⟩
  · rw [fph, fb]; exact syncPh_length _ _ (by rw [List.length_set, h.phLen]; exact hlen)
  · intro j hg
    rw [fc]; exact h.goneC j (hother j _ hg (by decide)).2
  · intro j t ht hg
    rw [htask j _ hg (by decide)] at ht
    exact h.goneAlive j t ht (hother j _ hg (by decide)).2
  · intro j t ht hp
    rcases hp with hp | hp
    · rw [htask j _ hp (by decide)] at ht
      exact h.thr j t ht (Or.inl (hother j _ hp (by decide)).2)
    · rw [htask j _ hp (by decide)] at ht
      exact h.thr j t ht (Or.inr (hother j _ hp (by decide)).2)
  · intro i k; rw [fb]; exact hcrt i k
  · intro i k; rw [fb, fcl]; exact hdst i k
  · intro i k hm
    rw [fcl] at hm ⊢
    obtain ⟨h1, h2, j, t, ht, hg, h3⟩ := h.cln i k hm
    have hj : j ≠ tid := by intro e; subst e; exact hph hg
    have hg' : (baseStep c s tid).1.ph[j]? = some Phase.gone := by rw [fph]; exact syncPh_get_other hj hg
    exact ⟨h1, h2, j, t, by rw [htask j _ hg' (by decide)]; exact ht, hg', h3⟩
  · intro j t o ht hg ho
    rw [htask j _ hg (by decide)] at ht
    rw [fcl]; exact h.gcl j t o ht (hother j _ hg (by decide)).2 ho

/-! ### the clean-up of a cancelled task -/

theorem core_finalize {c : Cfg} {s : LSt} (h : Core c s) (tid : Nat) (t : Task) (ht : s.base.tasks[tid]? = some t)
    (hold : s.ph[tid]? ≠ some Phase.gone) (hlt : tid < s.ph.length) (hc : s.cancelled = true)
    (halive : t.pc ≠ .dead) : Core c (finalize c s tid t).1 := by
  have hgoneIff : ∀ (j : Nat), (s.ph.set tid Phase.gone)[j]? = some Phase.gone ↔ (j = tid ∨ s.ph[j]? = some Phase.gone) := by
    intro j
    constructor
    · intro hh
      rcases set_get hh with ⟨hj, _⟩ | ⟨_, ho⟩
      · exact Or.inl hj
      · exact Or.inr ho
    · intro hh
      by_cases hj : j = tid
      · subst hj; exact set_get_self hlt
      · rw [set_get_other hj]; rcases hh with hh | hh
        · exact absurd hh hj
        · exact hh
  have hthr' : ∀ (j : Nat) (tj : Task), s.base.tasks[j]? = some tj →
      ((s.ph.set tid Phase.gone)[j]? = some Phase.thrown ∨ (s.ph.set tid Phase.gone)[j]? = some Phase.atDisp) →
      inBodyPc tj.pc = true := by
    intro j tj htj hq
    rcases hq with hq | hq <;> rcases set_get hq with ⟨_, he⟩ | ⟨_, ho⟩
    · cases he
    · exact h.thr j tj htj (Or.inl ho)
    · cases he
    · exact h.thr j tj htj (Or.inr ho)
  unfold finalize
  cases ho : heldObj c t with
  | none =>
    simp only []
    refine ⟨h.binv, by simp [h.phLen], fun _ _ => hc, ?_, hthr', h.crt, h.dst, h.stp, ?_, ?_, h.notRet, h.noLeak⟩
    · intro j tj htj hg
      rcases (hgoneIff j).1 hg with hj | hg'
      · subst hj; rw [ht] at htj; cases htj; exact halive
      · exact h.goneAlive j tj htj hg'
    · intro i k hm
      obtain ⟨h1, h2, j, tj, htj, hg, h3⟩ := h.cln i k hm
      exact ⟨h1, h2, j, tj, htj, (hgoneIff j).2 (Or.inr hg), h3⟩
    · intro j tj o htj hg hoj
      rcases (hgoneIff j).1 hg with hj | hg'
      · subst hj; rw [ht] at htj; cases htj; rw [ho] at hoj; cases hoj
      · exact h.gcl j tj o htj hg' hoj
  | some o =>
    simp only []
    obtain ⟨he1, he2, hoeq⟩ := heldObj_some ho
    have hcar := carries_of_ended he1
    -- the object was not cleaned before: its cleaner would be another gone task carrying the same item
    have hnew : o ∉ s.cleaned := by
      intro hm
      rw [hoeq] at hm
      obtain ⟨_, _, j, tj, htj, hg, hcj, hij, _⟩ := h.cln _ _ hm
      have := carry_inj h.binv.1 htj ht hcj hcar hij
      subst this
      exact hold hg
    refine ⟨h.binv, by simp [h.phLen], fun _ _ => hc, ?_, hthr', h.crt, ?_, ?_, ?_, ?_, h.notRet, h.noLeak⟩
    · intro j tj htj hg
      rcases (hgoneIff j).1 hg with hj | hg'
      · subst hj; rw [ht] at htj; cases htj; exact halive
      · exact h.goneAlive j tj htj hg'
    · intro i k
      show (s.destroyed ++ [o]).count (Obj.tok i k) =
        (if i ∈ s.base.done (k + 1) then 1 else 0) + (s.cleaned ++ [o]).count (Obj.tok i k)
      rw [count_snoc, count_snoc, h.dst i k]; omega
    · intro j
      show _ ∧ (s.destroyed ++ [o]).count (Obj.stopVal j) = _
      refine ⟨(h.stp j).1, ?_⟩
      rw [count_snoc, if_neg (by rw [hoeq]; intro e; cases e)]; exact (h.stp j).2
    · intro i k hm
      have hm' : Obj.tok i k ∈ s.cleaned ++ [o] := hm
      show (s.cleaned ++ [o]).count (Obj.tok i k) = 1 ∧ _
      rw [count_snoc]
      by_cases hio : o = Obj.tok i k
      · have h0 : s.cleaned.count (Obj.tok i k) = 0 := by
          rw [List.count_eq_zero]; rw [← hio]; exact hnew
        rw [h0, if_pos hio]
        rw [hoeq] at hio
        cases hio
        refine ⟨rfl, by omega, tid, t, ht, (hgoneIff tid).2 (Or.inl rfl), hcar, rfl, by omega⟩
      · have hmold : Obj.tok i k ∈ s.cleaned := by
          rcases List.mem_append.1 hm' with hh | hh
          · exact hh
          · simp at hh; exact absurd hh.symm hio
        obtain ⟨h1, h2, j, tj, htj, hg, h3⟩ := h.cln i k hmold
        rw [if_neg hio]
        exact ⟨by omega, h2, j, tj, htj, (hgoneIff j).2 (Or.inr hg), h3⟩
    · intro j tj o' htj hg hoj
      show o' ∈ s.cleaned ++ [o]
      rcases (hgoneIff j).1 hg with hj | hg'
      · subst hj; rw [ht] at htj; cases htj; rw [ho] at hoj; cases hoj; simp
      · exact List.mem_append_left _ (h.gcl j tj o' htj hg' hoj)

end TbbVerif.C07.Life
