/- C07 helper lemmas, part 17: token numbers vs. progress through the ordered filters (needed for
"no assertion fails" and for "nothing stays parked"). -/
import TbbVerif.Proofs.C07.InvDStep

namespace TbbVerif.C07

/-- number of filters the item has completely left (for a serial filter: its note-done is done) -/
def left (c : Cfg) (s : St) (i : Nat) : Nat :=
  match s.loc[i]? with
  | some .retired => c.n
  | some (.parked j _) => j
  | some (.task tid) => (match s.tasks[tid]? with | some t => t.stage | none => 0)
  | none => 0

structure InvE (c : Cfg) (s : St) : Prop where
  /-- an item occurs in the numbering only under the token its holder carries -/
  n3T : ∀ (tid : Nat) (t : Task), s.tasks[tid]? = some t → carries t = true →
    ∀ tok, s.numbered[tok]? = some t.info.item → t.info.ready = true ∧ t.info.token = tok
  n3P : ∀ (k tok' : Nat) (info : Info), (s.bufs k).abs tok' = some info →
    ∀ tok, s.numbered[tok]? = some info.item → info.ready = true ∧ info.token = tok
  numLt : ∀ (tok i : Nat), s.numbered[tok]? = some i → i < s.produced
  /-- `low_token` of an ordered filter separates the tokens that have left it from those that have not -/
  lowSep : ∀ (k tok i : Nat), (c.mode k).ordered = true → 1 ≤ k → s.numbered[tok]? = some i →
    (tok < (s.bufs k).low ↔ k < left c s i)
  locParked : ∀ (i k tok : Nat), s.loc[i]? = some (.parked k tok) →
    ∃ info, (s.bufs k).abs tok = some info ∧ info.item = i
  parkedStage : ∀ (k tok : Nat) (info : Info), (s.bufs k).abs tok = some info →
    1 ≤ k ∧ k < c.n ∧ (c.mode k).serial = true
  noErr : s.err = false

theorem left_of_task {c : Cfg} {s : St} {i tid : Nat} {x : Task} (h1 : s.loc[i]? = some (.task tid))
    (h2 : s.tasks[tid]? = some x) : left c s i = x.stage := by
  unfold left; simp only [h1, h2]

theorem left_of_parked {c : Cfg} {s : St} {i j tok : Nat} (h1 : s.loc[i]? = some (.parked j tok)) :
    left c s i = j := by
  unfold left; simp only [h1]

theorem left_of_retired {c : Cfg} {s : St} {i : Nat} (h1 : s.loc[i]? = some .retired) : left c s i = c.n := by
  unfold left; simp only [h1]

theorem left_of_none {c : Cfg} {s : St} {i : Nat} (h1 : s.loc[i]? = none) : left c s i = 0 := by
  unfold left; simp only [h1]

theorem left_other {c : Cfg} {s s' : St} {tid : Nat} {t t' : Task} {extra : List Task} (hA : InvA c s)
    (ht : s.tasks[tid]? = some t) (htasks : s'.tasks = (s.tasks ++ extra).set tid t')
    (i : Nat) (hloc_i : s'.loc[i]? = s.loc[i]?) (hne : s.loc[i]? ≠ some (.task tid)) :
    left c s' i = left c s i := by
  unfold left; rw [hloc_i]
  cases hl : s.loc[i]? with
  | none => rfl
  | some l =>
    cases l with
    | retired => rfl
    | parked j tok => rfl
    | task tid' =>
      obtain ⟨x, hx, _, _⟩ := hA.locTask i tid' hl
      have hj : tid' ≠ tid := by intro e; subst e; exact hne hl
      have : s'.tasks[tid']? = some x := by rw [htasks, get_set_append_other hj (lt_of_getElem? hx)]; exact hx
      simp only [hx, this]

/-- all tasks dead ⇒ nothing is parked (by induction on the filter index) -/
theorem no_parked_of_all_dead {c : Cfg} {s : St} (hA : InvA c s) (hC : InvC c s) (hE : InvE c s)
    (hdead : ∀ (tid : Nat) (t : Task), s.tasks[tid]? = some t → t.pc = .dead) :
    ∀ (k tok : Nat) (info : Info), (s.bufs k).abs tok ≠ some info := by
  have hnocarry : ∀ (tid : Nat) (t : Task), s.tasks[tid]? = some t → carries t = false := by
    intro tid t ht; simp [carries, carriesPc, hdead tid t ht]
  intro k
  induction k using Nat.strongRecOn with
  | _ k ih =>
    intro tok info ha
    obtain ⟨hk1, hkn, hser⟩ := hE.parkedStage k tok info ha
    cases ho : (c.mode k).ordered with
    | false =>
      have hin := hC.oooIn k tok info hser ho ha
      have hex := hC.oooEx k hser ho (by omega)
      obtain ⟨j, x, hx, hox⟩ := exists_of_countP_pos _ _ hex
      have := own_carries k x hox
      rw [hnocarry j x hx] at this; cases this
    | true =>
      obtain ⟨hr, htk⟩ := hC.ordSlot k tok info ho ha
      have hnum := hC.numP k tok info ha hr
      rw [htk] at hnum
      have hlow : (s.bufs k).low < tok := by
        rcases Nat.lt_or_ge (s.bufs k).low tok with h | h
        · exact h
        · rw [TokenBuf.abs_le_low _ (hA.bufWF k) tok h] at ha; cases ha
      have hlen := lt_of_getElem? hnum
      -- the item whose turn it is at filter k
      have hi0 : ∃ i0, s.numbered[(s.bufs k).low]? = some i0 := by
        have : (s.bufs k).low < s.numbered.length := by omega
        exact ⟨s.numbered[(s.bufs k).low], by simp [this]⟩
      obtain ⟨i0, hi0⟩ := hi0
      have hsep := hE.lowSep k _ i0 ho hk1 hi0
      have hleft : left c s i0 ≤ k := by
        rcases Nat.lt_or_ge k (left c s i0) with h | h
        · have := hsep.2 h; omega
        · exact h
      have hlt := hE.numLt _ _ hi0
      have hloc : ∃ l, s.loc[i0]? = some l := by
        have : i0 < s.loc.length := by rw [hA.locLen]; exact hlt
        exact ⟨s.loc[i0], by simp [this]⟩
      obtain ⟨l, hl⟩ := hloc
      cases l with
      | retired => rw [left_of_retired hl] at hleft; omega
      | task tid' =>
        obtain ⟨x, hx, hcx, _⟩ := hA.locTask i0 tid' hl
        rw [hnocarry tid' x hx] at hcx; cases hcx
      | parked j tok' =>
        rw [left_of_parked hl] at hleft
        obtain ⟨info', ha', hitem⟩ := hE.locParked i0 j tok' hl
        rcases Nat.lt_or_ge j k with hjk | hjk
        · exact ih j hjk tok' info' ha'
        · have hjk' : j = k := by omega
          subst hjk'
          obtain ⟨_, ht'⟩ := hC.ordSlot j tok' info' ho ha'
          have := (hE.n3P j tok' info' ha' _ (by rw [hitem]; exact hi0)).2
          rw [ht'] at this
          rw [this, TokenBuf.abs_le_low _ (hA.bufWF j) _ (Nat.le_refl _)] at ha'
          cases ha'

end TbbVerif.C07
