/- C07 helper lemmas, part 16: `InvD` is inductive (given `InvA`). -/
import TbbVerif.Proofs.C07.InvD

namespace TbbVerif.C07

theorem begun_of_task {c : Cfg} {s : St} {i tid : Nat} {x : Task} (h1 : s.loc[i]? = some (.task tid))
    (h2 : s.tasks[tid]? = some x) : begun c s i = taskBegun x ∧ ended c s i = taskEnded x := by
  unfold begun ended; simp only [h1, h2]; exact ⟨trivial, trivial⟩

theorem begun_of_parked {c : Cfg} {s : St} {i j tok : Nat} (h1 : s.loc[i]? = some (.parked j tok)) :
    begun c s i = j ∧ ended c s i = j := by
  unfold begun ended; simp only [h1]; exact ⟨trivial, trivial⟩

theorem begun_of_retired {c : Cfg} {s : St} {i : Nat} (h1 : s.loc[i]? = some .retired) :
    begun c s i = c.n ∧ ended c s i = c.n := by
  unfold begun ended; simp only [h1]; exact ⟨trivial, trivial⟩

theorem begun_of_none {c : Cfg} {s : St} {i : Nat} (h1 : s.loc[i]? = none) :
    begun c s i = 0 ∧ ended c s i = 0 := by
  unfold begun ended; simp only [h1]; exact ⟨trivial, trivial⟩

theorem seen_upd_iff (f : Nat → List Nat) (k0 x : Nat) (k : Nat) (P : Prop) [Decidable P] (h : P ↔ k = k0) :
    upd f k0 (f k0 ++ [x]) k = if P then f k ++ [x] else f k := by
  by_cases hk : k = k0
  · subst hk; rw [upd_same, if_pos (h.2 rfl)]
  · rw [upd_other _ _ _ _ hk, if_neg (fun hp => hk (h.1 hp))]

/-- the input filter returned item `s.produced` -/
theorem invD_produce {c : Cfg} {s : St} {tid : Nat} {t : Task} (hv : c.Valid) (hA : InvA c s) (hD : InvD c s)
    (ht : s.tasks[tid]? = some t) (hnc : carries t = false) (s' : St) (t' : Task) (l : Loc)
    (hloc : s'.loc = s.loc ++ [l]) (htasks : s'.tasks = s.tasks.set tid t')
    (hseen : s'.seen = upd s.seen 0 (s.seen 0 ++ [s.produced]))
    (hdone : s'.done = upd s.done 0 (s.done 0 ++ [s.produced]))
    (hl : (l = .task tid ∧ taskBegun t' = 1 ∧ taskEnded t' = 1) ∨ (l = .retired ∧ c.n = 1)) : InvD c s' := by
  have htid := lt_of_getElem? ht
  have hlen := hA.locLen
  have hold : begun c s s.produced = 0 ∧ ended c s s.produced = 0 :=
    begun_of_none (List.getElem?_eq_none (by omega))
  have hnewloc : s'.loc[s.produced]? = some l := by
    rw [hloc, List.getElem?_append, if_neg (by omega), hlen]; simp
  have hnew : begun c s' s.produced = 1 ∧ ended c s' s.produced = 1 := by
    rcases hl with ⟨rfl, h1, h2⟩ | ⟨rfl, hn⟩
    · have := begun_of_task (c := c) hnewloc (by rw [htasks]; exact getElem?_set_self' _ _ _ htid)
      rw [h1, h2] at this; exact this
    · have := begun_of_retired (c := c) hnewloc
      rw [hn] at this; exact this
  refine invD_one hD s.produced ?_ (by omega) (by omega) ?_ ?_
  · intro i hi
    have htasks' : s'.tasks = (s.tasks ++ []).set tid t' := by simpa using htasks
    refine begun_other hA ht htasks' i ?_ (not_mine_of_idle hA ht hnc i)
    rw [hloc, List.getElem?_append]
    split
    · rfl
    · rename_i hge
      rw [List.getElem?_eq_none (by omega : s.loc.length ≤ i)]
      rw [List.getElem?_eq_none (by simp; omega)]
  · intro k; rw [hseen, hnew.1, hold.1]
    exact seen_upd_iff _ _ _ _ _ (by omega)
  · intro k; rw [hdone, hnew.2, hold.2]
    exact seen_upd_iff _ _ _ _ _ (by omega)

theorem invD_err {c : Cfg} {s : St} (hD : InvD c s) : InvD c { s with err := true } :=
  invD_same hD rfl rfl (fun _ => rfl) (fun _ => rfl)

theorem invD_call {c : Cfg} {s : St} {tid : Nat} {t : Task} (hA : InvA c s) (hD : InvD c s)
    (ht : s.tasks[tid]? = some t) (hpc : t.pc = .call) :
    InvD c { setTask s tid { t with pc := .inFilter } with seen := upd s.seen t.stage (s.seen t.stage ++ [t.info.item]) } := by
  have htid := lt_of_getElem? ht
  have hc : carries t = true := by simp [carries, carriesPc, hpc]
  have hmine := hA.carry tid t ht hc
  have hold := begun_of_task (c := c) hmine ht
  simp only [taskBegun, taskEnded, hpc] at hold
  have hnew : begun c { setTask s tid { t with pc := .inFilter } with seen := upd s.seen t.stage (s.seen t.stage ++ [t.info.item]) } t.info.item = t.stage + 1 ∧
      ended c { setTask s tid { t with pc := .inFilter } with seen := upd s.seen t.stage (s.seen t.stage ++ [t.info.item]) } t.info.item = t.stage := by
    have := begun_of_task (c := c) (s := { setTask s tid { t with pc := .inFilter } with seen := upd s.seen t.stage (s.seen t.stage ++ [t.info.item]) })
      (i := t.info.item) (tid := tid) (x := { t with pc := .inFilter }) hmine (getElem?_set_self' _ _ _ htid)
    simpa [taskBegun, taskEnded] using this
  refine invD_one hD t.info.item ?_ (by rw [hnew.1, hold.1]; omega) (by rw [hnew.2, hold.2]; omega) ?_ ?_
  · intro i hi
    exact begun_other hA ht (t' := { t with pc := .inFilter }) (extra := []) (by simp [setTask]) i rfl (not_mine_of_ne hA ht i hi)
  · intro k; rw [hnew.1, hold.1]
    exact seen_upd_iff _ _ _ _ _ (by omega)
  · intro k; rw [hnew.2, hold.2]
    rw [if_neg (by omega)]
    rfl

/-- the states reached by the end of a filter invocation -/
theorem invD_inFilter {c : Cfg} {s : St} {tid : Nat} {t : Task} (hA : InvA c s) (hD : InvD c s)
    (ht : s.tasks[tid]? = some t) (hpc : t.pc = .inFilter) (s' : St) (t' : Task)
    (hseen : s'.seen = s.seen) (hdone : s'.done = upd s.done t.stage (s.done t.stage ++ [t.info.item]))
    (htasks : s'.tasks = s.tasks.set tid t')
    (hcase : (s'.loc = s.loc ∧ taskBegun t' = t.stage + 1 ∧ taskEnded t' = t.stage + 1 ∧ carries t' = true) ∨
             (s'.loc = s.loc.set t.info.item .retired ∧ t.stage + 1 = c.n)) : InvD c s' := by
  have htid := lt_of_getElem? ht
  have hc : carries t = true := by simp [carries, carriesPc, hpc]
  have hmine := hA.carry tid t ht hc
  have hold := begun_of_task (c := c) hmine ht
  simp only [taskBegun, taskEnded, hpc] at hold
  have hnew : begun c s' t.info.item = t.stage + 1 ∧ ended c s' t.info.item = t.stage + 1 := by
    rcases hcase with ⟨hl, h1, h2, _⟩ | ⟨hl, hn⟩
    · have := begun_of_task (c := c) (s := s') (i := t.info.item) (tid := tid) (x := t') (by rw [hl]; exact hmine)
        (by rw [htasks]; exact getElem?_set_self' _ _ _ htid)
      rw [h1, h2] at this; exact this
    · have := begun_of_retired (c := c) (s := s') (i := t.info.item)
        (by rw [hl]; exact getElem?_set_self' _ _ _ (lt_of_getElem? hmine))
      rw [← hn] at this; exact this
  refine invD_one hD t.info.item ?_ (by rw [hnew.1, hold.1]; omega) (by rw [hnew.2, hold.2]; omega) ?_ ?_
  · intro i hi
    refine begun_other hA ht (t' := t') (extra := []) (by simpa using htasks) i ?_ (not_mine_of_ne hA ht i hi)
    rcases hcase with ⟨hl, _⟩ | ⟨hl, _⟩
    · rw [hl]
    · rw [hl, getElem?_set_ne' _ _ _ _ (fun e => hi e.symm)]
  · intro k; rw [hnew.1, hold.1, hseen]
    rw [if_neg (by omega)]
  · intro k; rw [hnew.2, hold.2, hdone]
    exact seen_upd_iff _ _ _ _ _ (by omega)

theorem invD_park {c : Cfg} {s : St} {tid : Nat} {t : Task} (hA : InvA c s) (hD : InvD c s)
    (ht : s.tasks[tid]? = some t) (hpc : t.pc = .put) (s' : St) (tok : Nat)
    (hseen : s'.seen = s.seen) (hdone : s'.done = s.done)
    (htasks : s'.tasks = s.tasks.set tid { pc := .dead })
    (hloc : s'.loc = s.loc.set t.info.item (.parked t.stage tok)) : InvD c s' := by
  have hc : carries t = true := by simp [carries, carriesPc, hpc]
  have hmine := hA.carry tid t ht hc
  have hold := begun_of_task (c := c) hmine ht
  simp only [taskBegun, taskEnded, hpc] at hold
  have hnew := begun_of_parked (c := c) (s := s') (i := t.info.item) (j := t.stage) (tok := tok)
    (by rw [hloc]; exact getElem?_set_self' _ _ _ (lt_of_getElem? hmine))
  have key : ∀ i, begun c s' i = begun c s i ∧ ended c s' i = ended c s i := by
    intro i
    by_cases hi : i = t.info.item
    · subst hi; rw [hnew.1, hnew.2, hold.1, hold.2]; exact ⟨rfl, rfl⟩
    · exact begun_other hA ht (t' := { pc := .dead }) (extra := []) (by simpa using htasks) i
        (by rw [hloc, getElem?_set_ne' _ _ _ _ (fun e => hi e.symm)]) (not_mine_of_ne hA ht i hi)
  exact invD_same hD hseen hdone (fun i => (key i).1) (fun i => (key i).2)

theorem invD_noteDone {c : Cfg} {s : St} {tid : Nat} {t : Task} (hA : InvA c s) (hD : InvD c s)
    (ht : s.tasks[tid]? = some t) (hpc : t.pc = .noteDone) (s' : St) (extra : List Task)
    (hseen : s'.seen = s.seen) (hdone : s'.done = s.done)
    (htasks : s'.tasks = (s.tasks ++ extra).set tid (advance c t))
    (hcase : (extra = [] ∧ s'.loc = locDone c s t) ∨
      (∃ w, extra = [({ pc := .call, stage := t.stage, info := w } : Task)] ∧
        s'.loc = (locDone c s t).set w.item (.task s.tasks.length) ∧
        (s.bufs t.stage).abs ((s.bufs t.stage).low + 1) = some w)) : InvD c s' := by
  have htid := lt_of_getElem? ht
  have hc : carries t = true := by simp [carries, carriesPc, hpc]
  have hmine := hA.carry tid t ht hc
  have hmid := (hA.stage tid t ht).2.1 (by simp [midPc, hpc])
  have hold := begun_of_task (c := c) hmine ht
  simp only [taskBegun, taskEnded, hpc] at hold
  -- the location list before a possible release
  have hld_t : (locDone c s t)[t.info.item]? = if t.stage + 1 = c.n then some .retired else some (.task tid) := by
    unfold locDone; split
    · exact getElem?_set_self' _ _ _ (lt_of_getElem? hmine)
    · exact hmine
  have hld_o : ∀ i, i ≠ t.info.item → (locDone c s t)[i]? = s.loc[i]? := by
    intro i hi; unfold locDone; split
    · exact getElem?_set_ne' _ _ _ _ (fun e => hi e.symm)
    · rfl
  -- the stepping task's own item
  have hmine' : s'.loc[t.info.item]? = if t.stage + 1 = c.n then some .retired else some (.task tid) := by
    rcases hcase with ⟨_, hl⟩ | ⟨w, _, hl, hw⟩
    · rw [hl]; exact hld_t
    · have hne : t.info.item ≠ w.item := carry_ne_parked hA ht hc hw
      rw [hl, getElem?_set_ne' _ _ _ _ (fun e => hne e.symm)]; exact hld_t
  have hnew_t : begun c s' t.info.item = t.stage + 1 ∧ ended c s' t.info.item = t.stage + 1 := by
    by_cases hl : t.stage + 1 = c.n
    · rw [if_pos hl] at hmine'
      have := begun_of_retired (c := c) hmine'
      rw [← hl] at this; exact this
    · rw [if_neg hl] at hmine'
      have := begun_of_task (c := c) hmine' (by rw [htasks]; exact get_set_append_self htid)
      rw [(taskBegun_advance c t (by omega)).1, (taskBegun_advance c t (by omega)).2] at this
      exact this
  have key : ∀ i, begun c s' i = begun c s i ∧ ended c s' i = ended c s i := by
    intro i
    by_cases hi : i = t.info.item
    · subst hi; rw [hnew_t.1, hnew_t.2, hold.1, hold.2]; exact ⟨rfl, rfl⟩
    · rcases hcase with ⟨_, hl⟩ | ⟨w, hex, hl, hw⟩
      · exact begun_other hA ht htasks i (by rw [hl]; exact hld_o i hi) (not_mine_of_ne hA ht i hi)
      · by_cases hiw : i = w.item
        · subst hiw
          have hwloc := hA.parked _ _ w hw
          have ho := begun_of_parked (c := c) hwloc
          have hn := begun_of_task (c := c) (s := s') (i := w.item) (tid := s.tasks.length)
            (x := { pc := .call, stage := t.stage, info := w })
            (by rw [hl]; exact getElem?_set_self' _ _ _ (by
              have : (locDone c s t).length = s.loc.length := by unfold locDone; split <;> simp
              rw [this]; exact lt_of_getElem? hwloc))
            (by rw [htasks, hex, List.getElem?_set, if_neg (by omega), List.getElem?_append, if_neg (by omega)]; simp)
          simp only [taskBegun, taskEnded] at hn
          rw [hn.1, hn.2, ho.1, ho.2]; exact ⟨rfl, rfl⟩
        · exact begun_other hA ht htasks i
            (by rw [hl, getElem?_set_ne' _ _ _ _ (fun e => hiw e.symm)]; exact hld_o i hi) (not_mine_of_ne hA ht i hi)
  exact invD_same hD hseen hdone (fun i => (key i).1) (fun i => (key i).2)

theorem invD_step {c : Cfg} (hv : c.Valid) {s : St} (tid : Nat) (hA : InvA c s) (hD : InvD c s) :
    InvD c (step c s tid) := by
  cases h : s.tasks[tid]? with
  | none => rw [step_none h]; exact hD
  | some t =>
    have hso := hA.stage tid t h
    -- steps of a task that carries nothing, to a state where it carries nothing
    have idle : ∀ (s' : St) (t' : Task), carries t = false → s'.loc = s.loc → s'.seen = s.seen →
        s'.done = s.done → s'.tasks = s.tasks.set tid t' → InvD c s' :=
      fun s' t' hnc h1 h2 h3 h4 => invD_frame hA hD h (extra := []) h1 h2 h3 (by simpa using h4)
        (fun hc => by rw [hnc] at hc; cases hc)
    have idle1 : ∀ (s' : St) (t' : Task), carries t = false → s'.loc = s.loc → s'.seen = s.seen →
        s'.done = s.done → s'.tasks = (s.tasks ++ [fresh]).set tid t' → InvD c s' :=
      fun s' t' hnc h1 h2 h3 h4 => invD_frame hA hD h (extra := [fresh]) h1 h2 h3 h4
        (fun hc => by rw [hnc] at hc; cases hc)
    cases hpc : t.pc with
    | dead => rw [step_dead h hpc]; exact hD
    | start =>
      have hnc : carries t = false := by simp [carries, carriesPc, hpc]
      cases hm : (c.mode 0).serial with
      | true => rw [step_startS h hpc hm]; exact idle _ _ hnc rfl rfl rfl rfl
      | false =>
        cases he : s.eoi with
        | true => rw [step_startP_eoi h hpc hm he]; exact idle _ _ hnc rfl rfl rfl rfl
        | false => rw [step_startP h hpc hm he]; exact idle _ _ hnc rfl rfl rfl rfl
    | inCallS =>
      have hnc : carries t = false := by simp [carries, carriesPc, hpc]
      by_cases hp : s.produced < c.total
      · by_cases hn : c.n = 1
        · rw [step_inCallS_one h hpc hp hn]
          exact invD_produce hv hA hD h hnc _ fresh .retired rfl (by simp [setTask, produceS]) rfl rfl (Or.inr ⟨rfl, hn⟩)
        · rw [step_inCallS h hpc hp hn]
          exact invD_produce hv hA hD h hnc _ { pc := .fsubS, stage := 0, info := infoS c s } (.task tid) rfl
            (by simp [setTask, produceS]) rfl rfl (Or.inl ⟨rfl, rfl, rfl⟩)
      · rw [step_inCallS_stop h hpc hp]; exact idle _ _ hnc rfl rfl rfl rfl
    | fsubS =>
      have hst := hso.1 hpc
      have hnum : carries t = true → taskBegun (advance c t) = taskBegun t ∧ taskEnded (advance c t) = taskEnded t := by
        intro _
        have := taskBegun_advance c t (by omega)
        rw [this.1, this.2]; simp [taskBegun, taskEnded, hpc, hst.1]
      rcases Nat.lt_or_ge 1 s.tokens with h1 | h1
      · rw [step_fsubS_spawn h hpc h1]
        exact invD_frame hA hD h (extra := [fresh]) rfl rfl rfl (by simp [setTask, spawn]) hnum
      · rcases Nat.eq_zero_or_pos s.tokens with h0 | h0
        · rw [step_fsubS_err h hpc h0]; exact invD_err hD
        · rw [step_fsubS_last h hpc (by omega)]
          exact invD_frame hA hD h (extra := []) rfl rfl rfl (by simp [setTask]) hnum
    | fsubP =>
      have hnc : carries t = false := by simp [carries, carriesPc, hpc]
      rcases Nat.lt_or_ge 1 s.tokens with h1 | h1
      · rw [step_fsubP_spawn h hpc h1]; exact idle1 _ _ hnc rfl rfl rfl rfl
      · rcases Nat.eq_zero_or_pos s.tokens with h0 | h0
        · rw [step_fsubP_err h hpc h0]; exact invD_err hD
        · rw [step_fsubP_last h hpc (by omega)]; exact idle _ _ hnc rfl rfl rfl rfl
    | callInP =>
      have hnc : carries t = false := by simp [carries, carriesPc, hpc]
      rw [step_callInP h hpc]; exact idle _ _ hnc rfl rfl rfl rfl
    | inCallP =>
      have hnc : carries t = false := by simp [carries, carriesPc, hpc]
      by_cases hp : s.produced < c.total
      · rw [step_inCallP h hpc hp]
        refine invD_produce hv hA hD h hnc _ (advance c { t with stage := 0, info := { item := s.produced } })
          (if c.n = 1 then .retired else .task tid) rfl (by simp [setTask]) rfl rfl ?_
        by_cases hn : c.n = 1
        · right; simp [hn]
        · left
          have := hv.n_pos
          have h2 := taskBegun_advance c { t with stage := 0, info := { item := s.produced } } (by simp; omega)
          simp [hn]; exact h2
      · rw [step_inCallP_stop h hpc hp]; exact idle _ _ hnc rfl rfl rfl rfl
    | put =>
      cases hr : (s.bufs t.stage).tryPut t.info with
      | none => rw [step_put_reject h hpc hr]; exact invD_err hD
      | some r =>
        obtain ⟨b', info', tok, p⟩ := r
        cases p with
        | true =>
          rw [step_put_parked h hpc hr]
          exact invD_park hA hD h hpc _ tok rfl rfl (by simp [kill, afterPut]) rfl
        | false =>
          rw [step_put_run h hpc hr]
          exact invD_frame hA hD h (extra := []) (t' := { t with pc := .call, info := info' }) rfl rfl rfl
            (by simp [setTask, afterPut]) (fun _ => by simp [taskBegun, taskEnded, hpc])
    | call => rw [step_call h hpc]; exact invD_call hA hD h hpc
    | inFilter =>
      have hmid := hso.2.1 (by simp [midPc, hpc])
      rw [step_inFilter h hpc]
      cases hm : (c.mode t.stage).serial with
      | true =>
        exact invD_inFilter hA hD h hpc _ { t with pc := .noteDone } rfl rfl (by simp [setTask])
          (Or.inl ⟨by simp [setTask], by simp [taskBegun], by simp [taskEnded], by simp [carries, carriesPc]⟩)
      | false =>
        by_cases hl : t.stage + 1 = c.n
        · exact invD_inFilter hA hD h hpc _ (advance c t) rfl rfl (by simp [setTask]) (Or.inr ⟨by simp [setTask, hl], hl⟩)
        · have h2 := taskBegun_advance c t (by omega)
          exact invD_inFilter hA hD h hpc _ (advance c t) rfl rfl (by simp [setTask])
            (Or.inl ⟨by simp [setTask, hl], h2.1, h2.2, by rw [advance_carries]; simp; omega⟩)
    | noteDone =>
      obtain ⟨n1, _⟩ := TokenBuf.noteDone_spec (s.bufs t.stage) (hA.bufWF t.stage)
      cases hr : (s.bufs t.stage).noteDone.2 with
      | none =>
        rw [step_noteDone_none h hpc hr]
        exact invD_noteDone hA hD h hpc _ [] rfl rfl (by simp [setTask]) (Or.inl ⟨rfl, rfl⟩)
      | some w =>
        rw [step_noteDone_some h hpc hr]
        exact invD_noteDone hA hD h hpc _ [{ pc := .call, stage := t.stage, info := w }] rfl rfl
          (by simp [setTask, spawn]) (Or.inr ⟨w, rfl, rfl, by rw [← n1, hr]⟩)
    | fadd =>
      have hnc : carries t = false := by simp [carries, carriesPc, hpc]
      rcases Nat.eq_zero_or_pos s.tokens with h0 | h0
      · rw [step_fadd_zero h hpc h0]; exact idle _ _ hnc rfl rfl rfl rfl
      · rw [step_fadd_die h hpc h0]; exact idle _ _ hnc rfl rfl rfl rfl
    | ldEoi =>
      have hnc : carries t = false := by simp [carries, carriesPc, hpc]
      cases he : s.eoi with
      | true => rw [step_ldEoi_eoi h hpc he]; exact idle _ _ hnc rfl rfl rfl rfl
      | false => rw [step_ldEoi h hpc he]; exact idle _ _ hnc rfl rfl rfl rfl

theorem invD_init (c : Cfg) : InvD c (init c) := by
  have hb : ∀ i, begun c (init c) i = 0 ∧ ended c (init c) i = 0 := fun i => begun_of_none (by simp [init])
  refine ⟨fun i k => ?_, fun i k => ?_, fun k => ?_, fun k => ?_⟩
  · rw [(hb i).1]; simp [init]
  · rw [(hb i).2]; simp [init]
  · simp [init]
  · simp [init]

end TbbVerif.C07
