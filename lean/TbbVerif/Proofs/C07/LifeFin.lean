/- C07 life-cycle lemmas, part 3: consequences of `Core`, the return step (`wait_ctx == 0`, `~pipeline`), and the
invariant of all event sequences. -/
import TbbVerif.Proofs.C07.LifeInv

namespace TbbVerif.C07.Life
open TbbVerif.C07

/-! ### consequences of `Core` that hold at every moment -/

theorem cleaned_ended {c : Cfg} {s : LSt} (h : Core c s) {i k : Nat} (hm : Obj.tok i k ∈ s.cleaned) :
    ended c s.base i = k + 1 ∧ k + 1 < c.n ∧ ∃ (tid : Nat), s.base.loc[i]? = some (.task tid) := by
  obtain ⟨_, h2, tid, t, ht, _, hc, hi, he⟩ := h.cln i k hm
  have := ended_of_carry h.binv.1 ht hc
  rw [hi, he] at this
  exact ⟨this, h2, tid, by rw [← hi]; exact h.binv.1.carry tid t ht hc⟩

theorem cleaned_count_le {c : Cfg} {s : LSt} (h : Core c s) (i k : Nat) : s.cleaned.count (Obj.tok i k) ≤ 1 := by
  by_cases hm : Obj.tok i k ∈ s.cleaned
  · rw [(h.cln i k hm).1]; exact Nat.le_refl 1
  · rw [List.count_eq_zero.2 hm]; exact Nat.zero_le 1

theorem core_crt1 {c : Cfg} {s : LSt} (h : Core c s) (o : Obj) : s.created.count o ≤ 1 := by
  cases o with
  | tok i k => rw [h.crt i k]; split <;> omega
  | stopVal j => rw [(h.stp j).1]; split <;> omega

theorem core_dst1 {c : Cfg} {s : LSt} (h : Core c s) (o : Obj) : s.destroyed.count o ≤ 1 := by
  cases o with
  | tok i k =>
    rw [h.dst i k]
    by_cases hm : Obj.tok i k ∈ s.cleaned
    · obtain ⟨he, _, _⟩ := cleaned_ended h hm
      have : ¬ i ∈ s.base.done (k + 1) := by
        rw [h.binv.2.2.2.1.doneIff, he]; omega
      rw [if_neg this, (h.cln i k hm).1]; exact Nat.le_refl 1
    · rw [List.count_eq_zero.2 hm]; split <;> omega
  | stopVal j => rw [(h.stp j).2]; split <;> omega

theorem core_sub {c : Cfg} {s : LSt} (h : Core c s) (o : Obj) (hm : o ∈ s.destroyed) : o ∈ s.created := by
  have hpos := List.count_pos_iff.2 hm
  cases o with
  | tok i k =>
    have hD := h.binv.2.2.2.1
    have : i ∈ s.base.done k ∧ k + 1 < c.n := by
      rw [h.dst i k] at hpos
      by_cases hd : i ∈ s.base.done (k + 1)
      · have h1 := (hD.doneIff i (k + 1)).1 hd
        have h2 := ended_le_n h.binv.1 h.binv.2.2.2.2 (c := c) (s := s.base) i
        exact ⟨(hD.doneIff i k).2 (by omega), by omega⟩
      · rw [if_neg hd, Nat.zero_add] at hpos
        obtain ⟨he, hn, _⟩ := cleaned_ended h (List.count_pos_iff.1 hpos)
        exact ⟨(hD.doneIff i k).2 (by omega), hn⟩
    apply List.count_pos_iff.1
    rw [h.crt i k, if_pos this]; exact Nat.one_pos
  | stopVal j =>
    rw [(h.stp j).2] at hpos
    apply List.count_pos_iff.1
    rw [(h.stp j).1]; exact hpos

/-- while the call has not returned, a created and not yet destroyed token object is in exactly one place: carried by a
live stage_task in front of (or inside) the next filter, or parked in that filter's buffer -/
theorem core_held {c : Cfg} {s : LSt} (h : Core c s) {i k : Nat} (hc : Obj.tok i k ∈ s.created)
    (hd : Obj.tok i k ∉ s.destroyed) :
    ended c s.base i = k + 1 ∧ k + 1 < c.n ∧
    ((∃ (tok : Nat), s.base.loc[i]? = some (.parked (k + 1) tok)) ∨
     (∃ (tid : Nat) (t : Task), s.base.loc[i]? = some (.task tid) ∧ s.base.tasks[tid]? = some t ∧ carries t = true ∧
        t.info.item = i ∧ endedOf t = k + 1 ∧ s.ph[tid]? ≠ some Phase.gone)) := by
  have hD := h.binv.2.2.2.1
  have hA := h.binv.1
  have hcp := List.count_pos_iff.2 hc
  rw [h.crt i k] at hcp
  have hck : i ∈ s.base.done k ∧ k + 1 < c.n := by
    by_cases hh : i ∈ s.base.done k ∧ k + 1 < c.n
    · exact hh
    · rw [if_neg hh] at hcp; omega
  have hd0 := List.count_eq_zero.2 hd
  rw [h.dst i k] at hd0
  have hnd : ¬ i ∈ s.base.done (k + 1) := by
    intro hh; rw [if_pos hh] at hd0; omega
  have hncl : Obj.tok i k ∉ s.cleaned := by
    intro hh; have := List.count_pos_iff.2 hh; omega
  have h1 := (hD.doneIff i k).1 hck.1
  have h2 : ¬ (k + 1 < ended c s.base i) := fun hh => hnd ((hD.doneIff i (k + 1)).2 hh)
  have he : ended c s.base i = k + 1 := by omega
  refine ⟨he, hck.2, ?_⟩
  unfold ended at he
  cases hl : s.base.loc[i]? with
  | none => simp [hl] at he
  | some l =>
    cases l with
    | retired => simp [hl] at he; omega
    | parked j tok => simp [hl] at he; subst he; exact Or.inl ⟨tok, rfl⟩
    | task tid =>
      obtain ⟨t, ht, hct, hit⟩ := hA.locTask i tid hl
      simp only [hl, ht] at he
      rw [← endedOf_eq] at he
      refine Or.inr ⟨tid, t, rfl, ht, hct, hit, he, ?_⟩
      intro hg
      have hobj : heldObj c t = some (Obj.tok i k) := by
        unfold heldObj
        rw [if_pos ⟨by omega, by omega⟩, hit, he]; rfl
      exact hncl (h.gcl tid t _ ht hg hobj)

/-! ### the token objects in buffer slots -/

theorem mem_parkedObjs {b : St} {o : Obj} :
    o ∈ parkedObjs b ↔ ∃ (i k tok : Nat), i < b.produced ∧ b.loc[i]? = some (.parked k tok) ∧ o = Obj.tok i (k - 1) := by
  unfold parkedObjs
  rw [List.mem_filterMap]
  constructor
  · rintro ⟨i, hi, hf⟩
    rw [List.mem_range] at hi
    cases hl : b.loc[i]? with
    | none => simp [hl] at hf
    | some l =>
      cases l with
      | parked k tok => simp [hl] at hf; exact ⟨i, k, tok, hi, hl, hf.symm⟩
      | task _ => simp [hl] at hf
      | retired => simp [hl] at hf
  · rintro ⟨i, k, tok, hi, hl, rfl⟩
    exact ⟨i, List.mem_range.2 hi, by simp [hl]⟩

theorem parkedObjs_nodup (b : St) : (parkedObjs b).Nodup := by
  unfold parkedObjs
  refine List.Pairwise.filterMap _ ?_ (List.nodup_range (n := b.produced))
  intro a a' hne o ho o' ho' heq
  subst heq
  apply hne
  cases hl : b.loc[a]? with
  | none => simp [hl] at ho
  | some l =>
    cases l with
    | parked k tok =>
      simp [hl] at ho
      cases hl' : b.loc[a']? with
      | none => simp [hl'] at ho'
      | some l' =>
        cases l' with
        | parked k' tok' => simp [hl'] at ho'; exact (Obj.tok.inj (ho.trans ho'.symm)).1
        | task _ => simp [hl'] at ho'
        | retired => simp [hl'] at ho'
    | task _ => simp [hl] at ho
    | retired => simp [hl] at ho

/-- a parked object has been created and not destroyed -/
theorem parked_fresh {c : Cfg} {s : LSt} (h : Core c s) {o : Obj} (hm : o ∈ parkedObjs s.base) :
    o ∈ s.created ∧ o ∉ s.destroyed ∧
    ∃ (i k tok : Nat) (info : Info), o = Obj.tok i k ∧ k + 1 < c.n ∧ (s.base.bufs (k + 1)).abs tok = some info ∧ info.item = i := by
  obtain ⟨i, j, tok, _, hl, rfl⟩ := mem_parkedObjs.1 hm
  have hD := h.binv.2.2.2.1
  have hE := h.binv.2.2.2.2
  obtain ⟨info, ha, hii⟩ := hE.locParked i j tok hl
  obtain ⟨hj1, hjn, _⟩ := hE.parkedStage j tok info ha
  have he : ended c s.base i = j := by unfold ended; simp [hl]
  have hj : j - 1 + 1 = j := by omega
  refine ⟨?_, ?_, i, j - 1, tok, info, rfl, by omega, by rw [hj]; exact ha, hii⟩
  · apply List.count_pos_iff.1
    rw [h.crt i (j - 1), if_pos ⟨(hD.doneIff i (j - 1)).2 (by omega), by omega⟩]; exact Nat.one_pos
  · intro hd
    have hpos := List.count_pos_iff.2 hd
    rw [h.dst i (j - 1), hj] at hpos
    have hnd : ¬ i ∈ s.base.done j := by rw [hD.doneIff, he]; omega
    rw [if_neg hnd, Nat.zero_add] at hpos
    obtain ⟨_, _, tid, hlt⟩ := cleaned_ended h (List.count_pos_iff.1 hpos)
    rw [hl] at hlt; cases hlt

theorem alive_iff (t : Task) : alive t = true ↔ t.pc ≠ .dead := by
  unfold alive alivePc; cases t.pc <;> simp

theorem no_gone_of_not_cancelled {c : Cfg} {s : LSt} (h : Core c s) (hc : s.cancelled = false) :
    s.ph.count Phase.gone = 0 := by
  rw [List.count_eq_zero]
  intro hm
  obtain ⟨j, hj, he⟩ := List.mem_iff_getElem.1 hm
  have : s.ph[j]? = some Phase.gone := by rw [List.getElem?_eq_getElem hj, he]
  rw [h.goneC j this] at hc; cases hc

/-! ### the state after the return -/

structure Fin (c : Cfg) (f : Flags) (s : LSt) : Prop where
  ret : s.returned = true
  binv : BInv c s.base
  /-- no stage_task object exists any more -/
  noLive : ∀ (tid : Nat) (t : Task), s.base.tasks[tid]? = some t → t.pc = .dead ∨ s.ph[tid]? = some Phase.gone
  crt1 : ∀ (o : Obj), s.created.count o ≤ 1
  dst1 : ∀ (o : Obj), s.destroyed.count o ≤ 1
  sub : ∀ (o : Obj), o ∈ s.destroyed → o ∈ s.created
  acct : ∀ (o : Obj), o ∈ s.created → o ∈ s.destroyed ∨ o ∈ s.leaked
  leakNot : ∀ (o : Obj), o ∈ s.leaked → o ∉ s.destroyed
  leakedSpec : ∀ (o : Obj), o ∈ s.leaked → f.bufferCleanup = false ∧ s.cancelled = true ∧
    ∃ (i k tok : Nat) (info : Info), o = Obj.tok i k ∧ k + 1 < c.n ∧ (s.base.bufs (k + 1)).abs tok = some info ∧ info.item = i
  /-- every valid buffer slot's object is accounted for: leaked (no clean-up) or destroyed by the clean-up -/
  slots : ∀ (k tok : Nat) (info : Info), (s.base.bufs k).abs tok = some info →
    (f.bufferCleanup = false ∧ Obj.tok info.item (k - 1) ∈ s.leaked) ∨
    (f.bufferCleanup = true ∧ Obj.tok info.item (k - 1) ∈ s.destroyed)
  clean : s.cancelled = false → s.base.wait = 0
  stops : ∀ (j : Nat), s.created.count (Obj.stopVal j) = s.destroyed.count (Obj.stopVal j)
  stopCnt : ∀ (j : Nat), s.created.count (Obj.stopVal j) = (if j < s.stops then 1 else 0)

theorem fin_of_ret {c : Cfg} (hv : c.Valid) (f : Flags) {s : LSt} (h : Core c s) (hw : waitL s = 0) :
    Fin c f (if f.bufferCleanup then { s with returned := true, destroyed := s.destroyed ++ parkedObjs s.base }
             else { s with returned := true, leaked := parkedObjs s.base }) := by
  have hA := h.binv.1
  have hB := h.binv.2.1
  have hE := h.binv.2.2.2.2
  -- nobody is alive
  have hno : ∀ (tid : Nat) (t : Task), s.base.tasks[tid]? = some t → t.pc = .dead ∨ s.ph[tid]? = some Phase.gone := by
    intro tid t ht
    by_cases hd : t.pc = .dead
    · exact Or.inl hd
    · right
      refine all_gone_of_count s.base.tasks s.ph h.phLen ?_ ?_ tid t ht ((alive_iff t).2 hd)
      · intro j tj htj hg; exact (alive_iff tj).2 (h.goneAlive j tj htj hg)
      · rw [← hB.wait]; unfold waitL at hw; omega
  have hclean : s.cancelled = false → s.base.wait = 0 := by
    intro hc
    have := no_gone_of_not_cancelled h hc
    unfold waitL at hw; omega
  have hacct : ∀ (o : Obj), o ∈ s.created → o ∈ s.destroyed ∨ o ∈ parkedObjs s.base := by
    intro o hc
    by_cases hd : o ∈ s.destroyed
    · exact Or.inl hd
    · right
      cases o with
      | stopVal j =>
        exfalso; apply hd
        have := List.count_pos_iff.2 hc
        apply List.count_pos_iff.1
        rw [(h.stp j).2, ← (h.stp j).1]; exact this
      | tok i k =>
        obtain ⟨_, _, hp | ⟨tid, t, _, ht, hct, _, _, hng⟩⟩ := core_held h hc hd
        · obtain ⟨tok, hl⟩ := hp
          have hi : i < s.base.produced := by rw [← hA.locLen]; exact lt_of_getElem? hl
          exact mem_parkedObjs.2 ⟨i, k + 1, tok, hi, hl, rfl⟩
        · rcases hno tid t ht with hdead | hg
          · simp [carries, carriesPc, hdead] at hct
          · exact absurd hg hng
  have hcanc : ∀ (o : Obj), o ∈ parkedObjs s.base → s.cancelled = true := by
    intro o hm
    cases hc : s.cancelled with
    | true => rfl
    | false =>
      obtain ⟨i, j, tok, hi, hl, _⟩ := mem_parkedObjs.1 hm
      have := (drained_of_wait_zero hv hA hB h.binv.2.2.1 hE (hclean hc)).2 i hi
      rw [hl] at this; cases this
  have hslot : ∀ (k tok : Nat) (info : Info), (s.base.bufs k).abs tok = some info →
      Obj.tok info.item (k - 1) ∈ parkedObjs s.base := by
    intro k tok info ha
    have hl := hA.parked k tok info ha
    exact mem_parkedObjs.2 ⟨info.item, k, tok, by rw [← hA.locLen]; exact lt_of_getElem? hl, hl, rfl⟩
  cases hf : f.bufferCleanup with
  | false =>
    simp only [Bool.false_eq_true, if_false]
    refine ⟨rfl, h.binv, hno, fun o => core_crt1 h o, fun o => core_dst1 h o, fun o hm => core_sub h o hm, hacct, ?_, ?_, ?_, hclean, ?_, ?_⟩
    · intro o hm; exact (parked_fresh h hm).2.1
    · intro o hm; exact ⟨hf, hcanc o hm, (parked_fresh h hm).2.2⟩
    · intro k tok info ha; exact Or.inl ⟨hf, hslot k tok info ha⟩
    · intro j; rw [(h.stp j).1, (h.stp j).2]
    · intro j; exact (h.stp j).1
  | true =>
    simp only [if_true]
    refine ⟨rfl, h.binv, hno, fun o => core_crt1 h o, ?_, ?_, ?_, ?_, ?_, ?_, hclean, ?_, fun j => (h.stp j).1⟩
    · intro o
      show (s.destroyed ++ parkedObjs s.base).count o ≤ 1
      rw [List.count_append]
      by_cases hm : o ∈ parkedObjs s.base
      · have h0 := List.count_eq_zero.2 (parked_fresh h hm).2.1
        have h1 := (parkedObjs_nodup s.base).count (a := o)
        rw [if_pos hm] at h1
        omega
      · have h0 := List.count_eq_zero.2 hm
        have := core_dst1 h o
        omega
    · intro o hm
      have hm' : o ∈ s.destroyed ++ parkedObjs s.base := hm
      rcases List.mem_append.1 hm' with hh | hh
      · exact core_sub h o hh
      · exact (parked_fresh h hh).1
    · intro o hc
      left
      show o ∈ s.destroyed ++ parkedObjs s.base
      rcases hacct o hc with hh | hh
      · exact List.mem_append_left _ hh
      · exact List.mem_append_right _ hh
    · intro o hm
      have : o ∈ ([] : List Obj) := by rw [← h.noLeak]; exact hm
      cases this
    · intro o hm
      have : o ∈ ([] : List Obj) := by rw [← h.noLeak]; exact hm
      cases this
    · intro k tok info ha
      exact Or.inr ⟨hf, List.mem_append_right _ (hslot k tok info ha)⟩
    · intro j
      show s.created.count (Obj.stopVal j) = (s.destroyed ++ parkedObjs s.base).count (Obj.stopVal j)
      rw [List.count_append, (h.stp j).1, (h.stp j).2]
      have : (parkedObjs s.base).count (Obj.stopVal j) = 0 := by
        rw [List.count_eq_zero]
        intro hm
        obtain ⟨i, k, tok, _, _, he⟩ := mem_parkedObjs.1 hm
        cases he
      omega

/-! ### all event sequences -/

def Inv (c : Cfg) (f : Flags) (s : LSt) : Prop := Core c s ∨ Fin c f s

theorem inv_step {c : Cfg} (hv : c.Valid) (f : Flags) (s : LSt) (e : Ev) (h : Inv c f s) : Inv c f (stepE c f s e) := by
  unfold stepE stepEv
  rcases h with h | h
  · rw [if_neg (by rw [h.notRet]; simp)]
    cases e with
    | cancel => exact Or.inl (core_cancel h)
    | ret =>
      simp only []
      by_cases hw : waitL s = 0
      · rw [if_pos hw]
        right
        have := fin_of_ret hv f h hw
        cases hf : f.bufferCleanup <;> simp only [hf, Bool.false_eq_true, if_false, if_true] at this ⊢ <;> exact this
      · rw [if_neg hw]; exact Or.inl h
    | throw tid =>
      simp only []
      cases ht : s.base.tasks[tid]? with
      | none => exact Or.inl h
      | some t =>
        cases hp : s.ph[tid]? with
        | none => exact Or.inl h
        | some p =>
          cases p with
          | run =>
            simp only []
            by_cases hb : inBodyPc t.pc = true
            · rw [if_pos hb]
              exact Or.inl (core_setPhase h tid t Phase.thrown s.cancelled ht (by decide) (by rw [hp]; simp)
                (fun _ => hb) (fun x => x))
            · rw [if_neg hb]; exact Or.inl h
          | _ => exact Or.inl h
    | run tid =>
      simp only []
      cases ht : s.base.tasks[tid]? with
      | none => exact Or.inl h
      | some t =>
        cases hp : s.ph[tid]? with
        | none => exact Or.inl h
        | some p =>
          have hlt : tid < s.ph.length := lt_of_getElem? hp
          cases p with
          | gone => exact Or.inl h
          | thrown =>
            exact Or.inl (core_setPhase h tid t Phase.atDisp true ht (by decide) (by rw [hp]; simp)
              (fun _ => h.thr tid t ht (Or.inl hp)) (fun _ => rfl))
          | atDisp =>
            simp only []
            by_cases hc : s.cancelled = true
            · rw [if_pos hc]
              have hbody := h.thr tid t ht (Or.inr hp)
              refine Or.inl (core_finalize h tid t ht (by rw [hp]; simp) hlt hc ?_)
              intro hd; rw [hd] at hbody; simp [inBodyPc] at hbody
            · rw [if_neg hc]; exact Or.inl h
          | checked => exact Or.inl (core_baseStep hv h tid (by rw [hp]; simp))
          | run =>
            simp only []
            by_cases hd : atDispPc t.pc = true
            · rw [if_pos hd]
              by_cases hc : s.cancelled = true
              · rw [if_pos hc]
                refine Or.inl (core_finalize h tid t ht (by rw [hp]; simp) hlt hc ?_)
                intro hdd; rw [hdd] at hd; simp [atDispPc] at hd
              · rw [if_neg hc]
                exact Or.inl (core_setPhase h tid t Phase.checked s.cancelled ht (by decide) (by rw [hp]; simp)
                  (by intro hh; rcases hh with hh | hh <;> cases hh) (fun x => x))
            · rw [if_neg hd]; exact Or.inl (core_baseStep hv h tid (by rw [hp]; simp))
  · rw [if_pos h.ret]; exact Or.inr h

theorem inv_run {c : Cfg} (hv : c.Valid) (f : Flags) (evs : List Ev) : Inv c f (runL c f evs) := by
  unfold runL
  have : ∀ (evs : List Ev) (s : LSt), Inv c f s → Inv c f (evs.foldl (stepE c f) s) := by
    intro evs
    induction evs with
    | nil => intro s h; exact h
    | cons e es ih => intro s h; exact ih _ (inv_step hv f s e h)
  exact this evs _ (Or.inl (core_init hv))

/-! ### the base state is a state of the un-cancelled model -/

theorem stepE_base (c : Cfg) (f : Flags) (s : LSt) (e : Ev) :
    (stepE c f s e).base = s.base ∨ ∃ tid, (stepE c f s e).base = step c s.base tid := by
  unfold stepE stepEv
  by_cases hr : s.returned = true
  · rw [if_pos hr]; exact Or.inl rfl
  · rw [if_neg hr]
    have hfin : ∀ (tid : Nat) (t : Task), (finalize c s tid t).1.base = s.base := by
      intro tid t; unfold finalize; split <;> rfl
    have hbs : ∀ (tid : Nat), (baseStep c s tid).1.base = step c s.base tid := fun tid => (baseStep_fields c s tid).1
    cases e with
    | cancel => exact Or.inl rfl
    | ret => simp only []; split <;> (try split) <;> exact Or.inl rfl
    | throw tid => simp only []; split <;> (try split) <;> exact Or.inl rfl
    | run tid =>
      simp only []
      split
      · rename_i t p _ _
        cases p with
        | gone => exact Or.inl rfl
        | thrown => exact Or.inl rfl
        | atDisp => simp only []; split; exact Or.inl (hfin tid t); exact Or.inl rfl
        | checked => exact Or.inr ⟨tid, hbs tid⟩
        | run =>
          simp only []
          split
          · split
            · exact Or.inl (hfin tid t)
            · exact Or.inl rfl
          · exact Or.inr ⟨tid, hbs tid⟩
      · exact Or.inl rfl

theorem base_reachable (c : Cfg) (f : Flags) (evs : List Ev) : ∃ sched : List Tid, (runL c f evs).base = (sys c).run sched := by
  unfold runL
  have : ∀ (evs : List Ev) (s : LSt), (∃ sched : List Tid, s.base = (sys c).run sched) →
      ∃ sched : List Tid, (evs.foldl (stepE c f) s).base = (sys c).run sched := by
    intro evs
    induction evs with
    | nil => intro s h; exact h
    | cons e es ih =>
      intro s ⟨sched, hs⟩
      apply ih
      rcases stepE_base c f s e with h | ⟨tid, h⟩
      · exact ⟨sched, by rw [h]; exact hs⟩
      · refine ⟨sched ++ [tid], ?_⟩
        rw [h, hs]
        show step c ((sys c).run sched) tid = (sys c).runFrom (sys c).init (sched ++ [tid])
        rw [Sys.runFrom_append]; rfl
  exact this evs _ ⟨[], rfl⟩

end TbbVerif.C07.Life
