/- C07 helper lemmas, part 15: the per-filter logs are determined by where each item is
(each item begins / ends each filter at most once, in filter order). -/
import TbbVerif.Proofs.C07.InvCStep

namespace TbbVerif.C07

/-- number of filters whose invocation on the carried item has begun -/
def taskBegun (t : Task) : Nat :=
  match t.pc with
  | .fsubS => 1
  | .put | .call => t.stage
  | .inFilter | .noteDone => t.stage + 1
  | _ => 0

/-- number of filters whose invocation on the carried item has returned -/
def taskEnded (t : Task) : Nat :=
  match t.pc with
  | .fsubS => 1
  | .put | .call | .inFilter => t.stage
  | .noteDone => t.stage + 1
  | _ => 0

def begun (c : Cfg) (s : St) (i : Nat) : Nat :=
  match s.loc[i]? with
  | some .retired => c.n
  | some (.parked j _) => j
  | some (.task tid) => (match s.tasks[tid]? with | some t => taskBegun t | none => 0)
  | none => 0

def ended (c : Cfg) (s : St) (i : Nat) : Nat :=
  match s.loc[i]? with
  | some .retired => c.n
  | some (.parked j _) => j
  | some (.task tid) => (match s.tasks[tid]? with | some t => taskEnded t | none => 0)
  | none => 0

structure InvD (c : Cfg) (s : St) : Prop where
  seenIff : ∀ (i k : Nat), i ∈ s.seen k ↔ k < begun c s i
  doneIff : ∀ (i k : Nat), i ∈ s.done k ↔ k < ended c s i
  seenNd : ∀ k, (s.seen k).Nodup
  doneNd : ∀ k, (s.done k).Nodup

/-- nothing relevant changed -/
theorem invD_same {c : Cfg} {s s' : St} (hD : InvD c s) (hseen : s'.seen = s.seen) (hdone : s'.done = s.done)
    (hb : ∀ i, begun c s' i = begun c s i) (he : ∀ i, ended c s' i = ended c s i) : InvD c s' :=
  ⟨fun i k => by rw [hseen, hb]; exact hD.seenIff i k, fun i k => by rw [hdone, he]; exact hD.doneIff i k,
   fun k => by rw [hseen]; exact hD.seenNd k, fun k => by rw [hdone]; exact hD.doneNd k⟩

/-- a task moves between program counters with the same progress numbers (or carries nothing before and after) -/
theorem begun_frame {c : Cfg} {s s' : St} {tid : Nat} {t t' : Task} {extra : List Task} (hA : InvA c s)
    (ht : s.tasks[tid]? = some t) (hloc : s'.loc = s.loc) (htasks : s'.tasks = (s.tasks ++ extra).set tid t')
    (hnum : carries t = true → taskBegun t' = taskBegun t ∧ taskEnded t' = taskEnded t) :
    (∀ i, begun c s' i = begun c s i) ∧ (∀ i, ended c s' i = ended c s i) := by
  have htid := lt_of_getElem? ht
  have key : ∀ (i tid' : Nat), s.loc[i]? = some (Loc.task tid') →
      ∃ x x', s.tasks[tid']? = some x ∧ s'.tasks[tid']? = some x' ∧ taskBegun x' = taskBegun x ∧ taskEnded x' = taskEnded x := by
    intro i tid' hl
    obtain ⟨x, hx, hcx, _⟩ := hA.locTask i tid' hl
    by_cases hj : tid' = tid
    · subst hj
      rw [ht] at hx; cases hx
      exact ⟨t, t', ht, by rw [htasks]; exact get_set_append_self htid, (hnum hcx).1, (hnum hcx).2⟩
    · exact ⟨x, x, hx, by rw [htasks, get_set_append_other hj (lt_of_getElem? hx)]; exact hx, rfl, rfl⟩
  constructor
  · intro i
    unfold begun; rw [hloc]
    cases hl : s.loc[i]? with
    | none => rfl
    | some l =>
      cases l with
      | retired => rfl
      | parked j tok => rfl
      | task tid' =>
        obtain ⟨x, x', h1, h2, h3, _⟩ := key i tid' hl
        simp only [h1, h2, h3]
  · intro i
    unfold ended; rw [hloc]
    cases hl : s.loc[i]? with
    | none => rfl
    | some l =>
      cases l with
      | retired => rfl
      | parked j tok => rfl
      | task tid' =>
        obtain ⟨x, x', h1, h2, _, h4⟩ := key i tid' hl
        simp only [h1, h2, h4]

theorem invD_frame {c : Cfg} {s s' : St} {tid : Nat} {t t' : Task} {extra : List Task} (hA : InvA c s) (hD : InvD c s)
    (ht : s.tasks[tid]? = some t) (hloc : s'.loc = s.loc) (hseen : s'.seen = s.seen) (hdone : s'.done = s.done)
    (htasks : s'.tasks = (s.tasks ++ extra).set tid t')
    (hnum : carries t = true → taskBegun t' = taskBegun t ∧ taskEnded t' = taskEnded t) : InvD c s' :=
  invD_same hD hseen hdone (begun_frame hA ht hloc htasks hnum).1 (begun_frame hA ht hloc htasks hnum).2

theorem taskBegun_advance (c : Cfg) (t : Task) (h : t.stage + 1 < c.n) :
    taskBegun (advance c t) = t.stage + 1 ∧ taskEnded (advance c t) = t.stage + 1 := by
  unfold advance; simp only [if_pos h]
  cases (c.mode (t.stage + 1)).serial <;> simp [taskBegun, taskEnded]

/-- the progress numbers of an item that is not carried by the stepping task do not change -/
theorem begun_other {c : Cfg} {s s' : St} {tid : Nat} {t t' : Task} {extra : List Task} (hA : InvA c s)
    (ht : s.tasks[tid]? = some t) (htasks : s'.tasks = (s.tasks ++ extra).set tid t')
    (i : Nat) (hloc_i : s'.loc[i]? = s.loc[i]?) (hne : s.loc[i]? ≠ some (.task tid)) :
    begun c s' i = begun c s i ∧ ended c s' i = ended c s i := by
  unfold begun ended; rw [hloc_i]
  cases hl : s.loc[i]? with
  | none => exact ⟨rfl, rfl⟩
  | some l =>
    cases l with
    | retired => exact ⟨rfl, rfl⟩
    | parked j tok => exact ⟨rfl, rfl⟩
    | task tid' =>
      obtain ⟨x, hx, _, _⟩ := hA.locTask i tid' hl
      have hj : tid' ≠ tid := by intro e; subst e; exact hne hl
      have : s'.tasks[tid']? = some x := by rw [htasks, get_set_append_other hj (lt_of_getElem? hx)]; exact hx
      simp only [hx, this]; exact ⟨trivial, trivial⟩

theorem not_mine_of_ne {c : Cfg} {s : St} {tid : Nat} {t : Task} (hA : InvA c s) (ht : s.tasks[tid]? = some t)
    (i : Nat) (hi : i ≠ t.info.item) : s.loc[i]? ≠ some (.task tid) := by
  intro hl
  obtain ⟨x, hx, _, hix⟩ := hA.locTask i tid hl
  rw [ht] at hx; cases hx; exact hi hix.symm

theorem not_mine_of_idle {c : Cfg} {s : St} {tid : Nat} {t : Task} (hA : InvA c s) (ht : s.tasks[tid]? = some t)
    (hnc : carries t = false) (i : Nat) : s.loc[i]? ≠ some (.task tid) := by
  intro hl
  obtain ⟨x, hx, hcx, _⟩ := hA.locTask i tid hl
  rw [ht] at hx; cases hx; rw [hnc] at hcx; cases hcx

/-- exactly one item makes progress -/
theorem invD_one {c : Cfg} {s s' : St} (hD : InvD c s) (i0 : Nat)
    (hb : ∀ i, i ≠ i0 → begun c s' i = begun c s i ∧ ended c s' i = ended c s i)
    (hmb : begun c s i0 ≤ begun c s' i0) (hme : ended c s i0 ≤ ended c s' i0)
    (hseen : ∀ k, s'.seen k = if k < begun c s' i0 ∧ ¬ k < begun c s i0 then s.seen k ++ [i0] else s.seen k)
    (hdone : ∀ k, s'.done k = if k < ended c s' i0 ∧ ¬ k < ended c s i0 then s.done k ++ [i0] else s.done k) :
    InvD c s' := by
  refine ⟨?_, ?_, ?_, ?_⟩
  · intro i k
    rw [hseen k]
    by_cases hi : i = i0
    · subst hi
      split
      · rename_i h; simp [h.1]
      · rename_i h; rw [hD.seenIff i k]; constructor <;> intro h' <;> omega
    · rw [(hb i hi).1, ← hD.seenIff i k]
      split
      · simp [hi]
      · rfl
  · intro i k
    rw [hdone k]
    by_cases hi : i = i0
    · subst hi
      split
      · rename_i h; simp [h.1]
      · rename_i h; rw [hD.doneIff i k]; constructor <;> intro h' <;> omega
    · rw [(hb i hi).2, ← hD.doneIff i k]
      split
      · simp [hi]
      · rfl
  · intro k
    rw [hseen k]
    split
    · rename_i h
      refine List.nodup_append.2 ⟨hD.seenNd k, by simp, ?_⟩
      intro a ha b hb'
      simp at hb'; subst hb'
      intro e; subst e
      exact h.2 ((hD.seenIff a k).1 ha)
    · exact hD.seenNd k
  · intro k
    rw [hdone k]
    split
    · rename_i h
      refine List.nodup_append.2 ⟨hD.doneNd k, by simp, ?_⟩
      intro a ha b hb'
      simp at hb'; subst hb'
      intro e; subst e
      exact h.2 ((hD.doneIff a k).1 ha)
    · exact hD.doneNd k

end TbbVerif.C07
