/- C07 helper lemmas, part 5: structural invariant of `Pipeline` — every emitted item is in exactly one
place (carried by one task, or parked in one slot of one buffer, or retired). -/
import TbbVerif.Proofs.C07.Steps

namespace TbbVerif.C07

/-- the task owns an item whose ghost location is this task -/
def carriesPc : Pc → Bool
  | .fsubS | .put | .call | .inFilter | .noteDone => true
  | _ => false

def carries (t : Task) : Bool := carriesPc t.pc

def midPc : Pc → Bool
  | .put | .call | .inFilter | .noteDone => true
  | _ => false

/-- program counters of the parallel input stage -/
def parInPc : Pc → Bool
  | .fsubP | .callInP | .inCallP => true
  | _ => false

def stageOk (c : Cfg) (t : Task) : Prop :=
  (t.pc = .fsubS → t.stage = 0 ∧ 2 ≤ c.n) ∧
  (midPc t.pc = true → 1 ≤ t.stage ∧ t.stage < c.n) ∧
  (t.pc = .put ∨ t.pc = .noteDone → (c.mode t.stage).serial = true) ∧
  (parInPc t.pc = true → (c.mode 0).serial = false)

structure InvA (c : Cfg) (s : St) : Prop where
  locLen : s.loc.length = s.produced
  bufWF : ∀ k, TokenBuf.WF (s.bufs k)
  bufOrd : ∀ k, (s.bufs k).ordered = (c.mode k).ordered
  carry : ∀ (tid : Nat) (t : Task), s.tasks[tid]? = some t → carries t = true → s.loc[t.info.item]? = some (.task tid)
  parked : ∀ (k tok : Nat) (info : Info), (s.bufs k).abs tok = some info → s.loc[info.item]? = some (.parked k tok)
  locTask : ∀ (i tid : Nat), s.loc[i]? = some (.task tid) → ∃ t, s.tasks[tid]? = some t ∧ carries t = true ∧ t.info.item = i
  stage : ∀ (tid : Nat) (t : Task), s.tasks[tid]? = some t → stageOk c t

theorem lt_of_getElem? {α : Type} {l : List α} {i : Nat} {x : α} (h : l[i]? = some x) : i < l.length := by
  rcases Nat.lt_or_ge i l.length with h1 | h1
  · exact h1
  · rw [List.getElem?_eq_none h1] at h; cases h

/-- lookup in a task list after `set tid t'` on `l ++ extra` -/
theorem get_set_append {l extra : List Task} {tid j : Nat} {t' x : Task} (htid : tid < l.length)
    (h : ((l ++ extra).set tid t')[j]? = some x) :
    (j = tid ∧ x = t') ∨ (j ≠ tid ∧ l[j]? = some x) ∨ (j ≠ tid ∧ l.length ≤ j ∧ x ∈ extra) := by
  rw [List.getElem?_set] at h
  by_cases hj : tid = j
  · subst hj
    rw [if_pos rfl] at h
    split at h
    · left; exact ⟨rfl, (Option.some.inj h).symm⟩
    · cases h
  · rw [if_neg hj, List.getElem?_append] at h
    split at h
    · right; left; exact ⟨fun e => hj e.symm, h⟩
    · right; right
      exact ⟨fun e => hj e.symm, by omega, List.mem_of_getElem? h⟩

theorem get_set_append_self {l extra : List Task} {tid : Nat} {t' : Task} (htid : tid < l.length) :
    ((l ++ extra).set tid t')[tid]? = some t' := by
  rw [List.getElem?_set, if_pos rfl, if_pos (by rw [List.length_append]; omega)]

theorem get_set_append_other {l extra : List Task} {tid j : Nat} {t' : Task} (hj : j ≠ tid) (hlt : j < l.length) :
    ((l ++ extra).set tid t')[j]? = l[j]? := by
  rw [List.getElem?_set, if_neg (fun e => hj e.symm), List.getElem?_append, if_pos hlt]

/-- the buffers changed at most in ways invisible to the map they stand for -/
def SameMaps (s s' : St) : Prop :=
  ∀ k, TokenBuf.WF (s'.bufs k) ∧ (s'.bufs k).ordered = (s.bufs k).ordered ∧ ∀ tok, (s'.bufs k).abs tok = (s.bufs k).abs tok

theorem SameMaps.of_eq {s s' : St} (hA : ∀ k, TokenBuf.WF (s.bufs k)) (h : s'.bufs = s.bufs) : SameMaps s s' :=
  fun k => by rw [h]; exact ⟨hA k, rfl, fun _ => rfl⟩

/-- Steps that only move one task between program counters (keeping what it carries) and possibly
create tasks that carry nothing preserve `InvA`. -/
theorem invA_frame {c : Cfg} {s : St} {tid : Nat} {t : Task} (hA : InvA c s) (s' : St) (extra : List Task) (t' : Task)
    (ht : s.tasks[tid]? = some t)
    (hprod : s'.produced = s.produced) (hloc : s'.loc = s.loc) (hbufs : SameMaps s s')
    (htasks : s'.tasks = (s.tasks ++ extra).set tid t')
    (hc : carries t' = carries t) (hitem : carries t = true → t'.info.item = t.info.item)
    (hst : stageOk c t') (hextra : ∀ x ∈ extra, carries x = false ∧ stageOk c x) : InvA c s' := by
  have htid := lt_of_getElem? ht
  refine ⟨by rw [hloc, hprod]; exact hA.locLen, fun k => (hbufs k).1, fun k => by rw [(hbufs k).2.1]; exact hA.bufOrd k,
    ?_, ?_, ?_, ?_⟩
  · intro j x hx hcx
    rw [htasks] at hx
    rw [hloc]
    rcases get_set_append htid hx with ⟨rfl, rfl⟩ | ⟨_, hold⟩ | ⟨_, _, hmem⟩
    · rw [hc] at hcx
      rw [hitem hcx]; exact hA.carry _ t ht hcx
    · exact hA.carry j x hold hcx
    · rw [(hextra x hmem).1] at hcx; cases hcx
  · intro k tok info hi
    rw [(hbufs k).2.2] at hi
    rw [hloc]; exact hA.parked k tok info hi
  · intro i j hi
    rw [hloc] at hi
    obtain ⟨x, hx, hcx, hix⟩ := hA.locTask i j hi
    rw [htasks]
    by_cases hj : j = tid
    · subst hj
      rw [ht] at hx; cases hx
      exact ⟨t', get_set_append_self htid, by rw [hc]; exact hcx, by rw [hitem hcx]; exact hix⟩
    · exact ⟨x, by rw [get_set_append_other hj (lt_of_getElem? hx)]; exact hx, hcx, hix⟩
  · intro j x hx
    rw [htasks] at hx
    rcases get_set_append htid hx with ⟨rfl, rfl⟩ | ⟨_, hold⟩ | ⟨_, _, hmem⟩
    · exact hst
    · exact hA.stage j x hold
    · exact (hextra x hmem).2

/-- two different holders never hold the same item: a carrying task vs. another carrying task -/
theorem carry_inj {c : Cfg} {s : St} (hA : InvA c s) {j1 j2 : Nat} {x1 x2 : Task}
    (h1 : s.tasks[j1]? = some x1) (h2 : s.tasks[j2]? = some x2) (c1 : carries x1 = true) (c2 : carries x2 = true)
    (he : x1.info.item = x2.info.item) : j1 = j2 := by
  have a := hA.carry j1 x1 h1 c1
  have b := hA.carry j2 x2 h2 c2
  rw [he, b] at a
  cases a; rfl

/-- a carrying task vs. a parked entry -/
theorem carry_ne_parked {c : Cfg} {s : St} (hA : InvA c s) {j k tok : Nat} {x : Task} {info : Info}
    (h1 : s.tasks[j]? = some x) (c1 : carries x = true) (h2 : (s.bufs k).abs tok = some info) :
    x.info.item ≠ info.item := by
  intro he
  have a := hA.carry j x h1 c1
  have b := hA.parked k tok info h2
  rw [he, b] at a
  cases a

theorem getElem?_set_ne' {α : Type} (l : List α) (i j : Nat) (a : α) (h : i ≠ j) : (l.set i a)[j]? = l[j]? := by
  rw [List.getElem?_set, if_neg h]

theorem getElem?_set_self' {α : Type} (l : List α) (i : Nat) (a : α) (h : i < l.length) : (l.set i a)[i]? = some a := by
  rw [List.getElem?_set, if_pos rfl, if_pos h]

/-- the input filter returned a new item -/
theorem invA_produce {c : Cfg} {s : St} {tid : Nat} {t : Task} (hA : InvA c s) (s' : St) (t' : Task) (l : Loc)
    (ht : s.tasks[tid]? = some t) (hnc : carries t = false)
    (hprod : s'.produced = s.produced + 1) (hloc : s'.loc = s.loc ++ [l]) (hbufs : SameMaps s s')
    (htasks : s'.tasks = s.tasks.set tid t')
    (hl : (carries t' = true ∧ l = .task tid ∧ t'.info.item = s.produced) ∨ (carries t' = false ∧ l = .retired))
    (hst : stageOk c t') : InvA c s' := by
  have htid := lt_of_getElem? ht
  have hold : ∀ (i : Nat) (x : Loc), s.loc[i]? = some x → s'.loc[i]? = some x := by
    intro i x hx
    rw [hloc, List.getElem?_append, if_pos (lt_of_getElem? hx)]; exact hx
  have hnew : s'.loc[s.produced]? = some l := by
    rw [hloc, List.getElem?_append, if_neg (by rw [hA.locLen]; omega), hA.locLen]; simp
  have hget : ∀ (j : Nat) (x : Task), (s.tasks.set tid t')[j]? = some x → (j = tid ∧ x = t') ∨ (j ≠ tid ∧ s.tasks[j]? = some x) := by
    intro j x hx
    rw [List.getElem?_set] at hx
    by_cases hj : tid = j
    · subst hj; rw [if_pos rfl, if_pos htid] at hx; left; exact ⟨rfl, (Option.some.inj hx).symm⟩
    · rw [if_neg hj] at hx; right; exact ⟨fun e => hj e.symm, hx⟩
  refine ⟨by rw [hloc, hprod, List.length_append, hA.locLen]; rfl, fun k => (hbufs k).1,
    fun k => by rw [(hbufs k).2.1]; exact hA.bufOrd k, ?_, ?_, ?_, ?_⟩
  · intro j x hx hcx
    rw [htasks] at hx
    rcases hget j x hx with ⟨rfl, rfl⟩ | ⟨_, hx'⟩
    · rcases hl with ⟨_, rfl, hi⟩ | ⟨hc', _⟩
      · rw [hi]; exact hnew
      · rw [hc'] at hcx; cases hcx
    · exact hold _ _ (hA.carry j x hx' hcx)
  · intro k tok info hi
    rw [(hbufs k).2.2] at hi
    exact hold _ _ (hA.parked k tok info hi)
  · intro i j hi
    rw [htasks]
    rw [hloc, List.getElem?_append] at hi
    split at hi
    · obtain ⟨x, hx, hcx, hix⟩ := hA.locTask i j hi
      have hj : j ≠ tid := by
        intro e; subst e; rw [ht] at hx; cases hx; rw [hnc] at hcx; cases hcx
      exact ⟨x, by rw [getElem?_set_ne' _ _ _ _ (fun e => hj e.symm)]; exact hx, hcx, hix⟩
    · rename_i hge
      have : i - s.loc.length = 0 := by
        rcases Nat.eq_zero_or_pos (i - s.loc.length) with h0 | h0
        · exact h0
        · rw [List.getElem?_eq_none (by simp; omega)] at hi; cases hi
      rw [this] at hi
      simp at hi
      rcases hl with ⟨hc', rfl, hit⟩ | ⟨_, rfl⟩
      · cases hi
        refine ⟨t', getElem?_set_self' _ _ _ htid, hc', ?_⟩
        rw [hit, ← hA.locLen]; omega
      · cases hi
  · intro j x hx
    rw [htasks] at hx
    rcases hget j x hx with ⟨rfl, rfl⟩ | ⟨_, hx'⟩
    · exact hst
    · exact hA.stage j x hx'

/-! ### facts about `advance` -/

theorem advance_info (c : Cfg) (t : Task) : (advance c t).info = t.info := by
  unfold advance; simp only; split <;> rfl

theorem advance_carries (c : Cfg) (t : Task) : carries (advance c t) = decide (t.stage + 1 < c.n) := by
  unfold advance carries carriesPc; simp only
  by_cases h : t.stage + 1 < c.n
  · rw [if_pos h]; cases (c.mode (t.stage + 1)).serial <;> simp [h]
  · rw [if_neg h]; simp [h]

theorem advance_stageOk (c : Cfg) (t : Task) : stageOk c (advance c t) := by
  unfold advance stageOk midPc parInPc; simp only
  by_cases h : t.stage + 1 < c.n
  · rw [if_pos h]
    cases hm : (c.mode (t.stage + 1)).serial <;> simp [hm, h]
  · rw [if_neg h]; simp

theorem stageOk_of_pc {c : Cfg} {t : Task} (h1 : t.pc ≠ .fsubS) (h2 : midPc t.pc = false)
    (h3 : parInPc t.pc = true → (c.mode 0).serial = false) : stageOk c t := by
  refine ⟨fun h => absurd h h1, fun h => (by rw [h2] at h; cases h), ?_, h3⟩
  rintro (h | h) <;> simp [midPc, h] at h2

/-- a configuration the real call accepts: at least one filter, `max_number_of_live_tokens ≥ 1` -/
structure Cfg.Valid (c : Cfg) : Prop where
  n_pos : 1 ≤ c.n
  tok_pos : 1 ≤ c.maxTok

end TbbVerif.C07
