/- C07 helper lemmas, part 21: consequences of the invariants used by the property theorems. -/
import TbbVerif.Proofs.C07.InvEStep

namespace TbbVerif.C07

theorem ended_le_begun (c : Cfg) (s : St) (i : Nat) : ended c s i ≤ begun c s i ∧ begun c s i ≤ ended c s i + 1 := by
  unfold ended begun
  cases hl : s.loc[i]? with
  | none => simp
  | some l =>
    cases l with
    | retired => simp
    | parked j tok => simp
    | task tid =>
      simp only
      cases ht : s.tasks[tid]? with
      | none => simp
      | some t =>
        simp only [taskBegun, taskEnded]
        cases t.pc <;> simp

/-- the state in which `wait_ctx` has dropped to zero -/
theorem drained_of_wait_zero {c : Cfg} (hv : c.Valid) {s : St} (hA : InvA c s) (hB : InvB c s) (hC : InvC c s)
    (hE : InvE c s) (hw : s.wait = 0) :
    s.eoi = true ∧ ∀ i, i < s.produced → s.loc[i]? = some .retired := by
  have hdead := all_dead_of_wait_zero hB hw
  have hnop := no_parked_of_all_dead hA hC hE hdead
  have hret : ∀ i, i < s.produced → s.loc[i]? = some .retired := by
    intro i hi
    have hlt : i < s.loc.length := by rw [hA.locLen]; exact hi
    have hsome : s.loc[i]? = some s.loc[i] := by simp [hlt]
    cases hl : s.loc[i] with
    | retired => rw [hsome, hl]
    | parked k tok =>
      rw [hl] at hsome
      obtain ⟨info, ha, _⟩ := hE.locParked i k tok hsome
      exact absurd ha (hnop k tok info)
    | task tid =>
      rw [hl] at hsome
      obtain ⟨x, hx, hcx, _⟩ := hA.locTask i tid hsome
      have := hdead tid x hx
      simp [carries, carriesPc, this] at hcx
  refine ⟨eoi_of_wait_zero hv hB hw ?_, hret⟩
  rw [List.countP_eq_zero]
  intro x hx
  obtain ⟨i, hi, rfl⟩ := List.mem_iff_getElem.1 hx
  have := hret i (by rw [← hA.locLen]; exact hi)
  simp [hi] at this
  rw [this]; simp [Loc.isParked]

theorem nodup_subset_length : ∀ (l1 l2 : List Nat), l1.Nodup → (∀ x, x ∈ l1 → x ∈ l2) → l1.length ≤ l2.length
  | [], _, _, _ => by simp
  | a :: l, l2, hn, hs => by
    have ha : a ∈ l2 := hs a List.mem_cons_self
    have hn' := List.nodup_cons.1 hn
    have ih := nodup_subset_length l (l2.erase a) hn'.2 (fun x hx =>
      (List.mem_erase_of_ne (by intro e; subst e; exact hn'.1 hx)).2 (hs x (List.mem_cons_of_mem _ hx)))
    rw [List.length_erase_of_mem ha] at ih
    have := List.length_pos_of_mem ha
    simp only [List.length_cons]; omega

end TbbVerif.C07
