/- C07 helper lemmas, part 20: `InvE` across note-done; `InvE` is inductive (given `InvA`, `InvB`, `InvC`). -/
import TbbVerif.Proofs.C07.InvEPut

namespace TbbVerif.C07

theorem invE_noteDone {c : Cfg} {s : St} {tid : Nat} {t : Task} (hA : InvA c s) (hC : InvC c s) (hE : InvE c s)
    (ht : s.tasks[tid]? = some t) (hpc : t.pc = .noteDone) (s' : St) (extra : List Task)
    (hbufs : s'.bufs = upd s.bufs t.stage (s.bufs t.stage).noteDone.1)
    (hnum : s'.numbered = s.numbered) (hprod : s'.produced = s.produced) (herr : s'.err = s.err)
    (htasks : s'.tasks = (s.tasks ++ extra).set tid (advance c t))
    (hcase : (extra = [] ∧ s'.loc = locDone c s t ∧ (s.bufs t.stage).abs ((s.bufs t.stage).low + 1) = none) ∨
      (∃ w, extra = [({ pc := .call, stage := t.stage, info := w } : Task)] ∧
        s'.loc = (locDone c s t).set w.item (.task s.tasks.length) ∧
        (s.bufs t.stage).abs ((s.bufs t.stage).low + 1) = some w)) : InvE c s' := by
  have htid := lt_of_getElem? ht
  have hso := hA.stage tid t ht
  have hmid := hso.2.1 (by simp [midPc, hpc])
  have hser : (c.mode t.stage).serial = true := hso.2.2.1 (Or.inr hpc)
  have hc : carries t = true := by simp [carries, carriesPc, hpc]
  have hown_t : own t.stage t = true := by simp [own, ownPc, hpc]
  have hmine := hA.carry tid t ht hc
  obtain ⟨n1, n2, n3, n4, n5, n6⟩ := TokenBuf.noteDone_spec (s.bufs t.stage) (hA.bufWF t.stage)
  have hb_other : ∀ k, k ≠ t.stage → s'.bufs k = s.bufs k := by
    intro k hk; rw [hbufs, upd_other _ _ _ _ hk]
  have hb_same : s'.bufs t.stage = (s.bufs t.stage).noteDone.1 := by rw [hbufs, upd_same]
  have habs_sub : ∀ (k tok : Nat) (info : Info), (s'.bufs k).abs tok = some info → (s.bufs k).abs tok = some info ∧
      (k = t.stage → tok ≠ (s.bufs t.stage).low + 1) := by
    intro k tok info ha
    by_cases hks : k = t.stage
    · subst hks
      rw [hb_same, n6 tok] at ha
      split at ha
      · cases ha
      · rename_i hne; exact ⟨ha, fun _ => hne⟩
    · rw [hb_other k hks] at ha; exact ⟨ha, fun h => absurd h hks⟩
  have habs_keep : ∀ (k tok : Nat) (info : Info), (s.bufs k).abs tok = some info →
      ¬ (k = t.stage ∧ tok = (s.bufs t.stage).low + 1) → (s'.bufs k).abs tok = some info := by
    intro k tok info ha hne
    by_cases hks : k = t.stage
    · subst hks
      rw [hb_same, n6 tok, if_neg (fun h => hne ⟨rfl, h⟩)]; exact ha
    · rw [hb_other k hks]; exact ha
  -- location list
  have hld_t : (locDone c s t)[t.info.item]? = if t.stage + 1 = c.n then some .retired else some (.task tid) := by
    unfold locDone; split
    · exact getElem?_set_self' _ _ _ (lt_of_getElem? hmine)
    · exact hmine
  have hld_o : ∀ i, i ≠ t.info.item → (locDone c s t)[i]? = s.loc[i]? := by
    intro i hi; unfold locDone; split
    · exact getElem?_set_ne' _ _ _ _ (fun e => hi e.symm)
    · rfl
  have hld_len : (locDone c s t).length = s.loc.length := by unfold locDone; split <;> simp
  -- the released item (if any)
  have hw_facts : ∀ w, (s.bufs t.stage).abs ((s.bufs t.stage).low + 1) = some w →
      s.loc[w.item]? = some (.parked t.stage ((s.bufs t.stage).low + 1)) ∧ t.info.item ≠ w.item :=
    fun w hw => ⟨hA.parked _ _ w hw, carry_ne_parked hA ht hc hw⟩
  have hmine' : s'.loc[t.info.item]? = if t.stage + 1 = c.n then some .retired else some (.task tid) := by
    rcases hcase with ⟨_, hl, _⟩ | ⟨w, _, hl, hw⟩
    · rw [hl]; exact hld_t
    · rw [hl, getElem?_set_ne' _ _ _ _ (fun e => (hw_facts w hw).2 e.symm)]; exact hld_t
  have hleft_mine : left c s t.info.item = t.stage ∧ t.stage < left c s' t.info.item := by
    refine ⟨left_of_task hmine ht, ?_⟩
    by_cases hl : t.stage + 1 = c.n
    · rw [if_pos hl] at hmine'; rw [left_of_retired hmine']; omega
    · rw [if_neg hl] at hmine'
      rw [left_of_task hmine' (by rw [htasks]; exact get_set_append_self htid)]
      unfold advance; simp only; rw [if_pos (by omega)]; simp
  have hleft_mine' : left c s' t.info.item = t.stage + 1 ∨ left c s' t.info.item = c.n ∧ t.stage + 1 = c.n := by
    by_cases hl : t.stage + 1 = c.n
    · rw [if_pos hl] at hmine'; right; exact ⟨left_of_retired hmine', hl⟩
    · rw [if_neg hl] at hmine'; left
      rw [left_of_task hmine' (by rw [htasks]; exact get_set_append_self htid)]
      unfold advance; simp only; rw [if_pos (by omega)]
  have hleft_other : ∀ i, i ≠ t.info.item → left c s' i = left c s i := by
    intro i hi
    rcases hcase with ⟨_, hl, _⟩ | ⟨w, hex, hl, hw⟩
    · exact left_other hA ht htasks i (by rw [hl]; exact hld_o i hi) (not_mine_of_ne hA ht i hi)
    · by_cases hiw : i = w.item
      · subst hiw
        rw [left_of_parked (hw_facts w hw).1]
        rw [left_of_task (s := s') (tid := s.tasks.length) (x := { pc := .call, stage := t.stage, info := w })
          (by rw [hl]; exact getElem?_set_self' _ _ _ (by rw [hld_len]; exact lt_of_getElem? (hw_facts w hw).1))
          (by rw [htasks, hex, List.getElem?_set, if_neg (by omega), List.getElem?_append, if_neg (by omega)]; simp)]
      · exact left_other hA ht htasks i
          (by rw [hl, getElem?_set_ne' _ _ _ _ (fun e => hiw e.symm)]; exact hld_o i hi) (not_mine_of_ne hA ht i hi)
  have hlook : ∀ (j : Nat) (x : Task), s'.tasks[j]? = some x →
      (j = tid ∧ x = advance c t) ∨ (j ≠ tid ∧ s.tasks[j]? = some x) ∨ (x ∈ extra) := by
    intro j x hx; rw [htasks] at hx
    rcases get_set_append htid hx with h | h | ⟨_, _, h⟩
    · exact Or.inl h
    · exact Or.inr (Or.inl h)
    · exact Or.inr (Or.inr h)
  have hex_mem : ∀ x, x ∈ extra → ∃ w, (s.bufs t.stage).abs ((s.bufs t.stage).low + 1) = some w ∧
      x = { pc := .call, stage := t.stage, info := w } := by
    intro x hx
    rcases hcase with ⟨h, _⟩ | ⟨w, h, _, hw⟩
    · rw [h] at hx; cases hx
    · rw [h] at hx; simp at hx; exact ⟨w, hw, hx⟩
  refine ⟨?_, ?_, ?_, ?_, ?_, ?_, ?_⟩
  · -- n3T
    intro j x hx hcx tok hn
    rw [hnum] at hn
    rcases hlook j x hx with ⟨_, rfl⟩ | ⟨_, hold⟩ | hmem
    · rw [advance_info] at hn ⊢; exact hE.n3T tid t ht hc tok hn
    · exact hE.n3T j x hold hcx tok hn
    · obtain ⟨w, hw, rfl⟩ := hex_mem x hmem
      exact hE.n3P _ _ w hw tok hn
  · intro k tok' info ha tok hn
    rw [hnum] at hn; exact hE.n3P k tok' info (habs_sub k tok' info ha).1 tok hn
  · intro tok i hn; rw [hnum] at hn; rw [hprod]; exact hE.numLt tok i hn
  · -- lowSep
    intro k tok i ho h1 hn
    rw [hnum] at hn
    have hold := hE.lowSep k tok i ho h1 hn
    by_cases hks : k = t.stage
    · subst hks
      rw [hb_same, n3]
      obtain ⟨hr0, ht0⟩ := hC.ordOwn t.stage tid t ho ht hown_t
      have hnum0 := hC.numT tid t ht hc hr0
      by_cases hi : i = t.info.item
      · subst hi
        have := (hE.n3T tid t ht hc tok hn).2
        constructor
        · intro _; exact hleft_mine.2
        · intro _; omega
      · rw [hleft_other i hi]
        have hne : tok ≠ (s.bufs t.stage).low := by
          intro e; rw [e, ← ht0, hnum0] at hn; exact hi (Option.some.inj hn).symm
        rw [← hold]; constructor <;> intro h <;> omega
    · rw [hb_other k hks]
      by_cases hi : i = t.info.item
      · subst hi
        rw [hleft_mine.1] at hold
        rw [hold]
        rcases hleft_mine' with h | ⟨h, hl⟩
        · rw [h]; constructor <;> intro h' <;> omega
        · rw [h]; constructor <;> intro h' <;> omega
      · rw [hleft_other i hi]; exact hold
  · -- locParked
    intro i k tok hl
    by_cases hi : i = t.info.item
    · subst hi; rw [hmine'] at hl; split at hl <;> cases hl
    · rcases hcase with ⟨_, hle, _⟩ | ⟨w, _, hle, hw⟩
      · rw [hle, hld_o i hi] at hl
        obtain ⟨info, ha, hii⟩ := hE.locParked i k tok hl
        refine ⟨info, habs_keep k tok info ha ?_, hii⟩
        rintro ⟨rfl, rfl⟩
        rename_i hnone; rw [hnone] at ha; cases ha
      · by_cases hiw : i = w.item
        · subst hiw
          rw [hle, getElem?_set_self' _ _ _ (by rw [hld_len]; exact lt_of_getElem? (hw_facts w hw).1)] at hl
          cases hl
        · rw [hle, getElem?_set_ne' _ _ _ _ (fun e => hiw e.symm), hld_o i hi] at hl
          obtain ⟨info, ha, hii⟩ := hE.locParked i k tok hl
          refine ⟨info, habs_keep k tok info ha ?_, hii⟩
          rintro ⟨rfl, rfl⟩
          rw [hw] at ha; cases ha; exact hiw hii.symm
  · intro k tok info ha; exact hE.parkedStage k tok info (habs_sub k tok info ha).1
  · rw [herr]; exact hE.noErr

theorem invE_step {c : Cfg} (hv : c.Valid) {s : St} (tid : Nat) (hA : InvA c s) (hB : InvB c s) (hC : InvC c s)
    (hE : InvE c s) : InvE c (step c s tid) := by
  cases h : s.tasks[tid]? with
  | none => rw [step_none h]; exact hE
  | some t =>
    have hso := hA.stage tid t h
    -- a task that carries nothing moves to a program counter at which it carries nothing
    have idle : ∀ (s' : St) (t' : Task), carries t = false → carries t' = false → s'.bufs = s.bufs →
        s'.numbered = s.numbered → s'.produced = s.produced → s'.loc = s.loc → s'.err = s.err →
        s'.tasks = s.tasks.set tid t' → InvE c s' :=
      fun s' t' hnc hnc' h1 h2 h3 h4 h5 h6 => invE_frame hA hE s' [] t' h h1 h2 h3 h4 h5 (by simpa using h6)
        (fun hc => by rw [hnc'] at hc; cases hc) (fun hc => by rw [hnc] at hc; cases hc) (by simp)
    have idle1 : ∀ (s' : St) (t' : Task), carries t = false → carries t' = false → s'.bufs = s.bufs →
        s'.numbered = s.numbered → s'.produced = s.produced → s'.loc = s.loc → s'.err = s.err →
        s'.tasks = (s.tasks ++ [fresh]).set tid t' → InvE c s' :=
      fun s' t' hnc hnc' h1 h2 h3 h4 h5 h6 => invE_frame hA hE s' [fresh] t' h h1 h2 h3 h4 h5 h6
        (fun hc => by rw [hnc'] at hc; cases hc) (fun hc => by rw [hnc] at hc; cases hc)
        (by intro x hx; simp at hx; subst hx; simp [carries, carriesPc, fresh])
    -- `fetch_sub` never underflows: the task doing it is the input agent, which exists only with a free token
    have htok : inputAgent t = true → 1 ≤ s.tokens :=
      fun hi => hB.inpTok (countP_pos_of_mem _ _ tid t h hi)
    cases hpc : t.pc with
    | dead => rw [step_dead h hpc]; exact hE
    | start =>
      have hnc : carries t = false := by simp [carries, carriesPc, hpc]
      cases hm : (c.mode 0).serial with
      | true => rw [step_startS h hpc hm]; exact idle _ _ hnc (by simp [carries, carriesPc]) rfl rfl rfl rfl rfl rfl
      | false =>
        cases he : s.eoi with
        | true => rw [step_startP_eoi h hpc hm he]; exact idle _ _ hnc (by simp [carries, carriesPc]) rfl rfl rfl rfl rfl rfl
        | false => rw [step_startP h hpc hm he]; exact idle _ _ hnc (by simp [carries, carriesPc]) rfl rfl rfl rfl rfl rfl
    | inCallS =>
      have hnc : carries t = false := by simp [carries, carriesPc, hpc]
      have hgot := TokenBuf.getOrderedToken_spec (s.bufs 0) (hA.bufWF 0)
      have hb : ∀ k, ((produceS c s).bufs k).low = (s.bufs k).low ∧ ((produceS c s).bufs k).abs = (s.bufs k).abs := by
        intro k
        unfold produceS
        cases ho : (c.mode 0).ordered with
        | false => simp
        | true =>
          simp only [if_true]
          by_cases hk : k = 0
          · subst hk; rw [upd_same]; exact ⟨hgot.2.2.2.1, hgot.2.2.2.2.2⟩
          · rw [upd_other _ _ _ _ hk]; exact ⟨rfl, rfl⟩
      by_cases hp : s.produced < c.total
      · by_cases hn : c.n = 1
        · rw [step_inCallS_one h hpc hp hn]
          refine invE_produce hA hC hE h hnc _ fresh .retired rfl rfl rfl (by simp [setTask, produceS]) hb ?_
            (Or.inr ⟨rfl, by simp [carries, carriesPc, fresh], hn⟩)
          cases ho : (c.mode 0).ordered with
          | false => left; simp [setTask, produceS, ho]
          | true => right; exact ⟨by simp [setTask, produceS, ho], fun hc => by simp [carries, carriesPc, fresh] at hc⟩
        · rw [step_inCallS h hpc hp hn]
          refine invE_produce hA hC hE h hnc _ { pc := .fsubS, stage := 0, info := infoS c s } (.task tid) rfl rfl rfl
            (by simp [setTask, produceS]) hb ?_ (Or.inl ⟨rfl, by simp [carries, carriesPc], ?_, by simp⟩)
          · cases ho : (c.mode 0).ordered with
            | false => left; simp [setTask, produceS, ho]
            | true =>
              right
              refine ⟨by simp [setTask, produceS, ho], fun _ => ?_⟩
              have hh := hC.high0 0 ho (fun j hj => by omega)
              simp [infoS, ho, hh]
          · simp only [infoS]; split <;> rfl
      · rw [step_inCallS_stop h hpc hp]; exact idle _ _ hnc (by simp [carries, carriesPc]) rfl rfl rfl rfl rfl rfl
    | fsubS =>
      have hc : carries t = true := by simp [carries, carriesPc, hpc]
      have hst := hso.1 hpc
      have hpos := htok (by simp [inputAgent, inputPc, hpc])
      have hadv : carries (advance c t) = true → carries t = true ∧ (advance c t).info = t.info :=
        fun _ => ⟨hc, advance_info c t⟩
      have hstage : carries t = true → ∀ k, (c.mode k).ordered = true → 1 ≤ k → (k < (advance c t).stage ↔ k < t.stage) := by
        intro _ k _ h1
        have : (advance c t).stage = t.stage + 1 := by unfold advance; simp only; split <;> rfl
        rw [this, hst.1]; constructor <;> intro h' <;> omega
      rcases Nat.lt_or_ge 1 s.tokens with h1 | h1
      · rw [step_fsubS_spawn h hpc h1]
        exact invE_frame hA hE _ [fresh] (advance c t) h rfl rfl rfl rfl rfl (by simp [setTask, spawn]) hadv hstage
          (by intro x hx; simp at hx; subst hx; simp [carries, carriesPc, fresh])
      · rw [step_fsubS_last h hpc (by omega)]
        exact invE_frame hA hE _ [] (advance c t) h rfl rfl rfl rfl rfl (by simp [setTask]) hadv hstage (by simp)
    | fsubP =>
      have hnc : carries t = false := by simp [carries, carriesPc, hpc]
      have hpos := htok (by simp [inputAgent, inputPc, hpc])
      rcases Nat.lt_or_ge 1 s.tokens with h1 | h1
      · rw [step_fsubP_spawn h hpc h1]
        exact idle1 _ _ hnc (by simp [carries, carriesPc]) rfl rfl rfl rfl rfl rfl
      · rw [step_fsubP_last h hpc (by omega)]
        exact idle _ _ hnc (by simp [carries, carriesPc]) rfl rfl rfl rfl rfl rfl
    | callInP =>
      have hnc : carries t = false := by simp [carries, carriesPc, hpc]
      rw [step_callInP h hpc]; exact idle _ _ hnc (by simp [carries, carriesPc]) rfl rfl rfl rfl rfl rfl
    | inCallP =>
      have hnc : carries t = false := by simp [carries, carriesPc, hpc]
      by_cases hp : s.produced < c.total
      · rw [step_inCallP h hpc hp]
        have hn := hv.n_pos
        refine invE_produce hA hC hE h hnc _ (advance c { t with stage := 0, info := { item := s.produced } })
          (if c.n = 1 then .retired else .task tid) rfl rfl rfl (by simp [setTask]) (fun k => ⟨rfl, rfl⟩) (Or.inl rfl) ?_
        by_cases hn1 : c.n = 1
        · right; refine ⟨by simp [hn1], ?_, hn1⟩
          rw [advance_carries]; simp [hn1]
        · left
          refine ⟨by simp [hn1], ?_, by rw [advance_info], ?_⟩
          · rw [advance_carries]; simp; omega
          · unfold advance; simp only; split <;> simp
      · rw [step_inCallP_stop h hpc hp]; exact idle _ _ hnc (by simp [carries, carriesPc]) rfl rfl rfl rfl rfl rfl
    | put =>
      cases hr : (s.bufs t.stage).tryPut t.info with
      | none => exact absurd hr (put_not_rejected hA hC hE h hpc)
      | some r =>
        obtain ⟨b', info', tok, p⟩ := r
        cases p with
        | true =>
          rw [step_put_parked h hpc hr]
          exact invE_put hA hC hE h hpc hr _ { pc := .dead } rfl rfl rfl rfl (by simp [kill, afterPut]) (by simp [kill, afterPut]) rfl
        | false =>
          rw [step_put_run h hpc hr]
          exact invE_put hA hC hE h hpc hr _ { t with pc := .call, info := info' } rfl rfl rfl rfl
            (by simp [setTask, afterPut]) (by simp [setTask, afterPut]) rfl
    | call =>
      have hc : carries t = true := by simp [carries, carriesPc, hpc]
      rw [step_call h hpc]
      exact invE_frame hA hE _ [] { t with pc := .inFilter } h rfl rfl rfl rfl rfl (by simp [setTask])
        (fun _ => ⟨hc, rfl⟩) (fun _ k _ _ => Iff.rfl) (by simp)
    | inFilter =>
      have hc : carries t = true := by simp [carries, carriesPc, hpc]
      have hmid := hso.2.1 (by simp [midPc, hpc])
      rw [step_inFilter h hpc]
      cases hm : (c.mode t.stage).serial with
      | true =>
        exact invE_frame hA hE _ [] { t with pc := .noteDone } h rfl rfl rfl (by simp [setTask]) rfl (by simp [setTask])
          (fun _ => ⟨hc, rfl⟩) (fun _ k _ _ => Iff.rfl) (by simp)
      | false =>
        by_cases hl : t.stage + 1 = c.n
        · exact invE_retire hA hE _ (advance c t) h hc (by rw [advance_carries]; simp [hl]) hl hm rfl rfl rfl
            (by simp [setTask, hl]) rfl (by simp [setTask])
        · refine invE_frame hA hE _ [] (advance c t) h rfl rfl rfl (by simp [setTask, hl]) rfl (by simp [setTask])
            (fun _ => ⟨hc, advance_info c t⟩) ?_ (by simp)
          intro _ k ho _
          have : (advance c t).stage = t.stage + 1 := by unfold advance; simp only; split <;> rfl
          rw [this]
          have hne : k ≠ t.stage := by
            intro e; subst e; rw [ordered_serial ho] at hm; cases hm
          constructor <;> intro h' <;> omega
    | noteDone =>
      obtain ⟨n1, _⟩ := TokenBuf.noteDone_spec (s.bufs t.stage) (hA.bufWF t.stage)
      cases hr : (s.bufs t.stage).noteDone.2 with
      | none =>
        rw [step_noteDone_none h hpc hr]
        exact invE_noteDone hA hC hE h hpc _ [] rfl rfl rfl rfl (by simp [setTask]) (Or.inl ⟨rfl, rfl, by rw [← n1, hr]⟩)
      | some w =>
        rw [step_noteDone_some h hpc hr]
        exact invE_noteDone hA hC hE h hpc _ [{ pc := .call, stage := t.stage, info := w }] rfl rfl rfl rfl
          (by simp [setTask, spawn]) (Or.inr ⟨w, rfl, rfl, by rw [← n1, hr]⟩)
    | fadd =>
      have hnc : carries t = false := by simp [carries, carriesPc, hpc]
      rcases Nat.eq_zero_or_pos s.tokens with h0 | h0
      · rw [step_fadd_zero h hpc h0]; exact idle _ _ hnc (by simp [carries, carriesPc]) rfl rfl rfl rfl rfl rfl
      · rw [step_fadd_die h hpc h0]; exact idle _ _ hnc (by simp [carries, carriesPc]) rfl rfl rfl rfl rfl rfl
    | ldEoi =>
      have hnc : carries t = false := by simp [carries, carriesPc, hpc]
      cases he : s.eoi with
      | true => rw [step_ldEoi_eoi h hpc he]; exact idle _ _ hnc (by simp [carries, carriesPc]) rfl rfl rfl rfl rfl rfl
      | false => rw [step_ldEoi h hpc he]; exact idle _ _ hnc (by simp [carries, carriesPc, fresh]) rfl rfl rfl rfl rfl rfl

theorem invE_init (c : Cfg) : InvE c (init c) := by
  have hnew := fun k => TokenBuf.new_wf (c.mode k).ordered
  refine ⟨?_, ?_, ?_, ?_, ?_, ?_, rfl⟩
  · intro j x hx hcx
    have hm := List.mem_of_getElem? hx
    simp [init] at hm; subst hm
    simp [carries, carriesPc, fresh] at hcx
  · intro k tok info ha; simp only [init] at ha; rw [(hnew k).2.2.2.2 tok] at ha; cases ha
  · intro tok i hn; simp [init] at hn
  · intro k tok i _ _ hn; simp [init] at hn
  · intro i k tok hl; simp [init] at hl
  · intro k tok info ha; simp only [init] at ha; rw [(hnew k).2.2.2.2 tok] at ha; cases ha

/-- all invariants hold in every reachable state -/
theorem inv_reachable {c : Cfg} (hv : c.Valid) (sched : List Tid) :
    InvA c ((sys c).run sched) ∧ InvB c ((sys c).run sched) ∧ InvC c ((sys c).run sched) ∧
    InvD c ((sys c).run sched) ∧ InvE c ((sys c).run sched) :=
  Sys.inv_run (sys c) (fun s => InvA c s ∧ InvB c s ∧ InvC c s ∧ InvD c s ∧ InvE c s)
    ⟨invA_init c, invB_init hv, invC_init c, invD_init c, invE_init c⟩
    (fun s t h => ⟨invA_step hv t h.1, invB_step hv t h.1 h.2.1, invC_step hv t h.1 h.2.2.1,
      invD_step hv t h.1 h.2.2.2.1, invE_step hv t h.1 h.2.1 h.2.2.1 h.2.2.2.2⟩) sched

end TbbVerif.C07
