/- C07 helper lemmas: `input_buffer` at machine-word level (`Model/C07Wrap.lean`) simulates the unbounded model
(`TokenBuf`) as long as fewer than 2^(tokenBits-1) tokens separate a put token from `low_token`. -/
import TbbVerif.Proofs.C07.TokenBuf
import TbbVerif.Model.C07Wrap

namespace TbbVerif.C07.Wrap
open TbbVerif.C07

theorem W_val : W = 18446744073709551616 := by decide

theorem W_pos : 0 < W := by rw [W_val]; omega

theorem pow_dvd_W {k : Nat} (hk : k ≤ 64) : 2 ^ k ∣ W := by
  have : W = 2 ^ 64 := by rw [W_val]
  rw [this]; exact Nat.pow_dvd_pow 2 hk

/-- a slot index does not see the wrap: `array_size` divides the number of token values -/
theorem idx_w {k : Nat} (hk : k ≤ 64) (t : Nat) : TokenBuf.idx (2 ^ k) (t % W) = TokenBuf.idx (2 ^ k) t := by
  rw [TokenBuf.idx_eq_mod, TokenBuf.idx_eq_mod, Nat.mod_mod_of_dvd t (pow_dvd_W hk)]

theorem wsub_eq {tok low : Nat} (h1 : low ≤ tok) (h2 : tok - low < W) : wsub (tok % W) (low % W) = tok - low := by
  unfold wsub; rw [W_val] at *; omega

theorem winc_eq (x : Nat) : winc (x % W) = (x + 1) % W := by
  unfold winc; rw [W_val]; omega

theorem ne_w {tok low : Nat} (h1 : low ≤ tok) (h2 : tok - low < W) : (tok % W ≠ low % W) ↔ tok ≠ low := by
  rw [W_val] at *; omega

/-! ### the abstraction -/

def wInfo (i : Info) : Info := { i with token := i.token % W }

def wSlots (l : List (Option Info)) : List (Option Info) := l.map (Option.map wInfo)

def wordOf (b : TokenBuf) : TokenBuf := { b with low := b.low % W, high := b.high % W, slots := wSlots b.slots }

def wRes (r : TokenBuf × Info × Nat × Bool) : TokenBuf × Info × Nat × Bool := (wordOf r.1, wInfo r.2.1, r.2.2.1 % W, r.2.2.2)

theorem wInfo_idem (i : Info) : wInfo (wInfo i) = wInfo i := by
  unfold wInfo; simp

theorem wSlots_getD (l : List (Option Info)) (j : Nat) : (wSlots l).getD j none = (l.getD j none).map wInfo := by
  unfold wSlots
  rw [List.getD_eq_getElem?_getD, List.getD_eq_getElem?_getD, List.getElem?_map]
  cases l[j]? <;> rfl

theorem wSlots_set (l : List (Option Info)) (j : Nat) (x : Option Info) :
    wSlots (l.set j x) = (wSlots l).set j (x.map wInfo) := by
  unfold wSlots; rw [List.map_set]

theorem wSlots_replicate (n : Nat) : wSlots (List.replicate n none) = List.replicate n none := by
  unfold wSlots; rw [List.map_replicate]; rfl

theorem wSlots_length (l : List (Option Info)) : (wSlots l).length = l.length := by
  unfold wSlots; rw [List.length_map]

theorem foldl_set_w (is : List Nat) (f : Nat → Nat) (g : Nat → Option Info) : ∀ (acc : List (Option Info)),
    wSlots (is.foldl (fun a i => a.set (f i) (g i)) acc) =
      is.foldl (fun a i => a.set (f i) ((g i).map wInfo)) (wSlots acc) := by
  induction is with
  | nil => intro acc; rfl
  | cons i is ih => intro acc; simp only [List.foldl_cons]; rw [ih, wSlots_set]

/-- sizes for which the word-level code is faithful: a power of two below 2^tokenBits, array of that size -/
def WOK (b : TokenBuf) : Prop := ∃ k, b.size = 2 ^ k ∧ k ≤ 63 ∧ b.slots.length = b.size

/-! ### growth -/

theorem dblUntil_upper : ∀ (f n m a : Nat), n = 2 ^ a →
    ∃ b, TokenBuf.dblUntil f n m = 2 ^ b ∧ (b = a ∨ 2 ^ b < 2 * m)
  | 0, n, m, a, hn => ⟨a, by simp [TokenBuf.dblUntil, hn], Or.inl rfl⟩
  | f + 1, n, m, a, hn => by
    unfold TokenBuf.dblUntil
    split
    · rename_i hlt
      obtain ⟨b, hb, hor⟩ := dblUntil_upper f (2 * n) m (a + 1) (by rw [hn, Nat.pow_succ]; omega)
      refine ⟨b, hb, Or.inr ?_⟩
      rcases hor with h | h
      · rw [h, Nat.pow_succ, ← hn]; omega
      · exact h
    · exact ⟨a, hn, Or.inl rfl⟩

/-- growing for a token less than 2^63 ahead keeps the size below 2^64 -/
theorem grow_size_ok {b : TokenBuf} (h : WOK b) {m : Nat} (hm1 : b.size < m) (hm2 : m ≤ W / 2) :
    ∃ k', TokenBuf.growSize b.size m = 2 ^ k' ∧ k' ≤ 63 := by
  obtain ⟨k, hsize, hle, hlen⟩ := h
  have hpos : b.size ≠ 0 := by rw [hsize]; exact Nat.pos_iff_ne_zero.1 (Nat.two_pow_pos _)
  unfold TokenBuf.growSize
  rw [if_neg hpos]
  obtain ⟨b', hb', hor⟩ := dblUntil_upper m (2 * b.size) m (k + 1) (by rw [hsize, Nat.pow_succ]; omega)
  refine ⟨b', hb', ?_⟩
  have hlt : 2 ^ b' < 2 ^ 64 := by
    rcases hor with e | e
    · rw [e, Nat.pow_succ, ← hsize]
      have : W / 2 = 2 ^ 63 := by rw [W_val]
      rw [this] at hm2
      have : (2:Nat) ^ 64 = 2 * 2 ^ 63 := by decide
      omega
    · have : W / 2 = 2 ^ 63 := by rw [W_val]
      rw [this] at hm2
      have : (2:Nat) ^ 64 = 2 * 2 ^ 63 := by decide
      omega
  have := (Nat.pow_lt_pow_iff_right (a := 2) (by omega)).1 hlt
  omega

theorem grow_w {b : TokenBuf} (h : WOK b) {m : Nat} (hm1 : b.size < m) (hm2 : m ≤ W / 2) :
    grow (wordOf b) m = wordOf (TokenBuf.grow b m) ∧ WOK (TokenBuf.grow b m) := by
  obtain ⟨k', hk', hle'⟩ := grow_size_ok h hm1 hm2
  obtain ⟨k, hsize, hle, hlen0⟩ := h
  have hstep : (fun (acc : List (Option Info)) (i : Nat) =>
        acc.set (TokenBuf.idx (TokenBuf.growSize b.size m) ((b.low % W + i) % W))
          ((wSlots b.slots).getD (TokenBuf.idx b.size ((b.low % W + i) % W)) none)) =
      (fun (acc : List (Option Info)) (i : Nat) =>
        acc.set (TokenBuf.idx (TokenBuf.growSize b.size m) (b.low + i))
          ((b.slots.getD (TokenBuf.idx b.size (b.low + i)) none).map wInfo)) := by
    funext acc i
    have e : (b.low % W + i) % W = (b.low + i) % W := by rw [W_val]; omega
    rw [e, hk', hsize, idx_w (by omega), idx_w (by omega), wSlots_getD]
  constructor
  · unfold grow TokenBuf.grow wordOf
    simp only []
    rw [hstep, foldl_set_w, wSlots_replicate]
  · obtain ⟨_, hlen, _⟩ := TokenBuf.grow_spec b m (Or.inr ⟨k, hsize⟩)
    have hs : (TokenBuf.grow b m).size = 2 ^ k' := by simp [TokenBuf.grow, hk']
    exact ⟨k', hs, hle', hlen⟩

/-! ### the three operations -/

theorem noteDone_w {b : TokenBuf} (h : WOK b) :
    noteDone (wordOf b) = (wordOf (TokenBuf.noteDone b).1, ((TokenBuf.noteDone b).2).map wInfo) ∧
    WOK (TokenBuf.noteDone b).1 := by
  obtain ⟨k, hsize, hle, hlen⟩ := h
  constructor
  · unfold noteDone TokenBuf.noteDone wordOf
    simp only []
    rw [winc_eq, hsize, idx_w (by omega), wSlots_getD, wSlots_set]
    rfl
  · exact ⟨k, hsize, hle, by simp [TokenBuf.noteDone, hlen]⟩

theorem getOrderedToken_w (b : TokenBuf) :
    getOrderedToken (wordOf b) = (wordOf (TokenBuf.getOrderedToken b).1, (TokenBuf.getOrderedToken b).2 % W) := by
  unfold getOrderedToken TokenBuf.getOrderedToken wordOf
  simp only []
  rw [winc_eq]

theorem park_w {b1 : TokenBuf} (h : WOK b1) (info1 : Info) {tok : Nat} (h1 : b1.low ≤ tok) (h2 : tok - b1.low < W / 2) :
    park (wordOf b1) (wInfo info1) (tok % W) = (TokenBuf.park b1 info1 tok).map wRes ∧
    ∀ r, TokenBuf.park b1 info1 tok = some r → WOK r.1 := by
  have hW2 : W / 2 = 9223372036854775808 := by rw [W_val]
  have hlt : tok - b1.low < W := by rw [W_val]; rw [hW2] at h2; omega
  have hsub : wsub (tok % W) (b1.low % W) = tok - b1.low := wsub_eq h1 hlt
  have hlow : (wordOf b1).low = b1.low % W := rfl
  have hsz : (wordOf b1).size = b1.size := rfl
  unfold park TokenBuf.park
  rw [hlow, hsz, hsub]
  have hnn : nonneg (tok - b1.low) = true := by unfold nonneg; simp [h2]
  rw [hnn]
  simp only [Bool.not_true, Bool.false_eq_true, if_false, if_neg (Nat.not_lt.2 h1)]
  by_cases hne : tok = b1.low
  · have : ¬ (tok % W ≠ b1.low % W) := by rw [hne]; simp
    rw [if_neg this, if_neg (by simpa using hne)]
    exact ⟨rfl, fun r hr => by cases hr; exact h⟩
  · have : tok % W ≠ b1.low % W := (ne_w h1 hlt).2 hne
    rw [if_pos this, if_pos hne]
    by_cases hg : tok - b1.low ≥ b1.size
    · rw [if_pos hg, if_pos hg]
      obtain ⟨hgw, hok⟩ := grow_w h (m := tok - b1.low + 1) (by omega) (by rw [hW2] at h2 ⊢; omega)
      rw [hgw]
      constructor
      · obtain ⟨k2, hs2, hl2, _⟩ := hok
        simp only [Option.map, wRes, wordOf]
        rw [hs2, idx_w (by omega), wSlots_set]
        rfl
      · intro r hr; cases hr
        obtain ⟨k2, hs2, hl2, hlen2⟩ := hok
        exact ⟨k2, hs2, hl2, by simp [hlen2]⟩
    · rw [if_neg hg, if_neg hg]
      constructor
      · obtain ⟨k1, hs1, hl1, _⟩ := h
        simp only [Option.map, wRes, wordOf]
        rw [hs1, idx_w (by omega), wSlots_set]
        rfl
      · intro r hr; cases hr
        obtain ⟨k1, hs1, hl1, hlen1⟩ := h
        exact ⟨k1, hs1, hl1, by simp [hlen1]⟩

end TbbVerif.C07.Wrap
