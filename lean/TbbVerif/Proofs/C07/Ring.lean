/- C07 helper lemmas, part 1: power-of-two ring arithmetic and `grow`'s copy loop. -/
import TbbVerif.Model.C07

namespace TbbVerif.C07
namespace TokenBuf

theorem idx_eq_mod (k tok : Nat) : idx (2 ^ k) tok = tok % 2 ^ k := by
  unfold idx; exact Nat.and_two_pow_sub_one_eq_mod tok k

/-- **No two tokens of a window collide in a slot.** -/
theorem window_inj (size low t1 t2 : Nat) (h1 : low ≤ t1) (h1' : t1 < low + size)
    (h2 : low ≤ t2) (h2' : t2 < low + size) (h : t1 % size = t2 % size) : t1 = t2 := by
  rcases Nat.le_total t1 t2 with hle | hle
  · have hz := Nat.sub_mod_eq_zero_of_mod_eq h.symm
    have hlt : t2 - t1 < size := by omega
    rw [Nat.mod_eq_of_lt hlt] at hz
    omega
  · have hz := Nat.sub_mod_eq_zero_of_mod_eq h
    have hlt : t1 - t2 < size := by omega
    rw [Nat.mod_eq_of_lt hlt] at hz
    omega

theorem dblUntil_spec : ∀ (f n m a : Nat), n = 2 ^ a → m ≤ n + f →
    ∃ b, dblUntil f n m = 2 ^ b ∧ a ≤ b ∧ m ≤ 2 ^ b
  | 0, n, m, a, hn, hm => ⟨a, by simp [dblUntil, hn], Nat.le_refl _, by simp at hm; omega⟩
  | f + 1, n, m, a, hn, hm => by
    unfold dblUntil
    split
    · have hpos : 1 ≤ n := by rw [hn]; exact Nat.one_le_two_pow
      obtain ⟨b, hb, hab, hmb⟩ := dblUntil_spec f (2 * n) m (a + 1) (by rw [hn, Nat.pow_succ]; omega) (by omega)
      exact ⟨b, hb, by omega, hmb⟩
    · exact ⟨a, hn, Nat.le_refl _, by omega⟩

/-- `grow`'s new size is a power of two, at least the requested minimum and larger than the old size. -/
theorem growSize_spec (old m i : Nat) (hinit : Generated.C07.initialBufferSize = 2 ^ i)
    (hold : old = 0 ∨ ∃ a, old = 2 ^ a) :
    ∃ b, growSize old m = 2 ^ b ∧ m ≤ 2 ^ b ∧ old < 2 ^ b := by
  unfold growSize
  rcases hold with h0 | ⟨a, hp⟩
  · subst h0
    simp only [if_true]
    obtain ⟨b, hb, _, hmb⟩ := dblUntil_spec m _ m i hinit (by omega)
    exact ⟨b, hb, hmb, Nat.two_pow_pos b⟩
  · have hpos : 1 ≤ old := by rw [hp]; exact Nat.one_le_two_pow
    have hne : old ≠ 0 := by omega
    simp only [hne, if_false]
    obtain ⟨b, hb, hab, hmb⟩ := dblUntil_spec m (2 * old) m (a + 1) (by rw [hp, Nat.pow_succ]; omega) (by omega)
    refine ⟨b, hb, hmb, ?_⟩
    have : 2 ^ (a + 1) ≤ 2 ^ b := Nat.pow_le_pow_right (by omega) hab
    rw [Nat.pow_succ] at this
    omega

/-! ### a loop of `set`s -/

theorem foldl_set_length {α : Type} (is : List Nat) (f : Nat → Nat) (g : Nat → α) (acc : List α) :
    (is.foldl (fun acc i => acc.set (f i) (g i)) acc).length = acc.length := by
  induction is generalizing acc with
  | nil => rfl
  | cons a rest ih => simp [List.foldl_cons, ih]

theorem foldl_set_other {α : Type} (is : List Nat) (f : Nat → Nat) (g : Nat → α) (acc : List α) (j : Nat)
    (h : ∀ a ∈ is, f a ≠ j) :
    (is.foldl (fun acc i => acc.set (f i) (g i)) acc)[j]? = acc[j]? := by
  induction is generalizing acc with
  | nil => rfl
  | cons a rest ih =>
    rw [List.foldl_cons, ih _ (fun r hr => h r (List.mem_cons_of_mem _ hr)), List.getElem?_set]
    have := h a (List.mem_cons_self)
    simp [this]

theorem foldl_set_hit {α : Type} (is : List Nat) (f : Nat → Nat) (g : Nat → α) (acc : List α) (i : Nat)
    (hi : i ∈ is) (hinj : ∀ a ∈ is, ∀ b ∈ is, f a = f b → a = b) (hlt : ∀ a ∈ is, f a < acc.length) :
    (is.foldl (fun acc i => acc.set (f i) (g i)) acc)[f i]? = some (g i) := by
  induction is generalizing acc with
  | nil => cases hi
  | cons a rest ih =>
    rw [List.foldl_cons]
    by_cases hir : i ∈ rest
    · exact ih _ hir (fun x hx y hy => hinj x (List.mem_cons_of_mem _ hx) y (List.mem_cons_of_mem _ hy))
        (fun x hx => by rw [List.length_set]; exact hlt x (List.mem_cons_of_mem _ hx))
    · have hia : i = a := by
        rcases List.mem_cons.1 hi with h | h
        · exact h
        · exact absurd h hir
      subst hia
      rw [foldl_set_other]
      · rw [List.getElem?_set]; simp [hlt i List.mem_cons_self]
      · intro r hr hfr
        have := hinj r (List.mem_cons_of_mem _ hr) i List.mem_cons_self hfr
        subst this
        exact hir hr

end TokenBuf
end TbbVerif.C07
