/- C07 life-cycle lemmas, part 1: facts about one step of the base model that the overlay needs (which tasks it
touches, how the per-filter end logs grow), the base invariants as one bundle, and list / phase-list lemmas. -/
import TbbVerif.Proofs.C07.Final
import TbbVerif.Model.C07Life

namespace TbbVerif.C07.Life
open TbbVerif.C07

/-! ### the base invariants as one bundle -/

def BInv (c : Cfg) (b : St) : Prop := InvA c b ∧ InvB c b ∧ InvC c b ∧ InvD c b ∧ InvE c b

theorem binv_init {c : Cfg} (hv : c.Valid) : BInv c (init c) :=
  ⟨invA_init c, invB_init hv, invC_init c, invD_init c, invE_init c⟩

theorem binv_step {c : Cfg} (hv : c.Valid) {b : St} (h : BInv c b) (tid : Nat) : BInv c (stepL c b tid).1 :=
  ⟨invA_step hv tid h.1, invB_step hv tid h.1 h.2.1, invC_step hv tid h.1 h.2.2.1,
    invD_step hv tid h.1 h.2.2.2.1, invE_step hv tid h.1 h.2.1 h.2.2.1 h.2.2.2.2⟩

/-! ### one step of the base model -/

theorem stepL_none {c : Cfg} {s : St} {tid : Nat} (h : s.tasks[tid]? = none) : stepL c s tid = (s, .noop) := by
  unfold stepL; rw [h]

/-- a step of task `tid` leaves every other existing task alone -/
theorem stepL_other (c : Cfg) (s : St) (tid j : Nat) (hj : j ≠ tid) (hlt : j < s.tasks.length) :
    (stepL c s tid).1.tasks[j]? = s.tasks[j]? := by
  unfold stepL
  cases h : s.tasks[tid]? with
  | none => rfl
  | some t =>
    simp only []
    cases hpc : t.pc <;> simp only [] <;> (repeat' split) <;>
      simp [setTask, kill, spawn, fail, List.getElem?_append, Ne.symm hj, hlt]

theorem stepL_len (c : Cfg) (s : St) (tid : Nat) : s.tasks.length ≤ (stepL c s tid).1.tasks.length := by
  unfold stepL
  cases h : s.tasks[tid]? with
  | none => exact Nat.le_refl _
  | some t =>
    simp only []
    cases hpc : t.pc <;> simp only [] <;> (repeat' split) <;>
      simp [setTask, kill, spawn, fail]

/-- the per-filter end logs grow exactly at the labels `iend (some _)` and `fend` -/
theorem stepL_done (c : Cfg) (s : St) (tid : Nat) :
    (stepL c s tid).1.done =
      match (stepL c s tid).2 with
      | .iend (some i) => upd s.done 0 (s.done 0 ++ [i])
      | .fend k i => upd s.done k (s.done k ++ [i])
      | _ => s.done := by
  unfold stepL
  cases h : s.tasks[tid]? with
  | none => rfl
  | some t =>
    simp only []
    cases hpc : t.pc <;> simp only [] <;> (repeat' split) <;> simp_all [setTask, kill, spawn, fail]

theorem stepL_fend {c : Cfg} {s : St} {tid k i : Nat} (h : (stepL c s tid).2 = .fend k i) :
    ∃ t, s.tasks[tid]? = some t ∧ t.pc = .inFilter ∧ t.stage = k ∧ t.info.item = i := by
  unfold stepL at h
  cases ht : s.tasks[tid]? with
  | none => rw [ht] at h; cases h
  | some t =>
    rw [ht] at h
    simp only [] at h
    refine ⟨t, rfl, ?_⟩
    cases hpc : t.pc <;> rw [hpc] at h <;> simp only [] at h <;> (repeat' split at h) <;> simp_all [fail]

/-! ### `endedOf` is the base proofs' `taskEnded` -/

theorem endedOf_eq (t : Task) : endedOf t = taskEnded t := by
  unfold endedOf taskEnded; cases t.pc <;> rfl

theorem carries_of_ended {t : Task} (h : 1 ≤ endedOf t) : carries t = true := by
  unfold endedOf at h; unfold carries carriesPc
  cases hpc : t.pc <;> simp [hpc] at h ⊢

theorem heldObj_some {c : Cfg} {t : Task} {o : Obj} (h : heldObj c t = some o) :
    1 ≤ endedOf t ∧ endedOf t < c.n ∧ o = .tok t.info.item (endedOf t - 1) := by
  unfold heldObj at h
  split at h
  · rename_i hc; exact ⟨hc.1, hc.2, (Option.some.inj h).symm⟩
  · cases h

/-- `ended` of an item that a task carries -/
theorem ended_of_carry {c : Cfg} {s : St} (hA : InvA c s) {tid : Nat} {t : Task} (ht : s.tasks[tid]? = some t)
    (hc : carries t = true) : ended c s t.info.item = endedOf t := by
  have hl := hA.carry tid t ht hc
  unfold ended; simp only [hl, ht, endedOf_eq]

/-- no item has ended more filters than there are -/
theorem ended_le_n {c : Cfg} {s : St} (hA : InvA c s) (hE : InvE c s) (i : Nat) : ended c s i ≤ c.n := by
  unfold ended
  cases hl : s.loc[i]? with
  | none => simp
  | some l =>
    cases l with
    | retired => simp
    | parked j tok =>
      obtain ⟨info, ha, _⟩ := hE.locParked i j tok hl
      have := (hE.parkedStage j tok info ha).2.1
      simp only; omega
    | task tid =>
      simp only
      cases ht : s.tasks[tid]? with
      | none => simp
      | some t =>
        have hs := hA.stage tid t ht
        simp only [taskEnded]
        cases hpc : t.pc <;> simp only [] <;> try omega
        · have := (hs.1 hpc).2; omega
        · have := (hs.2.1 (by simp [midPc, hpc])).2; omega
        · have := (hs.2.1 (by simp [midPc, hpc])).2; omega
        · have := (hs.2.1 (by simp [midPc, hpc])).2; omega
        · have := (hs.2.1 (by simp [midPc, hpc])).2; omega

/-! ### phase lists -/

theorem syncPh_length (ph : List Phase) (n : Nat) (h : ph.length ≤ n) : (syncPh ph n).length = n := by
  unfold syncPh; simp; omega

/-- after a base step of `tid`: a phase other than `run` at index `j` was there before, at another task -/
theorem syncPh_get_ne_run {ph : List Phase} {tid n j : Nat} {p : Phase}
    (h : (syncPh (ph.set tid .run) n)[j]? = some p) (hp : p ≠ .run) : j ≠ tid ∧ ph[j]? = some p := by
  unfold syncPh at h
  rw [List.getElem?_append] at h
  split at h
  · rw [List.getElem?_set] at h
    split at h
    · split at h
      · exact absurd (Option.some.inj h).symm hp
      · cases h
    · rename_i hne; exact ⟨fun e => hne e.symm, h⟩
  · rw [List.getElem?_replicate] at h
    split at h
    · exact absurd (Option.some.inj h).symm hp
    · cases h

/-- ... and conversely every phase of another task is kept -/
theorem syncPh_get_other {ph : List Phase} {tid n j : Nat} {p : Phase} (hj : j ≠ tid) (h : ph[j]? = some p) :
    (syncPh (ph.set tid .run) n)[j]? = some p := by
  unfold syncPh
  have hlt : j < ph.length := by
    rcases Nat.lt_or_ge j ph.length with h1 | h1
    · exact h1
    · rw [List.getElem?_eq_none h1] at h; cases h
  rw [List.getElem?_append, if_pos (by rw [List.length_set]; exact hlt), List.getElem?_set, if_neg (fun e => hj e.symm)]
  exact h

theorem set_get {ph : List Phase} {tid j : Nat} {p q : Phase} (h : (ph.set tid p)[j]? = some q) :
    (j = tid ∧ q = p) ∨ (j ≠ tid ∧ ph[j]? = some q) := by
  rw [List.getElem?_set] at h
  split at h
  · rename_i he
    split at h
    · left; exact ⟨he.symm, (Option.some.inj h).symm⟩
    · cases h
  · rename_i hne; right; exact ⟨fun e => hne e.symm, h⟩

theorem set_get_other {ph : List Phase} {tid j : Nat} {p : Phase} (hj : j ≠ tid) : (ph.set tid p)[j]? = ph[j]? := by
  rw [List.getElem?_set, if_neg (fun e => hj e.symm)]

theorem set_get_self {ph : List Phase} {tid : Nat} {p : Phase} (h : tid < ph.length) : (ph.set tid p)[tid]? = some p := by
  rw [List.getElem?_set, if_pos rfl, if_pos h]

/-! ### counting: if no more tasks are alive than are gone, every alive task is gone -/

theorem gone_le_alive : ∀ (ts : List Task) (ph : List Phase), ph.length = ts.length →
    (∀ (j : Nat) (t : Task), ts[j]? = some t → ph[j]? = some Phase.gone → alive t = true) →
    ph.count Phase.gone ≤ ts.countP alive
  | [], [], _, _ => by simp
  | [], _ :: _, h, _ => by cases h
  | _ :: _, [], h, _ => by cases h
  | a :: ts, p :: ph, h, hg => by
    have ih := gone_le_alive ts ph (by simpa using h)
      (fun j t h1 h2 => hg (j + 1) t (by simpa using h1) (by simpa using h2))
    rw [List.count_cons, List.countP_cons]
    by_cases hp : p = Phase.gone
    · have ha := hg 0 a (by simp) (by simp [hp])
      simp [hp, ha]; omega
    · have hb : (p == Phase.gone) = false := by simp [hp]
      simp only [hb, Bool.false_eq_true, if_false, Nat.add_zero]; omega

theorem all_gone_of_count : ∀ (ts : List Task) (ph : List Phase), ph.length = ts.length →
    (∀ (j : Nat) (t : Task), ts[j]? = some t → ph[j]? = some Phase.gone → alive t = true) →
    ts.countP alive ≤ ph.count Phase.gone →
    ∀ (j : Nat) (t : Task), ts[j]? = some t → alive t = true → ph[j]? = some Phase.gone
  | [], _, _, _, _ => by intro j t h; simp at h
  | _ :: _, [], hl, _, _ => by cases hl
  | t0 :: ts, p0 :: ph, hl, hga, hc => by
    have hl' : ph.length = ts.length := by simpa using hl
    have hga' : ∀ (j : Nat) (t : Task), ts[j]? = some t → ph[j]? = some Phase.gone → alive t = true :=
      fun j t h1 h2 => hga (j + 1) t (by simpa using h1) (by simpa using h2)
    have htail := gone_le_alive ts ph hl' hga'
    rw [List.count_cons, List.countP_cons] at hc
    intro j t hj ha
    cases j with
    | zero =>
      simp only [List.getElem?_cons_zero, Option.some.injEq] at hj ⊢
      subst hj
      by_cases hp : p0 = Phase.gone
      · exact hp
      · have hb : (p0 == Phase.gone) = false := by simp [hp]
        simp only [hb, ha] at hc
        simp at hc; omega
    | succ j =>
      simp only [List.getElem?_cons_succ] at hj ⊢
      refine all_gone_of_count ts ph hl' hga' ?_ j t hj ha
      by_cases hp : p0 = Phase.gone
      · have ha0 := hga 0 t0 (by simp) (by simp [hp])
        simp [hp, ha0] at hc; omega
      · have hb : (p0 == Phase.gone) = false := by simp [hp]
        simp only [hb] at hc
        split at hc <;> simp at hc <;> omega

end TbbVerif.C07.Life
