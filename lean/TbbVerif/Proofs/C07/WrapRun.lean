/- C07 helper lemmas: the word-level `input_buffer` machine refines the unbounded one on whole operation sequences. -/
import TbbVerif.Proofs.C07.Wrap
import TbbVerif.Proofs.C07.Refine

namespace TbbVerif.C07.Wrap
open TbbVerif.C07

theorem wordOf_high (b : TokenBuf) : { wordOf b with high := winc (b.high % W) } = wordOf { b with high := b.high + 1 } := by
  unfold wordOf; simp only []; rw [winc_eq]

theorem wordOf_high' (b : TokenBuf) :
    ({ ordered := b.ordered, size := (wordOf b).size, low := (wordOf b).low, high := winc (b.high % W),
       slots := (wordOf b).slots } : TokenBuf) = wordOf { b with high := b.high + 1 } := by
  unfold wordOf; simp only []; rw [winc_eq]

theorem tryPut_w {b : TokenBuf} (h : WOK b) (info : Info)
    (hb : b.low ≤ TokenBuf.putToken b info ∧ TokenBuf.putToken b info - b.low < W / 2) :
    tryPut (wordOf b) (wInfo info) = (TokenBuf.tryPut b info).map wRes ∧
    ∀ r, TokenBuf.tryPut b info = some r → WOK r.1 := by
  have hhigh : WOK { b with high := b.high + 1 } := h
  unfold TokenBuf.putToken at hb
  unfold tryPut TokenBuf.tryPut
  have hord : (wordOf b).ordered = b.ordered := rfl
  have e2 : (wordOf b).high = b.high % W := rfl
  rw [hord]
  by_cases ho : b.ordered = true
  · rw [if_pos ho, if_pos ho]; rw [if_pos ho] at hb
    by_cases hr : info.ready = true
    · have e1 : (wInfo info).ready = true := hr
      rw [if_pos e1, if_pos hr]; rw [if_pos hr] at hb
      exact park_w h info hb.1 hb.2
    · have e1 : ¬ (wInfo info).ready = true := hr
      rw [if_neg e1, if_neg hr]; rw [if_neg hr] at hb
      rw [e2, wordOf_high']
      exact park_w hhigh { info with token := b.high, ready := true } hb.1 hb.2
  · rw [if_neg ho, if_neg ho]; rw [if_neg ho] at hb
    rw [e2, wordOf_high']
    exact park_w hhigh info hb.1 hb.2

/-! ### whole operation sequences -/

def stepW (b : TokenBuf) (op : BufOp) : TokenBuf × BufOut :=
  match op with
  | .put info => (match tryPut b info with
      | none => (b, .put none)
      | some r => (r.1, .put (some (r.2.1, r.2.2.1, r.2.2.2))))
  | .done => ((noteDone b).1, .done (noteDone b).2)
  | .tok => ((getOrderedToken b).1, .tok (getOrderedToken b).2)

/-- the word-level `input_buffer` whose counters start at `off` -/
def wordMach (o : Bool) (off : Nat) : Mach TokenBuf BufOp BufOut := { init := newAt o (off % W), step := stepW }

/-- the unbounded model started at the same offset -/
def natMach (o : Bool) (off : Nat) : Mach TokenBuf BufOp BufOut := { init := newAt o off, step := (ringMach o).step }

def wOp : BufOp → BufOp
  | .put i => .put (wInfo i)
  | .done => .done
  | .tok => .tok

def wOut : BufOut → BufOut
  | .put r => .put (r.map (fun x => (wInfo x.1, x.2.1 % W, x.2.2)))
  | .done r => .done (r.map wInfo)
  | .tok t => .tok (t % W)

/-- the bound the code needs at a `try_put_token`: the token is not below `low_token` and less than 2^(tokenBits-1) ahead -/
def okStep (b : TokenBuf) : BufOp → Prop
  | .put info => b.low ≤ TokenBuf.putToken b info ∧ TokenBuf.putToken b info - b.low < W / 2
  | _ => True

def okRun (o : Bool) : TokenBuf → List BufOp → Prop
  | _, [] => True
  | b, op :: ops => okStep b op ∧ okRun o ((ringMach o).step b op).1 ops

theorem step_w (o : Bool) {b : TokenBuf} (h : WOK b) (op : BufOp) (hok : okStep b op) :
    stepW (wordOf b) (wOp op) = (wordOf ((ringMach o).step b op).1, wOut ((ringMach o).step b op).2) ∧
    WOK ((ringMach o).step b op).1 := by
  cases op with
  | put info =>
    obtain ⟨e, hk⟩ := tryPut_w h info hok
    simp only [stepW, wOp, ringMach]
    rw [e]
    cases hp : TokenBuf.tryPut b info with
    | none => exact ⟨rfl, h⟩
    | some r => exact ⟨rfl, hk r hp⟩
  | done =>
    obtain ⟨e, hk⟩ := noteDone_w h
    simp only [stepW, wOp, ringMach]
    rw [e]
    exact ⟨rfl, hk⟩
  | tok =>
    simp only [stepW, wOp, ringMach]
    rw [getOrderedToken_w]
    exact ⟨rfl, h⟩

theorem run_w (o : Bool) (off : Nat) : ∀ (ops : List BufOp) (b : TokenBuf), WOK b → okRun o b ops →
    (wordMach o off).runFrom (wordOf b) (ops.map wOp) =
      (wordOf ((natMach o off).runFrom b ops).1, ((natMach o off).runFrom b ops).2.map wOut)
  | [], b, _, _ => rfl
  | op :: ops, b, h, hok => by
    obtain ⟨e, hk⟩ := step_w o h op hok.1
    have ih := run_w o off ops _ hk hok.2
    simp only [List.map_cons, Mach.runFrom]
    show (match stepW (wordOf b) (wOp op) with
      | (s', out) => match (wordMach o off).runFrom s' (ops.map wOp) with | (s'', outs) => (s'', out :: outs)) = _
    rw [e]
    simp only []
    rw [ih]
    rfl

theorem newAt_wok (o : Bool) (off : Nat) : WOK (newAt o off) := by
  obtain ⟨hwf, _⟩ := TokenBuf.new_wf o
  obtain ⟨k, hk⟩ := hwf.pow2
  refine ⟨k, by simpa [newAt] using hk, ?_, by simpa [newAt] using hwf.len⟩
  have : (TokenBuf.new o).size = Generated.C07.initialBufferSize := by cases o <;> decide
  rw [this] at hk
  have h4 : (2:Nat) ^ k < 2 ^ 64 := by rw [← hk]; decide
  have := (Nat.pow_lt_pow_iff_right (a := 2) (by omega)).1 h4
  omega

theorem wordOf_newAt (o : Bool) (off : Nat) : wordOf (newAt o off) = newAt o (off % W) := by
  unfold wordOf newAt
  have : wSlots (TokenBuf.new o).slots = (TokenBuf.new o).slots := by
    have : (TokenBuf.new o).slots = List.replicate Generated.C07.initialBufferSize none := by cases o <;> decide
    rw [this, wSlots_replicate]
  simp only [this]

end TbbVerif.C07.Wrap
