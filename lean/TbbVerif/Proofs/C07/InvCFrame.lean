/- C07 helper lemmas, part 11: `InvC` under steps that do not touch buffers, numbering or the logs of ordered filters. -/
import TbbVerif.Proofs.C07.InvC

namespace TbbVerif.C07

theorem countP_frame (p : Task → Bool) (l extra : List Task) (tid : Nat) (t t' : Task) (h : l[tid]? = some t)
    (hp : p t' = p t) (he : ∀ x ∈ extra, p x = false) :
    List.countP p ((l ++ extra).set tid t') = List.countP p l := by
  have := countP_set_append p l extra tid t t' h
  have h0 : List.countP p extra = 0 := by
    rw [List.countP_eq_zero]; intro x hx; rw [he x hx]; simp
  rw [hp, h0] at this
  omega

theorem own_carries (k : Nat) (t : Task) (h : own k t = true) : carries t = true := by
  unfold own at h; unfold carries
  cases hpc : t.pc <;> simp [hpc, ownPc, carriesPc] at h ⊢

/-- general frame: buffers and numbering untouched, occupancy of serial filters unchanged; the facts about
the logs of ordered filters are supplied by the caller -/
theorem invC_frame' {c : Cfg} {s : St} {tid : Nat} {t : Task} (hC : InvC c s) (s' : St) (extra : List Task) (t' : Task)
    (ht : s.tasks[tid]? = some t)
    (hbufs : s'.bufs = s.bufs) (hnum : s'.numbered = s.numbered)
    (htasks : s'.tasks = (s.tasks ++ extra).set tid t')
    (hown : ∀ k, (c.mode k).serial = true → own k t' = own k t)
    (hcar : carries t' = true → (carries t = true ∧ t'.info = t.info ∧ (assigned c t' → assigned c t)) ∨
      (t'.info.ready = false ∧ ¬ assigned c t' ∧ ∀ k, (c.mode k).serial = true → own k t' = false))
    (hextra : ∀ x ∈ extra, carries x = false ∧ ∀ k, own k x = false)
    (hseenLen : ∀ k, (c.mode k).ordered = true → 1 ≤ k →
      (s'.seen k).length = (s'.bufs k).low + s'.tasks.countP (inOrPast k))
    (hseenPre : ∀ k, (c.mode k).ordered = true → 1 ≤ k → s'.seen k <+: s'.numbered)
    (hseen0 : (c.mode 0).ordered = true → s'.seen 0 = s'.numbered) : InvC c s' := by
  have htid := lt_of_getElem? ht
  have hcnt_own : ∀ k, (c.mode k).serial = true → s'.tasks.countP (own k) = s.tasks.countP (own k) := by
    intro k hk
    rw [htasks]; exact countP_frame _ _ _ _ _ _ ht (hown k hk) (fun x hx => (hextra x hx).2 k)
  -- every task of s' that carries something is fresh-and-unnumbered or corresponds to a task of s with the same info
  have hback : ∀ (j : Nat) (x : Task), s'.tasks[j]? = some x → carries x = true →
      (x.info.ready = false ∧ ¬ assigned c x ∧ ∀ k, (c.mode k).serial = true → own k x = false) ∨
      ∃ y, s.tasks[j]? = some y ∧ carries y = true ∧ x.info = y.info ∧ (assigned c x → assigned c y) ∧
        (∀ k, (c.mode k).serial = true → own k x = own k y) := by
    intro j x hx hcx
    rw [htasks] at hx
    rcases get_set_append htid hx with ⟨rfl, rfl⟩ | ⟨_, hold⟩ | ⟨_, _, hmem⟩
    · rcases hcar hcx with ⟨h1, h2, h3⟩ | h
      · right; exact ⟨t, ht, h1, h2, h3, fun k hk => hown k hk⟩
      · left; exact h
    · right; exact ⟨x, hold, hcx, rfl, id, fun _ _ => rfl⟩
    · rw [(hextra x hmem).1] at hcx; cases hcx
  refine ⟨?_, ?_, ?_, ?_, ?_, ?_, ?_, ?_, ?_, ?_, ?_, ?_, ?_, hseenLen, hseenPre, hseen0⟩
  · intro k hk; rw [hcnt_own k hk]; exact hC.own1 k hk
  · intro k tok info h1 h2 h3; rw [hbufs] at h3 ⊢; exact hC.oooIn k tok info h1 h2 h3
  · intro k tok h1 h2 h3 h4; rw [hbufs] at h3 h4 ⊢; exact hC.oooFill k tok h1 h2 h3 h4
  · intro k h1 h2 h3; rw [hcnt_own k h1] at h3; rw [hbufs]; exact hC.oooOwn k h1 h2 h3
  · intro k h1 h2; rw [hbufs]; exact hC.oooLe k h1 h2
  · intro k h1 h2 h3; rw [hbufs] at h3; rw [hcnt_own k h1]; exact hC.oooEx k h1 h2 h3
  · intro k tok info h1 h2; rw [hbufs] at h2; exact hC.ordSlot k tok info h1 h2
  · intro k j x h1 hx hox
    rcases hback j x hx (own_carries k x hox) with ⟨_, _, hno⟩ | ⟨y, hy, _, hi, _, ho⟩
    · rw [hno k (ordered_serial h1)] at hox; cases hox
    · rw [hi, hbufs]
      exact hC.ordOwn k j y h1 hy (by rw [← ho k (ordered_serial h1)]; exact hox)
  · intro j x hx hcx hr
    rcases hback j x hx hcx with ⟨hnr, _, _⟩ | ⟨y, hy, hcy, hi, _, _⟩
    · rw [hnr] at hr; cases hr
    · rw [hi] at hr ⊢; rw [hnum]
      exact hC.numT j y hy hcy hr
  · intro k tok info h1 h2; rw [hbufs] at h1; rw [hnum]; exact hC.numP k tok info h1 h2
  · intro j x hx hcx ha
    rcases hback j x hx hcx with ⟨_, hna, _⟩ | ⟨y, hy, hcy, hi, hass, _⟩
    · exact absurd ha hna
    · rw [hi]; exact hC.rdyT j y hy hcy (hass ha)
  · intro k tok info h1 h2; rw [hbufs] at h1; exact hC.rdyP k tok info h1 h2
  · intro k h1 h2; rw [hbufs, hnum]; exact hC.high0 k h1 h2

theorem invC_frame {c : Cfg} {s : St} {tid : Nat} {t : Task} (hC : InvC c s) (s' : St) (extra : List Task) (t' : Task)
    (ht : s.tasks[tid]? = some t)
    (hbufs : s'.bufs = s.bufs) (hnum : s'.numbered = s.numbered)
    (hseen : ∀ k, (c.mode k).ordered = true → s'.seen k = s.seen k)
    (htasks : s'.tasks = (s.tasks ++ extra).set tid t')
    (hown : ∀ k, (c.mode k).serial = true → own k t' = own k t ∧ inOrPast k t' = inOrPast k t)
    (hcar : carries t' = true → (carries t = true ∧ t'.info = t.info ∧ (assigned c t' → assigned c t)) ∨
      (t'.info.ready = false ∧ ¬ assigned c t' ∧ ∀ k, (c.mode k).serial = true → own k t' = false))
    (hextra : ∀ x ∈ extra, carries x = false ∧ ∀ k, own k x = false) : InvC c s' := by
  have hcnt_iop : ∀ k, (c.mode k).serial = true → s'.tasks.countP (inOrPast k) = s.tasks.countP (inOrPast k) := by
    intro k hk
    rw [htasks]
    refine countP_frame _ _ _ _ _ _ ht (hown k hk).2 (fun x hx => ?_)
    cases h : inOrPast k x with
    | false => rfl
    | true => have := inOrPast_le_own k x h; rw [(hextra x hx).2 k] at this; cases this
  refine invC_frame' hC s' extra t' ht hbufs hnum htasks (fun k hk => (hown k hk).1) hcar hextra ?_ ?_ ?_
  · intro k h1 h2; rw [hseen k h1, hbufs, hcnt_iop k (ordered_serial h1)]; exact hC.seenLen k h1 h2
  · intro k h1 h2; rw [hseen k h1, hnum]; exact hC.seenPre k h1 h2
  · intro h1; rw [hseen 0 h1, hnum]; exact hC.seen0 h1

/-- the begin of a filter invocation (`call` → `inFilter`) -/
theorem invC_call {c : Cfg} {s : St} {tid : Nat} {t : Task} (hA : InvA c s) (hC : InvC c s)
    (ht : s.tasks[tid]? = some t) (hpc : t.pc = .call) :
    InvC c { setTask s tid { t with pc := .inFilter } with seen := upd s.seen t.stage (s.seen t.stage ++ [t.info.item]) } := by
  have hmid := (hA.stage tid t ht).2.1 (by simp [midPc, hpc])
  have hc : carries t = true := by simp [carries, carriesPc, hpc]
  have hown_t : own t.stage t = true := by simp [own, ownPc, hpc]
  refine invC_frame' hC _ [] { t with pc := .inFilter } ht rfl rfl (by simp [setTask]) ?_ ?_ (by simp) ?_ ?_ ?_
  · intro k _; simp [own, ownPc, hpc]
  · intro _; left
    refine ⟨hc, rfl, ?_⟩
    rintro ⟨k, hk, hor⟩
    refine ⟨k, hk, ?_⟩
    rcases hor with h1 | ⟨h1, _⟩
    · left; exact h1
    · right; exact ⟨h1, by rw [hpc]; simp⟩
  · intro k hk h1
    show (upd s.seen t.stage (s.seen t.stage ++ [t.info.item]) k).length = (s.bufs k).low + List.countP (inOrPast k) (s.tasks.set tid { t with pc := .inFilter })
    have e := countP_set_append (inOrPast k) s.tasks [] tid t { t with pc := .inFilter } ht
    simp only [List.append_nil, List.countP_nil, Nat.add_zero] at e
    have hl := hC.seenLen k hk h1
    by_cases hks : k = t.stage
    · subst hks
      rw [upd_same]
      simp [inOrPast, pastCallPc, hpc] at e
      simp only [List.length_append, List.length_cons, List.length_nil]
      omega
    · rw [upd_other _ _ _ _ hks]
      have h1' : inOrPast k t = false := by simp [inOrPast, Ne.symm hks]
      have h2' : inOrPast k { t with pc := .inFilter } = false := by simp [inOrPast, Ne.symm hks]
      rw [h1', h2'] at e
      simp at e
      omega
  · intro k hk h1
    show upd s.seen t.stage (s.seen t.stage ++ [t.info.item]) k <+: s.numbered
    by_cases hks : k = t.stage
    · subst hks
      rw [upd_same]
      -- no invocation of this filter is in progress, so `seen` has exactly `low` entries
      have hiop : s.tasks.countP (inOrPast t.stage) = 0 := by
        have e1 := countP_set_append (inOrPast t.stage) s.tasks [] tid t { t with pc := .inFilter } ht
        have e2 := countP_set_append (own t.stage) s.tasks [] tid t { t with pc := .inFilter } ht
        simp [inOrPast, pastCallPc, own, ownPc, hpc] at e1 e2
        have hle : List.countP (inOrPast t.stage) (s.tasks.set tid { t with pc := .inFilter }) ≤
            List.countP (own t.stage) (s.tasks.set tid { t with pc := .inFilter }) :=
          List.countP_mono_left (fun x _ hx => inOrPast_le_own _ x hx)
        have := hC.own1 t.stage (ordered_serial hk)
        omega
      have hl := hC.seenLen t.stage hk h1
      obtain ⟨hr, htok⟩ := hC.ordOwn t.stage tid t hk ht hown_t
      have hnum := hC.numT tid t ht hc hr
      refine prefix_snoc (hC.seenPre t.stage hk h1) ?_
      rw [hl, hiop, Nat.add_zero, ← htok]; exact hnum
    · rw [upd_other _ _ _ _ hks]; exact hC.seenPre k hk h1
  · intro h0
    show upd s.seen t.stage (s.seen t.stage ++ [t.info.item]) 0 = s.numbered
    rw [upd_other _ _ _ _ (by omega)]; exact hC.seen0 h0

end TbbVerif.C07
