/- C07 helper lemmas, part 6: `InvA` is inductive. -/
import TbbVerif.Proofs.C07.InvA

namespace TbbVerif.C07

theorem get_set_cases {l : List Task} {tid j : Nat} {t' x : Task} (htid : tid < l.length)
    (hx : (l.set tid t')[j]? = some x) : (j = tid ∧ x = t') ∨ (j ≠ tid ∧ l[j]? = some x) := by
  rw [List.getElem?_set] at hx
  by_cases hj : tid = j
  · subst hj; rw [if_pos rfl, if_pos htid] at hx; left; exact ⟨rfl, (Option.some.inj hx).symm⟩
  · rw [if_neg hj] at hx; right; exact ⟨fun e => hj e.symm, hx⟩

/-- the item carried by `tid` leaves the pipeline -/
theorem invA_retire {c : Cfg} {s : St} {tid : Nat} {t : Task} (hA : InvA c s) (s' : St) (t' : Task)
    (ht : s.tasks[tid]? = some t) (hc : carries t = true) (hnc : carries t' = false)
    (hprod : s'.produced = s.produced) (hloc : s'.loc = s.loc.set t.info.item .retired) (hbufs : SameMaps s s')
    (htasks : s'.tasks = s.tasks.set tid t') (hst : stageOk c t') : InvA c s' := by
  have htid := lt_of_getElem? ht
  have hmine := hA.carry tid t ht hc
  refine ⟨by rw [hloc, hprod, List.length_set]; exact hA.locLen, fun k => (hbufs k).1,
    fun k => by rw [(hbufs k).2.1]; exact hA.bufOrd k, ?_, ?_, ?_, ?_⟩
  · intro j x hx hcx
    rw [htasks] at hx
    rcases get_set_cases htid hx with ⟨rfl, rfl⟩ | ⟨hj, hx'⟩
    · rw [hnc] at hcx; cases hcx
    · have hne : t.info.item ≠ x.info.item := fun e => hj (carry_inj hA hx' ht hcx hc e.symm)
      rw [hloc, getElem?_set_ne' _ _ _ _ hne]; exact hA.carry j x hx' hcx
  · intro k tok info hi
    rw [(hbufs k).2.2] at hi
    have hne : t.info.item ≠ info.item := carry_ne_parked hA ht hc hi
    rw [hloc, getElem?_set_ne' _ _ _ _ hne]; exact hA.parked k tok info hi
  · intro i j hi
    rw [hloc, List.getElem?_set] at hi
    split at hi
    · first | cases hi | (split at hi <;> cases hi)
    · rename_i hne
      obtain ⟨x, hx, hcx, hix⟩ := hA.locTask i j hi
      have hj : j ≠ tid := by
        intro e; subst e; rw [ht] at hx; cases hx; exact hne hix
      exact ⟨x, by rw [htasks, getElem?_set_ne' _ _ _ _ (fun e => hj e.symm)]; exact hx, hcx, hix⟩
  · intro j x hx
    rw [htasks] at hx
    rcases get_set_cases htid hx with ⟨rfl, rfl⟩ | ⟨_, hx'⟩
    · exact hst
    · exact hA.stage j x hx'

/-- `try_put_token` parked the item carried by `tid` (whose task then ends) -/
theorem invA_park {c : Cfg} {s : St} {tid : Nat} {t : Task} (hA : InvA c s) (s' : St) (k tok : Nat) (info' : Info)
    (ht : s.tasks[tid]? = some t) (hc : carries t = true) (hitem : info'.item = t.info.item)
    (hprod : s'.produced = s.produced) (hloc : s'.loc = s.loc.set t.info.item (.parked k tok))
    (hbufs : ∀ k2, TokenBuf.WF (s'.bufs k2) ∧ (s'.bufs k2).ordered = (s.bufs k2).ordered ∧
      ∀ tok2, (s'.bufs k2).abs tok2 = if k2 = k ∧ tok2 = tok then some info' else (s.bufs k2).abs tok2)
    (htasks : s'.tasks = s.tasks.set tid { pc := .dead }) : InvA c s' := by
  have htid := lt_of_getElem? ht
  have hmine := hA.carry tid t ht hc
  have hlt : t.info.item < s.loc.length := lt_of_getElem? hmine
  refine ⟨by rw [hloc, hprod, List.length_set]; exact hA.locLen, fun k => (hbufs k).1,
    fun k => by rw [(hbufs k).2.1]; exact hA.bufOrd k, ?_, ?_, ?_, ?_⟩
  · intro j x hx hcx
    rw [htasks] at hx
    rcases get_set_cases htid hx with ⟨rfl, rfl⟩ | ⟨hj, hx'⟩
    · cases hcx
    · have hne : t.info.item ≠ x.info.item := fun e => hj (carry_inj hA hx' ht hcx hc e.symm)
      rw [hloc, getElem?_set_ne' _ _ _ _ hne]; exact hA.carry j x hx' hcx
  · intro k2 tok2 info hi
    rw [(hbufs k2).2.2] at hi
    split at hi
    · rename_i h; obtain ⟨rfl, rfl⟩ := h
      cases hi
      rw [hitem, hloc, getElem?_set_self' _ _ _ hlt]
    · have hne : t.info.item ≠ info.item := carry_ne_parked hA ht hc hi
      rw [hloc, getElem?_set_ne' _ _ _ _ hne]; exact hA.parked k2 tok2 info hi
  · intro i j hi
    rw [hloc, List.getElem?_set] at hi
    split at hi
    · first | cases hi | (split at hi <;> cases hi)
    · rename_i hne
      obtain ⟨x, hx, hcx, hix⟩ := hA.locTask i j hi
      have hj : j ≠ tid := by
        intro e; subst e; rw [ht] at hx; cases hx; exact hne hix
      exact ⟨x, by rw [htasks, getElem?_set_ne' _ _ _ _ (fun e => hj e.symm)]; exact hx, hcx, hix⟩
  · intro j x hx
    rw [htasks] at hx
    rcases get_set_cases htid hx with ⟨rfl, rfl⟩ | ⟨_, hx'⟩
    · exact stageOk_of_pc (by simp) (by simp [midPc]) (by simp [parInPc])
    · exact hA.stage j x hx'

/-- the note-done step released the parked item `w` into a new task -/
theorem invA_release {c : Cfg} {s : St} {tid : Nat} {t : Task} (hA : InvA c s) (s' : St) (w : Info)
    (ht : s.tasks[tid]? = some t) (hpc : t.pc = .noteDone)
    (hw : (s.bufs t.stage).abs ((s.bufs t.stage).low + 1) = some w)
    (hprod : s'.produced = s.produced)
    (hloc : s'.loc = (locDone c s t).set w.item (.task s.tasks.length))
    (hbufs : ∀ k2, TokenBuf.WF (s'.bufs k2) ∧ (s'.bufs k2).ordered = (s.bufs k2).ordered ∧
      ∀ tok2, (s'.bufs k2).abs tok2 = if k2 = t.stage ∧ tok2 = (s.bufs t.stage).low + 1 then none else (s.bufs k2).abs tok2)
    (htasks : s'.tasks = (s.tasks ++ [({ pc := .call, stage := t.stage, info := w } : Task)]).set tid (advance c t)) :
    InvA c s' := by
  have htid := lt_of_getElem? ht
  have hc : carries t = true := by simp [carries, carriesPc, hpc]
  have hmine := hA.carry tid t ht hc
  have hwloc := hA.parked _ _ w hw
  have hwlt : w.item < s.loc.length := lt_of_getElem? hwloc
  have hne_tw : t.info.item ≠ w.item := carry_ne_parked hA ht hc hw
  have hst := (hA.stage tid t ht).2.1 (by simp [midPc, hpc])
  -- the location list before the release
  have hld_len : (locDone c s t).length = s.loc.length := by unfold locDone; split <;> simp
  have hld_other : ∀ i, i ≠ t.info.item → (locDone c s t)[i]? = s.loc[i]? := by
    intro i hi; unfold locDone; split
    · exact getElem?_set_ne' _ _ _ _ (fun e => hi e.symm)
    · rfl
  have hloc_other : ∀ i, i ≠ t.info.item → i ≠ w.item → s'.loc[i]? = s.loc[i]? := by
    intro i h1 h2
    rw [hloc, getElem?_set_ne' _ _ _ _ (fun e => h2 e.symm)]; exact hld_other i h1
  have hloc_w : s'.loc[w.item]? = some (.task s.tasks.length) := by
    rw [hloc]; exact getElem?_set_self' _ _ _ (by rw [hld_len]; exact hwlt)
  have hloc_t : s'.loc[t.info.item]? = if t.stage + 1 = c.n then some .retired else some (.task tid) := by
    rw [hloc, getElem?_set_ne' _ _ _ _ (fun e => hne_tw e.symm)]
    unfold locDone; split
    · exact getElem?_set_self' _ _ _ (lt_of_getElem? hmine)
    · exact hmine
  refine ⟨by rw [hloc, hprod, List.length_set, hld_len]; exact hA.locLen, fun k => (hbufs k).1,
    fun k => by rw [(hbufs k).2.1]; exact hA.bufOrd k, ?_, ?_, ?_, ?_⟩
  · intro j x hx hcx
    rw [htasks] at hx
    rcases get_set_append htid hx with ⟨rfl, rfl⟩ | ⟨hj, hx'⟩ | ⟨hj, hge, hmem⟩
    · rw [advance_carries] at hcx
      rw [advance_info, hloc_t, if_neg (by simp at hcx; omega)]
    · have h1 : x.info.item ≠ t.info.item := fun e => hj (carry_inj hA hx' ht hcx hc e)
      have h2 : x.info.item ≠ w.item := carry_ne_parked hA hx' hcx hw
      rw [hloc_other _ h1 h2]; exact hA.carry j x hx' hcx
    · simp at hmem; subst hmem
      have hj' : j = s.tasks.length := by
        have := lt_of_getElem? hx
        rw [List.length_set, List.length_append] at this
        simp at this; omega
      rw [hj']; exact hloc_w
  · intro k2 tok2 info hi
    rw [(hbufs k2).2.2] at hi
    split at hi
    · cases hi
    · rename_i hnk
      have hold := hA.parked k2 tok2 info hi
      have h1 : info.item ≠ t.info.item := fun e => carry_ne_parked hA ht hc hi e.symm
      have h2 : info.item ≠ w.item := by
        intro e
        rw [e, hwloc] at hold
        cases hold
        exact hnk ⟨rfl, rfl⟩
      rw [hloc_other _ h1 h2]; exact hold
  · intro i j hi
    by_cases hiw : i = w.item
    · subst hiw
      rw [hloc_w] at hi; cases hi
      refine ⟨({ pc := .call, stage := t.stage, info := w } : Task), ?_, by simp [carries, carriesPc], rfl⟩
      rw [htasks, List.getElem?_set, if_neg (by omega), List.getElem?_append, if_neg (by omega)]
      simp
    · by_cases hit : i = t.info.item
      · subst hit
        rw [hloc_t] at hi
        split at hi
        · cases hi
        · rename_i hnl
          cases hi
          exact ⟨advance c t, by rw [htasks]; exact get_set_append_self htid,
            by rw [advance_carries]; simp; omega, by rw [advance_info]⟩
      · rw [hloc_other _ hit hiw] at hi
        obtain ⟨x, hx, hcx, hix⟩ := hA.locTask i j hi
        have hj : j ≠ tid := by
          intro e; subst e; rw [ht] at hx; cases hx; exact hit hix.symm
        exact ⟨x, by rw [htasks, get_set_append_other hj (lt_of_getElem? hx)]; exact hx, hcx, hix⟩
  · intro j x hx
    rw [htasks] at hx
    rcases get_set_append htid hx with ⟨rfl, rfl⟩ | ⟨_, hx'⟩ | ⟨_, _, hmem⟩
    · exact advance_stageOk c t
    · exact hA.stage j x hx'
    · simp at hmem; subst hmem
      refine ⟨fun h => (by cases h), fun _ => hst, ?_, fun x => (by simp [parInPc] at x)⟩
      rintro (h | h) <;> cases h

theorem upd_same {α : Type} (f : Nat → α) (k : Nat) (v : α) : upd f k v k = v := by simp [upd]
theorem upd_other {α : Type} (f : Nat → α) (k j : Nat) (v : α) (h : j ≠ k) : upd f k v j = f j := by simp [upd, h]

theorem sameMaps_upd {s s' : St} {k : Nat} {b' : TokenBuf} (hA : ∀ k, TokenBuf.WF (s.bufs k))
    (hb : s'.bufs = upd s.bufs k b') (hwf : TokenBuf.WF b') (hord : b'.ordered = (s.bufs k).ordered)
    (habs : ∀ t, b'.abs t = (s.bufs k).abs t) : SameMaps s s' := by
  intro k2
  rw [hb]
  by_cases h : k2 = k
  · subst h; rw [upd_same]; exact ⟨hwf, hord, habs⟩
  · rw [upd_other _ _ _ _ h]; exact ⟨hA k2, rfl, fun _ => rfl⟩

theorem sameMaps_produceS {c : Cfg} {s : St} (hA : ∀ k, TokenBuf.WF (s.bufs k)) (l : List Loc) :
    SameMaps s { produceS c s with loc := l } := by
  unfold produceS
  by_cases ho : (c.mode 0).ordered = true
  · obtain ⟨h1, _, _, _, h5, h6⟩ := TokenBuf.getOrderedToken_spec (s.bufs 0) (hA 0)
    exact sameMaps_upd hA (by simp [ho]) h1 h5 (fun t => by rw [h6])
  · exact SameMaps.of_eq hA (by simp [ho])

theorem invA_step {c : Cfg} (hv : c.Valid) {s : St} (tid : Nat) (hA : InvA c s) : InvA c (step c s tid) := by
  cases h : s.tasks[tid]? with
  | none => rw [step_none h]; exact hA
  | some t =>
    have htid := lt_of_getElem? h
    have hso := hA.stage tid t h
    have hsame : SameMaps s s := SameMaps.of_eq hA.bufWF rfl
    cases hpc : t.pc with
    | dead => rw [step_dead h hpc]; exact hA
    | start =>
      have hnc : carries t = false := by simp [carries, carriesPc, hpc]
      cases hm : (c.mode 0).serial with
      | true =>
        rw [step_startS h hpc hm]
        exact invA_frame hA _ [] { fresh with pc := .inCallS } h rfl rfl hsame (by simp [setTask]) (by simp [carries, carriesPc, hpc, fresh])
          (by rw [hnc]; intro x; cases x) (stageOk_of_pc (by simp [fresh]) (by simp [fresh, midPc]) (by simp [parInPc, fresh])) (by simp)
      | false =>
        cases he : s.eoi with
        | true =>
          rw [step_startP_eoi h hpc hm he]
          exact invA_frame hA _ [] { pc := .dead } h rfl rfl hsame (by simp [kill]) (by simp [carries, carriesPc, hpc])
            (by rw [hnc]; intro x; cases x) (stageOk_of_pc (by simp) (by simp [midPc]) (by simp [parInPc, fresh])) (by simp)
        | false =>
          rw [step_startP h hpc hm he]
          exact invA_frame hA _ [] { fresh with pc := .fsubP } h rfl rfl hsame (by simp [setTask]) (by simp [carries, carriesPc, hpc, fresh])
            (by rw [hnc]; intro x; cases x) (stageOk_of_pc (by simp [fresh]) (by simp [fresh, midPc]) (fun _ => hm)) (by simp)
    | inCallS =>
      have hnc : carries t = false := by simp [carries, carriesPc, hpc]
      by_cases hp : s.produced < c.total
      · by_cases hn : c.n = 1
        · rw [step_inCallS_one h hpc hp hn]
          exact invA_produce hA _ fresh .retired h hnc rfl rfl (sameMaps_produceS hA.bufWF (s.loc ++ [.retired])) (by simp [setTask, produceS])
            (Or.inr ⟨by simp [carries, carriesPc, fresh], rfl⟩) (stageOk_of_pc (by simp [fresh]) (by simp [fresh, midPc]) (by simp [parInPc, fresh]))
        · rw [step_inCallS h hpc hp hn]
          refine invA_produce hA _ { pc := .fsubS, stage := 0, info := infoS c s } (.task tid) h hnc rfl rfl (sameMaps_produceS hA.bufWF (s.loc ++ [.task tid])) (by simp [setTask, produceS])
            (Or.inl ⟨by simp [carries, carriesPc], rfl, ?_⟩) ⟨fun _ => ⟨rfl, ?_⟩, fun x => (by simp [midPc] at x), ?_, fun x => (by simp [parInPc] at x)⟩
          · simp only [infoS]; split <;> rfl
          · have := hv.n_pos; omega
          · rintro (x | x) <;> cases x
      · rw [step_inCallS_stop h hpc hp]
        exact invA_frame hA _ [] { pc := .dead } h rfl rfl hsame (by simp [kill]) (by simp [carries, carriesPc, hpc])
          (by rw [hnc]; intro x; cases x) (stageOk_of_pc (by simp) (by simp [midPc]) (by simp [parInPc, fresh])) (by simp)
    | fsubS =>
      have hc : carries t = true := by simp [carries, carriesPc, hpc]
      have hst := hso.1 hpc
      have hadv : carries (advance c t) = carries t := by rw [advance_carries, hc]; simp; omega
      rcases Nat.lt_or_ge 1 s.tokens with h1 | h1
      · rw [step_fsubS_spawn h hpc h1]
        exact invA_frame hA _ [fresh] (advance c t) h rfl rfl hsame (by simp [setTask, spawn]) hadv
          (fun _ => by rw [advance_info]) (advance_stageOk c t)
          (by intro x hx; simp at hx; subst hx
              exact ⟨by simp [carries, carriesPc, fresh], stageOk_of_pc (by simp [fresh]) (by simp [fresh, midPc]) (by simp [parInPc, fresh])⟩)
      · rcases Nat.eq_zero_or_pos s.tokens with h0 | h0
        · rw [step_fsubS_err h hpc h0]; exact ⟨hA.locLen, hA.bufWF, hA.bufOrd, hA.carry, hA.parked, hA.locTask, hA.stage⟩
        · rw [step_fsubS_last h hpc (by omega)]
          exact invA_frame hA _ [] (advance c t) h rfl rfl hsame (by simp [setTask]) hadv
            (fun _ => by rw [advance_info]) (advance_stageOk c t) (by simp)
    | fsubP =>
      have hnc : carries t = false := by simp [carries, carriesPc, hpc]
      rcases Nat.lt_or_ge 1 s.tokens with h1 | h1
      · rw [step_fsubP_spawn h hpc h1]
        exact invA_frame hA _ [fresh] { t with pc := .callInP } h rfl rfl hsame (by simp [setTask, spawn]) (by simp [carries, carriesPc, hpc])
          (by rw [hnc]; intro x; cases x) (stageOk_of_pc (by simp) (by simp [midPc]) (fun _ => hso.2.2.2 (by simp [parInPc, hpc])))
          (by intro x hx; simp at hx; subst hx
              exact ⟨by simp [carries, carriesPc, fresh], stageOk_of_pc (by simp [fresh]) (by simp [fresh, midPc]) (by simp [parInPc, fresh])⟩)
      · rcases Nat.eq_zero_or_pos s.tokens with h0 | h0
        · rw [step_fsubP_err h hpc h0]; exact ⟨hA.locLen, hA.bufWF, hA.bufOrd, hA.carry, hA.parked, hA.locTask, hA.stage⟩
        · rw [step_fsubP_last h hpc (by omega)]
          exact invA_frame hA _ [] { t with pc := .callInP } h rfl rfl hsame (by simp [setTask]) (by simp [carries, carriesPc, hpc])
            (by rw [hnc]; intro x; cases x) (stageOk_of_pc (by simp) (by simp [midPc]) (fun _ => hso.2.2.2 (by simp [parInPc, hpc]))) (by simp)
    | callInP =>
      have hnc : carries t = false := by simp [carries, carriesPc, hpc]
      rw [step_callInP h hpc]
      exact invA_frame hA _ [] { t with pc := .inCallP } h rfl rfl hsame (by simp [setTask]) (by simp [carries, carriesPc, hpc])
        (by rw [hnc]; intro x; cases x) (stageOk_of_pc (by simp) (by simp [midPc]) (fun _ => hso.2.2.2 (by simp [parInPc, hpc]))) (by simp)
    | inCallP =>
      have hnc : carries t = false := by simp [carries, carriesPc, hpc]
      by_cases hp : s.produced < c.total
      · rw [step_inCallP h hpc hp]
        refine invA_produce hA _ (advance c { t with stage := 0, info := { item := s.produced } }) (if c.n = 1 then .retired else .task tid) h hnc rfl rfl
          (SameMaps.of_eq hA.bufWF rfl) (by simp [setTask]) ?_ (advance_stageOk c _)
        rw [advance_carries, advance_info]
        by_cases hn : c.n = 1
        · right; simp [hn]
        · left; have := hv.n_pos; simp [hn]; omega
      · rw [step_inCallP_stop h hpc hp]
        exact invA_frame hA _ [] { pc := .dead } h rfl rfl hsame (by simp [kill]) (by simp [carries, carriesPc, hpc])
          (by rw [hnc]; intro x; cases x) (stageOk_of_pc (by simp) (by simp [midPc]) (by simp [parInPc, fresh])) (by simp)
    | put =>
      have hc : carries t = true := by simp [carries, carriesPc, hpc]
      cases hr : (s.bufs t.stage).tryPut t.info with
      | none => rw [step_put_reject h hpc hr]; exact ⟨hA.locLen, hA.bufWF, hA.bufOrd, hA.carry, hA.parked, hA.locTask, hA.stage⟩
      | some r =>
        obtain ⟨b', info', tok, p⟩ := r
        obtain ⟨e1, e2, e3, e4, e5, e6, e7, e8, e9⟩ := TokenBuf.tryPut_some _ _ (hA.bufWF t.stage) hr
        cases p with
        | true =>
          rw [step_put_parked h hpc hr]
          have hne : tok ≠ (s.bufs t.stage).low := by simpa using e4.symm
          refine invA_park hA _ t.stage tok info' h hc (by rw [e2, TokenBuf.putInfo_item]) rfl rfl ?_ (by simp [kill, afterPut])
          intro k2
          show TokenBuf.WF (upd s.bufs t.stage b' k2) ∧ (upd s.bufs t.stage b' k2).ordered = _ ∧ ∀ tok2, (upd s.bufs t.stage b' k2).abs tok2 = _
          by_cases hk : k2 = t.stage
          · subst hk
            rw [upd_same]
            refine ⟨e5, e7, fun tok2 => ?_⟩
            rw [e9 tok2]
            by_cases ht2 : tok2 = tok
            · rw [if_pos ⟨hne, ht2⟩, if_pos ⟨rfl, ht2⟩]
            · rw [if_neg (fun x => ht2 x.2), if_neg (fun x => ht2 x.2)]
          · rw [upd_other _ _ _ _ hk]
            exact ⟨hA.bufWF k2, rfl, fun tok2 => by rw [if_neg (fun x => hk x.1)]⟩
        | false =>
          rw [step_put_run h hpc hr]
          have heq : tok = (s.bufs t.stage).low := by
            have := e4.symm; simp at this; exact this
          refine invA_frame hA _ [] { t with pc := .call, info := info' } h rfl rfl ?_ (by simp [setTask, afterPut]) (by simp [carries, carriesPc, hpc])
            (fun _ => by simp [e2, TokenBuf.putInfo_item]) ?_ (by simp)
          · exact sameMaps_upd hA.bufWF (by simp [setTask, afterPut]) e5 e7
              (fun t2 => by rw [e9 t2, if_neg (fun x => x.1 heq)])
          · refine ⟨fun x => (by simp at x), fun _ => hso.2.1 (by simp [midPc, hpc]), ?_, fun x => (by simp [parInPc] at x)⟩
            rintro (x | x) <;> simp at x
    | call =>
      have hc : carries t = true := by simp [carries, carriesPc, hpc]
      rw [step_call h hpc]
      refine invA_frame hA _ [] { t with pc := .inFilter } h rfl rfl hsame (by simp [setTask]) (by simp [carries, carriesPc, hpc]) (fun _ => rfl) ?_ (by simp)
      refine ⟨fun x => (by simp at x), fun _ => hso.2.1 (by simp [midPc, hpc]), ?_, fun x => (by simp [parInPc] at x)⟩
      rintro (x | x) <;> simp at x
    | inFilter =>
      have hc : carries t = true := by simp [carries, carriesPc, hpc]
      have hmid := hso.2.1 (by simp [midPc, hpc])
      rw [step_inFilter h hpc]
      cases hm : (c.mode t.stage).serial with
      | true =>
        refine invA_frame hA _ [] { t with pc := .noteDone } h rfl (by simp [setTask]) hsame (by simp [setTask])
          (by simp [carries, carriesPc, hpc]) (fun _ => rfl) ?_ (by simp)
        refine ⟨fun x => (by simp at x), fun _ => hmid, fun _ => hm, fun x => (by simp [parInPc] at x)⟩
      | false =>
        by_cases hl : t.stage + 1 = c.n
        · refine invA_retire hA _ (advance c t) h hc ?_ rfl (by simp [setTask, hl]) hsame (by simp [setTask]) ?_
          · simp [advance_carries, hl]
          · exact advance_stageOk c t
        · refine invA_frame hA _ [] (advance c t) h rfl (by simp [setTask, hl]) hsame (by simp [setTask]) ?_
            (fun _ => by simp [advance_info]) (advance_stageOk c t) (by simp)
          simp [advance_carries, hc]; omega
    | noteDone =>
      have hc : carries t = true := by simp [carries, carriesPc, hpc]
      have hmid := hso.2.1 (by simp [midPc, hpc])
      obtain ⟨n1, n2, n3, n4, n5, n6⟩ := TokenBuf.noteDone_spec (s.bufs t.stage) (hA.bufWF t.stage)
      cases hr : (s.bufs t.stage).noteDone.2 with
      | none =>
        rw [step_noteDone_none h hpc hr]
        have hsm : SameMaps s { s with bufs := upd s.bufs t.stage (s.bufs t.stage).noteDone.1, loc := locDone c s t } :=
          sameMaps_upd hA.bufWF rfl n2 n5 (fun t2 => by
            rw [n6 t2]; split
            · rename_i e; rw [e, ← n1, hr]
            · rfl)
        by_cases hl : t.stage + 1 = c.n
        · exact invA_retire hA _ (advance c t) h hc (by simp [advance_carries, hl]) rfl (by simp [setTask, locDone, hl]) hsm
            (by simp [setTask]) (advance_stageOk c t)
        · exact invA_frame hA _ [] (advance c t) h rfl (by simp [setTask, locDone, hl]) hsm (by simp [setTask])
            (by simp [advance_carries, hc]; omega) (fun _ => by simp [advance_info]) (advance_stageOk c t) (by simp)
      | some w =>
        rw [step_noteDone_some h hpc hr]
        refine invA_release hA _ w h hpc (by rw [← n1, hr]) rfl (by simp [setTask, spawn]) ?_ (by simp [setTask, spawn])
        intro k2
        show TokenBuf.WF (upd s.bufs t.stage (s.bufs t.stage).noteDone.1 k2) ∧
          (upd s.bufs t.stage (s.bufs t.stage).noteDone.1 k2).ordered = _ ∧
          ∀ tok2, (upd s.bufs t.stage (s.bufs t.stage).noteDone.1 k2).abs tok2 = _
        by_cases hk : k2 = t.stage
        · subst hk
          rw [upd_same]
          refine ⟨n2, n5, fun tok2 => ?_⟩
          rw [n6 tok2]
          by_cases ht2 : tok2 = (s.bufs t.stage).low + 1
          · rw [if_pos ht2, if_pos ⟨rfl, ht2⟩]
          · rw [if_neg ht2, if_neg (fun x => ht2 x.2)]
        · rw [upd_other _ _ _ _ hk]
          exact ⟨hA.bufWF k2, rfl, fun tok2 => by rw [if_neg (fun x => hk x.1)]⟩
    | fadd =>
      have hnc : carries t = false := by simp [carries, carriesPc, hpc]
      rcases Nat.eq_zero_or_pos s.tokens with h0 | h0
      · rw [step_fadd_zero h hpc h0]
        exact invA_frame hA _ [] { t with pc := .ldEoi } h rfl rfl hsame (by simp [setTask]) (by simp [carries, carriesPc, hpc])
          (by rw [hnc]; intro x; cases x) (stageOk_of_pc (by simp) (by simp [midPc]) (by simp [parInPc, fresh])) (by simp)
      · rw [step_fadd_die h hpc h0]
        exact invA_frame hA _ [] { pc := .dead } h rfl rfl hsame (by simp [kill]) (by simp [carries, carriesPc, hpc])
          (by rw [hnc]; intro x; cases x) (stageOk_of_pc (by simp) (by simp [midPc]) (by simp [parInPc, fresh])) (by simp)
    | ldEoi =>
      have hnc : carries t = false := by simp [carries, carriesPc, hpc]
      cases he : s.eoi with
      | true =>
        rw [step_ldEoi_eoi h hpc he]
        exact invA_frame hA _ [] { pc := .dead } h rfl rfl hsame (by simp [kill]) (by simp [carries, carriesPc, hpc])
          (by rw [hnc]; intro x; cases x) (stageOk_of_pc (by simp) (by simp [midPc]) (by simp [parInPc, fresh])) (by simp)
      | false =>
        rw [step_ldEoi h hpc he]
        exact invA_frame hA _ [] fresh h rfl rfl hsame (by simp [setTask]) (by simp [carries, carriesPc, hpc, fresh])
          (by rw [hnc]; intro x; cases x) (stageOk_of_pc (by simp [fresh]) (by simp [fresh, midPc]) (by simp [parInPc, fresh])) (by simp)

theorem invA_init (c : Cfg) : InvA c (init c) := by
  refine ⟨rfl, fun k => (TokenBuf.new_wf _).1, fun k => (TokenBuf.new_wf _).2.2.2.1, ?_, ?_, ?_, ?_⟩
  · intro j x hx hcx
    have hm := List.mem_of_getElem? hx
    simp [init] at hm
    subst hm
    simp [carries, carriesPc, fresh] at hcx
  · intro k tok info hi
    simp only [init] at hi
    rw [(TokenBuf.new_wf _).2.2.2.2 tok] at hi; cases hi
  · intro i j hi; simp [init] at hi
  · intro j x hx
    have hm := List.mem_of_getElem? hx
    simp [init] at hm
    subst hm
    exact stageOk_of_pc (by simp [fresh]) (by simp [fresh, midPc]) (by simp [parInPc, fresh])

theorem invA_reachable {c : Cfg} (hv : c.Valid) (sched : List Tid) : InvA c ((sys c).run sched) :=
  Sys.inv_run (sys c) (InvA c) (invA_init c) (fun s t h => invA_step hv t h) sched

end TbbVerif.C07
