/- C07 helper lemmas, part 19: `InvE` across `try_put_token`. -/
import TbbVerif.Proofs.C07.InvEFrame

namespace TbbVerif.C07

/-- `try_put_token` never trips its assertion -/
theorem put_not_rejected {c : Cfg} {s : St} {tid : Nat} {t : Task} (hA : InvA c s) (hC : InvC c s) (hE : InvE c s)
    (ht : s.tasks[tid]? = some t) (hpc : t.pc = .put) : (s.bufs t.stage).tryPut t.info ≠ none := by
  have hso := hA.stage tid t ht
  have hmid := hso.2.1 (by simp [midPc, hpc])
  have hser : (c.mode t.stage).serial = true := hso.2.2.1 (Or.inl hpc)
  have hc : carries t = true := by simp [carries, carriesPc, hpc]
  have hbo := hA.bufOrd t.stage
  intro hnone
  have hs := TokenBuf.tryPut_spec (s.bufs t.stage) t.info (hA.bufWF t.stage)
  have hlt : TokenBuf.putToken (s.bufs t.stage) t.info < (s.bufs t.stage).low := by
    rcases Nat.lt_or_ge (TokenBuf.putToken (s.bufs t.stage) t.info) (s.bufs t.stage).low with h | h
    · exact h
    · obtain ⟨b', he, _⟩ := hs.2 h
      rw [hnone] at he; cases he
  unfold TokenBuf.putToken at hlt
  rw [hbo] at hlt
  cases ho : (c.mode t.stage).ordered with
  | false =>
    rw [ho] at hlt; simp at hlt
    have := hC.oooLe t.stage hser ho; omega
  | true =>
    rw [ho] at hlt
    cases hr : t.info.ready with
    | true =>
      rw [hr] at hlt; simp at hlt
      have hn := hC.numT tid t ht hc hr
      have := (hE.lowSep t.stage _ _ ho hmid.1 hn).1 hlt
      rw [left_of_task (hA.carry tid t ht hc) ht] at this
      omega
    | false =>
      rw [hr] at hlt; simp at hlt
      have hh : (s.bufs t.stage).high = s.numbered.length := by
        refine hC.high0 t.stage ho (fun j hj => ?_)
        cases hoj : (c.mode j).ordered with
        | false => rfl
        | true =>
          have := hC.rdyT tid t ht hc ⟨j, hoj, Or.inl hj⟩
          rw [hr] at this; cases this
      have := low_le_numbered hC t.stage ho hmid.1
      omega

theorem invE_put {c : Cfg} {s : St} {tid : Nat} {t : Task} (hA : InvA c s) (hC : InvC c s) (hE : InvE c s)
    (ht : s.tasks[tid]? = some t) (hpc : t.pc = .put) {b' : TokenBuf} {info' : Info} {tok : Nat} {p : Bool}
    (hr : (s.bufs t.stage).tryPut t.info = some (b', info', tok, p)) (s' : St) (t' : Task)
    (hbufs : s'.bufs = upd s.bufs t.stage b')
    (hnum : s'.numbered = if (s.bufs t.stage).ordered && !t.info.ready then s.numbered ++ [t.info.item] else s.numbered)
    (hprod : s'.produced = s.produced) (herr : s'.err = s.err)
    (hloc : s'.loc = if p then s.loc.set t.info.item (.parked t.stage tok) else s.loc)
    (htasks : s'.tasks = s.tasks.set tid t')
    (ht' : t' = if p then { pc := .dead } else { t with pc := .call, info := info' }) : InvE c s' := by
  have htid := lt_of_getElem? ht
  have hso := hA.stage tid t ht
  have hmid := hso.2.1 (by simp [midPc, hpc])
  have hser : (c.mode t.stage).serial = true := hso.2.2.1 (Or.inl hpc)
  have hc : carries t = true := by simp [carries, carriesPc, hpc]
  have hmine := hA.carry tid t ht hc
  have hbo := hA.bufOrd t.stage
  obtain ⟨e1, e2, e3, e4, e5, e6, e7, e8, e9⟩ := TokenBuf.tryPut_some _ _ (hA.bufWF t.stage) hr
  have hitem : info'.item = t.info.item := by rw [e2, TokenBuf.putInfo_item]
  have hp : p = true ↔ tok ≠ (s.bufs t.stage).low := by rw [e4]; simp
  have hb_other : ∀ k, k ≠ t.stage → s'.bufs k = s.bufs k := by
    intro k hk; rw [hbufs, upd_other _ _ _ _ hk]
  have hb_same : s'.bufs t.stage = b' := by rw [hbufs, upd_same]
  have hlow : ∀ k, (s'.bufs k).low = (s.bufs k).low := by
    intro k
    by_cases hk : k = t.stage
    · subst hk; rw [hb_same, e6]
    · rw [hb_other k hk]
  -- is the item being numbered by this call?
  have hcases : (s'.numbered = s.numbered ∧ info' = t.info) ∨
      (s'.numbered = s.numbered ++ [t.info.item] ∧ t.info.ready = false ∧ (c.mode t.stage).ordered = true ∧
        info'.ready = true ∧ info'.token = s.numbered.length ∧ tok = s.numbered.length) := by
    cases ho : (c.mode t.stage).ordered with
    | false =>
      left
      refine ⟨by rw [hnum, hbo, ho]; simp, ?_⟩
      rw [e2]; unfold TokenBuf.putInfo; rw [hbo, ho]; simp
    | true =>
      cases hrt : t.info.ready with
      | true =>
        left
        refine ⟨by rw [hnum, hrt]; simp, ?_⟩
        rw [e2]; unfold TokenBuf.putInfo; rw [hbo, ho, hrt]; simp
      | false =>
        right
        have hh : (s.bufs t.stage).high = s.numbered.length := by
          refine hC.high0 t.stage ho (fun j hj => ?_)
          cases hoj : (c.mode j).ordered with
          | false => rfl
          | true =>
            have := hC.rdyT tid t ht hc ⟨j, hoj, Or.inl hj⟩
            rw [hrt] at this; cases this
        refine ⟨by rw [hnum, hbo, ho, hrt]; simp, rfl, rfl, ?_, ?_, ?_⟩
        · rw [e2]; unfold TokenBuf.putInfo; rw [hbo, ho, hrt]; simp
        · rw [e2]; unfold TokenBuf.putInfo; rw [hbo, ho, hrt]; simp [hh]
        · rw [e1]; unfold TokenBuf.putToken; rw [hbo, ho, hrt]; simp [hh]
  -- old numbering entries survive; a new entry is the item of this call
  have hnum_cases : ∀ (tk i : Nat), s'.numbered[tk]? = some i →
      s.numbered[tk]? = some i ∨ (i = t.info.item ∧ tk = s.numbered.length ∧ s'.numbered = s.numbered ++ [t.info.item]) := by
    intro tk i hn
    rcases hcases with ⟨h, _⟩ | ⟨h, _⟩
    · left; rw [h] at hn; exact hn
    · rw [h, List.getElem?_append] at hn
      split at hn
      · left; exact hn
      · right
        rcases Nat.eq_zero_or_pos (tk - s.numbered.length) with h0 | h0
        · rw [h0] at hn; simp at hn; exact ⟨hn.symm, by omega, h⟩
        · rw [List.getElem?_eq_none (by simp; omega)] at hn; cases hn
  -- what the numbering says about the item of this call
  have hmy : ∀ (tk : Nat), s'.numbered[tk]? = some t.info.item → info'.ready = true ∧ info'.token = tk := by
    intro tk hn
    rcases hcases with ⟨h, hi⟩ | ⟨h, hnr, _, h4, h5, _⟩
    · rw [h] at hn; rw [hi]; exact hE.n3T tid t ht hc tk hn
    · rcases hnum_cases tk _ hn with hold | ⟨_, htk, _⟩
      · have := (hE.n3T tid t ht hc tk hold).1; rw [hnr] at this; cases this
      · rw [htk]; exact ⟨h4, h5⟩
  -- no parked entry is overwritten
  have hfree : p = true → (s.bufs t.stage).abs tok = none := by
    intro hpt
    cases ha : (s.bufs t.stage).abs tok with
    | none => rfl
    | some i2 =>
      exfalso
      cases ho : (c.mode t.stage).ordered with
      | false =>
        have := hC.oooIn t.stage tok i2 hser ho ha
        have htk : tok = (s.bufs t.stage).high := by rw [e1]; unfold TokenBuf.putToken; rw [hbo, ho]; simp
        omega
      | true =>
        obtain ⟨hr2, ht2⟩ := hC.ordSlot t.stage tok i2 ho ha
        have hn2 := hC.numP t.stage tok i2 ha hr2
        rw [ht2] at hn2
        rcases hcases with ⟨_, hi⟩ | ⟨_, _, _, _, _, h6⟩
        · cases hrt : t.info.ready with
          | true =>
            have htn := hC.numT tid t ht hc hrt
            have htk : t.info.token = tok := by rw [e1]; unfold TokenBuf.putToken; rw [hbo, ho, hrt]; simp
            rw [htk, hn2] at htn
            exact carry_ne_parked hA ht hc ha (Option.some.inj htn).symm
          | false =>
            have hx : info'.ready = true := by
              rw [e2]; unfold TokenBuf.putInfo; rw [hbo, ho, hrt]; simp
            rw [hi, hrt] at hx; cases hx
        · have := lt_of_getElem? hn2; omega
  have hlook : ∀ (j : Nat) (x : Task), s'.tasks[j]? = some x → (j = tid ∧ x = t') ∨ (j ≠ tid ∧ s.tasks[j]? = some x) := by
    intro j x hx; rw [htasks] at hx; exact get_set_cases htid hx
  have hcar_t' : carries t' = true → p = false ∧ t' = { t with pc := .call, info := info' } := by
    intro h; rw [ht'] at h ⊢
    cases p with
    | true => simp [carries, carriesPc] at h
    | false => exact ⟨rfl, rfl⟩
  have htasks' : s'.tasks = (s.tasks ++ []).set tid t' := by simpa using htasks
  -- where the item of this call is afterwards
  have hleft_mine : left c s' t.info.item = t.stage := by
    cases hpp : p with
    | true =>
      exact left_of_parked (s := s') (j := t.stage) (tok := tok)
        (by rw [hloc, hpp]; simp; exact getElem?_set_self' _ _ _ (lt_of_getElem? hmine))
    | false =>
      have h1 : s'.loc[t.info.item]? = some (.task tid) := by rw [hloc, hpp]; simp; exact hmine
      have h2 : s'.tasks[tid]? = some t' := by rw [htasks]; exact getElem?_set_self' _ _ _ htid
      rw [left_of_task h1 h2, ht', hpp]; simp
  have hleft_other : ∀ i, i ≠ t.info.item → left c s' i = left c s i := by
    intro i hi
    refine left_other hA ht htasks' i ?_ (not_mine_of_ne hA ht i hi)
    rw [hloc]; split
    · exact getElem?_set_ne' _ _ _ _ (fun e => hi e.symm)
    · rfl
  refine ⟨?_, ?_, ?_, ?_, ?_, ?_, ?_⟩
  · -- n3T
    intro j x hx hcx tk hn
    rcases hlook j x hx with ⟨_, rfl⟩ | ⟨hj, hold⟩
    · obtain ⟨_, hte⟩ := hcar_t' hcx
      rw [hte] at hn ⊢
      exact hmy tk (by simpa [hitem] using hn)
    · rcases hnum_cases tk _ hn with h | ⟨h, _, _⟩
      · exact hE.n3T j x hold hcx tk h
      · exact absurd (carry_inj hA hold ht hcx hc h) hj
  · -- n3P
    intro k tok' info ha tk hn
    by_cases hks : k = t.stage
    · subst hks
      rw [hb_same, e9 tok'] at ha
      split at ha
      · cases ha; rw [hitem] at hn; exact hmy tk hn
      · rcases hnum_cases tk _ hn with h | ⟨h, _, _⟩
        · exact hE.n3P _ tok' info ha tk h
        · exact absurd h.symm (carry_ne_parked hA ht hc ha)
    · rw [hb_other k hks] at ha
      rcases hnum_cases tk _ hn with h | ⟨h, _, _⟩
      · exact hE.n3P k tok' info ha tk h
      · exact absurd h.symm (carry_ne_parked hA ht hc ha)
  · -- numLt
    intro tk i hn
    rw [hprod]
    rcases hnum_cases tk i hn with h | ⟨h, _, _⟩
    · exact hE.numLt tk i h
    · rw [h]; exact item_lt_of_carry hA ht hc
  · -- lowSep
    intro k tk i ho h1 hn
    rw [hlow k]
    rcases hnum_cases tk i hn with h | ⟨hi, htk, happ⟩
    · by_cases hi : i = t.info.item
      · subst hi
        rw [hleft_mine, ← left_of_task hmine ht]; exact hE.lowSep k tk _ ho h1 h
      · rw [hleft_other i hi]; exact hE.lowSep k tk i ho h1 h
    · subst hi
      rw [hleft_mine, htk]
      have hL := low_le_numbered hC k ho h1
      rcases hcases with ⟨h, _⟩ | ⟨_, hnr, _, _, _, _⟩
      · rw [h] at happ; have := congrArg List.length happ; simp at this
      · -- an unnumbered item has not passed any ordered filter
        have hnk : ¬ k < t.stage := by
          intro hlt
          have := hC.rdyT tid t ht hc ⟨k, ho, Or.inl hlt⟩
          rw [hnr] at this; cases this
        constructor <;> intro h <;> omega
  · -- locParked
    intro i k tk hl
    rw [hloc] at hl
    cases hpp : p with
    | false =>
      rw [hpp] at hl; simp at hl
      obtain ⟨info, ha, hi⟩ := hE.locParked i k tk hl
      refine ⟨info, ?_, hi⟩
      by_cases hks : k = t.stage
      · subst hks
        rw [hb_same, e9 tk, if_neg (fun hh => by have := hp.2 hh.1; rw [hpp] at this; cases this)]; exact ha
      · rw [hb_other k hks]; exact ha
    | true =>
      rw [hpp] at hl; simp only [if_true] at hl
      rw [List.getElem?_set] at hl
      split at hl
      · rename_i hie
        split at hl
        · cases hl
          refine ⟨info', ?_, by rw [hitem]; exact hie⟩
          rw [hb_same, e9, if_pos ⟨hp.1 hpp, rfl⟩]
        · cases hl
      · obtain ⟨info, ha, hi⟩ := hE.locParked i k tk hl
        refine ⟨info, ?_, hi⟩
        by_cases hks : k = t.stage
        · subst hks
          rw [hb_same, e9 tk]
          by_cases htt : tk = tok
          · subst htt; rw [hfree hpp] at ha; cases ha
          · rw [if_neg (fun hh => htt hh.2)]; exact ha
        · rw [hb_other k hks]; exact ha
  · -- parkedStage
    intro k tk info ha
    by_cases hks : k = t.stage
    · subst hks; exact ⟨hmid.1, hmid.2, hser⟩
    · rw [hb_other k hks] at ha; exact hE.parkedStage k tk info ha
  · rw [herr]; exact hE.noErr

end TbbVerif.C07
