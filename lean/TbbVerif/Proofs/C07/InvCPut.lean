/- C07 helper lemmas, part 12: `InvC` across `try_put_token`. -/
import TbbVerif.Proofs.C07.InvCFrame

namespace TbbVerif.C07

theorem own_put (k : Nat) (t : Task) (hpc : t.pc = .put) : own k t = false := by simp [own, ownPc, hpc]
theorem own_dead (k : Nat) : own k ({ pc := .dead } : Task) = false := by simp [own, ownPc]

theorem invC_put {c : Cfg} {s : St} {tid : Nat} {t : Task} (hA : InvA c s) (hC : InvC c s)
    (ht : s.tasks[tid]? = some t) (hpc : t.pc = .put) {b' : TokenBuf} {info' : Info} {tok : Nat} {p : Bool}
    (hr : (s.bufs t.stage).tryPut t.info = some (b', info', tok, p)) (s' : St) (t' : Task)
    (hbufs : s'.bufs = upd s.bufs t.stage b')
    (hnum : s'.numbered = if (s.bufs t.stage).ordered && !t.info.ready then s.numbered ++ [t.info.item] else s.numbered)
    (hseen : s'.seen = s.seen)
    (htasks : s'.tasks = s.tasks.set tid t')
    (ht' : t' = if p then { pc := .dead } else { t with pc := .call, info := info' }) : InvC c s' := by
  have htid := lt_of_getElem? ht
  have hso := hA.stage tid t ht
  have hmid := hso.2.1 (by simp [midPc, hpc])
  have hser : (c.mode t.stage).serial = true := hso.2.2.1 (Or.inl hpc)
  have hc : carries t = true := by simp [carries, carriesPc, hpc]
  have hbo := hA.bufOrd t.stage
  obtain ⟨e1, e2, e3, e4, e5, e6, e7, e8, e9⟩ := TokenBuf.tryPut_some _ _ (hA.bufWF t.stage) hr
  -- numbering only grows
  have hnum_mono : ∀ (i x : Nat), s.numbered[i]? = some x → s'.numbered[i]? = some x := by
    intro i x hx; rw [hnum]; split
    · exact getElem?_append_of_some _ hx
    · exact hx
  have hpre_mono : ∀ l : List Nat, l <+: s.numbered → l <+: s'.numbered := by
    intro l hl; rw [hnum]; split
    · exact hl.trans (List.prefix_append _ _)
    · exact hl
  -- an unnumbered item reaches an ordered filter only at the first ordered filter
  have hfirst : (c.mode t.stage).ordered = true → t.info.ready = false →
      (s.bufs t.stage).high = s.numbered.length := by
    intro ho hnr
    refine hC.high0 t.stage ho (fun j hj => ?_)
    cases hoj : (c.mode j).ordered with
    | false => rfl
    | true =>
      have := hC.rdyT tid t ht hc ⟨j, hoj, Or.inl hj⟩
      rw [hnr] at this; cases this
  -- facts about the (possibly newly numbered) info
  have hitem : info'.item = t.info.item := by rw [e2, TokenBuf.putInfo_item]
  have hord_info : (c.mode t.stage).ordered = true → info'.ready = true ∧ info'.token = tok := by
    intro ho
    rw [e1, e2]; unfold TokenBuf.putInfo TokenBuf.putToken; rw [hbo, ho]
    cases hrd : t.info.ready <;> simp [hrd]
  have hooo_info : (c.mode t.stage).ordered = false → info' = t.info ∧ tok = (s.bufs t.stage).high ∧
      b'.high = (s.bufs t.stage).high + 1 ∧ s'.numbered = s.numbered := by
    intro ho
    refine ⟨?_, ?_, ?_, ?_⟩
    · rw [e2]; unfold TokenBuf.putInfo; rw [hbo, ho]; simp
    · rw [e1]; unfold TokenBuf.putToken; rw [hbo, ho]; simp
    · rw [e8]; unfold TokenBuf.putHigh; rw [hbo, ho]; simp
    · rw [hnum, hbo, ho]; simp
  have hnum_info : info'.ready = true → s'.numbered[info'.token]? = some info'.item := by
    intro hrd
    cases ho : (c.mode t.stage).ordered with
    | false =>
      obtain ⟨hi, _, _, hn⟩ := hooo_info ho
      rw [hi] at hrd ⊢; rw [hn]; exact hC.numT tid t ht hc hrd
    | true =>
      cases hrt : t.info.ready with
      | true =>
        have : info' = t.info := by rw [e2]; unfold TokenBuf.putInfo; rw [hbo, ho, hrt]; simp
        rw [this]; exact hnum_mono _ _ (hC.numT tid t ht hc hrt)
      | false =>
        have hh := hfirst ho hrt
        have hi : info' = { t.info with token := (s.bufs t.stage).high, ready := true } := by
          rw [e2]; unfold TokenBuf.putInfo; rw [hbo, ho, hrt]; simp
        rw [hi, hnum, hbo, ho, hrt]
        simp [hh]
  have hrdy_info : (∃ j, j ≤ t.stage ∧ (c.mode j).ordered = true) → info'.ready = true := by
    rintro ⟨j, hj, hoj⟩
    cases ho : (c.mode t.stage).ordered with
    | true => exact (hord_info ho).1
    | false =>
      have hjl : j < t.stage := by
        rcases Nat.lt_or_ge j t.stage with h | h
        · exact h
        · have : j = t.stage := by omega
          subst this; rw [ho] at hoj; cases hoj
      rw [(hooo_info ho).1]; exact hC.rdyT tid t ht hc ⟨j, hoj, Or.inl hjl⟩
  -- when the item may run now, the filter has no occupant
  have hfree : tok = (s.bufs t.stage).low → s.tasks.countP (own t.stage) = 0 := by
    intro htl
    rcases Nat.eq_zero_or_pos (s.tasks.countP (own t.stage)) with h0 | h0
    · exact h0
    · exfalso
      cases ho : (c.mode t.stage).ordered with
      | false =>
        have := hC.oooOwn t.stage hser ho h0
        have := (hooo_info ho).2.1
        omega
      | true =>
        obtain ⟨j, o, hj, hoo⟩ := exists_of_countP_pos _ _ h0
        obtain ⟨hor, hot⟩ := hC.ordOwn t.stage j o ho hj hoo
        have hon := hC.numT j o hj (own_carries _ _ hoo) hor
        cases hrt : t.info.ready with
        | true =>
          have htn := hC.numT tid t ht hc hrt
          have htk : t.info.token = tok := by
            rw [e1]; unfold TokenBuf.putToken; rw [hbo, ho, hrt]; simp
          rw [htk, htl, ← hot, hon] at htn
          have hjt := carry_inj hA hj ht (own_carries _ _ hoo) hc (Option.some.inj htn)
          subst hjt
          rw [ht] at hj; cases hj
          rw [own_put _ _ hpc] at hoo; cases hoo
        | false =>
          have hh := hfirst ho hrt
          have htk : tok = (s.bufs t.stage).high := by
            rw [e1]; unfold TokenBuf.putToken; rw [hbo, ho, hrt]; simp
          have hlt := lt_of_getElem? hon
          omega
  have hp : p = true ↔ tok ≠ (s.bufs t.stage).low := by rw [e4]; simp
  -- occupancy counts
  have hcnt : ∀ k, s'.tasks.countP (own k) + 0 = s.tasks.countP (own k) + (if own k t' = true then 1 else 0) := by
    intro k
    have := countP_set_append (own k) s.tasks [] tid t t' ht
    rw [own_put _ _ hpc] at this
    rw [htasks]; simpa using this
  have hown_t' : ∀ k, own k t' = (decide (k = t.stage) && !p) := by
    intro k; rw [ht']
    cases p with
    | true => simp [own_dead]
    | false => simp [own, ownPc, eq_comm]
  have hiop : ∀ k, s'.tasks.countP (inOrPast k) = s.tasks.countP (inOrPast k) := by
    intro k
    have := countP_set_append (inOrPast k) s.tasks [] tid t t' ht
    have h1 : inOrPast k t = false := by simp [inOrPast, pastCallPc, hpc]
    have h2 : inOrPast k t' = false := by
      rw [ht']; cases p <;> simp [inOrPast, pastCallPc]
    rw [h1, h2] at this
    rw [htasks]; simpa using this
  -- the buffers
  have hb_other : ∀ k, k ≠ t.stage → s'.bufs k = s.bufs k := by
    intro k hk; rw [hbufs, upd_other _ _ _ _ hk]
  have hb_same : s'.bufs t.stage = b' := by rw [hbufs, upd_same]
  -- lookups in the new task list
  have hlook : ∀ (j : Nat) (x : Task), s'.tasks[j]? = some x → (j = tid ∧ x = t') ∨ (j ≠ tid ∧ s.tasks[j]? = some x) := by
    intro j x hx; rw [htasks] at hx; exact get_set_cases htid hx
  have hcar_t' : carries t' = true → p = false ∧ t' = { t with pc := .call, info := info' } := by
    intro h; rw [ht'] at h ⊢
    cases p with
    | true => simp [carries, carriesPc] at h
    | false => exact ⟨rfl, rfl⟩
  refine ⟨?_, ?_, ?_, ?_, ?_, ?_, ?_, ?_, ?_, ?_, ?_, ?_, ?_, ?_, ?_, ?_⟩
  · -- own1
    intro k hk
    have := hcnt k; rw [hown_t' k] at this
    by_cases hks : k = t.stage
    · subst hks
      cases hpp : p with
      | true => rw [hpp] at this; simp at this; rw [this]; exact hC.own1 _ hk
      | false =>
        have hz := hfree (by
          have := hp; rw [hpp] at this; simp at this; exact this)
        rw [hpp] at this; simp at this; omega
    · simp [hks] at this; rw [this]; exact hC.own1 k hk
  · -- oooIn
    intro k tok2 info hk ho ha
    by_cases hks : k = t.stage
    · subst hks
      rw [hb_same] at ha ⊢
      obtain ⟨_, htk, hhi, _⟩ := hooo_info ho
      rw [e9 tok2] at ha
      rw [e6, hhi]
      split at ha
      · rename_i hh; rw [hh.2, htk]
        have := hC.oooLe _ hk ho
        have := hh.1; omega
      · have := hC.oooIn _ tok2 info hk ho ha; omega
    · rw [hb_other k hks] at ha ⊢; exact hC.oooIn k tok2 info hk ho ha
  · -- oooFill
    intro k tok2 hk ho h1 h2
    by_cases hks : k = t.stage
    · subst hks
      rw [hb_same] at h1 h2 ⊢
      obtain ⟨_, htk, hhi, _⟩ := hooo_info ho
      rw [e6] at h1; rw [hhi] at h2
      rw [e9 tok2]
      by_cases h3 : tok2 = tok
      · rw [if_pos ⟨by omega, h3⟩]; simp
      · rw [if_neg (fun hh => h3 hh.2)]
        exact hC.oooFill _ tok2 hk ho h1 (by omega)
    · rw [hb_other k hks] at h1 h2 ⊢; exact hC.oooFill k tok2 hk ho h1 h2
  · -- oooOwn
    intro k hk ho h1
    by_cases hks : k = t.stage
    · subst hks
      rw [hb_same, e6, (hooo_info ho).2.2.1]
      have := hC.oooLe _ hk ho; omega
    · rw [hb_other k hks]
      have := hcnt k; rw [hown_t' k] at this; simp [hks] at this
      rw [this] at h1; exact hC.oooOwn k hk ho h1
  · -- oooLe
    intro k hk ho
    by_cases hks : k = t.stage
    · subst hks
      rw [hb_same, e6, (hooo_info ho).2.2.1]
      have := hC.oooLe _ hk ho; omega
    · rw [hb_other k hks]; exact hC.oooLe k hk ho
  · -- oooEx
    intro k hk ho h1
    have hc' := hcnt k; rw [hown_t' k] at hc'
    by_cases hks : k = t.stage
    · subst hks
      cases hpp : p with
      | false => rw [hpp] at hc'; simp at hc'; omega
      | true =>
        rw [hpp] at hc'; simp at hc'
        rw [hc']
        refine hC.oooEx _ hk ho ?_
        have hne := hp.1 hpp
        have := (hooo_info ho).2.1
        have := hC.oooLe _ hk ho
        omega
    · simp [hks] at hc'
      rw [hb_other k hks] at h1
      rw [hc']; exact hC.oooEx k hk ho h1
  · -- ordSlot
    intro k tok2 info ho ha
    by_cases hks : k = t.stage
    · subst hks
      rw [hb_same, e9 tok2] at ha
      split at ha
      · rename_i hh; cases ha
        rw [hh.2]; exact hord_info ho
      · exact hC.ordSlot _ tok2 info ho ha
    · rw [hb_other k hks] at ha; exact hC.ordSlot k tok2 info ho ha
  · -- ordOwn
    intro k j x ho hx hox
    rcases hlook j x hx with ⟨rfl, rfl⟩ | ⟨_, hold⟩
    · have hh := hown_t' k; rw [hox] at hh
      simp at hh
      obtain ⟨hks, hpf⟩ := hh
      subst hks
      obtain ⟨_, hte⟩ := hcar_t' (own_carries _ _ hox)
      rw [hte, hb_same, e6]
      have := hord_info ho
      refine ⟨this.1, ?_⟩
      show info'.token = _
      rw [this.2]
      have := hp; rw [hpf] at this; simp at this; exact this
    · by_cases hks : k = t.stage
      · subst hks
        rw [hb_same, e6]; exact hC.ordOwn _ j x ho hold hox
      · rw [hb_other k hks]; exact hC.ordOwn k j x ho hold hox
  · -- numT
    intro j x hx hcx hrx
    rcases hlook j x hx with ⟨rfl, rfl⟩ | ⟨_, hold⟩
    · obtain ⟨_, hte⟩ := hcar_t' hcx
      rw [hte] at hrx ⊢
      exact hnum_info hrx
    · exact hnum_mono _ _ (hC.numT j x hold hcx hrx)
  · -- numP
    intro k tok2 info ha hri
    by_cases hks : k = t.stage
    · subst hks
      rw [hb_same, e9 tok2] at ha
      split at ha
      · cases ha; exact hnum_info hri
      · exact hnum_mono _ _ (hC.numP _ tok2 info ha hri)
    · rw [hb_other k hks] at ha; exact hnum_mono _ _ (hC.numP k tok2 info ha hri)
  · -- rdyT
    intro j x hx hcx hax
    rcases hlook j x hx with ⟨rfl, rfl⟩ | ⟨_, hold⟩
    · obtain ⟨_, hte⟩ := hcar_t' hcx
      rw [hte] at hax ⊢
      obtain ⟨k, hk, hor⟩ := hax
      refine hrdy_info ⟨k, ?_, hk⟩
      rcases hor with h1 | ⟨h1, _⟩
      · exact Nat.le_of_lt h1
      · exact Nat.le_of_eq h1
    · exact hC.rdyT j x hold hcx hax
  · -- rdyP
    intro k tok2 info ha hex
    by_cases hks : k = t.stage
    · subst hks
      rw [hb_same, e9 tok2] at ha
      split at ha
      · cases ha; exact hrdy_info hex
      · exact hC.rdyP _ tok2 info ha hex
    · rw [hb_other k hks] at ha; exact hC.rdyP k tok2 info ha hex
  · -- high0
    intro k ho hall
    by_cases hks : k = t.stage
    · subst hks
      rw [hb_same, e8, hnum, hbo, ho]
      unfold TokenBuf.putHigh; rw [hbo, ho]
      cases hrt : t.info.ready with
      | true => simp; exact hC.high0 _ ho hall
      | false => simp; exact hC.high0 _ ho hall
    · rw [hb_other k hks]
      have hsame : s'.numbered = s.numbered := by
        rw [hnum]
        cases hot : (s.bufs t.stage).ordered with
        | false => simp
        | true =>
          cases hrt : t.info.ready with
          | true => simp
          | false =>
            exfalso
            rw [hbo] at hot
            -- both k and t.stage would be the first ordered filter
            rcases Nat.lt_or_ge k t.stage with hlt | hge
            · have := hC.rdyT tid t ht hc ⟨k, ho, Or.inl hlt⟩
              rw [hrt] at this; cases this
            · have := hall t.stage (by omega)
              rw [hot] at this; cases this
      rw [hsame]; exact hC.high0 k ho hall
  · -- seenLen
    intro k ho h1
    rw [hseen, hiop k]
    by_cases hks : k = t.stage
    · subst hks; rw [hb_same, e6]; exact hC.seenLen _ ho h1
    · rw [hb_other k hks]; exact hC.seenLen k ho h1
  · intro k ho h1; rw [hseen]; exact hpre_mono _ (hC.seenPre k ho h1)
  · intro h0
    rw [hseen, hC.seen0 h0]
    -- with an ordered input filter every carried item is numbered already
    have hrd := hC.rdyT tid t ht hc ⟨0, h0, Or.inl (by omega)⟩
    rw [hnum, hrd]; simp

end TbbVerif.C07
