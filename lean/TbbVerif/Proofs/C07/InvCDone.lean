/- C07 helper lemmas, part 13: `InvC` across the note-done step and the serial input filter's return. -/
import TbbVerif.Proofs.C07.InvCPut

namespace TbbVerif.C07

theorem countP_ge_two (p : Task → Bool) (hd : p ({ pc := .dead } : Task) = false) (l : List Task) (i j : Nat) (x y : Task)
    (hx : l[i]? = some x) (hy : l[j]? = some y) (hij : i ≠ j) (px : p x = true) (py : p y = true) :
    2 ≤ l.countP p := by
  have h1 := countP_set_of_getElem? p l i { pc := .dead } x hx
  rw [px, hd] at h1
  have h2 : (l.set i { pc := .dead })[j]? = some y := by rw [getElem?_set_ne' _ _ _ _ hij]; exact hy
  have h3 := countP_pos_of_mem p _ j y h2 py
  simp at h1
  omega

theorem invC_noteDone {c : Cfg} {s : St} {tid : Nat} {t : Task} (hA : InvA c s) (hC : InvC c s)
    (ht : s.tasks[tid]? = some t) (hpc : t.pc = .noteDone) (s' : St) (extra : List Task)
    (hbufs : s'.bufs = upd s.bufs t.stage (s.bufs t.stage).noteDone.1)
    (hnum : s'.numbered = s.numbered) (hseen : s'.seen = s.seen)
    (htasks : s'.tasks = (s.tasks ++ extra).set tid (advance c t))
    (hextra : extra = match (s.bufs t.stage).noteDone.2 with
      | none => []
      | some w => [({ pc := .call, stage := t.stage, info := w } : Task)]) : InvC c s' := by
  have htid := lt_of_getElem? ht
  have hso := hA.stage tid t ht
  have hmid := hso.2.1 (by simp [midPc, hpc])
  have hser : (c.mode t.stage).serial = true := hso.2.2.1 (Or.inr hpc)
  have hc : carries t = true := by simp [carries, carriesPc, hpc]
  have hown_t : own t.stage t = true := by simp [own, ownPc, hpc]
  obtain ⟨n1, n2, n3, n4, n5, n6⟩ := TokenBuf.noteDone_spec (s.bufs t.stage) (hA.bufWF t.stage)
  have hb_other : ∀ k, k ≠ t.stage → s'.bufs k = s.bufs k := by
    intro k hk; rw [hbufs, upd_other _ _ _ _ hk]
  have hb_same : s'.bufs t.stage = (s.bufs t.stage).noteDone.1 := by rw [hbufs, upd_same]
  have habs_sub : ∀ k tok info, (s'.bufs k).abs tok = some info → (s.bufs k).abs tok = some info ∧
      (k = t.stage → tok ≠ (s.bufs t.stage).low + 1) := by
    intro k tok info ha
    by_cases hks : k = t.stage
    · subst hks
      rw [hb_same, n6 tok] at ha
      split at ha
      · cases ha
      · rename_i hne; exact ⟨ha, fun _ => hne⟩
    · rw [hb_other k hks] at ha; exact ⟨ha, fun h => absurd h hks⟩
  -- t is the only occupant of its filter
  have hcnt1 : s.tasks.countP (own t.stage) = 1 := by
    have := hC.own1 t.stage hser
    have := countP_pos_of_mem _ _ tid t ht hown_t
    omega
  have honly : ∀ (j : Nat) (x : Task), s.tasks[j]? = some x → own t.stage x = true → j = tid := by
    intro j x hx hox
    rcases Nat.decEq j tid with hne | he
    · exfalso
      have := countP_ge_two (own t.stage) (by simp [own, ownPc]) s.tasks j tid x t hx ht hne hox hown_t
      omega
    · exact he
  -- the released item, if any
  have hrel : ∀ w, (s.bufs t.stage).noteDone.2 = some w → (s.bufs t.stage).abs ((s.bufs t.stage).low + 1) = some w := by
    intro w hw; rw [← n1, hw]
  have hex_own : ∀ k x, x ∈ extra → own k x = decide (k = t.stage) := by
    intro k x hx
    rw [hextra] at hx
    split at hx
    · cases hx
    · simp at hx; subst hx; simp [own, ownPc, eq_comm]
  have hex_iop : ∀ k x, x ∈ extra → inOrPast k x = false := by
    intro k x hx
    rw [hextra] at hx
    split at hx
    · cases hx
    · simp at hx; subst hx; simp [inOrPast, pastCallPc]
  -- counts
  have hcnt_other : ∀ k, (c.mode k).serial = true → k ≠ t.stage → s'.tasks.countP (own k) = s.tasks.countP (own k) := by
    intro k hk hks
    rw [htasks]
    refine countP_frame _ _ _ _ _ _ ht ?_ (fun x hx => by rw [hex_own k x hx]; simp [hks])
    rw [own_advance c t k hk]; simp [own, Ne.symm hks]
  have hcnt_same : s'.tasks.countP (own t.stage) = extra.length := by
    have := countP_set_append (own t.stage) s.tasks extra tid t (advance c t) ht
    rw [hown_t, own_advance c t _ hser, hcnt1] at this
    have hall : extra.countP (own t.stage) = extra.length := by
      rw [List.countP_eq_length]; intro x hx; rw [hex_own _ x hx]; simp
    rw [htasks]; simp at this; omega
  have hiop_cnt : ∀ k, (c.mode k).serial = true →
      s'.tasks.countP (inOrPast k) + (if k = t.stage then 1 else 0) = s.tasks.countP (inOrPast k) := by
    intro k hk
    have := countP_set_append (inOrPast k) s.tasks extra tid t (advance c t) ht
    rw [inOrPast_advance c t k hk] at this
    have h0 : extra.countP (inOrPast k) = 0 := by
      rw [List.countP_eq_zero]; intro x hx; rw [hex_iop k x hx]; simp
    rw [h0] at this
    rw [htasks]
    by_cases hks : k = t.stage
    · subst hks
      have h1 : inOrPast t.stage t = true := by simp [inOrPast, pastCallPc, hpc]
      rw [h1] at this; simp at this ⊢; omega
    · have h1 : inOrPast k t = false := by simp [inOrPast, Ne.symm hks]
      rw [h1] at this; simp [hks] at this ⊢; omega
  -- lookups
  have hlook : ∀ (j : Nat) (x : Task), s'.tasks[j]? = some x →
      (j = tid ∧ x = advance c t) ∨ (j ≠ tid ∧ s.tasks[j]? = some x) ∨ (x ∈ extra) := by
    intro j x hx; rw [htasks] at hx
    rcases get_set_append htid hx with h | h | ⟨_, _, h⟩
    · exact Or.inl h
    · exact Or.inr (Or.inl h)
    · exact Or.inr (Or.inr h)
  have hex_mem : ∀ x, x ∈ extra → ∃ w, (s.bufs t.stage).noteDone.2 = some w ∧ x = { pc := .call, stage := t.stage, info := w } := by
    intro x hx
    rw [hextra] at hx
    split at hx
    · cases hx
    · rename_i w hw; simp at hx; exact ⟨w, hw, hx⟩
  have hex_len : extra.length = if (s.bufs t.stage).abs ((s.bufs t.stage).low + 1) = none then 0 else 1 := by
    rw [hextra, ← n1]
    split <;> rename_i h <;> simp [h]
  refine ⟨?_, ?_, ?_, ?_, ?_, ?_, ?_, ?_, ?_, ?_, ?_, ?_, ?_, ?_, ?_, ?_⟩
  · -- own1
    intro k hk
    by_cases hks : k = t.stage
    · subst hks; rw [hcnt_same, hex_len]; split <;> omega
    · rw [hcnt_other k hk hks]; exact hC.own1 k hk
  · -- oooIn
    intro k tok info hk ho ha
    obtain ⟨hold, hne⟩ := habs_sub k tok info ha
    have := hC.oooIn k tok info hk ho hold
    by_cases hks : k = t.stage
    · subst hks
      rw [hb_same, n3, n4]
      have := hne rfl; omega
    · rw [hb_other k hks]; exact this
  · -- oooFill
    intro k tok hk ho h1 h2
    by_cases hks : k = t.stage
    · subst hks
      rw [hb_same] at h1 h2 ⊢
      rw [n3] at h1; rw [n4] at h2
      rw [n6 tok, if_neg (by omega)]
      exact hC.oooFill _ tok hk ho (by omega) h2
    · rw [hb_other k hks] at h1 h2 ⊢; exact hC.oooFill k tok hk ho h1 h2
  · -- oooOwn
    intro k hk ho h1
    by_cases hks : k = t.stage
    · subst hks
      rw [hcnt_same, hex_len] at h1
      rw [hb_same, n3, n4]
      split at h1
      · omega
      · rename_i hne
        cases hw : (s.bufs t.stage).abs ((s.bufs t.stage).low + 1) with
        | none => exact absurd hw hne
        | some w => have := hC.oooIn _ _ w hk ho hw; omega
    · rw [hb_other k hks]; rw [hcnt_other k hk hks] at h1; exact hC.oooOwn k hk ho h1
  · -- oooLe
    intro k hk ho
    by_cases hks : k = t.stage
    · subst hks
      rw [hb_same, n3, n4]
      have := hC.oooOwn _ hk ho (by omega); omega
    · rw [hb_other k hks]; exact hC.oooLe k hk ho
  · -- oooEx
    intro k hk ho h1
    by_cases hks : k = t.stage
    · subst hks
      rw [hb_same, n3, n4] at h1
      rw [hcnt_same, hex_len]
      have := hC.oooFill _ ((s.bufs t.stage).low + 1) hk ho (by omega) h1
      rw [if_neg this]; omega
    · rw [hb_other k hks] at h1; rw [hcnt_other k hk hks]; exact hC.oooEx k hk ho h1
  · -- ordSlot
    intro k tok info ho ha
    exact hC.ordSlot k tok info ho (habs_sub k tok info ha).1
  · -- ordOwn
    intro k j x ho hx hox
    rcases hlook j x hx with ⟨_, rfl⟩ | ⟨hj, hold⟩ | hmem
    · rw [own_advance c t k (ordered_serial ho)] at hox; cases hox
    · by_cases hks : k = t.stage
      · subst hks; exact absurd (honly j x hold hox) hj
      · rw [hb_other k hks]; exact hC.ordOwn k j x ho hold hox
    · obtain ⟨w, hw, rfl⟩ := hex_mem x hmem
      rw [hex_own k _ hmem] at hox; simp at hox; subst hox
      have := hC.ordSlot _ _ w ho (hrel w hw)
      rw [hb_same, n3]; exact this
  · -- numT
    intro j x hx hcx hrx
    rw [hnum]
    rcases hlook j x hx with ⟨_, rfl⟩ | ⟨_, hold⟩ | hmem
    · rw [advance_info] at hrx ⊢; exact hC.numT tid t ht hc hrx
    · exact hC.numT j x hold hcx hrx
    · obtain ⟨w, hw, rfl⟩ := hex_mem x hmem
      exact hC.numP _ _ w (hrel w hw) hrx
  · -- numP
    intro k tok info ha hri
    rw [hnum]; exact hC.numP k tok info (habs_sub k tok info ha).1 hri
  · -- rdyT
    intro j x hx hcx hax
    rcases hlook j x hx with ⟨_, rfl⟩ | ⟨_, hold⟩ | hmem
    · rw [advance_info]
      exact hC.rdyT tid t ht hc (assigned_advance c t (by rw [hpc]; simp) hax)
    · exact hC.rdyT j x hold hcx hax
    · obtain ⟨w, hw, rfl⟩ := hex_mem x hmem
      obtain ⟨k, hk, hor⟩ := hax
      refine hC.rdyP _ _ w (hrel w hw) ⟨k, ?_, hk⟩
      rcases hor with h1 | ⟨h1, _⟩
      · exact Nat.le_of_lt h1
      · exact Nat.le_of_eq h1
  · -- rdyP
    intro k tok info ha hex
    exact hC.rdyP k tok info (habs_sub k tok info ha).1 hex
  · -- high0
    intro k ho hall
    rw [hnum]
    by_cases hks : k = t.stage
    · subst hks; rw [hb_same, n4]; exact hC.high0 _ ho hall
    · rw [hb_other k hks]; exact hC.high0 k ho hall
  · -- seenLen
    intro k ho h1
    have := hiop_cnt k (ordered_serial ho)
    have hl := hC.seenLen k ho h1
    rw [hseen]
    by_cases hks : k = t.stage
    · subst hks; rw [hb_same, n3]; simp at this; omega
    · rw [hb_other k hks]; simp [hks] at this; omega
  · intro k ho h1; rw [hseen, hnum]; exact hC.seenPre k ho h1
  · intro h0; rw [hseen, hnum]; exact hC.seen0 h0

end TbbVerif.C07
