/- C07 helper lemmas, part 14: `InvC` is inductive (given `InvA`). -/
import TbbVerif.Proofs.C07.InvCDone

namespace TbbVerif.C07

theorem invC_produceS {c : Cfg} {s : St} {tid : Nat} {t : Task} (hA : InvA c s) (hC : InvC c s)
    (ht : s.tasks[tid]? = some t) (hpc : t.pc = .inCallS) (l : List Loc) (t' : Task)
    (ht' : t' = fresh ∨ t' = { pc := .fsubS, stage := 0, info := infoS c s }) :
    InvC c (setTask { produceS c s with loc := l } tid t') := by
  have htid := lt_of_getElem? ht
  have hnc : carries t = false := by simp [carries, carriesPc, hpc]
  have hown_t : ∀ k, own k t = false := by intro k; simp [own, ownPc, hpc]
  have hown_t' : ∀ k, own k t' = false := by
    intro k; rcases ht' with rfl | rfl <;> simp [own, ownPc, fresh]
  have hiop_t : ∀ k, inOrPast k t = false := by intro k; simp [inOrPast, pastCallPc, hpc]
  have hiop_t' : ∀ k, inOrPast k t' = false := by
    intro k; rcases ht' with rfl | rfl <;> simp [inOrPast, pastCallPc, fresh]
  have hcnt : ∀ k, (s.tasks.set tid t').countP (own k) = s.tasks.countP (own k) := by
    intro k
    have := countP_frame (own k) s.tasks [] tid t t' ht (by rw [hown_t, hown_t']) (by simp)
    simpa using this
  have hcnt2 : ∀ k, (s.tasks.set tid t').countP (inOrPast k) = s.tasks.countP (inOrPast k) := by
    intro k
    have := countP_frame (inOrPast k) s.tasks [] tid t t' ht (by rw [hiop_t, hiop_t']) (by simp)
    simpa using this
  have hlook : ∀ (j : Nat) (x : Task), (s.tasks.set tid t')[j]? = some x → (j = tid ∧ x = t') ∨ (j ≠ tid ∧ s.tasks[j]? = some x) :=
    fun j x hx => get_set_cases htid hx
  -- the buffers: only `high` of buffer 0 may change
  have hgot := TokenBuf.getOrderedToken_spec (s.bufs 0) (hA.bufWF 0)
  have hb : ∀ k, ((produceS c s).bufs k).low = (s.bufs k).low ∧ ((produceS c s).bufs k).abs = (s.bufs k).abs ∧
      ((produceS c s).bufs k).high = (s.bufs k).high + (if k = 0 ∧ (c.mode 0).ordered = true then 1 else 0) := by
    intro k
    unfold produceS
    cases ho : (c.mode 0).ordered with
    | false => simp
    | true =>
      simp only [if_true]
      by_cases hk : k = 0
      · subst hk; rw [upd_same]; exact ⟨hgot.2.2.2.1, hgot.2.2.2.2.2, by rw [hgot.2.2.1]; simp⟩
      · rw [upd_other _ _ _ _ hk]; simp [hk]
  have hnumd : (produceS c s).numbered = if (c.mode 0).ordered = true then s.numbered ++ [s.produced] else s.numbered := rfl
  have hnum_mono : ∀ (i x : Nat), s.numbered[i]? = some x → (produceS c s).numbered[i]? = some x := by
    intro i x hx; rw [hnumd]; split
    · exact getElem?_append_of_some _ hx
    · exact hx
  have hcar_t' : carries t' = true → t' = { pc := .fsubS, stage := 0, info := infoS c s } := by
    intro h; rcases ht' with rfl | rfl
    · simp [carries, carriesPc, fresh] at h
    · rfl
  refine ⟨?_, ?_, ?_, ?_, ?_, ?_, ?_, ?_, ?_, ?_, ?_, ?_, ?_, ?_, ?_, ?_⟩
  · intro k hk; show (s.tasks.set tid t').countP (own k) ≤ 1; rw [hcnt]; exact hC.own1 k hk
  · intro k tok info hk ho ha
    show ((produceS c s).bufs k).low < tok ∧ tok < ((produceS c s).bufs k).high
    have ha' : (s.bufs k).abs tok = some info := by rw [← (hb k).2.1]; exact ha
    have := hC.oooIn k tok info hk ho ha'
    rw [(hb k).1, (hb k).2.2]; omega
  · intro k tok hk ho h1 h2
    show ((produceS c s).bufs k).abs tok ≠ none
    have h1' : (s.bufs k).low < tok := by rw [← (hb k).1]; exact h1
    have h2' : tok < ((produceS c s).bufs k).high := h2
    rw [(hb k).2.2] at h2'
    rw [(hb k).2.1]
    refine hC.oooFill k tok hk ho h1' ?_
    split at h2'
    · rename_i hh; rw [hh.1] at ho; rw [ho] at hh; simp at hh
    · omega
  · intro k hk ho h1
    show ((produceS c s).bufs k).low < ((produceS c s).bufs k).high
    have h1' : 1 ≤ (s.tasks.set tid t').countP (own k) := h1
    rw [hcnt] at h1'
    have := hC.oooOwn k hk ho h1'
    rw [(hb k).1, (hb k).2.2]; omega
  · intro k hk ho
    show ((produceS c s).bufs k).low ≤ ((produceS c s).bufs k).high
    have := hC.oooLe k hk ho
    rw [(hb k).1, (hb k).2.2]; omega
  · intro k hk ho h1
    show 1 ≤ (s.tasks.set tid t').countP (own k)
    have h1' : ((produceS c s).bufs k).low < ((produceS c s).bufs k).high := h1
    rw [(hb k).1, (hb k).2.2] at h1'
    rw [hcnt]
    refine hC.oooEx k hk ho ?_
    split at h1'
    · rename_i hh; rw [hh.1] at ho; rw [ho] at hh; simp at hh
    · omega
  · intro k tok info ho ha
    have ha' : (s.bufs k).abs tok = some info := by rw [← (hb k).2.1]; exact ha
    exact hC.ordSlot k tok info ho ha'
  · intro k j x ho hx hox
    rcases hlook j x hx with ⟨_, rfl⟩ | ⟨_, hold⟩
    · rw [hown_t'] at hox; cases hox
    · show x.info.ready = true ∧ x.info.token = ((produceS c s).bufs k).low
      rw [(hb k).1]; exact hC.ordOwn k j x ho hold hox
  · intro j x hx hcx hrx
    show (produceS c s).numbered[x.info.token]? = some x.info.item
    rcases hlook j x hx with ⟨_, rfl⟩ | ⟨_, hold⟩
    · rw [hcar_t' hcx] at hrx ⊢
      simp only [infoS] at hrx ⊢
      cases ho : (c.mode 0).ordered with
      | false => rw [ho] at hrx; simp at hrx
      | true =>
        have hh := hC.high0 0 ho (fun j hj => by omega)
        rw [hnumd, ho]; simp [hh]
    · exact hnum_mono _ _ (hC.numT j x hold hcx hrx)
  · intro k tok info ha hri
    have ha' : (s.bufs k).abs tok = some info := by rw [← (hb k).2.1]; exact ha
    exact hnum_mono _ _ (hC.numP k tok info ha' hri)
  · intro j x hx hcx hax
    rcases hlook j x hx with ⟨_, rfl⟩ | ⟨_, hold⟩
    · rw [hcar_t' hcx] at hax ⊢
      obtain ⟨k, hk, hor⟩ := hax
      have hk0 : k = 0 := by
        rcases hor with h1 | ⟨h1, _⟩
        · simp at h1
        · exact h1
      subst hk0
      simp [infoS, hk]
    · exact hC.rdyT j x hold hcx hax
  · intro k tok info ha hex
    have ha' : (s.bufs k).abs tok = some info := by rw [← (hb k).2.1]; exact ha
    exact hC.rdyP k tok info ha' hex
  · intro k ho hall
    show ((produceS c s).bufs k).high = (produceS c s).numbered.length
    rw [(hb k).2.2, hnumd]
    by_cases hk : k = 0
    · subst hk
      rw [ho]; simp
      exact hC.high0 0 ho hall
    · have h0 := hall 0 (by omega)
      rw [h0]; simp [hk]
      exact hC.high0 k ho hall
  · intro k ho h1
    show (upd s.seen 0 (s.seen 0 ++ [s.produced]) k).length = ((produceS c s).bufs k).low + (s.tasks.set tid t').countP (inOrPast k)
    rw [upd_other _ _ _ _ (by omega), (hb k).1, hcnt2]; exact hC.seenLen k ho h1
  · intro k ho h1
    show upd s.seen 0 (s.seen 0 ++ [s.produced]) k <+: (produceS c s).numbered
    rw [upd_other _ _ _ _ (by omega), hnumd]
    split
    · exact (hC.seenPre k ho h1).trans (List.prefix_append _ _)
    · exact hC.seenPre k ho h1
  · intro h0
    show upd s.seen 0 (s.seen 0 ++ [s.produced]) 0 = (produceS c s).numbered
    rw [upd_same, hnumd, h0, hC.seen0 h0]; simp

theorem invC_err {c : Cfg} {s : St} (hC : InvC c s) : InvC c { s with err := true } :=
  ⟨hC.own1, hC.oooIn, hC.oooFill, hC.oooOwn, hC.oooLe, hC.oooEx, hC.ordSlot, hC.ordOwn, hC.numT, hC.numP, hC.rdyT,
   hC.rdyP, hC.high0, hC.seenLen, hC.seenPre, hC.seen0⟩

theorem inOrPast_false_of_own {k : Nat} {t : Task} (h : own k t = false) : inOrPast k t = false := by
  cases h' : inOrPast k t with
  | false => rfl
  | true => rw [inOrPast_le_own k t h'] at h; cases h

/-- a task that carries nothing moves to another program counter at which it carries nothing -/
theorem invC_idle {c : Cfg} {s : St} {tid : Nat} {t : Task} (hC : InvC c s) (s' : St) (extra : List Task) (t' : Task)
    (ht : s.tasks[tid]? = some t)
    (hbufs : s'.bufs = s.bufs) (hnum : s'.numbered = s.numbered)
    (hseen : ∀ k, (c.mode k).ordered = true → s'.seen k = s.seen k)
    (htasks : s'.tasks = (s.tasks ++ extra).set tid t')
    (hnot : ∀ k, own k t = false) (hnot' : ∀ k, own k t' = false) (hnc' : carries t' = false)
    (hextra : ∀ x ∈ extra, carries x = false ∧ ∀ k, own k x = false) : InvC c s' :=
  invC_frame hC s' extra t' ht hbufs hnum hseen htasks
    (fun k _ => ⟨by rw [hnot, hnot'], by rw [inOrPast_false_of_own (hnot k), inOrPast_false_of_own (hnot' k)]⟩)
    (fun h => by rw [hnc'] at h; cases h) hextra

theorem fresh_extra : ∀ x ∈ [fresh], carries x = false ∧ ∀ k, own k x = false := by
  intro x hx; simp at hx; subst hx
  exact ⟨by simp [carries, carriesPc, fresh], fun k => by simp [own, ownPc, fresh]⟩

/-- a carrying task moves on with `advance` (after `fetch_sub`, or after a parallel filter returned) -/
theorem invC_advance {c : Cfg} {s : St} {tid : Nat} {t : Task} (hC : InvC c s) (s' : St) (extra : List Task)
    (ht : s.tasks[tid]? = some t) (hc : carries t = true) (hpc : t.pc ≠ .put)
    (hbufs : s'.bufs = s.bufs) (hnum : s'.numbered = s.numbered)
    (hseen : ∀ k, (c.mode k).ordered = true → s'.seen k = s.seen k)
    (htasks : s'.tasks = (s.tasks ++ extra).set tid (advance c t))
    (hnot : ∀ k, (c.mode k).serial = true → own k t = false)
    (hextra : ∀ x ∈ extra, carries x = false ∧ ∀ k, own k x = false) : InvC c s' :=
  invC_frame hC s' extra (advance c t) ht hbufs hnum hseen htasks
    (fun k hk => ⟨by rw [hnot k hk, own_advance c t k hk],
      by rw [inOrPast_false_of_own (hnot k hk), inOrPast_advance c t k hk]⟩)
    (fun _ => Or.inl ⟨hc, advance_info c t, assigned_advance c t hpc⟩) hextra

theorem invC_step {c : Cfg} (hv : c.Valid) {s : St} (tid : Nat) (hA : InvA c s) (hC : InvC c s) :
    InvC c (step c s tid) := by
  cases h : s.tasks[tid]? with
  | none => rw [step_none h]; exact hC
  | some t =>
    have hso := hA.stage tid t h
    cases hpc : t.pc with
    | dead => rw [step_dead h hpc]; exact hC
    | start =>
      have hnot : ∀ k, own k t = false := fun k => by simp [own, ownPc, hpc]
      cases hm : (c.mode 0).serial with
      | true =>
        rw [step_startS h hpc hm]
        exact invC_idle hC _ [] { fresh with pc := .inCallS } h rfl rfl (fun _ _ => rfl) (by simp [setTask]) hnot
          (fun k => by simp [own, ownPc]) (by simp [carries, carriesPc]) (by simp)
      | false =>
        cases he : s.eoi with
        | true =>
          rw [step_startP_eoi h hpc hm he]
          exact invC_idle hC _ [] { pc := .dead } h rfl rfl (fun _ _ => rfl) (by simp [kill]) hnot
            (fun k => by simp [own, ownPc]) (by simp [carries, carriesPc]) (by simp)
        | false =>
          rw [step_startP h hpc hm he]
          exact invC_idle hC _ [] { fresh with pc := .fsubP } h rfl rfl (fun _ _ => rfl) (by simp [setTask]) hnot
            (fun k => by simp [own, ownPc]) (by simp [carries, carriesPc]) (by simp)
    | inCallS =>
      by_cases hp : s.produced < c.total
      · by_cases hn : c.n = 1
        · rw [step_inCallS_one h hpc hp hn]; exact invC_produceS hA hC h hpc _ fresh (Or.inl rfl)
        · rw [step_inCallS h hpc hp hn]; exact invC_produceS hA hC h hpc _ _ (Or.inr rfl)
      · rw [step_inCallS_stop h hpc hp]
        exact invC_idle hC _ [] { pc := .dead } h rfl rfl (fun _ _ => rfl) (by simp [kill])
          (fun k => by simp [own, ownPc, hpc]) (fun k => by simp [own, ownPc]) (by simp [carries, carriesPc]) (by simp)
    | fsubS =>
      have hc : carries t = true := by simp [carries, carriesPc, hpc]
      have hnot : ∀ k, (c.mode k).serial = true → own k t = false := fun k _ => by simp [own, ownPc, hpc]
      rcases Nat.lt_or_ge 1 s.tokens with h1 | h1
      · rw [step_fsubS_spawn h hpc h1]
        exact invC_advance hC _ [fresh] h hc (by rw [hpc]; simp) rfl rfl (fun _ _ => rfl) (by simp [setTask, spawn]) hnot
          fresh_extra
      · rcases Nat.eq_zero_or_pos s.tokens with h0 | h0
        · rw [step_fsubS_err h hpc h0]; exact invC_err hC
        · rw [step_fsubS_last h hpc (by omega)]
          exact invC_advance hC _ [] h hc (by rw [hpc]; simp) rfl rfl (fun _ _ => rfl) (by simp [setTask]) hnot (by simp)
    | fsubP =>
      have hnot : ∀ k, own k t = false := fun k => by simp [own, ownPc, hpc]
      rcases Nat.lt_or_ge 1 s.tokens with h1 | h1
      · rw [step_fsubP_spawn h hpc h1]
        exact invC_idle hC _ [fresh] { t with pc := .callInP } h rfl rfl (fun _ _ => rfl) (by simp [setTask, spawn]) hnot
          (fun k => by simp [own, ownPc]) (by simp [carries, carriesPc]) fresh_extra
      · rcases Nat.eq_zero_or_pos s.tokens with h0 | h0
        · rw [step_fsubP_err h hpc h0]; exact invC_err hC
        · rw [step_fsubP_last h hpc (by omega)]
          exact invC_idle hC _ [] { t with pc := .callInP } h rfl rfl (fun _ _ => rfl) (by simp [setTask]) hnot
            (fun k => by simp [own, ownPc]) (by simp [carries, carriesPc]) (by simp)
    | callInP =>
      rw [step_callInP h hpc]
      exact invC_idle hC _ [] { t with pc := .inCallP } h rfl rfl (fun _ _ => rfl) (by simp [setTask])
        (fun k => by simp [own, ownPc, hpc]) (fun k => by simp [own, ownPc]) (by simp [carries, carriesPc]) (by simp)
    | inCallP =>
      have hpar : (c.mode 0).serial = false := hso.2.2.2 (by simp [parInPc, hpc])
      by_cases hp : s.produced < c.total
      · rw [step_inCallP h hpc hp]
        have hseen : ∀ k, (c.mode k).ordered = true → upd s.seen 0 (s.seen 0 ++ [s.produced]) k = s.seen k := by
          intro k hk
          by_cases hk0 : k = 0
          · subst hk0; rw [ordered_serial hk] at hpar; cases hpar
          · exact upd_other _ _ _ _ hk0
        refine invC_frame hC _ [] (advance c { t with stage := 0, info := { item := s.produced } }) h rfl rfl hseen
          (by simp [setTask]) (fun k hk => ?_) (fun _ => Or.inr ⟨by rw [advance_info], ?_, fun k hk => own_advance c _ k hk⟩)
          (by simp)
        · have h1 : own k t = false := by simp [own, ownPc, hpc]
          rw [h1, own_advance c _ k hk, inOrPast_false_of_own h1, inOrPast_advance c _ k hk]; exact ⟨rfl, rfl⟩
        · intro hass
          have := assigned_advance c { t with stage := 0, info := { item := s.produced } } (by simp [hpc]) hass
          obtain ⟨k, hk, hor⟩ := this
          have hk0 : k = 0 := by
            rcases hor with h1 | ⟨h1, _⟩
            · simp at h1
            · exact h1
          subst hk0
          rw [ordered_serial hk] at hpar; cases hpar
      · rw [step_inCallP_stop h hpc hp]
        exact invC_idle hC _ [] { pc := .dead } h rfl rfl (fun _ _ => rfl) (by simp [kill])
          (fun k => by simp [own, ownPc, hpc]) (fun k => by simp [own, ownPc]) (by simp [carries, carriesPc]) (by simp)
    | put =>
      cases hr : (s.bufs t.stage).tryPut t.info with
      | none => rw [step_put_reject h hpc hr]; exact invC_err hC
      | some r =>
        obtain ⟨b', info', tok, p⟩ := r
        cases p with
        | true =>
          rw [step_put_parked h hpc hr]
          exact invC_put hA hC h hpc hr _ { pc := .dead } rfl rfl rfl (by simp [kill, afterPut]) rfl
        | false =>
          rw [step_put_run h hpc hr]
          exact invC_put hA hC h hpc hr _ { t with pc := .call, info := info' } rfl rfl rfl (by simp [setTask, afterPut]) rfl
    | call => rw [step_call h hpc]; exact invC_call hA hC h hpc
    | inFilter =>
      have hc : carries t = true := by simp [carries, carriesPc, hpc]
      rw [step_inFilter h hpc]
      cases hm : (c.mode t.stage).serial with
      | true =>
        refine invC_frame hC _ [] { t with pc := .noteDone } h rfl rfl (fun _ _ => rfl) (by simp [setTask])
          (fun k _ => by simp [own, ownPc, inOrPast, pastCallPc, hpc]) (fun _ => Or.inl ⟨hc, rfl, ?_⟩) (by simp)
        rintro ⟨k, hk, hor⟩
        refine ⟨k, hk, ?_⟩
        rcases hor with h1 | ⟨h1, _⟩
        · left; exact h1
        · right; exact ⟨h1, by rw [hpc]; simp⟩
      | false =>
        refine invC_advance hC _ [] h hc (by rw [hpc]; simp) rfl rfl (fun _ _ => rfl) (by simp [setTask]) ?_ (by simp)
        intro k hk
        by_cases hks : t.stage = k
        · subst hks; rw [hk] at hm; cases hm
        · simp [own, hks]
    | noteDone =>
      cases hr : (s.bufs t.stage).noteDone.2 with
      | none =>
        rw [step_noteDone_none h hpc hr]
        exact invC_noteDone hA hC h hpc _ [] rfl rfl rfl (by simp [setTask]) (by rw [hr])
      | some w =>
        rw [step_noteDone_some h hpc hr]
        exact invC_noteDone hA hC h hpc _ [{ pc := .call, stage := t.stage, info := w }] rfl rfl rfl
          (by simp [setTask, spawn]) (by rw [hr])
    | fadd =>
      have hnot : ∀ k, own k t = false := fun k => by simp [own, ownPc, hpc]
      rcases Nat.eq_zero_or_pos s.tokens with h0 | h0
      · rw [step_fadd_zero h hpc h0]
        exact invC_idle hC _ [] { t with pc := .ldEoi } h rfl rfl (fun _ _ => rfl) (by simp [setTask]) hnot
          (fun k => by simp [own, ownPc]) (by simp [carries, carriesPc]) (by simp)
      · rw [step_fadd_die h hpc h0]
        exact invC_idle hC _ [] { pc := .dead } h rfl rfl (fun _ _ => rfl) (by simp [kill]) hnot
          (fun k => by simp [own, ownPc]) (by simp [carries, carriesPc]) (by simp)
    | ldEoi =>
      have hnot : ∀ k, own k t = false := fun k => by simp [own, ownPc, hpc]
      cases he : s.eoi with
      | true =>
        rw [step_ldEoi_eoi h hpc he]
        exact invC_idle hC _ [] { pc := .dead } h rfl rfl (fun _ _ => rfl) (by simp [kill]) hnot
          (fun k => by simp [own, ownPc]) (by simp [carries, carriesPc]) (by simp)
      | false =>
        rw [step_ldEoi h hpc he]
        exact invC_idle hC _ [] fresh h rfl rfl (fun _ _ => rfl) (by simp [setTask]) hnot
          (fun k => by simp [own, ownPc, fresh]) (by simp [carries, carriesPc, fresh]) (by simp)

theorem invC_init (c : Cfg) : InvC c (init c) := by
  have hnew := fun k => TokenBuf.new_wf (c.mode k).ordered
  have hcnt : ∀ (p : Task → Bool), p fresh = false → (init c).tasks.countP p = 0 := by
    intro p hp; simp [init, hp]
  have hown : ∀ k, own k fresh = false := fun k => by simp [own, ownPc, fresh]
  refine ⟨?_, ?_, ?_, ?_, ?_, ?_, ?_, ?_, ?_, ?_, ?_, ?_, ?_, ?_, ?_, ?_⟩
  · intro k _; rw [hcnt _ (hown k)]; omega
  · intro k tok info _ _ ha; simp only [init] at ha; rw [(hnew k).2.2.2.2 tok] at ha; cases ha
  · intro k tok _ _ h1 h2; simp only [init] at h1 h2; rw [(hnew k).2.1] at h1; rw [(hnew k).2.2.1] at h2; omega
  · intro k _ _ h1; rw [hcnt _ (hown k)] at h1; omega
  · intro k _ _; simp only [init]; rw [(hnew k).2.1, (hnew k).2.2.1]; omega
  · intro k _ _ h1; simp only [init] at h1; rw [(hnew k).2.1, (hnew k).2.2.1] at h1; omega
  · intro k tok info _ ha; simp only [init] at ha; rw [(hnew k).2.2.2.2 tok] at ha; cases ha
  · intro k j x _ hx hox
    have hm := List.mem_of_getElem? hx
    simp [init] at hm; subst hm
    rw [hown k] at hox; cases hox
  · intro j x hx hcx
    have hm := List.mem_of_getElem? hx
    simp [init] at hm; subst hm
    simp [carries, carriesPc, fresh] at hcx
  · intro k tok info ha; simp only [init] at ha; rw [(hnew k).2.2.2.2 tok] at ha; cases ha
  · intro j x hx hcx
    have hm := List.mem_of_getElem? hx
    simp [init] at hm; subst hm
    simp [carries, carriesPc, fresh] at hcx
  · intro k tok info ha; simp only [init] at ha; rw [(hnew k).2.2.2.2 tok] at ha; cases ha
  · intro k _ _; simp only [init]; rw [(hnew k).2.2.1]; rfl
  · intro k _ _
    have : (init c).tasks.countP (inOrPast k) = 0 := hcnt _ (inOrPast_false_of_own (hown k))
    rw [this]; simp only [init]; rw [(hnew k).2.1]; rfl
  · intro k _ _; exact List.nil_prefix
  · intro _; rfl

theorem invABC_reachable {c : Cfg} (hv : c.Valid) (sched : List Tid) :
    InvA c ((sys c).run sched) ∧ InvB c ((sys c).run sched) ∧ InvC c ((sys c).run sched) :=
  Sys.inv_run (sys c) (fun s => InvA c s ∧ InvB c s ∧ InvC c s) ⟨invA_init c, invB_init hv, invC_init c⟩
    (fun s t h => ⟨invA_step hv t h.1, invB_step hv t h.1 h.2.1, invC_step hv t h.1 h.2.2⟩) sched

end TbbVerif.C07
