/- C07 helper lemmas, part 14: `InvC` is inductive (given `InvA`). -/
import TbbVerif.Proofs.C07.InvCDone

namespace TbbVerif.C07

theorem invC_produceS {c : Cfg} {s : St} {tid : Nat} {t : Task} (hA : InvA c s) (hC : InvC c s)
    (ht : s.tasks[tid]? = some t) (hpc : t.pc = .inCallS) (l : List Loc) (t' : Task)
    (ht' : t' = fresh ∨ t' = { pc := .fsubS, stage := 0, info := infoS c s }) :
    InvC c (setTask { produceS c s with loc := l } tid t') := by
  have htid := lt_of_getElem? ht
  have hnc : carries t = false := by simp [carries, carriesPc, hpc]
  have hown_t : ∀ k, own k t = false := by intro k; simp [own, ownPc, hpc]
  have hown_t' : ∀ k, own k t' = false := by
    intro k; rcases ht' with rfl | rfl <;> simp [own, ownPc, fresh]
  have hiop_t : ∀ k, inOrPast k t = false := by intro k; simp [inOrPast, pastCallPc, hpc]
  have hiop_t' : ∀ k, inOrPast k t' = false := by
    intro k; rcases ht' with rfl | rfl <;> simp [inOrPast, pastCallPc, fresh]
  have hcnt : ∀ k, (s.tasks.set tid t').countP (own k) = s.tasks.countP (own k) := by
    intro k
    have := countP_frame (own k) s.tasks [] tid t t' ht (by rw [hown_t, hown_t']) (by simp)
    simpa using this
  have hcnt2 : ∀ k, (s.tasks.set tid t').countP (inOrPast k) = s.tasks.countP (inOrPast k) := by
    intro k
    have := countP_frame (inOrPast k) s.tasks [] tid t t' ht (by rw [hiop_t, hiop_t']) (by simp)
    simpa using this
  have hlook : ∀ (j : Nat) (x : Task), (s.tasks.set tid t')[j]? = some x → (j = tid ∧ x = t') ∨ (j ≠ tid ∧ s.tasks[j]? = some x) :=
    fun j x hx => get_set_cases htid hx
  -- the buffers: only `high` of buffer 0 may change
  have hgot := TokenBuf.getOrderedToken_spec (s.bufs 0) (hA.bufWF 0)
  have hb : ∀ k, ((produceS c s).bufs k).low = (s.bufs k).low ∧ ((produceS c s).bufs k).abs = (s.bufs k).abs ∧
      ((produceS c s).bufs k).high = (s.bufs k).high + (if k = 0 ∧ (c.mode 0).ordered = true then 1 else 0) := by
    intro k
    unfold produceS
    cases ho : (c.mode 0).ordered with
    | false => simp
    | true =>
      simp only [if_true]
      by_cases hk : k = 0
      · subst hk; rw [upd_same]; exact ⟨hgot.2.2.2.1, hgot.2.2.2.2.2, by rw [hgot.2.2.1]; simp⟩
      · rw [upd_other _ _ _ _ hk]; simp [hk]
  have hnumd : (produceS c s).numbered = if (c.mode 0).ordered = true then s.numbered ++ [s.produced] else s.numbered := rfl
  have hnum_mono : ∀ (i x : Nat), s.numbered[i]? = some x → (produceS c s).numbered[i]? = some x := by
    intro i x hx; rw [hnumd]; split
    · exact getElem?_append_of_some _ hx
    · exact hx
  have hcar_t' : carries t' = true → t' = { pc := .fsubS, stage := 0, info := infoS c s } := by
    intro h; rcases ht' with rfl | rfl
    · simp [carries, carriesPc, fresh] at h
    · rfl
  refine ⟨?_, ?_, ?_, ?_, ?_, ?_, ?_, ?_, ?_, ?_, ?_, ?_, ?_, ?_, ?_, ?_⟩
  · intro k hk; show (s.tasks.set tid t').countP (own k) ≤ 1; rw [hcnt]; exact hC.own1 k hk
  · intro k tok info hk ho ha
    show ((produceS c s).bufs k).low < tok ∧ tok < ((produceS c s).bufs k).high
    have ha' : (s.bufs k).abs tok = some info := by rw [← (hb k).2.1]; exact ha
    have := hC.oooIn k tok info hk ho ha'
    rw [(hb k).1, (hb k).2.2]; omega
  · intro k tok hk ho h1 h2
    show ((produceS c s).bufs k).abs tok ≠ none
    have h1' : (s.bufs k).low < tok := by rw [← (hb k).1]; exact h1
    have h2' : tok < ((produceS c s).bufs k).high := h2
    rw [(hb k).2.2] at h2'
    rw [(hb k).2.1]
    refine hC.oooFill k tok hk ho h1' ?_
    split at h2'
    · rename_i hh; rw [hh.1] at ho; rw [ho] at hh; simp at hh
    · omega
  · intro k hk ho h1
    show ((produceS c s).bufs k).low < ((produceS c s).bufs k).high
    have h1' : 1 ≤ (s.tasks.set tid t').countP (own k) := h1
    rw [hcnt] at h1'
    have := hC.oooOwn k hk ho h1'
    rw [(hb k).1, (hb k).2.2]; omega
  · intro k hk ho
    show ((produceS c s).bufs k).low ≤ ((produceS c s).bufs k).high
    have := hC.oooLe k hk ho
    rw [(hb k).1, (hb k).2.2]; omega
  · intro k hk ho h1
    show 1 ≤ (s.tasks.set tid t').countP (own k)
    have h1' : ((produceS c s).bufs k).low < ((produceS c s).bufs k).high := h1
    rw [(hb k).1, (hb k).2.2] at h1'
    rw [hcnt]
    refine hC.oooEx k hk ho ?_
    split at h1'
    · rename_i hh; rw [hh.1] at ho; rw [ho] at hh; simp at hh
    · omega
  · intro k tok info ho ha
    have ha' : (s.bufs k).abs tok = some info := by rw [← (hb k).2.1]; exact ha
    exact hC.ordSlot k tok info ho ha'
  · intro k j x ho hx hox
    rcases hlook j x hx with ⟨_, rfl⟩ | ⟨_, hold⟩
    · rw [hown_t'] at hox; cases hox
    · show x.info.ready = true ∧ x.info.token = ((produceS c s).bufs k).low
      rw [(hb k).1]; exact hC.ordOwn k j x ho hold hox
  · intro j x hx hcx hrx
    show (produceS c s).numbered[x.info.token]? = some x.info.item
    rcases hlook j x hx with ⟨_, rfl⟩ | ⟨_, hold⟩
    · rw [hcar_t' hcx] at hrx ⊢
      simp only [infoS] at hrx ⊢
      cases ho : (c.mode 0).ordered with
      | false => rw [ho] at hrx; simp at hrx
      | true =>
        have hh := hC.high0 0 ho (fun j hj => by omega)
        rw [hnumd, ho]; simp [hh]
    · exact hnum_mono _ _ (hC.numT j x hold hcx hrx)
  · intro k tok info ha hri
    have ha' : (s.bufs k).abs tok = some info := by rw [← (hb k).2.1]; exact ha
    exact hnum_mono _ _ (hC.numP k tok info ha' hri)
  · intro j x hx hcx hax
    rcases hlook j x hx with ⟨_, rfl⟩ | ⟨_, hold⟩
    · rw [hcar_t' hcx] at hax ⊢
      obtain ⟨k, hk, hor⟩ := hax
      have hk0 : k = 0 := by
        rcases hor with h1 | ⟨h1, _⟩
        · simp at h1
        · exact h1
      subst hk0
      simp [infoS, hk]
    · exact hC.rdyT j x hold hcx hax
  · intro k tok info ha hex
    have ha' : (s.bufs k).abs tok = some info := by rw [← (hb k).2.1]; exact ha
    exact hC.rdyP k tok info ha' hex
  · intro k ho hall
    show ((produceS c s).bufs k).high = (produceS c s).numbered.length
    rw [(hb k).2.2, hnumd]
    by_cases hk : k = 0
    · subst hk
      rw [ho]; simp
      exact hC.high0 0 ho hall
    · have h0 := hall 0 (by omega)
      rw [h0]; simp [hk]
      exact hC.high0 k ho hall
  · intro k ho h1
    show (upd s.seen 0 (s.seen 0 ++ [s.produced]) k).length = ((produceS c s).bufs k).low + (s.tasks.set tid t').countP (inOrPast k)
    rw [upd_other _ _ _ _ (by omega), (hb k).1, hcnt2]; exact hC.seenLen k ho h1
  · intro k ho h1
    show upd s.seen 0 (s.seen 0 ++ [s.produced]) k <+: (produceS c s).numbered
    rw [upd_other _ _ _ _ (by omega), hnumd]
    split
    · exact (hC.seenPre k ho h1).trans (List.prefix_append _ _)
    · exact hC.seenPre k ho h1
  · intro h0
    show upd s.seen 0 (s.seen 0 ++ [s.produced]) 0 = (produceS c s).numbered
    rw [upd_same, hnumd, h0, hC.seen0 h0]; simp

end TbbVerif.C07
