/- C07 helper lemmas, part 8: `InvB` is inductive (given `InvA`). -/
import TbbVerif.Proofs.C07.InvB

namespace TbbVerif.C07

/-- close the seven arithmetic goals of `InvB` after a step -/
macro "bfin" : tactic =>
  `(tactic| (refine ⟨?_, ?_, ?_, ?_, ?_, ?_, ?_⟩ <;>
      simp only [setTask, kill, spawn, afterPut, produceS, List.countP_append, List.countP_cons, List.countP_nil,
        List.length_append, List.length_cons, List.length_nil, Loc.isParked, bnat_true, bnat_false, ↓reduceIte, Bool.false_eq_true] <;>
      omega))

macro "csimp" "at" e1:ident e2:ident e3:ident e4:ident "with" h1:ident h2:ident : tactic =>
  `(tactic| (
      (try simp only [holdsTok_advance, inputAgent_advance, liveCarry_advance, alive_advance] at $e1:ident $e2:ident $e3:ident $e4:ident);
      simp [holdsTok, holdsTokPc, inputAgent, inputPc, liveCarry, alive, alivePc, $h1:ident, $h2:ident]
        at $e1:ident $e2:ident $e3:ident $e4:ident))

theorem done_len_upd (d : Nat → List Nat) (k j : Nat) (x : Nat) :
    (upd d k (d k ++ [x]) j).length = (d j).length + (if j = k then 1 else 0) := by
  unfold upd
  by_cases h : j = k
  · subst h; simp
  · simp [h]

theorem invB_step {c : Cfg} (hv : c.Valid) {s : St} (tid : Nat) (hA : InvA c s) (hB : InvB c s) :
    InvB c (step c s tid) := by
  cases h : s.tasks[tid]? with
  | none => rw [step_none h]; exact hB
  | some t =>
    have hso := hA.stage tid t h
    obtain ⟨b1, b2, b3, b4, b5, b6, b7⟩ := hB
    have hn := hv.n_pos
    cases hpc : t.pc with
    | dead => rw [step_dead h hpc]; exact ⟨b1, b2, b3, b4, b5, b6, b7⟩
    | start =>
      cases hm : (c.mode 0).serial with
      | true =>
        rw [step_startS h hpc hm]
        generalize ht' : ({ fresh with pc := .inCallS } : Task) = t'
        have hpc' : t'.pc = .inCallS := by rw [← ht']
        obtain ⟨e1, e2, e3, e4⟩ := counts4' c s.tasks tid t t' h
        csimp at e1 e2 e3 e4 with hpc hpc'
        bfin
      | false =>
        cases he : s.eoi with
        | true =>
          rw [step_startP_eoi h hpc hm he]; unfold kill
          generalize ht' : ({ pc := .dead } : Task) = t'
          have hpc' : t'.pc = .dead := by rw [← ht']
          obtain ⟨e1, e2, e3, e4⟩ := counts4' c s.tasks tid t t' h
          csimp at e1 e2 e3 e4 with hpc hpc'
          have hb : bnat s.eoi = 1 := by rw [he]; rfl
          bfin
        | false =>
          rw [step_startP h hpc hm he]
          generalize ht' : ({ fresh with pc := .fsubP } : Task) = t'
          have hpc' : t'.pc = .fsubP := by rw [← ht']
          obtain ⟨e1, e2, e3, e4⟩ := counts4' c s.tasks tid t t' h
          csimp at e1 e2 e3 e4 with hpc hpc'
          bfin
    | inCallS =>
      by_cases hp : s.produced < c.total
      · by_cases hn1 : c.n = 1
        · rw [step_inCallS_one h hpc hp hn1]
          generalize ht' : fresh = t'
          have hpc' : t'.pc = .start := by rw [← ht']; rfl
          obtain ⟨e1, e2, e3, e4⟩ := counts4' c s.tasks tid t t' h
          csimp at e1 e2 e3 e4 with hpc hpc'
          have hd := done_len_upd s.done 0 (c.n - 1) s.produced
          rw [if_pos (by omega)] at hd
          refine ⟨?_, ?_, ?_, ?_, ?_, ?_, ?_⟩ <;>
            simp only [setTask, produceS, List.countP_append, List.countP_cons, List.countP_nil, Loc.isParked, hd,
              Bool.false_eq_true, ↓reduceIte] <;> omega
        · rw [step_inCallS h hpc hp hn1]
          generalize ht' : ({ pc := .fsubS, stage := 0, info := infoS c s } : Task) = t'
          have hpc' : t'.pc = .fsubS := by rw [← ht']
          obtain ⟨e1, e2, e3, e4⟩ := counts4' c s.tasks tid t t' h
          csimp at e1 e2 e3 e4 with hpc hpc'
          have hd := done_len_upd s.done 0 (c.n - 1) s.produced
          rw [if_neg (by omega)] at hd
          refine ⟨?_, ?_, ?_, ?_, ?_, ?_, ?_⟩ <;>
            simp only [setTask, produceS, List.countP_append, List.countP_cons, List.countP_nil, Loc.isParked, hd,
              Bool.false_eq_true, ↓reduceIte] <;> omega
      · rw [step_inCallS_stop h hpc hp]; unfold kill
        generalize ht' : ({ pc := .dead } : Task) = t'
        have hpc' : t'.pc = .dead := by rw [← ht']
        obtain ⟨e1, e2, e3, e4⟩ := counts4' c s.tasks tid t t' h
        csimp at e1 e2 e3 e4 with hpc hpc'
        bfin
    | fsubS =>
      have hst := hso.1 hpc
      have hlt : t.stage + 1 < c.n := by omega
      rcases Nat.lt_or_ge 1 s.tokens with h1 | h1
      · rw [step_fsubS_spawn h hpc h1]
        generalize hf : fresh = f0
        have hpcf : f0.pc = .start := by rw [← hf]; rfl
        obtain ⟨e1, e2, e3, e4⟩ := counts4 c s.tasks [f0] tid t (advance c t) h
        simp only [List.countP_cons, List.countP_nil] at e1 e2 e3 e4
        csimp at e1 e2 e3 e4 with hpc hpcf
        simp [hlt] at e3
        bfin
      · rcases Nat.eq_zero_or_pos s.tokens with h0 | h0
        · rw [step_fsubS_err h hpc h0]; exact ⟨b1, b2, b3, b4, b5, b6, b7⟩
        · rw [step_fsubS_last h hpc (by omega)]
          obtain ⟨e1, e2, e3, e4⟩ := counts4' c s.tasks tid t (advance c t) h
          csimp at e1 e2 e3 e4 with hpc hpc
          simp [hlt] at e3
          bfin
    | fsubP =>
      rcases Nat.lt_or_ge 1 s.tokens with h1 | h1
      · rw [step_fsubP_spawn h hpc h1]
        generalize ht' : ({ t with pc := .callInP } : Task) = t'
        have hpc' : t'.pc = .callInP := by rw [← ht']
        generalize hf : fresh = f0
        have hpcf : f0.pc = .start := by rw [← hf]; rfl
        obtain ⟨e1, e2, e3, e4⟩ := counts4 c s.tasks [f0] tid t t' h
        simp only [List.countP_cons, List.countP_nil] at e1 e2 e3 e4
        simp [holdsTok, holdsTokPc, inputAgent, inputPc, liveCarry, alive, alivePc, hpc, hpc', hpcf] at e1 e2 e3 e4
        bfin
      · rcases Nat.eq_zero_or_pos s.tokens with h0 | h0
        · rw [step_fsubP_err h hpc h0]; exact ⟨b1, b2, b3, b4, b5, b6, b7⟩
        · rw [step_fsubP_last h hpc (by omega)]
          generalize ht' : ({ t with pc := .callInP } : Task) = t'
          have hpc' : t'.pc = .callInP := by rw [← ht']
          obtain ⟨e1, e2, e3, e4⟩ := counts4' c s.tasks tid t t' h
          csimp at e1 e2 e3 e4 with hpc hpc'
          bfin
    | callInP =>
      rw [step_callInP h hpc]
      generalize ht' : ({ t with pc := .inCallP } : Task) = t'
      have hpc' : t'.pc = .inCallP := by rw [← ht']
      obtain ⟨e1, e2, e3, e4⟩ := counts4' c s.tasks tid t t' h
      csimp at e1 e2 e3 e4 with hpc hpc'
      bfin
    | inCallP =>
      by_cases hp : s.produced < c.total
      · rw [step_inCallP h hpc hp]
        generalize ht' : ({ t with stage := 0, info := { item := s.produced } } : Task) = t0
        have hst0 : t0.stage = 0 := by rw [← ht']
        obtain ⟨e1, e2, e3, e4⟩ := counts4' c s.tasks tid t (advance c t0) h
        csimp at e1 e2 e3 e4 with hpc hst0
        have hd := done_len_upd s.done 0 (c.n - 1) s.produced
        by_cases hn1 : c.n = 1
        · rw [if_pos (by omega)] at hd
          simp [hn1] at e3
          refine ⟨?_, ?_, ?_, ?_, ?_, ?_, ?_⟩ <;>
            simp only [setTask, List.countP_append, List.countP_cons, List.countP_nil, Loc.isParked, hd, if_pos hn1,
              Bool.false_eq_true, ↓reduceIte] <;> omega
        · rw [if_neg (by omega)] at hd
          have hlt : 0 + 1 < c.n := by omega
          simp [hlt] at e3
          refine ⟨?_, ?_, ?_, ?_, ?_, ?_, ?_⟩ <;>
            simp only [setTask, List.countP_append, List.countP_cons, List.countP_nil, Loc.isParked, hd, hn1,
              Bool.false_eq_true, ↓reduceIte] <;> omega
      · rw [step_inCallP_stop h hpc hp]; unfold kill
        generalize ht' : ({ pc := .dead } : Task) = t'
        have hpc' : t'.pc = .dead := by rw [← ht']
        obtain ⟨e1, e2, e3, e4⟩ := counts4' c s.tasks tid t t' h
        csimp at e1 e2 e3 e4 with hpc hpc'
        bfin
    | put =>
      have hc : carries t = true := by simp [carries, carriesPc, hpc]
      cases hr : (s.bufs t.stage).tryPut t.info with
      | none => rw [step_put_reject h hpc hr]; exact ⟨b1, b2, b3, b4, b5, b6, b7⟩
      | some r =>
        obtain ⟨b', info', tok, p⟩ := r
        cases p with
        | true =>
          rw [step_put_parked h hpc hr]; unfold kill
          generalize ht' : ({ pc := .dead } : Task) = t'
          have hpc' : t'.pc = .dead := by rw [← ht']
          obtain ⟨e1, e2, e3, e4⟩ := counts4' c s.tasks tid t t' h
          csimp at e1 e2 e3 e4 with hpc hpc'
          have hl := countP_set_of_getElem? Loc.isParked s.loc t.info.item (.parked t.stage tok) _ (hA.carry tid t h hc)
          simp [Loc.isParked] at hl
          bfin
        | false =>
          rw [step_put_run h hpc hr]
          generalize ht' : ({ t with pc := .call, info := info' } : Task) = t'
          have hpc' : t'.pc = .call := by rw [← ht']
          obtain ⟨e1, e2, e3, e4⟩ := counts4' c s.tasks tid t t' h
          csimp at e1 e2 e3 e4 with hpc hpc'
          bfin
    | call =>
      rw [step_call h hpc]
      generalize ht' : ({ t with pc := .inFilter } : Task) = t'
      have hpc' : t'.pc = .inFilter := by rw [← ht']
      obtain ⟨e1, e2, e3, e4⟩ := counts4' c s.tasks tid t t' h
      csimp at e1 e2 e3 e4 with hpc hpc'
      bfin
    | inFilter =>
      have hc : carries t = true := by simp [carries, carriesPc, hpc]
      have hmid := hso.2.1 (by simp [midPc, hpc])
      rw [step_inFilter h hpc]
      have hd := done_len_upd s.done t.stage (c.n - 1) t.info.item
      cases hm : (c.mode t.stage).serial with
      | true =>
        simp only [if_true, Bool.not_true, Bool.false_eq_true, and_false, if_false]
        generalize ht' : ({ t with pc := .noteDone } : Task) = t'
        have hpc' : t'.pc = .noteDone := by rw [← ht']
        have hst' : t'.stage = t.stage := by rw [← ht']
        obtain ⟨e1, e2, e3, e4⟩ := counts4' c s.tasks tid t t' h
        csimp at e1 e2 e3 e4 with hpc hpc'
        rw [hst'] at e3
        by_cases hl : t.stage + 1 = c.n
        · rw [if_pos (by omega)] at hd
          simp [hl] at e3
          refine ⟨?_, ?_, ?_, ?_, ?_, ?_, ?_⟩ <;> simp only [setTask, hd] <;> omega
        · rw [if_neg (by omega)] at hd
          have hlt : t.stage + 1 < c.n := by omega
          simp [hlt] at e3
          refine ⟨?_, ?_, ?_, ?_, ?_, ?_, ?_⟩ <;> simp only [setTask, hd] <;> omega
      | false =>
        simp only [Bool.false_eq_true, if_false, Bool.not_false, and_true]
        obtain ⟨e1, e2, e3, e4⟩ := counts4' c s.tasks tid t (advance c t) h
        csimp at e1 e2 e3 e4 with hpc hpc
        by_cases hl : t.stage + 1 = c.n
        · rw [if_pos (by omega)] at hd
          simp [hl] at e3
          have hlc := countP_set_of_getElem? Loc.isParked s.loc t.info.item .retired _ (hA.carry tid t h hc)
          simp [Loc.isParked] at hlc
          refine ⟨?_, ?_, ?_, ?_, ?_, ?_, ?_⟩ <;> simp only [setTask, hd, hl, if_true] <;> omega
        · rw [if_neg (by omega)] at hd
          have hlt : t.stage + 1 < c.n := by omega
          simp [hlt] at e3
          refine ⟨?_, ?_, ?_, ?_, ?_, ?_, ?_⟩ <;> simp only [setTask, hd, hl, if_false] <;> omega
    | noteDone =>
      have hc : carries t = true := by simp [carries, carriesPc, hpc]
      have hmid := hso.2.1 (by simp [midPc, hpc])
      have hmine := hA.carry tid t h hc
      -- parked count of `locDone`
      have hld : List.countP Loc.isParked (locDone c s t) = List.countP Loc.isParked s.loc := by
        unfold locDone; split
        · have := countP_set_of_getElem? Loc.isParked s.loc t.info.item .retired _ hmine
          simp [Loc.isParked] at this; exact this
        · rfl
      cases hr : (s.bufs t.stage).noteDone.2 with
      | none =>
        rw [step_noteDone_none h hpc hr]
        obtain ⟨e1, e2, e3, e4⟩ := counts4' c s.tasks tid t (advance c t) h
        csimp at e1 e2 e3 e4 with hpc hpc
        refine ⟨?_, ?_, ?_, ?_, ?_, ?_, ?_⟩ <;> simp only [setTask, hld] <;> omega
      | some w =>
        rw [step_noteDone_some h hpc hr]
        obtain ⟨n1, _⟩ := TokenBuf.noteDone_spec (s.bufs t.stage) (hA.bufWF t.stage)
        have hw : (s.bufs t.stage).abs ((s.bufs t.stage).low + 1) = some w := by rw [← n1, hr]
        have hwloc := hA.parked _ _ w hw
        have hne : t.info.item ≠ w.item := carry_ne_parked hA h hc hw
        have hwloc' : (locDone c s t)[w.item]? = some (.parked t.stage ((s.bufs t.stage).low + 1)) := by
          unfold locDone; split
          · rw [getElem?_set_ne' _ _ _ _ hne]; exact hwloc
          · exact hwloc
        have hl := countP_set_of_getElem? Loc.isParked (locDone c s t) w.item (.task s.tasks.length) _ hwloc'
        simp [Loc.isParked] at hl
        generalize ht' : ({ pc := .call, stage := t.stage, info := w } : Task) = t'
        have hpc' : t'.pc = .call := by rw [← ht']
        obtain ⟨e1, e2, e3, e4⟩ := counts4 c s.tasks [t'] tid t (advance c t) h
        csimp at e1 e2 e3 e4 with hpc hpc'
        refine ⟨?_, ?_, ?_, ?_, ?_, ?_, ?_⟩ <;> simp only [setTask, spawn] <;> omega
    | fadd =>
      rcases Nat.eq_zero_or_pos s.tokens with h0 | h0
      · rw [step_fadd_zero h hpc h0]
        generalize ht' : ({ t with pc := .ldEoi } : Task) = t'
        have hpc' : t'.pc = .ldEoi := by rw [← ht']
        obtain ⟨e1, e2, e3, e4⟩ := counts4' c s.tasks tid t t' h
        csimp at e1 e2 e3 e4 with hpc hpc'
        bfin
      · rw [step_fadd_die h hpc h0]; unfold kill
        generalize ht' : ({ pc := .dead } : Task) = t'
        have hpc' : t'.pc = .dead := by rw [← ht']
        obtain ⟨e1, e2, e3, e4⟩ := counts4' c s.tasks tid t t' h
        csimp at e1 e2 e3 e4 with hpc hpc'
        bfin
    | ldEoi =>
      cases he : s.eoi with
      | true =>
        rw [step_ldEoi_eoi h hpc he]; unfold kill
        generalize ht' : ({ pc := .dead } : Task) = t'
        have hpc' : t'.pc = .dead := by rw [← ht']
        obtain ⟨e1, e2, e3, e4⟩ := counts4' c s.tasks tid t t' h
        csimp at e1 e2 e3 e4 with hpc hpc'
        have hb : bnat s.eoi = 1 := by rw [he]; rfl
        bfin
      | false =>
        rw [step_ldEoi h hpc he]
        generalize ht' : fresh = t'
        have hpc' : t'.pc = .start := by rw [← ht']; rfl
        obtain ⟨e1, e2, e3, e4⟩ := counts4' c s.tasks tid t t' h
        csimp at e1 e2 e3 e4 with hpc hpc'
        bfin

theorem invB_init {c : Cfg} (hv : c.Valid) : InvB c (init c) := by
  have := hv.tok_pos
  refine ⟨?_, ?_, ?_, ?_, ?_, ?_, ?_⟩ <;>
    simp [init, holdsTok, holdsTokPc, inputAgent, inputPc, liveCarry, alive, alivePc, fresh, bnat] <;> omega

theorem invAB_reachable {c : Cfg} (hv : c.Valid) (sched : List Tid) :
    InvA c ((sys c).run sched) ∧ InvB c ((sys c).run sched) :=
  Sys.inv_run (sys c) (fun s => InvA c s ∧ InvB c s) ⟨invA_init c, invB_init hv⟩
    (fun s t h => ⟨invA_step hv t h.1, invB_step hv t h.1 h.2⟩) sched

end TbbVerif.C07
