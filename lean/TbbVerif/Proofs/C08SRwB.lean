import TbbVerif.Proofs.C08SRwA

namespace TbbVerif.C08.Slp.Rw
open TbbVerif.C08 (Word Phase busy dec_enc enc_inj)

theorem not_locker (t : Th) (op : Op) (rest : List Op) (hops : t.ops = op :: rest) (h1 : op ≠ .lock) (h2 : op ≠ .upgrade) :
    isLocker t = false := by
  unfold isLocker; rw [hops]; cases op <;> simp_all

theorem wf_stay (t t' : Th) (op : Op) (rest : List Op) (hops : t.ops = op :: rest) (ho : t'.ops = t.ops)
    (h1 : t'.phase = .rt → t'.pc = .shUndo) (h2 : t'.phase = .upgWait → (t'.pc = .upLoad ∨ t'.pc = .wait))
    (h3 : t'.phase = .upgReady → t'.pc = .upFin) (h : WfOp op t')
    (h5 : t'.pc ≠ .wait → t'.mw.w = .none) (h6 : t'.pc ≠ .notify → t'.mw.n = .none) : Wf t' := by
  refine ⟨h1, h2, h3, ?_, h5, h6⟩
  rw [ho, hops]; exact h

/-- the guard of `stepTh` gives the phase at `start` -/
theorem phase_at_start (t : Th) (op : Op) (hg : ¬(t.pc = .start ∧ t.phase ≠ op.pre)) (h : t.pc = .start) : t.phase = op.pre := by
  apply Classical.byContradiction; intro hc; exact hg ⟨h, hc⟩

theorem tryLock_good (tid sm : Nat) (s : Word) (m : Mon) (t : Th) (rest : List Op) (hops : t.ops = .tryLock :: rest) (hwf : Wf t)
    (hg : ¬(t.pc = .start ∧ t.phase ≠ Op.pre .tryLock)) : Good s t (stepOp tid sm .tryLock s m t) := by
  obtain ⟨w1, w2, w3, w4, w5, w6⟩ := hwf
  rw [hops] at w4
  have hl := not_locker t _ _ hops (by simp) (by simp)
  unfold Good
  rcases w4 with h | ⟨h, hph, hsv⟩
  · have hph : t.phase = .idle := phase_at_start t _ hg h
    have hw := w5 (by simp [h]); have hn := w6 (by simp [h])
    simp only [stepOp, h]
    split <;> dsimp only
    · rename_i hb
      have hnb : busy s = false := by simpa using hb
      refine ⟨S_silent rfl rfl rfl (fun hh => by rw [hl] at hh; cases hh), ?_⟩
      exact wf_stay t _ _ _ hops rfl (by simp [hph]) (by simp [hph]) (by simp [hph]) (Or.inr ⟨rfl, hph, sv0_of_not_busy s hnb⟩) (fun _ => hw) (fun _ => hn)
    · refine ⟨S_silent rfl rfl rfl (fun hh => by rw [hl] at hh; cases hh), ?_⟩
      exact wf_done _ _ _ (by simp [hph]) (by simp [hph]) (by simp [hph]) hw hn
  · have hw := w5 (by simp [h]); have hn := w6 (by simp [h])
    simp only [stepOp, h]
    split <;> dsimp only
    · rename_i he
      have hw' := sv0_word s t hsv he
      exact ⟨S_acqW hph hw'.1 hw'.2 rfl rfl rfl, wf_done _ _ _ (by simp) (by simp) (by simp) hw hn⟩
    · refine ⟨S_silent rfl rfl rfl (fun hh => by rw [hl] at hh; cases hh), ?_⟩
      exact wf_done _ _ _ (by simp [hph]) (by simp [hph]) (by simp [hph]) hw hn


theorem waitStep_fin' (t : Tid) (word : Nat) (cond : Bool) (ctx sm : Nat) (redo : Bool) (m : Mon) (x : WT)
    (h : (waitStep t word cond ctx sm redo m x).2.2.2 = true) : (waitStep t word cond ctx sm redo m x).2.1.w = .none := by
  rcases waitStep_fin t word cond ctx sm redo m x h with a | a
  · exact a
  · unfold waitStep; rw [a]; exact a

theorem wait_good (tid sm : Nat) (s : Word) (m : Mon) (t : Th) (op : Op) (rest : List Op) (hops : t.ops = op :: rest) (hwf : Wf t)
    (hpc : t.pc = .wait) : Good s t (stepOp tid sm op s m t) := by
  obtain ⟨w1, w2, w3, w4, w5, w6⟩ := hwf
  rw [hops] at w4
  have hn := w6 (by simp [hpc])
  have hk := waitStep_keep tid s.enc (t.wk.cond s) t.wk.ctx sm false m t.mw
  have hf := waitStep_fin' tid s.enc (t.wk.cond s) t.wk.ctx sm false m t.mw
  have hrt : t.phase ≠ .rt := fun e => by have := w1 e; rw [hpc] at this; cases this
  have hur : t.phase ≠ .upgReady := fun e => by have := w3 e; rw [hpc] at this; cases this
  unfold Good
  simp only [stepOp, hpc]
  try dsimp only
  generalize hr : waitStep tid s.enc (t.wk.cond s) t.wk.ctx sm false m t.mw = r at hk hf
  have mwn : (if r.2.2.2 = true then waitBack op t.wk else Pc.wait) ≠ .wait → r.2.1.w = .none := by
    intro hh; cases hfin : r.2.2.2 with
    | true => exact hf hfin
    | false => rw [hfin] at hh; simp at hh
  refine ⟨S_silent rfl rfl rfl ?_, ⟨?_, ?_, ?_, ?_, mwn, fun _ => by rw [hk.1]; exact hn⟩⟩
  · intro hl
    unfold isLocker at hl ⊢
    simp only [hops] at hl ⊢
    cases op <;> simp_all
    have hwk : t.wk = .upg ∨ t.wk = .writer := by
      simp [WfOp, inLockBody, hpc] at w4
      rcases w4 with ⟨a, _⟩ | ⟨_, _, a⟩
      · exact Or.inl a
      · exact Or.inr a
    rcases hwk with a | a <;> cases r.2.2.2 <;> simp [waitBack, a]
  · intro e; exact absurd e hrt
  · intro e
    dsimp only at e
    cases op <;> simp [WfOp, inLockBody, hpc, e] at w4
    cases r.2.2.2 <;> simp [waitBack, w4]
  · intro e; exact absurd e hur
  · simp only [hops]
    cases op <;> simp [WfOp, inLockBody, hpc] at w4 ⊢
    · -- lock
      cases r.2.2.2 <;> simp [waitBack, w4]
    · -- lock_shared
      cases r.2.2.2 <;> simp [waitBack, w4]
    · -- upgrade
      rcases w4 with ⟨a, b, c⟩ | ⟨a, b, c⟩
      · cases r.2.2.2 <;> simp [waitBack, a, b, c]
      · cases r.2.2.2 <;> simp [waitBack, a, b, c]

theorem notify_good (tid sm : Nat) (s : Word) (m : Mon) (t : Th) (op : Op) (rest : List Op) (hops : t.ops = op :: rest) (hwf : Wf t)
    (hpc : t.pc = .notify) : Good s t (stepOp tid sm op s m t) := by
  obtain ⟨w1, w2, w3, w4, w5, w6⟩ := hwf
  rw [hops] at w4
  have hw := w5 (by simp [hpc])
  have hk := notifyStep_keep m t.mw
  have hf := notifyStep_fin m t.mw
  have hrt : t.phase ≠ .rt := fun e => by have := w1 e; rw [hpc] at this; cases this
  have huw : t.phase ≠ .upgWait := fun e => by have := w2 e; rw [hpc] at this; simp at this
  have hur : t.phase ≠ .upgReady := fun e => by have := w3 e; rw [hpc] at this; cases this
  have hlk : isLocker t = false := by
    unfold isLocker; rw [hops]; cases op <;> simp_all [WfOp, inLockBody]
  unfold Good
  simp only [stepOp, hpc]
  try dsimp only
  generalize hr : notifyStep m t.mw = r at hk hf
  split
  · -- not finished
    dsimp only
    refine ⟨S_silent rfl rfl rfl (fun hh => by rw [hlk] at hh; cases hh), ⟨fun e => absurd e hrt, fun e => absurd e huw, fun e => absurd e hur, ?_, fun _ => by rw [hk.1]; exact hw, fun hh => absurd rfl hh⟩⟩
    simp only [hops]
    cases op <;> simp [WfOp, inLockBody, hpc] at w4 ⊢ <;> exact w4
  · rename_i hfin
    have hfin' : r.2.2.2 = true := by simpa using hfin
    have hn' := hf hfin'
    split
    · -- done
      dsimp only
      refine ⟨S_silent rfl rfl rfl (fun hh => by rw [hlk] at hh; cases hh), ?_⟩
      exact wf_done _ _ _ hrt huw hur (by rw [hk.1]; exact hw) hn'
    · -- fail
      rename_i hnk
      have hop : (op = .lockShared ∨ op = .tryLockShared) ∧ t.phase = .idle := by
        cases op <;> simp [WfOp, inLockBody, hpc, hnk] at w4 ⊢ <;> exact w4
      split
      · rename_i hls
        dsimp only
        refine ⟨S_silent rfl rfl rfl (fun hh => by rw [hlk] at hh; cases hh), ⟨?_, ?_, ?_, ?_, ?_, ?_⟩⟩ <;> simp [startWait, hop.2, hn']
        simp only [hops, hls, WfOp]; simp
      · dsimp only
        refine ⟨S_silent rfl rfl rfl (fun hh => by rw [hlk] at hh; cases hh), ?_⟩
        exact wf_done _ _ _ hrt huw hur (by rw [hk.1]; exact hw) hn'
    · -- slowLock
      rename_i hnk
      have hop : op = .upgrade ∧ t.phase = .idle ∧ t.slow = true := by
        cases op <;> simp [WfOp, inLockBody, hpc, hnk] at w4 ⊢ <;> exact w4
      dsimp only
      refine ⟨S_silent rfl rfl rfl (fun hh => by rw [hlk] at hh; cases hh), ⟨?_, ?_, ?_, ?_, ?_, ?_⟩⟩ <;> simp [hop.2.1, hn']
      · simp only [hops, hop.1, WfOp]; simp [hop.2.2]
      · rw [hk.1]; exact hw


/-- the lock() body (directly, or as the slow path of upgrade) outside its adaptive wait -/
theorem lockBody_good (s : Word) (m : Mon) (t : Th) (op : Op) (rest : List Op) (head : Pc) (res : Option Nat)
    (hops : t.ops = op :: rest)
    (hop : (op = .lock ∧ head = .start) ∨ (op = .upgrade ∧ head = .lkLoad ∧ t.slow = true))
    (hpc : t.pc = head ∨ (t.pc = .tlCas ∧ sv0 t) ∨ t.pc = .pLoad ∨ t.pc = .pOr) (hph : t.phase = .idle)
    (hw : t.mw.w = .none) (hn : t.mw.n = .none) :
    Good s t (lockBody s m t head res) := by
  have hlk : isLocker t = true := by
    unfold isLocker; rw [hops]
    rcases hop with ⟨rfl, rfl⟩ | ⟨rfl, rfl, hs⟩
    · simp [hph]
    · rcases hpc with h | ⟨h, _⟩ | h | h <;> simp [h, hs, hph]
  have hhead : head ≠ .tlCas ∧ head ≠ .pLoad ∧ head ≠ .pOr ∧ head ≠ .wait ∧ head ≠ .notify := by
    rcases hop with ⟨_, rfl⟩ | ⟨_, rfl, _⟩ <;> simp
  -- a thread that stays inside the lock body is a well-formed locker
  have stay : ∀ (t' : Th), t'.ops = t.ops → t'.phase = .idle → t'.slow = t.slow → t'.mw.n = .none →
      (t'.pc = head ∨ inLockBody t') → (t'.pc ≠ .wait → t'.mw.w = .none) → isLocker t' = true ∧ Wf t' := by
    intro t' ho hp hs hn' hpc' hw'
    have hnn : t'.pc ≠ .notify := by
      rcases hpc' with h | ⟨h, _⟩ | h | h | ⟨h, _⟩ <;> rw [h] <;> simp [hhead.2.2.2.2]
    have hns : op = .upgrade → t'.pc ≠ .start := by
      intro ho'
      rcases hop with ⟨rfl, _⟩ | ⟨_, rfl, _⟩
      · cases ho'
      · rcases hpc' with h | ⟨h, _⟩ | h | h | ⟨h, _⟩ <;> rw [h] <;> simp
    constructor
    · unfold isLocker; rw [ho, hops]
      rcases hop with ⟨rfl, rfl⟩ | ⟨rfl, rfl, hsl⟩
      · simp [hp]
      · simp [hp, hs, hsl, hnn, hns rfl]
    · refine ⟨by simp [hp], by simp [hp], by simp [hp], ?_, hw', fun _ => hn'⟩
      rw [ho, hops]
      rcases hop with ⟨rfl, rfl⟩ | ⟨rfl, rfl, hsl⟩
      · simp only [WfOp]
        rcases hpc' with h | h
        · exact Or.inl h
        · exact Or.inr ⟨hp, h⟩
      · simp only [WfOp]
        refine Or.inr (Or.inr (Or.inr (Or.inr (Or.inr (Or.inr (Or.inr ⟨hp, by rw [hs, hsl], ?_⟩))))))
        rcases hpc' with h | h
        · exact Or.inl h
        · exact Or.inr h
  unfold lockBody Good
  by_cases hb : t.pc = head
  · rw [if_pos hb]
    split <;> dsimp only
    · rename_i hbusy
      have hnb : busy s = false := by simpa using hbusy
      obtain ⟨l, w⟩ := stay { t with sv := s.enc, pc := .tlCas } rfl hph rfl hn (Or.inr (Or.inl ⟨rfl, sv0_of_not_busy s hnb⟩)) (fun _ => hw)
      exact ⟨S_silent rfl rfl rfl (fun _ => l), w⟩
    · obtain ⟨l, w⟩ := stay { t with sv := s.enc, pc := .pLoad } rfl hph rfl hn (Or.inr (Or.inr (Or.inl rfl))) (fun _ => hw)
      exact ⟨S_silent rfl rfl rfl (fun _ => l), w⟩
  · rw [if_neg hb]
    rcases hpc with h | ⟨h, hsv⟩ | h | h
    · exact absurd h hb
    · rw [h]; dsimp only
      split <;> dsimp only
      · rename_i he
        have hw' := sv0_word s t hsv he
        exact ⟨S_acqW hph hw'.1 hw'.2 rfl rfl rfl, wf_done _ _ _ (by simp) (by simp) (by simp) hw hn⟩
      · obtain ⟨l, w⟩ := stay { t with pc := .pLoad } rfl hph rfl hn (Or.inr (Or.inr (Or.inl rfl))) (fun _ => hw)
        exact ⟨S_silent rfl rfl rfl (fun _ => l), w⟩
    · rw [h]; dsimp only
      split <;> dsimp only
      · obtain ⟨l, w⟩ := stay { t with pc := .pOr } rfl hph rfl hn (Or.inr (Or.inr (Or.inr (Or.inl rfl)))) (fun _ => hw)
        exact ⟨S_silent rfl rfl rfl (fun _ => l), w⟩
      · obtain ⟨l, w⟩ := stay (startWait t .writer) rfl hph rfl hn (Or.inr (Or.inr (Or.inr (Or.inr ⟨rfl, rfl⟩)))) (fun hh => absurd rfl hh)
        exact ⟨S_silent rfl rfl rfl (fun _ => l), w⟩
    · rw [h]; dsimp only
      obtain ⟨l, w⟩ := stay (startWait t .writer) rfl hph rfl hn (Or.inr (Or.inr (Or.inr (Or.inr ⟨rfl, rfl⟩)))) (fun hh => absurd rfl hh)
      exact ⟨S_setPending hph hlk rfl rfl hph l, w⟩

theorem wf_notify_start (t t' : Th) (op : Op) (rest : List Op) (hops : t.ops = op :: rest) (sel : Sel) (k : NCont)
    (ho : t'.ops = t.ops) (hw : t'.mw.w = .none)
    (h1 : t'.phase ≠ .rt) (h2 : t'.phase ≠ .upgWait) (h3 : t'.phase ≠ .upgReady)
    (h : WfOp op (startNotify t' sel k)) : Wf (startNotify t' sel k) := by
  refine ⟨fun e => absurd e h1, fun e => absurd e h2, fun e => absurd e h3, ?_, fun _ => hw, fun hh => absurd rfl hh⟩
  show match t'.ops with | [] => _ | op :: _ => _
  rw [ho, hops]; exact h

theorem unlock_good (tid sm : Nat) (s : Word) (m : Mon) (t : Th) (rest : List Op) (hops : t.ops = .unlock :: rest) (hwf : Wf t)
    (hg : ¬(t.pc = .start ∧ t.phase ≠ Op.pre .unlock)) : Good s t (stepOp tid sm .unlock s m t) := by
  by_cases hpn : t.pc = .notify
  · exact notify_good tid sm s m t _ rest hops hwf hpn
  obtain ⟨w1, w2, w3, w4, w5, w6⟩ := hwf
  rw [hops] at w4
  have hl := not_locker t _ _ hops (by simp) (by simp)
  have h : t.pc = .start := by rcases w4 with h | ⟨h, _⟩; exact h; exact absurd h hpn
  have hph : t.phase = .holdW := phase_at_start t _ hg h
  have hw := w5 (by simp [h])
  unfold Good
  simp only [stepOp, h]
  try dsimp only
  refine ⟨S_relWKeep hph hl rfl rfl rfl, ?_⟩
  exact wf_notify_start t _ _ rest hops _ _ rfl hw (by simp) (by simp) (by simp) (Or.inr ⟨rfl, rfl, rfl⟩)

theorem unlockShared_good (tid sm : Nat) (s : Word) (m : Mon) (t : Th) (rest : List Op) (hops : t.ops = .unlockShared :: rest) (hwf : Wf t)
    (hg : ¬(t.pc = .start ∧ t.phase ≠ Op.pre .unlockShared)) : Good s t (stepOp tid sm .unlockShared s m t) := by
  by_cases hpn : t.pc = .notify
  · exact notify_good tid sm s m t _ rest hops hwf hpn
  obtain ⟨w1, w2, w3, w4, w5, w6⟩ := hwf
  rw [hops] at w4
  have hl := not_locker t _ _ hops (by simp) (by simp)
  have h : t.pc = .start := by rcases w4 with h | ⟨h, _⟩; exact h; exact absurd h hpn
  have hph : t.phase = .holdR := phase_at_start t _ hg h
  have hw := w5 (by simp [h])
  unfold Good
  simp only [stepOp, h]
  try dsimp only
  refine ⟨S_relR hph hl rfl rfl rfl, ?_⟩
  exact wf_notify_start t _ _ rest hops _ _ rfl hw (by simp) (by simp) (by simp) (Or.inr ⟨rfl, rfl, rfl⟩)

theorem downgrade_good (tid sm : Nat) (s : Word) (m : Mon) (t : Th) (rest : List Op) (hops : t.ops = .downgrade :: rest) (hwf : Wf t)
    (hg : ¬(t.pc = .start ∧ t.phase ≠ Op.pre .downgrade)) : Good s t (stepOp tid sm .downgrade s m t) := by
  by_cases hpn : t.pc = .notify
  · exact notify_good tid sm s m t _ rest hops hwf hpn
  obtain ⟨w1, w2, w3, w4, w5, w6⟩ := hwf
  rw [hops] at w4
  have hl := not_locker t _ _ hops (by simp) (by simp)
  unfold Good
  rcases w4 with h | ⟨h, hph⟩ | ⟨h, _⟩
  · have hph : t.phase = .holdW := phase_at_start t _ hg h
    have hw := w5 (by simp [h]); have hn := w6 (by simp [h])
    simp only [stepOp, h]
    try dsimp only
    refine ⟨S_downgr hph hl rfl rfl rfl, ?_⟩
    exact wf_stay t _ _ rest hops rfl (by simp) (by simp) (by simp) (Or.inr (Or.inl ⟨rfl, rfl⟩)) (fun _ => hw) (fun _ => hn)
  · have hw := w5 (by simp [h]); have hn := w6 (by simp [h])
    simp only [stepOp, h]
    split <;> dsimp only
    · refine ⟨S_silent rfl rfl rfl (fun hh => by rw [hl] at hh; cases hh), ?_⟩
      exact wf_notify_start t _ _ rest hops _ _ rfl hw (by simp [hph]) (by simp [hph]) (by simp [hph]) (Or.inr (Or.inr ⟨rfl, hph, rfl⟩))
    · refine ⟨S_silent rfl rfl rfl (fun hh => by rw [hl] at hh; cases hh), ?_⟩
      exact wf_done _ _ _ (by simp [hph]) (by simp [hph]) (by simp [hph]) hw hn
  · exact absurd h hpn

end TbbVerif.C08.Slp.Rw
