/-
C15 helper lemmas: join_node with the queueing policy.
-/
import TbbVerif.Model.C15

namespace TbbVerif.C15

/-- number of empty ports -/
def nEmpty : List (List Nat) → Nat
  | [] => 0
  | p :: ps => (if p.isEmpty then 1 else 0) + nEmpty ps

theorem nEmpty_replicate (n : Nat) : nEmpty (List.replicate n []) = n := by
  induction n with
  | zero => rfl
  | succ n ih => simp [List.replicate_succ, nEmpty, ih]; omega

theorem nEmpty_set (ps : List (List Nat)) (p : Nat) (q q' : List Nat) (h : ps[p]? = some q) (hq' : q' ≠ []) :
    nEmpty (ps.set p q') + (if q.isEmpty then 1 else 0) = nEmpty ps := by
  induction ps generalizing p with
  | nil => simp at h
  | cons a ps ih =>
    cases p with
    | zero =>
      simp at h; subst h
      have : q'.isEmpty = false := by cases q' <;> simp_all
      simp [nEmpty, this]; omega
    | succ p =>
      simp at h
      have := ih p h
      simp only [List.set_cons_succ, nEmpty]; omega

theorem nEmpty_pos_of (ps : List (List Nat)) (p : Nat) (h : ps[p]? = some []) : 0 < nEmpty ps := by
  induction ps generalizing p with
  | nil => simp at h
  | cons a ps ih =>
    cases p with
    | zero => simp at h; subst h; simp [nEmpty]; omega
    | succ p => simp at h; have := ih p h; simp only [nEmpty]; omega

/-- when no port is empty, `get_items` succeeds and returns the fronts -/
theorem jqHeads_some (ps : List (List Nat)) (h : nEmpty ps = 0) :
    ∃ t, jqHeads ps = some t ∧ t.length = ps.length ∧
      ∀ p, p < ps.length → ps.getD p [] = t.getD p 0 :: (ps.getD p []).tail := by
  induction ps with
  | nil => exact ⟨[], rfl, rfl, by simp⟩
  | cons a ps ih =>
    cases a with
    | nil => simp [nEmpty] at h
    | cons x xs =>
      have h' : nEmpty ps = 0 := by simpa [nEmpty] using h
      obtain ⟨t, ht, hl, hp⟩ := ih h'
      refine ⟨x :: t, by simp [jqHeads, ht], by simp [hl], ?_⟩
      intro p hpl
      cases p with
      | zero => simp
      | succ p => simpa using hp p (by simpa using hpl)

theorem jqReset_spec (ps : List (List Nat)) : ∀ c, ps.length ≤ c →
    (jqResetPorts ps c).1 = ps.map List.tail ∧ (jqResetPorts ps c).2 + ps.length = c + nEmpty (ps.map List.tail) := by
  induction ps with
  | nil => intro c _; simp [jqResetPorts, nEmpty]
  | cons a ps ih =>
    intro c hc
    simp only [List.length_cons] at hc
    have := ih (if a.tail.isEmpty then c else c - 1) (by split <;> omega)
    simp only [jqResetPorts, List.map_cons, nEmpty, List.length_cons]
    refine ⟨by rw [this.1], ?_⟩
    have h2 := this.2
    split at h2 <;> simp_all <;> omega

structure JqInv (n : Nat) (s : JqSt) : Prop where
  noub : s.ub = false
  lenP : s.ports.length = n
  lenA : s.acc.length = n
  /-- `ports_with_no_items` is exactly the number of empty ports -/
  cnt : s.pwni = nEmpty s.ports
  /-- per port: (components taken into tuples so far) ++ (still queued) = (accepted messages), in order -/
  fifo : ∀ p, p < n → s.out.map (fun t => t.getD p 0) ++ s.ports.getD p [] = s.acc.getD p []
  tlen : ∀ t ∈ s.out, t.length = n

theorem jqinv_init (n : Nat) : JqInv n (jqInit n) :=
  ⟨rfl, by simp [jqInit], by simp [jqInit], by simp [jqInit, nEmpty_replicate],
   by intro p hp; simp [jqInit, List.getD_eq_getElem?_getD, hp], by simp [jqInit]⟩

theorem getD_set_list (l : List (List Nat)) (p p' : Nat) (x : List Nat) (hp : p < l.length) :
    (l.set p x).getD p' [] = if p = p' then x else l.getD p' [] := by
  simp only [List.getD_eq_getElem?_getD, List.getElem?_set]
  split
  · simp [hp]
  · rfl

theorem jqinv_step (n : Nat) (s : JqSt) (op : JqOp) (h : JqInv n s) : JqInv n (jqStep s op).1 := by
  have h0 := h
  obtain ⟨noub, lenP, lenA, cnt, fifo, tlen⟩ := h
  unfold jqStep
  rw [if_neg (by rw [noub]; exact Bool.false_ne_true)]
  cases op with
  | put p v =>
    dsimp only
    cases hq : s.ports[p]? with
    | none => exact h0
    | some q =>
      dsimp only
      have hpl : p < s.ports.length := (List.getElem?_eq_some_iff.1 hq).1
      have hset := nEmpty_set s.ports p q (q ++ [v]) hq (by simp)
      have hfifo : ∀ p', p' < n →
          s.out.map (fun t => t.getD p' 0) ++ (s.ports.set p (q ++ [v])).getD p' [] =
            (s.acc.set p (s.acc.getD p [] ++ [v])).getD p' [] := by
        intro p' hp'
        rw [getD_set_list _ _ _ _ hpl, getD_set_list _ _ _ _ (by omega)]
        split
        · rename_i e; subst e
          have hqq : s.ports.getD p [] = q := by simp [List.getD_eq_getElem?_getD, hq]
          rw [← fifo p hp', hqq, List.append_assoc]
        · exact fifo p' hp'
      split
      · rename_i hqe
        have hq0 : q = [] := by cases q <;> simp_all
        subst hq0
        have hpos := nEmpty_pos_of s.ports p hq
        split
        · omega
        · refine ⟨noub, by simp [lenP], by simp [lenA], ?_, hfifo, tlen⟩
          show s.pwni - 1 = nEmpty (s.ports.set p [v])
          simp at hset; omega
      · rename_i hqe
        have : q.isEmpty = false := by simpa using hqe
        refine ⟨noub, by simp [lenP], by simp [lenA], ?_, hfifo, tlen⟩
        show s.pwni = nEmpty (s.ports.set p (q ++ [v]))
        simp [this] at hset; omega
  | fwd a =>
    dsimp only
    split
    · exact h0
    · rename_i hz
      have hz' : nEmpty s.ports = 0 := by rw [← cnt]; simpa using hz
      obtain ⟨t, ht, htl, htp⟩ := jqHeads_some s.ports hz'
      simp only [ht]
      split
      · have hr := jqReset_spec s.ports s.ports.length (Nat.le_refl _)
        generalize hrs : jqResetPorts s.ports s.ports.length = res at hr
        obtain ⟨ports', c⟩ := res
        simp only at hr ⊢
        refine ⟨noub, by rw [hr.1]; simp [lenP], lenA, ?_, ?_, ?_⟩
        · show c = nEmpty ports'
          rw [hr.1]; have := hr.2; omega
        · intro p hp
          rw [hr.1]
          have e1 : (s.ports.map List.tail).getD p [] = (s.ports.getD p []).tail := by
            simp only [List.getD_eq_getElem?_getD, List.getElem?_map]
            cases s.ports[p]? <;> simp
          rw [e1, List.map_append, List.map_cons, List.map_nil, List.append_assoc, ← fifo p hp]
          congr 1
          rw [List.singleton_append]
          exact (htp p (by omega)).symm
        · intro t' ht'
          rcases List.mem_append.1 ht' with h1 | h1
          · exact tlen t' h1
          · simp at h1; subst h1; omega
      · exact h0

theorem jqinv_run (n : Nat) (ops : List JqOp) : JqInv n ((jqMach n).run ops).1 :=
  Mach.inv_run (jqMach n) (JqInv n) (jqinv_init n) (jqinv_step n) ops

end TbbVerif.C15
