/-
C15 helper lemmas: join_node with the reserving policy (all-or-nothing reservation).
-/
import TbbVerif.Model.C15

namespace TbbVerif.C15

def isConsume : JrEv → Bool
  | .consume _ => true
  | _ => false

theorem jrApply_len (r : List Bool) (e : JrEv) : (jrApply r e).length = r.length := by
  cases e <;> simp [jrApply]

theorem jrFold_len (evs : List JrEv) : ∀ r : List Bool, (evs.foldl jrApply r).length = r.length := by
  induction evs with
  | nil => intro r; rfl
  | cons e es ih => intro r; simp only [List.foldl_cons]; rw [ih, jrApply_len]

theorem getD_set_bool (r : List Bool) (q p : Nat) (b : Bool) :
    (r.set q b).getD p false = if q = p ∧ q < r.length then b else r.getD p false := by
  simp only [List.getD_eq_getElem?_getD, List.getElem?_set]
  by_cases h : q = p
  · subst h
    by_cases h2 : q < r.length
    · simp [h2]
    · simp [h2, List.getElem?_eq_none (Nat.le_of_not_lt h2)]
  · simp [h]

/-- effect of setting the flags of a list of ports to `false` -/
theorem clear_fold (f : Nat → JrEv) (hf : ∀ q r, jrApply r (f q) = r.set q false) (L : List Nat) :
    ∀ r : List Bool, ∀ p, ((L.map f).foldl jrApply r).getD p false =
      if p ∈ L ∧ p < r.length then false else r.getD p false := by
  induction L with
  | nil => intro r p; simp
  | cons q L ih =>
    intro r p
    simp only [List.map_cons, List.foldl_cons, hf]
    rw [ih, getD_set_bool]
    simp only [List.length_set, List.mem_cons]
    by_cases h1 : p ∈ L ∧ p < r.length
    · simp [h1]
    · by_cases h2 : q = p
      · subst h2
        by_cases h3 : q < r.length
        · simp [h1, h3]
        · have : r.getD q false = false := by
            simp [List.getD_eq_getElem?_getD, List.getElem?_eq_none (Nat.le_of_not_lt h3)]
          simp [h3, this]
      · have : ¬ ((p = q ∨ p ∈ L) ∧ p < r.length) := by
          intro ⟨h4, h5⟩; rcases h4 with h4 | h4
          · exact h2 h4.symm
          · exact h1 ⟨h4, h5⟩
        simp [h1, h2, this]

/-- what `join_helper<k>::reserve` does to the ports' `reserved` flags -/
theorem reserve_effect (avail : Nat → Option Nat) (k : Nat) :
    ∀ r : List Bool, (∀ p, p < k → r.getD p false = false) →
      (∀ e ∈ (jrReserve avail k).1, isConsume e = false) ∧
      ((jrReserve avail k).2 = none → ∀ p, ((jrReserve avail k).1.foldl jrApply r).getD p false = r.getD p false) ∧
      (∀ t, (jrReserve avail k).2 = some t →
        t.length = k ∧ (∀ p, p < k → avail p = some (t.getD p 0)) ∧
        ∀ p, ((jrReserve avail k).1.foldl jrApply r).getD p false =
          if p < k ∧ p < r.length then true else r.getD p false) := by
  induction k with
  | zero => intro r _; simp [jrReserve]
  | succ k ih =>
    intro r hr
    unfold jrReserve
    cases hav : avail k with
    | none => simp
    | some v =>
      dsimp only
      have hr1 : ∀ p, p < k → (r.set k true).getD p false = false := by
        intro p hp; have : ¬ (k = p ∧ k < r.length) := by omega
        rw [getD_set_bool, if_neg this]; exact hr p (by omega)
      obtain ⟨hc, hn, hs⟩ := ih (r.set k true) hr1
      cases hres : jrReserve avail k with
      | mk evs res =>
        rw [hres] at hc hn hs
        cases res with
        | none =>
          dsimp only
          refine ⟨?_, ?_, by simp⟩
          · intro e he
            simp only [List.mem_cons, List.mem_append, List.not_mem_nil, or_false] at he
            rcases he with (rfl | he) | rfl
            · rfl
            · exact hc e he
            · rfl
          · intro _ p
            simp only [List.foldl_cons, List.foldl_append, List.foldl_nil, jrApply]
            rw [getD_set_bool, jrFold_len, List.length_set, hn rfl p, getD_set_bool]
            by_cases h : k = p ∧ k < r.length
            · rw [if_pos h, ← h.1]; exact (hr k (by omega)).symm
            · rw [if_neg h, if_neg h]
        | some t =>
          dsimp only
          obtain ⟨htl, hta, htg⟩ := hs t rfl
          refine ⟨?_, by simp, ?_⟩
          · intro e he
            simp only [List.mem_cons] at he
            rcases he with rfl | he
            · rfl
            · exact hc e he
          · intro t' ht'
            simp only [Option.some.injEq] at ht'
            subst ht'
            refine ⟨by simp [htl], ?_, ?_⟩
            · intro p hp
              by_cases hpk : p = k
              · rw [hpk, hav]
                have : (t ++ [v]).getD k 0 = v := by rw [← htl]; simp [List.getD_eq_getElem?_getD]
                rw [this]
              · have hp' : p < k := by omega
                rw [hta p hp']
                simp [List.getD_eq_getElem?_getD, List.getElem?_append, htl, hp']
            · intro p
              simp only [List.foldl_cons, jrApply]
              rw [htg p, List.length_set, getD_set_bool]
              by_cases h1 : p < k ∧ p < r.length
              · have : p < k + 1 ∧ p < r.length := by omega
                simp [h1, this]
              · by_cases h2 : k = p ∧ k < r.length
                · have : p < k + 1 ∧ p < r.length := by omega
                  simp [h1, h2, this]
                · have : ¬ (p < k + 1 ∧ p < r.length) := by omega
                  simp [h1, h2, this]

theorem eq_replicate_false (l : List Bool) (n : Nat) (hl : l.length = n) (h : ∀ p, l.getD p false = false) :
    l = List.replicate n false := by
  apply List.ext_getElem?
  intro p
  rw [List.getElem?_replicate]
  by_cases hp : p < n
  · have := h p
    rw [List.getD_eq_getElem?_getD] at this
    have hlt : p < l.length := by omega
    rw [List.getElem?_eq_getElem hlt] at this ⊢
    simp at this; simp [hp, this]
  · simp [hp, List.getElem?_eq_none (by omega : l.length ≤ p)]

/-- one tuple attempt leaves every port unreserved; consume events occur only for a complete, accepted tuple
and then for every port -/
theorem jrEvents_spec (n : Nat) (avail : Nat → Option Nat) (accept : Bool) :
    ((jrEvents n avail accept).1.foldl jrApply (List.replicate n false)) = List.replicate n false ∧
    (((jrEvents n avail accept).2 = none ∨ accept = false) → ∀ e ∈ (jrEvents n avail accept).1, isConsume e = false) ∧
    (∀ t, (jrEvents n avail accept).2 = some t → t.length = n ∧ ∀ p, p < n → avail p = some (t.getD p 0)) ∧
    (∀ t, (jrEvents n avail accept).2 = some t → accept = true →
        ∀ p, p < n → JrEv.consume p ∈ (jrEvents n avail accept).1 ∧ JrEv.reserve p (t.getD p 0) ∈ (jrEvents n avail accept).1) := by
  have hr0 : ∀ p, p < n → (List.replicate n false).getD p false = false := by
    intro p hp; simp [List.getD_eq_getElem?_getD, hp]
  have hg0 : ∀ p, (List.replicate n false).getD p false = false := by
    intro p; simp only [List.getD_eq_getElem?_getD, List.getElem?_replicate]; split <;> rfl
  obtain ⟨hc, hn, hs⟩ := reserve_effect avail n (List.replicate n false) hr0
  unfold jrEvents
  cases hres : jrReserve avail n with
  | mk evs res =>
    rw [hres] at hc hn hs
    cases res with
    | none =>
      dsimp only
      refine ⟨?_, fun _ => hc, by simp, by simp⟩
      apply eq_replicate_false _ n (by rw [jrFold_len]; simp)
      intro p; rw [hn rfl p]; exact hg0 p
    | some t =>
      dsimp only
      obtain ⟨htl, hta, htg⟩ := hs t rfl
      -- membership of the reserve events
      have hmem : ∀ k, ∀ evs' t', jrReserve avail k = (evs', some t') → ∀ p, p < k → JrEv.reserve p (t'.getD p 0) ∈ evs' := by
        intro k
        induction k with
        | zero => intro _ _ _ p hp; omega
        | succ k ih =>
          intro evs' t' he p hp
          unfold jrReserve at he
          cases hav : avail k with
          | none => simp [hav] at he
          | some v =>
            simp only [hav] at he
            cases hin : jrReserve avail k with
            | mk ei ri =>
              rw [hin] at he
              cases ri with
              | none => simp at he
              | some ti =>
                simp only [Prod.mk.injEq, Option.some.injEq] at he
                obtain ⟨rfl, rfl⟩ := he
                have hlen : ti.length = k := (reserve_effect avail k [] (by simp)).2.2 ti (by rw [hin]) |>.1
                by_cases hpk : p = k
                · have : (ti ++ [v]).getD k 0 = v := by rw [← hlen]; simp [List.getD_eq_getElem?_getD]
                  rw [hpk, this]; exact List.mem_cons_self
                · have := ih ei ti hin p (by omega)
                  have e : (ti ++ [v]).getD p 0 = ti.getD p 0 := by
                    simp [List.getD_eq_getElem?_getD, List.getElem?_append, hlen, (by omega : p < k)]
                  rw [e]; exact List.mem_cons_of_mem _ this
      split
      · rename_i hacc
        refine ⟨?_, ?_, ?_, ?_⟩
        · apply eq_replicate_false _ n (by rw [jrFold_len]; simp)
          intro p
          rw [List.foldl_append, clear_fold JrEv.consume (fun _ _ => rfl), htg p, jrFold_len]
          simp only [List.length_replicate, List.mem_reverse, List.mem_range]
          by_cases hp : p < n
          · simp [hp]
          · simp [hp, hg0 p]
        · intro h; rcases h with h | h
          · cases h
          · rw [hacc] at h; cases h
        · intro t' ht'; cases ht'; exact ⟨htl, hta⟩
        · intro t' ht' _ p hp
          cases ht'
          constructor
          · apply List.mem_append_right; simp [hp]
          · exact List.mem_append_left _ (hmem n evs t hres p hp)
      · rename_i hacc
        refine ⟨?_, ?_, ?_, ?_⟩
        · apply eq_replicate_false _ n (by rw [jrFold_len]; simp)
          intro p
          rw [List.foldl_append, clear_fold JrEv.release (fun _ _ => rfl), htg p, jrFold_len]
          simp only [List.length_replicate, List.mem_range]
          by_cases hp : p < n
          · simp [hp]
          · simp [hp, hg0 p]
        · intro _ e he
          rcases List.mem_append.1 he with h1 | h1
          · exact hc e h1
          · simp only [List.mem_map] at h1; obtain ⟨q, _, rfl⟩ := h1; rfl
        · intro t' ht'; cases ht'; exact ⟨htl, hta⟩
        · intro t' _ ha; exact absurd ha hacc

theorem jr_resv_run (n : Nat) (ops : List (List (Option Nat) × Bool)) :
    ((jrMach n).run ops).1.resv = List.replicate n false ∧ ((jrMach n).run ops).1.n = n := by
  apply Mach.inv_run (jrMach n) (fun s => s.resv = List.replicate n false ∧ s.n = n)
  · exact ⟨rfl, rfl⟩
  · intro s op ⟨h1, h2⟩
    unfold jrMach jrStep
    dsimp only
    have := (jrEvents_spec n (fun p => op.1.getD p none) op.2).1
    rw [h2, h1]
    cases hres : jrEvents n (fun p => op.1.getD p none) op.2 with
    | mk evs res =>
      rw [hres] at this
      cases res <;> exact ⟨this, rfl⟩

end TbbVerif.C15
