/-
C15 helper lemmas: the batch layer (`handle_operations_impl`, `internal_forward_task_impl`, the forwarder flag),
generic in the node kind (`Core`).
-/
import TbbVerif.Model.C15Batch

namespace TbbVerif.C15.Batch
open TbbVerif.C15

variable {σ : Type}

/-- what the batch layer needs to know about `forwarder_busy` in a node kind -/
structure Lawful (C : Core σ) : Prop where
  busy_set : ∀ s b, C.busy (C.setBusy s b) = b
  busy_step : ∀ s op, (∀ a, op ≠ BufOp.fwd a) → C.busy (C.step s op).1 = C.busy s
  busy_order : ∀ s, C.busy (C.order s) = C.busy s

/-- a predicate on the core state that every handler keeps -/
structure Pres (C : Core σ) (P : σ → Prop) : Prop where
  step : ∀ s op, P s → P (C.step s op).1
  setBusy : ∀ s b, P s → P (C.setBusy s b)
  order : ∀ s, P s → P (C.order s)

/-! ### invariants of the core state are invariants of every batch history -/

theorem fwdLoop_pres {C : Core σ} {P : σ → Prop} (h : Pres C P) (ω : Nat → Verdict) :
    ∀ (c : Nat) (s : NSt σ) (last : Bool), P s.core → P (fwdLoop C ω c s last).1.core := by
  intro c
  induction c with
  | zero => intro s last hp; simpa [fwdLoop] using hp
  | succ c ih =>
    intro s last hp
    unfold fwdLoop
    split
    · apply ih; exact h.setBusy _ _ (h.step _ _ hp)
    · exact hp

theorem internalForward_pres {C : Core σ} {P : σ → Prop} (h : Pres C P) (ω : Nat → Verdict) (s : NSt σ)
    (hp : P s.core) : P (internalForward C ω s).1.core := by
  unfold internalForward
  split
  · exact h.setBusy _ _ hp
  · have := fwdLoop_pres h ω s.succs.length s false hp
    dsimp only
    split
    · exact this
    · exact h.setBusy _ _ this

theorem handleOne_pres {C : Core σ} {P : σ → Prop} (h : Pres C P) (ω : Nat → Verdict) (s : NSt σ) (op : NOp)
    (hp : P s.core) : P (handleOne C ω s op).1.core := by
  cases op <;> simp only [handleOne] <;> first
    | exact hp
    | exact h.step _ _ hp
    | exact internalForward_pres h ω s hp

theorem handleLoop_pres {C : Core σ} {P : σ → Prop} (h : Pres C P) (k : Skel) (ω : Nat → Verdict) :
    ∀ (ops : List NOp) (s : NSt σ) (tf : Bool), P s.core → P (handleLoop C k ω ops s tf).1.core := by
  intro ops
  induction ops with
  | nil => intro s tf hp; simpa [handleLoop] using hp
  | cons op ops ih => intro s tf hp; simp only [handleLoop]; exact ih _ _ (handleOne_pres h ω s op hp)

theorem epilogue_pres {C : Core σ} {P : σ → Prop} (h : Pres C P) (s : NSt σ) (tf : Bool) (hp : P s.core) :
    P (epilogue C s tf).1.core := by
  unfold epilogue
  dsimp only
  split
  · exact h.setBusy _ _ (h.order _ hp)
  · exact h.order _ hp

theorem handleOps_pres {C : Core σ} {P : σ → Prop} (h : Pres C P) (k : Skel) (ω : Nat → Verdict) (s : NSt σ)
    (batch : List NOp) (hp : P s.core) : P (handleOps C k ω s batch).1.core := by
  unfold handleOps
  exact epilogue_pres h _ _ (handleLoop_pres h k ω batch s false hp)

theorem runHistory_pres {C : Core σ} {P : σ → Prop} (h : Pres C P) (k : Skel) (ω : Nat → Verdict) :
    ∀ (hist : List (List NOp)) (s : NSt σ), P s.core → P (runHistory C k ω s hist).core := by
  intro hist
  induction hist with
  | nil => intro s hp; simpa [runHistory] using hp
  | cons a rest ih => intro s hp; simp only [runHistory]; exact ih _ (handleOps_pres h k ω s _ hp)

/-! ### a batch is the sequential execution of its operations in list order -/

theorem handleLoop_seq (C : Core σ) (k : Skel) (ω : Nat → Verdict) :
    ∀ (ops : List NOp) (s : NSt σ) (tf : Bool),
      (handleLoop C k ω ops s tf).1 = (seqRun C ω ops s).1 ∧ (handleLoop C k ω ops s tf).2.2 = (seqRun C ω ops s).2 := by
  intro ops
  induction ops with
  | nil => intro s tf; simp [handleLoop, seqRun]
  | cons op ops ih =>
    intro s tf
    simp only [handleLoop, seqRun]
    obtain ⟨h1, h2⟩ := ih (handleOne C ω s op).1 ((k.eff op).apply tf (handleOne C ω s op).2.2)
    exact ⟨h1, by rw [h2]⟩

/-! ### the forwarder flag -/

/-- `forwarder_busy` is set exactly while one forwarder is live, and there is never more than one -/
def LiveInv (C : Core σ) (s : NSt σ) : Prop := (C.busy s.core = true ↔ s.live = 1) ∧ s.live ≤ 1

theorem fwdLoop_flag {C : Core σ} (hl : Lawful C) (ω : Nat → Verdict) :
    ∀ (c : Nat) (s : NSt σ) (last : Bool),
      C.busy (fwdLoop C ω c s last).1.core = C.busy s.core ∧ (fwdLoop C ω c s last).1.live = s.live ∧
      (fwdLoop C ω c s last).1.tasks = s.tasks := by
  intro c
  induction c with
  | zero => intro s last; simp [fwdLoop]
  | succ c ih =>
    intro s last
    unfold fwdLoop
    split
    · obtain ⟨a, b, d⟩ := ih { s with core := C.offer s.core (cacheTry ω (C.cand s.core) s.succs s.tick).1,
                                      succs := (cacheTry ω (C.cand s.core) s.succs s.tick).2.1,
                                      tick := (cacheTry ω (C.cand s.core) s.succs s.tick).2.2.1,
                                      offers := s.offers ++ (cacheTry ω (C.cand s.core) s.succs s.tick).2.2.2 }
                                (last || (cacheTry ω (C.cand s.core) s.succs s.tick).1)
      refine ⟨?_, b, d⟩
      rw [a]; exact hl.busy_set _ _
    · exact ⟨rfl, rfl, rfl⟩

theorem internalForward_flag {C : Core σ} (hl : Lawful C) (ω : Nat → Verdict) (s : NSt σ) :
    (internalForward C ω s).1.live = s.live ∧ (internalForward C ω s).1.tasks = s.tasks ∧
    ((internalForward C ω s).2 = true → C.busy (internalForward C ω s).1.core = C.busy s.core) ∧
    ((internalForward C ω s).2 = false → C.busy (internalForward C ω s).1.core = false) := by
  obtain ⟨a, b, d⟩ := fwdLoop_flag hl ω s.succs.length s false
  unfold internalForward
  split
  · exact ⟨rfl, rfl, (by intro h; cases h), fun _ => hl.busy_set _ _⟩
  · dsimp only
    split
    · exact ⟨b, d, fun _ => a, (by intro h; cases h)⟩
    · exact ⟨b, d, (by intro h; cases h), fun _ => hl.busy_set _ _⟩

theorem handleOne_live {C : Core σ} (hl : Lawful C) (ω : Nat → Verdict) (s : NSt σ) (op : NOp) (h : LiveInv C s) :
    LiveInv C (handleOne C ω s op).1 := by
  obtain ⟨h1, h2⟩ := h
  cases op with
  | regSucc r => exact ⟨h1, h2⟩
  | remSucc r => exact ⟨h1, h2⟩
  | reqItem => simp only [handleOne, LiveInv]; rw [hl.busy_step _ _ (by intro a h; cases h)]; exact ⟨h1, h2⟩
  | resItem => simp only [handleOne, LiveInv]; rw [hl.busy_step _ _ (by intro a h; cases h)]; exact ⟨h1, h2⟩
  | relRes => simp only [handleOne, LiveInv]; rw [hl.busy_step _ _ (by intro a h; cases h)]; exact ⟨h1, h2⟩
  | conRes => simp only [handleOne, LiveInv]; rw [hl.busy_step _ _ (by intro a h; cases h)]; exact ⟨h1, h2⟩
  | putItem v => simp only [handleOne, LiveInv]; rw [hl.busy_step _ _ (by intro a h; cases h)]; exact ⟨h1, h2⟩
  | tryFwd =>
    obtain ⟨a, _, c, d⟩ := internalForward_flag hl ω s
    simp only [handleOne, LiveInv]
    cases hr : (internalForward C ω s).2 with
    | true =>
      simp only [if_true]
      rw [c hr, a]; exact ⟨h1, h2⟩
    | false =>
      simp only [Bool.false_eq_true, if_false]
      rw [d hr, a]
      constructor
      · constructor
        · intro h; cases h
        · intro h; omega
      · omega

theorem handleLoop_live {C : Core σ} (hl : Lawful C) (k : Skel) (ω : Nat → Verdict) :
    ∀ (ops : List NOp) (s : NSt σ) (tf : Bool), LiveInv C s → LiveInv C (handleLoop C k ω ops s tf).1 := by
  intro ops
  induction ops with
  | nil => intro s tf h; simpa [handleLoop] using h
  | cons op ops ih => intro s tf h; simp only [handleLoop]; exact ih _ _ (handleOne_live hl ω s op h)

theorem epilogue_live {C : Core σ} (hl : Lawful C) (s : NSt σ) (tf : Bool) (h : LiveInv C s) :
    LiveInv C (epilogue C s tf).1 ∧ (tf = true → C.busy (epilogue C s tf).1.core = true ∧ (epilogue C s tf).1.live = 1) := by
  obtain ⟨h1, h2⟩ := h
  unfold epilogue
  dsimp only
  split
  · rename_i hc
    simp only [Bool.and_eq_true, Bool.not_eq_true', hl.busy_order] at hc
    have hb : ¬ (C.busy s.core = true) := by rw [hc.2]; exact Bool.false_ne_true
    have hl0 : s.live = 0 := by
      have : s.live ≠ 1 := fun e => hb (h1.mpr e)
      omega
    refine ⟨⟨⟨fun _ => ?_, fun _ => hl.busy_set _ _⟩, ?_⟩, fun _ => ⟨hl.busy_set _ _, ?_⟩⟩
    · show s.live + 1 = 1; omega
    · show s.live + 1 ≤ 1; omega
    · show s.live + 1 = 1; omega
  · rename_i hc
    refine ⟨⟨?_, h2⟩, ?_⟩
    · simp only [hl.busy_order]; exact h1
    · intro htf
      simp only [htf, Bool.true_and, Bool.not_eq_true', hl.busy_order] at hc
      have hb : C.busy s.core = true := by
        cases hbb : C.busy s.core with
        | true => rfl
        | false => exact absurd hbb hc
      simp only [hl.busy_order]
      exact ⟨hb, h1.mp hb⟩

theorem handleOps_live {C : Core σ} (hl : Lawful C) (k : Skel) (ω : Nat → Verdict) (s : NSt σ) (batch : List NOp)
    (h : LiveInv C s) : LiveInv C (handleOps C k ω s batch).1 := by
  unfold handleOps
  exact (epilogue_live hl _ _ (handleLoop_live hl k ω batch s false h)).1

theorem runHistory_live {C : Core σ} (hl : Lawful C) (k : Skel) (ω : Nat → Verdict) :
    ∀ (hist : List (List NOp)) (s : NSt σ), LiveInv C s → LiveInv C (runHistory C k ω s hist) := by
  intro hist
  induction hist with
  | nil => intro s h; simpa [runHistory] using h
  | cons a rest ih => intro s h; simp only [runHistory]; exact ih _ (handleOps_live hl k ω s _ h)

/-! ### a request for forwarding made inside a batch is not lost -/

/-- the switch, for this node kind, never loses a request: if forwarding was already requested or this
operation asks for it, `try_forwarding` is true after the case -/
def GoodSwitch (C : Core σ) (k : Skel) (ω : Nat → Verdict) (P : σ → Prop) : Prop :=
  ∀ (s : NSt σ) (op : NOp) (tf : Bool), P s.core → (tf = true ∨ fires C s op = true) →
    (k.eff op).apply tf (handleOne C ω s op).2.2 = true

theorem handleLoop_tf {C : Core σ} {P : σ → Prop} (hp : Pres C P) (k : Skel) (ω : Nat → Verdict)
    (hg : GoodSwitch C k ω P) :
    ∀ (ops : List NOp) (s : NSt σ) (tf : Bool), P s.core → (tf = true ∨ hasTrigger C ω ops s = true) →
      (handleLoop C k ω ops s tf).2.1 = true := by
  intro ops
  induction ops with
  | nil =>
    intro s tf _ h
    rcases h with h | h
    · simpa [handleLoop] using h
    · simp [hasTrigger] at h
  | cons op ops ih =>
    intro s tf hP h
    simp only [handleLoop]
    apply ih _ _ (handleOne_pres hp ω s op hP)
    rcases h with h | h
    · exact Or.inl (hg s op tf hP (Or.inl h))
    · simp only [hasTrigger, Bool.or_eq_true] at h
      rcases h with h | h
      · exact Or.inl (hg s op tf hP (Or.inr h))
      · exact Or.inr h

theorem goodSwitch_ok (C : Core σ) (k : Skel) (ω : Nat → Verdict) (hk : k.ok = true) :
    GoodSwitch C k ω (fun _ => True) := by
  intro s op tf _ h
  simp only [Skel.ok, Bool.and_eq_true, Bool.or_eq_true, beq_iff_eq, bne_iff_ne, ne_eq] at hk
  obtain ⟨⟨⟨⟨⟨⟨⟨h1, h2⟩, h3⟩, h4⟩, h5⟩, h6⟩, h7⟩, h8⟩ := hk
  cases op with
  | regSucc r => simp [Skel.eff, h1, TfEff.apply]
  | relRes => simp [Skel.eff, h2, TfEff.apply]
  | conRes => simp [Skel.eff, h3, TfEff.apply]
  | putItem v =>
    have hf : tf = true ∨ ((C.step s.core (.put v)).2 == BufOut.ok) = true := by simpa [fires] using h
    rcases h4 with h4 | h4 <;> simp only [Skel.eff, h4, TfEff.apply, handleOne]
    rcases hf with hf | hf <;> simp [hf]
  | remSucc r =>
    have hf : tf = true := by simpa [fires] using h
    simp only [Skel.eff, hf]
    cases hh : k.remSucc <;> simp_all [TfEff.apply]
  | reqItem =>
    have hf : tf = true := by simpa [fires] using h
    simp only [Skel.eff, hf]
    cases hh : k.reqItem <;> simp_all [TfEff.apply]
  | resItem =>
    have hf : tf = true := by simpa [fires] using h
    simp only [Skel.eff, hf]
    cases hh : k.resItem <;> simp_all [TfEff.apply]
  | tryFwd =>
    have hf : tf = true := by simpa [fires] using h
    simp only [Skel.eff, hf]
    cases hh : k.tryFwd <;> simp_all [TfEff.apply, handleOne]

theorem goodSwitch_totalPush (C : Core σ) (k : Skel) (ω : Nat → Verdict) (P : σ → Prop)
    (hput : ∀ s v, P s → (C.step s (.put v)).2 = .ok) (hk : k.okTotalPush = true) :
    GoodSwitch C k ω P := by
  intro s op tf hP h
  simp only [Skel.okTotalPush, Bool.and_eq_true, Bool.or_eq_true, beq_iff_eq, bne_iff_ne, ne_eq] at hk
  obtain ⟨⟨⟨⟨⟨⟨⟨h1, h2⟩, h3⟩, h4⟩, h5⟩, h6⟩, h7⟩, h8⟩ := hk
  cases op with
  | regSucc r => simp [Skel.eff, h1, TfEff.apply]
  | relRes => simp [Skel.eff, h2, TfEff.apply]
  | conRes => simp [Skel.eff, h3, TfEff.apply]
  | putItem v =>
    have hr : (handleOne C ω s (.putItem v)).2.2 = true := by simp [handleOne, hput s.core v hP]
    cases hh : k.putItem <;> simp_all [Skel.eff, TfEff.apply]
  | remSucc r =>
    have hf : tf = true := by simpa [fires] using h
    simp only [Skel.eff, hf]
    cases hh : k.remSucc <;> simp_all [TfEff.apply]
  | reqItem =>
    have hf : tf = true := by simpa [fires] using h
    simp only [Skel.eff, hf]
    cases hh : k.reqItem <;> simp_all [TfEff.apply]
  | resItem =>
    have hf : tf = true := by simpa [fires] using h
    simp only [Skel.eff, hf]
    cases hh : k.resItem <;> simp_all [TfEff.apply]
  | tryFwd =>
    have hf : tf = true := by simpa [fires] using h
    simp only [Skel.eff, hf]
    cases hh : k.tryFwd <;> simp_all [TfEff.apply, handleOne]

/-- **No lost request**: after a batch in which some operation asked for forwarding, `forwarder_busy` is set and
exactly one forwarder is live (it will run `internal_forward_task` on the state this batch leaves or a later one). -/
theorem handleOps_trigger {C : Core σ} {P : σ → Prop} (hl : Lawful C) (hp : Pres C P) (k : Skel) (ω : Nat → Verdict)
    (hg : GoodSwitch C k ω P) (s : NSt σ) (batch : List NOp) (hP : P s.core) (hL : LiveInv C s)
    (ht : hasTrigger C ω batch s = true) :
    C.busy (handleOps C k ω s batch).1.core = true ∧ (handleOps C k ω s batch).1.live = 1 := by
  unfold handleOps
  have htf := handleLoop_tf hp k ω hg batch s false hP (Or.inr ht)
  exact (epilogue_live hl _ _ (handleLoop_live hl k ω batch s false hL)).2 htf

/-! ### a forwarder gives up only when there is nothing it could do -/

theorem cacheTry_false (ω : Nat → Verdict) (v : Nat) :
    ∀ (succs : List Nat) (t : Nat), (cacheTry ω v succs t).1 = false →
      ∀ r ∈ succs, ∃ vd, vd ≠ Verdict.accept ∧ (r, v, vd) ∈ (cacheTry ω v succs t).2.2.2 := by
  intro succs
  induction succs with
  | nil => intro t _ r hr; cases hr
  | cons x xs ih =>
    intro t h r hr
    unfold cacheTry at h ⊢
    cases hω : ω t with
    | accept => simp [hω] at h
    | reject =>
      simp only [hω] at h ⊢
      rcases List.mem_cons.mp hr with rfl | hr
      · exact ⟨.reject, by decide, List.mem_cons_self⟩
      · obtain ⟨vd, h1, h2⟩ := ih (t + 1) h r hr
        exact ⟨vd, h1, List.mem_cons_of_mem _ h2⟩
    | rejectPull =>
      simp only [hω] at h ⊢
      rcases List.mem_cons.mp hr with rfl | hr
      · exact ⟨.rejectPull, by decide, List.mem_cons_self⟩
      · obtain ⟨vd, h1, h2⟩ := ih (t + 1) h r hr
        exact ⟨vd, h1, List.mem_cons_of_mem _ h2⟩

/-- if the offer loop ends with its counter exhausted and no task, its last round offered the then-current
candidate to every successor of the cache and all of them refused -/
theorem fwdLoop_all_refused (C : Core σ) (ω : Nat → Verdict) :
    ∀ (c : Nat) (s : NSt σ) (last : Bool) (s' : NSt σ), fwdLoop C ω (c + 1) s last = (s', 0, false) →
      ∃ s0 : NSt σ, C.valid s0.core = true ∧ (cacheTry ω (C.cand s0.core) s0.succs s0.tick).1 = false ∧
        s'.succs = (cacheTry ω (C.cand s0.core) s0.succs s0.tick).2.1 ∧
        s'.offers = s0.offers ++ (cacheTry ω (C.cand s0.core) s0.succs s0.tick).2.2.2 := by
  intro c
  induction c with
  | zero =>
    intro s last s' h
    unfold fwdLoop at h
    split at h
    · rename_i hv
      simp only [fwdLoop, Prod.mk.injEq, Bool.or_eq_false_iff] at h
      obtain ⟨h1, _, _, h3⟩ := h
      refine ⟨s, hv, h3, ?_, ?_⟩ <;> rw [← h1]
    · simp at h
  | succ c ih =>
    intro s last s' h
    unfold fwdLoop at h
    split at h
    · exact ih _ _ _ h
    · simp at h

theorem fwdLoop_counter_pos (C : Core σ) (ω : Nat → Verdict) :
    ∀ (c : Nat) (s : NSt σ) (last : Bool), 0 < (fwdLoop C ω c s last).2.1 → C.valid (fwdLoop C ω c s last).1.core = false := by
  intro c
  induction c with
  | zero => intro s last h; simp [fwdLoop] at h
  | succ c ih =>
    intro s last h
    unfold fwdLoop at h ⊢
    split
    · rename_i hv; rw [if_pos hv] at h; exact ih _ _ h
    · rename_i hv; simpa using hv

theorem internalForward_failed (C : Core σ) (ω : Nat → Verdict) (s : NSt σ) (h : (internalForward C ω s).2 = false) :
    C.blocked s.core = true ∨ s.succs = [] ∨
    (∃ s1 c last, fwdLoop C ω s.succs.length s false = (s1, c, last) ∧ 0 < c ∧ C.valid s1.core = false) ∨
    (∃ s0 : NSt σ, C.valid s0.core = true ∧ (cacheTry ω (C.cand s0.core) s0.succs s0.tick).1 = false ∧
        (internalForward C ω s).1.succs = (cacheTry ω (C.cand s0.core) s0.succs s0.tick).2.1 ∧
        (internalForward C ω s).1.offers = s0.offers ++ (cacheTry ω (C.cand s0.core) s0.succs s0.tick).2.2.2) := by
  by_cases hb : C.blocked s.core = true
  · exact Or.inl hb
  · cases hn : s.succs.length with
    | zero => exact Or.inr (Or.inl (List.length_eq_zero_iff.mp hn))
    | succ n =>
      right; right
      unfold internalForward at h ⊢
      rw [if_neg hb] at h ⊢
      rw [hn] at h ⊢
      dsimp only at h ⊢
      by_cases hc : (fwdLoop C ω (n + 1) s false).2.1 = 0
      · right
        have hlast : (fwdLoop C ω (n + 1) s false).2.2 = false := by
          cases hl : (fwdLoop C ω (n + 1) s false).2.2 with
          | false => rfl
          | true => simp [hl, hc] at h
        have he : fwdLoop C ω (n + 1) s false = ((fwdLoop C ω (n + 1) s false).1, 0, false) := by
          apply Prod.ext
          · rfl
          · apply Prod.ext
            · exact hc
            · exact hlast
        obtain ⟨s0, h1, h2, h3, h4⟩ := fwdLoop_all_refused C ω n s false _ he
        refine ⟨s0, h1, h2, ?_, ?_⟩
        · simp only [hlast, Bool.false_and, Bool.false_eq_true, if_false]; exact h3
        · simp only [hlast, Bool.false_and, Bool.false_eq_true, if_false]; exact h4
      · left
        exact ⟨_, _, _, rfl, Nat.pos_of_ne_zero hc, fwdLoop_counter_pos C ω (n + 1) s false (Nat.pos_of_ne_zero hc)⟩

end TbbVerif.C15.Batch
