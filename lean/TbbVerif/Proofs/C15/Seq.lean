/-
C15 helper lemmas: sequencer_node invariant.
-/
import TbbVerif.Proofs.C15.ItemBuf

namespace TbbVerif.C15
open ItemBuf

/-- the items present in a window (holes skipped) -/
def present (w : List Slot) : List Nat := w.filterMap (fun o => o.map (·.1))

@[simp] theorem present_nil : present [] = [] := rfl
@[simp] theorem present_cons_none (w : List Slot) : present (none :: w) = present w := by simp [present]
@[simp] theorem present_cons_some (x : Nat) (r : Bool) (w : List Slot) :
    present (some (x, r) :: w) = x :: present w := by simp [present]
theorem present_append (a b : List Slot) : present (a ++ b) = present a ++ present b := by
  simp [present, List.filterMap_append]
@[simp] theorem present_replicate (n : Nat) : present (List.replicate n none) = [] := by
  induction n with
  | zero => rfl
  | succ n ih => simp [List.replicate_succ, ih]

theorem present_set_none (l : List Slot) (k v : Nat) (r : Bool) (h : l[k]? = some none) :
    (present (l.set k (some (v, r)))).Perm (v :: present l) := by
  obtain ⟨hk, he⟩ := List.getElem?_eq_some_iff.1 h
  rw [List.set_eq_take_append_cons_drop, if_pos hk]
  have e : l = List.take k l ++ none :: List.drop (k + 1) l := by
    rw [← he, List.getElem_cons_drop hk, List.take_append_drop]
  conv => rhs; rw [e]
  rw [present_append, present_append, present_cons_some, present_cons_none]
  exact List.perm_middle

theorem pad_get (w : List Slot) (n j : Nat) (y : Nat × Bool)
    (h : (w ++ List.replicate n none)[j]? = some (some y)) : w[j]? = some (some y) := by
  rw [List.getElem?_append] at h
  split at h
  · exact h
  · rw [List.getElem?_replicate] at h; split at h <;> simp at h

structure SInv (f : Nat → Nat) (s : BufSt) : Prop where
  wf : WF s.buf
  noub : s.ub = false
  /-- every buffered item sits at the index given by its sequence number -/
  tags : ∀ j x r, s.buf.view[j]? = some (some (x, r)) → f x = s.buf.head + j
  flag : ∀ j x, s.buf.view[j]? = some (some (x, true)) → j = 0 ∧ s.reserved = true
  resv : s.reserved = true → ∃ x rest, s.buf.view = some (x, true) :: rest
  /-- the items handed out so far carry exactly the numbers 0, 1, …, head-1, in this order -/
  order : s.out.map f = List.range s.buf.head
  cons : (s.out ++ present s.buf.view).Perm s.acc

theorem sinv_init (f : Nat → Nat) : SInv f {} := by
  have h := empty_wf
  have hv : ItemBuf.empty.view = [] := by
    apply List.eq_nil_of_length_eq_zero; rw [view_length, h.2.1, h.2.2]
  exact ⟨h.1, rfl, by simp [hv], by simp [hv], by simp, by simp [h.2.1], by simp [hv]⟩

/-- taking the front item of the window out (try_get, consumed reservation, accepted forward) -/
private theorem seq_pop (f : Nat → Nat) (s : BufSt) (h : SInv f s) (x : Nat) (r : Bool) (rest : List Slot)
    (hv : s.buf.view = some (x, r) :: rest) :
    ∃ b', s.buf.popFront = some (x, b') ∧
      ∀ busy, SInv f { s with buf := b', out := s.out ++ [x], busy := busy, reserved := false } := by
  obtain ⟨b', hp, hw', hv', hh', _⟩ := popFront_some s.buf h.wf x r rest hv
  refine ⟨b', hp, fun busy => ⟨hw', h.noub, ?_, ?_, by simp, ?_, ?_⟩⟩
  · intro j y r' hj
    simp only [hv', hh'] at hj ⊢
    have := h.tags (j + 1) y r' (by rw [hv]; simpa using hj)
    omega
  · intro j y hj
    simp only [hv'] at hj
    have := (h.flag (j + 1) y (by rw [hv]; simpa using hj)).1
    omega
  · simp only [hh', List.map_append, List.map_cons, List.map_nil, h.order]
    have := h.tags 0 x r (by rw [hv]; rfl)
    rw [this, Nat.add_zero, ← List.range_succ]
  · simp only [hv']
    have := h.cons
    rw [hv, present_cons_some] at this
    simpa using this

theorem sinv_step (mode : Nat) (f : Nat → Nat) (s : BufSt) (op : BufOp) (h : SInv f s) :
    SInv f (bufStep .sequencer mode f s op).1 := by
  have h0 := h
  unfold bufStep
  rw [if_neg (by rw [h.noub]; exact Bool.false_ne_true)]
  cases op with
  | put v =>
    dsimp only
    obtain ⟨hlt, hge⟩ := seqPush_spec s.buf h.wf (f v) v
    by_cases hc : f v < s.buf.head
    · simp only [hlt hc]; exact h0
    · obtain ⟨b', p, hp, hw', hh', ht', hpf, hpt⟩ := hge (by omega)
      simp only [hp]
      cases p with
      | false =>
        dsimp only
        obtain ⟨hv', _⟩ := hpf rfl
        refine ⟨hw', h.noub, ?_, ?_, ?_, by rw [hh']; exact h.order, ?_⟩
        · intro j x r hj; rw [hv'] at hj; rw [hh']; exact h.tags j x r (pad_get _ _ _ _ hj)
        · intro j x hj; rw [hv'] at hj; exact h.flag j x (pad_get _ _ _ _ hj)
        · intro hr; obtain ⟨x, rest, e⟩ := h.resv hr; exact ⟨x, _, by rw [hv', e]; rfl⟩
        · rw [hv', present_append, present_replicate, List.append_nil]; exact h.cons
      | true =>
        dsimp only
        obtain ⟨hnone, hv'⟩ := hpt rfl
        have hkl : f v - s.buf.head < (s.buf.view ++ List.replicate (b'.tail - s.buf.tail) none).length :=
          (List.getElem?_eq_some_iff.1 hnone).1
        have hget : ∀ j y, b'.view[j]? = some (some y) →
            (j = f v - s.buf.head ∧ y = (v, false)) ∨ (j ≠ f v - s.buf.head ∧ s.buf.view[j]? = some (some y)) := by
          intro j y hj
          rw [hv', List.getElem?_set] at hj
          split at hj
          · rename_i e; left; exact ⟨e.symm, by simp [hkl] at hj; exact hj.symm⟩
          · rename_i e; right; exact ⟨fun e' => e e'.symm, pad_get _ _ _ _ hj⟩
        refine ⟨hw', h.noub, ?_, ?_, ?_, by rw [hh']; exact h.order, ?_⟩
        · intro j x r hj
          rw [hh']
          rcases hget j _ hj with ⟨e1, e2⟩ | ⟨_, e2⟩
          · cases e2; omega
          · exact h.tags j x r e2
        · intro j x hj
          rcases hget j _ hj with ⟨_, e2⟩ | ⟨_, e2⟩
          · cases e2
          · exact h.flag j x e2
        · intro hr
          obtain ⟨x, rest, e⟩ := h.resv hr
          have hne : f v - s.buf.head ≠ 0 := by
            intro e0; rw [e0, e] at hnone; simp at hnone
          refine ⟨x, ((rest ++ List.replicate (b'.tail - s.buf.tail) none).set (f v - s.buf.head - 1) (some (v, false))), ?_⟩
          rw [hv', e]
          obtain ⟨n, hn⟩ : ∃ n, f v - s.buf.head = n + 1 := ⟨f v - s.buf.head - 1, by omega⟩
          rw [hn]; simp
        · rw [hv']
          have hp1 := present_set_none _ _ v false hnone
          rw [present_append, present_replicate, List.append_nil] at hp1
          have : (s.out ++ v :: present s.buf.view).Perm (s.acc ++ [v]) := by
            refine List.Perm.trans ?_ (List.Perm.append_right [v] h.cons)
            rw [List.append_assoc]
            exact List.Perm.append_left s.out (List.perm_append_comm (l₁ := [v]))
          exact List.Perm.trans (List.Perm.append_left s.out hp1) this
  | get =>
    dsimp only
    split
    · exact h0
    · rename_i hr
      have e : s.reserved = false := by simpa using hr
      cases hv : s.buf.view with
      | nil => simp only [popFront_none _ (Or.inl hv)]; exact h0
      | cons o rest =>
        cases o with
        | none => simp only [popFront_none _ (Or.inr ⟨rest, hv⟩)]; exact h0
        | some xr =>
          obtain ⟨b', hp, hi⟩ := seq_pop f s h0 xr.1 xr.2 rest hv
          simp only [hp]
          have := hi s.busy
          simpa [e] using this
  | reserve =>
    dsimp only
    split
    · exact h0
    · rename_i hr
      have e : s.reserved = false := by simpa using hr
      cases hv : s.buf.view with
      | nil => simp only [reserveFront_none _ (Or.inl hv)]; exact h0
      | cons o rest =>
        cases o with
        | none => simp only [reserveFront_none _ (Or.inr ⟨rest, hv⟩)]; exact h0
        | some xr =>
          obtain ⟨b', hp, hw', hv', hh', _⟩ := reserveFront_some s.buf h.wf xr.1 xr.2 rest hv
          simp only [hp]
          refine ⟨hw', h.noub, ?_, ?_, fun _ => ⟨_, _, hv'⟩, by rw [hh']; exact h.order, ?_⟩
          · intro j x r hj
            rw [hh']
            simp only [hv'] at hj
            cases j with
            | zero =>
              simp at hj
              exact h.tags 0 x xr.2 (by rw [hv, ← hj.1]; rfl)
            | succ j => exact h.tags (j + 1) x r (by rw [hv]; simpa using hj)
          · intro j x hj
            simp only [hv'] at hj
            cases j with
            | zero => exact ⟨rfl, rfl⟩
            | succ j =>
              have := (h.flag (j + 1) x (by rw [hv]; simpa using hj)).2
              rw [e] at this; cases this
          · simp only [hv', present_cons_some]
            have := h.cons; rw [hv, present_cons_some] at this; exact this
  | release =>
    dsimp only
    split
    · exact h0
    · rename_i hr
      have e : s.reserved = true := by simpa using hr
      obtain ⟨x, rest, hv⟩ := h.resv e
      obtain ⟨b', hp, hw', hv', hh', _⟩ := releaseFront_some s.buf h.wf x rest hv
      simp only [hp]
      refine ⟨hw', h.noub, ?_, ?_, by simp, by rw [hh']; exact h.order, ?_⟩
      · intro j y r hj
        rw [hh']
        simp only [hv'] at hj
        cases j with
        | zero => simp at hj; exact h.tags 0 y true (by rw [hv]; simp [hj.1])
        | succ j => exact h.tags (j + 1) y r (by rw [hv]; simpa using hj)
      · intro j y hj
        simp only [hv'] at hj
        cases j with
        | zero => simp at hj
        | succ j =>
          have := (h.flag (j + 1) y (by rw [hv]; simpa using hj)).1
          omega
      · simp only [hv', present_cons_some]
        have := h.cons; rw [hv, present_cons_some] at this; exact this
  | consume =>
    dsimp only
    split
    · exact h0
    · rename_i hr
      have e : s.reserved = true := by simpa using hr
      obtain ⟨x, rest, hv⟩ := h.resv e
      obtain ⟨b', hp, hi⟩ := seq_pop f s h0 x true rest hv
      simp only [consumeFront, hp]
      exact hi s.busy
  | fwd a =>
    dsimp only
    split
    · exact ⟨h.wf, h.noub, h.tags, h.flag, h.resv, h.order, h.cons⟩
    · rename_i hr
      have e : s.reserved = false := by simpa using hr
      cases hv : s.buf.view with
      | nil => simp only [popFront_none _ (Or.inl hv)]; exact ⟨h.wf, h.noub, h.tags, h.flag, h.resv, h.order, h.cons⟩
      | cons o rest =>
        cases o with
        | none =>
          simp only [popFront_none _ (Or.inr ⟨rest, hv⟩)]
          exact ⟨h.wf, h.noub, h.tags, h.flag, h.resv, h.order, h.cons⟩
        | some xr =>
          obtain ⟨b', hp, hi⟩ := seq_pop f s h0 xr.1 xr.2 rest hv
          simp only [hp]
          split
          · have := hi s.busy; simpa [e] using this
          · exact h0

theorem sinv_run (mode : Nat) (f : Nat → Nat) (ops : List BufOp) :
    SInv f ((bufMach .sequencer mode f).run ops).1 :=
  Mach.inv_run (bufMach .sequencer mode f) (SInv f) (sinv_init f) (fun s o h => sinv_step mode f s o h) ops

end TbbVerif.C15
