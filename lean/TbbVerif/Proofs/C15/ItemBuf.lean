/-
C15 helper lemmas: the `item_buffer` ring refines a finite map index ↦ slot on `[head, tail)`.
-/
import TbbVerif.Model.C15

namespace TbbVerif.C15
namespace ItemBuf

/-! ### arithmetic of the ring -/

theorem mod_window {n i j : Nat} (hij : i < j) (hj : j < i + n) : i % n ≠ j % n := by
  intro h
  have h0 : (j - i) % n = 0 := Nat.sub_mod_eq_zero_of_mod_eq h.symm
  have hd : n ∣ (j - i) := Nat.dvd_of_mod_eq_zero h0
  have : n ≤ j - i := Nat.le_of_dvd (by omega) hd
  omega

/-- **no slot collision**: two different indices of a window of `n` consecutive indices use different slots -/
theorem mod_window_ne {n h i j : Nat} (hi : h ≤ i) (hi' : i < h + n) (hj : h ≤ j) (hj' : j < h + n)
    (hne : i ≠ j) : i % n ≠ j % n := by
  rcases Nat.lt_or_gt_of_ne hne with hlt | hgt
  · exact mod_window hlt (by omega)
  · exact fun e => mod_window hgt (by omega) e.symm

theorem idx_eq {n : Nat} (hp : ∃ k, n = 2 ^ k) (i : Nat) : idx n i = i % n := by
  obtain ⟨k, rfl⟩ := hp
  exact Nat.and_two_pow_sub_one_eq_mod i k

theorem pow_pos' {n : Nat} (hp : ∃ k, n = 2 ^ k) : 0 < n := by
  obtain ⟨k, rfl⟩ := hp
  exact Nat.two_pow_pos k

/-! ### well-formedness -/

structure WF (b : ItemBuf) : Prop where
  pow : ∃ k, b.arr.length = 2 ^ k
  le : b.head ≤ b.tail
  cap : b.tail - b.head ≤ b.arr.length
  /-- slots that are not in the window hold `no_item` -/
  clean : ∀ i, b.tail ≤ i → i < b.head + b.arr.length → b.slot i = none

theorem slot_eq (b : ItemBuf) (hp : ∃ k, b.arr.length = 2 ^ k) (i : Nat) :
    b.slot i = b.arr[i % b.arr.length]?.getD none := by
  simp [slot, idx_eq hp, List.getD_eq_getElem?_getD]

theorem valid_iff (b : ItemBuf) (i : Nat) :
    b.valid i = true ↔ i < b.tail ∧ b.head ≤ i ∧ (b.slot i).isSome = true := by
  simp [valid, and_assoc]

theorem slot_setSlot (b : ItemBuf) (hp : ∃ k, b.arr.length = 2 ^ k) (i j : Nat) (s : Slot) :
    (b.setSlot i s).slot j = if i % b.arr.length = j % b.arr.length then s else b.slot j := by
  have hpos := pow_pos' hp
  have hp' : ∃ k, (b.setSlot i s).arr.length = 2 ^ k := by simpa [setSlot] using hp
  rw [slot_eq _ hp', slot_eq _ hp]
  simp only [setSlot, List.length_set, idx_eq hp, List.getElem?_set]
  have : i % b.arr.length < b.arr.length := Nat.mod_lt _ hpos
  split <;> simp

@[simp] theorem setSlot_head (b : ItemBuf) (i : Nat) (s : Slot) : (b.setSlot i s).head = b.head := rfl
@[simp] theorem setSlot_tail (b : ItemBuf) (i : Nat) (s : Slot) : (b.setSlot i s).tail = b.tail := rfl
@[simp] theorem setSlot_len (b : ItemBuf) (i : Nat) (s : Slot) : (b.setSlot i s).arr.length = b.arr.length := by
  simp [setSlot]

/-- writing the slot of window index `i` leaves every other index of `[head, head+len)` alone -/
theorem slot_setSlot_window (b : ItemBuf) (hp : ∃ k, b.arr.length = 2 ^ k) {i j : Nat} (s : Slot)
    (hi : b.head ≤ i) (hi' : i < b.head + b.arr.length) (hj : b.head ≤ j) (hj' : j < b.head + b.arr.length) :
    (b.setSlot i s).slot j = if i = j then s else b.slot j := by
  rw [slot_setSlot b hp]
  by_cases h : i = j
  · simp [h]
  · simp [h, mod_window_ne hi hi' hj hj' h]

/-! ### `grow_my_array` -/

theorem doubleUntil_ge (fuel : Nat) : ∀ n m, m ≤ n * 2 ^ fuel → m ≤ doubleUntil fuel n m := by
  induction fuel with
  | zero => intro n m h; simpa [doubleUntil] using h
  | succ f ih =>
    intro n m h
    unfold doubleUntil
    split
    · apply ih; rw [Nat.pow_succ] at h; rw [Nat.mul_comm 2 n, Nat.mul_assoc, Nat.mul_comm 2]; exact h
    · omega

theorem doubleUntil_ge_self (fuel : Nat) : ∀ n m, n ≤ doubleUntil fuel n m := by
  induction fuel with
  | zero => intro n m; simp [doubleUntil]
  | succ f ih =>
    intro n m
    unfold doubleUntil
    split
    · have := ih (2 * n) m; omega
    · omega

theorem doubleUntil_pow (fuel : Nat) : ∀ n m, (∃ k, n = 2 ^ k) → ∃ k, doubleUntil fuel n m = 2 ^ k := by
  induction fuel with
  | zero => intro n m h; simpa [doubleUntil] using h
  | succ f ih =>
    intro n m h
    unfold doubleUntil
    split
    · apply ih; obtain ⟨k, rfl⟩ := h; exact ⟨k + 1, by rw [Nat.pow_succ]; omega⟩
    · exact h

theorem newSize_pow (cur m : Nat) (hc : cur = 0 ∨ ∃ k, cur = 2 ^ k) : ∃ k, newSize cur m = 2 ^ k := by
  unfold newSize
  apply doubleUntil_pow
  split
  · exact ⟨2, by decide⟩
  · rcases hc with h | ⟨k, rfl⟩
    · contradiction
    · exact ⟨k + 1, by rw [Nat.pow_succ]; omega⟩

theorem newSize_ge (cur m : Nat) : m ≤ newSize cur m := by
  unfold newSize
  apply doubleUntil_ge
  have h1 : m < 2 ^ m := Nat.lt_two_pow_self
  have h2 : 1 ≤ (if cur = 0 then Generated.C15.initialBufferSize else 2 * cur) := by
    split
    · decide
    · omega
  calc m ≤ 1 * 2 ^ m := by omega
    _ ≤ _ := Nat.mul_le_mul_right _ h2

theorem newSize_ge_cur (cur m : Nat) : cur ≤ newSize cur m := by
  unfold newSize
  have := doubleUntil_ge_self m (if cur = 0 then Generated.C15.initialBufferSize else 2 * cur) m
  by_cases h : cur = 0
  · simp [h]
  · simp only [h, if_false] at this ⊢; omega

/-- the copy loop: after copying the indices `h, …, h+c-1`, slot `j % ns` (for `j` in the window of `ns`
indices starting at `h`) holds `b.slot j` if `j` was copied and valid, and is untouched otherwise -/
theorem copy_fold (b : ItemBuf) (ns h : Nat) (hp : ∃ k, ns = 2 ^ k) (init : List Slot) (hlen : init.length = ns) :
    ∀ c, c ≤ ns →
      ((List.range' h c).foldl (copyInto b ns) init).length = ns ∧
      ∀ j, h ≤ j → j < h + ns →
        ((List.range' h c).foldl (copyInto b ns) init)[j % ns]?.getD none =
          if j < h + c ∧ b.valid j = true then b.slot j else init[j % ns]?.getD none := by
  have hns := pow_pos' hp
  intro c
  induction c with
  | zero =>
    intro _
    refine ⟨by simpa using hlen, ?_⟩
    intro j h1 _
    have : ¬ (j < h + 0 ∧ b.valid j = true) := by omega
    rw [if_neg this]; rfl
  | succ c ih =>
    intro hc
    obtain ⟨ihl, ihv⟩ := ih (by omega)
    rw [List.range'_concat, List.foldl_append]
    simp only [Nat.one_mul, List.foldl_cons, List.foldl_nil]
    generalize List.foldl (b.copyInto ns) init (List.range' h c) = A at ihl ihv ⊢
    constructor
    · unfold copyInto; split <;> simp [ihl]
    · intro j hj hj'
      unfold copyInto
      rw [idx_eq hp]
      by_cases hv : b.valid (h + c) = true
      · simp only [hv, if_true]
        by_cases hjc : j = h + c
        · subst hjc
          rw [List.getElem?_set_self (by rw [ihl]; exact Nat.mod_lt _ hns)]
          simp [hv]
        · rw [List.getElem?_set_ne (mod_window_ne (Nat.le_add_right h c) (by omega) hj hj' (Ne.symm hjc))]
          rw [ihv j hj hj']
          have hiff : (j < h + (c + 1)) ↔ (j < h + c) := by omega
          simp only [hiff]
      · have hv' : b.valid (h + c) = false := by simpa using hv
        simp only [hv', Bool.false_eq_true, if_false]
        rw [ihv j hj hj']
        by_cases hjc : j = h + c
        · subst hjc; simp [hv']
        · have hiff : (j < h + (c + 1)) ↔ (j < h + c) := by omega
          simp only [hiff]

theorem grow_len (b : ItemBuf) (m : Nat) (hp : b.arr.length = 0 ∨ ∃ k, b.arr.length = 2 ^ k)
    (hcap : b.tail - b.head ≤ newSize b.arr.length m) :
    (b.grow m).arr.length = newSize b.arr.length m := by
  have hp' := newSize_pow b.arr.length m hp
  exact (copy_fold b _ b.head hp' (List.replicate _ none) (by simp) _ hcap).1

@[simp] theorem grow_head (b : ItemBuf) (m : Nat) : (b.grow m).head = b.head := rfl
@[simp] theorem grow_tail (b : ItemBuf) (m : Nat) : (b.grow m).tail = b.tail := rfl

theorem grow_slot (b : ItemBuf) (m : Nat) (hp : b.arr.length = 0 ∨ ∃ k, b.arr.length = 2 ^ k)
    (hle : b.head ≤ b.tail) (hcap : b.tail - b.head ≤ newSize b.arr.length m)
    (j : Nat) (hj : b.head ≤ j) (hj' : j < b.head + newSize b.arr.length m) :
    (b.grow m).slot j = if j < b.tail ∧ b.valid j = true then b.slot j else none := by
  have hp' := newSize_pow b.arr.length m hp
  have hl := grow_len b m hp hcap
  have hp'' : ∃ k, (b.grow m).arr.length = 2 ^ k := by rw [hl]; exact hp'
  rw [slot_eq _ hp'', hl]
  have := (copy_fold b (newSize b.arr.length m) b.head hp' (List.replicate (newSize b.arr.length m) none)
    (by simp) _ hcap).2 j hj hj'
  have e : b.head + (b.tail - b.head) = b.tail := by omega
  rw [e] at this
  show ((List.range' b.head (b.tail - b.head)).foldl (copyInto b (newSize b.arr.length m))
      (List.replicate (newSize b.arr.length m) none))[j % newSize b.arr.length m]?.getD none = _
  rw [this]
  split
  · rfl
  · simp only [List.getElem?_replicate]; split <;> rfl

/-- **grow preserves the contents** (states included) and keeps the buffer well formed -/
theorem grow_wf (b : ItemBuf) (m : Nat) (hp : b.arr.length = 0 ∨ ∃ k, b.arr.length = 2 ^ k)
    (hle : b.head ≤ b.tail) (hcap : b.tail - b.head ≤ b.arr.length ∨ b.arr.length = 0 ∧ b.tail = b.head) :
    WF (b.grow m) ∧ (∀ j, b.head ≤ j → j < b.tail → (b.grow m).slot j = b.slot j) ∧
      m ≤ (b.grow m).arr.length ∧ b.arr.length ≤ (b.grow m).arr.length := by
  have hcap' : b.tail - b.head ≤ newSize b.arr.length m := by
    have := newSize_ge_cur b.arr.length m
    rcases hcap with h | ⟨_, h⟩ <;> omega
  have hl := grow_len b m hp hcap'
  refine ⟨⟨?_, hle, ?_, ?_⟩, ?_, ?_, ?_⟩
  · rw [hl]; exact newSize_pow _ _ hp
  · rw [hl]; exact hcap'
  · intro i hi hi'
    rw [hl] at hi'
    rw [grow_slot b m hp hle hcap' i (by simp at hi ⊢; omega) hi']
    simp at hi
    have : ¬ i < b.tail := by omega
    simp [this]
  · intro j hj hj'
    rw [grow_slot b m hp hle hcap' j hj (by omega)]
    by_cases hv : b.valid j = true
    · simp [hv, hj']
    · simp only [hv]
      have : ¬ ((b.slot j).isSome = true) := fun h => hv ((valid_iff b j).2 ⟨hj', hj, h⟩)
      cases hs : b.slot j <;> simp_all
  · rw [hl]; exact newSize_ge _ _
  · rw [hl]; exact newSize_ge_cur _ _

theorem empty_wf : WF empty ∧ empty.head = 0 ∧ empty.tail = 0 := by
  have := grow_wf { arr := [], head := 0, tail := 0 } Generated.C15.initialBufferSize (Or.inl rfl) (Nat.le_refl _) (Or.inr ⟨rfl, rfl⟩)
  exact ⟨this.1, rfl, rfl⟩

/-! ### the abstraction `view` and the primitive ring moves -/

theorem view_getElem? (b : ItemBuf) (k : Nat) :
    b.view[k]? = if k < b.tail - b.head then some (b.slot (b.head + k)) else none := by
  unfold view
  rw [List.getElem?_map]
  split
  · rename_i h; rw [List.getElem?_range' h]; simp
  · rename_i h; rw [List.getElem?_eq_none (by simp; omega)]; rfl

@[simp] theorem view_length (b : ItemBuf) : b.view.length = b.tail - b.head := by simp [view]

/-- writing a slot inside the window -/
theorem setSlot_in_window (b : ItemBuf) (hw : WF b) (i : Nat) (s : Slot) (hi : b.head ≤ i) (hi' : i < b.tail) :
    WF (b.setSlot i s) ∧ (b.setSlot i s).view = b.view.set (i - b.head) s ∧
      (∀ j, b.head ≤ j → j < b.head + b.arr.length → (b.setSlot i s).slot j = if i = j then s else b.slot j) := by
  have hcap := hw.cap
  have hsl : ∀ j, b.head ≤ j → j < b.head + b.arr.length → (b.setSlot i s).slot j = if i = j then s else b.slot j :=
    fun j hj hj' => slot_setSlot_window b hw.pow s hi (by omega) hj hj'
  refine ⟨⟨by simpa using hw.pow, hw.le, by simpa using hw.cap, ?_⟩, ?_, hsl⟩
  · intro j hj hj'
    simp only [setSlot_tail, setSlot_head, setSlot_len] at hj hj'
    rw [hsl j (by omega) hj']
    have : i ≠ j := by omega
    simp [this, hw.clean j hj hj']
  · apply List.ext_getElem?
    intro k
    rw [view_getElem?, List.getElem?_set, view_getElem?]
    simp only [setSlot_tail, setSlot_head, view_length]
    by_cases hk : k < b.tail - b.head
    · simp only [hk, if_true]
      rw [hsl (b.head + k) (by omega) (by omega)]
      by_cases e : i = b.head + k
      · have : i - b.head = k := by omega
        simp [e]; omega
      · have : ¬ (i - b.head = k) := by omega
        simp [e, this]
    · simp only [hk, if_false]
      split <;> simp_all

/-- `++my_head` over an empty front slot -/
theorem advanceHead (b : ItemBuf) (hw : WF b) (hlt : b.head < b.tail) (hs : b.slot b.head = none) :
    WF { b with head := b.head + 1 } ∧ ({ b with head := b.head + 1 } : ItemBuf).view = b.view.tail := by
  refine ⟨⟨hw.pow, by simp; omega, by have := hw.cap; simp; omega, ?_⟩, ?_⟩
  · intro j hj hj'
    simp only at hj hj'
    by_cases e : j = b.head + b.arr.length
    · subst e
      have h1 : ({ b with head := b.head + 1 } : ItemBuf).slot (b.head + b.arr.length) = b.slot (b.head + b.arr.length) := rfl
      rw [h1, slot_eq _ hw.pow, Nat.add_mod_right, ← slot_eq _ hw.pow]; exact hs
    · exact hw.clean j hj (by omega)
  · apply List.ext_getElem?
    intro k
    rw [List.getElem?_tail, view_getElem?, view_getElem?]
    simp only
    have e : b.head + 1 + k = b.head + (k + 1) := by omega
    rw [e]
    by_cases hk : k + 1 < b.tail - b.head
    · have : k < b.tail - (b.head + 1) := by omega
      simp [hk, this]; rfl
    · have : ¬ k < b.tail - (b.head + 1) := by omega
      simp [hk, this]

/-- `--my_tail` over an empty back slot -/
theorem retreatTail (b : ItemBuf) (hw : WF b) (hlt : b.head < b.tail) (hs : b.slot (b.tail - 1) = none) :
    WF { b with tail := b.tail - 1 } ∧ ({ b with tail := b.tail - 1 } : ItemBuf).view = b.view.dropLast := by
  refine ⟨⟨hw.pow, by simp; omega, by have := hw.cap; simp; omega, ?_⟩, ?_⟩
  · intro j hj hj'
    simp only at hj hj'
    by_cases e : j = b.tail - 1
    · subst e; exact hs
    · exact hw.clean j (by omega) hj'
  · apply List.ext_getElem?
    intro k
    rw [List.getElem?_dropLast, view_getElem?, view_getElem?]
    simp only [view_length]
    by_cases hk : k < b.tail - 1 - b.head
    · have h1 : k < b.tail - b.head - 1 := by omega
      have h2 : k < b.tail - b.head := by omega
      simp [hk, h1, h2]; rfl
    · have h1 : ¬ k < b.tail - b.head - 1 := by omega
      simp [hk, h1]

/-- moving `my_tail` forward over clean slots (sequencer_node) -/
theorem extendTail (b : ItemBuf) (hw : WF b) (t : Nat) (ht : b.tail ≤ t) (hc : t - b.head ≤ b.arr.length) :
    WF { b with tail := t } ∧ ({ b with tail := t } : ItemBuf).view = b.view ++ List.replicate (t - b.tail) none := by
  have hle := hw.le
  refine ⟨⟨hw.pow, by simp; omega, hc, ?_⟩, ?_⟩
  · intro j hj hj'
    exact hw.clean j (by simp at hj; omega) hj'
  · apply List.ext_getElem?
    intro k
    rw [List.getElem?_append, view_getElem?, view_getElem?, List.getElem?_replicate]
    simp only [view_length]
    by_cases hk : k < b.tail - b.head
    · have : k < t - b.head := by omega
      simp [hk, this]; rfl
    · simp only [hk, if_false]
      by_cases hk2 : k < t - b.head
      · have : k - (b.tail - b.head) < t - b.tail := by omega
        simp only [hk2, this, if_true]
        have h1 : ({ b with tail := t } : ItemBuf).slot (b.head + k) = b.slot (b.head + k) := rfl
        rw [h1, hw.clean (b.head + k) (by omega) (by omega)]
      · have : ¬ k - (b.tail - b.head) < t - b.tail := by omega
        simp [hk2, this]

theorem view_congr (b b' : ItemBuf) (hh : b'.head = b.head) (ht : b'.tail = b.tail)
    (hs : ∀ j, b.head ≤ j → j < b.tail → b'.slot j = b.slot j) : b'.view = b.view := by
  apply List.ext_getElem?
  intro k
  rw [view_getElem?, view_getElem?, hh, ht]
  split
  · rw [hs _ (by omega) (by omega)]
  · rfl

theorem view_head (b : ItemBuf) (x : Slot) (rest : List Slot) (h : b.view = x :: rest) :
    b.head < b.tail ∧ b.slot b.head = x := by
  have := view_getElem? b 0
  rw [h] at this
  simp only [List.getElem?_cons_zero, Nat.add_zero] at this
  split at this
  · exact ⟨by omega, by simpa using this.symm⟩
  · simp at this

theorem view_last (b : ItemBuf) (x : Slot) (init : List Slot) (h : b.view = init ++ [x]) :
    b.head < b.tail ∧ b.slot (b.tail - 1) = x := by
  have hl : b.view.length = init.length + 1 := by rw [h]; simp
  rw [view_length] at hl
  have := view_getElem? b init.length
  rw [h] at this
  simp only [List.getElem?_append, Nat.lt_irrefl, if_false, Nat.sub_self, List.getElem?_cons_zero] at this
  have hk : init.length < b.tail - b.head := by omega
  simp only [hk, if_true] at this
  have e : b.head + init.length = b.tail - 1 := by omega
  rw [e] at this
  exact ⟨by omega, by simpa using this.symm⟩

/-- **push_back** appends, growing (with all states preserved) when the ring is full -/
theorem pushBack_spec (b : ItemBuf) (hw : WF b) (v : Nat) :
    WF (b.pushBack v) ∧ (b.pushBack v).head = b.head ∧ (b.pushBack v).tail = b.tail + 1 ∧
      (b.pushBack v).view = b.view ++ [some (v, false)] := by
  have hle := hw.le
  -- the buffer after the optional growth
  obtain ⟨b1, hb1, hw1, hh1, ht1, hv1, hroom⟩ :
      ∃ b1, b1 = (if b.tail - b.head ≥ b.arr.length then b.grow (b.tail - b.head + 1) else b) ∧ WF b1 ∧
        b1.head = b.head ∧ b1.tail = b.tail ∧ b1.view = b.view ∧ b.tail - b.head < b1.arr.length := by
    refine ⟨_, rfl, ?_⟩
    split
    · have g := grow_wf b (b.tail - b.head + 1) (Or.inr hw.pow) hw.le (Or.inl hw.cap)
      exact ⟨g.1, rfl, rfl, view_congr b _ rfl rfl g.2.1, by omega⟩
    · exact ⟨hw, rfl, rfl, rfl, by omega⟩
  have e : b.pushBack v = ({ b1 with tail := b1.tail + 1 } : ItemBuf).setSlot b1.tail (some (v, false)) := by
    unfold pushBack; rw [← hb1]; rfl
  have x := extendTail b1 hw1 (b1.tail + 1) (by omega) (by rw [hh1, ht1]; omega)
  have y := setSlot_in_window _ x.1 b1.tail (some (v, false)) (by simp; omega) (by simp)
  rw [e]
  refine ⟨y.1, by simp [hh1], by simp [ht1], ?_⟩
  rw [y.2.1, x.2, hv1]
  simp only [hh1, ht1]
  have : b.tail + 1 - b.tail = 1 := by omega
  rw [this]
  have hl : b.view.length = b.tail - b.head := view_length b
  simp [List.set_append, hl]

/-- **pop_front** -/
theorem popFront_some (b : ItemBuf) (hw : WF b) (v : Nat) (r : Bool) (rest : List Slot)
    (h : b.view = some (v, r) :: rest) :
    ∃ b', b.popFront = some (v, b') ∧ WF b' ∧ b'.view = rest ∧ b'.head = b.head + 1 ∧ b'.tail = b.tail := by
  obtain ⟨hlt, hs⟩ := view_head b _ _ h
  have hv : b.valid b.head = true := (valid_iff b b.head).2 ⟨hlt, Nat.le_refl _, by simp [hs]⟩
  have x := setSlot_in_window b hw b.head none (Nat.le_refl _) hlt
  have hcap := hw.cap
  have hs' : (b.setSlot b.head none).slot (b.setSlot b.head none).head = none := by
    have := x.2.2 b.head (Nat.le_refl _) (by omega); simpa using this
  have y := advanceHead _ x.1 (by simpa using hlt) hs'
  refine ⟨_, by simp [popFront, hv, hs], y.1, ?_, rfl, rfl⟩
  rw [y.2, x.2.1, h]; simp

theorem popFront_none (b : ItemBuf) (h : b.view = [] ∨ ∃ rest, b.view = none :: rest) : b.popFront = none := by
  unfold popFront
  rcases h with h | ⟨rest, h⟩
  · have hl : b.view.length = 0 := by rw [h]; rfl
    rw [view_length] at hl
    have : b.valid b.head = false := by
      cases hv : b.valid b.head
      · rfl
      · have := (valid_iff b b.head).1 hv; omega
    simp [this]
  · have := (view_head b _ _ h).2
    simp [this]

/-- **pop_back** -/
theorem popBack_some (b : ItemBuf) (hw : WF b) (v : Nat) (r : Bool) (init : List Slot)
    (h : b.view = init ++ [some (v, r)]) :
    ∃ b', b.popBack = some (v, b') ∧ WF b' ∧ b'.view = init ∧ b'.head = b.head ∧ b'.tail = b.tail - 1 := by
  obtain ⟨hlt, hs⟩ := view_last b _ _ h
  have hv : b.valid (b.tail - 1) = true := (valid_iff b _).2 ⟨by omega, by omega, by simp [hs]⟩
  have x := setSlot_in_window b hw (b.tail - 1) none (by omega) (by omega)
  have hcap := hw.cap
  have hs' : (b.setSlot (b.tail - 1) none).slot ((b.setSlot (b.tail - 1) none).tail - 1) = none := by
    have := x.2.2 (b.tail - 1) (by omega) (by omega); simpa using this
  have y := retreatTail _ x.1 (by simpa using hlt) hs'
  refine ⟨_, by simp [popBack, hv, hs], y.1, ?_, rfl, rfl⟩
  rw [y.2, x.2.1, h]
  have hl : init.length = b.tail - 1 - b.head := by
    have : b.view.length = init.length + 1 := by rw [h]; simp
    rw [view_length] at this; omega
  rw [← hl]
  simp [List.set_append]

theorem popBack_none (b : ItemBuf) (h : b.view = [] ∨ ∃ init, b.view = init ++ [none]) : b.popBack = none := by
  unfold popBack
  rcases h with h | ⟨init, h⟩
  · have hl : b.view.length = 0 := by rw [h]; rfl
    rw [view_length] at hl
    have : b.valid (b.tail - 1) = false := by
      cases hv : b.valid (b.tail - 1)
      · rfl
      · have := (valid_iff b _).1 hv; omega
    simp [this]
  · have := (view_last b _ _ h).2
    simp [this]

/-- **reserve_front** / **release_front** change only the state of the front slot -/
theorem reserveFront_some (b : ItemBuf) (hw : WF b) (v : Nat) (r : Bool) (rest : List Slot)
    (h : b.view = some (v, r) :: rest) :
    ∃ b', b.reserveFront = some (v, b') ∧ WF b' ∧ b'.view = some (v, true) :: rest ∧ b'.head = b.head ∧ b'.tail = b.tail := by
  obtain ⟨hlt, hs⟩ := view_head b _ _ h
  have hv : b.valid b.head = true := (valid_iff b b.head).2 ⟨hlt, Nat.le_refl _, by simp [hs]⟩
  have x := setSlot_in_window b hw b.head (some (v, true)) (Nat.le_refl _) hlt
  refine ⟨_, by simp [reserveFront, hv, hs], x.1, ?_, rfl, rfl⟩
  rw [x.2.1, h]; simp

theorem reserveFront_none (b : ItemBuf) (h : b.view = [] ∨ ∃ rest, b.view = none :: rest) : b.reserveFront = none := by
  unfold reserveFront
  rcases h with h | ⟨rest, h⟩
  · have hl : b.view.length = 0 := by rw [h]; rfl
    rw [view_length] at hl
    have : b.valid b.head = false := by
      cases hv : b.valid b.head
      · rfl
      · have := (valid_iff b b.head).1 hv; omega
    simp [this]
  · have := (view_head b _ _ h).2
    simp [this]

theorem releaseFront_some (b : ItemBuf) (hw : WF b) (v : Nat) (rest : List Slot)
    (h : b.view = some (v, true) :: rest) :
    ∃ b', b.releaseFront = some b' ∧ WF b' ∧ b'.view = some (v, false) :: rest ∧ b'.head = b.head ∧ b'.tail = b.tail := by
  obtain ⟨hlt, hs⟩ := view_head b _ _ h
  have hv : b.valid b.head = true := (valid_iff b b.head).2 ⟨hlt, Nat.le_refl _, by simp [hs]⟩
  have x := setSlot_in_window b hw b.head (some (v, false)) (Nat.le_refl _) hlt
  refine ⟨_, by simp [releaseFront, hv, hs], x.1, ?_, rfl, rfl⟩
  rw [x.2.1, h]; simp

theorem front_spec (b : ItemBuf) (v : Nat) (r : Bool) (rest : List Slot) (h : b.view = some (v, r) :: rest) :
    b.front = some v := by
  obtain ⟨hlt, hs⟩ := view_head b _ _ h
  have hv : b.valid b.head = true := (valid_iff b b.head).2 ⟨hlt, Nat.le_refl _, by simp [hs]⟩
  simp [front, hv, hs]

/-- **sequencer placement**: a tag below `my_head` is refused; otherwise the window is extended with empty
slots up to the tag (growing if needed, contents preserved) and the item is placed iff its slot is empty -/
theorem seqPush_spec (b : ItemBuf) (hw : WF b) (tag v : Nat) :
    (tag < b.head → b.seqPush tag v = none) ∧
    (b.head ≤ tag → ∃ b' p, b.seqPush tag v = some (b', p) ∧ WF b' ∧ b'.head = b.head ∧
        b'.tail = (if tag + 1 > b.tail then tag + 1 else b.tail) ∧
        (p = false → b'.view = b.view ++ List.replicate (b'.tail - b.tail) none ∧
            ∃ x, (b.view ++ List.replicate (b'.tail - b.tail) none)[tag - b.head]? = some (some x)) ∧
        (p = true → (b.view ++ List.replicate (b'.tail - b.tail) none)[tag - b.head]? = some none ∧
            b'.view = (b.view ++ List.replicate (b'.tail - b.tail) none).set (tag - b.head) (some (v, false)))) := by
  constructor
  · intro h; simp [seqPush, h]
  · intro hge
    have hle := hw.le
    have hcap := hw.cap
    have hnt : ¬ tag < b.head := by omega
    generalize hnT : (if tag + 1 > b.tail then tag + 1 else b.tail) = newTail
    have hnT1 : b.tail ≤ newTail := by rw [← hnT]; split <;> omega
    have hnT2 : tag < newTail := by rw [← hnT]; split <;> omega
    obtain ⟨b1, hb1, hw1, hh1, ht1, hv1, hroom⟩ :
        ∃ b1, b1 = (if newTail - b.head > b.arr.length then b.grow (newTail - b.head) else b) ∧ WF b1 ∧
          b1.head = b.head ∧ b1.tail = b.tail ∧ b1.view = b.view ∧ newTail - b.head ≤ b1.arr.length := by
      refine ⟨_, rfl, ?_⟩
      split
      · have g := grow_wf b (newTail - b.head) (Or.inr hw.pow) hw.le (Or.inl hw.cap)
        exact ⟨g.1, rfl, rfl, view_congr b _ rfl rfl g.2.1, g.2.2.1⟩
      · exact ⟨hw, rfl, rfl, rfl, by omega⟩
    have x := extendTail b1 hw1 newTail (by omega) (by omega)
    have hxv : ({ b1 with tail := newTail } : ItemBuf).view = b.view ++ List.replicate (newTail - b.tail) none := by
      rw [x.2, hv1, ht1]
    have hk : tag - b.head < newTail - b.head := by omega
    have hget : (b.view ++ List.replicate (newTail - b.tail) none)[tag - b.head]? =
        some (({ b1 with tail := newTail } : ItemBuf).slot tag) := by
      rw [← hxv, view_getElem?]
      simp only [hh1, hk, if_true]
      have : b.head + (tag - b.head) = tag := by omega
      rw [this]
    by_cases hval : ({ b1 with tail := newTail } : ItemBuf).valid tag = true
    · refine ⟨{ b1 with tail := newTail }, false, ?_, x.1, hh1, rfl, ?_, by simp⟩
      · unfold seqPush; simp only [hnt, if_false, hnT]; rw [← hb1]; simp [hval]
      · intro _
        refine ⟨hxv, ?_⟩
        have := ((valid_iff _ tag).1 hval).2.2
        rw [hget]
        cases hs : ({ b1 with tail := newTail } : ItemBuf).slot tag
        · simp [hs] at this
        · exact ⟨_, rfl⟩
    · have y := setSlot_in_window _ x.1 tag (some (v, false)) (by simp [hh1]; omega) (by simpa using hnT2)
      refine ⟨_, true, ?_, y.1, by simp [hh1], rfl, by simp, ?_⟩
      · unfold seqPush; simp only [hnt, if_false, hnT]; rw [← hb1]; simp [hval]
      · intro _
        simp only [setSlot_tail]
        constructor
        · rw [hget]
          cases hs : ({ b1 with tail := newTail } : ItemBuf).slot tag
          · rfl
          · exfalso; apply hval
            exact (valid_iff _ tag).2 ⟨by simpa using hnT2, by simp [hh1]; omega, by simp [hs]⟩
        · rw [y.2.1, hxv]; simp [hh1]

end ItemBuf
end TbbVerif.C15
