/-
C15 helper lemmas: join_node with the key_matching policy.
-/
import TbbVerif.Model.C15

namespace TbbVerif.C15

/-! ### association lists (the per-port hash buffers and the key-count table, abstracted) -/

theorem Assoc.find_cons (a : Assoc) (k k' v : Nat) :
    Assoc.find ((k, v) :: a) k' = if k = k' then some v else Assoc.find a k' := by
  unfold Assoc.find
  simp only [List.find?_cons]
  by_cases h : k = k'
  · simp [h]
  · have : ((k, v).1 == k') = false := by simpa using h
    simp [this, h]

theorem Assoc.find_del (a : Assoc) (k k' : Nat) :
    Assoc.find (Assoc.del a k) k' = if k' = k then none else Assoc.find a k' := by
  induction a with
  | nil => simp [Assoc.del, Assoc.find]
  | cons x a ih =>
    obtain ⟨xk, xv⟩ := x
    unfold Assoc.del at ih ⊢
    simp only [List.filter_cons]
    by_cases hx : xk = k
    · have : ((xk, xv).1 != k) = false := by simp [hx]
      simp only [this, Bool.false_eq_true, if_false]
      rw [ih, Assoc.find_cons]
      by_cases h2 : k' = k
      · simp [h2]
      · have : ¬ xk = k' := by omega
        simp [h2, this]
    · have : ((xk, xv).1 != k) = true := by simp [hx]
      simp only [this, if_true]
      rw [Assoc.find_cons, Assoc.find_cons, ih]
      by_cases h2 : k' = k
      · have : ¬ xk = k' := by omega
        simp [h2, hx]
      · simp [h2]

theorem Assoc.find_put (a : Assoc) (k v k' : Nat) :
    Assoc.find (Assoc.put a k v) k' = if k' = k then some v else Assoc.find a k' := by
  unfold Assoc.put
  rw [Assoc.find_cons, Assoc.find_del]
  by_cases h : k = k'
  · simp [h]
  · have : ¬ k' = k := fun e => h e.symm
    simp [h, this]

theorem Assoc.mem_del (a : Assoc) (k : Nat) (x : Nat × Nat) (h : x ∈ Assoc.del a k) : x ∈ a :=
  (List.mem_filter.1 h).1

theorem Assoc.mem_put (a : Assoc) (k v : Nat) (x : Nat × Nat) (h : x ∈ Assoc.put a k v) : x = (k, v) ∨ x ∈ a := by
  unfold Assoc.put at h
  rcases List.mem_cons.1 h with h | h
  · exact Or.inl h
  · exact Or.inr (Assoc.mem_del a k x h)

theorem Assoc.find_mem (a : Assoc) (k v : Nat) (h : Assoc.find a k = some v) : (k, v) ∈ a := by
  unfold Assoc.find at h
  cases hf : a.find? (fun x => x.1 == k) with
  | none => simp [hf] at h
  | some x =>
    simp [hf] at h
    have hm := List.mem_of_find?_eq_some hf
    have hk := List.find?_some hf
    simp at hk
    obtain ⟨x1, x2⟩ := x
    simp at hk h; subst hk; subst h; exact hm

/-- number of ports that hold a message with key `k` -/
def holders : List Assoc → Nat → Nat
  | [], _ => 0
  | t :: ts, k => (if (Assoc.find t k).isSome then 1 else 0) + holders ts k

theorem holders_le (ps : List Assoc) (k : Nat) : holders ps k ≤ ps.length := by
  induction ps with
  | nil => simp [holders]
  | cons t ts ih => simp only [holders, List.length_cons]; split <;> omega

theorem holders_replicate (n k : Nat) : holders (List.replicate n []) k = 0 := by
  induction n with
  | zero => rfl
  | succ n ih => simp [List.replicate_succ, holders, ih, Assoc.find]

theorem holders_set (ps : List Assoc) (p : Nat) (t t' : Assoc) (k : Nat) (h : ps[p]? = some t) :
    holders (ps.set p t') k + (if (Assoc.find t k).isSome then 1 else 0) =
      holders ps k + (if (Assoc.find t' k).isSome then 1 else 0) := by
  induction ps generalizing p with
  | nil => simp at h
  | cons a ps ih =>
    cases p with
    | zero => simp at h; subst h; simp only [List.set_cons_zero, holders]; omega
    | succ p => simp at h; have := ih p h; simp only [List.set_cons_succ, holders]; omega

theorem holders_map_del (ps : List Assoc) (k k' : Nat) :
    holders (ps.map (fun t => Assoc.del t k)) k' = if k' = k then 0 else holders ps k' := by
  induction ps with
  | nil => simp [holders]
  | cons t ts ih =>
    simp only [List.map_cons, holders, ih, Assoc.find_del]
    by_cases h : k' = k <;> simp [h]

/-- when every port holds the key, `get_items` finds the complete tuple -/
theorem jkCollect_some (k : Nat) (ps : List Assoc) (h : holders ps k = ps.length) :
    ∃ t, jkCollect k ps = some t ∧ t.length = ps.length ∧ ∀ v ∈ t, ∃ tbl ∈ ps, Assoc.find tbl k = some v := by
  induction ps with
  | nil => exact ⟨[], rfl, rfl, by simp⟩
  | cons a ps ih =>
    have hle := holders_le ps k
    simp only [holders, List.length_cons] at h
    cases hf : Assoc.find a k with
    | none => simp [hf] at h; omega
    | some v =>
      simp [hf] at h
      obtain ⟨t, ht, hl, hm⟩ := ih (by omega)
      refine ⟨v :: t, by simp [jkCollect, hf, ht], by simp [hl], ?_⟩
      intro w hw
      rcases List.mem_cons.1 hw with rfl | hw
      · exact ⟨a, List.mem_cons_self, hf⟩
      · obtain ⟨tbl, h1, h2⟩ := hm w hw
        exact ⟨tbl, List.mem_cons_of_mem _ h1, h2⟩

structure JkInv (n : Nat) (kf : Nat → Nat) (s : JkSt) : Prop where
  noub : s.ub = false
  lenP : s.ports.length = n
  /-- every stored message is filed under its own key -/
  keyed : ∀ t ∈ s.ports, ∀ x ∈ t, kf x.2 = x.1
  /-- the count table counts the ports that hold the key … -/
  cnt : ∀ k, (Assoc.find s.counts k).getD 0 = holders s.ports k
  /-- … and a key held by all ports never stays: its tuple is formed in the same step -/
  lt : ∀ k, holders s.ports k < n
  /-- every tuple built so far is complete and all its components carry the same key -/
  tuples : ∀ t ∈ s.outbuf ++ s.out, t.length = n ∧ ∃ k, ∀ v ∈ t, kf v = k

theorem jkinv_init (n : Nat) (kf : Nat → Nat) (hn : 0 < n) : JkInv n kf (jkInit n) :=
  ⟨rfl, by simp [jkInit], by simp [jkInit], by simp [jkInit, holders_replicate, Assoc.find],
   by simp [jkInit, holders_replicate, hn], by simp [jkInit]⟩

theorem mem_set_list {α : Type} (l : List α) (p : Nat) (x y : α) (h : y ∈ l.set p x) : y = x ∨ y ∈ l := by
  induction l generalizing p with
  | nil => simp at h
  | cons a l ih =>
    cases p with
    | zero => simp at h; rcases h with h | h; exact Or.inl h; exact Or.inr (List.mem_cons_of_mem _ h)
    | succ p =>
      simp at h
      rcases h with h | h
      · exact Or.inr (h ▸ List.mem_cons_self)
      · rcases ih p h with h | h
        · exact Or.inl h
        · exact Or.inr (List.mem_cons_of_mem _ h)

theorem jkinv_step (n : Nat) (kf : Nat → Nat) (s : JkSt) (op : JkOp) (h : JkInv n kf s) :
    JkInv n kf (jkStep kf s op).1 := by
  have h0 := h
  obtain ⟨noub, lenP, keyed, cnt, lt, tuples⟩ := h
  unfold jkStep
  rw [if_neg (by rw [noub]; exact Bool.false_ne_true)]
  cases op with
  | put p v =>
    dsimp only
    cases hq : s.ports[p]? with
    | none => exact h0
    | some tbl =>
      dsimp only
      have htm : tbl ∈ s.ports := List.mem_of_getElem? hq
      have hkeyed1 : ∀ t ∈ s.ports.set p (Assoc.put tbl (kf v) v), ∀ x ∈ t, kf x.2 = x.1 := by
        intro t ht x hx
        rcases mem_set_list _ _ _ _ ht with rfl | ht
        · rcases Assoc.mem_put _ _ _ _ hx with rfl | hx
          · rfl
          · exact keyed tbl htm x hx
        · exact keyed t ht x hx
      cases hf : Assoc.find tbl (kf v) with
      | some old =>
        dsimp only
        refine ⟨noub, by simp [lenP], hkeyed1, ?_, ?_, tuples⟩
        · intro k
          have := holders_set s.ports p tbl (Assoc.put tbl (kf v) v) k hq
          rw [Assoc.find_put] at this
          rw [cnt k]
          by_cases hk : k = kf v
          · subst hk; simp [hf] at this; simp only; omega
          · simp [hk] at this; simp only; omega
        · intro k
          have h1 := holders_set s.ports p tbl (Assoc.put tbl (kf v) v) k hq
          rw [Assoc.find_put] at h1
          have h2 := lt k
          show holders (s.ports.set p (Assoc.put tbl (kf v) v)) k < n
          by_cases hk : k = kf v
          · rw [hk] at h1 h2 ⊢; simp [hf] at h1; omega
          · simp [hk] at h1; omega
      | none =>
        dsimp only
        have hhold : ∀ k, holders (s.ports.set p (Assoc.put tbl (kf v) v)) k =
            holders s.ports k + (if k = kf v then 1 else 0) := by
          intro k
          have := holders_set s.ports p tbl (Assoc.put tbl (kf v) v) k hq
          rw [Assoc.find_put] at this
          by_cases hk : k = kf v
          · rw [if_pos hk]; rw [hk] at this ⊢; simp [hf] at this; omega
          · rw [if_neg hk]; simp [hk] at this; omega
        split
        · rename_i hc
          have hall : holders (s.ports.set p (Assoc.put tbl (kf v) v)) (kf v) =
              (s.ports.set p (Assoc.put tbl (kf v) v)).length := by
            rw [hhold, ← cnt]; simp; omega
          obtain ⟨t, ht, htl, htm'⟩ := jkCollect_some (kf v) _ hall
          simp only [ht]
          refine ⟨noub, by simp [lenP], ?_, ?_, ?_, ?_⟩
          · intro t' ht' x hx
            simp only [List.mem_map] at ht'
            obtain ⟨t0, ht0, rfl⟩ := ht'
            exact hkeyed1 t0 ht0 x (Assoc.mem_del _ _ _ hx)
          · intro k
            simp only
            rw [holders_map_del, Assoc.find_del]
            by_cases hk : k = kf v
            · simp [hk]
            · simp only [hk, if_false]; rw [cnt k, hhold]; simp [hk]
          · intro k
            simp only
            rw [holders_map_del]
            by_cases hk : k = kf v
            · simp only [hk, if_true]; have := lt (kf v); omega
            · simp only [hk, if_false]; rw [hhold]; simp [hk]; exact lt k
          · intro t' ht'
            simp only [List.append_assoc, List.mem_append, List.mem_singleton] at ht'
            rcases ht' with h1 | rfl | h1
            · exact tuples t' (List.mem_append_left _ h1)
            · refine ⟨by rw [htl]; simp [lenP], kf v, ?_⟩
              intro w hw
              obtain ⟨tb, htb, hfw⟩ := htm' w hw
              exact hkeyed1 tb htb (kf v, w) (Assoc.find_mem _ _ _ hfw)
            · exact tuples t' (List.mem_append_right _ h1)
        · rename_i hc
          refine ⟨noub, by simp [lenP], hkeyed1, ?_, ?_, tuples⟩
          · intro k
            simp only
            rw [Assoc.find_put, hhold]
            by_cases hk : k = kf v
            · subst hk; simp; rw [← cnt]
            · simp [hk]; exact cnt k
          · intro k
            simp only
            rw [hhold]
            by_cases hk : k = kf v
            · subst hk
              have h1 := holders_le (s.ports.set p (Assoc.put tbl (kf v) v)) (kf v)
              rw [hhold] at h1
              simp at h1 ⊢
              rw [← cnt] at h1 ⊢
              simp [lenP] at h1
              omega
            · simp [hk]; exact lt k
  | fwd a =>
    dsimp only
    cases hb : s.outbuf with
    | nil => exact h0
    | cons t rest =>
      dsimp only
      split
      · refine ⟨noub, lenP, keyed, cnt, lt, ?_⟩
        intro t' ht'
        apply tuples t'
        rw [hb]
        simp only [List.mem_append, List.mem_cons, List.mem_singleton, List.not_mem_nil, or_false] at ht' ⊢
        rcases ht' with h1 | h1 | h1
        · exact Or.inl (Or.inr h1)
        · exact Or.inr h1
        · exact Or.inl (Or.inl h1)
      · exact h0

theorem jkinv_run (n : Nat) (kf : Nat → Nat) (hn : 0 < n) (ops : List JkOp) : JkInv n kf ((jkMach n kf).run ops).1 :=
  Mach.inv_run (jkMach n kf) (JkInv n kf) (jkinv_init n kf hn) (jkinv_step n kf) ops

end TbbVerif.C15
