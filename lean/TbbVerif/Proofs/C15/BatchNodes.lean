/-
C15 helper lemmas: the four buffering node kinds as instances of the batch layer.
-/
import TbbVerif.Proofs.C15.Batch
import TbbVerif.Proofs.C15.Nodes
import TbbVerif.Proofs.C15.Seq
import TbbVerif.Proofs.C15.Prio

namespace TbbVerif.C15.Batch
open TbbVerif.C15

theorem bufStep_busy (k : Kind) (mode : Nat) (f : Nat → Nat) (s : BufSt) (op : BufOp) (h : ∀ a, op ≠ BufOp.fwd a) :
    (bufStep k mode f s op).1.busy = s.busy := by
  unfold bufStep
  split
  · rfl
  · cases op with
    | fwd a => exact absurd rfl (h a)
    | put v => cases k <;> dsimp only <;> (repeat' split) <;> rfl
    | get => cases k <;> dsimp only <;> (repeat' split) <;> rfl
    | reserve => dsimp only; (repeat' split) <;> rfl
    | release => dsimp only; (repeat' split) <;> rfl
    | consume => dsimp only; (repeat' split) <;> rfl

theorem lawful_buf (k : Kind) (mode : Nat) (f : Nat → Nat) : Lawful (bufCore k mode f) :=
  ⟨fun _ _ => rfl, fun s op h => bufStep_busy k mode f s op h, fun _ => rfl⟩

theorem prioStep_busy (s : PrioSt) (op : PrioOp) (h : ∀ a, op ≠ PrioOp.fwd a) : (prioStep s op).1.busy = s.busy := by
  cases op with
  | fwd a => exact absurd rfl (h a)
  | put v => rfl
  | get => simp only [prioStep]; split <;> first | rfl | (simp only [PrioSt.prioPop]; split <;> rfl)
  | reserve => simp only [prioStep]; split <;> first | rfl | (simp only [PrioSt.prioPop]; split <;> rfl)
  | release => simp only [prioStep]; split <;> rfl
  | consume => simp only [prioStep]; split <;> rfl
  | order => simp only [prioStep, PrioSt.order]; split <;> rfl

theorem lawful_prio : Lawful prioCore := by
  refine ⟨fun _ _ => rfl, ?_, ?_⟩
  · intro s op h
    apply prioStep_busy
    intro a
    cases op <;> simp [toPrioOp] at * <;> exact h a
  · intro s
    show (PrioSt.order s).busy = s.busy
    unfold PrioSt.order; split <;> rfl

theorem pres_ninv (k : Kind) (mode : Nat) (f : Nat → Nat) (hk : k ≠ .sequencer) (hm : k = .buffer → 1 ≤ mode) :
    Pres (bufCore k mode f) (NInv k) :=
  ⟨fun s op h => ninv_step k mode f hk hm s op h, fun _ _ h => ⟨h.wf, h.noub, h.items⟩, fun _ h => h⟩

theorem pres_sinv (mode : Nat) (f : Nat → Nat) : Pres (bufCore .sequencer mode f) (SInv f) :=
  ⟨fun s op h => sinv_step mode f s op h,
   fun _ _ h => ⟨h.wf, h.noub, h.tags, h.flag, h.resv, h.order, h.cons⟩, fun _ h => h⟩

theorem pres_pinv : Pres prioCore PInv :=
  ⟨fun s op h => prio_inv_step s (toPrioOp op) h, fun _ _ h => ⟨h.mark_le, h.heap, h.cons⟩,
   fun s h => prio_inv_step s .order h⟩

theorem pres_true {σ : Type} (C : Core σ) : Pres C (fun _ => True) := ⟨fun _ _ _ => trivial, fun _ _ _ => trivial, fun _ _ => trivial⟩

/-- `internal_push` of buffer_node / queue_node cannot fail -/
theorem put_ok_buf (k : Kind) (mode : Nat) (f : Nat → Nat) (hk : k ≠ .sequencer) (s : BufSt) (v : Nat) (h : NInv k s) :
    ((bufCore k mode f).step s (.put v)).2 = .ok := by
  show (bufStep k mode f s (.put v)).2 = .ok
  unfold bufStep
  rw [if_neg (by rw [h.noub]; exact Bool.false_ne_true)]
  cases k <;> first | exact absurd rfl hk | rfl

theorem put_ok_prio (s : PrioSt) (v : Nat) : (prioCore.step s (.put v)).2 = .ok := rfl

theorem liveInv_init_buf (k : Kind) (mode : Nat) (f : Nat → Nat) : LiveInv (bufCore k mode f) bufInit := by
  constructor
  · constructor
    · intro h; cases h
    · intro h; cases h
  · exact Nat.zero_le _

theorem liveInv_init_prio : LiveInv prioCore prioInit := by
  constructor
  · constructor
    · intro h; cases h
    · intro h; cases h
  · exact Nat.zero_le _

/-- at every batch boundary the priority queue is completely heaped (`order()` ran: `mark == my_tail`) -/
theorem handleOps_mark (k : Skel) (ω : Nat → Verdict) (s : NSt PrioSt) (batch : List NOp) (h : PInv s.core) :
    (handleOps prioCore k ω s batch).1.core.mark = (handleOps prioCore k ω s batch).1.core.data.length := by
  have hp := handleLoop_pres pres_pinv k ω batch s false h
  unfold handleOps epilogue
  dsimp only
  split
  · exact order_mark _ hp
  · exact order_mark _ hp

theorem runHistory_mark (k : Skel) (ω : Nat → Verdict) :
    ∀ (hist : List (List NOp)) (s : NSt PrioSt), PInv s.core → s.core.mark = s.core.data.length →
      (runHistory prioCore k ω s hist).core.mark = (runHistory prioCore k ω s hist).core.data.length := by
  intro hist
  induction hist with
  | nil => intro s _ h; simpa [runHistory] using h
  | cons a rest ih =>
    intro s hp _
    simp only [runHistory]
    exact ih _ (handleOps_pres pres_pinv k ω s _ hp) (handleOps_mark k ω s _ hp)

end TbbVerif.C15.Batch
