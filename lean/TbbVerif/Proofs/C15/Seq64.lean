import TbbVerif.Model.C15Batch
import TbbVerif.Proofs.C15.ItemBuf
import TbbVerif.Proofs.C15.Seq
namespace TbbVerif.C15.Batch
open TbbVerif.C15 TbbVerif.Cint

theorem wrapU_nat (x : Nat) (h : x < 2 ^ 64) : wrapU 64 (x : Int) = x := by
  unfold wrapU
  simp only [Nat.reducePow] at h ⊢
  omega

theorem wrapU_one : wrapU 64 (1 : Int) = 1 := by decide
theorem wrapU_two : wrapU 64 (2 : Int) = 2 := by decide

theorem gen_seqStale (tag head : Nat) : Generated.C15.seqStale tag head = decide (tag < head) := by
  unfold Generated.C15.seqStale
  apply Bool.eq_iff_iff.mpr
  constructor <;> intro h <;> simp only [decide_eq_true_eq] at h ⊢ <;> omega

theorem gen_itemValid (i head tail st : Nat) :
    Generated.C15.itemValid i head tail st = (decide (i < tail) && decide (head ≤ i) && decide (st ≠ 0)) := by
  unfold Generated.C15.itemValid
  apply Bool.eq_iff_iff.mpr
  constructor <;> intro h <;> simp only [Bool.and_eq_true, decide_eq_true_eq] at h ⊢ <;> omega

theorem gen_seqNewTail (tag tail : Nat) (h : tag + 1 < 2 ^ 64) :
    Generated.C15.seqNewTail tag tail = if tag + 1 > tail then tag + 1 else tail := by
  unfold Generated.C15.seqNewTail
  simp only [wrapU_one, Nat.mod_eq_of_lt h, decide_eq_true_eq]

theorem gen_sizeOf (newTail tail head : Nat) (h0 : newTail ≠ 0) (h1 : head ≤ newTail) (h2 : newTail < 2 ^ 64) :
    Generated.C15.sizeOf newTail tail head = newTail - head := by
  unfold Generated.C15.sizeOf wrapU
  simp only [Nat.reducePow] at h2 ⊢
  split <;> rename_i hc <;> simp at hc <;> omega

theorem gen_seqGrowCond (sz cap : Nat) : Generated.C15.seqGrowCond sz cap = decide (sz > cap) := by
  unfold Generated.C15.seqGrowCond
  apply Bool.eq_iff_iff.mpr
  constructor <;> intro h <;> simp only [decide_eq_true_eq] at h ⊢ <;> omega

theorem gen_slotIdx (i n : Nat) (h0 : 0 < n) (h1 : n < 2 ^ 64) : Generated.C15.slotIdx i n = ItemBuf.idx n i := by
  unfold Generated.C15.slotIdx ItemBuf.idx
  rw [wrapU_one]
  have : wrapU 64 (((n : Nat) : Int) - ((1 : Nat) : Int)) = n - 1 := by
    have h : ((n : Nat) : Int) - ((1 : Nat) : Int) = ((n - 1 : Nat) : Int) := by omega
    rw [h]; exact wrapU_nat _ (by omega)
  rw [this]

open ItemBuf

theorem doubleUntil_le (fuel : Nat) : ∀ n m, doubleUntil fuel n m ≤ max n (2 * m - 1) := by
  induction fuel with
  | zero => intro n m; simp only [doubleUntil]; omega
  | succ f ih =>
    intro n m
    simp only [doubleUntil]
    split
    · have := ih (2 * n) m; omega
    · omega

theorem newSize_le (cur m : Nat) (hc : 0 < cur) : newSize cur m ≤ max (2 * cur) (2 * m - 1) := by
  unfold newSize
  rw [if_neg (by omega)]
  exact doubleUntil_le m (2 * cur) m

/-- Below 2^62 the `size_t` arithmetic of `sequencer_node::internal_push` (as regenerated from the source) never wraps:
it is the unbounded-`Nat` model about which `sequencer_exact_order` is proved — and the bounds are kept. -/
theorem seqPush64_eq (b : ItemBuf) (hw : WF b) (tag v : Nat) (ht : tag < 2 ^ 62) (hl : b.arr.length < 2 ^ 63)
    (htl : b.tail ≤ 2 ^ 62) :
    seqPush64 b tag v = b.seqPush tag v ∧
    ∀ b' p, b.seqPush tag v = some (b', p) → b'.arr.length < 2 ^ 63 ∧ b'.tail ≤ 2 ^ 62 := by
  simp only [Nat.reducePow] at ht hl htl ⊢
  have hle := hw.le
  have hcap := hw.cap
  have hpos : 0 < b.arr.length := pow_pos' hw.pow
  unfold seqPush64 seqPush
  rw [gen_seqStale]
  by_cases hst : tag < b.head
  · simp only [hst, decide_true, if_true, true_and]
    intro b' p h; cases h
  · simp only [hst, decide_false, Bool.false_eq_true, if_false]
    rw [gen_seqNewTail tag b.tail (by simp only [Nat.reducePow]; omega)]
    generalize hnT : (if tag + 1 > b.tail then tag + 1 else b.tail) = newTail
    have hnT1 : b.tail ≤ newTail := by rw [← hnT]; split <;> omega
    have hnT2 : tag < newTail := by rw [← hnT]; split <;> omega
    have hnT3 : newTail ≤ 4611686018427387904 := by rw [← hnT]; split <;> omega
    rw [gen_sizeOf newTail b.tail b.head (by omega) (by omega) (by simp only [Nat.reducePow]; omega), gen_seqGrowCond]
    -- the (possibly grown) array
    have hb1 : ∀ b1, b1 = (if newTail - b.head > b.arr.length then b.grow (newTail - b.head) else b) →
        0 < b1.arr.length ∧ b1.arr.length < 9223372036854775808 ∧ b1.head = b.head := by
      intro b1 e
      split at e
      · rename_i hg
        subst e
        have g := grow_wf b (newTail - b.head) (Or.inr hw.pow) hle (Or.inl hcap)
        have hlen := grow_len b (newTail - b.head) (Or.inr hw.pow) (by have := newSize_ge_cur b.arr.length (newTail - b.head); omega)
        have hub := newSize_le b.arr.length (newTail - b.head) hpos
        refine ⟨pow_pos' g.1.pow, ?_, rfl⟩
        rw [hlen]; omega
      · subst e; exact ⟨hpos, hl, rfl⟩
    simp only [decide_eq_true_eq]
    generalize hB : (if newTail - b.head > b.arr.length then b.grow (newTail - b.head) else b) = b1
    obtain ⟨h1pos, h1lt, h1h⟩ := hb1 b1 hB.symm
    have hvalid : Generated.C15.itemValid tag b1.head newTail
        (slotState (({ b1 with tail := newTail } : ItemBuf).slot tag)) =
        ({ b1 with tail := newTail } : ItemBuf).valid tag := by
      rw [gen_itemValid]
      unfold valid
      cases hs : ({ b1 with tail := newTail } : ItemBuf).slot tag with
      | none => simp [slotState]
      | some x => obtain ⟨a, r⟩ := x; cases r <;> simp [slotState]
    simp only [hvalid]
    have hidx : Generated.C15.slotIdx tag b1.arr.length = idx b1.arr.length tag :=
      gen_slotIdx tag b1.arr.length h1pos (by simp only [Nat.reducePow]; omega)
    refine ⟨?_, ?_⟩
    · split
      · rfl
      · simp only [setSlot, hidx]
    · intro b' p h
      split at h
      · cases h; exact ⟨h1lt, hnT3⟩
      · cases h
        refine ⟨?_, hnT3⟩
        simp only [setSlot, List.length_set]; exact h1lt

/-- the quantities the 64-bit argument needs to stay small -/
def Bnd (s : BufSt) : Prop := s.buf.arr.length < 2 ^ 63 ∧ s.buf.tail ≤ 2 ^ 62

theorem popFront_len (b : ItemBuf) (v : Nat) (b' : ItemBuf) (h : b.popFront = some (v, b')) :
    b'.arr.length = b.arr.length ∧ b'.tail = b.tail := by
  unfold popFront at h
  split at h
  · split at h
    · cases h; simp [setSlot]
    · cases h
  · cases h

theorem reserveFront_len (b : ItemBuf) (v : Nat) (b' : ItemBuf) (h : b.reserveFront = some (v, b')) :
    b'.arr.length = b.arr.length ∧ b'.tail = b.tail := by
  unfold reserveFront at h
  split at h
  · split at h
    · cases h; simp [setSlot]
    · cases h
  · cases h

theorem releaseFront_len (b : ItemBuf) (b' : ItemBuf) (h : b.releaseFront = some b') :
    b'.arr.length = b.arr.length ∧ b'.tail = b.tail := by
  unfold releaseFront at h
  split at h
  · split at h
    · cases h; simp [setSlot]
    · cases h
  · cases h

theorem bufStep_seq_len (mode : Nat) (f : Nat → Nat) (s : BufSt) (op : BufOp) (h : ∀ v, op ≠ .put v) :
    (bufStep .sequencer mode f s op).1.buf.arr.length = s.buf.arr.length ∧
    (bufStep .sequencer mode f s op).1.buf.tail = s.buf.tail := by
  unfold bufStep
  split
  · exact ⟨rfl, rfl⟩
  · cases op with
    | put v => exact absurd rfl (h v)
    | get =>
      dsimp only
      split
      · exact ⟨rfl, rfl⟩
      · split
        · rename_i hp; exact popFront_len _ _ _ hp
        · exact ⟨rfl, rfl⟩
    | reserve =>
      dsimp only
      split
      · exact ⟨rfl, rfl⟩
      · split
        · rename_i hp; exact reserveFront_len _ _ _ hp
        · exact ⟨rfl, rfl⟩
    | release =>
      dsimp only
      split
      · exact ⟨rfl, rfl⟩
      · split
        · rename_i hp; exact releaseFront_len _ _ hp
        · exact ⟨rfl, rfl⟩
    | consume =>
      dsimp only
      split
      · exact ⟨rfl, rfl⟩
      · split
        · rename_i hp; exact popFront_len _ _ _ hp
        · exact ⟨rfl, rfl⟩
    | fwd a =>
      dsimp only
      split
      · exact ⟨rfl, rfl⟩
      · split
        · rename_i hp
          split
          · exact popFront_len _ _ _ hp
          · exact ⟨rfl, rfl⟩
        · exact ⟨rfl, rfl⟩

theorem seqStep64_eq (mode : Nat) (f : Nat → Nat) (s : BufSt) (op : BufOp) (hw : WF s.buf) (hb : Bnd s)
    (hf : ∀ v, op = .put v → f v < 2 ^ 62) :
    seqStep64 mode f s op = bufStep .sequencer mode f s op ∧ Bnd (bufStep .sequencer mode f s op).1 := by
  cases op with
  | put v =>
    have hv := hf v rfl
    have hmod : f v % 2 ^ 64 = f v := Nat.mod_eq_of_lt (by simp only [Nat.reducePow] at hv ⊢; omega)
    obtain ⟨he, hbn⟩ := seqPush64_eq s.buf hw (f v) v hv hb.1 hb.2
    refine ⟨?_, ?_⟩
    · simp only [seqStep64, bufStep, hmod, he]
      split
      · rfl
      · cases s.buf.seqPush (f v) v with
        | none => rfl
        | some x => obtain ⟨b', p⟩ := x; cases p <;> rfl
    · unfold bufStep
      split
      · exact hb
      · dsimp only
        split
        · exact hb
        · rename_i hp; exact hbn _ _ hp
        · rename_i hp; exact hbn _ _ hp
  | get => exact ⟨rfl, by obtain ⟨a, b⟩ := bufStep_seq_len mode f s .get (by intro v h; cases h); unfold Bnd; rw [a, b]; exact hb⟩
  | reserve => exact ⟨rfl, by obtain ⟨a, b⟩ := bufStep_seq_len mode f s .reserve (by intro v h; cases h); unfold Bnd; rw [a, b]; exact hb⟩
  | release => exact ⟨rfl, by obtain ⟨a, b⟩ := bufStep_seq_len mode f s .release (by intro v h; cases h); unfold Bnd; rw [a, b]; exact hb⟩
  | consume => exact ⟨rfl, by obtain ⟨a, b⟩ := bufStep_seq_len mode f s .consume (by intro v h; cases h); unfold Bnd; rw [a, b]; exact hb⟩
  | fwd x => exact ⟨rfl, by obtain ⟨a, b⟩ := bufStep_seq_len mode f s (.fwd x) (by intro v h; cases h); unfold Bnd; rw [a, b]; exact hb⟩

/-- the sequencer machine with 64-bit `internal_push` -/
def seqMach64 (mode : Nat) (f : Nat → Nat) : Mach BufSt BufOp BufOut := { init := {}, step := seqStep64 mode f }

theorem seq64_runFrom (mode : Nat) (f : Nat → Nat) :
    ∀ (ops : List BufOp) (s : BufSt), SInv f s → Bnd s → (∀ v, BufOp.put v ∈ ops → f v < 2 ^ 62) →
      (seqMach64 mode f).runFrom s ops = (bufMach .sequencer mode f).runFrom s ops := by
  intro ops
  induction ops with
  | nil => intro s _ _ _; rfl
  | cons op ops ih =>
    intro s hs hb hf
    obtain ⟨he, hb'⟩ := seqStep64_eq mode f s op hs.wf hb (fun v e => hf v (by rw [e]; exact List.mem_cons_self))
    have hs' := sinv_step mode f s op hs
    have hi := ih _ hs' hb' (fun v hv => hf v (List.mem_cons_of_mem _ hv))
    simp only [Mach.runFrom]
    simp only [seqMach64, bufMach] at hi ⊢
    rw [he, hi]

theorem bnd_init : Bnd {} := by
  have h : (ItemBuf.empty).arr.length = Generated.C15.initialBufferSize ∨ True := Or.inr trivial
  unfold Bnd
  have hl : ItemBuf.empty.arr.length ≤ 64 := by decide
  have ht : ItemBuf.empty.tail = 0 := empty_wf.2.2
  show ItemBuf.empty.arr.length < 2 ^ 63 ∧ ItemBuf.empty.tail ≤ 2 ^ 62
  rw [ht]; simp only [Nat.reducePow]; omega

/-- a put whose sequence number is already buffered is rejected and changes nothing -/
theorem seq_dup_rejected (mode : Nat) (f : Nat → Nat) (s : BufSt) (hs : SInv f s) (v x : Nat) (r : Bool)
    (hge : s.buf.head ≤ f v) (hocc : s.buf.view[f v - s.buf.head]? = some (some (x, r))) :
    (bufStep .sequencer mode f s (.put v)).2 = .rejected ∧ (bufStep .sequencer mode f s (.put v)).1.buf.view = s.buf.view ∧
    (bufStep .sequencer mode f s (.put v)).1.out = s.out ∧ (bufStep .sequencer mode f s (.put v)).1.acc = s.acc := by
  obtain ⟨b', p, hp, _, _, htl, hpf, hpt⟩ := (seqPush_spec s.buf hs.wf (f v) v).2 hge
  have hlen : f v - s.buf.head < s.buf.view.length := by
    rcases Nat.lt_or_ge (f v - s.buf.head) s.buf.view.length with h | h
    · exact h
    · rw [List.getElem?_eq_none h] at hocc; cases hocc
  have hvl : s.buf.view.length = s.buf.tail - s.buf.head := view_length _
  have htag : f v < s.buf.tail := by omega
  have htl' : b'.tail = s.buf.tail := by rw [htl]; rw [if_neg (by omega)]
  cases p with
  | true =>
    have := (hpt rfl).1
    rw [List.getElem?_append_left hlen, hocc] at this
    cases this
  | false =>
    have hv' := (hpf rfl).1
    rw [htl', Nat.sub_self] at hv'
    simp only [List.replicate_zero, List.append_nil] at hv'
    unfold bufStep
    rw [if_neg (by rw [hs.noub]; exact Bool.false_ne_true)]
    simp only [hp]
    exact ⟨trivial, hv', trivial, trivial⟩

theorem seq_bnd_runFrom (mode : Nat) (f : Nat → Nat) :
    ∀ (ops : List BufOp) (s : BufSt), SInv f s → Bnd s → (∀ v, BufOp.put v ∈ ops → f v < 2 ^ 62) →
      SInv f ((bufMach .sequencer mode f).runFrom s ops).1 ∧ Bnd ((bufMach .sequencer mode f).runFrom s ops).1 := by
  intro ops
  induction ops with
  | nil => intro s hs hb _; exact ⟨hs, hb⟩
  | cons op ops ih =>
    intro s hs hb hf
    obtain ⟨_, hb'⟩ := seqStep64_eq mode f s op hs.wf hb (fun v e => hf v (by rw [e]; exact List.mem_cons_self))
    have hs' := sinv_step mode f s op hs
    have hi := ih _ hs' hb' (fun v hv => hf v (List.mem_cons_of_mem _ hv))
    simp only [Mach.runFrom]
    exact hi

end TbbVerif.C15.Batch
