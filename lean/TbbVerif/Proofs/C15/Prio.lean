/-
C15 — priority_queue_node (`PrioSt`, `prioStep`): the heap / conservation invariant and what an emitting
step emits.

* `HeapUpTo d m`  : `d[0..m)` is a binary max-heap (every non-root is ≤ its parent `(i-1)/2`).
* `PInv`          : `mark ≤ |data|`, `HeapUpTo data mark`, and multiset conservation
                    `out ++ data ++ resv ~ acc` (nothing lost, nothing duplicated).
* `prio_inv_step` / `prio_inv` : `PInv` is inductive, hence holds after every sequence of node operations.
* `heap_root_max` : the root dominates the heap prefix.
* `prio_emits`    : an emitting step (`get` / `reserve` / `fwd`) emits an element of the buffer that dominates
                    the whole heap prefix and the last (unheaped) element; if the buffer is fully ordered
                    (`mark = |data|`) it is the maximum (`prio_emits_max_of_ordered`).
* `order_mark`    : after `order()` everything is heaped.

Helper lemmas live in the sub-namespace `TbbVerif.C15.Prio`.
-/
import TbbVerif.Model.C15

namespace TbbVerif.C15

/-- `d[0..m)` is a binary max-heap -/
def HeapUpTo (d : List Nat) (m : Nat) : Prop :=
  ∀ i, 0 < i → i < m → d.getD i 0 ≤ d.getD ((i - 1) / 2) 0

structure PInv (s : PrioSt) : Prop where
  mark_le : s.mark ≤ s.data.length
  heap    : HeapUpTo s.data s.mark
  /-- multiset conservation: nothing lost, nothing duplicated -/
  cons    : (s.out ++ s.data ++ s.resv.toList).Perm s.acc

/-- the value a step hands out (`try_get` / `try_reserve` result, or the item offered to a successor) -/
def emitted : BufOut → Option Nat
  | .item v => some v
  | .offered v _ => some v
  | _ => none

/-- the root is the maximum of the heap prefix -/
theorem heap_root_max (d : List Nat) (m : Nat) (h : HeapUpTo d m) :
    ∀ i, i < m → d.getD i 0 ≤ d.getD 0 0 := by
  intro i
  induction i using Nat.strongRecOn with
  | _ i ih =>
    intro him
    by_cases h0 : i = 0
    · subst h0; exact Nat.le_refl _
    · exact Nat.le_trans (h i (by omega) him) (ih ((i - 1) / 2) (by omega) (by omega))

namespace Prio

/-! ### `List.getD` / `List.set` / `List.dropLast` / `Perm` basics -/

theorem getD_set_eq (d : List Nat) (a v : Nat) (h : a < d.length) : (d.set a v).getD a 0 = v := by
  simp [List.getD_eq_getElem?_getD, h]

theorem getD_set_ne (d : List Nat) (a i v : Nat) (h : a ≠ i) : (d.set a v).getD i 0 = d.getD i 0 := by
  simp [List.getD_eq_getElem?_getD, h]

theorem getD_dropLast (d : List Nat) (i : Nat) (h : i < d.length - 1) : d.dropLast.getD i 0 = d.getD i 0 := by
  have h' : i < d.length := by omega
  simp [List.getD_eq_getElem?_getD, h, h']

theorem getD_append_left (d : List Nat) (v i : Nat) (h : i < d.length) : (d ++ [v]).getD i 0 = d.getD i 0 := by
  simp [List.getD_eq_getElem?_getD, List.getElem?_append_left, h]

theorem getD_mem (d : List Nat) (i : Nat) (h : i < d.length) : d.getD i 0 ∈ d := by
  simp [List.getD_eq_getElem?_getD, h]

theorem cons_set_perm (x : Nat) : ∀ (t : List Nat) (b : Nat), b < t.length →
    (t.getD b 0 :: t.set b x).Perm (x :: t)
  | [], b, h => by simp at h
  | y :: t, 0, _ => by simpa using List.Perm.swap x y t
  | y :: t, b + 1, h => by
    have ih := cons_set_perm x t b (by simpa using h)
    simp only [List.getD_cons_succ, List.set_cons_succ]
    exact (List.Perm.swap y _ _).trans ((ih.cons y).trans (List.Perm.swap x y t))

theorem swap_perm : ∀ (l : List Nat) (a b : Nat), a < l.length → b < l.length → a ≠ b →
    ((l.set a (l.getD b 0)).set b (l.getD a 0)).Perm l
  | [], a, b, h, _, _ => by simp at h
  | y :: t, 0, 0, _, _, h => by simp at h
  | y :: t, 0, b + 1, _, hb, _ => by
    simpa using cons_set_perm y t b (by simpa using hb)
  | y :: t, a + 1, 0, ha, _, _ => by
    simpa using cons_set_perm y t a (by simpa using ha)
  | y :: t, a + 1, b + 1, ha, hb, h => by
    simpa using swap_perm t a b (by simpa using ha) (by simpa using hb) (by omega)

theorem set_getD_self (d : List Nat) (a : Nat) : d.set a (d.getD a 0) = d := by
  by_cases h : a < d.length
  · simp [List.getD_eq_getElem?_getD, h]
  · rw [List.set_eq_of_length_le (by omega)]

/-! ### sift-up with a hole -/

structure SiftInv (x m : Nat) (d : List Nat) (cur : Nat) : Prop where
  cur_le : cur ≤ m
  m_lt : m < d.length
  other : ∀ i, 0 < i → i ≤ m → i ≠ cur → d.getD i 0 ≤ d.getD ((i - 1) / 2) 0
  child : ∀ i, 0 < i → i ≤ m → (i - 1) / 2 = cur → d.getD i 0 ≤ x
  grand : ∀ i, 0 < i → i ≤ m → (i - 1) / 2 = cur → 0 < cur → d.getD i 0 ≤ d.getD ((cur - 1) / 2) 0

theorem siftInv_init (d : List Nat) (m : Nat) (hm : m < d.length) (h : HeapUpTo d m) :
    SiftInv (d.getD m 0) m d m where
  cur_le := Nat.le_refl _
  m_lt := hm
  other := fun i h0 hi hne => h i h0 (by omega)
  child := fun i h0 hi hp => by omega
  grand := fun i h0 hi hp => by omega

theorem siftInv_move {x m : Nat} {d : List Nat} {cur : Nat} (h : SiftInv x m d cur) (hc : 0 < cur)
    (hlt : d.getD ((cur - 1) / 2) 0 < x) :
    SiftInv x m (d.set cur (d.getD ((cur - 1) / 2) 0)) ((cur - 1) / 2) := by
  have hcl : cur < d.length := Nat.lt_of_le_of_lt h.cur_le h.m_lt
  have hpc : (cur - 1) / 2 ≠ cur := by omega
  refine ⟨by have := h.cur_le; omega, by simpa using h.m_lt, ?_, ?_, ?_⟩
  · intro i h0 hi hne
    by_cases hic : i = cur
    · subst hic
      rw [getD_set_eq _ _ _ hcl, getD_set_ne _ _ _ _ (Ne.symm hpc)]
      exact Nat.le_refl _
    · rw [getD_set_ne _ _ _ _ (Ne.symm hic)]
      by_cases hpi : (i - 1) / 2 = cur
      · rw [hpi, getD_set_eq _ _ _ hcl]
        exact h.grand i h0 hi hpi hc
      · rw [getD_set_ne _ _ _ _ (Ne.symm hpi)]
        exact h.other i h0 hi hic
  · intro i h0 hi hp
    by_cases hic : i = cur
    · subst hic
      rw [getD_set_eq _ _ _ hcl]; omega
    · rw [getD_set_ne _ _ _ _ (Ne.symm hic)]
      have := h.other i h0 hi hic
      rw [hp] at this; omega
  · intro i h0 hi hp hpp
    have hne : cur ≠ ((cur - 1) / 2 - 1) / 2 := by omega
    rw [getD_set_ne _ _ _ _ hne]
    by_cases hic : i = cur
    · subst hic
      rw [getD_set_eq _ _ _ hcl]
      exact h.other _ hpp (by omega) hpc
    · rw [getD_set_ne _ _ _ _ (Ne.symm hic)]
      have h1 := h.other i h0 hi hic
      rw [hp] at h1
      exact Nat.le_trans h1 (h.other _ hpp (by omega) hpc)

theorem siftInv_done {x m : Nat} {d : List Nat} {cur : Nat} (h : SiftInv x m d cur)
    (hx : cur = 0 ∨ x ≤ d.getD ((cur - 1) / 2) 0) : HeapUpTo (d.set cur x) (m + 1) := by
  have hcl : cur < d.length := Nat.lt_of_le_of_lt h.cur_le h.m_lt
  intro i h0 hi
  by_cases hic : i = cur
  · subst hic
    rw [getD_set_eq _ _ _ hcl, getD_set_ne _ _ _ _ (by omega)]
    omega
  · rw [getD_set_ne _ _ _ _ (Ne.symm hic)]
    by_cases hpi : (i - 1) / 2 = cur
    · rw [hpi, getD_set_eq _ _ _ hcl]
      exact h.child i h0 (by omega) hpi
    · rw [getD_set_ne _ _ _ _ (Ne.symm hpi)]
      exact h.other i h0 (by omega) hic

theorem siftUp_heap (x m : Nat) : ∀ (fuel : Nat) (d : List Nat) (cur : Nat),
    SiftInv x m d cur → 0 < cur → cur ≤ fuel → HeapUpTo (PrioSt.siftUp x fuel d cur) (m + 1)
  | 0, _, _, _, hc, hf => by omega
  | fuel + 1, d, cur, h, hc, hf => by
    unfold PrioSt.siftUp
    simp only
    split
    · next hlt =>
      have h' := siftInv_move h hc hlt
      split
      · next hp0 =>
        have e : (d.set cur (d.getD ((cur - 1) / 2) 0)).set 0 x
            = (d.set cur (d.getD ((cur - 1) / 2) 0)).set ((cur - 1) / 2) x := by rw [hp0]
        rw [e]
        exact siftInv_done h' (Or.inl hp0)
      · next hp0 =>
        exact siftUp_heap x m fuel _ _ h' (by omega) (by omega)
    · next hge => exact siftInv_done h (Or.inr (by omega))

theorem siftUp_length (x : Nat) : ∀ (fuel : Nat) (d : List Nat) (cur : Nat),
    (PrioSt.siftUp x fuel d cur).length = d.length
  | 0, d, cur => by simp [PrioSt.siftUp]
  | fuel + 1, d, cur => by
    unfold PrioSt.siftUp
    simp only
    split
    · split
      · simp
      · rw [siftUp_length x fuel]; simp
    · simp

theorem hole_perm (d : List Nat) (cur p x : Nat) (hc : cur < d.length) (hp : p < d.length) :
    ((d.set cur (d.getD p 0)).set p x).Perm (d.set cur x) := by
  by_cases hpc : p = cur
  · subst hpc; rw [List.set_set]
  · have := swap_perm (d.set cur x) cur p (by simpa using hc) (by simpa using hp) (Ne.symm hpc)
    rw [getD_set_ne _ _ _ _ (Ne.symm hpc), getD_set_eq _ _ _ hc, List.set_set] at this
    exact this

theorem siftUp_perm (x : Nat) : ∀ (fuel : Nat) (d : List Nat) (cur : Nat), cur < d.length →
    (PrioSt.siftUp x fuel d cur).Perm (d.set cur x)
  | 0, d, cur, _ => by simp [PrioSt.siftUp]
  | fuel + 1, d, cur, hc => by
    unfold PrioSt.siftUp
    simp only
    have hp : (cur - 1) / 2 < d.length := by omega
    split
    · split
      · next hp0 =>
        have := hole_perm d cur ((cur - 1) / 2) x hc hp
        rw [hp0] at this ⊢
        exact this
      · exact (siftUp_perm x fuel _ _ (by simpa using hp)).trans (hole_perm d cur _ x hc hp)
    · exact List.Perm.refl _

theorem heapifyLoop_spec : ∀ (fuel : Nat) (d : List Nat) (m : Nat), 1 ≤ m → m ≤ d.length →
    HeapUpTo d m → d.length ≤ fuel + m →
    (PrioSt.heapifyLoop fuel d m).length = d.length ∧ (PrioSt.heapifyLoop fuel d m).Perm d ∧
      HeapUpTo (PrioSt.heapifyLoop fuel d m) d.length
  | 0, d, m, _, hm, h, hf => by
    have : m = d.length := by omega
    subst this
    exact ⟨rfl, List.Perm.refl _, h⟩
  | fuel + 1, d, m, h1, hm, h, hf => by
    unfold PrioSt.heapifyLoop
    split
    · next hlt =>
      have hinv := siftInv_init d m hlt h
      have hheap := siftUp_heap _ m d.length d m hinv (by omega) (by omega)
      have hlen := siftUp_length (d.getD m 0) d.length d m
      have hperm := siftUp_perm (d.getD m 0) d.length d m hlt
      rw [set_getD_self] at hperm
      have ih := heapifyLoop_spec fuel _ (m + 1) (by omega) (by omega) hheap (by omega)
      rw [hlen] at ih
      exact ⟨ih.1, ih.2.1.trans hperm, ih.2.2⟩
    · next hge =>
      have : m = d.length := by omega
      subst this
      exact ⟨rfl, List.Perm.refl _, h⟩

/-! ### sift-down (`reheap`) -/

theorem getD_swap (d : List Nat) (c t a b i : Nat) (hc : c < d.length) (ht : t < d.length) :
    ((d.set c a).set t b).getD i 0 = if i = t then b else if i = c then a else d.getD i 0 := by
  by_cases h1 : i = t
  · subst h1; rw [if_pos rfl, getD_set_eq _ _ _ (by simpa using ht)]
  · rw [if_neg h1, getD_set_ne _ _ _ _ (Ne.symm h1)]
    by_cases h2 : i = c
    · subst h2; rw [if_pos rfl, getD_set_eq _ _ _ hc]
    · rw [if_neg h2, getD_set_ne _ _ _ _ (Ne.symm h2)]

structure ReInv (mark : Nat) (d : List Nat) (cur : Nat) : Prop where
  mark_le : mark ≤ d.length
  other : ∀ i, 0 < i → i < mark → (i - 1) / 2 ≠ cur → d.getD i 0 ≤ d.getD ((i - 1) / 2) 0
  grand : ∀ i, 0 < i → i < mark → (i - 1) / 2 = cur → 0 < cur →
    d.getD i 0 ≤ d.getD ((cur - 1) / 2) 0

theorem reInv_stop {mark : Nat} {d : List Nat} {cur : Nat} (h : ReInv mark d cur)
    (hch : ∀ i, 0 < i → i < mark → (i - 1) / 2 = cur → d.getD i 0 ≤ d.getD cur 0) :
    HeapUpTo d mark := by
  intro i h0 hi
  by_cases hp : (i - 1) / 2 = cur
  · rw [hp]; exact hch i h0 hi hp
  · exact h.other i h0 hi hp

theorem reInv_swap {mark : Nat} {d : List Nat} {cur t : Nat} (h : ReInv mark d cur)
    (ht : t < mark) (h0t : 0 < t) (hpt : (t - 1) / 2 = cur)
    (hmax : ∀ i, 0 < i → i < mark → (i - 1) / 2 = cur → d.getD i 0 ≤ d.getD t 0)
    (hle : d.getD cur 0 ≤ d.getD t 0) :
    ReInv mark ((d.set cur (d.getD t 0)).set t (d.getD cur 0)) t := by
  have hml := h.mark_le
  have htl : t < d.length := by omega
  have hcl : cur < d.length := by omega
  have key := fun i => getD_swap d cur t (d.getD t 0) (d.getD cur 0) i hcl htl
  refine ⟨by simpa using hml, ?_, ?_⟩
  · intro i h0 hi hp
    rw [key i, key ((i - 1) / 2), if_neg hp]
    by_cases hit : i = t
    · subst hit
      rw [if_pos rfl, if_pos hpt]; exact hle
    · rw [if_neg hit]
      by_cases hic : i = cur
      · subst hic
        rw [if_pos rfl, if_neg (by omega)]
        exact h.grand t h0t ht hpt h0
      · rw [if_neg hic]
        by_cases hpc : (i - 1) / 2 = cur
        · rw [if_pos hpc]; exact hmax i h0 hi hpc
        · rw [if_neg hpc]; exact h.other i h0 hi hpc
  · intro i h0 hi hp _
    rw [key i, key ((t - 1) / 2), if_neg (by omega), if_neg (by omega), if_neg (by omega), if_pos hpt]
    have := h.other i h0 hi (by omega)
    rw [hp] at this
    exact this

theorem reheapLoop_heap (mark : Nat) : ∀ (fuel : Nat) (d : List Nat) (cur : Nat),
    ReInv mark d cur → mark ≤ fuel + cur → HeapUpTo (PrioSt.reheapLoop mark fuel d cur) mark
  | 0, d, cur, h, hf => by
    unfold PrioSt.reheapLoop
    exact reInv_stop h (fun i h0 hi hp => by omega)
  | fuel + 1, d, cur, h, hf => by
    unfold PrioSt.reheapLoop
    simp only
    split
    · next hch =>
      -- the chosen child dominates every child of `cur` inside the heap prefix
      generalize ht : (if 2 * cur + 1 + 1 < mark ∧ d.getD (2 * cur + 1) 0 < d.getD (2 * cur + 1 + 1) 0
          then 2 * cur + 1 + 1 else 2 * cur + 1) = t
      have hT : t < mark ∧ 0 < t ∧ (t - 1) / 2 = cur ∧
          ∀ i, 0 < i → i < mark → (i - 1) / 2 = cur → d.getD i 0 ≤ d.getD t 0 := by
        split at ht
        · next hc =>
          subst ht
          refine ⟨hc.1, by omega, by omega, ?_⟩
          intro i h0 hi hp
          have : i = 2 * cur + 1 ∨ i = 2 * cur + 1 + 1 := by omega
          rcases this with rfl | rfl
          · exact Nat.le_of_lt hc.2
          · exact Nat.le_refl _
        · next hc =>
          subst ht
          refine ⟨hch, by omega, by omega, ?_⟩
          intro i h0 hi hp
          have : i = 2 * cur + 1 ∨ i = 2 * cur + 1 + 1 := by omega
          rcases this with rfl | rfl
          · exact Nat.le_refl _
          · have : ¬ d.getD (2 * cur + 1) 0 < d.getD (2 * cur + 1 + 1) 0 := fun hlt => hc ⟨hi, hlt⟩
            omega
      obtain ⟨htm, h0t, hpt, hmax⟩ := hT
      split
      · next hlt =>
        exact reInv_stop h (fun i h0 hi hp => by have := hmax i h0 hi hp; omega)
      · next hge =>
        exact reheapLoop_heap mark fuel _ t (reInv_swap h htm h0t hpt hmax (by omega)) (by omega)
    · next hch =>
      exact reInv_stop h (fun i h0 hi hp => by omega)

theorem reheapLoop_length (mark : Nat) : ∀ (fuel : Nat) (d : List Nat) (cur : Nat),
    (PrioSt.reheapLoop mark fuel d cur).length = d.length
  | 0, d, cur => by simp [PrioSt.reheapLoop]
  | fuel + 1, d, cur => by
    unfold PrioSt.reheapLoop
    simp only
    split
    · generalize (if 2 * cur + 1 + 1 < mark ∧ d.getD (2 * cur + 1) 0 < d.getD (2 * cur + 1 + 1) 0
          then 2 * cur + 1 + 1 else 2 * cur + 1) = t
      split
      · rfl
      · rw [reheapLoop_length mark fuel]; simp
    · rfl

theorem reheapLoop_perm (mark : Nat) : ∀ (fuel : Nat) (d : List Nat) (cur : Nat), mark ≤ d.length →
    (PrioSt.reheapLoop mark fuel d cur).Perm d
  | 0, d, cur, _ => by simp [PrioSt.reheapLoop]
  | fuel + 1, d, cur, hm => by
    unfold PrioSt.reheapLoop
    simp only
    split
    · next hch =>
      generalize ht : (if 2 * cur + 1 + 1 < mark ∧ d.getD (2 * cur + 1) 0 < d.getD (2 * cur + 1 + 1) 0
          then 2 * cur + 1 + 1 else 2 * cur + 1) = t
      have hT : t < mark ∧ cur < t := by
        split at ht
        · next hc => subst ht; exact ⟨hc.1, by omega⟩
        · subst ht; exact ⟨hch, by omega⟩
      split
      · exact List.Perm.refl _
      · exact (reheapLoop_perm mark fuel _ t (by simpa using hm)).trans
          (swap_perm d cur t (by omega) (by omega) (by omega))
    · exact List.Perm.refl _

/-! ### `prioPop` / `prio` -/

theorem last_perm (d : List Nat) (h : 0 < d.length) :
    (d.getD (d.length - 1) 0 :: d.dropLast).Perm d := by
  have hne : d ≠ [] := by intro e; simp [e] at h
  have e : d.getD (d.length - 1) 0 = d.getLast hne := by
    rw [List.getLast_eq_getElem, List.getD_eq_getElem?_getD, List.getElem?_eq_getElem (by omega)]
    rfl
  have := List.dropLast_concat_getLast hne
  rw [e]
  have hp : (d.getLast hne :: d.dropLast).Perm (d.dropLast ++ [d.getLast hne]) :=
    (List.perm_append_comm (l₁ := [d.getLast hne]) (l₂ := d.dropLast))
  rw [this] at hp
  exact hp

theorem useTail_iff (s : PrioSt) : s.useTail = true ↔
    s.mark < s.data.length ∧ s.data.getD 0 0 < s.data.getD (s.data.length - 1) 0 := by
  simp [PrioSt.useTail]

theorem heapUpTo_le_one (d : List Nat) (m : Nat) (h : m ≤ 1) : HeapUpTo d m :=
  fun i h0 hi => by omega

/-- the element `prioPop` removes is `prio`, and what is left is again a heap prefix + unheaped tail -/
theorem prioPop_spec (s : PrioSt) (h : PInv s) (hne : 0 < s.data.length) :
    s.prioPop.mark ≤ s.prioPop.data.length ∧ HeapUpTo s.prioPop.data s.prioPop.mark ∧
    (s.prio :: s.prioPop.data).Perm s.data ∧
    s.prioPop.resv = s.resv ∧ s.prioPop.acc = s.acc ∧ s.prioPop.out = s.out := by
  have hml := h.mark_le
  have hheap := h.heap
  unfold PrioSt.prioPop PrioSt.prio
  by_cases hu : s.useTail = true
  · rw [if_pos hu, if_pos hu]
    have hu' := (useTail_iff s).1 hu
    refine ⟨by simp; omega, ?_, last_perm _ hne, rfl, rfl, rfl⟩
    intro i h0 hi
    have hi' : i < s.mark := hi
    show s.data.dropLast.getD i 0 ≤ s.data.dropLast.getD ((i - 1) / 2) 0
    rw [getD_dropLast _ _ (by omega), getD_dropLast _ _ (by omega)]
    exact hheap i h0 hi
  · rw [if_neg hu, if_neg hu]
    simp only
    generalize hd1 : (if s.data.length > 1 then (s.data.set 0 (s.data.getD (s.data.length - 1) 0)).dropLast
      else s.data.dropLast) = d1
    generalize hmk : (if s.mark > s.data.length - 1 then s.mark - 1 else s.mark) = mk
    have hmk1 : mk ≤ s.data.length - 1 ∧ mk ≤ s.mark := by
      split at hmk <;> omega
    have hlen1 : d1.length = s.data.length - 1 := by
      subst hd1; split <;> simp
    have hget : ∀ i, 0 < i → i < s.data.length - 1 → d1.getD i 0 = s.data.getD i 0 := by
      intro i h0 hi
      subst hd1
      rw [if_pos (by omega), getD_dropLast _ _ (by simpa using hi), getD_set_ne _ _ _ _ (by omega)]
    have hperm : (s.data.getD 0 0 :: d1).Perm s.data := by
      subst hd1
      split
      · next hgt =>
        have h1 := last_perm (s.data.set 0 (s.data.getD (s.data.length - 1) 0)) (by simpa using hne)
        rw [List.length_set, getD_set_ne _ _ _ _ (by omega)] at h1
        have h2 := cons_set_perm (s.data.getD (s.data.length - 1) 0) s.data 0 hne
        have h3 := ((h1.cons (s.data.getD 0 0)).trans h2)
        exact (List.perm_cons _).1 ((List.Perm.swap _ _ _).trans h3)
      · next hle =>
        have : s.data.length - 1 = 0 := by omega
        have h1 := last_perm s.data hne
        rw [this] at h1
        exact h1
    have hinv : ReInv mk d1 0 := by
      refine ⟨by omega, ?_, fun i h0 hi hp hc => by omega⟩
      intro i h0 hi hp
      rw [hget i h0 (by omega), hget _ (by omega) (by omega)]
      exact hheap i h0 (by omega)
    refine ⟨?_, ?_, ?_, by simp⟩
    · show mk ≤ (if s.data.length - 1 > 1 then PrioSt.reheap d1 mk else d1).length
      split
      · unfold PrioSt.reheap; rw [reheapLoop_length]; omega
      · omega
    · show HeapUpTo (if s.data.length - 1 > 1 then PrioSt.reheap d1 mk else d1) mk
      split
      · exact reheapLoop_heap mk _ _ _ hinv (by omega)
      · exact heapUpTo_le_one _ _ (by omega)
    · show (s.data.getD 0 0 :: (if s.data.length - 1 > 1 then PrioSt.reheap d1 mk else d1)).Perm s.data
      split
      · exact ((reheapLoop_perm mk _ _ _ (by omega)).cons _).trans hperm
      · exact hperm

/-- `prio` is an element of the buffer, dominates the heap prefix and the last (possibly unheaped) item -/
theorem prio_spec (s : PrioSt) (h : PInv s) (hne : 0 < s.data.length) :
    s.prio ∈ s.data ∧ (∀ i, i < s.mark → s.data.getD i 0 ≤ s.prio) ∧
      s.data.getD (s.data.length - 1) 0 ≤ s.prio := by
  have hml := h.mark_le
  have hroot := heap_root_max _ _ h.heap
  unfold PrioSt.prio
  by_cases hu : s.useTail = true
  · rw [if_pos hu]
    have hu' := (useTail_iff s).1 hu
    refine ⟨getD_mem _ _ (by omega), fun i hi => ?_, Nat.le_refl _⟩
    have := hroot i hi; omega
  · rw [if_neg hu]
    refine ⟨getD_mem _ _ hne, hroot, ?_⟩
    have hu' := mt (useTail_iff s).2 hu
    by_cases hm : s.mark < s.data.length
    · have : ¬ s.data.getD 0 0 < s.data.getD (s.data.length - 1) 0 := fun hlt => hu' ⟨hm, hlt⟩
      omega
    · exact hroot _ (by omega)

/-! ### `order` -/

theorem order_spec (s : PrioSt) (h : PInv s) :
    s.order.mark = s.order.data.length ∧ HeapUpTo s.order.data s.order.mark ∧
    s.order.data.Perm s.data ∧ s.order.resv = s.resv ∧ s.order.acc = s.acc ∧ s.order.out = s.out := by
  have hml := h.mark_le
  unfold PrioSt.order
  split
  · next hlt =>
    generalize hm0 : (if s.mark = 0 then 1 else s.mark) = m0
    have hm01 : 1 ≤ m0 ∧ m0 ≤ s.data.length := by split at hm0 <;> omega
    have hh : HeapUpTo s.data m0 := by
      split at hm0
      · subst hm0; exact heapUpTo_le_one _ _ (Nat.le_refl _)
      · subst hm0; exact h.heap
    have sp := heapifyLoop_spec s.data.length s.data m0 hm01.1 hm01.2 hh (by omega)
    refine ⟨sp.1.symm, ?_, sp.2.1, rfl, rfl, rfl⟩
    show HeapUpTo (PrioSt.heapifyLoop s.data.length s.data m0) s.data.length
    exact sp.2.2
  · next hge =>
    exact ⟨by omega, h.heap, List.Perm.refl _, rfl, rfl, rfl⟩

/-! ### conservation bookkeeping (by counting) -/

theorem cons_pop_out {out data data' r acc : List Nat} {v : Nat} (hp : (v :: data').Perm data)
    (hc : (out ++ data ++ r).Perm acc) : ((out ++ [v]) ++ data' ++ r).Perm acc := by
  rw [List.perm_iff_count] at *
  intro c
  have h1 := hp c
  have h2 := hc c
  rw [show v :: data' = [v] ++ data' from rfl] at h1
  simp only [List.count_append] at *
  omega

theorem cons_pop_resv {out data data' acc : List Nat} {v : Nat} (hp : (v :: data').Perm data)
    (hc : (out ++ data ++ []).Perm acc) : (out ++ data' ++ [v]).Perm acc := by
  rw [List.perm_iff_count] at *
  intro c
  have h1 := hp c
  have h2 := hc c
  rw [show v :: data' = [v] ++ data' from rfl] at h1
  simp only [List.count_append, List.count_nil] at *
  omega

theorem cons_push {out data r acc : List Nat} {v : Nat}
    (hc : (out ++ data ++ r).Perm acc) : (out ++ (data ++ [v]) ++ r).Perm (acc ++ [v]) := by
  rw [List.perm_iff_count] at *
  intro c
  have h2 := hc c
  simp only [List.count_append] at *
  omega

theorem cons_release {out data acc : List Nat} {v : Nat}
    (hc : (out ++ data ++ [v]).Perm acc) : (out ++ (data ++ [v]) ++ []).Perm acc := by
  simpa using hc

theorem cons_consume {out data acc : List Nat} {v : Nat}
    (hc : (out ++ data ++ [v]).Perm acc) : ((out ++ [v]) ++ data ++ []).Perm acc := by
  rw [List.perm_iff_count] at *
  intro c
  have h2 := hc c
  simp only [List.count_append, List.count_nil] at *
  omega

theorem heapUpTo_append (d : List Nat) (v m : Nat) (hm : m ≤ d.length) (h : HeapUpTo d m) :
    HeapUpTo (d ++ [v]) m := by
  intro i h0 hi
  rw [getD_append_left _ _ _ (by omega), getD_append_left _ _ _ (by omega)]
  exact h i h0 hi

theorem not_blocked {s : PrioSt} (hc : ¬ (s.resv.isSome || s.data.length == 0) = true) :
    s.resv = none ∧ 0 < s.data.length := by
  cases hr : s.resv with
  | some v => simp [hr] at hc
  | none =>
    simp [hr] at hc
    exact ⟨rfl, List.length_pos_iff.2 hc⟩

theorem pinv_init : PInv prioMach.init :=
  ⟨Nat.le_refl _, fun i h0 hi => by simp [prioMach] at hi, by simp [prioMach]⟩

theorem prio_emits_eq (s : PrioSt) (op : PrioOp) (x : Nat)
    (hx : emitted (prioStep s op).2 = some x) : x = s.prio ∧ s.resv = none ∧ 0 < s.data.length := by
  cases op with
  | put v => simp [prioStep, emitted] at hx
  | order => simp [prioStep, emitted] at hx
  | release =>
    unfold prioStep at hx
    simp only at hx
    split at hx <;> simp [emitted] at hx
  | consume =>
    unfold prioStep at hx
    simp only at hx
    split at hx <;> simp [emitted] at hx
  | get =>
    unfold prioStep at hx
    simp only at hx
    split at hx
    · simp [emitted] at hx
    · next hc => exact ⟨by simpa [emitted] using hx.symm, not_blocked hc⟩
  | reserve =>
    unfold prioStep at hx
    simp only at hx
    split at hx
    · simp [emitted] at hx
    · next hc => exact ⟨by simpa [emitted] using hx.symm, not_blocked hc⟩
  | fwd a =>
    unfold prioStep at hx
    simp only at hx
    split at hx
    · simp [emitted] at hx
    · next hc =>
      refine ⟨?_, not_blocked hc⟩
      split at hx <;> simpa [emitted] using hx.symm

end Prio

open Prio

/-- after `order()` the whole buffer is heaped -/
theorem order_mark (s : PrioSt) (h : PInv s) : s.order.mark = s.order.data.length :=
  (order_spec s h).1

/-! ### the step theorem -/

theorem prio_inv_step (s : PrioSt) (op : PrioOp) (h : PInv s) : PInv (prioStep s op).1 := by
  have hml := h.mark_le
  cases op with
  | put v =>
    exact ⟨by show s.mark ≤ (s.data ++ [v]).length; simp; omega,
      heapUpTo_append _ _ _ hml h.heap, cons_push h.cons⟩
  | get =>
    unfold prioStep
    simp only
    split
    · exact h
    · next hc =>
      obtain ⟨hr, hne⟩ := not_blocked hc
      obtain ⟨p1, p2, p3, p4, p5, p6⟩ := prioPop_spec s h hne
      refine ⟨p1, p2, ?_⟩
      show ((s.out ++ [s.prio]) ++ s.prioPop.data ++ s.prioPop.resv.toList).Perm s.prioPop.acc
      rw [p4, p5]
      exact cons_pop_out p3 h.cons
  | reserve =>
    unfold prioStep
    simp only
    split
    · exact h
    · next hc =>
      obtain ⟨hr, hne⟩ := not_blocked hc
      obtain ⟨p1, p2, p3, p4, p5, p6⟩ := prioPop_spec s h hne
      refine ⟨p1, p2, ?_⟩
      show (s.prioPop.out ++ s.prioPop.data ++ [s.prio]).Perm s.prioPop.acc
      rw [p5, p6]
      have hcs := h.cons
      rw [hr] at hcs
      exact cons_pop_resv p3 hcs
  | release =>
    unfold prioStep
    simp only
    split
    · next v hr =>
      have hcs := h.cons
      rw [hr] at hcs
      exact ⟨by show s.mark ≤ (s.data ++ [v]).length; simp; omega,
        heapUpTo_append _ _ _ hml h.heap, cons_release hcs⟩
    · exact h
  | consume =>
    unfold prioStep
    simp only
    split
    · next v hr =>
      have hcs := h.cons
      rw [hr] at hcs
      exact ⟨hml, h.heap, cons_consume hcs⟩
    · exact h
  | fwd a =>
    unfold prioStep
    simp only
    split
    · exact ⟨hml, h.heap, h.cons⟩
    · next hc =>
      obtain ⟨hr, hne⟩ := not_blocked hc
      obtain ⟨p1, p2, p3, p4, p5, p6⟩ := prioPop_spec s h hne
      split
      · refine ⟨p1, p2, ?_⟩
        show ((s.out ++ [s.prio]) ++ s.prioPop.data ++ s.prioPop.resv.toList).Perm s.prioPop.acc
        rw [p4, p5]
        exact cons_pop_out p3 h.cons
      · exact h
  | order =>
    obtain ⟨o1, o2, o3, o4, o5, o6⟩ := order_spec s h
    refine ⟨by show s.order.mark ≤ s.order.data.length; omega, o2, ?_⟩
    show (s.order.out ++ s.order.data ++ s.order.resv.toList).Perm s.order.acc
    rw [o4, o5, o6]
    exact ((o3.append_left s.out).append_right _).trans h.cons

theorem prio_inv (ops : List PrioOp) : PInv (prioMach.run ops).1 :=
  Mach.inv_run prioMach PInv pinv_init prio_inv_step ops

/-! ### what an emitting step emits -/

theorem prio_emits (s : PrioSt) (op : PrioOp) (h : PInv s) (x : Nat)
    (hx : emitted (prioStep s op).2 = some x) :
    x ∈ s.data ∧ (∀ i, i < s.mark → s.data.getD i 0 ≤ x) ∧ s.data.getD (s.data.length - 1) 0 ≤ x := by
  obtain ⟨rfl, _, hne⟩ := prio_emits_eq s op x hx
  exact prio_spec s h hne

theorem prio_emits_max_of_ordered (s : PrioSt) (op : PrioOp) (h : PInv s)
    (hm : s.mark = s.data.length) (x : Nat) (hx : emitted (prioStep s op).2 = some x) :
    ∀ y ∈ s.data, y ≤ x := by
  obtain ⟨_, hmax, _⟩ := prio_emits s op h x hx
  intro y hy
  obtain ⟨i, hi, rfl⟩ := List.getElem_of_mem hy
  have := hmax i (by omega)
  simpa [List.getD_eq_getElem?_getD, hi] using this

end TbbVerif.C15
