/-
C15 helper lemmas: limiter_node counters.
-/
import TbbVerif.Model.C15

namespace TbbVerif.C15

/-- run-invariant lifting when every operation of the script satisfies a predicate -/
theorem Mach.inv_runFrom_of {σ Op Out : Type} (M : Mach σ Op Out) (Inv : σ → Prop) (P : Op → Prop)
    (hstep : ∀ s o, P o → Inv s → Inv (M.step s o).1) :
    ∀ (ops : List Op) (s : σ), (∀ o ∈ ops, P o) → Inv s → Inv (M.runFrom s ops).1 := by
  intro ops
  induction ops with
  | nil => intro s _ h; simpa [Mach.runFrom] using h
  | cons o os ih =>
    intro s hp h
    simp only [Mach.runFrom]
    exact ih _ (fun o' ho' => hp o' (List.mem_cons_of_mem _ ho')) (hstep s o (hp o List.mem_cons_self) h)

/-- holds for every sequence of operations and every integer decrement -/
structure LInv (s : LimSt) : Prop where
  tr : s.tries = s.pend + s.accd + s.rejd
  /-- `my_count` (+ accepted puts still in flight − banked decrements) over-approximates the ghost counter -/
  i1 : s.outst ≤ (s.count : Int) + s.accd - s.future
  /-- forwarded-and-not-decremented plus the in-flight puts that may still be forwarded fit the threshold -/
  i2 : s.outst + s.pend + s.rejd ≤ (s.threshold : Int)

theorem linv_init (th : Nat) : LInv { threshold := th } := ⟨rfl, by simp, by simp⟩

theorem pay_diff (c f : Nat) :
    (((if f = 0 then (c, 0) else if c > f then (c - f, 0) else (0, f - c)) : Nat × Nat).1 : Int) -
      ((if f = 0 then (c, 0) else if c > f then (c - f, 0) else (0, f - c)) : Nat × Nat).2 = (c : Int) - f := by
  split
  · simp_all
  · split <;> simp <;> omega

theorem pay_le (c f : Nat) :
    ((if f = 0 then (c, 0) else if c > f then (c - f, 0) else (0, f - c)) : Nat × Nat).1 ≤ c := by
  split
  · simp
  · split <;> simp

theorem linv_step (s : LimSt) (op : LimOp) (h : LInv s) : LInv (limStep s op).1 := by
  obtain ⟨tr, i1, i2⟩ := h
  unfold limStep
  cases op with
  | begin extra =>
    dsimp only
    split
    · rename_i hc
      refine ⟨by simp [tr]; omega, by simpa using i1, ?_⟩
      simp only
      have := hc.1
      omega
    · exact ⟨tr, i1, i2⟩
  | verdict a =>
    dsimp only
    split
    · exact ⟨tr, i1, i2⟩
    · split
      · refine ⟨by simp [tr]; omega, by simp; omega, by simp; omega⟩
      · refine ⟨by simp [tr]; omega, by simpa using i1, by simp; omega⟩
  | endOk =>
    dsimp only
    split
    · exact ⟨tr, i1, i2⟩
    · rename_i hacc
      have hd := pay_diff (s.count + 1) s.future
      refine ⟨by simp [tr]; omega, ?_, by simpa using i2⟩
      simp only
      omega
  | endFail =>
    dsimp only
    split
    · exact ⟨tr, i1, i2⟩
    · exact ⟨by simp [tr]; omega, by simpa using i1, by simp; omega⟩
  | dec delta0 =>
    dsimp only
    generalize (if delta0 > 0 ∧ delta0.toNat > s.threshold then (s.threshold : Int) else delta0) = delta
    split
    · rename_i hA
      split
      · refine ⟨tr, ?_, by simp; omega⟩
        simp only; omega
      · refine ⟨tr, ?_, by simp; omega⟩
        simp only; omega
    · split
      · rename_i hB
        refine ⟨tr, ?_, i2⟩
        simp only; omega
      · rename_i hA hB
        refine ⟨tr, ?_, ?_⟩
        · simp only; split <;> omega
        · simp only; split <;> omega

theorem linv_run (th : Nat) (ops : List LimOp) : LInv ((limMach th).run ops).1 :=
  Mach.inv_run (limMach th) LInv (linv_init th) linv_step ops

/-- the sharper invariant when no decrement is negative -/
structure LInvPos (s : LimSt) : Prop where
  base : LInv s
  ct : s.count + s.tries ≤ s.threshold
  eq : s.outst = (s.count : Int) + s.accd - s.future

def nonnegOp : LimOp → Prop
  | .dec d => 0 ≤ d
  | _ => True

theorem linvpos_step (s : LimSt) (op : LimOp) (hp : nonnegOp op) (h : LInvPos s) : LInvPos (limStep s op).1 := by
  obtain ⟨base, ct, eq⟩ := h
  refine ⟨linv_step s op base, ?_, ?_⟩
  · obtain ⟨tr, _, _⟩ := base
    unfold limStep
    cases op with
    | begin extra => dsimp only; split <;> simp only <;> omega
    | verdict a => dsimp only; split; · exact ct
                   split <;> exact ct
    | endOk =>
      dsimp only
      split
      · exact ct
      · have := pay_le (s.count + 1) s.future
        simp only; omega
    | endFail => dsimp only; split <;> simp only <;> omega
    | dec delta0 =>
      have hp' : 0 ≤ delta0 := hp
      dsimp only
      generalize hd : (if delta0 > 0 ∧ delta0.toNat > s.threshold then (s.threshold : Int) else delta0) = delta
      have hdn : 0 ≤ delta := by rw [← hd]; split <;> omega
      split
      · split <;> simp only <;> omega
      · split
        · omega
        · simp only; omega
  · obtain ⟨tr, _, _⟩ := base
    unfold limStep
    cases op with
    | begin extra => dsimp only; split <;> simpa using eq
    | verdict a =>
      dsimp only; split
      · exact eq
      · split
        · simp only; omega
        · simpa using eq
    | endOk =>
      dsimp only
      split
      · exact eq
      · have hd := pay_diff (s.count + 1) s.future
        simp only; omega
    | endFail => dsimp only; split <;> simpa using eq
    | dec delta0 =>
      have hp' : 0 ≤ delta0 := hp
      dsimp only
      generalize hd : (if delta0 > 0 ∧ delta0.toNat > s.threshold then (s.threshold : Int) else delta0) = delta
      have hdn : 0 ≤ delta := by rw [← hd]; split <;> omega
      split
      · split
        · simp only; omega
        · simp only; omega
      · split
        · omega
        · simp only; split <;> omega

theorem linvpos_run (th : Nat) (ops : List LimOp) (hp : ∀ o ∈ ops, nonnegOp o) : LInvPos ((limMach th).run ops).1 :=
  Mach.inv_runFrom_of (limMach th) LInvPos nonnegOp linvpos_step ops _ hp
    ⟨linv_init th, by simp [limMach], by simp [limMach]⟩

end TbbVerif.C15
