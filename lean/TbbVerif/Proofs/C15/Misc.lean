/-
C15 helper lemmas: overwrite_node / write_once_node.
-/
import TbbVerif.Model.C15

namespace TbbVerif.C15

/-- the value most recently offered to successor `r` -/
def lastOffer (offers : List (Nat × Nat)) (r : Nat) : Option Nat :=
  ((offers.filter (fun o => o.1 == r)).getLast?).map (·.2)

theorem lastOffer_snoc (o : List (Nat × Nat)) (r r' v : Nat) :
    lastOffer (o ++ [(r', v)]) r = if r' = r then some v else lastOffer o r := by
  unfold lastOffer
  rw [List.filter_append]
  by_cases h : r' = r
  · subst h; simp [List.filter_cons]
  · have : ((r', v).1 == r) = false := by simpa using h
    simp [List.filter_cons, this, h]

theorem lastOffer_bcast (L : List Nat) (v r : Nat) : ∀ o : List (Nat × Nat),
    lastOffer (o ++ L.map (fun x => (x, v))) r = if r ∈ L then some v else lastOffer o r := by
  induction L with
  | nil => intro o; simp
  | cons a L ih =>
    intro o
    have e : o ++ (a :: L).map (fun x => (x, v)) = (o ++ [(a, v)]) ++ L.map (fun x => (x, v)) := by simp
    rw [e, ih, lastOffer_snoc]
    by_cases h1 : r ∈ L
    · simp [h1]
    · by_cases h2 : a = r
      · simp [h2]
      · have : ¬ r = a := fun e => h2 e.symm
        simp [h1, h2, this]

/-- every successor in the push cache has been offered the value currently buffered, as its latest offer -/
def OInv (s : OwSt) : Prop := ∀ v, s.buf = some v → ∀ r ∈ s.succs, lastOffer s.offers r = some v

theorem oinv_step (once : Bool) (s : OwSt) (op : OwOp) (h : OInv s) : OInv (owStep once s op).1 := by
  unfold owStep
  cases op with
  | put v leave =>
    dsimp only
    split
    · exact h
    · intro w hw r hr
      simp only [Option.some.injEq] at hw
      subst hw
      have hr' : r ∈ s.succs := (List.mem_filter.1 hr).1
      simp only
      rw [lastOffer_bcast]; simp [hr']
  | reg r a =>
    dsimp only
    cases hb : s.buf with
    | none => intro w hw; simp [hb] at hw
    | some v =>
      dsimp only
      split
      · intro w hw r' hr'
        simp only [hb, Option.some.injEq] at hw
        subst hw
        simp only
        rw [lastOffer_snoc]
        by_cases e : r = r'
        · simp [e]
        · simp only [e, if_false]
          rcases List.mem_append.1 hr' with h1 | h1
          · exact h v hb r' h1
          · simp at h1; exact absurd h1.symm e
      · intro w hw r' hr'
        simp only [hb, Option.some.injEq] at hw
        subst hw
        simp only
        rw [lastOffer_snoc]
        by_cases e : r = r'
        · simp [e]
        · simp only [e, if_false]; exact h v hb r' hr'
  | rem r =>
    intro w hw r' hr'
    exact h w hw r' (List.mem_of_mem_erase hr')
  | get => dsimp only; split <;> exact h
  | clear => intro w hw; simp at hw

theorem oinv_run (once : Bool) (ops : List OwOp) : OInv ((owMach once).run ops).1 :=
  Mach.inv_run (owMach once) OInv (by intro v hv; simp [owMach] at hv) (oinv_step once) ops

end TbbVerif.C15
