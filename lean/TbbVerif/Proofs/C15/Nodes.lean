/-
C15 helper lemmas: buffer_node / queue_node invariants over the `item_buffer` refinement.
-/
import TbbVerif.Proofs.C15.ItemBuf

namespace TbbVerif.C15
open ItemBuf

/-- the window of a buffer/queue node holding `items`; only the front one may be reserved -/
def qview (res : Bool) : List Nat → List Slot
  | [] => []
  | x :: xs => some (x, res) :: xs.map (fun y => some (y, false))

theorem qview_false (xs : List Nat) : qview false xs = xs.map (fun y => some (y, false)) := by
  cases xs <;> simp [qview]

theorem qview_concat (res : Bool) (xs : List Nat) (v : Nat) (h : res = true → xs ≠ []) :
    qview res (xs ++ [v]) = qview res xs ++ [some (v, false)] := by
  cases xs with
  | nil => cases res <;> simp_all [qview]
  | cons x xs => simp [qview]

theorem qview_length (res : Bool) (xs : List Nat) : (qview res xs).length = xs.length := by
  cases xs <;> simp [qview]

/-- invariant of buffer_node (`k = .buffer`) and queue_node (`k = .queue`) -/
structure NInv (k : Kind) (s : BufSt) : Prop where
  wf : WF s.buf
  noub : s.ub = false
  items : ∃ items, s.buf.view = qview s.reserved items ∧ (s.reserved = true → items ≠ []) ∧
            (s.out ++ items).Perm s.acc ∧ (k = .queue → s.out ++ items = s.acc)

theorem ninv_init (k : Kind) : NInv k {} :=
  ⟨empty_wf.1, rfl, [], by
    have h := empty_wf
    have : ItemBuf.empty.view.length = 0 := by rw [view_length, h.2.1, h.2.2]
    exact ⟨List.eq_nil_of_length_eq_zero this, by simp, by simp, by simp⟩⟩

private theorem perm_pop_last (out init acc : List Nat) (y : Nat) (h : (out ++ (init ++ [y])).Perm acc) :
    ((out ++ [y]) ++ init).Perm acc := by
  refine List.Perm.trans ?_ h
  rw [List.append_assoc]
  exact List.Perm.append_left out List.perm_append_comm

/-- popping the back of a non-empty window whose front may be reserved (needs ≥ 2 items then) -/
private theorem pop_back_case (k : Kind) (s : BufSt) (hk : k = .buffer) (h : NInv k s)
    (hres : s.reserved = true → 2 ≤ s.buf.tail - s.buf.head) :
    (s.buf.popBack = none ∧ s.buf.view = []) ∨
    ∃ v b', s.buf.popBack = some (v, b') ∧ ∀ busy, NInv k { s with buf := b', out := s.out ++ [v], busy := busy } := by
  obtain ⟨wf, noub, items, hv, hne, hperm, hq⟩ := h
  rcases List.eq_nil_or_concat items with rfl | ⟨init, y, rfl⟩
  · left
    have : s.buf.view = [] := by simpa [qview] using hv
    exact ⟨popBack_none _ (Or.inl this), this⟩
  · right
    rw [List.concat_eq_append] at hv hne hperm hq
    have hinit : s.reserved = true → init ≠ [] := by
      intro hr
      have := hres hr
      have hl : s.buf.view.length = (init ++ [y]).length := by rw [hv, qview_length]
      rw [view_length] at hl
      intro e; subst e; simp at hl; omega
    rw [qview_concat _ _ _ hinit] at hv
    obtain ⟨b', hp, hw', hv', _, _⟩ := popBack_some s.buf wf y false _ hv
    refine ⟨y, b', hp, fun busy => ⟨hw', noub, init, hv', hinit, perm_pop_last _ _ _ _ hperm, ?_⟩⟩
    intro e; rw [hk] at e; cases e

/-- popping the front of a window whose front is not reserved -/
private theorem pop_front_case (k : Kind) (s : BufSt) (h : NInv k s) :
    (s.buf.popFront = none ∧ s.buf.view = []) ∨
    ∃ v b', s.buf.popFront = some (v, b') ∧
      ∀ busy, NInv k { s with buf := b', out := s.out ++ [v], busy := busy, reserved := false } := by
  obtain ⟨wf, noub, items, hv, hne, hperm, hq⟩ := h
  cases items with
  | nil =>
    left
    have : s.buf.view = [] := by simpa [qview] using hv
    exact ⟨popFront_none _ (Or.inl this), this⟩
  | cons x xs =>
    right
    obtain ⟨b', hp, hw', hv', _, _⟩ := popFront_some s.buf wf x s.reserved _ hv
    refine ⟨x, b', hp, fun busy => ⟨hw', noub, xs, by rw [hv', qview_false], by simp, ?_, ?_⟩⟩
    · simpa using hperm
    · intro e; simpa using hq e

theorem ninv_step (k : Kind) (mode : Nat) (f : Nat → Nat) (hk : k ≠ .sequencer) (hm : k = .buffer → 1 ≤ mode)
    (s : BufSt) (op : BufOp) (h : NInv k s) : NInv k (bufStep k mode f s op).1 := by
  have h0 := h
  obtain ⟨wf, noub, items, hv, hne, hperm, hq⟩ := h
  unfold bufStep
  rw [if_neg (by rw [noub]; exact Bool.false_ne_true)]
  cases op with
  | put v =>
    have hres : NInv k { s with buf := s.buf.pushBack v, acc := s.acc ++ [v] } := by
      obtain ⟨hw', _, _, hv'⟩ := pushBack_spec s.buf wf v
      refine ⟨hw', noub, items ++ [v], ?_, ?_, ?_, ?_⟩
      · rw [hv', hv, qview_concat _ _ _ hne]
      · intro _; simp
      · rw [← List.append_assoc]; exact List.Perm.append_right _ hperm
      · intro e; rw [← List.append_assoc, hq e]
    cases k <;> first | exact absurd rfl hk | (dsimp only; exact hres)
  | get =>
    cases k with
    | sequencer => exact absurd rfl hk
    | buffer =>
      dsimp only
      split
      · exact h0
      · rename_i hc
        have hres : s.reserved = true → 2 ≤ s.buf.tail - s.buf.head := by
          intro hr
          have hm1 := hm rfl
          simp only [hr, Bool.true_and, Bool.or_eq_true, ge_iff_le, decide_eq_true_eq, Bool.and_eq_true, beq_iff_eq, not_or, not_and] at hc
          omega
        rcases pop_back_case .buffer s rfl h0 hres with ⟨hp, _⟩ | ⟨v, b', hp, hi⟩
        · simp only [hp]; exact h0
        · simp only [hp]; exact hi s.busy
    | queue =>
      dsimp only
      split
      · exact h0
      · rename_i hr
        rcases pop_front_case .queue s h0 with ⟨hp, _⟩ | ⟨v, b', hp, hi⟩
        · simp only [hp]; exact h0
        · simp only [hp]
          have := hi s.busy
          have e : s.reserved = false := by simpa using hr
          simpa [e] using this
  | reserve =>
    dsimp only
    split
    · exact h0
    · rename_i hr
      have e : s.reserved = false := by simpa using hr
      cases items with
      | nil =>
        have : s.buf.view = [] := by simpa [qview] using hv
        simp only [reserveFront_none _ (Or.inl this)]; exact h0
      | cons x xs =>
        obtain ⟨b', hp, hw', hv', _, _⟩ := reserveFront_some s.buf wf x s.reserved _ hv
        simp only [hp]
        exact ⟨hw', noub, x :: xs, by simpa [qview] using hv', by simp, hperm, hq⟩
  | release =>
    dsimp only
    split
    · exact h0
    · rename_i hr
      have e : s.reserved = true := by simpa using hr
      cases items with
      | nil => exact absurd rfl (hne e)
      | cons x xs =>
        rw [e] at hv
        obtain ⟨b', hp, hw', hv', _, _⟩ := releaseFront_some s.buf wf x _ hv
        simp only [hp]
        exact ⟨hw', noub, x :: xs, by simpa [qview] using hv', by simp, hperm, hq⟩
  | consume =>
    dsimp only
    split
    · exact h0
    · rename_i hr
      have e : s.reserved = true := by simpa using hr
      rcases pop_front_case k s h0 with ⟨_, hnil⟩ | ⟨v, b', hp, hi⟩
      · exfalso
        cases items with
        | nil => exact hne e rfl
        | cons x xs => rw [hnil] at hv; simp [qview] at hv
      · simp only [consumeFront, hp]; exact hi s.busy
  | fwd a =>
    dsimp only
    split
    · exact ⟨wf, noub, items, hv, hne, hperm, hq⟩
    · rename_i hr
      have e : s.reserved = false := by simpa using hr
      cases k with
      | sequencer => exact absurd rfl hk
      | buffer =>
        dsimp only
        rcases pop_back_case .buffer s rfl h0 (by simp [e]) with ⟨hp, _⟩ | ⟨v, b', hp, hi⟩
        · simp only [hp]; exact ⟨wf, noub, items, hv, hne, hperm, hq⟩
        · simp only [hp]; split
          · exact hi s.busy
          · exact h0
      | queue =>
        dsimp only
        rcases pop_front_case .queue s h0 with ⟨hp, _⟩ | ⟨v, b', hp, hi⟩
        · simp only [hp]; exact ⟨wf, noub, items, hv, hne, hperm, hq⟩
        · simp only [hp]; split
          · have := hi s.busy; simpa [e] using this
          · exact h0

theorem qview_all_some (res : Bool) (items : List Nat) : ∀ o ∈ qview res items, ∃ y b, o = some (y, b) := by
  intro o ho
  cases items with
  | nil => simp [qview] at ho
  | cons x xs =>
    simp only [qview, List.mem_cons, List.mem_map] at ho
    rcases ho with rfl | ⟨y, _, rfl⟩
    · exact ⟨x, res, rfl⟩
    · exact ⟨y, false, rfl⟩

/-- while a reservation is held, no operation other than release / consume touches the reserved front item -/
theorem reserved_front_stable_step (k : Kind) (mode : Nat) (f : Nat → Nat) (hk : k ≠ .sequencer)
    (hm : k = .buffer → 1 ≤ mode) (s : BufSt) (h : NInv k s) (x : Nat) (rest : List Slot)
    (hr : s.reserved = true) (hv : s.buf.view = some (x, true) :: rest) (op : BufOp)
    (h1 : op ≠ .release) (h2 : op ≠ .consume) :
    (bufStep k mode f s op).1.reserved = true ∧ ∃ rest', (bufStep k mode f s op).1.buf.view = some (x, true) :: rest' := by
  obtain ⟨wf, noub, items, hvi, hne, hperm, hq⟩ := h
  unfold bufStep
  rw [if_neg (by rw [noub]; exact Bool.false_ne_true)]
  cases op with
  | put v =>
    have hp := pushBack_spec s.buf wf v
    cases k <;> first | exact absurd rfl hk | (dsimp only; exact ⟨hr, _, by rw [hp.2.2.2, hv]; rfl⟩)
  | get =>
    cases k with
    | sequencer => exact absurd rfl hk
    | queue => dsimp only; rw [if_pos hr]; exact ⟨hr, rest, hv⟩
    | buffer =>
      dsimp only
      split
      · exact ⟨hr, rest, hv⟩
      · rename_i hc
        have hm1 := hm rfl
        have hlen : 2 ≤ s.buf.tail - s.buf.head := by
          simp only [hr, Bool.true_and, Bool.or_eq_true, ge_iff_le, decide_eq_true_eq, Bool.and_eq_true, beq_iff_eq, not_or, not_and] at hc
          omega
        have hl : s.buf.view.length = rest.length + 1 := by rw [hv]; simp
        rw [view_length] at hl
        rcases List.eq_nil_or_concat rest with e | ⟨rinit, last, e⟩
        · subst e; simp at hl; omega
        · rw [List.concat_eq_append] at e
          subst e
          have hmem : last ∈ qview s.reserved items := by rw [← hvi, hv]; simp
          obtain ⟨y, b, rfl⟩ := qview_all_some _ _ _ hmem
          obtain ⟨b', hp, _, hv', _, _⟩ := popBack_some s.buf wf y b (some (x, true) :: rinit) (by rw [hv]; simp)
          simp only [hp]
          exact ⟨hr, rinit, hv'⟩
  | reserve => dsimp only; rw [if_pos hr]; exact ⟨hr, rest, hv⟩
  | release => exact absurd rfl h1
  | consume => exact absurd rfl h2
  | fwd a => dsimp only; rw [if_pos hr]; exact ⟨hr, rest, hv⟩

theorem ninv_run (k : Kind) (mode : Nat) (f : Nat → Nat) (hk : k ≠ .sequencer) (hm : k = .buffer → 1 ≤ mode)
    (ops : List BufOp) : NInv k ((bufMach k mode f).run ops).1 :=
  Mach.inv_run (bufMach k mode f) (NInv k) (ninv_init k) (fun s o h => ninv_step k mode f hk hm s o h) ops

end TbbVerif.C15
