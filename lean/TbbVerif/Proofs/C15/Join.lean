/-
C15 helper lemmas: join_node_base's batch handler over the three front ends.
-/
import TbbVerif.Model.C15Join
import TbbVerif.Proofs.C15.JoinQ
import TbbVerif.Proofs.C15.JoinK
import TbbVerif.Proofs.C15.JoinR

namespace TbbVerif.C15.Join
open TbbVerif.C15 TbbVerif.C15.Batch

variable {σ : Type}

/-! ### invariants of the front end are invariants of every history of batches and port events -/

theorem fwdLoop_pres (F : FE σ) (ω : Nat → Verdict) (P : σ → Prop) (h : ∀ s a, P s → P (F.attempt s a)) :
    ∀ (fuel : Nat) (s : JSt σ), P s.fe → P (fwdLoop F ω fuel s).fe := by
  intro fuel
  induction fuel with
  | zero => intro s hp; exact hp
  | succ f ih =>
    intro s hp
    unfold fwdLoop
    split
    · exact h _ _ hp
    · dsimp only
      split
      · exact ih _ (h _ _ hp)
      · exact h _ _ hp

theorem handleOne_pres (F : FE σ) (ω : Nat → Verdict) (P : σ → Prop) (h : ∀ s a, P s → P (F.attempt s a))
    (s : JSt σ) (op : JOp) (hp : P s.fe) : P (handleOne F ω s op).1.fe := by
  cases op with
  | regSucc r => simp only [handleOne]; split <;> exact hp
  | remSucc r => exact hp
  | tryGet =>
    simp only [handleOne]
    split
    · split
      · exact h _ _ hp
      · exact h _ _ hp
    · exact hp
  | doFwd =>
    simp only [handleOne]
    split
    · exact fwdLoop_pres F ω P h _ s hp
    · exact hp

theorem handleOps_pres (F : FE σ) (ω : Nat → Verdict) (P : σ → Prop) (h : ∀ s a, P s → P (F.attempt s a)) :
    ∀ (ops : List JOp) (s : JSt σ), P s.fe → P (handleOps F ω ops s).1.fe := by
  intro ops
  induction ops with
  | nil => intro s hp; exact hp
  | cons op ops ih => intro s hp; simp only [handleOps]; exact ih _ (handleOne_pres F ω P h s op hp)

theorem runHistory_pres {π : Type} (F : FE σ) (portStep : σ → π → σ) (ω : Nat → Verdict) (P : σ → Prop)
    (h : ∀ s a, P s → P (F.attempt s a)) (hport : ∀ s op, P s → P (portStep s op)) :
    ∀ (hist : List (Ev π)) (s : JSt σ), P s.fe → P (runHistory F portStep ω s hist).fe := by
  intro hist
  induction hist with
  | nil => intro s hp; exact hp
  | cons e rest ih =>
    intro s hp
    cases e with
    | port op => simp only [runHistory]; exact ih _ (hport _ _ hp)
    | batch arr => simp only [runHistory]; exact ih _ (handleOps_pres F ω P h _ s hp)

/-! ### a refused tuple -/

theorem bcastTry_false (ω : Nat → Verdict) (t : List Nat) :
    ∀ (succs : List Nat) (k : Nat), (bcastTry ω t succs k).1 = false →
      ∀ r ∈ succs, ∃ vd, vd ≠ Verdict.accept ∧ (r, t, vd) ∈ (bcastTry ω t succs k).2.2.2 := by
  intro succs
  induction succs with
  | nil => intro k _ r hr; cases hr
  | cons x xs ih =>
    intro k h r hr
    unfold bcastTry at h ⊢
    cases hω : ω k with
    | accept => simp [hω] at h
    | reject =>
      simp only [hω] at h ⊢
      rcases List.mem_cons.mp hr with rfl | hr
      · exact ⟨.reject, by decide, List.mem_cons_self⟩
      · obtain ⟨vd, h1, h2⟩ := ih (k + 1) h r hr
        exact ⟨vd, h1, List.mem_cons_of_mem _ h2⟩
    | rejectPull =>
      simp only [hω] at h ⊢
      rcases List.mem_cons.mp hr with rfl | hr
      · exact ⟨.rejectPull, by decide, List.mem_cons_self⟩
      · obtain ⟨vd, h1, h2⟩ := ih (k + 1) h r hr
        exact ⟨vd, h1, List.mem_cons_of_mem _ h2⟩

/-- one `do_fwrd_bypass` whose first tuple nobody takes: exactly one attempt, ended by `tuple_rejected` -/
theorem doFwd_refused (F : FE σ) (ω : Nat → Verdict) (s : JSt σ) (t : List Nat) (hm : F.maySucceed s.fe = true)
    (hp : F.peek s.fe = some t) (hr : (bcastTry ω t s.succs s.tick).1 = false) :
    (handleOne F ω s .doFwd).1.fe = F.attempt s.fe false ∧
    (handleOne F ω s .doFwd).1.offers = s.offers ++ (bcastTry ω t s.succs s.tick).2.2.2 ∧
    (handleOne F ω s .doFwd).1.busy = false := by
  simp only [handleOne, hm, if_true]
  unfold fwdLoop
  simp only [hp, hr, Bool.false_eq_true, if_false]
  exact ⟨trivial, trivial, trivial⟩

/-! ### the front ends -/

theorem jq_attempt_false (s : JqSt) : jqFE.attempt s false = s := by
  show (jqStep s (.fwd false)).1 = s
  unfold jqStep
  split
  · rfl
  · dsimp only
    split
    · rfl
    · split <;> rfl

theorem jk_attempt_false (kf : Nat → Nat) (s : JkSt) : (jkFE kf).attempt s false = s := by
  show (jkStep kf s (.fwd false)).1 = s
  unfold jkStep
  split
  · rfl
  · dsimp only
    split <;> rfl

/-- the reserving front end keeps every port unreserved between attempts -/
def JrOk (n : Nat) (s : JrFe) : Prop := s.core.resv = List.replicate n false ∧ s.core.n = n

theorem jrStep_ok (n : Nat) (c : JrSt) (op : List (Option Nat) × Bool) (h : c.resv = List.replicate n false ∧ c.n = n) :
    (jrStep c op).1.resv = List.replicate n false ∧ (jrStep c op).1.n = n := by
  obtain ⟨h1, h2⟩ := h
  unfold jrStep
  dsimp only
  have := (jrEvents_spec n (fun p => op.1.getD p none) op.2).1
  rw [h2, h1]
  cases hres : jrEvents n (fun p => op.1.getD p none) op.2 with
  | mk evs res =>
    rw [hres] at this
    cases res <;> exact ⟨this, rfl⟩

theorem jr_attempt_ok (n : Nat) (s : JrFe) (a : Bool) (h : JrOk n s) : JrOk n (jrFE.attempt s a) := by
  show JrOk n (jrAttempt s a)
  unfold jrAttempt
  split
  · exact h
  · split
    · exact jrStep_ok n s.core _ h
    · exact jrStep_ok n s.core _ h

theorem jr_offer_ok (n : Nat) (s : JrFe) (pv : Nat × Nat) (h : JrOk n s) : JrOk n (jrOffer s pv) := by
  unfold jrOffer
  split
  · dsimp only
    split <;> exact h
  · exact h

/-- the events of one attempt of the reserving front end -/
theorem jr_attempt_events (s : JrFe) (a : Bool) (h0 : s.pwni = 0) :
    (jrAttempt s a).evs = (jrEvents s.core.n (fun p => (if (jrFailPort s.avail s.core.n).isSome then s.avail else s.avail).getD p none)
        (if (jrFailPort s.avail s.core.n).isSome then false else a)).1 := by
  unfold jrAttempt
  rw [if_neg (by omega)]
  cases hf : jrFailPort s.avail s.core.n with
  | some k =>
    simp only [Option.isSome_some, if_true]
    unfold jrStep
    dsimp only
    cases hres : jrEvents s.core.n (fun p => s.avail.getD p none) false with
    | mk evs res => cases res <;> rfl
  | none =>
    simp only [Option.isSome_none, Bool.false_eq_true, if_false]
    unfold jrStep
    dsimp only
    cases hres : jrEvents s.core.n (fun p => s.avail.getD p none) a with
    | mk evs res => cases res <;> rfl

/-- a refused (or unbuildable) tuple consumes nothing at any port and leaves what the predecessors offer untouched -/
theorem jr_attempt_false (s : JrFe) : (∀ e ∈ (jrAttempt s false).evs, isConsume e = false) ∧ (jrAttempt s false).avail = s.avail ∧
    (jrAttempt s false).core.out = s.core.out := by
  by_cases h0 : s.pwni = 0
  · refine ⟨?_, ?_, ?_⟩
    · rw [jr_attempt_events s false h0]
      have hsimp : (if (jrFailPort s.avail s.core.n).isSome then false else false) = false := by split <;> rfl
      rw [hsimp]
      exact (jrEvents_spec s.core.n _ false).2.1 (Or.inr rfl)
    · unfold jrAttempt
      rw [if_neg (by omega)]
      split <;> simp
    · unfold jrAttempt
      rw [if_neg (by omega)]
      split
      · unfold jrStep; dsimp only
        cases hres : jrEvents s.core.n (fun p => s.avail.getD p none) false with
        | mk evs res => cases res <;> simp
      · unfold jrStep; dsimp only
        cases hres : jrEvents s.core.n (fun p => s.avail.getD p none) false with
        | mk evs res => cases res <;> simp
  · unfold jrAttempt
    rw [if_pos h0]
    exact ⟨(by intro e he; cases he), rfl, rfl⟩

end TbbVerif.C15.Join
