/- C08 / QRwN — the invariant of Model/C08NInv.lean is inductive: it holds in every reachable state of every program without
upgrade_to_writer, for any number of threads and every schedule. -/
import TbbVerif.Proofs.C08N.G_noUpg
import TbbVerif.Proofs.C08N.G_phase
import TbbVerif.Proofs.C08N.G_init
import TbbVerif.Proofs.C08N.G_mode
import TbbVerif.Proofs.C08N.G_ar
import TbbVerif.Proofs.C08N.G_state
import TbbVerif.Proofs.C08N.G_ghost
import TbbVerif.Proofs.C08N.G_tail
import TbbVerif.Proofs.C08N.G_pred
import TbbVerif.Proofs.C08N.G_prev
import TbbVerif.Proofs.C08N.G_own
import TbbVerif.Proofs.C08N.G_nxt
import TbbVerif.Proofs.C08N.G_a
import TbbVerif.Proofs.C08N.G_g
import TbbVerif.Proofs.C08N.G_next
import TbbVerif.Proofs.C08N.G_own2
import TbbVerif.Proofs.C08N.G_unb
import TbbVerif.Proofs.C08N.G_go
import TbbVerif.Proofs.C08N.Bad

namespace TbbVerif.C08.QRwN

theorem inv_step (st : St) (t : Tid) (h : Inv st) : Inv (step st t) :=
  { noUpg := pres_noUpg st t h,
    phase := pres_phase st t h,
    init := pres_init st t h,
    mode := pres_mode st t h,
    ar := pres_ar st t h,
    state := pres_state st t h,
    ghost := pres_ghost st t h,
    tail := pres_tail st t h,
    pred := pres_pred st t h,
    prev := pres_prev st t h,
    own := pres_own st t h,
    nxt := pres_nxt st t h,
    a := pres_a st t h,
    g := pres_g st t h,
    next := pres_next st t h,
    own2 := pres_own2 st t h,
    unb := pres_unb st t h,
    go := pres_go st t h,
    bad := pres_bad st t h }

theorem inv_reachable (progs : List (List Op)) (hn : noUpgProg progs) (sched : List Tid) : Inv ((sys progs).run sched) :=
  Sys.inv_run (sys progs) Inv (inv_init progs hn) (fun s t h => inv_step s t h) sched

end TbbVerif.C08.QRwN
