/- C08 / QRwN — step-level facts about try_acquire and downgrade_to_reader used by the property theorems. -/
import TbbVerif.Proofs.C08N.Step
import TbbVerif.Proofs.C08N.Safe

namespace TbbVerif.C08.QRwN

/-- the last access of try_acquire: the CAS on q_tail -/
theorem tCas_step (st : St) (t : Tid) (op : Op) (r : List Op) (hops : (st.loc t).ops = op :: r) (hpc : (st.loc t).pc = .tCas) :
    let st' := step st t
    (st.tail = 0 → ((st'.loc t).results = 1 :: (st.loc t).results ∧ st'.tail = P t ∧
        st'.held t = (if (st.loc t).w then 2 else 1) ∧ (st'.loc t).pc = .start ∧ (st'.loc t).ops = r)) ∧
    (st.tail ≠ 0 → ((st'.loc t).results = 0 :: (st.loc t).results ∧ st'.tail = st.tail ∧ st'.held = st.held ∧
        st'.prev = st.prev ∧ st'.next = st.next ∧ st'.state = st.state ∧ st'.going = st.going ∧ st'.ilock = st.ilock ∧
        (st'.loc t).pc = .start ∧ (st'.loc t).ops = r)) := by
  simp only [step, stepOut, hops, hpc, s_tCas]
  refine ⟨fun h0 => ?_, fun h0 => ?_⟩
  · simp only [h0, ite_true]
    cases hw : (st.loc t).w <;> simp [qrw, hops]
  · simp [h0, qrw, hops]

/-- the first access of try_acquire: the load of q_tail -/
theorem tryStart_step (st : St) (t : Tid) (w : Bool) (r : List Op) (hops : (st.loc t).ops = .tryAcquire w :: r) (hpc : (st.loc t).pc = .start)
    (hh : st.held t = 0) (hu : st.upg t = false) :
    let st' := step st t
    (st.tail ≠ 0 → (st'.loc t).results = 0 :: (st.loc t).results ∧ (st'.loc t).pc = .start ∧ (st'.loc t).ops = r ∧ st'.held = st.held ∧ st'.tail = st.tail) ∧
    (st.tail = 0 → (st'.loc t).pc = .tPrev ∧ (st'.loc t).w = w) := by
  have hm : ¬(st.held t ≠ 0 ∨ st.upg t = true) := by simp [hh, hu]
  simp only [step, stepOut, hops, hpc, startOut, hm, ite_false]
  refine ⟨fun h0 => ?_, fun h0 => ?_⟩
  · simp [h0, qrw, hops]
  · simp [h0, qrw]

/-- every access of try_acquire between the load and the CAS advances the program counter: try_acquire never waits -/
theorem try_progress (st : St) (t : Tid) (op : Op) (r : List Op) (hops : (st.loc t).ops = op :: r) :
    ((st.loc t).pc = .tPrev → ((step st t).loc t).pc = .tNext) ∧ ((st.loc t).pc = .tNext → ((step st t).loc t).pc = .tGoing) ∧
    ((st.loc t).pc = .tGoing → ((step st t).loc t).pc = .tState) ∧ ((st.loc t).pc = .tState → ((step st t).loc t).pc = .tIlock) ∧
    ((st.loc t).pc = .tIlock → ((step st t).loc t).pc = .tCas) := by
  refine ⟨?_, ?_, ?_, ?_, ?_⟩ <;> intro hpc <;> simp [step, stepOut, hops, hpc, qrw]

/-- the first access of downgrade_to_reader turns the holding writer into a holding reader, in one step -/
theorem downgradeStart_step (st : St) (t : Tid) (r : List Op) (hops : (st.loc t).ops = .downgrade :: r) (hpc : (st.loc t).pc = .start)
    (hh : st.held t = 2) : (step st t).held t = 1 := by
  have hm : ¬ st.held t ≠ 2 := by simp [hh]
  simp only [step, stepOut, hops, hpc, startOut, hm, ite_false]
  simp [qrw]

end TbbVerif.C08.QRwN
