/- C08 / QRwN — what the invariant (Model/C08NInv.lean) gives: exclusion, queue order, truthful try-acquire, atomic downgrade. -/
import TbbVerif.Proofs.C08N.Basic
import TbbVerif.Proofs.C08N.Acc

namespace TbbVerif.C08.QRwN
variable {st : St}

/-- below a head that is a writer nobody else is entitled -/
theorem no_entitled_behind_writer (h : Inv st) (a : Tid) (ha : st.inq a = true) (hw : st.isW a = true) (hg : st.gpred a = 0) :
    ∀ n j, st.pos j = n → st.inq j = true → st.gr j = true → j ≠ a → False := by
  intro n
  induction n using Nat.strongRecOn with
  | _ n ih =>
    intro j hp hj hgr hne
    by_cases h0 : st.gpred j = 0
    · exact h.g_2 a j (Ne.symm hne) ha hj (by rw [hg, h0])
    · have hptr := h.ghost_2 j hj h0
      have e : st.gpred j = P (nodeOf (st.gpred j)) := hptr.2
      have hA := h.a_1 (nodeOf (st.gpred j)) j hj hgr e
      have hG := h.g_1 (nodeOf (st.gpred j)) j hj e
      by_cases hi : nodeOf (st.gpred j) = a
      · rw [hi] at hA; rw [hA.2.1] at hw; cases hw
      · exact ih (st.pos (nodeOf (st.gpred j))) (by omega) (nodeOf (st.gpred j)) rfl hG.1 hA.1 hi

/-- **exclusion** from the invariant: a writer that holds is the only holder -/
theorem excl_of_inv (h : Inv st) (a b : Tid) (ha : st.held a = 2) (hab : a ≠ b) : st.held b = 0 := by
  apply Classical.byContradiction; intro hb
  have pa := h.phase_4 a (by omega)
  have pb := h.phase_4 b hb
  exact no_entitled_behind_writer h a (h.phase_3 a pa.1) (h.phase_7 a ha) (h.pred_8 a ha) _ b rfl (h.phase_3 b pb.1) pb.1 (Ne.symm hab)

/-- a head that is also the tail is the only node in the queue -/
theorem only_node (h : Inv st) (t : Tid) (ht : st.inq t = true) (h0 : st.gpred t = 0) (htl : st.tail = P t) :
    ∀ n j, st.pos j = n → st.inq j = true → j = t := by
  intro n
  induction n using Nat.strongRecOn with
  | _ n ih =>
    intro j hp hj
    apply Classical.byContradiction; intro hne
    by_cases hj0 : st.gpred j = 0
    · exact h.g_2 t j (Ne.symm hne) ht hj (by rw [h0, hj0])
    · have e : st.gpred j = P (nodeOf (st.gpred j)) := (h.ghost_2 j hj hj0).2
      have hG := h.g_1 (nodeOf (st.gpred j)) j hj e
      have := ih _ (by omega) (nodeOf (st.gpred j)) rfl hG.1
      rw [this] at e
      rcases h.tail_3 j hj with h3 | h3
      · exact h3 (by rw [e, htl])
      · rw [htl] at h3; exact P_ne_zero t h3

theorem only_node' (h : Inv st) (t j : Tid) (ht : st.inq t = true) (h0 : st.gpred t = 0) (htl : st.tail = P t) (hj : st.inq j = true) : j = t :=
  only_node h t ht h0 htl _ j rfl hj

/-- every queued node has a head at or below its ticket -/
theorem head_below (h : Inv st) : ∀ n j, st.pos j = n → st.inq j = true → ∃ hd, st.inq hd = true ∧ st.gpred hd = 0 ∧ st.pos hd ≤ st.pos j := by
  intro n
  induction n using Nat.strongRecOn with
  | _ n ih =>
    intro j hp hj
    by_cases h0 : st.gpred j = 0
    · exact ⟨j, hj, h0, Nat.le_refl _⟩
    · have e : st.gpred j = P (nodeOf (st.gpred j)) := (h.ghost_2 j hj h0).2
      have hG := h.g_1 (nodeOf (st.gpred j)) j hj e
      obtain ⟨hd, h1, h2, h3⟩ := ih _ (by omega) (nodeOf (st.gpred j)) rfl hG.1
      exact ⟨hd, h1, h2, by omega⟩

/-- the node without predecessor has the smallest ticket in the queue -/
theorem head_minimal (h : Inv st) (hd j : Tid) (hh : st.inq hd = true) (h0 : st.gpred hd = 0) (hj : st.inq j = true) : st.pos hd ≤ st.pos j := by
  obtain ⟨hd', h1, h2, h3⟩ := head_below h _ j rfl hj
  by_cases e : hd' = hd
  · subst e; exact h3
  · exact (h.g_2 hd' hd e h1 hh (by rw [h0, h2])).elim

/-- `a` lies on the predecessor chain of `b` -/
inductive Anc (st : St) : Tid → Tid → Prop
  | pred (a b : Tid) (h : st.gpred b = P a) : Anc st a b
  | step (a c b : Tid) (h : st.gpred b = P c) (h' : Anc st a c) : Anc st a b

theorem anc_pos (h : Inv st) (a b : Tid) (hb : st.inq b = true) (hanc : Anc st a b) : st.inq a = true ∧ st.pos a < st.pos b := by
  induction hanc with
  | pred b e => exact h.g_1 a b hb e
  | step c b e _ ih =>
    have := h.g_1 c b hb e
    have := ih this.1
    exact ⟨this.1, by omega⟩

/-- the queue is a chain: every queued node with a smaller ticket is an ancestor -/
theorem anc_of_pos_lt (h : Inv st) : ∀ n a b, st.pos b = n → st.inq a = true → st.inq b = true → st.pos a < st.pos b → Anc st a b := by
  intro n
  induction n using Nat.strongRecOn with
  | _ n ih =>
    intro a b hp ha hb hlt
    by_cases h0 : st.gpred b = 0
    · have := head_minimal h b a hb h0 ha; omega
    · have e : st.gpred b = P (nodeOf (st.gpred b)) := (h.ghost_2 b hb h0).2
      generalize nodeOf (st.gpred b) = c at e
      have hG := h.g_1 c b hb e
      by_cases hca : c = a
      · subst hca; exact Anc.pred _ _ e
      · by_cases hlt2 : st.pos a < st.pos c
        · exact Anc.step a c b e (ih _ (by omega) a c rfl ha hG.1 hlt2)
        · -- pos c < pos a < pos b: c is an ancestor of a, its successor on that chain would be a second successor of c
          have hne : st.pos c ≠ st.pos a := fun hh => h.g_3 c a hca hG.1 ha hh
          have hanc : Anc st c a := ih _ (by omega) c a rfl hG.1 ha (by omega)
          exfalso
          -- find the successor x of c on the chain of a
          have key : ∀ x y, Anc st x y → st.inq y = true → st.pos y < st.pos b → st.gpred b = P x → False := by
            intro x y hxy
            induction hxy with
            | pred y e' =>
              intro hy hpy eb
              have : y ≠ b := fun hh => by rw [hh] at hpy; omega
              exact h.g_2 y b this hy hb (by rw [e', eb])
            | step z y e' _ ih' =>
              intro hy hpy eb
              have hz := h.g_1 z y hy e'
              exact ih' hz.1 (by omega) eb
          exact key c a hanc ha hlt e

/-- **queue order** from the invariant: a queued request that is entitled to the lock has only entitled, compatible (reader with reader)
requests queued before it — an earlier-queued conflicting request is never overtaken -/
theorem no_overtake_of_inv (h : Inv st) (a b : Tid) (ha : st.inq a = true) (hb : st.inq b = true) (hlt : st.pos a < st.pos b)
    (hgr : st.gr b = true) : st.gr a = true ∧ st.isW a = false ∧ st.isW b = false := by
  have hanc := anc_of_pos_lt h _ a b rfl ha hb hlt
  clear hlt ha
  induction hanc with
  | pred b e => exact h.a_1 a b hb hgr e
  | step c b e _ ih =>
    have h1 := h.a_1 c b hb hgr e
    have hc := (h.g_1 c b hb e).1
    have := ih hc h1.1
    exact ⟨this.1, this.2.1, h1.2.2⟩

end TbbVerif.C08.QRwN
