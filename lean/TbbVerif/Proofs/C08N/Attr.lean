/- C08 / QRwN — simp sets: `qrw` unfolds the per-pc step functions and the access primitives of Model/C08N.lean. -/
import Lean
register_simp_attr qrw
register_simp_attr qpc
register_simp_attr qconst
register_simp_attr qite
