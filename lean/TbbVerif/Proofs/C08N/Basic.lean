/- C08 / QRwN — generated case-split lemma for one step, pointer arithmetic, `upd` lemmas. -/
import TbbVerif.Model.C08NInv
import TbbVerif.Proofs.C08N.Attr
import TbbVerif.Proofs.C08N.ClsAlg

namespace TbbVerif.C08.QRwN

attribute [qconst] sWRITER sREADER sUNBLOCK sACTIVE sUPGREQ sUPGWAIT sUPGLOSER mWAITINGREADER mREADERorREQ mUPGRADING
attribute [qrw] s_aNext s_aGoing s_aState s_aIlock s_aXchg s_awLink s_awSpin s_arPst s_arCasU s_arReload s_arPrev s_arLink s_arSpin s_arCas s_arWaitN s_arSetA s_arLdN s_arGo s_tPrev s_tNext s_tGoing s_tState s_tIlock s_tCas s_rwLdN s_rwCasT s_rwSpinN s_rwLdN2 s_rwGo2 s_rwLdS s_rwLockI s_rwXchgP s_rwLoser s_rwGo1u s_rwPrev0 s_rwGo1 s_rrFadd s_rrTryP s_rrCasP s_rrRelP s_rrSetP s_rrLockI s_rrPN0 s_rrLdN s_rrCasT s_rrSpinN s_rrLdN3 s_rrXchgNP s_rrLdN4 s_rrPN s_rrUnlP s_rhLockI s_rhLdN s_rhCasT s_rhSpinN s_rhLdN2 s_rhGo2 s_rhXchgP s_rhGo1 s_rUnb s_rDone s_rInitI s_rInitG s_dLdN s_dSetR s_dLdT s_dCas s_dSpinN s_dLdN2 s_dLdS s_dGo s_dLdS2 s_dLoser s_dSetA s_uSetReq s_uLockI s_uCasT s_uSpinN s_uFaddN s_uLdS s_uGo s_uXchgP s_uUnb s_uLoopN s_uLoopS s_uLoopN2 s_uFixN s_uFixN2 s_uRelI s_uCasS s_uCasT2 s_uFaddP s_uTryP s_uCasPS s_uCasP s_uSpinP1 s_uLdP1 s_uSpinP2 s_uRelP2 s_uSetP s_uRelP s_uSpinP3 s_uLdP3 s_uPrev0 s_uWaitI s_uWaitG s_uLdRes s_uSetW s_uSetG startOut store load cas xchg fadd unblockOrWait goto St.rd St.wr St.lc St.deref St.grantR St.grantW St.enq St.deq St.own St.ownW St.handover St.entitle St.entitleIf Loc.done tailEv ldEv stEv
attribute [qite] Pc.isStart_ite Pc.isInit_ite Pc.isAw_ite Pc.isAr_ite Pc.preLink_ite Pc.prePrev_ite Pc.blockedR_ite Pc.waitUnb_ite Pc.isRwIn_ite Pc.isRrTry_ite Pc.holdPred_ite Pc.holdPredOut_ite Pc.holdPredAny_ite Pc.predNextCleared_ite Pc.isRhIn_ite Pc.flagPc_ite Pc.selfOwnPre_ite Pc.postXchg_ite Pc.nxtLive_ite Pc.notInq_ite Pc.surelyInq_ite Pc.isD_ite Pc.isDpre_ite Pc.isRr_ite Pc.isUpgOnly_ite Pc.startOrD_ite Pc.noHold_ite Pc.initPrev0_ite Pc.initNext0_ite Pc.initGoing0_ite Pc.initStA_ite Pc.initStT_ite Pc.relEnd_ite Pc.rrInq_ite Pc.dEarly_ite Pc.dCasPc_ite Pc.arEarly_ite Pc.isArCasU_ite Pc.isArReload_ite Pc.arMid_ite Pc.isArSpin_ite Pc.arSt24_ite Pc.isArCas_ite Pc.arGranted_ite Pc.arSt4_ite Pc.arSt8_ite Pc.arNextNZ_ite Pc.rrTryPcs_ite Pc.rrTryCas_ite Pc.isRrRelP_ite Pc.isRrLdN3_ite Pc.isRrSetP_ite Pc.isRrFadd_ite Pc.isRrCasP_ite Pc.rwdHead_ite Pc.tmp0_ite Pc.ldN2_ite Pc.nxtPtr_ite Pc.casT_ite Pc.isDSetA_ite Pc.isDGo_ite Pc.goHead_ite Pc.isRwGo1_ite Pc.rrOut2_ite Pc.selfOwnNot3_ite Pc.postXchgNot3_ite Pc.pncNot3_ite Pc.afterGo2_ite Pc.afterDone_ite
attribute [qpc] Pc.isStart Pc.isInit Pc.isAw Pc.isAr Pc.preLink Pc.prePrev Pc.blockedR Pc.waitUnb Pc.isRwIn Pc.isRrTry Pc.holdPred Pc.holdPredOut Pc.holdPredAny Pc.predNextCleared Pc.isRhIn Pc.flagPc Pc.selfOwnPre Pc.postXchg Pc.nxtLive Pc.notInq Pc.surelyInq Pc.isD Pc.isDpre Pc.isRr Pc.isUpgOnly Pc.startOrD Pc.noHold Pc.initPrev0 Pc.initNext0 Pc.initGoing0 Pc.initStA Pc.initStT Pc.relEnd Pc.rrInq Pc.dEarly Pc.dCasPc Pc.arEarly Pc.isArCasU Pc.isArReload Pc.arMid Pc.isArSpin Pc.arSt24 Pc.isArCas Pc.arGranted Pc.arSt4 Pc.arSt8 Pc.arNextNZ Pc.rrTryPcs Pc.rrTryCas Pc.isRrRelP Pc.isRrLdN3 Pc.isRrSetP Pc.isRrFadd Pc.isRrCasP Pc.rwdHead Pc.tmp0 Pc.ldN2 Pc.nxtPtr Pc.casT Pc.isDSetA Pc.isDGo Pc.goHead Pc.isRwGo1 Pc.rrOut2 Pc.selfOwnNot3 Pc.postXchgNot3 Pc.pncNot3 Pc.afterGo2 Pc.afterDone

/-! ### pointers -/

theorem P_ne_zero (t : Nat) : P t ≠ 0 := by simp only [P]; omega
theorem P_inj {a b : Nat} (h : P a = P b) : a = b := by simp only [P] at h; omega
@[simp] theorem P_eq_iff {a b : Nat} : P a = P b ↔ a = b := ⟨P_inj, fun h => by rw [h]⟩
@[simp] theorem nodeOf_P (t : Nat) : nodeOf (P t) = t := by
  show (2 * (t + 1)) / 2 - 1 = t
  omega
@[simp] theorem flagOf_P (t : Nat) : flagOf (P t) = 0 := by simp only [flagOf, P]; omega
@[simp] theorem unflag_P (t : Nat) : unflag (P t) = P t := by simp only [unflag, P]; omega
@[simp] theorem unflag_P1 (t : Nat) : unflag (P t + 1) = P t := by simp only [unflag, P]; omega
@[simp] theorem flagOf_P1 (t : Nat) : flagOf (P t + 1) = 1 := by simp only [flagOf, P]; omega
@[simp] theorem unflag_zero : unflag 0 = 0 := rfl
@[simp] theorem flagOf_zero : flagOf 0 = 0 := rfl
@[simp] theorem badPtr_P (t : Nat) : badPtr (P t) = false := by
  have h1 : ¬ (2 * (t + 1) < 2) := by omega
  have h2 : 2 * (t + 1) % 2 = 0 := by omega
  simp [badPtr, P, h1, h2]
theorem P_ne_succ (a b : Nat) : P a ≠ P b + 1 := by simp only [P]; omega
theorem P_ne_one (a : Nat) : P a ≠ 1 := by simp only [P]; omega

@[grind =] theorem sWRITER_eq : sWRITER = 1 := rfl
@[grind =] theorem sREADER_eq : sREADER = 2 := rfl
@[grind =] theorem sUNBLOCK_eq : sUNBLOCK = 4 := rfl
@[grind =] theorem sACTIVE_eq : sACTIVE = 8 := rfl
@[grind =] theorem sUPGREQ_eq : sUPGREQ = 16 := rfl
@[grind =] theorem sUPGWAIT_eq : sUPGWAIT = 32 := rfl
@[grind =] theorem sUPGLOSER_eq : sUPGLOSER = 64 := rfl

attribute [grind =] unflag_zero flagOf_zero unflag_P1 flagOf_P1

/-! facts about the pointer encoding that `grind` instantiates for every `P t` it meets -/
grind_pattern P_ne_zero => P t
grind_pattern nodeOf_P => P t
grind_pattern flagOf_P => P t
grind_pattern unflag_P => P t
grind_pattern P_ne_one => P a
theorem flagOf_lt (p : Nat) : flagOf p = 0 ∨ flagOf p = 1 := by simp only [flagOf]; omega
grind_pattern flagOf_lt => flagOf p
theorem unflag_succ_of_flag0 (p : Nat) (h : flagOf p = 0) : unflag (p + 1) = p ∧ flagOf (p + 1) = 1 ∧ unflag p = p := by
  simp only [flagOf, unflag] at *; omega
grind_pattern unflag_succ_of_flag0 => unflag (p + 1)

theorem unflag_of_flag0 (p : Nat) (h : flagOf p = 0) : unflag p = p := by simp only [flagOf, unflag] at *; omega
grind_pattern unflag_of_flag0 => unflag p
theorem unflag_of_flag1 (p : Nat) (h : flagOf p = 1) : unflag p + 1 = p := by simp only [flagOf, unflag] at *; omega
grind_pattern unflag_of_flag1 => unflag p

theorem isPtr_iff {p : Nat} : isPtr p ↔ ∃ t, p = P t := by
  unfold isPtr
  constructor
  · intro h; exact ⟨nodeOf p, h.2⟩
  · rintro ⟨t, rfl⟩; simp [P_ne_zero]

theorem isPtr_P (t : Tid) : isPtr (P t) := isPtr_iff.mpr ⟨t, rfl⟩

/-! ### function update -/

@[simp] theorem upd_same {α : Type} (f : Tid → α) (t : Tid) (x : α) : upd f t x t = x := by simp [upd]
theorem upd_ne {α : Type} (f : Tid → α) {t i : Tid} (x : α) (h : i ≠ t) : upd f t x i = f i := by simp [upd, h]

/-! ### one step, by program counter -/

theorem step_nil (st : St) (t : Tid) (h : (st.loc t).ops = []) : step st t = st := by
  simp [step, stepOut, h]

theorem step_cases (st : St) (t : Tid) (motive : St → Prop)
    (h_nil : (st.loc t).ops = [] → motive st)
    (h_start : ∀ op r, (st.loc t).ops = op :: r → (st.loc t).pc = .start → motive (startOut st t op).st)
    (h_aNext : ∀ op r, (st.loc t).ops = op :: r → (st.loc t).pc = .aNext → motive (s_aNext st t).st)
    (h_aGoing : ∀ op r, (st.loc t).ops = op :: r → (st.loc t).pc = .aGoing → motive (s_aGoing st t).st)
    (h_aState : ∀ op r, (st.loc t).ops = op :: r → (st.loc t).pc = .aState → motive (s_aState st t).st)
    (h_aIlock : ∀ op r, (st.loc t).ops = op :: r → (st.loc t).pc = .aIlock → motive (s_aIlock st t).st)
    (h_aXchg : ∀ op r, (st.loc t).ops = op :: r → (st.loc t).pc = .aXchg → motive (s_aXchg st t).st)
    (h_awLink : ∀ op r, (st.loc t).ops = op :: r → (st.loc t).pc = .awLink → motive (s_awLink st t).st)
    (h_awSpin : ∀ op r, (st.loc t).ops = op :: r → (st.loc t).pc = .awSpin → motive (s_awSpin st t).st)
    (h_arPst : ∀ op r, (st.loc t).ops = op :: r → (st.loc t).pc = .arPst → motive (s_arPst st t).st)
    (h_arCasU : ∀ op r, (st.loc t).ops = op :: r → (st.loc t).pc = .arCasU → motive (s_arCasU st t).st)
    (h_arReload : ∀ op r, (st.loc t).ops = op :: r → (st.loc t).pc = .arReload → motive (s_arReload st t).st)
    (h_arPrev : ∀ op r, (st.loc t).ops = op :: r → (st.loc t).pc = .arPrev → motive (s_arPrev st t).st)
    (h_arLink : ∀ op r, (st.loc t).ops = op :: r → (st.loc t).pc = .arLink → motive (s_arLink st t).st)
    (h_arSpin : ∀ op r, (st.loc t).ops = op :: r → (st.loc t).pc = .arSpin → motive (s_arSpin st t).st)
    (h_arCas : ∀ op r, (st.loc t).ops = op :: r → (st.loc t).pc = .arCas → motive (s_arCas st t).st)
    (h_arWaitN : ∀ op r, (st.loc t).ops = op :: r → (st.loc t).pc = .arWaitN → motive (s_arWaitN st t).st)
    (h_arSetA : ∀ op r, (st.loc t).ops = op :: r → (st.loc t).pc = .arSetA → motive (s_arSetA st t).st)
    (h_arLdN : ∀ op r, (st.loc t).ops = op :: r → (st.loc t).pc = .arLdN → motive (s_arLdN st t).st)
    (h_arGo : ∀ op r, (st.loc t).ops = op :: r → (st.loc t).pc = .arGo → motive (s_arGo st t).st)
    (h_tPrev : ∀ op r, (st.loc t).ops = op :: r → (st.loc t).pc = .tPrev → motive (s_tPrev st t).st)
    (h_tNext : ∀ op r, (st.loc t).ops = op :: r → (st.loc t).pc = .tNext → motive (s_tNext st t).st)
    (h_tGoing : ∀ op r, (st.loc t).ops = op :: r → (st.loc t).pc = .tGoing → motive (s_tGoing st t).st)
    (h_tState : ∀ op r, (st.loc t).ops = op :: r → (st.loc t).pc = .tState → motive (s_tState st t).st)
    (h_tIlock : ∀ op r, (st.loc t).ops = op :: r → (st.loc t).pc = .tIlock → motive (s_tIlock st t).st)
    (h_tCas : ∀ op r, (st.loc t).ops = op :: r → (st.loc t).pc = .tCas → motive (s_tCas st t).st)
    (h_rwLdN : ∀ op r, (st.loc t).ops = op :: r → (st.loc t).pc = .rwLdN → motive (s_rwLdN st t).st)
    (h_rwCasT : ∀ op r, (st.loc t).ops = op :: r → (st.loc t).pc = .rwCasT → motive (s_rwCasT st t).st)
    (h_rwSpinN : ∀ op r, (st.loc t).ops = op :: r → (st.loc t).pc = .rwSpinN → motive (s_rwSpinN st t).st)
    (h_rwLdN2 : ∀ op r, (st.loc t).ops = op :: r → (st.loc t).pc = .rwLdN2 → motive (s_rwLdN2 st t).st)
    (h_rwGo2 : ∀ op r, (st.loc t).ops = op :: r → (st.loc t).pc = .rwGo2 → motive (s_rwGo2 st t).st)
    (h_rwLdS : ∀ op r, (st.loc t).ops = op :: r → (st.loc t).pc = .rwLdS → motive (s_rwLdS st t).st)
    (h_rwLockI : ∀ op r, (st.loc t).ops = op :: r → (st.loc t).pc = .rwLockI → motive (s_rwLockI st t).st)
    (h_rwXchgP : ∀ op r, (st.loc t).ops = op :: r → (st.loc t).pc = .rwXchgP → motive (s_rwXchgP st t).st)
    (h_rwLoser : ∀ op r, (st.loc t).ops = op :: r → (st.loc t).pc = .rwLoser → motive (s_rwLoser st t).st)
    (h_rwGo1u : ∀ op r, (st.loc t).ops = op :: r → (st.loc t).pc = .rwGo1u → motive (s_rwGo1u st t).st)
    (h_rwPrev0 : ∀ op r, (st.loc t).ops = op :: r → (st.loc t).pc = .rwPrev0 → motive (s_rwPrev0 st t).st)
    (h_rwGo1 : ∀ op r, (st.loc t).ops = op :: r → (st.loc t).pc = .rwGo1 → motive (s_rwGo1 st t).st)
    (h_rrFadd : ∀ op r, (st.loc t).ops = op :: r → (st.loc t).pc = .rrFadd → motive (s_rrFadd st t).st)
    (h_rrTryP : ∀ op r, (st.loc t).ops = op :: r → (st.loc t).pc = .rrTryP → motive (s_rrTryP st t).st)
    (h_rrCasP : ∀ op r, (st.loc t).ops = op :: r → (st.loc t).pc = .rrCasP → motive (s_rrCasP st t).st)
    (h_rrRelP : ∀ op r, (st.loc t).ops = op :: r → (st.loc t).pc = .rrRelP → motive (s_rrRelP st t).st)
    (h_rrSetP : ∀ op r, (st.loc t).ops = op :: r → (st.loc t).pc = .rrSetP → motive (s_rrSetP st t).st)
    (h_rrLockI : ∀ op r, (st.loc t).ops = op :: r → (st.loc t).pc = .rrLockI → motive (s_rrLockI st t).st)
    (h_rrPN0 : ∀ op r, (st.loc t).ops = op :: r → (st.loc t).pc = .rrPN0 → motive (s_rrPN0 st t).st)
    (h_rrLdN : ∀ op r, (st.loc t).ops = op :: r → (st.loc t).pc = .rrLdN → motive (s_rrLdN st t).st)
    (h_rrCasT : ∀ op r, (st.loc t).ops = op :: r → (st.loc t).pc = .rrCasT → motive (s_rrCasT st t).st)
    (h_rrSpinN : ∀ op r, (st.loc t).ops = op :: r → (st.loc t).pc = .rrSpinN → motive (s_rrSpinN st t).st)
    (h_rrLdN3 : ∀ op r, (st.loc t).ops = op :: r → (st.loc t).pc = .rrLdN3 → motive (s_rrLdN3 st t).st)
    (h_rrXchgNP : ∀ op r, (st.loc t).ops = op :: r → (st.loc t).pc = .rrXchgNP → motive (s_rrXchgNP st t).st)
    (h_rrLdN4 : ∀ op r, (st.loc t).ops = op :: r → (st.loc t).pc = .rrLdN4 → motive (s_rrLdN4 st t).st)
    (h_rrPN : ∀ op r, (st.loc t).ops = op :: r → (st.loc t).pc = .rrPN → motive (s_rrPN st t).st)
    (h_rrUnlP : ∀ op r, (st.loc t).ops = op :: r → (st.loc t).pc = .rrUnlP → motive (s_rrUnlP st t).st)
    (h_rhLockI : ∀ op r, (st.loc t).ops = op :: r → (st.loc t).pc = .rhLockI → motive (s_rhLockI st t).st)
    (h_rhLdN : ∀ op r, (st.loc t).ops = op :: r → (st.loc t).pc = .rhLdN → motive (s_rhLdN st t).st)
    (h_rhCasT : ∀ op r, (st.loc t).ops = op :: r → (st.loc t).pc = .rhCasT → motive (s_rhCasT st t).st)
    (h_rhSpinN : ∀ op r, (st.loc t).ops = op :: r → (st.loc t).pc = .rhSpinN → motive (s_rhSpinN st t).st)
    (h_rhLdN2 : ∀ op r, (st.loc t).ops = op :: r → (st.loc t).pc = .rhLdN2 → motive (s_rhLdN2 st t).st)
    (h_rhGo2 : ∀ op r, (st.loc t).ops = op :: r → (st.loc t).pc = .rhGo2 → motive (s_rhGo2 st t).st)
    (h_rhXchgP : ∀ op r, (st.loc t).ops = op :: r → (st.loc t).pc = .rhXchgP → motive (s_rhXchgP st t).st)
    (h_rhGo1 : ∀ op r, (st.loc t).ops = op :: r → (st.loc t).pc = .rhGo1 → motive (s_rhGo1 st t).st)
    (h_rUnb : ∀ op r, (st.loc t).ops = op :: r → (st.loc t).pc = .rUnb → motive (s_rUnb st t).st)
    (h_rDone : ∀ op r, (st.loc t).ops = op :: r → (st.loc t).pc = .rDone → motive (s_rDone st t).st)
    (h_rInitI : ∀ op r, (st.loc t).ops = op :: r → (st.loc t).pc = .rInitI → motive (s_rInitI st t).st)
    (h_rInitG : ∀ op r, (st.loc t).ops = op :: r → (st.loc t).pc = .rInitG → motive (s_rInitG st t).st)
    (h_dLdN : ∀ op r, (st.loc t).ops = op :: r → (st.loc t).pc = .dLdN → motive (s_dLdN st t).st)
    (h_dSetR : ∀ op r, (st.loc t).ops = op :: r → (st.loc t).pc = .dSetR → motive (s_dSetR st t).st)
    (h_dLdT : ∀ op r, (st.loc t).ops = op :: r → (st.loc t).pc = .dLdT → motive (s_dLdT st t).st)
    (h_dCas : ∀ op r, (st.loc t).ops = op :: r → (st.loc t).pc = .dCas → motive (s_dCas st t).st)
    (h_dSpinN : ∀ op r, (st.loc t).ops = op :: r → (st.loc t).pc = .dSpinN → motive (s_dSpinN st t).st)
    (h_dLdN2 : ∀ op r, (st.loc t).ops = op :: r → (st.loc t).pc = .dLdN2 → motive (s_dLdN2 st t).st)
    (h_dLdS : ∀ op r, (st.loc t).ops = op :: r → (st.loc t).pc = .dLdS → motive (s_dLdS st t).st)
    (h_dGo : ∀ op r, (st.loc t).ops = op :: r → (st.loc t).pc = .dGo → motive (s_dGo st t).st)
    (h_dLdS2 : ∀ op r, (st.loc t).ops = op :: r → (st.loc t).pc = .dLdS2 → motive (s_dLdS2 st t).st)
    (h_dLoser : ∀ op r, (st.loc t).ops = op :: r → (st.loc t).pc = .dLoser → motive (s_dLoser st t).st)
    (h_dSetA : ∀ op r, (st.loc t).ops = op :: r → (st.loc t).pc = .dSetA → motive (s_dSetA st t).st)
    (h_uSetReq : ∀ op r, (st.loc t).ops = op :: r → (st.loc t).pc = .uSetReq → motive (s_uSetReq st t).st)
    (h_uLockI : ∀ op r, (st.loc t).ops = op :: r → (st.loc t).pc = .uLockI → motive (s_uLockI st t).st)
    (h_uCasT : ∀ op r, (st.loc t).ops = op :: r → (st.loc t).pc = .uCasT → motive (s_uCasT st t).st)
    (h_uSpinN : ∀ op r, (st.loc t).ops = op :: r → (st.loc t).pc = .uSpinN → motive (s_uSpinN st t).st)
    (h_uFaddN : ∀ op r, (st.loc t).ops = op :: r → (st.loc t).pc = .uFaddN → motive (s_uFaddN st t).st)
    (h_uLdS : ∀ op r, (st.loc t).ops = op :: r → (st.loc t).pc = .uLdS → motive (s_uLdS st t).st)
    (h_uGo : ∀ op r, (st.loc t).ops = op :: r → (st.loc t).pc = .uGo → motive (s_uGo st t).st)
    (h_uXchgP : ∀ op r, (st.loc t).ops = op :: r → (st.loc t).pc = .uXchgP → motive (s_uXchgP st t).st)
    (h_uUnb : ∀ op r, (st.loc t).ops = op :: r → (st.loc t).pc = .uUnb → motive (s_uUnb st t).st)
    (h_uLoopN : ∀ op r, (st.loc t).ops = op :: r → (st.loc t).pc = .uLoopN → motive (s_uLoopN st t).st)
    (h_uLoopS : ∀ op r, (st.loc t).ops = op :: r → (st.loc t).pc = .uLoopS → motive (s_uLoopS st t).st)
    (h_uLoopN2 : ∀ op r, (st.loc t).ops = op :: r → (st.loc t).pc = .uLoopN2 → motive (s_uLoopN2 st t).st)
    (h_uFixN : ∀ op r, (st.loc t).ops = op :: r → (st.loc t).pc = .uFixN → motive (s_uFixN st t).st)
    (h_uFixN2 : ∀ op r, (st.loc t).ops = op :: r → (st.loc t).pc = .uFixN2 → motive (s_uFixN2 st t).st)
    (h_uRelI : ∀ op r, (st.loc t).ops = op :: r → (st.loc t).pc = .uRelI → motive (s_uRelI st t).st)
    (h_uCasS : ∀ op r, (st.loc t).ops = op :: r → (st.loc t).pc = .uCasS → motive (s_uCasS st t).st)
    (h_uCasT2 : ∀ op r, (st.loc t).ops = op :: r → (st.loc t).pc = .uCasT2 → motive (s_uCasT2 st t).st)
    (h_uFaddP : ∀ op r, (st.loc t).ops = op :: r → (st.loc t).pc = .uFaddP → motive (s_uFaddP st t).st)
    (h_uTryP : ∀ op r, (st.loc t).ops = op :: r → (st.loc t).pc = .uTryP → motive (s_uTryP st t).st)
    (h_uCasPS : ∀ op r, (st.loc t).ops = op :: r → (st.loc t).pc = .uCasPS → motive (s_uCasPS st t).st)
    (h_uCasP : ∀ op r, (st.loc t).ops = op :: r → (st.loc t).pc = .uCasP → motive (s_uCasP st t).st)
    (h_uSpinP1 : ∀ op r, (st.loc t).ops = op :: r → (st.loc t).pc = .uSpinP1 → motive (s_uSpinP1 st t).st)
    (h_uLdP1 : ∀ op r, (st.loc t).ops = op :: r → (st.loc t).pc = .uLdP1 → motive (s_uLdP1 st t).st)
    (h_uSpinP2 : ∀ op r, (st.loc t).ops = op :: r → (st.loc t).pc = .uSpinP2 → motive (s_uSpinP2 st t).st)
    (h_uRelP2 : ∀ op r, (st.loc t).ops = op :: r → (st.loc t).pc = .uRelP2 → motive (s_uRelP2 st t).st)
    (h_uSetP : ∀ op r, (st.loc t).ops = op :: r → (st.loc t).pc = .uSetP → motive (s_uSetP st t).st)
    (h_uRelP : ∀ op r, (st.loc t).ops = op :: r → (st.loc t).pc = .uRelP → motive (s_uRelP st t).st)
    (h_uSpinP3 : ∀ op r, (st.loc t).ops = op :: r → (st.loc t).pc = .uSpinP3 → motive (s_uSpinP3 st t).st)
    (h_uLdP3 : ∀ op r, (st.loc t).ops = op :: r → (st.loc t).pc = .uLdP3 → motive (s_uLdP3 st t).st)
    (h_uPrev0 : ∀ op r, (st.loc t).ops = op :: r → (st.loc t).pc = .uPrev0 → motive (s_uPrev0 st t).st)
    (h_uWaitI : ∀ op r, (st.loc t).ops = op :: r → (st.loc t).pc = .uWaitI → motive (s_uWaitI st t).st)
    (h_uWaitG : ∀ op r, (st.loc t).ops = op :: r → (st.loc t).pc = .uWaitG → motive (s_uWaitG st t).st)
    (h_uLdRes : ∀ op r, (st.loc t).ops = op :: r → (st.loc t).pc = .uLdRes → motive (s_uLdRes st t).st)
    (h_uSetW : ∀ op r, (st.loc t).ops = op :: r → (st.loc t).pc = .uSetW → motive (s_uSetW st t).st)
    (h_uSetG : ∀ op r, (st.loc t).ops = op :: r → (st.loc t).pc = .uSetG → motive (s_uSetG st t).st)
    : motive (step st t) := by
  cases hops : (st.loc t).ops with
  | nil => rw [step_nil st t hops]; exact h_nil hops
  | cons op r =>
    cases hpc : (st.loc t).pc with
    | start => have := h_start op r hops hpc; simpa [step, stepOut, hops, hpc] using this
    | aNext => have := h_aNext op r hops hpc; simpa [step, stepOut, hops, hpc] using this
    | aGoing => have := h_aGoing op r hops hpc; simpa [step, stepOut, hops, hpc] using this
    | aState => have := h_aState op r hops hpc; simpa [step, stepOut, hops, hpc] using this
    | aIlock => have := h_aIlock op r hops hpc; simpa [step, stepOut, hops, hpc] using this
    | aXchg => have := h_aXchg op r hops hpc; simpa [step, stepOut, hops, hpc] using this
    | awLink => have := h_awLink op r hops hpc; simpa [step, stepOut, hops, hpc] using this
    | awSpin => have := h_awSpin op r hops hpc; simpa [step, stepOut, hops, hpc] using this
    | arPst => have := h_arPst op r hops hpc; simpa [step, stepOut, hops, hpc] using this
    | arCasU => have := h_arCasU op r hops hpc; simpa [step, stepOut, hops, hpc] using this
    | arReload => have := h_arReload op r hops hpc; simpa [step, stepOut, hops, hpc] using this
    | arPrev => have := h_arPrev op r hops hpc; simpa [step, stepOut, hops, hpc] using this
    | arLink => have := h_arLink op r hops hpc; simpa [step, stepOut, hops, hpc] using this
    | arSpin => have := h_arSpin op r hops hpc; simpa [step, stepOut, hops, hpc] using this
    | arCas => have := h_arCas op r hops hpc; simpa [step, stepOut, hops, hpc] using this
    | arWaitN => have := h_arWaitN op r hops hpc; simpa [step, stepOut, hops, hpc] using this
    | arSetA => have := h_arSetA op r hops hpc; simpa [step, stepOut, hops, hpc] using this
    | arLdN => have := h_arLdN op r hops hpc; simpa [step, stepOut, hops, hpc] using this
    | arGo => have := h_arGo op r hops hpc; simpa [step, stepOut, hops, hpc] using this
    | tPrev => have := h_tPrev op r hops hpc; simpa [step, stepOut, hops, hpc] using this
    | tNext => have := h_tNext op r hops hpc; simpa [step, stepOut, hops, hpc] using this
    | tGoing => have := h_tGoing op r hops hpc; simpa [step, stepOut, hops, hpc] using this
    | tState => have := h_tState op r hops hpc; simpa [step, stepOut, hops, hpc] using this
    | tIlock => have := h_tIlock op r hops hpc; simpa [step, stepOut, hops, hpc] using this
    | tCas => have := h_tCas op r hops hpc; simpa [step, stepOut, hops, hpc] using this
    | rwLdN => have := h_rwLdN op r hops hpc; simpa [step, stepOut, hops, hpc] using this
    | rwCasT => have := h_rwCasT op r hops hpc; simpa [step, stepOut, hops, hpc] using this
    | rwSpinN => have := h_rwSpinN op r hops hpc; simpa [step, stepOut, hops, hpc] using this
    | rwLdN2 => have := h_rwLdN2 op r hops hpc; simpa [step, stepOut, hops, hpc] using this
    | rwGo2 => have := h_rwGo2 op r hops hpc; simpa [step, stepOut, hops, hpc] using this
    | rwLdS => have := h_rwLdS op r hops hpc; simpa [step, stepOut, hops, hpc] using this
    | rwLockI => have := h_rwLockI op r hops hpc; simpa [step, stepOut, hops, hpc] using this
    | rwXchgP => have := h_rwXchgP op r hops hpc; simpa [step, stepOut, hops, hpc] using this
    | rwLoser => have := h_rwLoser op r hops hpc; simpa [step, stepOut, hops, hpc] using this
    | rwGo1u => have := h_rwGo1u op r hops hpc; simpa [step, stepOut, hops, hpc] using this
    | rwPrev0 => have := h_rwPrev0 op r hops hpc; simpa [step, stepOut, hops, hpc] using this
    | rwGo1 => have := h_rwGo1 op r hops hpc; simpa [step, stepOut, hops, hpc] using this
    | rrFadd => have := h_rrFadd op r hops hpc; simpa [step, stepOut, hops, hpc] using this
    | rrTryP => have := h_rrTryP op r hops hpc; simpa [step, stepOut, hops, hpc] using this
    | rrCasP => have := h_rrCasP op r hops hpc; simpa [step, stepOut, hops, hpc] using this
    | rrRelP => have := h_rrRelP op r hops hpc; simpa [step, stepOut, hops, hpc] using this
    | rrSetP => have := h_rrSetP op r hops hpc; simpa [step, stepOut, hops, hpc] using this
    | rrLockI => have := h_rrLockI op r hops hpc; simpa [step, stepOut, hops, hpc] using this
    | rrPN0 => have := h_rrPN0 op r hops hpc; simpa [step, stepOut, hops, hpc] using this
    | rrLdN => have := h_rrLdN op r hops hpc; simpa [step, stepOut, hops, hpc] using this
    | rrCasT => have := h_rrCasT op r hops hpc; simpa [step, stepOut, hops, hpc] using this
    | rrSpinN => have := h_rrSpinN op r hops hpc; simpa [step, stepOut, hops, hpc] using this
    | rrLdN3 => have := h_rrLdN3 op r hops hpc; simpa [step, stepOut, hops, hpc] using this
    | rrXchgNP => have := h_rrXchgNP op r hops hpc; simpa [step, stepOut, hops, hpc] using this
    | rrLdN4 => have := h_rrLdN4 op r hops hpc; simpa [step, stepOut, hops, hpc] using this
    | rrPN => have := h_rrPN op r hops hpc; simpa [step, stepOut, hops, hpc] using this
    | rrUnlP => have := h_rrUnlP op r hops hpc; simpa [step, stepOut, hops, hpc] using this
    | rhLockI => have := h_rhLockI op r hops hpc; simpa [step, stepOut, hops, hpc] using this
    | rhLdN => have := h_rhLdN op r hops hpc; simpa [step, stepOut, hops, hpc] using this
    | rhCasT => have := h_rhCasT op r hops hpc; simpa [step, stepOut, hops, hpc] using this
    | rhSpinN => have := h_rhSpinN op r hops hpc; simpa [step, stepOut, hops, hpc] using this
    | rhLdN2 => have := h_rhLdN2 op r hops hpc; simpa [step, stepOut, hops, hpc] using this
    | rhGo2 => have := h_rhGo2 op r hops hpc; simpa [step, stepOut, hops, hpc] using this
    | rhXchgP => have := h_rhXchgP op r hops hpc; simpa [step, stepOut, hops, hpc] using this
    | rhGo1 => have := h_rhGo1 op r hops hpc; simpa [step, stepOut, hops, hpc] using this
    | rUnb => have := h_rUnb op r hops hpc; simpa [step, stepOut, hops, hpc] using this
    | rDone => have := h_rDone op r hops hpc; simpa [step, stepOut, hops, hpc] using this
    | rInitI => have := h_rInitI op r hops hpc; simpa [step, stepOut, hops, hpc] using this
    | rInitG => have := h_rInitG op r hops hpc; simpa [step, stepOut, hops, hpc] using this
    | dLdN => have := h_dLdN op r hops hpc; simpa [step, stepOut, hops, hpc] using this
    | dSetR => have := h_dSetR op r hops hpc; simpa [step, stepOut, hops, hpc] using this
    | dLdT => have := h_dLdT op r hops hpc; simpa [step, stepOut, hops, hpc] using this
    | dCas => have := h_dCas op r hops hpc; simpa [step, stepOut, hops, hpc] using this
    | dSpinN => have := h_dSpinN op r hops hpc; simpa [step, stepOut, hops, hpc] using this
    | dLdN2 => have := h_dLdN2 op r hops hpc; simpa [step, stepOut, hops, hpc] using this
    | dLdS => have := h_dLdS op r hops hpc; simpa [step, stepOut, hops, hpc] using this
    | dGo => have := h_dGo op r hops hpc; simpa [step, stepOut, hops, hpc] using this
    | dLdS2 => have := h_dLdS2 op r hops hpc; simpa [step, stepOut, hops, hpc] using this
    | dLoser => have := h_dLoser op r hops hpc; simpa [step, stepOut, hops, hpc] using this
    | dSetA => have := h_dSetA op r hops hpc; simpa [step, stepOut, hops, hpc] using this
    | uSetReq => have := h_uSetReq op r hops hpc; simpa [step, stepOut, hops, hpc] using this
    | uLockI => have := h_uLockI op r hops hpc; simpa [step, stepOut, hops, hpc] using this
    | uCasT => have := h_uCasT op r hops hpc; simpa [step, stepOut, hops, hpc] using this
    | uSpinN => have := h_uSpinN op r hops hpc; simpa [step, stepOut, hops, hpc] using this
    | uFaddN => have := h_uFaddN op r hops hpc; simpa [step, stepOut, hops, hpc] using this
    | uLdS => have := h_uLdS op r hops hpc; simpa [step, stepOut, hops, hpc] using this
    | uGo => have := h_uGo op r hops hpc; simpa [step, stepOut, hops, hpc] using this
    | uXchgP => have := h_uXchgP op r hops hpc; simpa [step, stepOut, hops, hpc] using this
    | uUnb => have := h_uUnb op r hops hpc; simpa [step, stepOut, hops, hpc] using this
    | uLoopN => have := h_uLoopN op r hops hpc; simpa [step, stepOut, hops, hpc] using this
    | uLoopS => have := h_uLoopS op r hops hpc; simpa [step, stepOut, hops, hpc] using this
    | uLoopN2 => have := h_uLoopN2 op r hops hpc; simpa [step, stepOut, hops, hpc] using this
    | uFixN => have := h_uFixN op r hops hpc; simpa [step, stepOut, hops, hpc] using this
    | uFixN2 => have := h_uFixN2 op r hops hpc; simpa [step, stepOut, hops, hpc] using this
    | uRelI => have := h_uRelI op r hops hpc; simpa [step, stepOut, hops, hpc] using this
    | uCasS => have := h_uCasS op r hops hpc; simpa [step, stepOut, hops, hpc] using this
    | uCasT2 => have := h_uCasT2 op r hops hpc; simpa [step, stepOut, hops, hpc] using this
    | uFaddP => have := h_uFaddP op r hops hpc; simpa [step, stepOut, hops, hpc] using this
    | uTryP => have := h_uTryP op r hops hpc; simpa [step, stepOut, hops, hpc] using this
    | uCasPS => have := h_uCasPS op r hops hpc; simpa [step, stepOut, hops, hpc] using this
    | uCasP => have := h_uCasP op r hops hpc; simpa [step, stepOut, hops, hpc] using this
    | uSpinP1 => have := h_uSpinP1 op r hops hpc; simpa [step, stepOut, hops, hpc] using this
    | uLdP1 => have := h_uLdP1 op r hops hpc; simpa [step, stepOut, hops, hpc] using this
    | uSpinP2 => have := h_uSpinP2 op r hops hpc; simpa [step, stepOut, hops, hpc] using this
    | uRelP2 => have := h_uRelP2 op r hops hpc; simpa [step, stepOut, hops, hpc] using this
    | uSetP => have := h_uSetP op r hops hpc; simpa [step, stepOut, hops, hpc] using this
    | uRelP => have := h_uRelP op r hops hpc; simpa [step, stepOut, hops, hpc] using this
    | uSpinP3 => have := h_uSpinP3 op r hops hpc; simpa [step, stepOut, hops, hpc] using this
    | uLdP3 => have := h_uLdP3 op r hops hpc; simpa [step, stepOut, hops, hpc] using this
    | uPrev0 => have := h_uPrev0 op r hops hpc; simpa [step, stepOut, hops, hpc] using this
    | uWaitI => have := h_uWaitI op r hops hpc; simpa [step, stepOut, hops, hpc] using this
    | uWaitG => have := h_uWaitG op r hops hpc; simpa [step, stepOut, hops, hpc] using this
    | uLdRes => have := h_uLdRes op r hops hpc; simpa [step, stepOut, hops, hpc] using this
    | uSetW => have := h_uSetW op r hops hpc; simpa [step, stepOut, hops, hpc] using this
    | uSetG => have := h_uSetG op r hops hpc; simpa [step, stepOut, hops, hpc] using this

end TbbVerif.C08.QRwN
